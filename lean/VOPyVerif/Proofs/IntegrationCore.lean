import VOPyVerif.Model.Core
import VOPyVerif.Proofs.AccuracyRegions
/-!
# Integration, generic part: the decision core is a run of `Steps` with computed oracles

`Core.pavebaCore` threads a table of displayed regions through the rounds and computes the oracles
of each round from it.  This file shows, for *any* region type `ρ` and any oracle functions
`dom cov : ρ → ρ → Bool`:

* `pavebaCore_eq_run` — the sets of the core are `Accuracy.pavebaRun` with the oracles
  `relOf dom (pavebaRegs … r)`, so every theorem about `pavebaRun` applies to the core;
* `pavebaCore_roundSound` — if the oracle functions are *sound for a membership predicate* (four
  facts about `dom`, `cov` on well-formed regions, discharged for balls and rectangles from C09/C10 in
  `Proofs/IntegrationBall.lean`, `Proofs/IntegrationRect.lean`) and the true mean of every design that
  is *refreshed* in round `r` (`S ∪ U`) lies in the region displayed for it in that round, then every
  round is `RoundSound`.  Members of `P ∖ U` are covered by the table: their entry is the region
  displayed when they were last active, and it still contains the truth;
* `pavebaCore_final` — hence conclusions (a) `accA` and (b, code units) `accT` at termination.
-/
namespace VOPy.Core
open VOPy VOPy.Steps VOPy.Accuracy

variable {ρ X : Type}

/-- the region table the decision phases of round `t` see (after `modeling()` of that round) -/
def pavebaRegs (K : Nat) (dom cov : ρ → ρ → Bool) (init : Nat → ρ) (fresh : Nat → Nat → ρ)
    (t : Nat) : Nat → ρ :=
  refresh (union (pavebaCore K dom cov init fresh t).S (pavebaCore K dom cov init fresh t).U)
    (fresh t) (pavebaCore K dom cov init fresh t).reg

theorem pavebaCore_succ_reg (K : Nat) (dom cov : ρ → ρ → Bool) (init : Nat → ρ)
    (fresh : Nat → Nat → ρ) (t : Nat) :
    (pavebaCore K dom cov init fresh (t + 1)).reg = pavebaRegs K dom cov init fresh t := rfl

/-- **The core is a `Steps` run with computed oracles.** -/
theorem pavebaCore_eq_run (K : Nat) (dom cov : ρ → ρ → Bool) (init : Nat → ρ)
    (fresh : Nat → Nat → ρ) : ∀ t,
    ((pavebaCore K dom cov init fresh t).S, (pavebaCore K dom cov init fresh t).P,
      (pavebaCore K dom cov init fresh t).U) =
    pavebaRun K (fun r => relOf dom (pavebaRegs K dom cov init fresh r))
      (fun r => relOf cov (pavebaRegs K dom cov init fresh r)) t := by
  intro t
  induction t with
  | zero => rfl
  | succ t ih =>
    simp only [pavebaRun]
    rw [← ih]
    rfl

section
variable (K : Nat) (dom cov : ρ → ρ → Bool) (init : Nat → ρ) (fresh : Nat → Nat → ρ)

theorem pavebaCore_S (t : Nat) : (pavebaCore K dom cov init fresh t).S =
    (pavebaRun K (fun r => relOf dom (pavebaRegs K dom cov init fresh r))
      (fun r => relOf cov (pavebaRegs K dom cov init fresh r)) t).1 :=
  congrArg (·.1) (pavebaCore_eq_run K dom cov init fresh t)

theorem pavebaCore_P (t : Nat) : (pavebaCore K dom cov init fresh t).P =
    (pavebaRun K (fun r => relOf dom (pavebaRegs K dom cov init fresh r))
      (fun r => relOf cov (pavebaRegs K dom cov init fresh r)) t).2.1 :=
  congrArg (·.2.1) (pavebaCore_eq_run K dom cov init fresh t)

theorem pavebaCore_U (t : Nat) : (pavebaCore K dom cov init fresh t).U =
    (pavebaRun K (fun r => relOf dom (pavebaRegs K dom cov init fresh r))
      (fun r => relOf cov (pavebaRegs K dom cov init fresh r)) t).2.2 :=
  congrArg (·.2.2) (pavebaCore_eq_run K dom cov init fresh t)

/-- an active design sees the region displayed for it in this round -/
theorem pavebaRegs_active (t i : Nat)
    (h : i ∈ (pavebaCore K dom cov init fresh t).S ∨ i ∈ (pavebaCore K dom cov init fresh t).U) :
    pavebaRegs K dom cov init fresh t i = fresh t i := by
  have hc : (union (pavebaCore K dom cov init fresh t).S (pavebaCore K dom cov init fresh t).U).contains i
      = true := by
    rw [List.contains_iff_mem]; exact mem_union.mpr h
  simp only [pavebaRegs, refresh, hc, if_true]

/-- a design that is not active keeps the region of the previous round -/
theorem pavebaRegs_inactive (t i : Nat)
    (h : ¬ (i ∈ (pavebaCore K dom cov init fresh (t + 1)).S ∨
      i ∈ (pavebaCore K dom cov init fresh (t + 1)).U)) :
    pavebaRegs K dom cov init fresh (t + 1) i = pavebaRegs K dom cov init fresh t i := by
  have hc : (union (pavebaCore K dom cov init fresh (t + 1)).S
      (pavebaCore K dom cov init fresh (t + 1)).U).contains i = false := by
    rw [Bool.eq_false_iff]; intro hc
    rw [List.contains_iff_mem] at hc; exact h (mem_union.mp hc)
  rw [pavebaRegs, refresh]
  simp only [hc, Bool.false_eq_true, if_false]
  rfl

end

/-- **Valid displayed regions give sound computed oracles.**  Points are of an arbitrary type `X`
(rational vectors for the executable statements, real vectors in `Proofs/IntegrationReal.lean`);
`memb a x` is "the point `x` lies in the region `a`", `wf a` "the region is well formed and non-degenerate"; `domR y x` stands for
"`y` dominates `x`" and `goodR x y` for "`y` does not exceed `x` beyond the tolerance".  The four
geometric facts are what C09 / C10 give for the executable predicates. -/
theorem pavebaCore_roundSound (dom cov : ρ → ρ → Bool) (memb : ρ → X → Prop) (wf : ρ → Prop)
    (domR goodR : X → X → Prop)
    (hds : ∀ a b x y, wf a → wf b → memb a x → memb b y → dom a b = true → domR y x)
    (hdt : ∀ a b c y, wf a → wf b → wf c → memb b y → dom a b = true → dom b c = true →
      dom a c = true)
    (hdi : ∀ a, wf a → dom a a = false)
    (hcs : ∀ a b x y, wf a → wf b → memb a x → memb b y → cov a b = false → goodR x y)
    (K : Nat) (mu : Nat → X) (init : Nat → ρ) (fresh : Nat → Nat → ρ) (T : Nat)
    (hvalid : ∀ r, r < T → ∀ i,
      (i ∈ (pavebaCore K dom cov init fresh r).S ∨ i ∈ (pavebaCore K dom cov init fresh r).U) →
      wf (fresh r i) ∧ memb (fresh r i) (mu i)) :
    ∀ r, r < T → RoundSound (fun j i => domR (mu j) (mu i)) (fun i j => goodR (mu i) (mu j))
      (relOf dom (pavebaRegs K dom cov init fresh r)) (relOf cov (pavebaRegs K dom cov init fresh r))
      (pavebaCore K dom cov init fresh r).S (pavebaCore K dom cov init fresh r).P
      (pavebaCore K dom cov init fresh r).U := by
  -- active designs: the table entry is the fresh region
  have hact : ∀ r, r < T → ∀ i,
      (i ∈ (pavebaCore K dom cov init fresh r).S ∨ i ∈ (pavebaCore K dom cov init fresh r).U) →
      wf (pavebaRegs K dom cov init fresh r i) ∧ memb (pavebaRegs K dom cov init fresh r i) (mu i) := by
    intro r hr i hi
    rw [pavebaRegs_active K dom cov init fresh r i hi]
    exact hvalid r hr i hi
  -- living designs (S ∪ P): the table entry contains the truth, refreshed or not
  have halive : ∀ r, r < T → ∀ i,
      (i ∈ (pavebaCore K dom cov init fresh r).S ∨ i ∈ (pavebaCore K dom cov init fresh r).P) →
      wf (pavebaRegs K dom cov init fresh r i) ∧ memb (pavebaRegs K dom cov init fresh r i) (mu i) := by
    intro r
    induction r with
    | zero =>
      intro h0 i hi
      rcases hi with hi | hi
      · exact hact 0 h0 i (Or.inl hi)
      · simp [pavebaCore] at hi
    | succ r ih =>
      intro hr i hi
      by_cases ha : i ∈ (pavebaCore K dom cov init fresh (r + 1)).S ∨
          i ∈ (pavebaCore K dom cov init fresh (r + 1)).U
      · exact hact (r + 1) hr i ha
      · rw [pavebaRegs_inactive K dom cov init fresh r i ha]
        apply ih (Nat.lt_of_succ_lt hr) i
        rw [pavebaCore_S, pavebaCore_P] at hi ⊢
        exact pavebaRun_alive_antitone K _ _ r i hi
  intro r hr
  have hUP : ∀ i, i ∈ (pavebaCore K dom cov init fresh r).U → i ∈ (pavebaCore K dom cov init fresh r).P := by
    intro i hi
    rw [pavebaCore_U] at hi
    rw [pavebaCore_P]
    exact pavebaRun_U_sub_P K _ _ r i hi
  refine ⟨?_, ?_, ?_, ?_⟩
  · intro i hi j hj _ hij
    obtain ⟨wi, mi⟩ := hact r hr i (Or.inl hi)
    obtain ⟨wj, mj⟩ := hact r hr j hj
    exact hds _ _ _ _ wi wj mi mj hij
  · intro i j k hi hj hk hij hjk
    obtain ⟨wi, _⟩ := hact r hr i hi
    obtain ⟨wj, mj⟩ := hact r hr j hj
    obtain ⟨wk, _⟩ := hact r hr k hk
    exact hdt _ _ _ _ wi wj wk mj hij hjk
  · intro i hi
    exact hdi _ (hact r hr i hi).1
  · intro i j hi hj _ hij
    obtain ⟨wi, mi⟩ := halive r hr i hi
    obtain ⟨wj, mj⟩ := halive r hr j hj
    exact hcs _ _ _ _ wi wj mi mj hij

/-- **Conclusions at termination for the core**, generic in the geometry: cone `W`, facet
thresholds `t`; the oracle functions are sound for `memb` with respect to `dominates W` and
`notCovers W t`; the truth of every refreshed design is in its displayed region; `S = ∅` after
round `T`.  Then (a) `accA` and (b, in the units of `t`) `accT` hold for the final `P`. -/
theorem pavebaCore_final (W : Mat) (t : Vec) (m K : Nat) (mu : Nat → Vec)
    (hmu : ∀ i, i < K → (mu i).length = m)
    (hpos : ∃ n, ∃ _ : n < W.length, ∃ h2 : n < t.length, 0 < t[n])
    (dom cov : ρ → ρ → Bool) (memb : ρ → Vec → Prop) (wf : ρ → Prop)
    (hds : ∀ a b x y, wf a → wf b → memb a x → memb b y → dom a b = true → dominates W y x = true)
    (hdt : ∀ a b c y, wf a → wf b → wf c → memb b y → dom a b = true → dom b c = true →
      dom a c = true)
    (hdi : ∀ a, wf a → dom a a = false)
    (hcs : ∀ a b x y, wf a → wf b → memb a x → memb b y → cov a b = false →
      notCovers W t x y = true)
    (init : Nat → ρ) (fresh : Nat → Nat → ρ) (T : Nat)
    (hvalid : ∀ r, r < T → ∀ i,
      (i ∈ (pavebaCore K dom cov init fresh r).S ∨ i ∈ (pavebaCore K dom cov init fresh r).U) →
      wf (fresh r i) ∧ memb (fresh r i) (mu i))
    (hfinal : (pavebaCore K dom cov init fresh T).S = []) :
    accA W K mu (pavebaCore K dom cov init fresh T).P = true ∧
    accT W t K mu (pavebaCore K dom cov init fresh T).P = true := by
  have hs := pavebaCore_roundSound dom cov memb wf (fun y x => dominates W y x = true)
    (fun x y => notCovers W t x y = true) hds hdt hdi hcs K mu init fresh T hvalid
  simp only [pavebaCore_S, pavebaCore_P, pavebaCore_U] at hs
  rw [pavebaCore_S] at hfinal
  rw [pavebaCore_P]
  -- the invariant of the PaVeBa family (Proofs/AccuracyPaveba.lean) on the run with computed oracles
  have h := paveba_run_inv (truth_of_means W t m K mu hmu hpos) _ _ T hs
  constructor
  · rw [accA_iff]
    intro i hi
    by_cases hiP : i ∈ (pavebaRun K (fun r => relOf dom (pavebaRegs K dom cov init fresh r))
        (fun r => relOf cov (pavebaRegs K dom cov init fresh r)) T).2.1
    · exact Or.inl hiP
    · right
      obtain ⟨j, hj, hji⟩ := h.covered i hi (by rw [hfinal]; simp) hiP
      rcases hj with hj | hj
      · rw [hfinal] at hj; simp at hj
      · exact ⟨j, hj, hji⟩
  · rw [accT_iff]
    intro i hi j hj
    exact Or.inr (h.acc i hi j hj)

/-! ### the executable premise checks mean what they say -/

theorem pavebaPremise_spec (wfB : ρ → Bool) (membB : ρ → Vec → Bool) (K : Nat)
    (dom cov : ρ → ρ → Bool) (init : Nat → ρ) (fresh : Nat → Nat → ρ) (mu : Nat → Vec) (T : Nat)
    (h : pavebaPremise wfB membB K dom cov init fresh mu T = true) :
    ∀ r, r < T → ∀ i,
      (i ∈ (pavebaCore K dom cov init fresh r).S ∨ i ∈ (pavebaCore K dom cov init fresh r).U) →
      wfB (fresh r i) = true ∧ membB (fresh r i) (mu i) = true := by
  intro r hr i hi
  simp only [pavebaPremise, pavebaPremiseAt, List.all_eq_true, List.mem_range, List.mem_append,
    Bool.and_eq_true] at h
  exact h r hr i hi

theorem vogpPremise_spec (membB : ρ → Vec → Bool) (K : Nat) (dom cov pess : ρ → ρ → Bool)
    (fresh : Nat → Nat → ρ) (mu : Nat → Vec) (T : Nat)
    (h : vogpPremise membB K dom cov pess fresh mu T = true) :
    ∀ r, r < T → ∀ i,
      (i ∈ (vogpCore K dom cov pess fresh r).1 ∨ i ∈ (vogpCore K dom cov pess fresh r).2) →
      membB (fresh r i) (mu i) = true := by
  intro r hr i hi
  simp only [vogpPremise, vogpPremiseAt, List.all_eq_true, List.mem_range, List.mem_append] at h
  exact h r hr i hi

theorem Ball.wfB_iff (m : Nat) (b : Ball) : b.wfB m = true ↔ b.c.length = m ∧ 0 < b.a := by
  simp [Ball.wfB]

/-! ### invariance of the core under a transformation of the regions (translation twins) -/

theorem refresh_map (T : ρ → ρ) (A : List Nat) (f o : Nat → ρ) :
    refresh A (fun i => T (f i)) (fun i => T (o i)) = fun i => T (refresh A f o i) := by
  funext i
  simp only [refresh]
  split <;> rfl

/-- **Twin runs of the core.**  Let `T` transform regions (e.g. translate them by a common vector) and
let the two oracle functions be invariant under `T` on the regions that occur (`ok`: e.g. "of
dimension `m`").  Then the core run on the transformed regions visits exactly the same `(S, P, U)`, and
its region table is the transformed table. -/
theorem pavebaCore_map (T : ρ → ρ) (ok : ρ → Prop) (dom cov : ρ → ρ → Bool)
    (hd : ∀ a b, ok a → ok b → dom (T a) (T b) = dom a b)
    (hc : ∀ a b, ok a → ok b → cov (T a) (T b) = cov a b)
    (K : Nat) (init : Nat → ρ) (fresh : Nat → Nat → ρ)
    (hinit : ∀ i, ok (init i)) (hfresh : ∀ r i, ok (fresh r i)) : ∀ t,
    (pavebaCore K dom cov (fun i => T (init i)) (fun r i => T (fresh r i)) t).S =
      (pavebaCore K dom cov init fresh t).S ∧
    (pavebaCore K dom cov (fun i => T (init i)) (fun r i => T (fresh r i)) t).P =
      (pavebaCore K dom cov init fresh t).P ∧
    (pavebaCore K dom cov (fun i => T (init i)) (fun r i => T (fresh r i)) t).U =
      (pavebaCore K dom cov init fresh t).U ∧
    (pavebaCore K dom cov (fun i => T (init i)) (fun r i => T (fresh r i)) t).reg =
      (fun i => T ((pavebaCore K dom cov init fresh t).reg i)) ∧
    ∀ i, ok ((pavebaCore K dom cov init fresh t).reg i) := by
  intro t
  induction t with
  | zero => exact ⟨rfl, rfl, rfl, rfl, hinit⟩
  | succ t ih =>
    obtain ⟨hS, hP, hU, hR, hok⟩ := ih
    have hok' : ∀ i, ok (refresh (Steps.union (pavebaCore K dom cov init fresh t).S
        (pavebaCore K dom cov init fresh t).U) (fresh t) (pavebaCore K dom cov init fresh t).reg i) := by
      intro i
      simp only [refresh]
      split
      · exact hfresh t i
      · exact hok i
    have hreg : refresh (Steps.union (pavebaCore K dom cov init fresh t).S
          (pavebaCore K dom cov init fresh t).U) (fun i => T (fresh t i))
          (fun i => T ((pavebaCore K dom cov init fresh t).reg i)) =
        fun i => T (refresh (Steps.union (pavebaCore K dom cov init fresh t).S
          (pavebaCore K dom cov init fresh t).U) (fresh t) (pavebaCore K dom cov init fresh t).reg i) :=
      refresh_map T _ _ _
    have hrd : ∀ (f : ρ → ρ → Bool), (∀ a b, ok a → ok b → f (T a) (T b) = f a b) →
        relOf f (fun i => T (refresh (Steps.union (pavebaCore K dom cov init fresh t).S
          (pavebaCore K dom cov init fresh t).U) (fresh t) (pavebaCore K dom cov init fresh t).reg i)) =
        relOf f (refresh (Steps.union (pavebaCore K dom cov init fresh t).S
          (pavebaCore K dom cov init fresh t).U) (fresh t) (pavebaCore K dom cov init fresh t).reg) := by
      intro f hf
      funext i j
      exact hf _ _ (hok' i) (hok' j)
    simp only [pavebaCore, pavebaStep, hS, hP, hU, hR, hreg, hrd dom hd, hrd cov hc]
    exact ⟨trivial, trivial, trivial, trivial, hok'⟩

/-- the same for VOGP / ε-PAL (three oracle functions, no table) -/
theorem vogpCore_map (T : ρ → ρ) (ok : ρ → Prop) (dom cov pess : ρ → ρ → Bool)
    (hd : ∀ a b, ok a → ok b → dom (T a) (T b) = dom a b)
    (hc : ∀ a b, ok a → ok b → cov (T a) (T b) = cov a b)
    (hp : ∀ a b, ok a → ok b → pess (T a) (T b) = pess a b)
    (K : Nat) (fresh : Nat → Nat → ρ) (hfresh : ∀ r i, ok (fresh r i)) :
    vogpCore K dom cov pess (fun r i => T (fresh r i)) = vogpCore K dom cov pess fresh := by
  have e : ∀ (f : ρ → ρ → Bool), (∀ a b, ok a → ok b → f (T a) (T b) = f a b) →
      (fun k => relOf f (fun i => T (fresh k i))) = fun k => relOf f (fresh k) := by
    intro f hf
    funext k i j
    exact hf _ _ (hfresh k i) (hfresh k j)
  simp only [vogpCore, e dom hd, e cov hc, e pess hp]

end VOPy.Core
