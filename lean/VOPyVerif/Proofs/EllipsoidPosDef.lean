import VOPyVerif.Proofs.EllipsoidQuad
import Mathlib.Analysis.Matrix.Order
/-!
# A positive definite real matrix factors as `L Lᵀ` with `L` invertible

Used to restate the ellipsoid theorem of C09 with the hypothesis "`Σ` positive definite" only.
-/
namespace VOPy.Ellipsoid
open Matrix
open scoped MatrixOrder

variable {m : ℕ}

theorem exists_factor_of_posDef (A : Matrix (Fin m) (Fin m) ℝ) (hA : A.PosDef) :
    ∃ L : Matrix (Fin m) (Fin m) ℝ, A = L * Lᵀ ∧ L.det ≠ 0 := by
  obtain ⟨B, hB⟩ := CStarAlgebra.nonneg_iff_eq_star_mul_self.mp hA.posSemidef.nonneg
  rw [star_eq_conjTranspose, conjTranspose_eq_transpose_of_trivial] at hB
  refine ⟨Bᵀ, by rw [transpose_transpose]; exact hB, ?_⟩
  have hpos := hA.det_pos
  rw [hB, det_mul, det_transpose] at hpos
  rw [det_transpose]
  intro h0
  rw [h0, mul_zero] at hpos
  exact lt_irrefl _ hpos

end VOPy.Ellipsoid
