import VOPyVerif.Model.Pessimistic
import Mathlib.Algebra.Order.Field.Basic
import Mathlib.Tactic.Ring
import Mathlib.Tactic.Linarith
import Mathlib.Tactic.FieldSimp
import Mathlib.Data.Rat.Cast.Order
/-!
# Helper lemmas for C11, part 1: boxes, vertices, convexity (generic ordered field) and soundness
of the exact-arithmetic model `Pess.checkDominates`.

The generic layer works over any linearly ordered field `K` with vectors `List K`, so the same
lemmas serve the rational statement (about the model's own `dot`/`dominates`) and the real one
(boxes of real points, bounds cast from `ℚ`).
-/
namespace VOPy.Pess
set_option linter.unusedSectionVars false
set_option linter.unusedSimpArgs false

section Generic
variable {K : Type} [Field K] [LinearOrder K] [IsStrictOrderedRing K]

/-- dot product with the truncation convention of the model's `dot` -/
def gdot : List K → List K → K
  | a :: as, b :: bs => a * b + gdot as bs
  | _, _ => 0

/-- `x + t (y − x)` componentwise: the point of the segment `[x, y]` at parameter `t` -/
def comb (t : K) (x y : List K) : List K := List.zipWith (fun a b => a + t * (b - a)) x y

def gsub (x y : List K) : List K := List.zipWith (· - ·) x y

/-- `x ∈ ∏ [lᵢ, uᵢ]` (all three lists of the same length) -/
def GInBox : List K → List K → List K → Prop
  | [], [], [] => True
  | l :: ls, u :: us, x :: xs => l ≤ x ∧ x ≤ u ∧ GInBox ls us xs
  | _, _, _ => False

/-- vertices in `itertools.product` order (generic copy of `Pess.vertices`) -/
def gvertices : List K → List K → List (List K)
  | l :: ls, u :: us => (gvertices ls us).map (l :: ·) ++ (gvertices ls us).map (u :: ·)
  | _, _ => [[]]

@[simp] theorem comb_nil (t : K) : comb t ([] : List K) [] = [] := rfl
@[simp] theorem comb_cons (t a b : K) (x y : List K) :
    comb t (a :: x) (b :: y) = (a + t * (b - a)) :: comb t x y := rfl

theorem comb_length (t : K) (x y : List K) (h : x.length = y.length) :
    (comb t x y).length = x.length := by
  simp [comb, h]

theorem comb_self (t : K) (x : List K) : comb t x x = x := by
  induction x with
  | nil => rfl
  | cons a x ih => simp [ih]

theorem gdot_comb (t : K) : ∀ (w x y : List K), x.length = y.length →
    gdot w (comb t x y) = gdot w x + t * (gdot w y - gdot w x)
  | [], x, y, _ => by
    cases x <;> cases y <;> simp [gdot, comb]
  | a :: w, [], [], _ => by simp [gdot]
  | a :: w, b :: x, [], h => by simp at h
  | a :: w, [], c :: y, h => by simp at h
  | a :: w, b :: x, c :: y, h => by
    have ih := gdot_comb t w x y (by simpa using h)
    simp only [comb_cons, gdot, ih]
    ring

theorem gdot_gsub : ∀ (w x y : List K), x.length = y.length →
    gdot w (gsub x y) = gdot w x - gdot w y
  | [], x, y, _ => by cases x <;> cases y <;> simp [gdot, gsub]
  | a :: w, [], [], _ => by simp [gdot, gsub]
  | a :: w, b :: x, [], h => by simp at h
  | a :: w, [], c :: y, h => by simp at h
  | a :: w, b :: x, c :: y, h => by
    have ih := gdot_gsub w x y (by simpa using h)
    simp only [gsub, List.zipWith_cons_cons, gdot] at ih ⊢
    rw [ih]; ring

theorem GInBox.length_eq : ∀ {l u x : List K}, GInBox l u x → x.length = l.length ∧ u.length = l.length
  | [], [], [], _ => ⟨rfl, rfl⟩
  | l :: ls, u :: us, x :: xs, h => by
    have := GInBox.length_eq h.2.2
    simp [this.1, this.2]
  | [], [], _ :: _, h => by simp [GInBox] at h
  | [], _ :: _, _, h => by simp [GInBox] at h
  | _ :: _, [], _, h => by simp [GInBox] at h
  | _ :: _, _ :: _, [], h => by simp [GInBox] at h

/-- boxes are convex -/
theorem GInBox.comb {t : K} (h0 : 0 ≤ t) (h1 : t ≤ 1) : ∀ {l u x y : List K},
    GInBox l u x → GInBox l u y → GInBox l u (comb t x y)
  | [], [], [], [], _, _ => trivial
  | l :: ls, u :: us, x :: xs, y :: ys, hx, hy => by
    refine ⟨?_, ?_, GInBox.comb h0 h1 hx.2.2 hy.2.2⟩
    · have : l ≤ x + t * (y - x) := by nlinarith [hx.1, hy.1]
      exact this
    · have : x + t * (y - x) ≤ u := by nlinarith [hx.2.1, hy.2.1]
      exact this
  | [], [], [], _ :: _, _, hy => by simp [GInBox] at hy
  | [], [], _ :: _, _, hx, _ => by simp [GInBox] at hx
  | [], _ :: _, _, _, hx, _ => by simp [GInBox] at hx
  | _ :: _, [], _, _, hx, _ => by simp [GInBox] at hx
  | _ :: _, _ :: _, [], _, hx, _ => by simp [GInBox] at hx
  | _ :: _, _ :: _, _ :: _, [], _, hy => by simp [GInBox] at hy

/-- every vertex of a non-empty box (`l ≤ u`) lies in the box -/
theorem gvertices_in_box : ∀ {l u : List K}, List.Forall₂ (· ≤ ·) l u →
    ∀ v ∈ gvertices l u, GInBox l u v
  | [], [], _, v, hv => by
    simp [gvertices] at hv; subst hv; trivial
  | l :: ls, u :: us, h, v, hv => by
    cases h with
    | cons hlu hrest =>
      simp only [gvertices, List.mem_append, List.mem_map] at hv
      rcases hv with ⟨v', hv', rfl⟩ | ⟨v', hv', rfl⟩
      · exact ⟨le_refl _, hlu, gvertices_in_box hrest v' hv'⟩
      · exact ⟨hlu, le_refl _, gvertices_in_box hrest v' hv'⟩

/-- **Vertices suffice.**  A predicate that is preserved by segments between points of equal
length and holds at every vertex of the box holds on the whole box. -/
theorem box_induction : ∀ (l u : List K) (P : List K → Prop),
    (∀ x y t, x.length = y.length → 0 ≤ t → t ≤ 1 → P x → P y → P (comb t x y)) →
    (∀ v ∈ gvertices l u, P v) → ∀ x, GInBox l u x → P x
  | [], [], P, _, hv, x, hx => by
    cases x with
    | nil => exact hv [] (by simp [gvertices])
    | cons _ _ => simp [GInBox] at hx
  | l :: ls, u :: us, P, hconv, hv, x, hx => by
    cases x with
    | nil => simp [GInBox] at hx
    | cons a xs =>
      obtain ⟨hla, hau, hxs⟩ := hx
      have conv' : ∀ c : K, ∀ x y t, x.length = y.length → 0 ≤ t → t ≤ 1 →
          P (c :: x) → P (c :: y) → P (c :: comb t x y) := by
        intro c x y t hlen h0 h1 hx hy
        have := hconv (c :: x) (c :: y) t (by simp [hlen]) h0 h1 hx hy
        simpa using this
      have hl : P (l :: xs) :=
        box_induction ls us (fun z => P (l :: z)) (conv' l)
          (fun v hv' => hv (l :: v) (by simp [gvertices, hv'])) xs hxs
      have hu : P (u :: xs) :=
        box_induction ls us (fun z => P (u :: z)) (conv' u)
          (fun v hv' => hv (u :: v) (by simp [gvertices, hv'])) xs hxs
      rcases eq_or_lt_of_le (le_trans hla hau) with hlu | hlu
      · have : a = l := le_antisymm (hlu ▸ hau) hla
        rw [this]; exact hl
      · have hpos : 0 < u - l := sub_pos.mpr hlu
        have h := hconv (l :: xs) (u :: xs) ((a - l) / (u - l)) rfl
          (div_nonneg (sub_nonneg.mpr hla) hpos.le)
          ((div_le_one hpos).mpr (by linarith)) hl hu
        have e : l + (a - l) / (u - l) * (u - l) = a := by field_simp; ring
        simpa [comb_self, e] using h
  | [], _ :: _, _, _, _, x, hx => by cases x <;> simp [GInBox] at hx
  | _ :: _, [], _, _, _, x, hx => by cases x <;> simp [GInBox] at hx

/-- `x` dominates, facet by facet with allowance `s`, some point of the box `[l, u]`;
`Ws` = list of (facet row, allowance). -/
def Good (Ws : List (List K × K)) (l u : List K) (x : List K) : Prop :=
  x.length = l.length ∧ ∃ y, GInBox l u y ∧ ∀ p ∈ Ws, p.2 ≤ gdot p.1 x - gdot p.1 y

/-- `box + cone` is convex -/
theorem Good.comb {Ws : List (List K × K)} {l u x x' : List K} {t : K}
    (h0 : 0 ≤ t) (h1 : t ≤ 1) (hx : Good Ws l u x) (hx' : Good Ws l u x') :
    Good Ws l u (Pess.comb t x x') := by
  obtain ⟨hlx, y, hy, hd⟩ := hx
  obtain ⟨hlx', y', hy', hd'⟩ := hx'
  refine ⟨by rw [comb_length _ _ _ (hlx.trans hlx'.symm), hlx], Pess.comb t y y', GInBox.comb h0 h1 hy hy', ?_⟩
  intro p hp
  have hly : y.length = y'.length := (GInBox.length_eq hy).1.trans (GInBox.length_eq hy').1.symm
  rw [gdot_comb t p.1 x x' (hlx.trans hlx'.symm), gdot_comb t p.1 y y' hly]
  nlinarith [hd p hp, hd' p hp]

/-- vertices of `R₁` good ⇒ all of `R₁` good -/
theorem good_of_vertices (Ws : List (List K × K)) (l1 u1 l2 u2 : List K)
    (hv : ∀ v ∈ gvertices l1 u1, Good Ws l2 u2 v) :
    ∀ x, GInBox l1 u1 x → Good Ws l2 u2 x :=
  box_induction l1 u1 (Good Ws l2 u2)
    (fun _ _ _ _ h0 h1 hx hy => Good.comb h0 h1 hx hy) hv

end Generic

/-! ## the rational instance is the model -/

theorem gdot_eq_dot : ∀ (a b : Vec), gdot a b = dot a b
  | [], _ => by simp [gdot, dot]
  | _ :: _, [] => by simp [gdot, dot]
  | a :: as, b :: bs => by simp [gdot, dot, gdot_eq_dot as bs]

theorem gvertices_eq_vertices : ∀ (l u : Vec), gvertices l u = vertices l u
  | [], _ => by simp [gvertices, vertices]
  | _ :: _, [] => by simp [gvertices, vertices]
  | l :: ls, u :: us => by simp [gvertices, vertices, gvertices_eq_vertices ls us]

theorem gsub_eq_vsub (a b : Vec) : gsub a b = vsub a b := rfl

theorem vertices_length : ∀ (l u : Vec), l.length = u.length → ∀ v ∈ vertices l u, v.length = l.length
  | [], [], _, v, hv => by simp [vertices] at hv; simp [hv]
  | l :: ls, u :: us, h, v, hv => by
    simp only [vertices, List.mem_append, List.mem_map] at hv
    have ih := vertices_length ls us (by simpa using h)
    rcases hv with ⟨v', hv', rfl⟩ | ⟨v', hv', rfl⟩ <;> simp [ih v' hv']
  | [], _ :: _, h, _, _ => by simp at h
  | _ :: _, [], h, _, _ => by simp at h

/-- `vle` as a proposition, for vectors of equal length -/
theorem vle_iff_forall₂ : ∀ (a b : Vec), a.length = b.length →
    (vle a b = true ↔ List.Forall₂ (· ≤ ·) a b)
  | [], [], _ => by simp [vle]
  | x :: a, y :: b, h => by
    have ih := vle_iff_forall₂ a b (by simpa using h)
    simp only [vle, List.zipWith_cons_cons, List.all_cons, Bool.and_eq_true, decide_eq_true_eq,
      id_eq, List.forall₂_cons] at ih ⊢
    rw [ih]
  | [], _ :: _, h => by simp at h
  | _ :: _, [], h => by simp at h

/-- `W y ≤ W x` componentwise iff every facet functional is at most as large at `y` -/
theorem vle_matVec (W : Mat) (y x : Vec) :
    vle (matVec W y) (matVec W x) = true ↔ ∀ w ∈ W, dot w y ≤ dot w x := by
  induction W with
  | nil => simp [vle, matVec]
  | cons w W ih =>
    simp only [vle, matVec, List.map_cons, List.zipWith_cons_cons, List.all_cons, Bool.and_eq_true,
      decide_eq_true_eq, id_eq, List.mem_cons, forall_eq_or_imp] at ih ⊢
    rw [ih]

/-- the cone transform commutes with taking a point of a segment -/
theorem matVec_comb (W : Mat) (t : Rat) (a b : Vec) (h : a.length = b.length) :
    matVec W (comb t a b) = comb t (matVec W a) (matVec W b) := by
  induction W with
  | nil => simp [matVec]
  | cons w W ih =>
    simp only [matVec, List.map_cons, comb_cons] at ih ⊢
    rw [ih, ← gdot_eq_dot, ← gdot_eq_dot, ← gdot_eq_dot, gdot_comb t w a b h]

/-! ## what a `true` answer of the polytope routine provides -/

/-- an edge hit yields a parameter `t ∈ [0,1]` whose segment point is componentwise `≤ p` -/
theorem edgeHit_sound {p v1 v2 : Vec} {d : Nat} (h : edgeHit exact false p d v1 v2 = true) :
    ∃ t : Rat, 0 ≤ t ∧ t ≤ 1 ∧ vle (comb t v1 v2) p = true := by
  unfold edgeHit at h
  split at h
  · rename_i a c b ha hc hb
    simp only [Bool.and_eq_true, decide_eq_true_eq] at h
    obtain ⟨_, hq⟩ := h
    split at hq
    · rename_i q hseg
      unfold lineSegAt at hseg
      rw [ha, hb, hc] at hseg
      simp only [exact] at hseg
      split at hseg
      · exact absurd hseg (by simp)
      · split at hseg
        · exact absurd hseg (by simp)
        · rename_i hden ht
          simp only [Bool.false_eq_true, ↓reduceIte, Option.some.injEq] at hseg
          refine ⟨(c - a) / (b - a), ?_, ?_, ?_⟩
          · by_contra hneg; exact ht (Or.inl (not_le.mp hneg))
          · by_contra hgt; exact ht (Or.inr (not_le.mp hgt))
          · rw [← hseg] at hq; exact hq
    · exact absurd hq (by simp)
  · exact absurd h (by simp)

/-- `isPtIn = true` ⇒ some vertex, or some point of a segment between two members of the
polytope list, is componentwise `≤ p` -/
theorem isPtIn_sound {p : Vec} {poly : List Vec} (h : isPtIn exact false p poly = true) :
    ∃ v1 ∈ poly, ∃ v2 ∈ poly, ∃ t : Rat, 0 ≤ t ∧ t ≤ 1 ∧ vle (comb t v1 v2) p = true := by
  unfold isPtIn at h
  rw [Bool.or_eq_true] at h
  rcases h with h | h
  · rw [List.any_eq_true] at h
    obtain ⟨v, hv, hle⟩ := h
    exact ⟨v, hv, v, hv, 0, le_refl _, zero_le_one, by rw [comb_self]; exact hle⟩
  · simp only [List.any_eq_true, Bool.and_eq_true] at h
    obtain ⟨d, _, v1, hv1, v2, hv2, _, hhit⟩ := h
    obtain ⟨t, h0, h1, hle⟩ := edgeHit_sound hhit
    have m1 : v1.1 ∈ poly := (List.mem_zipIdx hv1).2.2 ▸ List.getElem_mem _
    have m2 : v2.1 ∈ poly := (List.mem_zipIdx hv2).2.2 ▸ List.getElem_mem _
    exact ⟨v1.1, m1, v2.1, m2, t, h0, h1, hle⟩

/-- `dominates W x y` (the model's cone order, `x − y ∈ C`) facet by facet -/
theorem dominates_iff (W : Mat) (x y : Vec) (h : x.length = y.length) :
    dominates W x y = true ↔ ∀ w ∈ W, dot w y ≤ dot w x := by
  simp only [dominates, inCone, allNonneg, matVec, List.all_map, List.all_eq_true, Function.comp,
    decide_eq_true_eq]
  constructor
  · intro hh w hw
    have := hh w hw
    rw [← gsub_eq_vsub, ← gdot_eq_dot, gdot_gsub w x y h, gdot_eq_dot, gdot_eq_dot] at this
    linarith
  · intro hh w hw
    rw [← gsub_eq_vsub, ← gdot_eq_dot, gdot_gsub w x y h, gdot_eq_dot, gdot_eq_dot]
    linarith [hh w hw]

/-- **Soundness at the vertices of `R₁`.**  If the model answers `true`, every vertex of `R₁`
dominates a point of `box R₂` — the reported point is a vertex of `R₂` or a point of a segment
between two vertices, hence in the box. -/
theorem checkDominates_vertex (W : Mat) (l1 u1 l2 u2 : Vec)
    (h2 : List.Forall₂ (· ≤ ·) l2 u2)
    (h : checkDominates W l1 u1 l2 u2 = true) :
    ∀ x ∈ vertices l1 u1, ∃ y, GInBox l2 u2 y ∧ ∀ w ∈ W, dot w y ≤ dot w x := by
  intro x hx
  simp only [checkDominates, checkDominatesR, List.all_map, List.all_eq_true, Function.comp] at h
  obtain ⟨v1, hv1, v2, hv2, t, h0, h1, hle⟩ := isPtIn_sound (h x hx)
  simp only [List.mem_map] at hv1 hv2
  obtain ⟨a, ha, rfl⟩ := hv1
  obtain ⟨b, hb, rfl⟩ := hv2
  have hlen2 : l2.length = u2.length := h2.length_eq
  have hab : a.length = b.length :=
    (vertices_length l2 u2 hlen2 a ha).trans (vertices_length l2 u2 hlen2 b hb).symm
  rw [← matVec_comb W t a b hab, vle_matVec] at hle
  refine ⟨comb t a b, GInBox.comb h0 h1 ?_ ?_, hle⟩
  · exact gvertices_in_box h2 a (by rw [gvertices_eq_vertices]; exact ha)
  · exact gvertices_in_box h2 b (by rw [gvertices_eq_vertices]; exact hb)

/-! ## the repaired routine (`snap = true`) coincides with the code as it stands in exact arithmetic -/

theorem set_of_getElem? {α : Type} {l : List α} {i : Nat} {a : α} (h : l[i]? = some a) :
    l.set i a = l := by
  obtain ⟨hi, rfl⟩ := List.getElem?_eq_some_iff.mp h
  exact List.set_getElem_self hi

/-- in exact arithmetic the intersection's own coordinate already equals the target, so
`point_on_line[target_dim] = target_pt[target_dim]` changes nothing -/
theorem lineSegAt_snap (P1 P2 p : Vec) (d : Nat) :
    lineSegAt exact true P1 P2 p d = lineSegAt exact false P1 P2 p d := by
  unfold lineSegAt
  split
  · rename_i a b c ha hb hc
    simp only [exact]
    split
    · rfl
    · rename_i hden
      split
      · rfl
      · simp only [↓reduceIte, Bool.false_eq_true, Option.some.injEq]
        apply set_of_getElem?
        rw [List.getElem?_zipWith_eq_some]
        refine ⟨a, b, ha, hb, ?_⟩
        field_simp
        ring
  · rfl

theorem edgeHit_snap (p : Vec) (d : Nat) (v1 v2 : Vec) :
    edgeHit exact true p d v1 v2 = edgeHit exact false p d v1 v2 := by
  unfold edgeHit
  rw [lineSegAt_snap]

theorem isPtIn_snap (p : Vec) (poly : List Vec) :
    isPtIn exact true p poly = isPtIn exact false p poly := by
  unfold isPtIn
  simp only [edgeHit_snap]

/-! ## casting rational data into a larger ordered field -/
section Cast
variable {L : Type} [Field L] [LinearOrder L] [IsStrictOrderedRing L]

/-- coercion of a rational vector -/
def castV (v : Vec) : List L := v.map (Rat.cast : Rat → L)

theorem gdot_castV : ∀ (a b : Vec), gdot (castV a : List L) (castV b) = ((gdot a b : Rat) : L)
  | [], _ => by simp [gdot, castV]
  | _ :: _, [] => by simp [gdot, castV]
  | a :: as, b :: bs => by
    have ih := gdot_castV as bs
    simp only [castV, List.map_cons, gdot] at ih ⊢
    rw [ih]; push_cast; ring

theorem GInBox_castV : ∀ {l u x : Vec}, GInBox l u x → GInBox (castV l : List L) (castV u) (castV x)
  | [], [], [], _ => trivial
  | l :: ls, u :: us, x :: xs, h => by
    refine ⟨?_, ?_, GInBox_castV h.2.2⟩
    · exact Rat.cast_le.mpr h.1
    · exact Rat.cast_le.mpr h.2.1
  | [], [], _ :: _, h => by simp [GInBox] at h
  | [], _ :: _, _, h => by simp [GInBox] at h
  | _ :: _, [], _, h => by simp [GInBox] at h
  | _ :: _, _ :: _, [], h => by simp [GInBox] at h

theorem gvertices_castV : ∀ (l u : Vec),
    gvertices (castV l : List L) (castV u) = (gvertices l u).map castV
  | [], _ => by simp [gvertices, castV]
  | _ :: _, [] => by simp [gvertices, castV]
  | l :: ls, u :: us => by
    have ih := gvertices_castV ls us
    simp only [castV, List.map_cons, gvertices, List.map_append, List.map_map] at ih ⊢
    rw [ih]
    simp [Function.comp_def, castV]

@[simp] theorem castV_length (v : Vec) : (castV v : List L).length = v.length := by simp [castV]

end Cast

end VOPy.Pess
