import VOPyVerif.Proofs.LinCertComplete
/-!
# Completeness of the active-set search for the nearest point of a polyhedron

For a non-empty rational polyhedron `{x | A x ≥ b}` and a rational point `c`:

* `affProj`      — the projection of `c` on a non-empty affine subspace `{x | A x = b}` exists, with
                   multipliers (elementary induction on the rows; no rank theory);
* `kkt_exists`   — the nearest point exists, with KKT multipliers `≥ 0` supported on *linearly
                   independent active rows* (induction on the inequality rows: either the row holds at
                   the minimiser without it, or the minimiser lies on it; the sign of the new
                   multiplier follows by comparing the two minimisers);
* `solveLin_complete` — Gaussian elimination returns the solution of an injective system;
* `candidate_of_kkt`, `project_complete`, `nearest_complete` — hence the enumeration of active sets in
                   `Model/LinCert.lean` always finds a candidate that `checkKKT` accepts.

Everything is over `ℚ` (the argument only uses the ordered-field structure), so the nearest point is
rational and is the one the model computes.
-/
namespace VOPy.LinCert

/-! ### more rational list-vector algebra -/

theorem dot_comm : ∀ a b : Vec, dot a b = dot b a
  | [], b => by simp
  | _ :: _, [] => by simp
  | a :: as, b :: bs => by simp [dot_comm as bs, mul_comm]

theorem dot_vadd_right (x a b : Vec) (h : a.length = b.length) :
    dot x (vadd a b) = dot x a + dot x b := by
  rw [dot_comm, dot_vadd_left a b x h, dot_comm a, dot_comm b]

theorem dot_smul_right (c : ℚ) (x a : Vec) : dot x (smul c a) = c * dot x a := by
  rw [dot_comm, dot_smul_left, dot_comm]

theorem dot_vsub_left : ∀ a b x : Vec, a.length = b.length →
    dot (vsub a b) x = dot a x - dot b x
  | [], [], x, _ => by simp [vsub]
  | [], _ :: _, _, h => by simp at h
  | _ :: _, [], _, h => by simp at h
  | a :: as, b :: bs, [], _ => by simp
  | a :: as, b :: bs, x :: xs, h => by
    have := dot_vsub_left as bs xs (by simpa using h)
    simp only [vsub] at this
    simp [vsub, this]; ring

theorem dot_vsub_right (x a b : Vec) (h : a.length = b.length) :
    dot x (vsub a b) = dot x a - dot x b := by
  rw [dot_comm, dot_vsub_left a b x h, dot_comm a, dot_comm b]

theorem dot_vsub_vsub (a b c d : Vec) (hab : a.length = b.length) (hcd : c.length = d.length) :
    dot (vsub a b) (vsub c d) = dot a c - dot a d - dot b c + dot b d := by
  rw [dot_vsub_left _ _ _ hab, dot_vsub_right _ _ _ hcd, dot_vsub_right _ _ _ hcd]; ring

theorem dot_zeros_right (n : ℕ) (x : Vec) : dot x (zeros n) = 0 := by
  rw [dot_comm, dot_zeros_left]

theorem dot_self_nonneg : ∀ a : Vec, 0 ≤ dot a a
  | [] => by simp
  | a :: as => by
    have := dot_self_nonneg as
    simp only [dot_cons]
    nlinarith [mul_self_nonneg a]

theorem eq_zeros_of_dot_self : ∀ a : Vec, dot a a = 0 → a = zeros a.length
  | [], _ => by simp [zeros]
  | a :: as, h => by
    simp only [dot_cons] at h
    have h1 := dot_self_nonneg as
    have h2 := mul_self_nonneg a
    have ha : a * a = 0 := by linarith
    have hr : dot as as = 0 := by linarith
    have := eq_zeros_of_dot_self as hr
    rw [List.length_cons, zeros_succ, ← this, mul_self_eq_zero.1 ha]

theorem vsub_eq_zeros : ∀ a b : Vec, a.length = b.length → vsub a b = zeros a.length → a = b
  | [], [], _, _ => rfl
  | [], _ :: _, h, _ => by simp at h
  | _ :: _, [], h, _ => by simp at h
  | a :: as, b :: bs, h, hz => by
    simp only [vsub, List.zipWith_cons_cons, List.length_cons, zeros_succ, List.cons.injEq] at hz
    have := vsub_eq_zeros as bs (by simpa using h) (by simpa [vsub] using hz.2)
    rw [this, sub_eq_zero.1 hz.1]

/-- vectors of equal length with the same products against every vector are equal -/
theorem eq_of_dot_eq (a b : Vec) (h : a.length = b.length)
    (hd : ∀ z : Vec, z.length = a.length → dot a z = dot b z) : a = b := by
  have hl : (vsub a b).length = a.length := by simp [h]
  have : dot (vsub a b) (vsub a b) = 0 := by
    rw [dot_vsub_left a b _ h, hd _ hl]; ring
  have hz := eq_zeros_of_dot_self _ this
  rw [hl] at hz
  exact vsub_eq_zeros a b h hz

theorem vadd_vsub_cancel : ∀ c x : Vec, c.length = x.length → vadd c (vsub x c) = x
  | [], [], _ => by simp [vadd, vsub]
  | [], _ :: _, h => by simp at h
  | _ :: _, [], h => by simp at h
  | c :: cs, x :: xs, h => by
    have := vadd_vsub_cancel cs xs (by simpa using h)
    simp only [vadd, vsub] at this
    simp [vadd, vsub, this]

theorem vsub_self (c : Vec) : vsub c c = zeros c.length := by
  induction c with
  | nil => simp [vsub, zeros]
  | cons x c ih => simp [vsub, zeros, List.replicate_succ]

/-- `Σ yᵢ (rᵢ · x)` -/
def sumDot : List Vec → Vec → Vec → ℚ
  | r :: R, y :: ys, x => y * dot r x + sumDot R ys x
  | _, _, _ => 0

@[simp] theorem sumDot_nil_left (y x : Vec) : sumDot [] y x = 0 := by simp [sumDot]
@[simp] theorem sumDot_nil_mid (R : List Vec) (x : Vec) : sumDot R [] x = 0 := by
  cases R <;> simp [sumDot]
@[simp] theorem sumDot_cons (r : Vec) (R : List Vec) (y : ℚ) (ys x : Vec) :
    sumDot (r :: R) (y :: ys) x = y * dot r x + sumDot R ys x := rfl

theorem dot_lincomb (n : ℕ) : ∀ (R : List Vec) (y x : Vec), (∀ r ∈ R, r.length = n) →
    dot (lincomb n R y) x = sumDot R y x
  | [], _, x, _ => by simp [lincomb, dot_zeros_left]
  | _ :: _, [], x, _ => by simp [lincomb, dot_zeros_left]
  | r :: R, y :: ys, x, h => by
    have hR : ∀ r ∈ R, r.length = n := fun r hr => h r (List.mem_cons_of_mem _ hr)
    simp only [lincomb, sumDot_cons]
    rw [dot_vadd_left _ _ _ (by simp [lincomb_length n R ys hR, h r List.mem_cons_self]),
      dot_smul_left, dot_lincomb n R ys x hR]

theorem sumDot_vadd_mult : ∀ (R : List Vec) (y y' x : Vec), y.length = y'.length →
    sumDot R (vadd y y') x = sumDot R y x + sumDot R y' x
  | [], _, _, _, _ => by simp
  | _ :: _, [], [], _, _ => by simp [vadd]
  | _ :: _, [], _ :: _, _, h => by simp at h
  | _ :: _, _ :: _, [], _, h => by simp at h
  | r :: R, y :: ys, y' :: ys', x, h => by
    have ih := sumDot_vadd_mult R ys ys' x (by simpa using h)
    have e : vadd (y :: ys) (y' :: ys') = (y + y') :: vadd ys ys' := by simp [vadd]
    rw [e]; simp only [sumDot_cons, ih]; ring

theorem sumDot_smul_mult (c : ℚ) : ∀ (R : List Vec) (y x : Vec),
    sumDot R (smul c y) x = c * sumDot R y x
  | [], _, _ => by simp
  | _ :: _, [], _ => by simp [smul]
  | r :: R, y :: ys, x => by
    simp only [smul_cons, sumDot_cons, sumDot_smul_mult c R ys x]; ring

theorem sumDot_vsub_arg : ∀ (R : List Vec) (y a b : Vec), a.length = b.length →
    sumDot R y (vsub a b) = sumDot R y a - sumDot R y b
  | [], _, _, _, _ => by simp
  | _ :: _, [], _, _, _ => by simp
  | r :: R, y :: ys, a, b, h => by
    simp only [sumDot_cons, sumDot_vsub_arg R ys a b h, dot_vsub_right r a b h]; ring

theorem sumDot_append : ∀ (R R' : List Vec) (y y' x : Vec), y.length = R.length →
    sumDot (R ++ R') (y ++ y') x = sumDot R y x + sumDot R' y' x
  | [], R', [], y', x, _ => by simp
  | [], _, _ :: _, _, _, h => by simp at h
  | _ :: _, _, [], _, _, h => by simp at h
  | r :: R, R', y :: ys, y', x, h => by
    have := sumDot_append R R' ys y' x (by simpa using h)
    simp only [List.cons_append, sumDot_cons, this]; ring

/-- equality rows -/
def EqSat (T : Sys) (x : Vec) : Prop := ∀ r ∈ T, dot r.a x = r.b
/-- inequality rows -/
def GeSat (S : Sys) (x : Vec) : Prop := ∀ r ∈ S, r.b ≤ dot r.a x

theorem sumDot_eq_combB : ∀ (T : Sys) (y x : Vec), EqSat T x →
    sumDot (T.map (·.a)) y x = combB T y
  | [], _, _, _ => by simp [combB]
  | _ :: _, [], _, _ => by simp [combB]
  | r :: T, y :: ys, x, h => by
    have ih := sumDot_eq_combB T ys x (fun r hr => h r (List.mem_cons_of_mem _ hr))
    simp only [List.map_cons, sumDot_cons, combB, ih, h r List.mem_cons_self]

theorem combB_le_sumDot : ∀ (S : Sys) (y x : Vec), GeSat S x → (∀ v ∈ y, (0 : ℚ) ≤ v) →
    combB S y ≤ sumDot (S.map (·.a)) y x
  | [], _, _, _, _ => by simp [combB]
  | _ :: _, [], _, _, _ => by simp [combB]
  | r :: S, y :: ys, x, h, hy => by
    have ih := combB_le_sumDot S ys x (fun r hr => h r (List.mem_cons_of_mem _ hr))
      (fun v hv => hy v (List.mem_cons_of_mem _ hv))
    have h1 := h r List.mem_cons_self
    have h2 := hy y List.mem_cons_self
    simp only [List.map_cons, sumDot_cons, combB]
    nlinarith [mul_le_mul_of_nonneg_left h1 h2]

/-- linear independence of a list of `n`-vectors -/
def Indep (n : ℕ) (R : List Vec) : Prop :=
  ∀ μ : Vec, μ.length = R.length → lincomb n R μ = zeros n → μ = zeros R.length

/-- stationarity in product form: `(x − c) · z = Σ νᵢ (Tᵢ · z) + Σ μⱼ (Sⱼ · z)` for every `z` -/
def Stat (n : ℕ) (T S : Sys) (c x ν μ : Vec) : Prop :=
  ∀ z : Vec, z.length = n →
    dot (vsub x c) z = sumDot (T.map (·.a)) ν z + sumDot (S.map (·.a)) μ z

/-! ### projection on an affine subspace -/

theorem sumDot_zero_of_dots : ∀ (R : List Vec) (y x : Vec), (∀ r ∈ R, dot r x = 0) →
    sumDot R y x = 0
  | [], _, _, _ => by simp
  | _ :: _, [], _, _ => by simp
  | r :: R, y :: ys, x, h => by
    simp only [sumDot_cons, h r List.mem_cons_self,
      sumDot_zero_of_dots R ys x (fun r hr => h r (List.mem_cons_of_mem _ hr))]; ring

/-- **Projection on a non-empty affine subspace** `{x | ∀ r ∈ T, r.a · x = r.b}`: a point `x` of it
with `x − c` in the span of the rows. -/
theorem affProj (n : ℕ) : ∀ (k : ℕ) (T : Sys), T.length = k → (∀ r ∈ T, r.a.length = n) →
    ∀ c : Vec, c.length = n → (∃ y : Vec, y.length = n ∧ EqSat T y) →
    ∃ x ν : Vec, x.length = n ∧ ν.length = T.length ∧ EqSat T x ∧
      ∀ z : Vec, z.length = n → dot (vsub x c) z = sumDot (T.map (·.a)) ν z
  | 0, T, hk, _, c, hc, _ => by
    have : T = [] := List.length_eq_zero_iff.1 hk
    subst this
    refine ⟨c, [], hc, rfl, by simp [EqSat], fun z _ => ?_⟩
    rw [vsub_self, dot_zeros_left]; simp
  | k + 1, [], hk, _, _, _, _ => by simp at hk
  | k + 1, e :: T, hk, hwf, c, hc, ⟨y, hy, hyT⟩ => by
    have hk' : T.length = k := by simpa using hk
    have hwf' : ∀ r ∈ T, r.a.length = n := fun r hr => hwf r (List.mem_cons_of_mem _ hr)
    have hea : e.a.length = n := hwf e List.mem_cons_self
    have hyT' : EqSat T y := fun r hr => hyT r (List.mem_cons_of_mem _ hr)
    obtain ⟨x', ν', hx', hν', hxT', hst'⟩ := affProj n k T hk' hwf' c hc ⟨y, hy, hyT'⟩
    by_cases hex : dot e.a x' = e.b
    · refine ⟨x', 0 :: ν', hx', by simp [hν'], ?_, fun z hz => ?_⟩
      · intro r hr
        rcases List.mem_cons.1 hr with rfl | hr
        · exact hex
        · exact hxT' r hr
      · rw [hst' z hz]; simp
    · -- the component `p` of `e.a` orthogonal to the other rows
      obtain ⟨p, η, hp, hη, hpT, hstp⟩ := affProj n k (T.map (fun r => ⟨r.a, 0⟩)) (by simpa using hk')
        (by intro r hr; obtain ⟨s, hs, rfl⟩ := List.mem_map.1 hr; exact hwf' s hs) e.a hea
        ⟨zeros n, by simp, by
          intro r hr; obtain ⟨s, hs, rfl⟩ := List.mem_map.1 hr
          exact dot_zeros_right n _⟩
      have hmap : (T.map (fun r => (⟨r.a, 0⟩ : Ineq))).map (·.a) = T.map (·.a) := by
        simp [List.map_map, Function.comp_def]
      rw [hmap] at hstp
      have hpT' : ∀ r ∈ T.map (·.a), dot r p = 0 := by
        intro r hr
        obtain ⟨s, hs, rfl⟩ := List.mem_map.1 hr
        exact hpT ⟨s.a, 0⟩ (List.mem_map.2 ⟨s, hs, rfl⟩)
      have hpz : ∀ z : Vec, z.length = n → dot p z = dot e.a z + sumDot (T.map (·.a)) η z := by
        intro z hz
        have := hstp z hz
        rw [dot_vsub_left _ _ _ (by rw [hp, hea])] at this
        linarith
      have hpp : dot e.a p = dot p p := by
        have := hpz p hp
        rw [sumDot_zero_of_dots _ _ _ hpT'] at this
        linarith
      have hne : dot p p ≠ 0 := by
        intro h0
        have hp0 := eq_zeros_of_dot_self p h0
        rw [hp] at hp0
        have key : ∀ z : Vec, z.length = n → EqSat T z → dot e.a z = -combB T η := by
          intro z hz hzT
          have := hpz z hz
          rw [hp0, dot_zeros_left, sumDot_eq_combB T η z hzT] at this
          linarith
        exact hex ((key x' hx' hxT').trans ((key y hy hyT').symm.trans (hyT e List.mem_cons_self)))
      obtain ⟨t, ht⟩ : ∃ t : ℚ, t * dot p p = e.b - dot e.a x' :=
        ⟨(e.b - dot e.a x') / dot p p, by field_simp⟩
      have hxl : (vadd x' (smul t p)).length = n := by simp [hx', hp]
      refine ⟨vadd x' (smul t p), t :: vadd ν' (smul t η), hxl, by simp [hν', hη, hk'], ?_,
        fun z hz => ?_⟩
      · intro r hr
        rw [dot_vadd_right _ _ _ (by simp [hx', hp]), dot_smul_right]
        rcases List.mem_cons.1 hr with rfl | hr
        · rw [hpp]; linarith
        · rw [hxT' r hr, hpT' _ (List.mem_map.2 ⟨r, hr, rfl⟩)]; ring
      · have h1 := hst' z hz
        rw [dot_vsub_left _ _ _ (by rw [hx', hc])] at h1
        rw [dot_vsub_left _ _ _ (by rw [hxl, hc]), dot_vadd_left _ _ _ (by simp [hx', hp]),
          dot_smul_left, hpz z hz]
        simp only [List.map_cons, sumDot_cons]
        rw [sumDot_vadd_mult _ _ _ _ (by simp [hν', hη, hk']), sumDot_smul_mult]
        linarith

/-! ### linear independence when a row is appended -/

theorem zeros_append_singleton (k : ℕ) : zeros k ++ [0] = zeros (k + 1) := by
  simp only [zeros]; rw [List.replicate_succ']

theorem indep_append_singleton (n : ℕ) (R : List Vec) (a : Vec) (hR : ∀ r ∈ R, r.length = n)
    (ha : a.length = n) (hI : Indep n R)
    (hna : ∀ η : Vec, η.length = R.length →
      ¬ ∀ z : Vec, z.length = n → dot a z = sumDot R η z) : Indep n (R ++ [a]) := by
  intro μ hμ hz
  have hne : μ ≠ [] := by intro h; rw [h] at hμ; simp at hμ
  obtain ⟨μ₀, m, rfl⟩ : ∃ μ₀ m, μ = μ₀ ++ [m] :=
    ⟨μ.dropLast, μ.getLast hne, (List.dropLast_append_getLast hne).symm⟩
  have hμ₀ : μ₀.length = R.length := by simpa using hμ
  have hRa : ∀ r ∈ R ++ [a], r.length = n := by
    intro r hr
    rcases List.mem_append.1 hr with h | h
    · exact hR r h
    · rw [List.mem_singleton.1 h]; exact ha
  have hdot : ∀ z : Vec, z.length = n → sumDot R μ₀ z + m * dot a z = 0 := by
    intro z _
    have := congrArg (fun v => dot v z) hz
    beta_reduce at this
    rw [dot_lincomb n _ _ _ hRa, sumDot_append _ _ _ _ _ hμ₀, dot_zeros_left] at this
    simpa using this
  by_cases hm : m = 0
  · subst hm
    have h0 : lincomb n R μ₀ = zeros n := by
      apply eq_of_dot_eq _ _ (by simp [lincomb_length n R μ₀ hR])
      intro z hzl
      rw [lincomb_length n R μ₀ hR] at hzl
      rw [dot_lincomb n R μ₀ z hR, dot_zeros_left]
      have := hdot z hzl
      linarith
    rw [hI μ₀ hμ₀ h0, List.length_append, List.length_singleton, zeros_append_singleton]
  · exfalso
    refine hna (smul (-1 / m) μ₀) (by simp [hμ₀]) fun z hzl => ?_
    rw [sumDot_smul_mult]
    have := hdot z hzl
    field_simp
    linarith

/-! ### masks -/

theorem select_subset {α : Type} : ∀ (mask : List Bool) (S : List α) (r : α),
    r ∈ select mask S → r ∈ S
  | [], _, _, h => by simp [select] at h
  | true :: _, [], _, h => by simp [select] at h
  | false :: _, [], _, h => by simp [select] at h
  | true :: m, x :: xs, r, h => by
    simp only [select, List.mem_cons] at h
    rcases h with rfl | h
    · exact List.mem_cons_self
    · exact List.mem_cons_of_mem _ (select_subset m xs r h)
  | false :: m, x :: xs, r, h => by
    simp only [select] at h
    exact List.mem_cons_of_mem _ (select_subset m xs r h)

/-! ### existence of the nearest point with multipliers on independent active rows -/

/-- **Existence of the nearest point with KKT multipliers on linearly independent active rows.**
`T` are equality rows (linearly independent), `S` inequality rows; if the set they describe is
non-empty there are an active set `mask ⊆ S`, a point `x` and multipliers `ν` (free sign, on `T`),
`μ ≥ 0` (on the selected rows) with: `x` feasible, the selected rows active at `x`,
`x − c = Σ νᵢ Tᵢ + Σ μⱼ Sⱼ`, and `T` together with the selected rows linearly independent. -/
theorem kkt_exists (n : ℕ) : ∀ (S T : Sys) (c : Vec), (∀ r ∈ S, r.a.length = n) →
    (∀ r ∈ T, r.a.length = n) → c.length = n → Indep n (T.map (·.a)) →
    (∃ y : Vec, y.length = n ∧ EqSat T y ∧ GeSat S y) →
    ∃ (mask : List Bool) (x ν μ : Vec), mask.length = S.length ∧ x.length = n ∧
      ν.length = T.length ∧ μ.length = (select mask S).length ∧ (∀ v ∈ μ, (0 : ℚ) ≤ v) ∧
      EqSat T x ∧ EqSat (select mask S) x ∧ GeSat S x ∧ Stat n T (select mask S) c x ν μ ∧
      Indep n ((T ++ select mask S).map (·.a))
  | [], T, c, _, hT, hc, hI, ⟨y, hy, hyT, _⟩ => by
    obtain ⟨x, ν, hx, hν, hxT, hst⟩ := affProj n T.length T rfl hT c hc ⟨y, hy, hyT⟩
    refine ⟨[], x, ν, [], rfl, hx, hν, by simp [select], by simp, hxT, by simp [select, EqSat],
      by simp [GeSat], fun z hz => ?_, by simpa [select] using hI⟩
    rw [hst z hz]; simp [select]
  | r :: S, T, c, hS, hT, hc, hI, ⟨y, hy, hyT, hyS⟩ => by
    have hS' : ∀ r ∈ S, r.a.length = n := fun r hr => hS r (List.mem_cons_of_mem _ hr)
    have hra : r.a.length = n := hS r List.mem_cons_self
    have hyS' : GeSat S y := fun r hr => hyS r (List.mem_cons_of_mem _ hr)
    have hyr : r.b ≤ dot r.a y := hyS r List.mem_cons_self
    obtain ⟨mask', x', ν', μ', hm', hx', hν', hμ', hμ0', hxT', hxA', hxS', hst', hI'⟩ :=
      kkt_exists n S T c hS' hT hc hI ⟨y, hy, hyT, hyS'⟩
    by_cases hrx : r.b ≤ dot r.a x'
    · -- the new row already holds at the minimiser without it
      refine ⟨false :: mask', x', ν', μ', by simp [hm'], hx', hν', by simpa [select] using hμ',
        hμ0', hxT', by simpa [select] using hxA', ?_, by simpa [select] using hst',
        by simpa [select] using hI'⟩
      intro s hs
      rcases List.mem_cons.1 hs with rfl | hs
      · exact hrx
      · exact hxS' s hs
    · -- otherwise the minimiser lies on the new row
      have hlt : dot r.a x' < r.b := not_le.1 hrx
      have hpos : 0 < dot r.a y - dot r.a x' := by linarith
      -- a feasible point on the hyperplane of `r`: on the segment from `x'` to `y`
      obtain ⟨θ, hθ⟩ : ∃ θ : ℚ, θ * (dot r.a y - dot r.a x') = r.b - dot r.a x' :=
        ⟨(r.b - dot r.a x') / (dot r.a y - dot r.a x'), by field_simp⟩
      have hθ0 : 0 ≤ θ := by
        by_contra h
        have : θ * (dot r.a y - dot r.a x') < 0 := mul_neg_of_neg_of_pos (not_le.1 h) hpos
        linarith
      have hθ1 : θ ≤ 1 := by
        by_contra h
        have : 1 * (dot r.a y - dot r.a x') < θ * (dot r.a y - dot r.a x') :=
          mul_lt_mul_of_pos_right (not_le.1 h) hpos
        linarith
      have hz0l : (vadd x' (smul θ (vsub y x'))).length = n := by simp [hx', hy]
      have hz0 : ∀ a : Vec, dot a (vadd x' (smul θ (vsub y x'))) =
          dot a x' + θ * (dot a y - dot a x') := by
        intro a
        rw [dot_vadd_right _ _ _ (by simp [hx', hy]), dot_smul_right,
          dot_vsub_right _ _ _ (by rw [hy, hx'])]
      have hfeas : ∃ y : Vec, y.length = n ∧ EqSat (T ++ [r]) y ∧ GeSat S y := by
        refine ⟨_, hz0l, ?_, ?_⟩
        · intro e he
          rw [hz0]
          rcases List.mem_append.1 he with he | he
          · rw [hyT e he, hxT' e he]; ring
          · rw [List.mem_singleton.1 he]; linarith
        · intro s hs
          rw [hz0]
          have h1 := hxS' s hs
          have h2 := hyS' s hs
          nlinarith
      have hTr : ∀ e ∈ T ++ [r], e.a.length = n := by
        intro e he
        rcases List.mem_append.1 he with he | he
        · exact hT e he
        · rw [List.mem_singleton.1 he]; exact hra
      have hTa : ∀ v ∈ T.map (·.a), v.length = n := by
        intro v hv; obtain ⟨e, he, rfl⟩ := List.mem_map.1 hv; exact hT e he
      have hI2 : Indep n ((T ++ [r]).map (·.a)) := by
        rw [List.map_append, List.map_singleton]
        refine indep_append_singleton n _ r.a hTa hra hI fun η _ hη => ?_
        have e1 := hη x' hx'
        have e2 := hη y hy
        rw [sumDot_eq_combB T η x' hxT'] at e1
        rw [sumDot_eq_combB T η y hyT] at e2
        linarith
      obtain ⟨mask2, x2, ν3, μ2, hm2, hx2, hν3, hμ2, hμ02, hxT2, hxA2, hxS2, hst2, hI2'⟩ :=
        kkt_exists n S (T ++ [r]) c hS' hTr hc hI2 hfeas
      have hne : ν3 ≠ [] := by intro h; rw [h] at hν3; simp at hν3
      obtain ⟨ν2, νr, rfl⟩ : ∃ ν2 νr, ν3 = ν2 ++ [νr] :=
        ⟨ν3.dropLast, ν3.getLast hne, (List.dropLast_append_getLast hne).symm⟩
      have hν2 : ν2.length = T.length := by simpa using hν3
      have hxT2' : EqSat T x2 := fun e he => hxT2 e (List.mem_append_left _ he)
      have hxr2 : dot r.a x2 = r.b := hxT2 r (List.mem_append_right _ (List.mem_singleton.2 rfl))
      -- the stationarity of `x2` with the multiplier of `r` split off
      have hst2' : ∀ z : Vec, z.length = n → dot (vsub x2 c) z =
          sumDot (T.map (·.a)) ν2 z + νr * dot r.a z +
            sumDot ((select mask2 S).map (·.a)) μ2 z := by
        intro z hz
        rw [hst2 z hz, List.map_append, sumDot_append _ _ _ _ _ (by simpa using hν2)]
        simp
      -- sign of the new multiplier
      have hνr : 0 ≤ νr := by
        have hA' : GeSat (select mask' S) x2 := fun s hs => hxS2 s (select_subset _ _ _ hs)
        have hA2 : GeSat (select mask2 S) x' := fun s hs => hxS' s (select_subset _ _ _ hs)
        have l12 : x'.length = x2.length := by rw [hx', hx2]
        have a1 := hst2' (vsub x' x2) (by simp [hx', hx2])
        have a2 := hst' (vsub x2 x') (by simp [hx', hx2])
        have e1 : dot r.a (vsub x' x2) = dot r.a x' - r.b := by
          rw [dot_vsub_right _ _ _ l12, hxr2]
        have e2 : sumDot (T.map (·.a)) ν2 (vsub x' x2) = 0 := by
          rw [sumDot_vsub_arg _ _ _ _ l12, sumDot_eq_combB T ν2 x' hxT',
            sumDot_eq_combB T ν2 x2 hxT2']; ring
        have e3 : sumDot ((select mask2 S).map (·.a)) μ2 (vsub x' x2) =
            sumDot ((select mask2 S).map (·.a)) μ2 x' - combB (select mask2 S) μ2 := by
          rw [sumDot_vsub_arg _ _ _ _ l12, sumDot_eq_combB _ μ2 x2 hxA2]
        have e4 : sumDot (T.map (·.a)) ν' (vsub x2 x') = 0 := by
          rw [sumDot_vsub_arg _ _ _ _ l12.symm, sumDot_eq_combB T ν' x' hxT',
            sumDot_eq_combB T ν' x2 hxT2']; ring
        have e5 : sumDot ((select mask' S).map (·.a)) μ' (vsub x2 x') =
            sumDot ((select mask' S).map (·.a)) μ' x2 - combB (select mask' S) μ' := by
          rw [sumDot_vsub_arg _ _ _ _ l12.symm, sumDot_eq_combB _ μ' x' hxA']
        rw [e1, e2, e3] at a1
        rw [e4, e5] at a2
        have b1 := combB_le_sumDot _ μ2 x' hA2 hμ02
        have b2 := combB_le_sumDot _ μ' x2 hA' hμ0'
        -- (x2 − c)·(x' − x2) + (x' − c)·(x2 − x') = −‖x2 − x'‖²
        have idn : dot (vsub x2 c) (vsub x' x2) + dot (vsub x' c) (vsub x2 x') =
            -dot (vsub x2 x') (vsub x2 x') := by
          rw [dot_vsub_vsub x2 c x' x2 (by rw [hx2, hc]) l12,
            dot_vsub_vsub x' c x2 x' (by rw [hx', hc]) l12.symm,
            dot_vsub_vsub x2 x' x2 x' l12.symm l12.symm, dot_comm x' x2]
          ring
        have nn := dot_self_nonneg (vsub x2 x')
        by_contra hneg
        have : 0 < νr * (dot r.a x' - r.b) := mul_pos_of_neg_of_neg (not_le.1 hneg) (by linarith)
        linarith
      refine ⟨true :: mask2, x2, ν2, νr :: μ2, by simp [hm2], hx2, hν2, by simp [select, hμ2], ?_,
        hxT2', ?_, ?_, ?_, ?_⟩
      · intro v hv
        rcases List.mem_cons.1 hv with rfl | hv
        · exact hνr
        · exact hμ02 v hv
      · intro e he
        simp only [select, List.mem_cons] at he
        rcases he with rfl | he
        · exact hxr2
        · exact hxA2 e he
      · intro s hs
        rcases List.mem_cons.1 hs with rfl | hs
        · exact le_of_eq hxr2.symm
        · exact hxS2 s hs
      · intro z hz
        rw [hst2' z hz]
        simp only [select, List.map_cons, sumDot_cons]; ring
      · simpa [select, List.append_assoc] using hI2'

/-! ### Gaussian elimination on an injective system -/

theorem splitFirst_none {α : Type} (p : α → Bool) : ∀ l : List α, splitFirst p l = none →
    ∀ x ∈ l, p x = false
  | [], _, _, hx => by simp at hx
  | a :: l, h, x, hx => by
    simp only [splitFirst] at h
    split at h
    · cases h
    · rename_i hpa
      cases hs : splitFirst p l with
      | some v => rw [hs] at h; cases h
      | none =>
        rcases List.mem_cons.1 hx with rfl | hx
        · simpa using hpa
        · exact splitFirst_none p l hs x hx

theorem splitFirst_some {α : Type} (p : α → Bool) : ∀ (l : List α) (y : α) (ys : List α),
    splitFirst p l = some (y, ys) → p y = true ∧ ∀ x, x ∈ l ↔ x = y ∨ x ∈ ys
  | [], _, _, h => by simp [splitFirst] at h
  | a :: l, y, ys, h => by
    simp only [splitFirst] at h
    split at h
    · rename_i hpa
      simp only [Option.some.injEq, Prod.mk.injEq] at h
      obtain ⟨rfl, rfl⟩ := h
      exact ⟨hpa, fun x => List.mem_cons⟩
    · cases hs : splitFirst p l with
      | none => rw [hs] at h; cases h
      | some v =>
        obtain ⟨y', ys'⟩ := v
        rw [hs] at h
        simp only [Option.some.injEq, Prod.mk.injEq] at h
        obtain ⟨rfl, rfl⟩ := h
        obtain ⟨hp, hm⟩ := splitFirst_some p l y' ys' hs
        refine ⟨hp, fun x => ?_⟩
        simp only [List.mem_cons, hm x]
        tauto

/-- **Gaussian elimination is complete on injective systems**: if `μ₀` solves all equations and the
homogeneous system has only the zero solution, `solveLin` returns `μ₀`. -/
theorem solveLin_complete : ∀ (k : ℕ) (eqs : List (Vec × ℚ)) (μ₀ : Vec), μ₀.length = k →
    (∀ e ∈ eqs, e.1.length = k) → (∀ e ∈ eqs, dot e.1 μ₀ = e.2) →
    (∀ ξ : Vec, ξ.length = k → (∀ e ∈ eqs, dot e.1 ξ = 0) → ξ = zeros k) →
    solveLin k eqs = some μ₀
  | 0, eqs, μ₀, hμ, _, _, _ => by
    have : μ₀ = [] := List.length_eq_zero_iff.1 hμ
    subst this; rfl
  | k + 1, eqs, [], hμ, _, _, _ => by simp at hμ
  | k + 1, eqs, m₀ :: mt, hμ, hlen, hsol, hinj => by
    have hmt : mt.length = k := by simpa using hμ
    rw [solveLin]
    cases hsp : splitFirst (fun e : Vec × ℚ => decide (headD e.1 ≠ 0)) eqs with
    | none =>
      exfalso
      have hall := splitFirst_none _ eqs hsp
      have := hinj (1 :: zeros k) (by simp) (by
        intro e he
        have h0 := hall e he
        simp only [ne_eq, decide_not, Bool.not_eq_false', decide_eq_true_eq] at h0
        obtain ⟨hea, -⟩ := eq_headD_cons_tail (hlen e he)
        rw [hea, dot_cons, h0, dot_zeros_right]; ring)
      rw [zeros_succ] at this
      simp at this
    | some v =>
      obtain ⟨p, rest⟩ := v
      obtain ⟨hp, hmem⟩ := splitFirst_some _ eqs p rest hsp
      simp only [ne_eq, decide_not, Bool.not_eq_true', decide_eq_false_iff_not] at hp
      have hpe : p ∈ eqs := (hmem p).2 (Or.inl rfl)
      have hre : ∀ e ∈ rest, e ∈ eqs := fun e he => (hmem e).2 (Or.inr he)
      obtain ⟨hpa, hpt⟩ := eq_headD_cons_tail (hlen p hpe)
      have hps : headD p.1 * m₀ + dot p.1.tail mt = p.2 := by
        have := hsol p hpe
        rw [hpa, dot_cons] at this
        exact this
      have ih := solveLin_complete k
        (rest.map (fun e => (vsub e.1.tail (smul (headD e.1 / headD p.1) p.1.tail),
          e.2 - headD e.1 / headD p.1 * p.2))) mt hmt
        (by
          intro e' he'
          obtain ⟨e, he, rfl⟩ := List.mem_map.1 he'
          simp [(eq_headD_cons_tail (hlen e (hre e he))).2, hpt])
        (by
          intro e' he'
          obtain ⟨e, he, rfl⟩ := List.mem_map.1 he'
          obtain ⟨hea, het⟩ := eq_headD_cons_tail (hlen e (hre e he))
          have hes := hsol e (hre e he)
          rw [hea, dot_cons] at hes
          simp only
          rw [dot_vsub_left _ _ _ (by simp [het, hpt]), dot_smul_left]
          have : dot e.1.tail mt = e.2 - headD e.1 * m₀ := by linarith
          have h2 : dot p.1.tail mt = p.2 - headD p.1 * m₀ := by linarith
          rw [this, h2]
          field_simp
          ring)
        (by
          intro ξt hξ hhom
          have hξ0 : ∃ ξ₀ : ℚ, headD p.1 * ξ₀ + dot p.1.tail ξt = 0 :=
            ⟨-(dot p.1.tail ξt) / headD p.1, by field_simp; ring⟩
          obtain ⟨ξ₀, hξ₀⟩ := hξ0
          have := hinj (ξ₀ :: ξt) (by simp [hξ]) (by
            intro e he
            rcases (hmem e).1 he with rfl | her
            · rw [hpa, dot_cons]; exact hξ₀
            · obtain ⟨hea, het⟩ := eq_headD_cons_tail (hlen e he)
              have := hhom _ (List.mem_map.2 ⟨e, her, rfl⟩)
              simp only at this
              rw [dot_vsub_left _ _ _ (by simp [het, hpt]), dot_smul_left] at this
              rw [hea, dot_cons]
              have h3 : dot p.1.tail ξt = -(headD p.1 * ξ₀) := by linarith
              rw [h3] at this
              have h4 : headD e.1 / headD p.1 * -(headD p.1 * ξ₀) = -(headD e.1 * ξ₀) := by
                field_simp
              rw [h4] at this
              linarith)
          rw [zeros_succ] at this
          exact (List.cons.inj this).2)
      simp only
      rw [ih]
      simp only [Option.some.injEq, List.cons.injEq, and_true]
      have : p.2 - dot p.1.tail mt = headD p.1 * m₀ := by linarith
      rw [this]; field_simp

/-! ### the candidate of an independent active set -/

theorem smul_zero_vec (n : ℕ) (r : Vec) (h : r.length = n) : smul 0 r = zeros n := by
  simp only [smul, zeros, zero_mul]
  rw [List.eq_replicate_iff]
  exact ⟨by simp [h], by simp⟩

theorem lincomb_nil_mult (n : ℕ) (R : List Vec) : lincomb n R [] = zeros n := by
  cases R <;> simp [lincomb]

theorem select_map {α β : Type} (f : α → β) : ∀ (mask : List Bool) (S : List α),
    (select mask S).map f = select mask (S.map f)
  | [], _ => by simp [select]
  | true :: _, [] => by simp [select]
  | false :: _, [] => by simp [select]
  | true :: m, x :: xs => by simp [select, select_map f m xs]
  | false :: m, x :: xs => by simp [select, select_map f m xs]

theorem lincomb_scatter (n : ℕ) : ∀ (mask : List Bool) (R : List Vec) (μ : Vec),
    mask.length = R.length → (∀ r ∈ R, r.length = n) →
    lincomb n R (scatter mask μ) = lincomb n (select mask R) μ
  | [], [], μ, _, _ => by simp [select, lincomb]
  | [], _ :: _, _, h, _ => by simp at h
  | _ :: _, [], _, h, _ => by simp at h
  | false :: m, r :: R, μ, h, hR => by
    have hR' : ∀ r ∈ R, r.length = n := fun r hr => hR r (List.mem_cons_of_mem _ hr)
    have ih := lincomb_scatter n m R μ (by simpa using h) hR'
    have hl : (lincomb n (select m R) μ).length = n :=
      lincomb_length n _ _ (fun r hr => hR' r (select_subset _ _ _ hr))
    simp only [scatter, select, lincomb, ih, smul_zero_vec n r (hR r List.mem_cons_self)]
    exact vadd_zeros_left _ _ hl
  | true :: m, r :: R, [], h, hR => by
    have hR' : ∀ r ∈ R, r.length = n := fun r hr => hR r (List.mem_cons_of_mem _ hr)
    have ih := lincomb_scatter n m R [] (by simpa using h) hR'
    simp only [scatter, select, lincomb, ih, smul_zero_vec n r (hR r List.mem_cons_self),
      lincomb_nil_mult]
    exact vadd_zeros_zeros n
  | true :: m, r :: R, x :: xs, h, hR => by
    have hR' : ∀ r ∈ R, r.length = n := fun r hr => hR r (List.mem_cons_of_mem _ hr)
    have ih := lincomb_scatter n m R xs (by simpa using h) hR'
    simp only [scatter, select, lincomb, ih]

theorem scatter_length : ∀ (mask : List Bool) (μ : Vec), (scatter mask μ).length = mask.length
  | [], _ => by simp [scatter]
  | false :: m, μ => by simp [scatter, scatter_length m μ]
  | true :: m, [] => by simp [scatter, scatter_length m []]
  | true :: m, x :: xs => by simp [scatter, scatter_length m xs]

theorem scatter_nonneg : ∀ (mask : List Bool) (μ : Vec), (∀ v ∈ μ, (0 : ℚ) ≤ v) →
    ∀ v ∈ scatter mask μ, (0 : ℚ) ≤ v
  | [], _, _, v, hv => by simp [scatter] at hv
  | false :: m, μ, h, v, hv => by
    simp only [scatter, List.mem_cons] at hv
    rcases hv with rfl | hv
    · exact le_refl _
    · exact scatter_nonneg m μ h v hv
  | true :: m, [], h, v, hv => by
    simp only [scatter, List.mem_cons] at hv
    rcases hv with rfl | hv
    · exact le_refl _
    · exact scatter_nonneg m [] h v hv
  | true :: m, x :: xs, h, v, hv => by
    simp only [scatter, List.mem_cons] at hv
    rcases hv with rfl | hv
    · exact h _ List.mem_cons_self
    · exact scatter_nonneg m xs (fun w hw => h w (List.mem_cons_of_mem _ hw)) v hv

theorem complSlack_scatter (x : Vec) : ∀ (mask : List Bool) (S : Sys) (μ : Vec),
    EqSat (select mask S) x → complSlack S x (scatter mask μ) = true
  | [], S, _, _ => by cases S <;> simp [scatter, complSlack]
  | _ :: _, [], _, _ => by simp [complSlack]
  | false :: m, r :: S, μ, h => by
    simp only [scatter, complSlack, zero_mul, decide_true, Bool.true_and]
    exact complSlack_scatter x m S μ (by simpa [select] using h)
  | true :: m, r :: S, [], h => by
    simp only [scatter, complSlack, zero_mul, decide_true, Bool.true_and]
    exact complSlack_scatter x m S [] (fun e he => h e (by simp [select, he]))
  | true :: m, r :: S, v :: vs, h => by
    have hr : dot r.a x = r.b := h r (by simp [select])
    simp only [scatter, complSlack, hr, sub_self, mul_zero, decide_true, Bool.true_and]
    exact complSlack_scatter x m S vs (fun e he => h e (by simp [select, he]))

theorem dot_map_dot (a : Vec) : ∀ (R : List Vec) (μ : Vec),
    dot (R.map (fun r => dot a r)) μ = sumDot R μ a
  | [], _ => by simp
  | _ :: _, [] => by simp
  | r :: R, m :: μ => by
    simp only [List.map_cons, dot_cons, sumDot_cons, dot_map_dot a R μ, dot_comm a r]; ring

/-- **The candidate of an independent active set carrying KKT multipliers is the KKT point.** -/
theorem candidate_of_kkt (n : ℕ) (S : Sys) (c : Vec) (mask : List Bool) (x μ : Vec)
    (hS : ∀ r ∈ S, r.a.length = n) (hc : c.length = n) (hm : mask.length = S.length)
    (hx : x.length = n) (hμ : μ.length = (select mask S).length) (hμ0 : ∀ v ∈ μ, (0 : ℚ) ≤ v)
    (hxA : EqSat (select mask S) x) (hxS : GeSat S x)
    (hst : ∀ z : Vec, z.length = n →
      dot (vsub x c) z = sumDot ((select mask S).map (·.a)) μ z)
    (hI : Indep n ((select mask S).map (·.a))) :
    candidate n S c mask = some (x, scatter mask μ) ∧ checkKKT n S c x (scatter mask μ) = true := by
  set act := select mask S with hact
  have hactn : ∀ r ∈ act, r.a.length = n := fun r hr => hS r (select_subset _ _ _ hr)
  have hAn : ∀ v ∈ act.map (·.a), v.length = n := by
    intro v hv; obtain ⟨r, hr, rfl⟩ := List.mem_map.1 hv; exact hactn r hr
  -- the Gram system is solved by `μ` and is injective
  have hsolve : solveLin act.length
      (act.map (fun r => (act.map (fun r' => dot r.a r'.a), r.b - dot r.a c))) = some μ := by
    apply solveLin_complete _ _ _ hμ
    · intro e he; obtain ⟨r, -, rfl⟩ := List.mem_map.1 he; simp
    · intro e he
      obtain ⟨r, hr, rfl⟩ := List.mem_map.1 he
      have e1 : act.map (fun r' => dot r.a r'.a) = (act.map (·.a)).map (fun v => dot r.a v) := by
        simp [List.map_map, Function.comp_def]
      simp only
      rw [e1, dot_map_dot, ← hst r.a (hactn r hr), dot_vsub_left _ _ _ (by rw [hx, hc]),
        dot_comm x, hxA r hr, dot_comm c]
    · intro ξ hξ hhom
      have hdots : ∀ v ∈ act.map (·.a), sumDot (act.map (·.a)) ξ v = 0 := by
        intro v hv
        obtain ⟨r, hr, rfl⟩ := List.mem_map.1 hv
        have := hhom _ (List.mem_map.2 ⟨r, hr, rfl⟩)
        have e1 : act.map (fun r' => dot r.a r'.a) = (act.map (·.a)).map (fun v => dot r.a v) := by
          simp [List.map_map, Function.comp_def]
        simp only at this
        rwa [e1, dot_map_dot] at this
      have hvv : dot (lincomb n (act.map (·.a)) ξ) (lincomb n (act.map (·.a)) ξ) = 0 := by
        rw [dot_lincomb n _ _ _ hAn]
        apply sumDot_zero_of_dots
        intro v hv
        rw [dot_comm, dot_lincomb n _ _ _ hAn]
        exact hdots v hv
      have hz := eq_zeros_of_dot_self _ hvv
      rw [lincomb_length n _ _ hAn] at hz
      have := hI ξ (by simpa using hξ) hz
      simpa using this
  -- stationarity as a vector equation
  have hcomb : combA n S (scatter mask μ) = vsub x c := by
    rw [combA, lincomb_scatter n mask _ μ (by simpa using hm) (by
      intro v hv; obtain ⟨r, hr, rfl⟩ := List.mem_map.1 hv; exact hS r hr), ← select_map, ← hact]
    apply eq_of_dot_eq _ _ (by rw [lincomb_length n _ _ hAn]; simp [hx, hc])
    intro z hz
    rw [lincomb_length n _ _ hAn] at hz
    rw [dot_lincomb n _ _ _ hAn, hst z hz]
  refine ⟨?_, ?_⟩
  · unfold candidate
    simp only
    rw [← hact, hsolve]
    simp only [Option.some.injEq, Prod.mk.injEq, and_true]
    rw [hcomb, vadd_vsub_cancel c x (by rw [hc, hx])]
  · simp only [checkKKT, checkWitness, Bool.and_eq_true, decide_eq_true_eq]
    refine ⟨⟨⟨⟨⟨⟨⟨hx, (wf_iff n S).2 hS⟩, (satisfies_iff S x).2 hxS⟩, hc⟩, ?_⟩, ?_⟩, hcomb.symm⟩, ?_⟩
    · rw [scatter_length, hm]
    · exact (allNonneg_iff _).2 (scatter_nonneg mask μ hμ0)
    · exact complSlack_scatter x mask S μ hxA

/-- every mask of the right length is enumerated -/
theorem mem_masks : ∀ (k : ℕ) (mask : List Bool), mask.length = k → mask ∈ masks k
  | 0, mask, h => by
    have : mask = [] := List.length_eq_zero_iff.1 h
    simp [masks, this]
  | k + 1, [], h => by simp at h
  | k + 1, b :: m, h => by
    have := mem_masks k m (by simpa using h)
    simp only [masks, List.mem_flatMap]
    exact ⟨m, this, by cases b <;> simp⟩

/-- **The active-set enumeration is complete**: for a well-formed system with a rational solution,
`project` finds a point with multipliers that `checkKKT` accepts. -/
theorem project_complete (n : ℕ) (S : Sys) (c : Vec) (hS : wf n S = true) (hc : c.length = n)
    (hne : ∃ y : Vec, checkWitness n S y = true) :
    ∃ x lam, project n S c = some (x, lam) ∧ checkKKT n S c x lam = true := by
  have hS' := (wf_iff n S).1 hS
  obtain ⟨y, hy⟩ := hne
  simp only [checkWitness, Bool.and_eq_true, decide_eq_true_eq] at hy
  obtain ⟨⟨hyl, -⟩, hys⟩ := hy
  obtain ⟨mask, x, ν, μ, hm, hx, -, hμ, hμ0, -, hxA, hxS, hst, hI⟩ :=
    kkt_exists n S [] c hS' (by simp) hc (by intro μ hμ _; simpa [zeros] using hμ)
      ⟨y, hyl, by simp [EqSat], (satisfies_iff S y).1 hys⟩
  obtain ⟨hcand, hk⟩ := candidate_of_kkt n S c mask x μ hS' hc hm hx hμ hμ0 hxA hxS
    (fun z hz => by rw [hst z hz]; simp) (by simpa using hI)
  have hsome : (project n S c).isSome = true := by
    unfold project
    rw [List.findSome?_isSome_iff]
    exact ⟨mask, mem_masks _ _ hm, by rw [hcand]; simp [hk]⟩
  obtain ⟨⟨x', lam'⟩, hp⟩ := Option.isSome_iff_exists.1 hsome
  refine ⟨x', lam', hp, ?_⟩
  unfold project at hp
  obtain ⟨mask', -, hm'⟩ := List.exists_of_findSome?_eq_some hp
  split at hm'
  · split at hm'
    · rename_i hk'
      simp only [Option.some.injEq, Prod.mk.injEq] at hm'
      rw [← hm'.1, ← hm'.2]; exact hk'
    · cases hm'
  · cases hm'

/-- **`nearest` is complete.** -/
theorem nearest_complete (n : ℕ) (S : Sys) (c : Vec) (hS : wf n S = true) (hc : c.length = n)
    (hne : ∃ y : Vec, checkWitness n S y = true) :
    ∃ x lam, nearest n S c = some (x, lam) := by
  obtain ⟨x, lam, hp, hk⟩ := project_complete n S c hS hc hne
  exact ⟨x, lam, by unfold nearest; rw [hp]; simp [hk]⟩

end VOPy.LinCert
