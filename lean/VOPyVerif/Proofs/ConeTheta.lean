import VOPyVerif.Model.ConeFormulas
import VOPyVerif.Proofs.RealInst
import VOPyVerif.Proofs.ConeOrder
import Mathlib.Analysis.Real.Sqrt
import Mathlib.Tactic.FieldSimp
import Mathlib.Tactic.NormNum
/-!
# Helper lemmas for C12: the `RealLike` cone terms at `ℝ`; the 2-D θ-cone
-/
namespace VOPy.ConeFormulas
open VOPy VOPy.ConeOrd Real

/-- the branch test of `get_2d_w` at `ℝ` -/
noncomputable instance : LeB ℝ := ⟨fun a b => decide (a ≤ b)⟩

@[simp] theorem leb_real (a b : ℝ) : LeB.leb a b = decide (a ≤ b) := rfl

theorem rdot_eq_gdot (a b : List ℝ) : rdot a b = gdot a b := by
  induction a generalizing b with
  | nil => simp [rdot]
  | cons x a ih =>
    cases b with
    | nil => simp [rdot]
    | cons y b => simp [rdot, ih b]

@[simp] theorem rdot_nil_left (b : List ℝ) : rdot ([] : List ℝ) b = 0 := by simp [rdot]
@[simp] theorem rdot_nil_right (a : List ℝ) : rdot a ([] : List ℝ) = 0 := by cases a <;> simp [rdot]
@[simp] theorem rdot_cons (x y : ℝ) (a b : List ℝ) : rdot (x :: a) (y :: b) = x * y + rdot a b := by
  simp [rdot]

/-- `√(tan² γ + 1) = 1 / |cos γ|` -/
theorem sqrt_tan_sq_add_one {γ : ℝ} (h : cos γ ≠ 0) : √(tan γ * tan γ + 1) = |cos γ|⁻¹ := by
  have hpos : 0 < |cos γ| := abs_pos.mpr h
  rw [Real.sqrt_eq_iff_mul_self_eq_of_pos (inv_pos.mpr hpos)]
  rw [Real.tan_eq_sin_div_cos]
  have hs := Real.sin_sq_add_cos_sq γ
  have habs : |cos γ| * |cos γ| = cos γ * cos γ := abs_mul_abs_self _
  field_simp
  nlinarith [habs, hs]

/-- normalising `(-tan γ, 1)` when `cos γ > 0` -/
theorem normalize_negtan_one_pos {γ : ℝ} (h : 0 < cos γ) :
    rnormalize [-(tan γ), (1 : ℝ)] = [-(sin γ), cos γ] := by
  have hn : rnorm [-(tan γ), (1 : ℝ)] = (cos γ)⁻¹ := by
    simp only [rnorm, rdot_cons, rdot_nil_left, RealLike.sqrt_real]
    have : -tan γ * -tan γ + (1 * 1 + 0) = tan γ * tan γ + 1 := by ring
    rw [this, sqrt_tan_sq_add_one h.ne', abs_of_pos h]
  simp only [rnormalize, rdivs, hn, List.map_cons, List.map_nil]
  rw [Real.tan_eq_sin_div_cos]
  have := h.ne'
  congr 1
  · field_simp
  · congr 1
    field_simp

/-- normalising `(tan γ, -1)` when `cos γ > 0` -/
theorem normalize_tan_negone_pos {γ : ℝ} (h : 0 < cos γ) :
    rnormalize [tan γ, -(1 : ℝ)] = [sin γ, -(cos γ)] := by
  have hn : rnorm [tan γ, -(1 : ℝ)] = (cos γ)⁻¹ := by
    simp only [rnorm, rdot_cons, rdot_nil_left, RealLike.sqrt_real]
    have : tan γ * tan γ + (-1 * -1 + 0) = tan γ * tan γ + 1 := by ring
    rw [this, sqrt_tan_sq_add_one h.ne', abs_of_pos h]
  simp only [rnormalize, rdivs, hn, List.map_cons, List.map_nil]
  rw [Real.tan_eq_sin_div_cos]
  have := h.ne'
  congr 1
  · field_simp
  · congr 1
    field_simp

/-- normalising `(-tan γ, 1)` when `cos γ < 0` -/
theorem normalize_negtan_one_neg {γ : ℝ} (h : cos γ < 0) :
    rnormalize [-(tan γ), (1 : ℝ)] = [sin γ, -(cos γ)] := by
  have hn : rnorm [-(tan γ), (1 : ℝ)] = (-(cos γ))⁻¹ := by
    simp only [rnorm, rdot_cons, rdot_nil_left, RealLike.sqrt_real]
    have : -tan γ * -tan γ + (1 * 1 + 0) = tan γ * tan γ + 1 := by ring
    rw [this, sqrt_tan_sq_add_one h.ne, abs_of_neg h]
  simp only [rnormalize, rdivs, hn, List.map_cons, List.map_nil]
  rw [Real.tan_eq_sin_div_cos]
  have := h.ne
  congr 1
  · field_simp
  · congr 1
    field_simp

/-- the angle of the cone in radians, `θ = θdeg / 180 · π` -/
theorem degToRad_real (d : ℝ) : degToRad d = d / 180 * π := by
  simp [degToRad]

/-- **Closed form of `get_2d_w` at `ℝ`, both branches**: for `0 < θdeg < 180`, `θdeg ≠ 90`, the rows are
`(-sin α, cos α)` and `(sin β, -cos β)` with `α = π/4 − θ/2`, `β = π/4 + θ/2` — the inward unit normals of the
rays at angles `α` and `β`. -/
theorem get2dW_closed (θdeg : ℝ) (h0 : 0 < θdeg) (h180 : θdeg < 180) (h90 : θdeg ≠ 90) :
    get2dW θdeg =
      [[-(sin (π / 4 - (θdeg / 180 * π) / 2)), cos (π / 4 - (θdeg / 180 * π) / 2)],
       [sin (π / 4 + (θdeg / 180 * π) / 2), -(cos (π / 4 + (θdeg / 180 * π) / 2))]] := by
  have hπ := Real.pi_pos
  have hθ0 : 0 < θdeg / 180 * π := by positivity
  have hθπ : θdeg / 180 * π < π := by
    have : θdeg / 180 < 1 := by linarith
    nlinarith
  have hcα : 0 < cos (π / 4 - (θdeg / 180 * π) / 2) :=
    Real.cos_pos_of_mem_Ioo ⟨by linarith, by linarith⟩
  unfold get2dW
  simp only [degToRad_real, RealLike.tan_real, RealLike.pi_real, RealLike.ofNat_real, leb_real,
    Nat.cast_ofNat, Nat.cast_one]
  by_cases hle : θdeg ≤ 90
  · have hlt : θdeg < 90 := lt_of_le_of_ne hle h90
    have hθh : θdeg / 180 * π < π / 2 := by
      have : θdeg / 180 < 1 / 2 := by linarith
      nlinarith
    have hcβ : 0 < cos (π / 4 + (θdeg / 180 * π) / 2) :=
      Real.cos_pos_of_mem_Ioo ⟨by linarith, by linarith⟩
    simp only [hle, decide_true, if_true]
    rw [normalize_negtan_one_pos hcα, normalize_tan_negone_pos hcβ]
  · have hgt : 90 < θdeg := lt_of_not_ge hle
    have hθh : π / 2 < θdeg / 180 * π := by
      have : 1 / 2 < θdeg / 180 := by linarith
      nlinarith
    have hcβ : cos (π / 4 + (θdeg / 180 * π) / 2) < 0 :=
      Real.cos_neg_of_pi_div_two_lt_of_lt (by linarith) (by linarith)
    simp only [hle, decide_false, if_false, Bool.false_eq_true]
    rw [normalize_negtan_one_pos hcα, normalize_negtan_one_neg hcβ]

theorem get2dWClosed_real (θdeg : ℝ) : get2dWClosed θdeg =
    [[-(sin (π / 4 - (θdeg / 180 * π) / 2)), cos (π / 4 - (θdeg / 180 * π) / 2)],
     [sin (π / 4 + (θdeg / 180 * π) / 2), -(cos (π / 4 + (θdeg / 180 * π) / 2))]] := by
  simp only [get2dWClosed, degToRad_real, RealLike.sin_real, RealLike.cos_real, RealLike.pi_real,
    RealLike.ofNat_real, Nat.cast_ofNat]

/-- facet values of the closed form on the direction `(cos φ, sin φ)` -/
theorem facet1_dir (α φ : ℝ) : gdot [-(sin α), cos α] [cos φ, sin φ] = sin (φ - α) := by
  simp only [gdot_cons, gdot_nil_left]
  rw [Real.sin_sub]; ring

theorem facet2_dir (β φ : ℝ) : gdot [sin β, -(cos β)] [cos φ, sin φ] = sin (β - φ) := by
  simp only [gdot_cons, gdot_nil_left]
  rw [Real.sin_sub]; ring

/-- `sin (ψ + h) ≥ 0 ∧ sin (h − ψ) ≥ 0 ↔ |ψ| ≤ h` for `|ψ| ≤ π`, `0 < h < π/2` -/
theorem wedge_iff (ψ h : ℝ) (hψ : |ψ| ≤ π) (h0 : 0 < h) (h2 : h < π / 2) :
    (0 ≤ sin (ψ + h) ∧ 0 ≤ sin (h - ψ)) ↔ |ψ| ≤ h := by
  have hπ := Real.pi_pos
  obtain ⟨hψ1, hψ2⟩ := abs_le.mp hψ
  constructor
  · rintro ⟨s1, s2⟩
    rw [abs_le]
    constructor
    · by_contra hc
      have hlt : ψ + h < 0 := by linarith [not_le.mp hc]
      have := Real.sin_neg_of_neg_of_neg_pi_lt hlt (by linarith)
      linarith
    · by_contra hc
      have hlt : h - ψ < 0 := by linarith [not_le.mp hc]
      have := Real.sin_neg_of_neg_of_neg_pi_lt hlt (by linarith)
      linarith
  · intro habs
    obtain ⟨a1, a2⟩ := abs_le.mp habs
    exact ⟨Real.sin_nonneg_of_nonneg_of_le_pi (by linarith) (by linarith),
      Real.sin_nonneg_of_nonneg_of_le_pi (by linarith) (by linarith)⟩

end VOPy.ConeFormulas
