import VOPyVerif.Proofs.NaiveModel
import VOPyVerif.Proofs.NaivePac
/-!
# C08 helper: putting the deterministic half, the θ-cone constants and the tail bound together
-/
open MeasureTheory ProbabilityTheory Real
open scoped NNReal ENNReal

namespace VOPy.Naive
open VOPy VOPy.RealLike

/-- the accuracy requirement of the property on a returned index set `P` (designs `0 … K-1`, true
means `mu`): valid indices, no member's gap exceeds `ε`, every design is `ε`-covered by a member. -/
def Accurate (W : Cone2) (mu : ℕ → ℝ × ℝ) (K : ℕ) (ε : ℝ) (P : List ℕ) : Prop :=
  (∀ i ∈ P, i < K ∧ ¬ GapExceeds W mu K i ε) ∧
  (∀ i, i < K → ∃ k ∈ P, k < K ∧ Covered W ε (mu i) (mu k))

/-- hypotheses "2-D cone with unit facet normals at angle `θ`": `‖w₁‖ = ‖w₂‖ = 1`,
`w₁·w₂ = −cos θ`, `θ ∈ (0°, 180°)` -/
structure ThetaCone (W : Cone2) (θdeg : ℝ) : Prop where
  pos : 0 < θdeg
  lt : θdeg < 180
  unit1 : W.a1 ^ 2 + W.a2 ^ 2 = 1
  unit2 : W.c1 ^ 2 + W.c2 ^ 2 = 1
  dot : W.a1 * W.c1 + W.a2 * W.c2 = -Real.cos (θdeg / 180 * π)

theorem ThetaCone.det_ne_zero {W : Cone2} {θdeg : ℝ} (h : ThetaCone W θdeg) : W.det ≠ 0 := by
  have hpos : 0 < θdeg / 180 * π := by have := h.pos; positivity
  have hlt : θdeg / 180 * π < π := by
    have : θdeg / 180 < 1 := by rw [div_lt_one (by norm_num)]; exact h.lt
    nlinarith [Real.pi_pos]
  have hs : 0 < Real.sin (θdeg / 180 * π) := Real.sin_pos_of_pos_of_lt_pi hpos hlt
  have h2 : W.det ^ 2 = Real.sin (θdeg / 180 * π) ^ 2 := by
    rw [W.det_sq]
    simp only [Cone2.p, Cone2.q, Cone2.g, h.unit1, h.unit2, h.dot]
    have := Real.sin_sq_add_cos_sq (θdeg / 180 * π); linarith
  intro h0
  rw [h0] at h2
  have : 0 < Real.sin (θdeg / 180 * π) ^ 2 := by positivity
  linarith

/-- **Deterministic accuracy for the θ-cone**, real plane: sample means within `ρ ≤ ε/(2β)` of the
true means, `β = coneBeta θ`. -/
theorem det_theta (W : Cone2) (θdeg : ℝ) (h : ThetaCone W θdeg)
    (xs : List (ℝ × ℝ)) (mu : ℕ → ℝ × ℝ) (ε ρ : ℝ) (hε : 0 < ε) (hρ0 : 0 ≤ ρ)
    (hρ : ρ ≤ ε / (2 * coneBeta θdeg))
    (hclose : ∀ i (hi : i < xs.length), nsq (xs[i] - mu i) ≤ ρ ^ 2) :
    Accurate W mu xs.length ε (Pareto.fast W.domB xs) := by
  have hβ1 := coneBeta_ge_one θdeg h.pos h.lt
  have hβ0 : (0 : ℝ) < coneBeta θdeg := by linarith
  have hdet := h.det_ne_zero
  have hPL := planar W hdet ((coneBeta θdeg : ℝ) ^ 2) (by nlinarith) (by
    intro hg
    simp only [Cone2.p, Cone2.q, Cone2.g, h.unit1, h.unit2, h.dot] at hg ⊢
    have := coneBeta_planar θdeg h.pos h.lt hg
    simpa using this)
  have h2 : 2 * coneBeta θdeg * ρ ≤ ε := by
    rw [le_div_iff₀ (by positivity)] at hρ; linarith
  have hρ' : (coneBeta θdeg : ℝ) ^ 2 * (4 * ρ ^ 2) ≤ ε ^ 2 := by
    have h3 : 0 ≤ 2 * coneBeta θdeg * ρ := by positivity
    calc (coneBeta θdeg : ℝ) ^ 2 * (4 * ρ ^ 2) = (2 * coneBeta θdeg * ρ) ^ 2 := by ring
      _ ≤ ε ^ 2 := pow_le_pow_left₀ h3 h2 2
  exact det_real W _ (by positivity) hPL (exists_interior W hdet) xs mu ε ρ hε hρ' hclose

/-! ### real-valued observations under Gaussian noise -/

/-- per-design means of the `L` observations `mu i + ξ (i, t, ·)`, `t < L` -/
noncomputable def sampleMeansR {K L : ℕ} (mu : ℕ → ℝ × ℝ) (ξ : NoiseIdx K L → ℝ) : List (ℝ × ℝ) :=
  List.ofFn (fun i : Fin K =>
    ((∑ t : Fin L, ((mu i).1 + ξ (i, t, 0))) / L, (∑ t : Fin L, ((mu i).2 + ξ (i, t, 1))) / L))

theorem sampleMeansR_length {K L : ℕ} (mu : ℕ → ℝ × ℝ) (ξ : NoiseIdx K L → ℝ) :
    (sampleMeansR mu ξ).length = K := by simp [sampleMeansR]

theorem sampleMeansR_dev {K L : ℕ} (hL : 0 < L) (mu : ℕ → ℝ × ℝ) (ξ : NoiseIdx K L → ℝ) (i : ℕ)
    (hi : i < (sampleMeansR mu ξ).length) :
    nsq ((sampleMeansR mu ξ)[i] - mu i)
      = ∑ c : Fin 2, (dev ξ ⟨i, by simpa [sampleMeansR] using hi⟩ c) ^ 2 := by
  have hL' : (L : ℝ) ≠ 0 := by exact_mod_cast hL.ne'
  simp only [sampleMeansR, List.getElem_ofFn, nsq, Prod.fst_sub, Prod.snd_sub, Fin.sum_univ_two, dev,
    Finset.sum_add_distrib, Finset.sum_const, Finset.card_univ, Fintype.card_fin, nsmul_eq_mul]
  congr 1
  · congr 1; field_simp; ring
  · congr 1; field_simp; ring

theorem naiveLreal_pos (K : ℕ) (hK : 2 ≤ K) (σ β ε δ : ℝ) (hσ : 0 < σ) (hβ : 0 < β) (hε : 0 < ε)
    (hδ : 0 < δ) (hδ1 : δ ≤ 1) : 0 < naiveLreal (naiveC : ℝ) σ β ε δ 2 K := by
  rw [naiveLreal_real, naiveC_real]
  have hK' : (2 : ℝ) ≤ K := by exact_mod_cast hK
  have hKK : ((K * (K - 1) : ℕ) : ℝ) = (K : ℝ) * (K - 1) := by
    rw [Nat.cast_mul, Nat.cast_sub (by omega)]; simp
  have hlog : 0 < Real.log (((4 * 2 : ℕ) : ℝ) / (2 * δ / ((K * (K - 1) : ℕ) : ℝ))) := by
    apply Real.log_pos
    rw [hKK]; push_cast
    rw [lt_div_iff₀ (by apply div_pos (by positivity); nlinarith), one_mul,
      div_lt_iff₀ (by nlinarith)]
    nlinarith
  have : 0 < √2 := by positivity
  positivity

end VOPy.Naive
