import VOPyVerif.Proofs.Schedules
import Mathlib.Analysis.Complex.ExponentialBounds
/-!
# C04 helper lemmas: per-round union-bound terms of the coordinatewise (hyper-rectangle) schedules

For each schedule: the closed form (or an upper bound) of `K·m·exp(-scale_t²/2)` as a multiple of
`1/(t+1)²`, from which the series statements in `Props/C04.lean` follow.
-/
namespace VOPy.SchedR
open Real MeasureTheory ProbabilityTheory VOPy VOPy.Sched
open scoped NNReal

section
variable (t m K : ℕ) (δ : ℝ)

/-- the argument of VOGP's / ε-PAL's logarithm is at least 1 (so `β² = 2 log(…)` is non-negative) -/
lemma one_le_vogp_arg (hm : 1 ≤ m) (hK : 1 ≤ K) (h0 : 0 < δ) (h1 : δ < 1) (c : ℝ) (hc : 0 < c)
    (hc9 : c ≤ 9) : 1 ≤ (m:ℝ) * K * π^2 * ((t:ℝ)+1)^2 / (c*δ) := by
  have hm' : (1:ℝ) ≤ m := by exact_mod_cast hm
  have hK' : (1:ℝ) ≤ K := by exact_mod_cast hK
  have ht := one_le_cast_succ_sq t
  have hpi := pi_sq_gt_nine
  rw [le_div_iff₀ (by positivity), one_mul]
  have h1' : 1 ≤ (m:ℝ) * K := one_le_mul_of_one_le_of_one_le hm' hK'
  have h2 : 9 ≤ (m:ℝ) * K * π^2 := by nlinarith
  have h3 : 9 ≤ (m:ℝ) * K * π^2 * ((t:ℝ)+1)^2 := by nlinarith
  nlinarith

/-- VOGP, per round: `K·m·exp(-β_t²/2) = (3δ/π²)/(t+1)²` exactly. -/
lemma vogp_term (hm : 1 ≤ m) (hK : 1 ≤ K) (h0 : 0 < δ) (h1 : δ < 1) :
    (K:ℝ) * m * rexp (-(vogpBeta t m K δ (1:ℝ))^2/2) = (3*δ/π^2) * (1 / ((t:ℝ)+1)^2) := by
  rw [vogpBeta_real, exp_neg_half_sq_sqrt_two_log
    (one_le_vogp_arg t m K δ hm hK h0 h1 3 (by norm_num) (by norm_num))]
  have hm' : (0:ℝ) < m := by exact_mod_cast hm
  have hK' : (0:ℝ) < K := by exact_mod_cast hK
  have ht : (0:ℝ) < (t:ℝ)+1 := by positivity
  field_simp

/-- ε-PAL, per round: `K·m·exp(-β_t²/2) = (6δ/π²)/(t+1)²` exactly. -/
lemma epal_term (hm : 1 ≤ m) (hK : 1 ≤ K) (h0 : 0 < δ) (h1 : δ < 1) :
    (K:ℝ) * m * rexp (-(epalBeta t m K δ (1:ℝ))^2/2) = (6*δ/π^2) * (1 / ((t:ℝ)+1)^2) := by
  rw [epalBeta_real, exp_neg_half_sq_sqrt_two_log
    (one_le_vogp_arg t m K δ hm hK h0 h1 6 (by norm_num) (by norm_num))]
  have hm' : (0:ℝ) < m := by exact_mod_cast hm
  have hK' : (0:ℝ) < K := by exact_mod_cast hK
  have ht : (0:ℝ) < (t:ℝ)+1 := by positivity
  field_simp

lemma vogpBeta_nonneg : 0 ≤ vogpBeta t m K δ (1:ℝ) := by
  rw [vogpBeta_real]; exact Real.sqrt_nonneg _

lemma epalBeta_nonneg : 0 ≤ epalBeta t m K δ (1:ℝ) := by
  rw [epalBeta_real]; exact Real.sqrt_nonneg _

/-! #### PaVeBaPartialGP, hyper-rectangle: the code passes `α_t = 2 log(…)` itself as the scale -/

lemma one_le_log_partial_arg (hK : 1 ≤ K) (h0 : 0 < δ) (h1 : δ < 1) :
    1 ≤ Real.log (π^2 * ((t:ℝ)+1)^2 * K / (3*δ)) := by
  have hK' : (1:ℝ) ≤ K := by exact_mod_cast hK
  have ht := one_le_cast_succ_sq t
  have hpi := pi_sq_gt_nine
  have hA : 3 ≤ π^2 * ((t:ℝ)+1)^2 * K / (3*δ) := by
    rw [le_div_iff₀ (by positivity)]
    have h2 : 9 ≤ π^2 * ((t:ℝ)+1)^2 := by nlinarith
    have h3 : 9 ≤ π^2 * ((t:ℝ)+1)^2 * K := by nlinarith
    nlinarith
  rw [Real.le_log_iff_exp_le (by linarith)]
  have := Real.exp_one_lt_d9
  linarith

lemma partialGpAlpha_nonneg (hK : 1 ≤ K) (h0 : 0 < δ) (h1 : δ < 1) :
    0 ≤ partialGpAlpha (t+1) K δ (1:ℝ) := by
  rw [partialGpAlpha_real]; push_cast
  have := one_le_log_partial_arg t K δ hK h0 h1
  linarith

/-- PaVeBaPartialGP (rectangle), per round: `K·m·exp(-α_t²/2) ≤ (9mδ/π⁴)/(t+1)²`. -/
lemma partialgp_rect_term (hK : 1 ≤ K) (h0 : 0 < δ) (h1 : δ < 1) :
    (K:ℝ) * m * rexp (-(partialGpAlpha (t+1) K δ (1:ℝ))^2/2)
      ≤ (9*m*δ/π^4) * (1 / ((t:ℝ)+1)^2) := by
  rw [partialGpAlpha_real]; push_cast
  set A := π^2 * ((t:ℝ)+1)^2 * K / (3*δ) with hA
  have hL := one_le_log_partial_arg t K δ hK h0 h1
  rw [← hA] at hL
  have hK' : (1:ℝ) ≤ K := by exact_mod_cast hK
  have hK0 : (0:ℝ) < K := by linarith
  have ht := one_le_cast_succ_sq t
  have ht0 : (0:ℝ) < ((t:ℝ)+1)^2 := by positivity
  have hpi := pi_sq_gt_nine
  have hApos : 0 < A := by rw [hA]; positivity
  have hexp : rexp (-(2 * Real.log A)^2/2) ≤ A⁻¹ * A⁻¹ := by
    rw [← exp_neg_log hApos, ← Real.exp_add]
    apply Real.exp_le_exp.mpr
    nlinarith
  have hAinv : A⁻¹ = 3*δ / (π^2 * ((t:ℝ)+1)^2 * K) := by rw [hA, inv_div]
  have hAle : A⁻¹ ≤ 3 / π^2 := by
    rw [hAinv, div_le_div_iff₀ (by positivity) (by positivity)]
    have h2 : π^2 ≤ π^2 * ((t:ℝ)+1)^2 := by nlinarith
    have h3 : π^2 * 1 ≤ π^2 * ((t:ℝ)+1)^2 * K := by nlinarith
    nlinarith
  have hAinv0 : 0 ≤ A⁻¹ := by positivity
  have hm0 : (0:ℝ) ≤ m := Nat.cast_nonneg m
  calc (K:ℝ) * m * rexp (-(2 * Real.log A)^2/2)
      ≤ (K:ℝ) * m * (A⁻¹ * (3 / π^2)) := by
        apply mul_le_mul_of_nonneg_left _ (by positivity)
        exact hexp.trans (mul_le_mul_of_nonneg_left hAle hAinv0)
    _ = (9*m*δ/π^4) * (1 / ((t:ℝ)+1)^2) := by
        rw [hAinv]; field_simp; ring

/-! #### PaVeBaGP, hyper-rectangle: the code passes `α_t = 8 m log 6 + 4 log(…)` itself as the scale -/

lemma one_le_log_six : 1 ≤ Real.log 6 := by
  rw [Real.le_log_iff_exp_le (by norm_num)]
  have := Real.exp_one_lt_d9
  linarith

lemma one_le_pavebagp_arg (hK : 1 ≤ K) (h0 : 0 < δ) (h1 : δ < 1) :
    1 ≤ π^2 * ((t:ℝ)+1)^2 * K / (6*δ) := by
  have hK' : (1:ℝ) ≤ K := by exact_mod_cast hK
  have ht := one_le_cast_succ_sq t
  have hpi := pi_sq_gt_nine
  rw [le_div_iff₀ (by positivity)]
  have h2 : 9 ≤ π^2 * ((t:ℝ)+1)^2 := by nlinarith
  have h3 : 9 ≤ π^2 * ((t:ℝ)+1)^2 * K := by nlinarith
  nlinarith

/-- `α_t ≥ 8 m log 6 + 4 log(…) ≥ 8 m` : the quantitative fact that makes passing `α_t` (instead of
`√α_t`) as the scale harmless. -/
lemma pavebaGpAlpha_ge :
    8 * (m:ℝ) * Real.log 6 + 4 * Real.log (π^2 * ((t:ℝ)+1)^2 * K / (6*δ))
      ≤ pavebaGpAlpha (t+1) m K δ (1:ℝ) := by
  rw [pavebaGpAlpha_real]; push_cast; exact le_rfl

/-- PaVeBaGP (rectangle), per round: `K·m·exp(-α_t²/2) ≤ (6δ/π²)/(t+1)²`, for `m ≥ 1`. -/
lemma pavebagp_rect_term (hm : 1 ≤ m) (hK : 1 ≤ K) (h0 : 0 < δ) (h1 : δ < 1) :
    (K:ℝ) * m * rexp (-(pavebaGpAlpha (t+1) m K δ (1:ℝ))^2/2)
      ≤ (6*δ/π^2) * (1 / ((t:ℝ)+1)^2) := by
  rw [pavebaGpAlpha_real]; push_cast
  set A := π^2 * ((t:ℝ)+1)^2 * K / (6*δ) with hA
  have hA1 : 1 ≤ A := one_le_pavebagp_arg t K δ hK h0 h1
  have hApos : 0 < A := by linarith
  have hL : 0 ≤ Real.log A := Real.log_nonneg hA1
  have hm' : (1:ℝ) ≤ m := by exact_mod_cast hm
  have hm0 : (0:ℝ) < m := by linarith
  have hK0 : (0:ℝ) < K := by exact_mod_cast hK
  have h6 := one_le_log_six
  have hlogm : Real.log m ≤ m - 1 := Real.log_le_sub_one_of_pos hm0
  set α := 8 * (m:ℝ) * Real.log 6 + 4 * Real.log A with hα
  have hα8 : 8 * (m:ℝ) ≤ 8 * (m:ℝ) * Real.log 6 := by nlinarith
  have hα2 : 2 ≤ α := by rw [hα]; nlinarith
  have hαL : Real.log A + Real.log m ≤ α := by rw [hα]; nlinarith
  have hexp : rexp (-α^2/2) ≤ A⁻¹ * (m:ℝ)⁻¹ := by
    rw [← exp_neg_log hApos, ← exp_neg_log hm0, ← Real.exp_add]
    apply Real.exp_le_exp.mpr
    nlinarith
  have hAinv : A⁻¹ = 6*δ / (π^2 * ((t:ℝ)+1)^2 * K) := by rw [hA, inv_div]
  calc (K:ℝ) * m * rexp (-α^2/2)
      ≤ (K:ℝ) * m * (A⁻¹ * (m:ℝ)⁻¹) := mul_le_mul_of_nonneg_left hexp (by positivity)
    _ = (6*δ/π^2) * (1 / ((t:ℝ)+1)^2) := by
        rw [hAinv]; field_simp

lemma pavebaGpAlpha_nonneg (hK : 1 ≤ K) (h0 : 0 < δ) (h1 : δ < 1) :
    0 ≤ pavebaGpAlpha (t+1) m K δ (1:ℝ) := by
  refine le_trans ?_ (pavebaGpAlpha_ge t m K δ)
  have hL := Real.log_nonneg (one_le_pavebagp_arg t K δ hK h0 h1)
  have h6 := one_le_log_six
  have hm0 : (0:ℝ) ≤ m := Nat.cast_nonneg m
  have : 0 ≤ 8 * (m:ℝ) * Real.log 6 := by positivity
  linarith

/-! #### Auer (original β): means of `t+1` samples of variance ≤ 1, identity covariance in the region -/

lemma one_le_auer_arg (hm : 1 ≤ m) (hK : 1 ≤ K) (h0 : 0 < δ) (h1 : δ < 1) :
    1 ≤ 4 * (K:ℝ) * m * ((t:ℝ)+1)^2 / δ := by
  have hm' : (1:ℝ) ≤ m := by exact_mod_cast hm
  have hK' : (1:ℝ) ≤ K := by exact_mod_cast hK
  have ht := one_le_cast_succ_sq t
  rw [le_div_iff₀ h0]
  have h2 : 1 ≤ (K:ℝ) * m := one_le_mul_of_one_le_of_one_le hK' hm'
  have h3 : 1 ≤ (K:ℝ) * m * ((t:ℝ)+1)^2 := one_le_mul_of_one_le_of_one_le h2 ht
  nlinarith

lemma auerBeta_nonneg : 0 ≤ auerBeta (t+1) m K δ (1:ℝ) := by
  rw [auerBeta_real]; exact Real.sqrt_nonneg _

/-- Auer, per round `n = t+1`: `K·m·exp(-β_n²·n/2) = (δ/4)/(t+1)²` exactly. -/
lemma auer_term (hm : 1 ≤ m) (hK : 1 ≤ K) (h0 : 0 < δ) (h1 : δ < 1) :
    (K:ℝ) * m * rexp (-(auerBeta (t+1) m K δ (1:ℝ))^2 * ((t:ℝ)+1) / 2)
      = (δ/4) * (1 / ((t:ℝ)+1)^2) := by
  rw [auerBeta_real]; push_cast
  set A := 4 * (K:ℝ) * m * ((t:ℝ)+1)^2 / δ with hA
  have hA1 : 1 ≤ A := one_le_auer_arg t m K δ hm hK h0 h1
  have hL := Real.log_nonneg hA1
  have ht : (0:ℝ) < (t:ℝ)+1 := by positivity
  rw [Real.sq_sqrt (by positivity)]
  have : -(2 * Real.log A / ((t:ℝ)+1)) * ((t:ℝ)+1) / 2 = -Real.log A := by field_simp
  rw [this, exp_neg_log (by linarith), hA, inv_div]
  have hm' : (0:ℝ) < m := by exact_mod_cast hm
  have hK' : (0:ℝ) < K := by exact_mod_cast hK
  field_simp

end

/-- Gaussian tail in absolute units with a variance bound: for `X ~ N(μ, s)`, `s ≤ u`, `r ≥ 0`:
`P(|X - μ| > r) ≤ exp(-r²/(2u))`. -/
lemma gauss_abs_tail_of_var_le (μ : ℝ) (s : ℝ≥0) (u r : ℝ) (hsu : (s:ℝ) ≤ u)
    (hr : 0 ≤ r) :
    (gaussianReal μ s).real {x | r < |x - μ|} ≤ rexp (-r^2/(2*u)) := by
  by_cases hs : s = 0
  · subst hs
    have hmeas : MeasurableSet {x : ℝ | r < |x - μ|} :=
      measurableSet_lt measurable_const (by fun_prop)
    rw [gaussianReal_zero_var, measureReal_def, Measure.dirac_apply' _ hmeas]
    have : μ ∉ {x : ℝ | r < |x - μ|} := by simp [hr]
    simp [this, Real.exp_nonneg]
  · have hs0 : 0 < (s:ℝ) := by positivity
    have hsq : 0 < √(s:ℝ) := Real.sqrt_pos.mpr hs0
    have h := Tails.gauss_two_sided μ s (r / √(s:ℝ)) (by positivity)
    rw [div_mul_cancel₀ _ hsq.ne'] at h
    refine h.trans (Real.exp_le_exp.mpr ?_)
    rw [div_pow, Real.sq_sqrt hs0.le]
    have h2 : r^2 / (2*u) ≤ r^2 / (2*s) :=
      div_le_div_of_nonneg_left (by positivity) (by positivity) (by linarith)
    have : -(r^2 / (s:ℝ)) / 2 = -(r^2 / (2*s)) := by field_simp
    rw [this, neg_div]; linarith

end VOPy.SchedR
