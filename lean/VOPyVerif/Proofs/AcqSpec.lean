import VOPyVerif.Proofs.AcqStore
/-! C07: the decidable relation `discSpecOk` that the harness evaluates on the *implementation's*
output, its Prop-level reading `DiscSpec`, and the two facts that make it the specification:
every output accepted by it has the top-`q` value list (soundness), and the model's own output is
accepted (the model refines the specification). -/
namespace VOPy.Acq

/-- Prop-level reading of `discSpecOk` -/
structure DiscSpec (vals : List Rat) (q : Nat) (picks : List (Nat × Rat)) : Prop where
  len : picks.length = q
  cell : ∀ p ∈ picks, vals[p.1]? = some p.2
  step : ∀ k (hk : k < picks.length),
    picks[k].1 ∉ (picks.take k).map (·.1) ∧
    ∀ i v, vals[i]? = some v → i ∉ (picks.take k).map (·.1) → v ≤ picks[k].2

theorem discSpecOk_iff (vals : List Rat) (q : Nat) (picks : List (Nat × Rat)) :
    discSpecOk vals q picks = true ↔ DiscSpec vals q picks := by
  simp only [discSpecOk, Bool.and_eq_true, beq_iff_eq, List.all_eq_true, decide_eq_true_eq,
    List.mem_range]
  constructor
  · rintro ⟨⟨h1, h2⟩, h3⟩
    refine ⟨h1, fun p hp => (h2 p hp).2, ?_⟩
    intro k hk
    have h := h3 k hk
    rw [List.getElem?_eq_getElem hk] at h
    simp only [Bool.and_eq_true, Bool.not_eq_eq_eq_not, Bool.not_true, List.contains_eq_mem,
      decide_eq_false_iff_not, List.all_eq_true, List.mem_range, Bool.or_eq_true,
      decide_eq_true_eq] at h
    refine ⟨h.1, ?_⟩
    intro i v hi hnot
    have hil : i < vals.length := (List.getElem?_eq_some_iff.mp hi).1
    rcases h.2 i hil with hc | hc
    · exact absurd hc hnot
    · rw [hi] at hc
      simpa using hc
  · intro h
    refine ⟨⟨h.len, fun p hp => ⟨(List.getElem?_eq_some_iff.mp (h.cell p hp)).1, h.cell p hp⟩⟩, ?_⟩
    intro k hk
    obtain ⟨hs1, hs2⟩ := h.step k hk
    rw [List.getElem?_eq_getElem hk]
    simp only [Bool.and_eq_true, Bool.not_eq_eq_eq_not, Bool.not_true, List.contains_eq_mem,
      decide_eq_false_iff_not, List.all_eq_true, List.mem_range, Bool.or_eq_true,
      decide_eq_true_eq]
    refine ⟨hs1, ?_⟩
    intro i hil
    by_cases hc : i ∈ (picks.take k).map (·.1)
    · exact Or.inl hc
    · right
      rw [List.getElem?_eq_getElem hil]
      simpa using hs2 i vals[i] (List.getElem?_eq_getElem hil) hc

theorem not_mem_take_of_nodup {α : Type} {l : List α} (h : l.Nodup) (k : Nat) (hk : k < l.length) :
    l[k] ∉ l.take k := by
  intro hm
  obtain ⟨i, hi, heq⟩ := List.mem_iff_getElem.mp hm
  rw [List.getElem_take] at heq
  have hi' : i < k := by rw [List.length_take] at hi; omega
  have := (List.Nodup.getElem_inj_iff h (hi := by omega) (hj := hk)).mp heq
  omega

/-- the model's output satisfies the relation checked on the implementation -/
theorem optimizeDiscrete_discSpec (vals : List Rat) (q : Nat) :
    DiscSpec vals (min q vals.length) (optimizeDiscrete vals q) := by
  refine ⟨optimizeDiscrete_length vals q, fun p hp => optimizeDiscrete_mem hp, ?_⟩
  intro k hk
  constructor
  · have hn := optimizeDiscrete_pos_nodup vals q
    have := not_mem_take_of_nodup hn k (by rw [List.length_map]; exact hk)
    rw [List.getElem_map, ← List.map_take] at this
    exact this
  · intro i v hi hnot
    exact (pickLoop_first q (indexed vals) (indexed_pairwise vals) k hk (i, v)
      (mem_indexed.mpr hi) hnot).1

theorem DiscSpec.pos_nodup {vals : List Rat} {q : Nat} {picks : List (Nat × Rat)}
    (h : DiscSpec vals q picks) : (picks.map (·.1)).Nodup := by
  rw [List.Nodup, List.pairwise_iff_getElem]
  intro i j hi hj hij
  rw [List.length_map] at hi hj
  rw [List.getElem_map, List.getElem_map]
  intro heq
  apply (h.step j hj).1
  rw [← heq]
  refine List.mem_map.mpr ⟨picks[i], ?_, rfl⟩
  exact List.mem_iff_getElem.mpr ⟨i, by rw [List.length_take]; omega, by rw [List.getElem_take]⟩

/-- **Soundness of the relation.**  Any output accepted by `DiscSpec` (whatever tie-breaking
produced it) lists, in order, the first `q` entries of the descending sort of the values. -/
theorem DiscSpec.values {vals : List Rat} {q : Nat} {picks : List (Nat × Rat)}
    (h : DiscSpec vals q picks) : picks.map (·.2) = (sortDesc vals).take q := by
  have hn := h.pos_nodup
  have hpn : picks.Nodup := List.Nodup.of_map _ hn
  have hsub : ∀ p ∈ picks, p ∈ indexed vals := fun p hp => mem_indexed.mpr (h.cell p hp)
  have hcount : ∀ x ∈ picks, picks.count x ≤ (indexed vals).count x := by
    intro x hx
    rw [List.count_eq_one_of_mem hpn hx]
    exact List.count_pos_iff.mpr (hsub x hx)
  have hperm := List.subperm_append_diff_self_of_count_le hcount
  set rest := (indexed vals).diff picks with hrest
  -- positions of `rest` are not picked
  have hidx : ((picks ++ rest).map (·.1)).Nodup := by
    have h1 : ((indexed vals).map (·.1)).Nodup := by
      rw [List.Nodup, List.pairwise_map]
      exact (indexed_pairwise vals).imp (fun h => ne_of_lt h)
    exact (hperm.map (·.1)).nodup_iff.mpr h1
  rw [List.map_append] at hidx
  have hdisj := (List.nodup_append.mp hidx).2.2
  have hdom : ∀ a ∈ picks.map (·.2), ∀ b ∈ rest.map (·.2), b ≤ a := by
    intro a ha b hb
    obtain ⟨a', ha', rfl⟩ := List.mem_map.mp ha
    obtain ⟨b', hb', rfl⟩ := List.mem_map.mp hb
    obtain ⟨k, hk, rfl⟩ := List.mem_iff_getElem.mp ha'
    have hb'' : b' ∈ indexed vals := hperm.mem_iff.mp (List.mem_append_right _ hb')
    refine (h.step k hk).2 b'.1 b'.2 (mem_indexed.mp hb'') ?_
    intro hm
    have hm' : b'.1 ∈ picks.map (·.1) := by
      obtain ⟨x, hx, hx1⟩ := List.mem_map.mp hm
      exact List.mem_map.mpr ⟨x, (List.take_sublist _ _).mem hx, hx1⟩
    exact hdisj b'.1 hm' b'.1 (List.mem_map_of_mem hb') rfl
  have hpw : (picks.map (·.2)).Pairwise (· ≥ ·) := by
    rw [List.pairwise_iff_getElem]
    intro i j hi hj hij
    rw [List.length_map] at hi hj
    rw [List.getElem_map, List.getElem_map]
    refine (h.step i hi).2 picks[j].1 picks[j].2 (h.cell _ (List.getElem_mem hj)) ?_
    intro hm
    obtain ⟨x, hx, hx1⟩ := List.mem_map.mp hm
    obtain ⟨t, ht, rfl⟩ := List.mem_iff_getElem.mp hx
    rw [List.getElem_take] at hx1
    rw [List.length_take] at ht
    have hinj := (List.Nodup.getElem_inj_iff hn (i := t) (j := j)
      (hi := by rw [List.length_map]; omega)
      (hj := by rw [List.length_map]; exact hj)).mp
      (by simp only [List.getElem_map]; exact hx1)
    omega
  have hp2 : (picks.map (·.2) ++ rest.map (·.2)).Perm vals := by
    rw [← List.map_append, ← indexed_map_snd vals]
    exact hperm.map _
  have := top_unique hp2 hpw hdom
  rw [List.length_map, h.len] at this
  exact this

end VOPy.Acq
