import VOPyVerif.Proofs.EvalCover
import Mathlib.Data.List.Perm.Basic
import Mathlib.Data.List.Dedup
import Mathlib.Tactic.FieldSimp
/-!
# Helper lemmas for C19, part 3: the counting loops and the ε-F1 score
-/
set_option linter.unusedSectionVars false
namespace VOPy.Eval

/-! ### loops with a total coverage predicate -/

theorem anyM_total {β : Type} (f : β → Option Bool) (g : β → Bool) (l : List β)
    (h : ∀ x ∈ l, f x = some (g x)) : anyM f l = some (l.any g) := by
  induction l with
  | nil => rfl
  | cons x xs ih =>
    have hx := h x List.mem_cons_self
    have := ih (fun y hy => h y (List.mem_cons_of_mem _ hy))
    simp only [anyM, hx, List.any_cons]
    cases g x <;> simp [this]

theorem uncoveredSet_total {α β : Type} (cov : α → β → Option Bool) (c : α → β → Bool)
    (P : List α) (hat : List β) (h : ∀ i ∈ P, ∀ j ∈ hat, cov i j = some (c i j)) :
    uncoveredSet cov P hat = some (P.filter (fun i => !hat.any (c i))) := by
  induction P with
  | nil => rfl
  | cons i is ih =>
    have h1 := anyM_total (cov i) (c i) hat (h i List.mem_cons_self)
    have h2 := ih (fun i' hi' => h i' (List.mem_cons_of_mem _ hi'))
    simp only [uncoveredSet, h1, h2, List.filter_cons]
    cases hat.any (c i) <;> simp

theorem mem_dedup (x : Nat) (l : List Nat) : x ∈ dedup l ↔ x ∈ l := by
  induction l with
  | nil => simp [dedup]
  | cons a as ih =>
    simp only [dedup]
    split_ifs with h
    · rw [ih]
      have : a ∈ as := by simpa using h
      constructor
      · exact List.mem_cons_of_mem _
      · intro hx
        rcases List.mem_cons.mp hx with rfl | hx
        · exact this
        · exact hx
    · simp [ih]

/-- the model's `dedup` is Mathlib's `List.dedup` -/
theorem dedup_eq (l : List Nat) : dedup l = l.dedup := by
  induction l with
  | nil => rfl
  | cons a as ih =>
    simp only [dedup]
    split_ifs with h
    · have : a ∈ as := by simpa using h
      rw [List.dedup_cons_of_mem this, ih]
    · have : a ∉ as := by simpa using h
      rw [List.dedup_cons_of_notMem this, ih]

theorem mem_missed (x : Nat) (truth pred : List Nat) :
    x ∈ missed truth pred ↔ x ∈ truth ∧ x ∉ pred := by
  simp [missed, mem_dedup]

/-- number of missed true indices that no predicted index covers (total coverage predicate) -/
def uncT (c : Nat → Nat → Bool) (truth pred : List Nat) : Nat :=
  ((missed truth pred).filter (fun i => !pred.any (c i))).length

/-- number of predicted indices (with multiplicity) whose gap is at most ε -/
def tpT (good : Nat → Bool) (pred : List Nat) : Nat := (pred.filter good).length

theorem tpT_le (good : Nat → Bool) (pred : List Nat) : tpT good pred ≤ pred.length :=
  List.length_filter_le _ _

theorem f1Counts_total (cov : Nat → Nat → Option Bool) (c : Nat → Nat → Bool) (good : Nat → Bool)
    (truth pred : List Nat) (h : ∀ i ∈ truth, ∀ j ∈ pred, cov i j = some (c i j)) :
    f1Counts cov good truth pred =
      some (tpT good pred, pred.length - tpT good pred, uncT c truth pred) := by
  have := uncoveredSet_total cov c (missed truth pred) pred
    (fun i hi j hj => h i ((mem_missed i truth pred).mp hi).1 j hj)
  simp only [f1Counts, uncoveredSize, this, Option.map_some, tpT, uncT]

/-- if the counts are defined at all, every coverage question that was asked had an answer; the
converse direction used in the theorems: totality on `truth × pred` suffices -/
theorem total_of_isSome (cov : Nat → Nat → Option Bool)
    (truth pred : List Nat) (h : ∀ i ∈ truth, ∀ j ∈ pred, (cov i j).isSome = true) :
    ∃ c : Nat → Nat → Bool, (∀ i ∈ truth, ∀ j ∈ pred, cov i j = some (c i j)) := by
  refine ⟨fun i j => (cov i j).getD false, ?_⟩
  intro i hi j hj
  have := h i hi j hj
  cases hc : cov i j with
  | none => simp [hc] at this
  | some b => simp [hc]

/-! ### the score as a function of the counts -/

theorem f1Of_eq_some_iff (c : Nat × Nat × Nat) (q : Rat) :
    f1Of c = some q ↔ 2 * c.1 + c.2.1 + c.2.2 ≠ 0 ∧
      q = ((2 * c.1 : Nat) : Rat) / ((2 * c.1 + c.2.1 + c.2.2 : Nat) : Rat) := by
  unfold f1Of
  simp only
  split_ifs with h
  · simp [h]
  · simp only [Option.some.injEq, ne_eq, h, not_false_eq_true, true_and]
    exact eq_comm

theorem f1Of_eq_none_iff (c : Nat × Nat × Nat) :
    f1Of c = none ↔ c.1 = 0 ∧ c.2.1 = 0 ∧ c.2.2 = 0 := by
  unfold f1Of
  simp only
  split_ifs with h
  · simp only [true_iff]; omega
  · simp only [false_iff]; omega

/-- **Range.**  The score lies in `[0, 1]`. -/
theorem f1Of_range {c : Nat × Nat × Nat} {q : Rat} (h : f1Of c = some q) : 0 ≤ q ∧ q ≤ 1 := by
  obtain ⟨hne, rfl⟩ := (f1Of_eq_some_iff c q).mp h
  have hpos : (0 : Rat) < ((2 * c.1 + c.2.1 + c.2.2 : Nat) : Rat) := by
    exact_mod_cast Nat.pos_of_ne_zero hne
  refine ⟨div_nonneg (by positivity) hpos.le, ?_⟩
  rw [div_le_one hpos]
  exact_mod_cast (by omega : 2 * c.1 ≤ 2 * c.1 + c.2.1 + c.2.2)

/-- **Score one.**  `F1 = 1` exactly when there is a true positive, no false positive and no
uncovered missed Pareto design. -/
theorem f1Of_eq_one_iff (c : Nat × Nat × Nat) :
    f1Of c = some 1 ↔ 0 < c.1 ∧ c.2.1 = 0 ∧ c.2.2 = 0 := by
  rw [f1Of_eq_some_iff]
  constructor
  · rintro ⟨hne, h1⟩
    have hpos : (0 : Rat) < ((2 * c.1 + c.2.1 + c.2.2 : Nat) : Rat) := by
      exact_mod_cast Nat.pos_of_ne_zero hne
    rw [eq_comm, div_eq_one_iff_eq hpos.ne'] at h1
    have h2 : 2 * c.1 = 2 * c.1 + c.2.1 + c.2.2 := by exact_mod_cast h1
    omega
  · rintro ⟨h1, h2, h3⟩
    refine ⟨by omega, ?_⟩
    rw [h2, h3]
    have : ((2 * c.1 + 0 + 0 : Nat) : Rat) ≠ 0 := by
      have : 2 * c.1 + 0 + 0 ≠ 0 := by omega
      exact_mod_cast this
    rw [eq_comm, div_eq_one_iff_eq this]
    simp

/-- **Monotone in the counts**: more true positives among the same predictions and fewer uncovered
missed designs never lower the score (`fp = n − tp`). -/
theorem f1Of_mono {n tp tp' unc unc' : Nat} (htp : tp ≤ tp') (htpn : tp' ≤ n) (hunc : unc' ≤ unc)
    {q q' : Rat} (h : f1Of (tp, n - tp, unc) = some q) (h' : f1Of (tp', n - tp', unc') = some q') :
    q ≤ q' := by
  obtain ⟨hne, rfl⟩ := (f1Of_eq_some_iff _ q).mp h
  obtain ⟨hne', rfl⟩ := (f1Of_eq_some_iff _ q').mp h'
  simp only at hne hne' ⊢
  have e1 : 2 * tp + (n - tp) + unc = tp + n + unc := by omega
  have e2 : 2 * tp' + (n - tp') + unc' = tp' + n + unc' := by omega
  rw [e1] at hne ⊢
  rw [e2] at hne' ⊢
  have hp : (0 : Rat) < ((tp + n + unc : Nat) : Rat) := by exact_mod_cast Nat.pos_of_ne_zero hne
  have hp' : (0 : Rat) < ((tp' + n + unc' : Nat) : Rat) := by exact_mod_cast Nat.pos_of_ne_zero hne'
  rw [div_le_div_iff₀ hp hp']
  have key : 2 * tp * (tp' + n + unc') ≤ 2 * tp' * (tp + n + unc) := by
    have h1 : tp * n ≤ tp' * n := Nat.mul_le_mul_right _ htp
    have h2 : tp * unc' ≤ tp' * unc := Nat.mul_le_mul htp hunc
    nlinarith
  exact_mod_cast key

/-- definedness of the score does not depend on the counts of true positives / uncovered designs
when the prediction list is non-empty -/
theorem f1Of_isSome_of_pred_ne_nil {n : Nat} (hn : 0 < n) (tp unc : Nat) (htp : tp ≤ n) :
    ∃ q, f1Of (tp, n - tp, unc) = some q := by
  cases h : f1Of (tp, n - tp, unc) with
  | some q => exact ⟨q, rfl⟩
  | none =>
    have := (f1Of_eq_none_iff _).mp h
    simp only at this
    omega

/-! ### permutation invariance of the counts -/

theorem any_perm {l l' : List Nat} (h : l.Perm l') (g : Nat → Bool) : l.any g = l'.any g := by
  rw [Bool.eq_iff_iff]
  simp only [List.any_eq_true]
  constructor
  · rintro ⟨x, hx, hg⟩; exact ⟨x, h.mem_iff.mp hx, hg⟩
  · rintro ⟨x, hx, hg⟩; exact ⟨x, h.mem_iff.mpr hx, hg⟩

theorem contains_perm {l l' : List Nat} (h : l.Perm l') (x : Nat) : l.contains x = l'.contains x := by
  rw [Bool.eq_iff_iff]
  simp only [List.contains_iff_mem]
  exact h.mem_iff

theorem tpT_perm {pred pred' : List Nat} (h : pred.Perm pred') (good : Nat → Bool) :
    tpT good pred = tpT good pred' := (h.filter _).length_eq

theorem uncT_perm_pred {pred pred' : List Nat} (h : pred.Perm pred') (c : Nat → Nat → Bool)
    (truth : List Nat) : uncT c truth pred = uncT c truth pred' := by
  unfold uncT missed
  have e1 : (fun i => !pred.contains i) = (fun i => !pred'.contains i) := by
    funext i; rw [contains_perm h]
  have e2 : (fun i => !pred.any (c i)) = (fun i => !pred'.any (c i)) := by
    funext i; rw [any_perm h]
  rw [e1, e2]

theorem uncT_perm_truth {truth truth' : List Nat} (h : truth.Perm truth') (c : Nat → Nat → Bool)
    (pred : List Nat) : uncT c truth pred = uncT c truth' pred := by
  unfold uncT missed
  rw [dedup_eq, dedup_eq]
  exact ((h.dedup.filter _).filter _).length_eq

/-! ### monotonicity of the counts in the predicates -/

theorem tpT_mono {good good' : Nat → Bool} (pred : List Nat)
    (h : ∀ k ∈ pred, good k = true → good' k = true) : tpT good pred ≤ tpT good' pred := by
  induction pred with
  | nil => simp [tpT]
  | cons k ks ih =>
    have ih' := ih (fun k' hk' => h k' (List.mem_cons_of_mem _ hk'))
    have hk := h k List.mem_cons_self
    simp only [tpT, List.filter_cons] at ih' ⊢
    cases hg : good k with
    | false =>
      cases hg' : good' k <;> simp <;> omega
    | true =>
      rw [hk hg]; simp; omega

theorem uncT_anti {c c' : Nat → Nat → Bool} (truth pred : List Nat)
    (h : ∀ i ∈ truth, ∀ j ∈ pred, c i j = true → c' i j = true) :
    uncT c' truth pred ≤ uncT c truth pred := by
  unfold uncT
  have hm : ∀ i ∈ missed truth pred, i ∈ truth := fun i hi => ((mem_missed i truth pred).mp hi).1
  generalize missed truth pred = M at hm
  induction M with
  | nil => simp
  | cons i is ih =>
    have ih' := ih (fun i' hi' => hm i' (List.mem_cons_of_mem _ hi'))
    have hi : pred.any (c i) = true → pred.any (c' i) = true := by
      simp only [List.any_eq_true]
      rintro ⟨j, hj, hc⟩
      exact ⟨j, hj, h i (hm i List.mem_cons_self) j hj hc⟩
    simp only [List.filter_cons]
    cases h1 : pred.any (c i) with
    | true =>
      rw [hi h1]; simpa using ih'
    | false =>
      cases h2 : pred.any (c' i) <;> simp <;> omega

/-! ### counts of a prediction that contains every true index -/

theorem uncT_eq_zero_iff (c : Nat → Nat → Bool) (truth pred : List Nat) :
    uncT c truth pred = 0 ↔ ∀ i ∈ truth, i ∉ pred → ∃ j ∈ pred, c i j = true := by
  unfold uncT
  rw [List.length_eq_zero_iff, List.filter_eq_nil_iff]
  constructor
  · intro h i hi hnp
    have := h i ((mem_missed i truth pred).mpr ⟨hi, hnp⟩)
    simpa using this
  · intro h i hi
    obtain ⟨h1, h2⟩ := (mem_missed i truth pred).mp hi
    simpa using h i h1 h2

theorem fp_eq_zero_iff (good : Nat → Bool) (pred : List Nat) :
    pred.length - tpT good pred = 0 ↔ ∀ k ∈ pred, good k = true := by
  have hle := tpT_le good pred
  constructor
  · intro h
    have : (pred.filter good).length = pred.length := by unfold tpT at h hle; omega
    exact fun k hk => (List.length_filter_eq_length_iff.mp this) k hk
  · intro h
    have : (pred.filter good).length = pred.length := List.length_filter_eq_length_iff.mpr h
    unfold tpT; omega

/-! ### concrete predicates: monotone in ε -/

theorem isCoveredPt_isSome_indep (vi vj : Vec) (W : Mat) (ε ε' : Rat) :
    (isCoveredPt vi vj ε W).isSome = (isCoveredPt vi vj ε' W).isSome := by
  unfold isCoveredPt
  cases coverSolve vi vj W <;> rfl

theorem isCoveredPt_mono {vi vj : Vec} {W : Mat} {ε ε' : Rat} (h0 : 0 ≤ ε) (hle : ε ≤ ε')
    (h : isCoveredPt vi vj ε W = some true) : isCoveredPt vi vj ε' W = some true := by
  unfold isCoveredPt at h ⊢
  cases hc : coverSolve vi vj W with
  | dist2 d2 y lam =>
    simp only [hc, Option.some.injEq, Bool.and_eq_true, decide_eq_true_eq] at h ⊢
    refine ⟨h0.trans hle, h.2.trans ?_⟩
    exact mul_self_le_mul_self h0 hle
  | infeasible lam => simp [hc] at h
  | unknown => simp [hc] at h

theorem covIdx_isSome_indep (mu : Mat) (W : Mat) (ε ε' : Rat) (i j : Nat) :
    (covIdx mu ε W i j).isSome = (covIdx mu ε' W i j).isSome := by
  unfold covIdx
  cases mu[i]? <;> cases mu[j]? <;> simp [isCoveredPt_isSome_indep _ _ W ε ε']

theorem covIdx_mono {mu W : Mat} {ε ε' : Rat} (h0 : 0 ≤ ε) (hle : ε ≤ ε') {i j : Nat}
    (h : covIdx mu ε W i j = some true) : covIdx mu ε' W i j = some true := by
  unfold covIdx at h ⊢
  cases hi : mu[i]? with
  | none => simp [hi] at h
  | some vi =>
    cases hj : mu[j]? with
    | none => simp [hi, hj] at h
    | some vj =>
      simp only [hi, hj] at h ⊢
      exact isCoveredPt_mono h0 hle h

theorem goodIdx_mono {ds : Vec} {ε ε' : Rat} (hle : ε ≤ ε') {k : Nat}
    (h : goodIdx ds ε k = true) : goodIdx ds ε' k = true := by
  unfold goodIdx at h ⊢
  cases hk : ds[k]? with
  | none => simp [hk] at h
  | some d =>
    simp only [hk, decide_eq_true_eq] at h ⊢
    exact h.trans hle

/-! ### unfolding `f1FromDelta` -/

theorem f1FromDelta_val_iff (mu W : Mat) (ds : Vec) (truth pred : List Nat) (ε q : Rat) :
    f1FromDelta mu W (some ds) truth pred ε = .val q ↔
      ∃ c, f1Counts (covIdx mu ε W) (goodIdx ds ε) truth pred = some c ∧ f1Of c = some q := by
  unfold f1FromDelta
  simp only
  cases h1 : f1Counts (covIdx mu ε W) (goodIdx ds ε) truth pred with
  | none => simp
  | some c =>
    cases h2 : f1Of c with
    | none => simp [h2]
    | some q' => simp [h2]

theorem forall₂_getElem? {α β : Type} {R : α → β → Prop} {l1 : List α} {l2 : List β}
    (h : List.Forall₂ R l1 l2) {k : Nat} {a : α} (ha : l1[k]? = some a) :
    ∃ b, l2[k]? = some b ∧ R a b := by
  induction h generalizing k with
  | nil => simp at ha
  | cons hab _ ih =>
    cases k with
    | zero => simp at ha; subst ha; exact ⟨_, by simp, hab⟩
    | succ k => simp at ha; obtain ⟨b, hb, hr⟩ := ih ha; exact ⟨b, by simpa using hb, hr⟩

/-- totality of the coverage oracle on the pairs the score can ask about: every exact projection
involved returned a certificate (always the case in the harness runs: `f1_inconclusive = 0`) -/
def CovTotal (mu W : Mat) (ε : Rat) (truth pred : List Nat) : Prop :=
  ∀ i ∈ truth, ∀ j ∈ pred, (covIdx mu ε W i j).isSome = true

theorem f1FromDelta_total (mu W : Mat) (ds : Vec) (truth pred : List Nat) (ε : Rat)
    (ht : CovTotal mu W ε truth pred) :
    ∃ c : Nat → Nat → Bool, (∀ i ∈ truth, ∀ j ∈ pred, covIdx mu ε W i j = some (c i j)) ∧
      f1Counts (covIdx mu ε W) (goodIdx ds ε) truth pred =
        some (tpT (goodIdx ds ε) pred, pred.length - tpT (goodIdx ds ε) pred, uncT c truth pred) := by
  obtain ⟨c, hc⟩ := total_of_isSome (covIdx mu ε W) truth pred ht
  exact ⟨c, hc, f1Counts_total _ c _ truth pred hc⟩

/-- when nothing is missed no coverage question is asked -/
theorem f1Counts_of_no_missed (cov : Nat → Nat → Option Bool) (good : Nat → Bool)
    (truth pred : List Nat) (hsub : ∀ i ∈ truth, i ∈ pred) :
    f1Counts cov good truth pred = some (tpT good pred, pred.length - tpT good pred, 0) := by
  have : missed truth pred = [] := by
    rw [List.eq_nil_iff_forall_not_mem]
    intro i hi
    obtain ⟨h1, h2⟩ := (mem_missed i truth pred).mp hi
    exact h2 (hsub i h1)
  simp [f1Counts, this, uncoveredSize, uncoveredSet, tpT]

/-- the score is `1` for a non-empty prediction that misses no true index and whose members all
have gap at most ε -/
theorem f1FromDelta_true_set (mu W : Mat) (ds : Vec) (truth pred : List Nat) (ε : Rat)
    (hne : pred ≠ []) (hsub : ∀ i ∈ truth, i ∈ pred) (hgood : ∀ k ∈ pred, goodIdx ds ε k = true) :
    f1FromDelta mu W (some ds) truth pred ε = .val 1 := by
  apply (f1FromDelta_val_iff mu W ds truth pred ε 1).mpr
  refine ⟨_, f1Counts_of_no_missed _ _ truth pred hsub, (f1Of_eq_one_iff _).mpr ⟨?_, ?_, rfl⟩⟩
  · have hfp := (fp_eq_zero_iff _ _).mpr hgood
    have hle := tpT_le (goodIdx ds ε) pred
    have : 0 < pred.length := List.length_pos_iff.mpr hne
    simp only
    omega
  · exact (fp_eq_zero_iff _ _).mpr hgood

end VOPy.Eval
