import Mathlib.Probability.Distributions.Gaussian.Multivariate
import Mathlib.Probability.Distributions.Gaussian.CharFun
import Mathlib.Probability.Distributions.Gaussian.Fernique
import Mathlib.Probability.Moments.Covariance
/-! Helper lemmas for C20: the law of `f + x·M` for a standard Gaussian row `x` is the multivariate
Gaussian with mean `f` and covariance `MᵀM`. -/
namespace VOPy.Problem
open MeasureTheory Matrix WithLp ProbabilityTheory
open scoped RealInnerProductSpace

variable {d : Nat}

/-- the noisy evaluation `f + x·M` of a row `x`, as a map of Euclidean space -/
noncomputable def noisyMap (f : EuclideanSpace ℝ (Fin d)) (M : Matrix (Fin d) (Fin d) ℝ) :
    EuclideanSpace ℝ (Fin d) → EuclideanSpace ℝ (Fin d) :=
  fun x => toLp 2 (ofLp f + ofLp x ᵥ* M)

theorem noisyMap_eq (f : EuclideanSpace ℝ (Fin d)) (M : Matrix (Fin d) (Fin d) ℝ) :
    noisyMap f M = fun x => f + toEuclideanCLM (𝕜 := ℝ) Mᵀ x := by
  funext x
  apply (WithLp.ofLp_injective 2)
  simp [noisyMap, Matrix.mulVec_transpose]

/-- law of the noisy evaluation when the row is standard Gaussian -/
noncomputable def noisyLaw (f : EuclideanSpace ℝ (Fin d)) (M : Matrix (Fin d) (Fin d) ℝ) :
    Measure (EuclideanSpace ℝ (Fin d)) :=
  (stdGaussian (EuclideanSpace ℝ (Fin d))).map (noisyMap f M)

theorem noisyLaw_eq (f : EuclideanSpace ℝ (Fin d)) (M : Matrix (Fin d) (Fin d) ℝ) :
    noisyLaw f M = ((stdGaussian (EuclideanSpace ℝ (Fin d))).map
      (toEuclideanCLM (𝕜 := ℝ) Mᵀ)).map (fun x => f + x) := by
  unfold noisyLaw
  rw [noisyMap_eq, Measure.map_map (measurable_const_add f) (by fun_prop)]
  rfl

instance isGaussian_noisyLaw (f : EuclideanSpace ℝ (Fin d)) (M : Matrix (Fin d) (Fin d) ℝ) :
    IsGaussian (noisyLaw f M) := by
  rw [noisyLaw_eq]
  infer_instance

theorem integral_id_noisyLaw (f : EuclideanSpace ℝ (Fin d)) (M : Matrix (Fin d) (Fin d) ℝ) :
    ∫ x, x ∂(noisyLaw f M) = f := by
  unfold noisyLaw
  rw [noisyMap_eq, integral_map (by fun_prop) (by fun_prop),
    integral_add (integrable_const _), integral_const]
  · simp [ContinuousLinearMap.integral_comp_comm _ IsGaussian.integrable_fun_id]
  · exact IsGaussian.integrable_id.comp_measurable (by fun_prop)

set_option backward.isDefEq.respectTransparency false in
theorem covarianceBilin_noisyLaw (f : EuclideanSpace ℝ (Fin d)) (M : Matrix (Fin d) (Fin d) ℝ)
    (x y : EuclideanSpace ℝ (Fin d)) :
    covarianceBilin (noisyLaw f M) x y = x ⬝ᵥ (Mᵀ * M) *ᵥ y := by
  rw [noisyLaw_eq, covarianceBilin_map_const_add, covarianceBilin_map, covarianceBilin_stdGaussian,
    innerSL_apply_apply, ContinuousLinearMap.adjoint_inner_left,
    ← ContinuousLinearMap.comp_apply, ← ContinuousLinearMap.mul_def]
  · have : (toEuclideanCLM (𝕜 := ℝ) Mᵀ) * ContinuousLinearMap.adjoint (toEuclideanCLM (𝕜 := ℝ) Mᵀ)
        = toEuclideanCLM (𝕜 := ℝ) (Mᵀ * M) := by
      rw [← ContinuousLinearMap.star_eq_adjoint, ← map_star, ← map_mul]
      simp [Matrix.star_eq_conjTranspose]
    rw [this, inner_toEuclideanCLM]
  · exact IsGaussian.memLp_two_id

theorem noisyLaw_eq_multivariateGaussian (f : EuclideanSpace ℝ (Fin d))
    (M : Matrix (Fin d) (Fin d) ℝ) :
    noisyLaw f M = multivariateGaussian f (Mᵀ * M) := by
  have hS : (Mᵀ * M).PosSemidef := by
    have := Matrix.posSemidef_conjTranspose_mul_self M
    simpa [Matrix.conjTranspose_eq_transpose_of_trivial] using this
  apply IsGaussian.ext
  · simp only [id_eq]
    rw [integral_id_noisyLaw, integral_id_multivariateGaussian]
  · ext x y
    rw [covarianceBilin_noisyLaw, covarianceBilin_multivariateGaussian hS]

/-! ## the standard Gaussian has mean 0 and identity second moment -/

theorem stdGaussian_memLp_coord (i : Fin d) :
    MemLp (fun x : EuclideanSpace ℝ (Fin d) => x i) 2 (stdGaussian (EuclideanSpace ℝ (Fin d))) := by
  have h := IsGaussian.memLp_dual (stdGaussian (EuclideanSpace ℝ (Fin d)))
    (EuclideanSpace.proj i : EuclideanSpace ℝ (Fin d) →L[ℝ] ℝ) 2 (by simp)
  exact h

theorem stdGaussian_integral_coord (i : Fin d) :
    ∫ x : EuclideanSpace ℝ (Fin d), x i ∂(stdGaussian (EuclideanSpace ℝ (Fin d))) = 0 := by
  have := integral_strongDual_stdGaussian (E := EuclideanSpace ℝ (Fin d))
    (EuclideanSpace.proj i : EuclideanSpace ℝ (Fin d) →L[ℝ] ℝ)
  simpa using this

theorem stdGaussian_integral_coord_mul (i j : Fin d) :
    ∫ x : EuclideanSpace ℝ (Fin d), x i * x j ∂(stdGaussian (EuclideanSpace ℝ (Fin d))) =
      if i = j then 1 else 0 := by
  have hS : (1 : Matrix (Fin d) (Fin d) ℝ).PosSemidef := Matrix.PosSemidef.one
  have h := covariance_eval_multivariateGaussian (μ := (0 : EuclideanSpace ℝ (Fin d))) hS i j
  rw [multivariateGaussian_zero_one, covariance_eq_sub (stdGaussian_memLp_coord i) (stdGaussian_memLp_coord j),
    stdGaussian_integral_coord, stdGaussian_integral_coord] at h
  simp only [Pi.mul_apply, mul_zero, sub_zero] at h
  rw [h, Matrix.one_apply]

end VOPy.Problem
