import VOPyVerif.Model.RealLike
import Mathlib.Analysis.SpecialFunctions.Log.Basic
import Mathlib.Analysis.SpecialFunctions.Sqrt
import Mathlib.Analysis.SpecialFunctions.Trigonometric.Basic
/-! The `ℝ` instance of `RealLike` used by every theorem about a formula term. -/
namespace VOPy

noncomputable instance : RealLike ℝ where
  ofNat n := (n : ℝ)
  sqrt := Real.sqrt
  log := Real.log
  exp := Real.exp
  sin := Real.sin
  cos := Real.cos
  tan := Real.tan
  pi := Real.pi

@[simp] theorem RealLike.ofNat_real (n : Nat) : (RealLike.ofNat n : ℝ) = (n : ℝ) := rfl
@[simp] theorem RealLike.sqrt_real (x : ℝ) : RealLike.sqrt x = Real.sqrt x := rfl
@[simp] theorem RealLike.log_real (x : ℝ) : RealLike.log x = Real.log x := rfl
@[simp] theorem RealLike.exp_real (x : ℝ) : RealLike.exp x = Real.exp x := rfl
@[simp] theorem RealLike.sin_real (x : ℝ) : RealLike.sin x = Real.sin x := rfl
@[simp] theorem RealLike.cos_real (x : ℝ) : RealLike.cos x = Real.cos x := rfl
@[simp] theorem RealLike.tan_real (x : ℝ) : RealLike.tan x = Real.tan x := rfl
@[simp] theorem RealLike.pi_real : (RealLike.pi : ℝ) = Real.pi := rfl
@[simp] theorem RealLike.sq_real (x : ℝ) : RealLike.sq x = x ^ 2 := by simp [RealLike.sq, pow_two]

end VOPy
