import VOPyVerif.Proofs.EvalF1
import VOPyVerif.Proofs.EvalCast
import VOPyVerif.Proofs.EvalInvariance
/-!
# Helper lemmas for C19: invariance of ε-coverage and of the ε-F1 score (over `ℚ`, as the driver runs)

* translation: `coverSolve`, `isCoveredPt`, `covIdx`, `f1`, `f1B` do not change when all value vectors
  are translated by a common vector (the whole computation only sees differences);
* scaling: with the values **and** `ε` multiplied by the same `c > 0` the certified search is
  equivariant — the linear solves scale, the KKT / Farkas checkers accept exactly the scaled
  certificates — so `isCoveredPt`, hence `f1`, `f1B`, are unchanged (including the `unknown` outcome).
-/
namespace VOPy.Eval
open VOPy

/-! ### translation -/

theorem gsubQ_translate (a b t : Vec) (ha : a.length = t.length) (hb : b.length = t.length) :
    gsub (vadd a t) (vadd b t) = gsub a b :=
  gsub_translate (K := ℚ) a b t ha hb

theorem vadd_length (a t : Vec) (h : a.length = t.length) : (vadd a t).length = a.length := by
  simp [vadd, h]

theorem coverSolve_translate (vi vj t : Vec) (W : Mat) (hi : vi.length = t.length)
    (hj : vj.length = t.length) : coverSolve (vadd vi t) (vadd vj t) W = coverSolve vi vj W := by
  simp only [coverSolve, coverRhs, gsubQ_translate vi vj t hi hj, vadd_length vi t hi,
    vadd_length vj t hj]

theorem isCoveredPt_translate (vi vj t : Vec) (ε : Rat) (W : Mat) (hi : vi.length = t.length)
    (hj : vj.length = t.length) :
    isCoveredPt (vadd vi t) (vadd vj t) ε W = isCoveredPt vi vj ε W := by
  simp only [isCoveredPt, coverSolve_translate vi vj t W hi hj]

theorem covIdx_map (T : Vec → Vec) (mu : Mat) (ε ε' : Rat) (W : Mat)
    (h : ∀ vi ∈ mu, ∀ vj ∈ mu, isCoveredPt (T vi) (T vj) ε' W = isCoveredPt vi vj ε W) :
    covIdx (mu.map T) ε' W = covIdx mu ε W := by
  funext i j
  simp only [covIdx, List.getElem?_map]
  cases hi : mu[i]? with
  | none => rfl
  | some vi =>
    cases hj : mu[j]? with
    | none => rfl
    | some vj =>
      simp only [Option.map_some]
      exact h vi (List.mem_of_getElem? hi) vj (List.mem_of_getElem? hj)

theorem smallMQ_translate (vi vj t : Vec) (W : Mat) (α : Vec) (hi : vi.length = t.length)
    (hj : vj.length = t.length) :
    smallM (vadd vi t) (vadd vj t) W α = smallM vi vj W α :=
  smallM_translate (K := ℚ) vi vj t W α hi hj

theorem smallMBQ_translate (vi vj t : Vec) (W : Mat) (α : Vec) (hi : vi.length = t.length)
    (hj : vj.length = t.length) :
    smallMB (vadd vi t) (vadd vj t) W α = smallMB vi vj W α :=
  smallMB_translate (K := ℚ) vi vj t W α hi hj

theorem deltaQ_translate (mu W : Mat) (α t : Vec) (h : ∀ v ∈ mu, v.length = t.length) :
    delta (mu.map (fun v => vadd v t)) W α = delta mu W α ∧
    deltaB (mu.map (fun v => vadd v t)) W α = deltaB mu W α :=
  ⟨deltaWith_map (K := ℚ) _ _ (fun v => vadd v t) mu
      (fun vi hi vj hj => smallMQ_translate vi vj t W α (h vi hi) (h vj hj)),
   deltaWith_map (K := ℚ) _ _ (fun v => vadd v t) mu
      (fun vi hi vj hj => smallMBQ_translate vi vj t W α (h vi hi) (h vj hj))⟩

/-- **ε-F1 is translation invariant** (both gap conventions). -/
theorem f1_translate (mu W : Mat) (α t : Vec) (truth pred : List Nat) (ε : Rat)
    (h : ∀ v ∈ mu, v.length = t.length) :
    f1 (mu.map (fun v => vadd v t)) W α truth pred ε = f1 mu W α truth pred ε ∧
    f1B (mu.map (fun v => vadd v t)) W α truth pred ε = f1B mu W α truth pred ε := by
  have hc := covIdx_map (fun v => vadd v t) mu ε ε W
    (fun vi hi vj hj => isCoveredPt_translate vi vj t ε W (h vi hi) (h vj hj))
  obtain ⟨h1, h2⟩ := deltaQ_translate mu W α t h
  constructor <;> simp only [f1, f1B, f1FromDelta, h1, h2, hc]

/-! ### scaling: the certified search is equivariant -/

theorem smul_length (k : Rat) (v : Vec) : (smul k v).length = v.length := by simp [smul]

theorem gdotQ_smul_right (k : Rat) : ∀ a b : Vec, gdot a (smul k b) = k * gdot a b
  | [], _ => by simp
  | _ :: _, [] => by simp [smul]
  | x :: a, y :: b => by
    have ih := gdotQ_smul_right k a b
    simp only [smul, List.map_cons, gdotQ_cons] at ih ⊢
    rw [ih]; ring

theorem gdotQ_smul_left (k : Rat) : ∀ a b : Vec, gdot (smul k a) b = k * gdot a b
  | [], _ => by simp [smul]
  | _ :: _, [] => by simp
  | x :: a, y :: b => by
    have ih := gdotQ_smul_left k a b
    simp only [smul, List.map_cons, gdotQ_cons] at ih ⊢
    rw [ih]; ring

/-- Gaussian elimination is linear in the right-hand sides -/
theorem solveLin_smul (k : Rat) : ∀ (n : Nat) (rows : List (Vec × Rat)),
    solveLin n (rows.map (fun r => (r.1, k * r.2))) = (solveLin n rows).map (smul k)
  | 0, _ => by simp [solveLin, smul]
  | n + 1, rows => by
    simp only [solveLin, List.partition_eq_filter_filter, List.filter_map]
    have e1 : ((fun r : Vec × Rat => decide (headD r.1 ≠ 0)) ∘ fun r : Vec × Rat => (r.1, k * r.2)) =
        fun r : Vec × Rat => decide (headD r.1 ≠ 0) := by funext r; rfl
    have e2 : ((not ∘ fun r : Vec × Rat => decide (headD r.1 ≠ 0)) ∘
          fun r : Vec × Rat => (r.1, k * r.2)) =
        (not ∘ fun r : Vec × Rat => decide (headD r.1 ≠ 0)) := by funext r; rfl
    rw [e1, e2]
    cases hp : rows.filter (fun r => decide (headD r.1 ≠ 0)) with
    | nil => simp
    | cons p ps =>
      simp only [List.map_cons, ← List.map_append, List.map_map]
      have e3 : ((fun r : Vec × Rat =>
            (vsub r.1.tail (smul (headD r.1 / headD p.1) p.1.tail),
              r.2 - headD r.1 / headD p.1 * (k * p.2))) ∘ fun r : Vec × Rat => (r.1, k * r.2)) =
          ((fun r : Vec × Rat => (r.1, k * r.2)) ∘ fun r : Vec × Rat =>
            (vsub r.1.tail (smul (headD r.1 / headD p.1) p.1.tail),
              r.2 - headD r.1 / headD p.1 * p.2)) := by
        funext r
        simp only [Function.comp_def, Prod.mk.injEq, true_and]
        ring
      rw [e3, ← List.map_map, solveLin_smul k n]
      cases solveLin n ((ps ++ rows.filter (not ∘ fun r => decide (headD r.1 ≠ 0))).map
          (fun r => (vsub r.1.tail (smul (headD r.1 / headD p.1) p.1.tail),
            r.2 - headD r.1 / headD p.1 * p.2))) with
      | none => rfl
      | some xs =>
        simp only [Option.map_some, smul, List.map_cons, Option.some.injEq, List.cons.injEq, and_true]
        have := gdotQ_smul_right k p.1.tail xs
        simp only [smul] at this
        rw [this]
        ring

theorem pick_smul (k : Rat) (b : Vec) (S : List Nat) : pick (smul k b) S = smul k (pick b S) := by
  induction S with
  | nil => rfl
  | cons s S ih =>
    simp only [pick, List.filterMap_cons, smul, List.getElem?_map] at ih ⊢
    cases b[s]? with
    | none => simpa using ih
    | some x => simp only [Option.map_some, List.map_cons]; rw [ih]

theorem gramSolve_smul (k : Rat) (A : Mat) (r : Vec) :
    gramSolve A (smul k r) = (gramSolve A r).map (smul k) := by
  simp only [gramSolve, smul, List.zip_map_right]
  exact solveLin_smul k _ _

theorem axpy_smul (k l : Rat) : ∀ w r : Vec, axpy (k * l) w (smul k r) = smul k (axpy l w r)
  | [], _ => by simp [axpy, smul]
  | _ :: _, [] => by simp [axpy, smul]
  | x :: w, y :: r => by
    have ih := axpy_smul k l w r
    simp only [axpy, smul, List.map_cons, List.zipWith_cons_cons] at ih ⊢
    rw [ih]; congr 1; ring

theorem smul_zeros (k : Rat) (D : Nat) : smul k (zeros D) = zeros D := by
  simp [smul, zeros]

theorem lincomb_smul (k : Rat) (D : Nat) : ∀ (W : Mat) (lam : Vec),
    lincomb D W (smul k lam) = smul k (lincomb D W lam)
  | [], _ => by simp [lincomb, smul, zeros]
  | _ :: _, [] => by simp [lincomb, smul, zeros]
  | w :: W, l :: ls => by
    have ih := lincomb_smul k D W ls
    simp only [smul, List.map_cons, lincomb] at ih ⊢
    rw [ih]
    exact axpy_smul k l w _

theorem scatter_smul (k : Rat) (N : Nat) (S : List Nat) (mu : Vec) :
    scatter N S (smul k mu) = smul k (scatter N S mu) := by
  simp only [scatter, smul, List.map_map]
  apply List.map_congr_left
  intro j _
  simp only [Function.comp_def]
  induction S generalizing mu with
  | nil => simp
  | cons s S ih =>
    cases mu with
    | nil => simp
    | cons m mu =>
      simp only [List.map_cons, List.zip_cons_cons, List.lookup_cons]
      split
      · simp
      · exact ih mu

theorem candidate_smul (k : Rat) (D : Nat) (W : Mat) (b : Vec) (S : List Nat) :
    candidate D W (smul k b) S = (candidate D W b S).map (fun p => (smul k p.1, smul k p.2)) := by
  simp only [candidate, pick_smul, gramSolve_smul]
  cases gramSolve (pick W S) (pick b S) with
  | none => rfl
  | some mu => simp only [Option.map_some, lincomb_smul, scatter_smul]

theorem feasible_smul (k : Rat) (hk : 0 < k) : ∀ (W : Mat) (b y : Vec),
    feasible W (smul k b) (smul k y) = feasible W b y
  | [], [], _ => by simp [feasible, smul]
  | [], _ :: _, _ => by simp [feasible, smul]
  | _ :: _, [], _ => by simp [feasible, smul]
  | w :: W, b :: bs, y => by
    have ih := feasible_smul k hk W bs y
    simp only [smul, List.map_cons, feasible] at ih ⊢
    rw [ih]
    congr 1
    have := gdotQ_smul_right k w y
    simp only [smul] at this
    rw [this, decide_eq_decide]
    exact mul_le_mul_iff_right₀ hk

theorem complSlack_smul (k : Rat) (hk : 0 < k) : ∀ (W : Mat) (b lam y : Vec),
    complSlack W (smul k b) (smul k lam) (smul k y) = complSlack W b lam y
  | [], [], [], _ => by simp [complSlack, smul]
  | [], [], _ :: _, _ => by simp [complSlack, smul]
  | [], _ :: _, _, _ => by simp [complSlack, smul]
  | _ :: _, [], _, _ => by simp [complSlack, smul]
  | _ :: _, _ :: _, [], _ => by simp [complSlack, smul]
  | w :: W, b :: bs, l :: ls, y => by
    have ih := complSlack_smul k hk W bs ls y
    simp only [smul, List.map_cons, complSlack] at ih ⊢
    rw [ih]
    congr 1
    have := gdotQ_smul_right k w y
    simp only [smul] at this
    rw [this, decide_eq_decide]
    have e : k * l * (k * gdot w y - k * b) = k * k * (l * (gdot w y - b)) := by ring
    rw [e]
    constructor
    · intro h
      rcases mul_eq_zero.mp h with h | h
      · exact absurd h (ne_of_gt (mul_pos hk hk))
      · exact h
    · intro h; rw [h, mul_zero]

theorem allNonneg_smul (k : Rat) (hk : 0 < k) (v : Vec) : allNonneg (smul k v) = allNonneg v := by
  simp only [allNonneg, smul, List.all_map]
  congr 1
  funext x
  simp only [Function.comp_def, decide_eq_decide]
  exact ⟨fun h => by
    rcases le_or_gt 0 x with h' | h'
    · exact h'
    · exact absurd h (not_le.2 (mul_neg_of_pos_of_neg hk h')), fun h => mul_nonneg (le_of_lt hk) h⟩

theorem smul_inj (k : Rat) (hk : k ≠ 0) : ∀ a b : Vec, smul k a = smul k b ↔ a = b
  | [], [] => by simp
  | [], _ :: _ => by simp [smul]
  | _ :: _, [] => by simp [smul]
  | x :: a, y :: b => by
    have ih := smul_inj k hk a b
    simp only [smul, List.map_cons, List.cons.injEq] at ih ⊢
    rw [ih, mul_right_inj' hk]

theorem checkKKT_smul (k : Rat) (hk : 0 < k) (D : Nat) (W : Mat) (b y lam : Vec) :
    checkKKT D W (smul k b) (smul k y) (smul k lam) = checkKKT D W b y lam := by
  simp only [checkKKT, smul_length, feasible_smul k hk, allNonneg_smul k hk, lincomb_smul,
    complSlack_smul k hk]
  congr 2
  rw [decide_eq_decide]
  exact smul_inj k (ne_of_gt hk) _ _

theorem findSome?_map_result {α β : Type} (f g : α → Option β) (φ : β → β)
    (h : ∀ x, g x = (f x).map φ) : ∀ l : List α, l.findSome? g = (l.findSome? f).map φ := by
  intro l
  induction l with
  | nil => rfl
  | cons x l ih =>
    simp only [List.findSome?_cons, h x]
    cases f x with
    | none => simpa using ih
    | some b => rfl

theorem project_smul (k : Rat) (hk : 0 < k) (D : Nat) (W : Mat) (b : Vec) :
    project D W (smul k b) = (project D W b).map (fun p => (smul k p.1, smul k p.2)) := by
  simp only [project]
  apply findSome?_map_result
  intro S
  rw [candidate_smul]
  cases candidate D W b S with
  | none => rfl
  | some p =>
    obtain ⟨y, lam⟩ := p
    simp only [Option.map_some, checkKKT_smul k hk]
    split <;> rfl

theorem checkFarkas_smul (k : Rat) (hk : 0 < k) (D : Nat) (W : Mat) (b lam : Vec) :
    checkFarkas D W (smul k b) lam = checkFarkas D W b lam := by
  simp only [checkFarkas, smul_length, gdotQ_smul_right]
  congr 1
  rw [decide_eq_decide]
  exact mul_pos_iff_of_pos_left hk

theorem findFarkas_smul (k : Rat) (hk : 0 < k) (D : Nat) (W : Mat) (b : Vec) :
    findFarkas D W (smul k b) = findFarkas D W b := by
  simp only [findFarkas, checkFarkas_smul k hk]

theorem reluQ_mul (k x : Rat) (hk : 0 < k) : relu (k * x) = k * relu x :=
  relu_mul (K := ℚ) k x hk

theorem gsubQ_smul (k : Rat) : ∀ a b : Vec, gsub (smul k a) (smul k b) = smul k (gsub a b)
  | [], _ => by simp [gsub, smul]
  | _ :: _, [] => by simp [gsub, smul]
  | x :: a, y :: b => by
    have ih := gsubQ_smul k a b
    simp only [gsub, smul, List.map_cons, List.zipWith_cons_cons] at ih ⊢
    rw [ih]; congr 1; ring

theorem coverRhs_smul (k : Rat) (hk : 0 < k) (vi vj : Vec) (W : Mat) :
    coverRhs (smul k vi) (smul k vj) W = smul k (coverRhs vi vj W) := by
  simp only [coverRhs, smul, List.map_map]
  apply List.map_congr_left
  intro w _
  simp only [Function.comp_def]
  have e : gsub (vi.map (k * ·)) (vj.map (k * ·)) = (gsub vi vj).map (k * ·) := gsubQ_smul k vi vj
  have := gdotQ_smul_right k w (gsub vi vj)
  simp only [smul] at this
  rw [e, this]
  exact reluQ_mul k _ hk

/-- **ε-coverage is invariant when the two points and `ε` are scaled by the same `c > 0`** — including
the outcome "no certificate found". -/
theorem isCoveredPt_smul (k : Rat) (hk : 0 < k) (vi vj : Vec) (ε : Rat) (W : Mat) :
    isCoveredPt (smul k vi) (smul k vj) (k * ε) W = isCoveredPt vi vj ε W := by
  simp only [isCoveredPt, coverSolve, smul_length, coverRhs_smul k hk, project_smul k hk,
    findFarkas_smul k hk]
  by_cases hlen : vj.length ≠ vi.length
  · rw [if_pos hlen, if_pos hlen]
  · rw [if_neg hlen, if_neg hlen]
    cases project vi.length W (coverRhs vi vj W) with
    | none =>
      simp only [Option.map_none]
      cases findFarkas vi.length W (coverRhs vi vj W) <;> rfl
    | some p =>
      obtain ⟨y, lam⟩ := p
      simp only [Option.map_some, gdotQ_smul_right, gdotQ_smul_left, Option.some.injEq]
      congr 1
      · rw [decide_eq_decide]; exact mul_nonneg_iff_of_pos_left hk
      · rw [decide_eq_decide]
        have e1 : k * (k * gdot y y) = k * k * gdot y y := by ring
        have e2 : k * ε * (k * ε) = k * k * (ε * ε) := by ring
        rw [e1, e2]
        exact mul_le_mul_iff_right₀ (mul_pos hk hk)

theorem smallMQ_smul (k : Rat) (hk : 0 < k) (vi vj : Vec) (W : Mat) (α : Vec) :
    smallM (smul k vi) (smul k vj) W α = (smallM vi vj W α).map (k * ·) :=
  smallM_gscale (K := ℚ) k hk vi vj W α

theorem smallMBQ_smul (k : Rat) (hk : 0 < k) (vi vj : Vec) (W : Mat) (α : Vec) :
    smallMB (smul k vi) (smul k vj) W α = (smallMB vi vj W α).map (k * ·) :=
  smallMB_gscale (K := ℚ) k hk vi vj W α

theorem deltaQ_smul (k : Rat) (hk : 0 < k) (mu W : Mat) (α : Vec) :
    delta (mu.map (smul k)) W α = (delta mu W α).map (smul k) ∧
    deltaB (mu.map (smul k)) W α = (deltaB mu W α).map (smul k) :=
  ⟨deltaWith_gscale (K := ℚ) k hk _ _ mu (fun vi _ vj _ => smallMQ_smul k hk vi vj W α),
   deltaWith_gscale (K := ℚ) k hk _ _ mu (fun vi _ vj _ => smallMBQ_smul k hk vi vj W α)⟩

theorem goodIdx_smul (k : Rat) (hk : 0 < k) (ds : Vec) (ε : Rat) :
    goodIdx (smul k ds) (k * ε) = goodIdx ds ε := by
  funext j
  simp only [goodIdx, smul, List.getElem?_map]
  cases ds[j]? with
  | none => rfl
  | some d =>
    simp only [Option.map_some, decide_eq_decide]
    exact mul_le_mul_iff_right₀ hk

/-- **ε-F1 is invariant when the values and `ε` are scaled by the same `c > 0`** (both gap
conventions; every outcome, `nan` / `unknown` / `ValueError` included). -/
theorem f1_smul (k : Rat) (hk : 0 < k) (mu W : Mat) (α : Vec) (truth pred : List Nat) (ε : Rat) :
    f1 (mu.map (smul k)) W α truth pred (k * ε) = f1 mu W α truth pred ε ∧
    f1B (mu.map (smul k)) W α truth pred (k * ε) = f1B mu W α truth pred ε := by
  have hc := covIdx_map (smul k) mu ε (k * ε) W
    (fun vi _ vj _ => isCoveredPt_smul k hk vi vj ε W)
  obtain ⟨h1, h2⟩ := deltaQ_smul k hk mu W α
  simp only [f1, f1B, f1FromDelta, h1, h2, hc]
  constructor
  · cases delta mu W α with
    | none => rfl
    | some ds => simp only [Option.map_some, goodIdx_smul k hk]
  · cases deltaB mu W α with
    | none => rfl
    | some ds => simp only [Option.map_some, goodIdx_smul k hk]

end VOPy.Eval
