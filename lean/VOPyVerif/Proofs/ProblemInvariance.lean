import VOPyVerif.Proofs.Problem
import VOPyVerif.Proofs.ConeOrder
/-!
# Helper lemmas for C20: invariance of the nearest-design lookup

* `argminFirst_map` — `np.argmin`'s first-minimum scan commutes with every strictly increasing map of
  the values (same index, ties included);
* `dists_translate`, `dists_scale` — the squared distances are unchanged by a common translation and
  multiplied by `c²` under scaling by `c`.
-/
namespace VOPy.Problem
open VOPy

theorem argminAux_map (f : Rat → Rat) (hf : ∀ x y, f x < f y ↔ x < y) :
    ∀ (ds : List Rat) (bv : Rat) (bi i : Nat),
      argminAux (f bv) bi i (ds.map f) = argminAux bv bi i ds := by
  intro ds
  induction ds with
  | nil => intro bv bi i; rfl
  | cons d ds ih =>
    intro bv bi i
    simp only [List.map_cons, argminAux, hf]
    split
    · exact ih d i (i + 1)
    · exact ih bv bi (i + 1)

/-- **`argmin` (first minimum) is invariant under strictly increasing maps of the values.** -/
theorem argminFirst_map (f : Rat → Rat) (hf : ∀ x y, f x < f y ↔ x < y) (l : List Rat) :
    argminFirst (l.map f) = argminFirst l := by
  cases l with
  | nil => rfl
  | cons d ds => simp only [List.map_cons, argminFirst, argminAux_map f hf]

theorem vsub_translate (a b t : Vec) (ha : a.length = t.length) (hb : b.length = t.length) :
    vsub (vadd a t) (vadd b t) = vsub a b :=
  ConeOrd.zipWith_sub_translate a b t ha hb

theorem sqDist_translate (a b t : Vec) (ha : a.length = t.length) (hb : b.length = t.length) :
    sqDist (vadd a t) (vadd b t) = sqDist a b := by
  simp only [sqDist, vsub_translate a b t ha hb]

theorem normSq_smul (c : Rat) : ∀ v : Vec, normSq (smul c v) = c * c * normSq v
  | [] => by simp [normSq, smul, dot]
  | x :: v => by
    have ih := normSq_smul c v
    simp only [normSq, smul, List.map_cons, dot] at ih ⊢
    rw [ih]; ring

theorem vsub_smul (c : Rat) : ∀ a b : Vec, vsub (smul c a) (smul c b) = smul c (vsub a b)
  | [], _ => by simp [vsub, smul]
  | _ :: _, [] => by simp [vsub, smul]
  | x :: a, y :: b => by
    have ih := vsub_smul c a b
    simp only [vsub, smul, List.map_cons, List.zipWith_cons_cons] at ih ⊢
    rw [ih]
    congr 1
    ring

theorem sqDist_smul (c : Rat) (a b : Vec) : sqDist (smul c a) (smul c b) = c * c * sqDist a b := by
  simp only [sqDist, vsub_smul, normSq_smul]

/-- the distance list is literally the same after a common translation -/
theorem dists_translate (x t : Vec) (X : Mat) (hx : x.length = t.length)
    (hX : ∀ r ∈ X, r.length = t.length) :
    dists (vadd x t) (X.map (fun r => vadd r t)) = dists x X := by
  simp only [dists, List.map_map]
  apply List.map_congr_left
  intro r hr
  exact sqDist_translate x r t hx (hX r hr)

/-- every distance is multiplied by `c²` under scaling by `c` -/
theorem dists_scale (c : Rat) (x : Vec) (X : Mat) :
    dists (smul c x) (X.map (smul c)) = (dists x X).map (fun d => c * c * d) := by
  simp only [dists, List.map_map]
  apply List.map_congr_left
  intro r _
  exact sqDist_smul c x r

theorem mul_sq_lt_iff (c : Rat) (hc : c ≠ 0) (x y : Rat) : c * c * x < c * c * y ↔ x < y := by
  have : 0 < c * c := mul_self_pos.mpr hc
  exact mul_lt_mul_iff_right₀ this

end VOPy.Problem
