import VOPyVerif.Model.Schedules
import VOPyVerif.Proofs.RealInst
import VOPyVerif.Proofs.Tails
import Mathlib.NumberTheory.ZetaValues
import Mathlib.Analysis.Real.Pi.Bounds
/-!
# Helper lemmas for C04: the schedule terms at `ℝ`, series, generic union-bound lemmas

`*_real` lemmas rewrite the `RealLike` terms of `Model/Schedules.lean`, instantiated at `ℝ` with
contraction `1`, into ordinary real expressions (the term itself is untouched: these are equalities
about the very definitions the driver runs at `Float`).
-/
namespace VOPy.SchedR
open Real MeasureTheory ProbabilityTheory VOPy VOPy.Sched
open scoped NNReal

/-! ### The schedule terms at `ℝ`, contraction 1 -/

theorem vogpBeta_real (t m K : ℕ) (δ : ℝ) :
    vogpBeta t m K δ (1:ℝ) = √(2 * Real.log ((m:ℝ) * K * π^2 * ((t:ℝ)+1)^2 / (3*δ))) := by
  simp only [vogpBeta, RealLike.ofNat_real, RealLike.sqrt_real, RealLike.log_real, RealLike.pi_real,
    RealLike.sq_real, div_one]
  push_cast
  ring_nf

theorem epalBeta_real (t m K : ℕ) (δ : ℝ) :
    epalBeta t m K δ (1:ℝ) = √(2 * Real.log ((m:ℝ) * K * π^2 * ((t:ℝ)+1)^2 / (6*δ))) := by
  simp only [epalBeta, RealLike.ofNat_real, RealLike.sqrt_real, RealLike.log_real, RealLike.pi_real,
    RealLike.sq_real, div_one]
  push_cast
  ring_nf

theorem auerBeta_real (t m K : ℕ) (δ : ℝ) :
    auerBeta t m K δ (1:ℝ) = √(2 * Real.log (4 * (K:ℝ) * m * (t:ℝ)^2 / δ) / t) := by
  simp only [auerBeta, RealLike.ofNat_real, RealLike.sqrt_real, RealLike.log_real, div_one]
  push_cast
  ring_nf

theorem pavebaRadius_real (nv : ℝ) (t m K : ℕ) (δ : ℝ) :
    pavebaRadius nv t m K δ (1:ℝ)
      = √(8 * nv / t * Real.log (π^2 * ((m:ℝ)+1) * K * (t:ℝ)^2 / (6*δ))) := by
  simp only [pavebaRadius, RealLike.ofNat_real, RealLike.sqrt_real, RealLike.log_real,
    RealLike.pi_real, RealLike.sq_real, div_one]
  push_cast
  ring_nf

theorem pavebaGpAlpha_real (t m K : ℕ) (δ : ℝ) :
    pavebaGpAlpha t m K δ (1:ℝ)
      = 8 * m * Real.log 6 + 4 * Real.log (π^2 * (t:ℝ)^2 * K / (6*δ)) := by
  simp only [pavebaGpAlpha, RealLike.ofNat_real, RealLike.log_real, RealLike.pi_real,
    RealLike.sq_real, div_one]
  push_cast
  ring_nf

theorem partialGpAlpha_real (t K : ℕ) (δ : ℝ) :
    partialGpAlpha t K δ (1:ℝ) = 2 * Real.log (π^2 * (t:ℝ)^2 * K / (3*δ)) := by
  simp only [partialGpAlpha, RealLike.ofNat_real, RealLike.log_real, RealLike.pi_real,
    RealLike.sq_real, div_one]
  push_cast
  ring_nf

/-! ### Series -/

lemma hasSum_inv_sq_succ : HasSum (fun t : ℕ => 1 / ((t:ℝ)+1)^2) (π^2/6) := by
  have h := (hasSum_nat_add_iff (f := fun n : ℕ => (1:ℝ) / (n:ℝ)^2) 1).mpr
    (by simpa using hasSum_zeta_two)
  simpa using h

lemma hasSum_inv_four_succ : HasSum (fun t : ℕ => 1 / ((t:ℝ)+1)^4) (π^4/90) := by
  have h := (hasSum_nat_add_iff (f := fun n : ℕ => (1:ℝ) / (n:ℝ)^4) 1).mpr
    (by simpa using hasSum_zeta_four)
  simpa using h

/-- comparison with `C/(t+1)²`: summable (proved, not assumed) and total at most `C·π²/6` -/
lemma summable_tsum_le_sq {a : ℕ → ℝ} {C : ℝ} (h0 : ∀ t, 0 ≤ a t)
    (h : ∀ t, a t ≤ C * (1 / ((t:ℝ)+1)^2)) :
    Summable a ∧ ∑' t, a t ≤ C * (π^2/6) := by
  have hs := hasSum_inv_sq_succ.mul_left C
  have sa : Summable a := Summable.of_nonneg_of_le h0 h hs.summable
  exact ⟨sa, by rw [← hs.tsum_eq]; exact sa.tsum_le_tsum h hs.summable⟩

/-- comparison with `C/(t+1)⁴`: summable and total at most `C·π⁴/90` -/
lemma summable_tsum_le_four {a : ℕ → ℝ} {C : ℝ} (h0 : ∀ t, 0 ≤ a t)
    (h : ∀ t, a t ≤ C * (1 / ((t:ℝ)+1)^4)) :
    Summable a ∧ ∑' t, a t ≤ C * (π^4/90) := by
  have hs := hasSum_inv_four_succ.mul_left C
  have sa : Summable a := Summable.of_nonneg_of_le h0 h hs.summable
  exact ⟨sa, by rw [← hs.tsum_eq]; exact sa.tsum_le_tsum h hs.summable⟩

/-! ### exp/log algebra -/

lemma exp_neg_log {A : ℝ} (hA : 0 < A) : rexp (-Real.log A) = A⁻¹ := by
  rw [Real.exp_neg, Real.exp_log hA]

lemma exp_neg_half_sq_sqrt_two_log {A : ℝ} (hA : 1 ≤ A) :
    rexp (-(√(2 * Real.log A))^2/2) = A⁻¹ := by
  have h0 : 0 ≤ 2 * Real.log A := by have := Real.log_nonneg hA; positivity
  rw [Real.sq_sqrt h0, show -(2 * Real.log A)/2 = -Real.log A by ring, exp_neg_log (by linarith)]

lemma pi_sq_gt_nine : 9 < π^2 := by nlinarith [Real.pi_gt_three]

lemma one_le_cast_succ_sq (t : ℕ) : (1:ℝ) ≤ ((t:ℝ)+1)^2 := by
  have : (0:ℝ) ≤ t := Nat.cast_nonneg t
  nlinarith

/-! ### Generic union-bound lemma for coordinatewise Gaussian events -/

/-- If `K·m·exp(-β_t²/2) ≤ B_t` with `B` summable, then the sum over rounds, designs and objectives
of the actual Gaussian probabilities `P(|X - μ| > β_t √v)`, `X ~ N(μ, v)`, is summable and at most
`∑ B`.  Means and variances are arbitrary (they may depend on round, design and objective). -/
lemma union_gauss_le {K m : ℕ} (β : ℕ → ℝ) (hβ : ∀ t, 0 ≤ β t)
    (μ : ℕ → Fin K → Fin m → ℝ) (v : ℕ → Fin K → Fin m → ℝ≥0) {B : ℕ → ℝ}
    (hB : ∀ t, (K:ℝ) * m * rexp (-(β t)^2/2) ≤ B t) (hs : Summable B) :
    Summable (fun t => ∑ i, ∑ j, (gaussianReal (μ t i j) (v t i j)).real
        {x | β t * √(v t i j : ℝ) < |x - μ t i j|}) ∧
    ∑' t, (∑ i, ∑ j, (gaussianReal (μ t i j) (v t i j)).real
        {x | β t * √(v t i j : ℝ) < |x - μ t i j|}) ≤ ∑' t, B t := by
  have h0 : ∀ t, 0 ≤ ∑ i, ∑ j, (gaussianReal (μ t i j) (v t i j)).real
        {x | β t * √(v t i j : ℝ) < |x - μ t i j|} :=
    fun t => Finset.sum_nonneg fun i _ => Finset.sum_nonneg fun j _ => measureReal_nonneg
  have h1 : ∀ t, (∑ i, ∑ j, (gaussianReal (μ t i j) (v t i j)).real
        {x | β t * √(v t i j : ℝ) < |x - μ t i j|}) ≤ B t := by
    intro t
    refine le_trans ?_ (hB t)
    calc (∑ i, ∑ j, (gaussianReal (μ t i j) (v t i j)).real
            {x | β t * √(v t i j : ℝ) < |x - μ t i j|})
        ≤ ∑ _i : Fin K, ∑ _j : Fin m, rexp (-(β t)^2/2) :=
          Finset.sum_le_sum fun i _ => Finset.sum_le_sum fun j _ =>
            Tails.gauss_two_sided _ _ _ (hβ t)
      _ = (K:ℝ) * m * rexp (-(β t)^2/2) := by
          simp [Finset.sum_const, Finset.card_univ, mul_assoc]
  have sa := Summable.of_nonneg_of_le h0 h1 hs
  exact ⟨sa, sa.tsum_le_tsum h1 hs⟩

end VOPy.SchedR
