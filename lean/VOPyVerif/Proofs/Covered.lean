import VOPyVerif.Model.Covered
import VOPyVerif.Proofs.LinCertComplete
import Mathlib.Data.Set.Defs
import Mathlib.Data.List.GetD
/-!
# Semantics of "is covered" over `ℝ` and the rectangle LP

* `InBox l u z`, `box l u`   — the real box `[l, u]` (componentwise, equal lengths);
* `FacetGe W d t`            — `w · d ≥ tᵢ` for every facet `w` of `W` (one threshold per facet);
* `Cov R₁ R₂ W s t`          — `∃ z ∈ R₁, ∃ z' ∈ R₂, W (z' − z − s) ≥ t` : the semantic predicate of
                               C10 with an objective-space shift `s` *and* a per-facet margin `t`;
* `rectSys_sat`              — a real point `z ++ z'` satisfies the LP `rectSys` iff `z`, `z'` are
                               in their boxes and `W (z' − z − s) ≥ t`;
* `rectVerdictFast_yes/no`, `rectVerdict_yes/no` — soundness of the certified rectangle verdicts
                               (fast path; fast path + complete fallback);
* `rectSys_feasible_iff`, `rectSys_wf` — the LP is feasible over `ℝ` iff `Cov` holds; it is well formed;
* `rectVerdict_total`, `rectVerdict_yes_iff`, `rectVerdict_no_iff` — the verdict is never `inconclusive`
                               and decides `Cov` (uses `feasibleFM_complete`).
-/
namespace VOPy.Covered
open VOPy.LinCert

/-- `z ∈ [l, u]` componentwise; all three lists have the same length -/
def InBox : Vec → Vec → RVec → Prop
  | l :: ls, u :: us, z :: zs => (l : ℝ) ≤ z ∧ z ≤ (u : ℝ) ∧ InBox ls us zs
  | [], [], [] => True
  | _, _, _ => False

/-- the real box `[l, u]` -/
def box (l u : Vec) : Set RVec := {z | InBox l u z}

/-- `w · d ≥ tᵢ` for every facet `w` (rows of `W` and thresholds `t` in one-to-one correspondence) -/
def FacetGe : Mat → RVec → Vec → Prop
  | w :: W, d, t :: ts => (t : ℝ) ≤ rdot (castV w) d ∧ FacetGe W d ts
  | [], _, [] => True
  | _, _, _ => False

/-- **The semantic predicate of C10**: some point of `R₂` dominates some point of `R₁` shifted by
`s`, with margin `tᵢ` on facet `i`:  `∃ z ∈ R₁, ∃ z' ∈ R₂, ∀ i, wᵢ · (z' − z − s) ≥ tᵢ`. -/
def Cov (R₁ R₂ : Set RVec) (W : Mat) (s t : Vec) : Prop :=
  ∃ z ∈ R₁, ∃ z' ∈ R₂, FacetGe W (rsub (rsub z' z) (castV s)) t

/-! ### small list facts -/

theorem InBox.length_eq : ∀ {l u : Vec} {z : RVec}, InBox l u z → z.length = l.length ∧ u.length = l.length
  | [], [], [], _ => by simp
  | [], [], _ :: _, h => by simp [InBox] at h
  | [], _ :: _, _, h => by simp [InBox] at h
  | _ :: _, [], _, h => by simp [InBox] at h
  | _ :: _, _ :: _, [], h => by simp [InBox] at h
  | _ :: ls, _ :: us, _ :: zs, h => by
    have := InBox.length_eq (l := ls) (u := us) (z := zs) h.2.2
    simp [this.1, this.2]

theorem FacetGe.length_eq : ∀ {W : Mat} {d : RVec} {t : Vec}, FacetGe W d t → W.length = t.length
  | [], _, [], _ => rfl
  | [], _, _ :: _, h => by simp [FacetGe] at h
  | _ :: _, _, [], h => by simp [FacetGe] at h
  | _ :: W, d, _ :: ts, h => by
    have := FacetGe.length_eq (W := W) (d := d) (t := ts) h.2
    simp [this]

theorem inBox_iff_getD : ∀ (l u : Vec) (z : RVec),
    InBox l u z ↔ z.length = l.length ∧ u.length = l.length ∧
      ∀ i, i < l.length → ((l.getD i 0 : ℚ) : ℝ) ≤ z.getD i 0 ∧ z.getD i 0 ≤ ((u.getD i 0 : ℚ) : ℝ)
  | [], [], [] => by simp [InBox]
  | [], [], _ :: _ => by simp [InBox]
  | [], _ :: _, _ => by simp [InBox]
  | _ :: _, [], _ => by simp [InBox]
  | _ :: _, _ :: _, [] => by simp [InBox]
  | l :: ls, u :: us, z :: zs => by
    simp only [InBox, inBox_iff_getD ls us zs, List.length_cons, Nat.forall_lt_succ_left,
      List.getD_cons_zero, List.getD_cons_succ, Nat.add_right_cancel_iff]
    tauto

theorem rdot_unitVec : ∀ (n k : ℕ) (c : ℚ) (x : RVec), x.length = n →
    rdot (castV (unitVec n k c)) x = (c : ℝ) * x.getD k 0
  | 0, k, c, x, h => by
    have : x = [] := List.length_eq_zero_iff.1 h
    simp [unitVec, this]
  | n + 1, _, c, [], h => by simp at h
  | n + 1, 0, c, x :: xs, h => by
    simp [unitVec, castV_zeros, rdot_rzeros_left]
  | n + 1, k + 1, c, x :: xs, h => by
    have := rdot_unitVec n k c xs (by simpa using h)
    simp [unitVec, this]

theorem axisRows_sat (n : ℕ) (c : ℚ) (x : RVec) (hx : x.length = n) : ∀ (bs : Vec) (k : ℕ),
    (∀ r ∈ axisRows n c k bs, (r.b : ℝ) ≤ rdot (castV r.a) x) ↔
      ∀ i, i < bs.length → ((bs.getD i 0 : ℚ) : ℝ) ≤ (c : ℝ) * x.getD (k + i) 0
  | [], k => by simp [axisRows]
  | b :: bs, k => by
    simp only [axisRows, List.forall_mem_cons, axisRows_sat n c x hx bs (k + 1), List.length_cons,
      Nat.forall_lt_succ_left, List.getD_cons_zero, List.getD_cons_succ, rdot_unitVec n k c x hx,
      Nat.add_zero]
    have : ∀ i, k + 1 + i = k + (i + 1) := fun i => by omega
    simp only [this]

theorem getD_vneg (u : Vec) (i : ℕ) : (vneg u).getD i 0 = -u.getD i 0 := by
  have := List.getD_map (l := u) (d := (0 : ℚ)) (n := i) (fun x : ℚ => -x)
  simpa [vneg] using this

theorem getD_vsub : ∀ (a b : Vec) (i : ℕ), i < a.length → i < b.length →
    (vsub a b).getD i 0 = a.getD i 0 - b.getD i 0
  | [], _, _, h, _ => by simp at h
  | _ :: _, [], _, _, h => by simp at h
  | a :: as, b :: bs, 0, _, _ => by simp [vsub]
  | a :: as, b :: bs, i + 1, h1, h2 => by
    have := getD_vsub as bs i (by simpa using h1) (by simpa using h2)
    simp only [vsub] at this
    simp only [vsub, List.zipWith_cons_cons, List.getD_cons_succ]
    exact this

theorem getD_rsub : ∀ (a b : RVec) (i : ℕ), i < a.length → i < b.length →
    (rsub a b).getD i 0 = a.getD i 0 - b.getD i 0
  | [], _, _, h, _ => by simp at h
  | _ :: _, [], _, _, h => by simp at h
  | a :: as, b :: bs, 0, _, _ => by simp [rsub]
  | a :: as, b :: bs, i + 1, h1, h2 => by
    have := getD_rsub as bs i (by simpa using h1) (by simpa using h2)
    simp only [rsub] at this
    simp only [rsub, List.zipWith_cons_cons, List.getD_cons_succ]
    exact this

theorem rdot_append : ∀ (a b x y : RVec), a.length = x.length →
    rdot (a ++ b) (x ++ y) = rdot a x + rdot b y
  | [], b, [], y, _ => by simp
  | [], _, _ :: _, _, h => by simp at h
  | _ :: _, _, [], _, h => by simp at h
  | a :: as, b, x :: xs, y, h => by
    have := rdot_append as b xs y (by simpa using h)
    simp [this]; ring

theorem rdot_castV_vneg : ∀ (w : Vec) (z : RVec), rdot (castV (vneg w)) z = -rdot (castV w) z
  | [], z => by simp [vneg]
  | _ :: _, [] => by simp [vneg]
  | w :: ws, z :: zs => by
    have := rdot_castV_vneg ws zs
    simp only [vneg] at this
    simp [vneg, this]; ring

theorem vneg_length (w : Vec) : (vneg w).length = w.length := by simp [vneg]

/-- cone rows of the `(z, z')` LP ⇔ `W (z' − z − s) ≥ t` -/
theorem coneRows2_sat (m : ℕ) (z z' : RVec) (s : Vec) (hz : z.length = m) (hz' : z'.length = m)
    (hs : s.length = m) : ∀ (W : Mat) (t : Vec), (∀ w ∈ W, w.length = m) → W.length = t.length →
    ((∀ r ∈ coneRows2 W s t, (r.b : ℝ) ≤ rdot (castV r.a) (z ++ z')) ↔
      FacetGe W (rsub (rsub z' z) (castV s)) t)
  | [], [], _, _ => by simp [coneRows2, FacetGe]
  | [], _ :: _, _, h => by simp at h
  | _ :: _, [], _, h => by simp at h
  | w :: W, t :: ts, hW, hl => by
    have ih := coneRows2_sat m z z' s hz hz' hs W ts
      (fun w hw => hW w (List.mem_cons_of_mem _ hw)) (by simpa using hl)
    have hw : w.length = m := hW w List.mem_cons_self
    simp only [coneRows2] at ih
    simp only [coneRows2, List.zipWith_cons_cons, List.forall_mem_cons, FacetGe, ih]
    have e1 : rdot (castV (vneg w ++ w)) (z ++ z') = -rdot (castV w) z + rdot (castV w) z' := by
      rw [castV_append, rdot_append _ _ _ _ (by simp [vneg_length, hw, hz]), rdot_castV_vneg]
    have e2 : rdot (castV w) (rsub (rsub z' z) (castV s)) =
        rdot (castV w) z' - rdot (castV w) z - rdot (castV w) (castV s) := by
      rw [rdot_rsub_right _ _ _ (by simp [hz, hz', hs]), rdot_rsub_right _ _ _ (by rw [hz, hz'])]
    rw [e1, e2]
    push_cast
    rw [cast_dot]
    constructor
    · rintro ⟨h1, h2⟩; exact ⟨by linarith, h2⟩
    · rintro ⟨h1, h2⟩; exact ⟨by linarith, h2⟩

theorem getD_castV (v : Vec) (i : ℕ) : (castV v).getD i 0 = ((v.getD i 0 : ℚ) : ℝ) := by
  have := List.getD_map (l := v) (d := (0 : ℚ)) (n := i) (fun q : ℚ => (q : ℝ))
  simpa [castV] using this

/-- **The LP of the code describes the semantic predicate.**  For real `z, z'` of the right length:
`z ++ z'` satisfies `rectSys` iff `z ∈ [l₁,u₁]`, `z' ∈ [l₂,u₂]` and `W (z' − z − s) ≥ t`. -/
theorem rectSys_sat (W : Mat) (l1 u1 l2 u2 s t : Vec) (z z' : RVec)
    (h1 : u1.length = l1.length) (h2 : l2.length = l1.length) (h3 : u2.length = l1.length)
    (hs : s.length = l1.length) (ht : W.length = t.length) (hW : ∀ w ∈ W, w.length = l1.length)
    (hz : z.length = l1.length) (hz' : z'.length = l1.length) :
    RSat (2 * l1.length) (rectSys W l1 u1 l2 u2 s t) (z ++ z') ↔
      InBox l1 u1 z ∧ InBox l2 u2 z' ∧ FacetGe W (rsub (rsub z' z) (castV s)) t := by
  set m := l1.length with hm
  have hx : (z ++ z').length = 2 * m := by simp [hz, hz']; omega
  have g1 : ∀ i, i < m → (z ++ z').getD (0 + i) 0 = z.getD i 0 := fun i hi => by
    rw [Nat.zero_add, List.getD_append _ _ _ _ (by omega)]
  have g2 : ∀ i, i < m → (z ++ z').getD (m + i) 0 = z'.getD i 0 := fun i hi => by
    rw [List.getD_append_right _ _ _ _ (by omega), hz, Nat.add_sub_cancel_left]
  simp only [RSat, rectSys, List.forall_mem_append, ← hm,
    axisRows_sat (2 * m) _ (z ++ z') hx, coneRows2_sat m z z' s hz hz' hs W t hW ht,
    inBox_iff_getD, getD_vneg, vneg_length, h1, h2, h3]
  constructor
  · rintro ⟨-, ⟨⟨⟨ha, hb⟩, hc⟩, hd⟩, he⟩
    refine ⟨⟨hz, trivial, fun i hi => ⟨?_, ?_⟩⟩, ⟨hz', trivial, fun i hi => ⟨?_, ?_⟩⟩, he⟩
    · have := ha i hi; rw [g1 i hi] at this; simpa using this
    · have := hb i hi; rw [g1 i hi] at this; push_cast at this; linarith
    · have := hc i hi; rw [g2 i hi] at this; simpa using this
    · have := hd i hi; rw [g2 i hi] at this; push_cast at this; linarith
  · rintro ⟨⟨-, -, ha⟩, ⟨-, -, hb⟩, he⟩
    refine ⟨hx, ⟨⟨⟨fun i hi => ?_, fun i hi => ?_⟩, fun i hi => ?_⟩, fun i hi => ?_⟩, he⟩
    · rw [g1 i hi]; simpa using (ha i hi).1
    · rw [g1 i hi]; push_cast; linarith [(ha i hi).2]
    · rw [g2 i hi]; simpa using (hb i hi).1
    · rw [g2 i hi]; push_cast; linarith [(hb i hi).2]

/-- every real vector with `2m` entries is `z ++ z'` with two `m`-vectors -/
theorem split_two (m : ℕ) (x : RVec) (hx : x.length = 2 * m) :
    ∃ z z' : RVec, x = z ++ z' ∧ z.length = m ∧ z'.length = m :=
  ⟨x.take m, x.drop m, (List.take_append_drop m x).symm, by simp [hx]; omega, by simp [hx]; omega⟩

/-- fast path, `yes` is sound -/
theorem rectVerdictFast_yes (W : Mat) (l1 u1 l2 u2 s t : Vec)
    (h1 : u1.length = l1.length) (h2 : l2.length = l1.length) (h3 : u2.length = l1.length)
    (hs : s.length = l1.length) (ht : W.length = t.length) (hW : ∀ w ∈ W, w.length = l1.length)
    (h : rectVerdictFast W l1 u1 l2 u2 s t = .yes) :
    Cov (box l1 u1) (box l2 u2) W s t := by
  unfold rectVerdictFast at h
  simp only at h
  split at h
  · split at h
    · rename_i hw
      have hsat := checkWitness_sound hw
      obtain ⟨z, z', hzz, hz, hz'⟩ := split_two l1.length _ hsat.1
      rw [hzz] at hsat
      have := (rectSys_sat W l1 u1 l2 u2 s t z z' h1 h2 h3 hs ht hW hz hz').1 hsat
      exact ⟨z, this.1, z', this.2.1, this.2.2⟩
    · cases h
  · split at h <;> cases h

/-- fast path, `no` is sound -/
theorem rectVerdictFast_no (W : Mat) (l1 u1 l2 u2 s t : Vec)
    (h1 : u1.length = l1.length) (h2 : l2.length = l1.length) (h3 : u2.length = l1.length)
    (hs : s.length = l1.length) (ht : W.length = t.length) (hW : ∀ w ∈ W, w.length = l1.length)
    (h : rectVerdictFast W l1 u1 l2 u2 s t = .no) :
    ¬ Cov (box l1 u1) (box l2 u2) W s t := by
  unfold rectVerdictFast at h
  simp only at h
  split at h
  · split at h <;> cases h
  · split at h
    · rename_i hf
      rintro ⟨z, hz, z', hz', hc⟩
      refine checkFarkas_sound hf ⟨z ++ z', ?_⟩
      exact (rectSys_sat W l1 u1 l2 u2 s t z z' h1 h2 h3 hs ht hW
        (InBox.length_eq hz).1 ((InBox.length_eq hz').1.trans h2)).2 ⟨hz, hz', hc⟩
    · cases h

/-- **The LP is feasible over `ℝ` iff the semantic predicate holds.** -/
theorem rectSys_feasible_iff (W : Mat) (l1 u1 l2 u2 s t : Vec)
    (h1 : u1.length = l1.length) (h2 : l2.length = l1.length) (h3 : u2.length = l1.length)
    (hs : s.length = l1.length) (ht : W.length = t.length) (hW : ∀ w ∈ W, w.length = l1.length) :
    (∃ x : RVec, RSat (2 * l1.length) (rectSys W l1 u1 l2 u2 s t) x) ↔
      Cov (box l1 u1) (box l2 u2) W s t := by
  constructor
  · rintro ⟨x, hx⟩
    obtain ⟨z, z', hzz, hz, hz'⟩ := split_two l1.length _ hx.1
    rw [hzz] at hx
    have := (rectSys_sat W l1 u1 l2 u2 s t z z' h1 h2 h3 hs ht hW hz hz').1 hx
    exact ⟨z, this.1, z', this.2.1, this.2.2⟩
  · rintro ⟨z, hz, z', hz', hc⟩
    exact ⟨z ++ z', (rectSys_sat W l1 u1 l2 u2 s t z z' h1 h2 h3 hs ht hW
      (InBox.length_eq hz).1 ((InBox.length_eq hz').1.trans h2)).2 ⟨hz, hz', hc⟩⟩

theorem unitVec_length : ∀ (n k : ℕ) (c : ℚ), (unitVec n k c).length = n
  | 0, _, _ => rfl
  | n + 1, 0, c => by simp [unitVec]
  | n + 1, k + 1, c => by simp [unitVec, unitVec_length n k c]

theorem axisRows_wf (n : ℕ) (c : ℚ) : ∀ (bs : Vec) (k : ℕ), ∀ r ∈ axisRows n c k bs, r.a.length = n
  | [], _ => by simp [axisRows]
  | b :: bs, k => by
    intro r hr
    simp only [axisRows, List.mem_cons] at hr
    rcases hr with rfl | hr
    · exact unitVec_length n k c
    · exact axisRows_wf n c bs (k + 1) r hr

/-- the LP of the code is well formed as soon as the cone rows have `m` entries -/
theorem rectSys_wf (W : Mat) (l1 u1 l2 u2 s t : Vec) (hW : ∀ w ∈ W, w.length = l1.length) :
    wf (2 * l1.length) (rectSys W l1 u1 l2 u2 s t) = true := by
  rw [wf_iff]
  intro r hr
  simp only [rectSys, List.mem_append] at hr
  rcases hr with (((hr | hr) | hr) | hr) | hr
  · exact axisRows_wf _ _ _ _ r hr
  · exact axisRows_wf _ _ _ _ r hr
  · exact axisRows_wf _ _ _ _ r hr
  · exact axisRows_wf _ _ _ _ r hr
  · simp only [coneRows2] at hr
    obtain ⟨i, hi, rfl⟩ := List.mem_iff_getElem.1 hr
    simp only [List.getElem_zipWith, List.length_append, vneg_length]
    rw [hW _ (List.getElem_mem _)]; omega

/-- the verdict is the fast verdict when that is conclusive, the complete decision otherwise -/
theorem rectVerdict_cases (W : Mat) (l1 u1 l2 u2 s t : Vec) (v : Verdict)
    (h : rectVerdict W l1 u1 l2 u2 s t = v) (hv : v ≠ .inconclusive) :
    rectVerdictFast W l1 u1 l2 u2 s t = v ∨
    (v = .yes ∧ feasibleFM (2 * l1.length) (rectSys W l1 u1 l2 u2 s t) = some true) ∨
    (v = .no ∧ feasibleFM (2 * l1.length) (rectSys W l1 u1 l2 u2 s t) = some false) := by
  unfold rectVerdict at h
  split at h
  · split at h
    · rename_i hf; exact Or.inr (Or.inl ⟨h.symm, hf⟩)
    · rename_i hf; exact Or.inr (Or.inr ⟨h.symm, hf⟩)
    · exact absurd h.symm hv
  · exact Or.inl h

/-- **Rectangle verdict `yes` is sound.** -/
theorem rectVerdict_yes (W : Mat) (l1 u1 l2 u2 s t : Vec)
    (h1 : u1.length = l1.length) (h2 : l2.length = l1.length) (h3 : u2.length = l1.length)
    (hs : s.length = l1.length) (ht : W.length = t.length) (hW : ∀ w ∈ W, w.length = l1.length)
    (h : rectVerdict W l1 u1 l2 u2 s t = .yes) :
    Cov (box l1 u1) (box l2 u2) W s t := by
  rcases rectVerdict_cases W l1 u1 l2 u2 s t _ h (by simp) with hf | ⟨-, hf⟩ | ⟨hv, -⟩
  · exact rectVerdictFast_yes W l1 u1 l2 u2 s t h1 h2 h3 hs ht hW hf
  · obtain ⟨x, hx⟩ := (feasibleFM_sound _ _).1 hf
    exact (rectSys_feasible_iff W l1 u1 l2 u2 s t h1 h2 h3 hs ht hW).1
      ⟨castV x, checkWitness_sound hx⟩
  · cases hv

/-- **Rectangle verdict `no` is sound.** -/
theorem rectVerdict_no (W : Mat) (l1 u1 l2 u2 s t : Vec)
    (h1 : u1.length = l1.length) (h2 : l2.length = l1.length) (h3 : u2.length = l1.length)
    (hs : s.length = l1.length) (ht : W.length = t.length) (hW : ∀ w ∈ W, w.length = l1.length)
    (h : rectVerdict W l1 u1 l2 u2 s t = .no) :
    ¬ Cov (box l1 u1) (box l2 u2) W s t := by
  rcases rectVerdict_cases W l1 u1 l2 u2 s t _ h (by simp) with hf | ⟨hv, -⟩ | ⟨-, hf⟩
  · exact rectVerdictFast_no W l1 u1 l2 u2 s t h1 h2 h3 hs ht hW hf
  · cases hv
  · obtain ⟨y, hy⟩ := (feasibleFM_sound _ _).2 hf
    exact fun hc => checkFarkas_sound hy
      ((rectSys_feasible_iff W l1 u1 l2 u2 s t h1 h2 h3 hs ht hW).2 hc)

/-- **The rectangle verdict is total**: with cone rows of the right length it is never
`inconclusive` (completeness of Fourier–Motzkin elimination). -/
theorem rectVerdict_total (W : Mat) (l1 u1 l2 u2 s t : Vec) (hW : ∀ w ∈ W, w.length = l1.length) :
    rectVerdict W l1 u1 l2 u2 s t ≠ .inconclusive := by
  unfold rectVerdict
  split
  · rcases feasibleFM_complete _ _ (rectSys_wf W l1 u1 l2 u2 s t hW) with h | h <;> rw [h] <;> simp
  · rename_i hne; intro h; exact hne h

/-- **The rectangle verdict decides** `Cov`: `yes ↔ Cov`. -/
theorem rectVerdict_yes_iff (W : Mat) (l1 u1 l2 u2 s t : Vec)
    (h1 : u1.length = l1.length) (h2 : l2.length = l1.length) (h3 : u2.length = l1.length)
    (hs : s.length = l1.length) (ht : W.length = t.length) (hW : ∀ w ∈ W, w.length = l1.length) :
    rectVerdict W l1 u1 l2 u2 s t = .yes ↔ Cov (box l1 u1) (box l2 u2) W s t := by
  constructor
  · exact rectVerdict_yes W l1 u1 l2 u2 s t h1 h2 h3 hs ht hW
  · intro hc
    cases hv : rectVerdict W l1 u1 l2 u2 s t with
    | yes => rfl
    | no => exact absurd hc (rectVerdict_no W l1 u1 l2 u2 s t h1 h2 h3 hs ht hW hv)
    | inconclusive => exact absurd hv (rectVerdict_total W l1 u1 l2 u2 s t hW)

/-- **The rectangle verdict decides** `Cov`: `no ↔ ¬Cov`. -/
theorem rectVerdict_no_iff (W : Mat) (l1 u1 l2 u2 s t : Vec)
    (h1 : u1.length = l1.length) (h2 : l2.length = l1.length) (h3 : u2.length = l1.length)
    (hs : s.length = l1.length) (ht : W.length = t.length) (hW : ∀ w ∈ W, w.length = l1.length) :
    rectVerdict W l1 u1 l2 u2 s t = .no ↔ ¬ Cov (box l1 u1) (box l2 u2) W s t := by
  constructor
  · exact rectVerdict_no W l1 u1 l2 u2 s t h1 h2 h3 hs ht hW
  · intro hc
    cases hv : rectVerdict W l1 u1 l2 u2 s t with
    | yes => exact absurd (rectVerdict_yes W l1 u1 l2 u2 s t h1 h2 h3 hs ht hW hv) hc
    | no => rfl
    | inconclusive => exact absurd hv (rectVerdict_total W l1 u1 l2 u2 s t hW)

end VOPy.Covered
