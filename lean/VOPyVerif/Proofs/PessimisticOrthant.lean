import VOPyVerif.Proofs.PessimisticRef
/-!
# Helper lemmas for C11, part 5: the orthant cone (`W = I`) in every dimension

`matVec (identMat m) v = v`, and completeness of the vertex test: for the componentwise order the
set `R₂ + C` is `{z | z ≥ lower₂}`, and `lower₂` is the first vertex of `R₂`.
-/
namespace VOPy.Pess
set_option linter.unusedSimpArgs false
set_option linter.unusedSectionVars false

section Generic
variable {K : Type} [Field K] [LinearOrder K] [IsStrictOrderedRing K]

/-- dot product with a (shifted) unit vector picks a coordinate -/
theorem gdot_unit_shift : ∀ (n k i : Nat) (v : List K), v.length = n →
    gdot ((List.range n).map (fun j => if i = j + k then (1 : K) else 0)) v
      = if k ≤ i ∧ i < k + n then v.getD (i - k) 0 else 0
  | 0, k, i, v, h => by
    have : ¬ (k ≤ i ∧ i < k + 0) := by omega
    simp [gdot, this]
  | n + 1, k, i, [], h => by simp at h
  | n + 1, k, i, a :: v, h => by
    have ih := gdot_unit_shift n (k + 1) i v (by simpa using h)
    rw [List.range_succ_eq_map]
    simp only [List.map_cons, List.map_map, gdot, Function.comp_def, Nat.zero_add]
    have e : (fun j => if i = j + 1 + k then (1 : K) else 0) =
        (fun j => if i = j + (k + 1) then (1 : K) else 0) := by
      funext j; congr 1; apply propext; omega
    rw [e, ih]
    by_cases hik : i = k
    · subst hik
      have : ¬ (i + 1 ≤ i ∧ i < i + 1 + n) := by omega
      simp [this]
    · by_cases hr : k + 1 ≤ i ∧ i < k + 1 + n
      · have h2 : k ≤ i ∧ i < k + (n + 1) := by omega
        have h3 : i - k = (i - (k + 1)) + 1 := by omega
        simp [hik, hr, h2, h3]
      · have h2 : ¬ (k ≤ i ∧ i < k + (n + 1)) := by omega
        simp [hik, hr, h2]

theorem gdot_unit (m i : Nat) (hi : i < m) (v : List K) (h : v.length = m) :
    gdot ((List.range m).map (fun j => if i = j then (1 : K) else 0)) v = v.getD i 0 := by
  have := gdot_unit_shift m 0 i v h
  simpa [hi] using this

theorem forall₂_getD : ∀ {a b : List K}, List.Forall₂ (· ≤ ·) a b → ∀ i < a.length,
    a.getD i 0 ≤ b.getD i 0
  | [], [], _, i, hi => by simp at hi
  | x :: a, y :: b, h, i, hi => by
    cases h with
    | cons hxy hrest =>
      cases i with
      | zero => simpa using hxy
      | succ i => simpa using forall₂_getD hrest i (by simpa using hi)

theorem gsub_getD (a b : List K) (i : Nat) (ha : i < a.length) (hb : i < b.length) :
    (gsub a b).getD i 0 = a.getD i 0 - b.getD i 0 := by
  simp only [gsub, List.getD_eq_getElem?_getD]
  rw [List.getElem?_eq_getElem (by simp [ha, hb]), List.getElem?_eq_getElem ha,
    List.getElem?_eq_getElem hb]
  simp

end Generic

theorem matVec_identMat (m : Nat) (v : Vec) (h : v.length = m) : matVec (identMat m) v = v := by
  apply List.ext_getElem
  · simp [matVec, identMat, h]
  · intro i h1 h2
    simp only [matVec, identMat, List.getElem_map, List.getElem_range, List.map_map,
      Function.comp_apply]
    have hi : i < m := by rw [← h]; exact h2
    rw [← gdot_eq_dot, gdot_unit m i hi v h]
    simp [List.getD_eq_getElem?_getD, List.getElem?_eq_getElem h2]

theorem lower_mem_vertices : ∀ (l u : Vec), l.length = u.length → l ∈ vertices l u
  | [], [], _ => by simp [vertices]
  | a :: l, b :: u, h => by
    have ih := lower_mem_vertices l u (by simpa using h)
    simp only [vertices, List.mem_append, List.mem_map]
    exact Or.inl ⟨l, ih, rfl⟩
  | [], _ :: _, h => by simp at h
  | _ :: _, [], h => by simp at h

section Cast
variable {L : Type} [Field L] [LinearOrder L] [IsStrictOrderedRing L]

theorem castV_getD (v : Vec) (i : Nat) : (castV v : List L).getD i 0 = ((v.getD i 0 : Rat) : L) := by
  simp only [castV, List.getD_eq_getElem?_getD, List.getElem?_map]
  cases v[i]? <;> simp

theorem castV_unit (m i : Nat) :
    (castV ((List.range m).map (fun j => if i = j then (1 : Rat) else 0)) : List L)
      = (List.range m).map (fun j => if i = j then (1 : L) else 0) := by
  simp only [castV, List.map_map]
  congr 1
  funext j
  by_cases h : i = j <;> simp [h]

/-- **Orthant, vertices of `R₁`.**  If every vertex `x` of `R₁` has a witness `y ∈ R₂` (coordinates in
`L ⊇ ℚ`) with `x − y ≥ 0` componentwise, the model answers `true` — by the vertex test at `lower₂`. -/
theorem checkDominates_complete_orthant_vertices (m : Nat) (l1 u1 l2 u2 : Vec)
    (hl1 : l1.length = m) (hu1 : u1.length = m) (hl2 : l2.length = m) (hu2 : u2.length = m)
    (hsem : ∀ x ∈ vertices l1 u1, ∃ y : List L, GInBox (castV l2) (castV u2) y ∧
      ∀ w ∈ identMat m, 0 ≤ gdot (castV w) (gsub (castV x : List L) y)) :
    checkDominates (identMat m) l1 u1 l2 u2 = true := by
  simp only [checkDominates, checkDominatesR, List.all_map, List.all_eq_true, Function.comp]
  intro x hx
  have hxl : x.length = m := (vertices_length l1 u1 (hl1.trans hu1.symm) x hx).trans hl1
  obtain ⟨y, hy, hd⟩ := hsem x hx
  have hyl : y.length = m := by rw [(GInBox.length_eq hy).1]; simp [hl2]
  refine isPtIn_of_vertex (v := matVec (identMat m) l2)
    (List.mem_map.mpr ⟨l2, lower_mem_vertices l2 u2 (hl2.trans hu2.symm), rfl⟩) ?_
  rw [matVec_identMat m l2 hl2, matVec_identMat m x hxl, vle_iff_getD l2 x (hl2.trans hxl.symm)]
  intro i hi
  have hi' : i < m := hl2 ▸ hi
  have hmem : (List.range m).map (fun j => if i = j then (1 : Rat) else 0) ∈ identMat m := by
    simp only [identMat, List.mem_map, List.mem_range]
    exact ⟨i, hi', rfl⟩
  have h1 := hd _ hmem
  rw [castV_unit, gdot_unit m i hi' _ (by simp [gsub, hxl, hyl]),
    gsub_getD _ _ _ (by simp [hxl, hi']) (by simp [hyl, hi']), castV_getD] at h1
  have h2 := forall₂_getD (GInBox.forall₂ hy).1 i (by simp [hl2, hi'])
  rw [castV_getD] at h2
  have : ((l2.getD i 0 : Rat) : L) ≤ ((x.getD i 0 : Rat) : L) := by linarith
  exact Rat.cast_le.mp this

end Cast

end VOPy.Pess
