import Mathlib.Probability.Distributions.Gaussian.Real
import Mathlib.MeasureTheory.Integral.Pi
/-!
# C08 helper: Gaussian tail of sample means under a product Gaussian measure

Self-contained (own names, own namespace; nothing shared with the C04 tail files).
`ι` indexes the i.i.d. noise coordinates, the measure is `Measure.pi (fun _ : ι => gaussianReal 0 v)`.

* `chernoff_sum`: `P(a < ±Σ_{j∈J} ξ_j) ≤ exp(−a²/(2|J|v))` (moment-generating function + Markov +
  Fubini for product functions);
* `mean_dev_tail`: `P(r² < (Σ_{j∈J} ξ_j / |J|)²) ≤ 2 exp(−r²|J|/(2v))`.
-/
open MeasureTheory ProbabilityTheory Real
open scoped NNReal ENNReal

namespace VOPy.Naive

variable {ι : Type} [Fintype ι] [DecidableEq ι]

/-- the i.i.d. centred Gaussian noise measure with variance `v` on `ι → ℝ` -/
noncomputable abbrev noiseMeasure (ι : Type) [Fintype ι] (v : ℝ≥0) : Measure (ι → ℝ) :=
  Measure.pi (fun _ : ι => gaussianReal 0 v)

theorem integral_exp_mul_gaussian (v : ℝ≥0) (t : ℝ) :
    ∫ x, rexp (t * x) ∂(gaussianReal 0 v) = rexp (v * t ^ 2 / 2) := by
  have h := congrFun (mgf_id_gaussianReal (μ := 0) (v := v)) t
  simp only [mgf, id_eq, zero_mul, zero_add] at h
  exact h

/-- **Chernoff bound** for a signed partial sum of the noise coordinates. -/
theorem chernoff_sum (v : ℝ≥0) (hv : v ≠ 0) (J : Finset ι) (hJ : J.Nonempty) (sgn : ℝ)
    (hs : sgn ^ 2 = 1) (a : ℝ) (ha : 0 ≤ a) :
    (noiseMeasure ι v).real {ξ | a < sgn * ∑ j ∈ J, ξ j} ≤ rexp (-a ^ 2 / (2 * J.card * v)) := by
  have hv0 : (0 : ℝ) < v := by
    have : (0 : ℝ≥0) < v := pos_iff_ne_zero.mpr hv
    exact_mod_cast this
  have hc0 : (0 : ℝ) < J.card := by exact_mod_cast J.card_pos.mpr hJ
  set lam : ℝ := a / (J.card * v) with hlam
  have hlam0 : 0 ≤ lam := by positivity
  set f : ι → ℝ → ℝ := fun i x => if i ∈ J then rexp (lam * sgn * x) else 1 with hf
  set g : (ι → ℝ) → ℝ := fun ξ => ∏ i, f i (ξ i) with hg
  have hg_eq : ∀ ξ, g ξ = rexp (lam * (sgn * ∑ j ∈ J, ξ j)) := by
    intro ξ
    simp only [hg, hf]
    rw [Finset.prod_ite_mem Finset.univ J, Finset.univ_inter, ← Real.exp_sum]
    congr 1
    rw [Finset.mul_sum, Finset.mul_sum]
    apply Finset.sum_congr rfl
    intro i _; ring
  have hint : Integrable g (noiseMeasure ι v) := by
    apply Integrable.fintype_prod
    intro i
    by_cases hi : i ∈ J
    · simp only [hf, hi, if_true]; exact integrable_exp_mul_gaussianReal _
    · simp only [hf, hi, if_false]; exact integrable_const _
  have hval : ∫ ξ, g ξ ∂(noiseMeasure ι v) = rexp (v * lam ^ 2 / 2) ^ J.card := by
    simp only [hg]
    rw [integral_fintype_prod_eq_prod]
    have : ∀ i, ∫ x, f i x ∂(gaussianReal 0 v) = if i ∈ J then rexp (v * lam ^ 2 / 2) else 1 := by
      intro i
      by_cases hi : i ∈ J
      · simp only [hf, hi, if_true]
        rw [integral_exp_mul_gaussian]
        congr 1
        have : (lam * sgn) ^ 2 = lam ^ 2 := by rw [mul_pow, hs, mul_one]
        rw [this]
      · simp [hf, hi]
    simp_rw [this]
    rw [Finset.prod_ite_mem Finset.univ J, Finset.univ_inter, Finset.prod_const]
  have hsub : {ξ : ι → ℝ | a < sgn * ∑ j ∈ J, ξ j} ⊆ {ξ | rexp (lam * a) ≤ g ξ} := by
    intro ξ hξ
    simp only [Set.mem_ofPred_eq] at hξ ⊢
    rw [hg_eq]
    exact Real.exp_le_exp.mpr (mul_le_mul_of_nonneg_left hξ.le hlam0)
  have hmarkov := mul_meas_ge_le_integral_of_nonneg (μ := noiseMeasure ι v) (f := g)
    (ae_of_all _ (fun ξ => by rw [hg_eq]; positivity)) hint (rexp (lam * a))
  have hpos : 0 < rexp (lam * a) := Real.exp_pos _
  calc (noiseMeasure ι v).real {ξ | a < sgn * ∑ j ∈ J, ξ j}
      ≤ (noiseMeasure ι v).real {ξ | rexp (lam * a) ≤ g ξ} := measureReal_mono hsub
    _ ≤ (∫ ξ, g ξ ∂(noiseMeasure ι v)) / rexp (lam * a) := by
        rw [le_div_iff₀ hpos, mul_comm]; exact hmarkov
    _ = rexp (-a ^ 2 / (2 * J.card * v)) := by
        rw [hval, ← Real.exp_nat_mul, ← Real.exp_sub]
        congr 1
        rw [hlam]
        field_simp
        ring

/-- two-sided bound on the deviation of the mean of the coordinates in `J` -/
theorem mean_dev_tail (v : ℝ≥0) (hv : v ≠ 0) (J : Finset ι) (hJ : J.Nonempty) (r : ℝ) (hr : 0 ≤ r) :
    (noiseMeasure ι v).real {ξ | r ^ 2 < ((∑ j ∈ J, ξ j) / J.card) ^ 2}
      ≤ 2 * rexp (-(r ^ 2 * J.card) / (2 * v)) := by
  have hc0 : (0 : ℝ) < J.card := by exact_mod_cast J.card_pos.mpr hJ
  have hv0 : (0 : ℝ) < v := by
    have : (0 : ℝ≥0) < v := pos_iff_ne_zero.mpr hv
    exact_mod_cast this
  have hsub : {ξ : ι → ℝ | r ^ 2 < ((∑ j ∈ J, ξ j) / J.card) ^ 2}
      ⊆ {ξ | r * J.card < 1 * ∑ j ∈ J, ξ j} ∪ {ξ | r * J.card < -1 * ∑ j ∈ J, ξ j} := by
    intro ξ hξ
    simp only [Set.mem_ofPred_eq, Set.mem_union, one_mul, neg_mul] at hξ ⊢
    set S := ∑ j ∈ J, ξ j
    have h1 : r < |S / J.card| := by
      have := sq_lt_sq.mp hξ
      rwa [abs_of_nonneg hr] at this
    rw [abs_div, abs_of_pos hc0, lt_div_iff₀ hc0] at h1
    rcases le_total 0 S with h | h
    · left; rwa [abs_of_nonneg h] at h1
    · right; rwa [abs_of_nonpos h] at h1
  have hra : 0 ≤ r * J.card := by positivity
  have b1 := chernoff_sum v hv J hJ 1 (by norm_num) (r * J.card) hra
  have b2 := chernoff_sum v hv J hJ (-1) (by norm_num) (r * J.card) hra
  have he : rexp (-(r * J.card) ^ 2 / (2 * J.card * v)) = rexp (-(r ^ 2 * J.card) / (2 * v)) := by
    congr 1; field_simp
  calc (noiseMeasure ι v).real {ξ | r ^ 2 < ((∑ j ∈ J, ξ j) / J.card) ^ 2}
      ≤ (noiseMeasure ι v).real ({ξ | r * J.card < 1 * ∑ j ∈ J, ξ j}
          ∪ {ξ | r * J.card < -1 * ∑ j ∈ J, ξ j}) := measureReal_mono hsub
    _ ≤ _ + _ := measureReal_union_le _ _
    _ ≤ rexp (-(r * J.card) ^ 2 / (2 * J.card * v)) + rexp (-(r * J.card) ^ 2 / (2 * J.card * v)) :=
        add_le_add b1 b2
    _ = 2 * rexp (-(r ^ 2 * J.card) / (2 * v)) := by rw [he]; ring

end VOPy.Naive
