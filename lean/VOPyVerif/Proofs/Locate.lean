import VOPyVerif.Model.Locate
import VOPyVerif.Proofs.Problem
/-! Helper lemmas for `Model/Locate.lean` (`DiscreteDesignSpace.locate_points`). -/
namespace VOPy.Locate
open VOPy VOPy.Problem

/-- `i` is the first nearest design of `x` among the rows of `X` -/
def IsNearestFirst (x : Vec) (X : Mat) (i : Nat) : Prop :=
  ∃ hi : i < X.length,
    (∀ (j : Nat) (hj : j < X.length), sqDist x X[i] ≤ sqDist x X[j]) ∧
    (∀ (j : Nat) (hj : j < i), sqDist x X[i] < sqDist x (X[j]'(Nat.lt_trans hj hi)))

theorem nearestFirst_iff (x : Vec) (X : Mat) (i : Nat) :
    nearestFirst x X = some i ↔ IsNearestFirst x X i := by
  unfold nearestFirst IsNearestFirst
  rw [argminFirst_eq_some_iff, isFirstMin_dists_iff]

theorem nearestFirst_total (x : Vec) (X : Mat) (hX : X ≠ []) :
    ∃ i, nearestFirst x X = some i ∧ IsNearestFirst x X i := by
  have hd : dists x X ≠ [] := by simpa [dists] using hX
  obtain ⟨i, hi, hs⟩ := argminFirst_spec (dists x X) hd
  exact ⟨i, hi, (isFirstMin_dists_iff x X i).mp hs⟩

/-- `locOne` answers exactly (first nearest design, its squared distance) -/
theorem locOne_eq_some_iff (x : Vec) (X : Mat) (i : Nat) (d : Rat) :
    locOne x X = some (i, d) ↔ IsNearestFirst x X i ∧ ∃ hi : i < X.length, d = sqDist x X[i] := by
  unfold locOne
  constructor
  · intro h
    cases hn : nearestFirst x X with
    | none => simp [hn] at h
    | some k =>
      have hk := (nearestFirst_iff x X k).mp hn
      have hkl := hk.1
      simp only [hn, dists, List.getElem?_map, List.getElem?_eq_getElem hkl, Option.map_some,
        Option.some.injEq, Prod.mk.injEq] at h
      obtain ⟨rfl, rfl⟩ := h
      exact ⟨hk, hkl, rfl⟩
  · rintro ⟨hn, hi, rfl⟩
    rw [(nearestFirst_iff x X i).mpr hn]
    simp [dists, List.getElem?_map, List.getElem?_eq_getElem hi]

theorem locOne_total (x : Vec) (X : Mat) (hX : X ≠ []) :
    ∃ i, ∃ hi : i < X.length, locOne x X = some (i, sqDist x X[i]) ∧ IsNearestFirst x X i := by
  obtain ⟨i, _, hs⟩ := nearestFirst_total x X hX
  exact ⟨i, hs.1, (locOne_eq_some_iff x X i _).mpr ⟨hs, hs.1, rfl⟩, hs⟩

theorem locOne_isSome (x : Vec) (X : Mat) (hX : X ≠ []) : (locOne x X).isSome := by
  obtain ⟨i, hi, h, _⟩ := locOne_total x X hX
  rw [h]; rfl

/-- the `mapM` of `locate` always succeeds when there is a design -/
theorem mapM_locOne (xs X : Mat) (hX : X ≠ []) :
    ∃ ps, xs.mapM (fun x => locOne x X) = some ps :=
  mapM_option_isSome _ xs (fun x _ => locOne_isSome x X hX)

theorem tooFar_iff (atol d : Rat) : tooFar atol d = true ↔ atol < 0 ∨ atol * atol < d := by
  simp [tooFar]

/-- for a non-negative squared distance and tolerance, "not too far" is `d ≤ atol²` -/
theorem not_tooFar_iff (atol d : Rat) : tooFar atol d = false ↔ 0 ≤ atol ∧ d ≤ atol * atol := by
  rw [← Bool.not_eq_true, tooFar_iff]
  constructor
  · intro h
    constructor
    · exact Rat.not_lt.mp (fun h' => h (Or.inl h'))
    · exact Rat.not_lt.mp (fun h' => h (Or.inr h'))
  · rintro ⟨h1, h2⟩ (h | h)
    · exact absurd h (Rat.not_lt.mpr h1)
    · exact absurd h (Rat.not_lt.mpr h2)

theorem getD_of_lt {α : Type} (l : List α) (i : Nat) (dflt : α) (h : i < l.length) :
    l.getD i dflt = l[i] := by
  simp [List.getD, List.getElem?_eq_getElem h]

end VOPy.Locate
