import VOPyVerif.Proofs.Pareto
import VOPyVerif.Proofs.ConeOrder
/-!
# Helper lemmas for C13: invariance of the Pareto routines

`fast_map_congr` / `naive_map_congr`: if a map `f` on the elements carries the relation(s) used on the
*members of the input list* to the relation(s) used on their images, the two routines return the
**same index list** on `xs` and on `xs.map f`.  Translation, positive scaling and a change of the
cone matrix that does not change the order (`f = id`) are instances.

`dominates_rowScale`, `dominates_of_same_rows`: the order of a cone matrix does not change when its
rows are multiplied by positive factors or permuted (or repeated).
-/
namespace VOPy.Pareto

variable {α β : Type}

/-- apply `f` to the element of every (index, element) pair -/
def mapSnd (f : α → β) (l : List (Nat × α)) : List (Nat × β) := l.map (fun e => (e.1, f e.2))

theorem mapSnd_append (f : α → β) (a b : List (Nat × α)) :
    mapSnd f (a ++ b) = mapSnd f a ++ mapSnd f b := by simp [mapSnd]

theorem mapSnd_map_fst (f : α → β) (l : List (Nat × α)) : (mapSnd f l).map (·.1) = l.map (·.1) := by
  simp [mapSnd, Function.comp_def]

theorem indexed_map (f : α → β) (xs : List α) : indexed (xs.map f) = mapSnd f (indexed xs) := by
  simp [indexed, mapSnd, List.zipIdx_map, Function.comp_def]

theorem rm_mapSnd (dom : α → α → Bool) (dom' : β → β → Bool) (f : α → β) (v : Nat × α)
    (l : List (Nat × α)) (h : ∀ e ∈ l, dom' (f v.2) (f e.2) = dom v.2 e.2) :
    rm dom' (v.1, f v.2) (mapSnd f l) = mapSnd f (rm dom v l) := by
  simp only [rm, mapSnd, List.filter_map]
  congr 1
  apply List.filter_congr
  intro e he
  simp only [Function.comp_def]
  rw [h e he]

theorem loop_mapSnd (dom : α → α → Bool) (dom' : β → β → Bool) (f : α → β) :
    ∀ (n : Nat) (pre post : List (Nat × α)), post.length = n →
      (∀ e ∈ pre ++ post, ∀ e' ∈ pre ++ post, dom' (f e.2) (f e'.2) = dom e.2 e'.2) →
      loop dom' (mapSnd f pre) (mapSnd f post) = mapSnd f (loop dom pre post) := by
  intro n
  induction n using Nat.strong_induction_on with
  | _ n ih =>
    intro pre post hn h
    cases post with
    | nil => simp [mapSnd, loop]
    | cons v post =>
      have hv : v ∈ pre ++ v :: post := by simp
      have e1 : mapSnd f (v :: post) = (v.1, f v.2) :: mapSnd f post := by simp [mapSnd]
      rw [e1, loop, loop]
      rw [rm_mapSnd dom dom' f v pre (fun e he => h v hv e (by simp [he])),
        rm_mapSnd dom dom' f v post (fun e he => h v hv e (by simp [he]))]
      have e2 : mapSnd f (rm dom v pre) ++ [(v.1, f v.2)] = mapSnd f (rm dom v pre ++ [v]) := by
        simp [mapSnd]
      rw [e2]
      have hlen : (rm dom v post).length < n := by
        rw [← hn]
        exact Nat.lt_succ_of_le (rm_length_le _ _ _)
      apply ih _ hlen _ _ rfl
      intro e he e' he'
      have sub : ∀ x ∈ (rm dom v pre ++ [v]) ++ rm dom v post, x ∈ pre ++ v :: post := by
        intro x hx
        simp only [rm, List.mem_append, List.mem_filter, List.mem_cons, List.not_mem_nil,
          or_false] at hx ⊢
        rcases hx with (hx | hx) | hx
        · exact Or.inl hx.1
        · exact Or.inr (Or.inl hx)
        · exact Or.inr (Or.inr hx.1)
      exact h e (sub e he) e' (sub e' he')

/-- **The fast routine commutes with relation-preserving maps**: same index list. -/
theorem fast_map_congr (dom : α → α → Bool) (dom' : β → β → Bool) (f : α → β) (xs : List α)
    (h : ∀ a ∈ xs, ∀ b ∈ xs, dom' (f a) (f b) = dom a b) :
    fast dom' (xs.map f) = fast dom xs := by
  unfold fast
  rw [indexed_map]
  have := loop_mapSnd dom dom' f (indexed xs).length [] (indexed xs) rfl
    (fun e he e' he' => h _ (snd_mem_of_mem_indexed (by simpa using he)) _
      (snd_mem_of_mem_indexed (by simpa using he')))
  have e0 : mapSnd f ([] : List (Nat × α)) = [] := rfl
  rw [e0] at this
  rw [this, mapSnd_map_fst]

/-- **The naive routine commutes with maps preserving `eqv` and `dom`**: same index list. -/
theorem naive_map_congr (eqv dom : α → α → Bool) (eqv' dom' : β → β → Bool) (f : α → β)
    (xs : List α)
    (hd : ∀ a ∈ xs, ∀ b ∈ xs, dom' (f a) (f b) = dom a b)
    (he : ∀ a ∈ xs, ∀ b ∈ xs, eqv' (f a) (f b) = eqv a b) :
    naive eqv' dom' (xs.map f) = naive eqv dom xs := by
  unfold naive
  rw [indexed_map]
  simp only [mapSnd, List.filter_map, List.map_map]
  have : (fun e : Nat × β => e.1) ∘ (fun e : Nat × α => (e.1, f e.2)) = fun e => e.1 := by
    funext e; rfl
  rw [this]
  congr 1
  apply List.filter_congr
  intro e hmem
  have hex : e.2 ∈ xs := snd_mem_of_mem_indexed hmem
  simp only [Function.comp_def, List.any_map]
  congr 1
  rw [List.any_eq, List.any_eq]
  apply decide_eq_decide.mpr
  constructor
  · rintro ⟨o, ho, h⟩
    refine ⟨o, ho, ?_⟩
    rwa [he e.2 hex o ho, hd o ho e.2 hex] at h
  · rintro ⟨o, ho, h⟩
    refine ⟨o, ho, ?_⟩
    rwa [he e.2 hex o ho, hd o ho e.2 hex]

end VOPy.Pareto

namespace VOPy
open VOPy.ConeOrd

/-- `dominates` is invariant under a common translation (as `C12.dominates_translate`) -/
theorem dominates_translate_eq (W : Mat) (a b t : Vec) (ha : a.length = t.length)
    (hb : b.length = t.length) : dominates W (vadd a t) (vadd b t) = dominates W a b := by
  rw [Bool.eq_iff_iff, ConeOrd.dominates_iff, ConeOrd.dominates_iff]
  exact Dom.translate W a b t ha hb

/-- `dominates` is invariant under positive scaling (as `C12.dominates_scale`) -/
theorem dominates_scale_eq (W : Mat) (c : Rat) (hc : 0 < c) (a b : Vec) :
    dominates W (smul c a) (smul c b) = dominates W a b := by
  rw [Bool.eq_iff_iff, ConeOrd.dominates_iff, ConeOrd.dominates_iff]
  exact Dom.scale W c hc a b

theorem dot_smul_left (c : Rat) : ∀ (w x : Vec), dot (smul c w) x = c * dot w x
  | [], _ => by simp [smul, dot]
  | _ :: _, [] => by simp [smul, dot]
  | a :: w, b :: x => by
    have ih := dot_smul_left c w x
    simp only [smul, List.map_cons, dot] at ih ⊢
    rw [ih]; ring

/-- multiply row `k` of `W` by `cs[k]` -/
def rowScale (cs : Vec) (W : Mat) : Mat := List.zipWith (fun c w => smul c w) cs W

/-- **Positive row scaling does not change the order.** -/
theorem dominates_rowScale (cs : Vec) (W : Mat) (hlen : cs.length = W.length)
    (hpos : ∀ c ∈ cs, 0 < c) (a b : Vec) :
    dominates (rowScale cs W) a b = dominates W a b := by
  rw [Bool.eq_iff_iff]
  simp only [dominates, inCone, allNonneg, matVec, List.all_eq_true, List.mem_map,
    decide_eq_true_eq, forall_exists_index, and_imp, forall_apply_eq_imp_iff₂]
  induction cs generalizing W with
  | nil =>
    cases W with
    | nil => simp [rowScale]
    | cons _ _ => simp at hlen
  | cons c cs ih =>
    cases W with
    | nil => simp at hlen
    | cons w W =>
      have hc : 0 < c := hpos c (by simp)
      have := ih W (by simpa using hlen) (fun x hx => hpos x (by simp [hx]))
      simp only [rowScale, List.zipWith_cons_cons, List.mem_cons, forall_eq_or_imp,
        dot_smul_left] at this ⊢
      rw [this]
      constructor
      · rintro ⟨h1, h2⟩
        exact ⟨by
          rcases le_or_gt 0 (dot w (vsub a b)) with h | h
          · exact h
          · exact absurd h1 (not_le.2 (mul_neg_of_pos_of_neg hc h)), h2⟩
      · rintro ⟨h1, h2⟩
        exact ⟨mul_nonneg (le_of_lt hc) h1, h2⟩

/-- **The order depends only on the set of rows**: permuting (or repeating) rows changes nothing. -/
theorem dominates_of_same_rows (W W' : Mat) (h : ∀ w, w ∈ W' ↔ w ∈ W) (a b : Vec) :
    dominates W' a b = dominates W a b := by
  rw [Bool.eq_iff_iff]
  simp only [dominates, inCone, allNonneg, matVec, List.all_eq_true, List.mem_map,
    decide_eq_true_eq, forall_exists_index, and_imp, forall_apply_eq_imp_iff₂]
  constructor
  · intro hh w hw; exact hh w ((h w).2 hw)
  · intro hh w hw; exact hh w ((h w).1 hw)

theorem vadd_right_cancel_iff (a b t : Vec) (ha : a.length = t.length) (hb : b.length = t.length) :
    vadd a t = vadd b t ↔ a = b := by
  constructor
  · intro h
    induction t generalizing a b with
    | nil =>
      have : a = [] := List.length_eq_zero_iff.mp (by simpa using ha)
      have : b = [] := List.length_eq_zero_iff.mp (by simpa using hb)
      simp_all
    | cons t ts ih =>
      cases a with
      | nil => simp at ha
      | cons x a =>
        cases b with
        | nil => simp at hb
        | cons y b =>
          simp only [vadd, List.zipWith_cons_cons, List.cons.injEq, add_left_inj] at h
          rw [h.1, ih a b (by simpa using ha) (by simpa using hb) h.2]
  · rintro rfl; rfl

theorem smul_left_cancel_iff (c : Rat) (hc : c ≠ 0) (a b : Vec) : smul c a = smul c b ↔ a = b := by
  constructor
  · intro h
    induction a generalizing b with
    | nil =>
      cases b with
      | nil => rfl
      | cons _ _ => simp [smul] at h
    | cons x a ih =>
      cases b with
      | nil => simp [smul] at h
      | cons y b =>
        simp only [smul, List.map_cons, List.cons.injEq, mul_eq_mul_left_iff] at h
        rcases h.1 with h1 | h1
        · rw [h1, ih b h.2]
        · exact absurd h1 hc
  · rintro rfl; rfl

end VOPy
