import VOPyVerif.Proofs.Steps
import Mathlib.Algebra.Order.Ring.Unbundled.Rat
/-! Helper lemmas for the Auer part of C02 / C03: `vmin`, `vmax`, `m(·,·)`, `M(·,·)`, the `np.all`
comparisons, the pair scan `anyOtherP`, and the membership characterisations of the cores. -/
namespace VOPy.Steps

/-! ## numbers -/

theorem lt_foldl_min (t : Rat) (xs : List Rat) (x : Rat) :
    t < xs.foldl min x ↔ t < x ∧ ∀ y ∈ xs, t < y := by
  induction xs generalizing x with
  | nil => simp
  | cons a xs ih =>
    simp only [List.foldl_cons, ih, lt_min_iff, List.mem_cons, forall_eq_or_imp]
    tauto

theorem foldl_max_lt (t : Rat) (xs : List Rat) (x : Rat) :
    xs.foldl max x < t ↔ x < t ∧ ∀ y ∈ xs, y < t := by
  induction xs generalizing x with
  | nil => simp
  | cons a xs ih =>
    simp only [List.foldl_cons, ih, max_lt_iff, List.mem_cons, forall_eq_or_imp]
    tauto

theorem foldl_max_le (t : Rat) (xs : List Rat) (x : Rat) :
    xs.foldl max x ≤ t ↔ x ≤ t ∧ ∀ y ∈ xs, y ≤ t := by
  induction xs generalizing x with
  | nil => simp
  | cons a xs ih =>
    simp only [List.foldl_cons, ih, max_le_iff, List.mem_cons, forall_eq_or_imp]
    tauto

/-- `t < np.min(v)` for a non-empty vector -/
theorem lt_vmin_iff {v : Vec} (hv : v ≠ []) (t : Rat) : t < vmin v ↔ ∀ x ∈ v, t < x := by
  cases v with
  | nil => exact absurd rfl hv
  | cons a xs => simp only [vmin, lt_foldl_min, List.mem_cons, forall_eq_or_imp]

theorem vmax_lt_iff {v : Vec} (hv : v ≠ []) (t : Rat) : vmax v < t ↔ ∀ x ∈ v, x < t := by
  cases v with
  | nil => exact absurd rfl hv
  | cons a xs => simp only [vmax, foldl_max_lt, List.mem_cons, forall_eq_or_imp]

theorem vmax_le_iff {v : Vec} (hv : v ≠ []) (t : Rat) : vmax v ≤ t ↔ ∀ x ∈ v, x ≤ t := by
  cases v with
  | nil => exact absurd rfl hv
  | cons a xs => simp only [vmax, foldl_max_le, List.mem_cons, forall_eq_or_imp]

/-- `β < m(c_i, c_j)` for a non-negative width `β`: every coordinate of `c_j − c_i` exceeds `β`. -/
theorem lt_smallM_iff {ci cj : Vec} (hv : vsub cj ci ≠ []) {b : Rat} (hb : 0 ≤ b) :
    b < smallM ci cj ↔ ∀ x ∈ vsub cj ci, b < x := by
  unfold smallM
  rw [lt_max_iff, lt_vmin_iff hv]
  constructor
  · rintro (h | h)
    · exact absurd h (not_lt.mpr hb)
    · exact h
  · intro h; exact Or.inr h

/-- `M(c_i, c_j) < β` : `β` is positive and exceeds every coordinate of `c_i + ε − c_j`. -/
theorem bigM_lt_iff {eps : Rat} {ci cj : Vec} (hv : vsub (ci.map (· + eps)) cj ≠ []) (b : Rat) :
    bigM eps ci cj < b ↔ 0 < b ∧ ∀ x ∈ vsub (ci.map (· + eps)) cj, x < b := by
  unfold bigM
  rw [max_lt_iff, vmax_lt_iff hv]

theorem bigM_le_iff {eps : Rat} {ci cj : Vec} (hv : vsub (ci.map (· + eps)) cj ≠ []) (b : Rat) :
    bigM eps ci cj ≤ b ↔ 0 ≤ b ∧ ∀ x ∈ vsub (ci.map (· + eps)) cj, x ≤ b := by
  unfold bigM
  rw [max_le_iff, vmax_le_iff hv]

theorem allGt_iff (x : Rat) (beta : Vec) : allGt x beta = true ↔ ∀ b ∈ beta, b < x := by
  simp [allGt]

theorem allLt_iff (x : Rat) (beta : Vec) : allLt x beta = true ↔ ∀ b ∈ beta, x < b := by
  simp [allLt]

theorem allLe_iff (x : Rat) (beta : Vec) : allLe x beta = true ↔ ∀ b ∈ beta, x ≤ b := by
  simp [allLe]

/-! ## the pair scan -/

theorem anyOtherP_iff (test : Nat × Vec → Bool) (i : Nat) (l : List (Nat × Vec)) :
    anyOtherP test i l = true ↔ ∃ q ∈ l, q.1 ≠ i ∧ test q = true := by
  induction l with
  | nil => simp [anyOtherP]
  | cons a l ih =>
    unfold anyOtherP
    by_cases h : a.1 = i
    · have hb : (a.1 == i) = true := by simpa using h
      simp only [hb, if_true, ih, List.mem_cons]
      constructor
      · rintro ⟨q, hq, hne, ht⟩; exact ⟨q, Or.inr hq, hne, ht⟩
      · rintro ⟨q, hq | hq, hne, ht⟩
        · subst hq; exact absurd h hne
        · exact ⟨q, hq, hne, ht⟩
    · have hb : (a.1 == i) = false := by simpa using h
      simp only [hb, Bool.false_eq_true, if_false, List.mem_cons]
      by_cases ht : test a = true
      · simp only [ht, if_true, true_iff]
        exact ⟨a, Or.inl rfl, h, ht⟩
      · simp only [ht, Bool.false_eq_true, if_false, ih]
        constructor
        · rintro ⟨q, hq, hne, htq⟩; exact ⟨q, Or.inr hq, hne, htq⟩
        · rintro ⟨q, hq | hq, hne, htq⟩
          · subst hq; exact absurd htq ht
          · exact ⟨q, hq, hne, htq⟩

theorem anyOtherP_eq_false_iff (test : Nat × Vec → Bool) (i : Nat) (l : List (Nat × Vec)) :
    anyOtherP test i l = false ↔ ∀ q ∈ l, q.1 ≠ i → test q = false := by
  rw [← Bool.not_eq_true, anyOtherP_iff]
  constructor
  · intro h q hq hne
    by_cases ht : test q = true
    · exact absurd ⟨q, hq, hne, ht⟩ h
    · simpa using ht
  · rintro h ⟨q, hq, hne, ht⟩
    rw [h q hq hne] at ht; exact absurd ht (by simp)

theorem mem_byDesign {width : Nat → Vec} {S : List Nat} {p : Nat × Vec} :
    p ∈ byDesign width S ↔ p.1 ∈ S ∧ p.2 = width p.1 := by
  unfold byDesign
  simp only [List.mem_map]
  constructor
  · rintro ⟨i, hi, rfl⟩; exact ⟨hi, rfl⟩
  · rintro ⟨h1, h2⟩; exact ⟨p.1, h1, by rw [← h2]⟩

/-- when the rows are the widths of the elements of `S` in order, positional lookup is lookup by
design -/
theorem byPosition_aligned (width : Nat → Vec) (S : List Nat) :
    byPosition (S.map width) S = byDesign width S := by
  unfold byPosition byDesign
  induction S with
  | nil => rfl
  | cons a S ih => simp only [List.map_cons, List.zip_cons_cons, ih]

/-- positional lookup in general: the element of `S` at position `k` reads `rows[k]`, i.e. design
`i` reads the row at its own position `S.idxOf i` — whatever design that row was computed for. -/
theorem byPosition_eq_byDesign_idx {S : List Nat} (hS : S.Nodup) (rows : List Vec)
    (hlen : S.length ≤ rows.length) :
    byPosition rows S = byDesign (fun i => rows.getD (S.idxOf i) []) S := by
  induction S generalizing rows with
  | nil => simp [byPosition, byDesign]
  | cons a S ih =>
    cases rows with
    | nil => simp at hlen
    | cons r rows =>
      rw [List.nodup_cons] at hS
      simp only [byPosition, byDesign, List.zip_cons_cons, List.map_cons]
      congr 1
      · simp
      · have := ih hS.2 rows (by simpa using hlen)
        unfold byPosition byDesign at this
        rw [this]
        apply List.map_congr_left
        intro i hi
        have hne : a ≠ i := fun h => hS.1 (h ▸ hi)
        have hb : (a == i) = false := by simpa using hne
        simp [List.idxOf_cons, hb]

/-! ## Auer cores with widths by design -/

theorem mem_auerToDiscard {centre width : Nat → Vec} {S : List Nat} {i : Nat} :
    i ∈ auerToDiscardCore centre (byDesign width S) ↔
      i ∈ S ∧ ∃ j ∈ S, j ≠ i ∧ auerDomCert centre (i, width i) (j, width j) = true := by
  unfold auerToDiscardCore
  simp only [List.mem_map, List.mem_filter, anyOtherP_iff, mem_byDesign]
  constructor
  · rintro ⟨p, ⟨⟨hp1, hp2⟩, q, ⟨hq1, hq2⟩, hne, hc⟩, rfl⟩
    refine ⟨hp1, q.1, hq1, hne, ?_⟩
    have hp : p = (p.1, width p.1) := by rw [← hp2]
    have hq : q = (q.1, width q.1) := by rw [← hq2]
    rw [hp, hq] at hc; exact hc
  · rintro ⟨hi, j, hj, hne, hc⟩
    exact ⟨(i, width i), ⟨⟨hi, rfl⟩, (j, width j), ⟨hj, rfl⟩, hne, hc⟩, rfl⟩

theorem mem_auerDiscard {centre width : Nat → Vec} {S : List Nat} (hS : S.Nodup) {i : Nat} :
    i ∈ auerDiscard centre width S ↔
      i ∈ S ∧ ¬ ∃ j ∈ S, j ≠ i ∧ auerDomCert centre (i, width i) (j, width j) = true := by
  unfold auerDiscard
  rw [mem_removeAll _ hS, mem_auerToDiscard]
  constructor
  · rintro ⟨h1, h2⟩; exact ⟨h1, fun h => h2 ⟨h1, h⟩⟩
  · rintro ⟨h1, h2⟩; exact ⟨h1, fun h => h2 h.2⟩

/-- the stage-1 test of `pareto_updating` for design `i` with own widths -/
def passesP1 (eps : Rat) (centre width : Nat → Vec) (S : List Nat) (i : Nat) : Prop :=
  i ∈ S ∧ ∀ j ∈ S, j ≠ i →
    allLt (bigM eps (centre i) (centre j)) (vadd (width i) (width j)) = false

theorem mem_auerP1 {eps : Rat} {centre width : Nat → Vec} {S : List Nat} {p : Nat × Vec} :
    p ∈ auerP1Core eps centre (byDesign width S) ↔
      p.2 = width p.1 ∧ passesP1 eps centre width S p.1 := by
  unfold auerP1Core passesP1
  simp only [List.mem_filter, Bool.not_eq_eq_eq_not, Bool.not_true, anyOtherP_eq_false_iff,
    mem_byDesign]
  constructor
  · rintro ⟨⟨h1, h2⟩, h3⟩
    refine ⟨h2, h1, fun j hj hne => ?_⟩
    have := h3 (j, width j) ⟨hj, rfl⟩ hne
    rw [h2] at this; exact this
  · rintro ⟨h2, h1, h3⟩
    refine ⟨⟨h1, h2⟩, fun q hq hne => ?_⟩
    have := h3 q.1 hq.1 hne
    rw [h2, hq.2]; exact this

theorem mem_auerP1_pts {eps : Rat} {centre width : Nat → Vec} {S : List Nat} {i : Nat} :
    i ∈ (auerP1Core eps centre (byDesign width S)).map (·.1) ↔ passesP1 eps centre width S i := by
  simp only [List.mem_map, mem_auerP1]
  constructor
  · rintro ⟨p, ⟨_, h⟩, rfl⟩; exact h
  · intro h; exact ⟨(i, width i), ⟨rfl, h⟩, rfl⟩

theorem mem_auerNewPareto {eps : Rat} {centre width : Nat → Vec} {S : List Nat} {i : Nat} :
    i ∈ auerNewParetoCore eps centre (byDesign width S) ↔
      passesP1 eps centre width S i ∧ ∀ j ∈ S, ¬ passesP1 eps centre width S j →
        allLe (bigM eps (centre j) (centre i)) (vadd (width i) (width j)) = false := by
  unfold auerNewParetoCore
  simp only [List.mem_map, List.mem_filter, mem_auerP1, Bool.not_eq_eq_eq_not, Bool.not_true,
    List.any_eq_false, Bool.and_eq_true, List.contains_eq_mem, decide_eq_false_iff_not,
    not_and, Bool.not_eq_true, mem_byDesign]
  constructor
  · rintro ⟨p, ⟨⟨hp2, hp⟩, h⟩, rfl⟩
    refine ⟨hp, fun j hj hnp => ?_⟩
    have := h (j, width j) ⟨hj, rfl⟩ (by
      rintro ⟨a, ⟨_, ha⟩, hj'⟩
      apply hnp
      have : a.1 = j := hj'
      rw [← this]; exact ha)
    rw [hp2] at this; exact this
  · rintro ⟨hp, h⟩
    refine ⟨(i, width i), ⟨⟨rfl, hp⟩, fun q hq hnq => ?_⟩, rfl⟩
    have hq' : ¬ passesP1 eps centre width S q.1 := by
      intro hpass
      exact hnq ⟨(q.1, width q.1), ⟨rfl, hpass⟩, rfl⟩
    have := h q.1 hq.1 hq'
    rw [hq.2]; exact this

end VOPy.Steps
