import VOPyVerif.Proofs.AccuracySets
/-!
# C01, PaVeBa family: the invariant over rounds, abstractly

The true means enter only through two relations on design indices,

* `dom j i`  — "μ_j weakly dominates μ_i" (transitive),
* `good i j` — "j does not exceed i by more than the tolerance" (reflexive; downward closed in `j`
  along `dom`),

and the geometry only through the per-round oracle soundness `RoundSound`.  `paveba_step` shows
that one `Steps.pavebaRound` preserves the invariant `PInv` (DESIGN §3.1: (I1) bookkeeping, (I2)
every discarded design is dominated by a living one, (I3) every member of `P` is `good` against
every design, plus (I5) every candidate is `good` against every member of `P` that is not useful).
-/
namespace VOPy.Accuracy
open VOPy VOPy.Steps

/-- facts about the true means, abstractly, among the designs `0 … K-1` -/
structure Truth (K : Nat) (dom good : Nat → Nat → Prop) : Prop where
  dom_trans : ∀ i j k, i < K → j < K → k < K → dom i j → dom j k → dom i k
  good_refl : ∀ i, i < K → good i i
  good_mono : ∀ i k j, i < K → k < K → j < K → good i k → dom k j → good i j

/-- the invariant of the PaVeBa-family run -/
structure PInv (K : Nat) (dom good : Nat → Nat → Prop) (S P U : List Nat) : Prop where
  nodupS : S.Nodup
  nodupP : P.Nodup
  disj : ∀ x, x ∈ S → x ∉ P
  lt : ∀ x, x ∈ S ∨ x ∈ P → x < K
  subU : ∀ x, x ∈ U → x ∈ P
  /-- (I2) -/
  covered : ∀ i, i < K → i ∉ S → i ∉ P → ∃ j, (j ∈ S ∨ j ∈ P) ∧ dom j i
  /-- (I3) -/
  acc : ∀ i, i ∈ P → ∀ j, j < K → good i j
  /-- (I5) -/
  notUseful : ∀ s, s ∈ S → ∀ p, p ∈ P → p ∉ U → good s p

/-- what validity of the displayed regions gives about one round's oracles, for the state
`(S, P, U)` the round starts from -/
structure RoundSound (dom good : Nat → Nat → Prop) (isDom isCov : Rel) (S P U : List Nat) : Prop where
  /-- region domination (zero slack) implies domination of the true means -/
  dom_sound : ∀ i, i ∈ S → ∀ j, (j ∈ S ∨ j ∈ U) → j ≠ i → isDom i j = true → dom j i
  /-- region domination is a strict partial order on the active designs -/
  dom_trans : ∀ i j k, (i ∈ S ∨ i ∈ U) → (j ∈ S ∨ j ∈ U) → (k ∈ S ∨ k ∈ U) →
    isDom i j = true → isDom j k = true → isDom i k = true
  dom_irrefl : ∀ i, (i ∈ S ∨ i ∈ U) → isDom i i = false
  /-- a failed covering test certifies `good` at the true means (regions of all living designs,
  including the last displayed ones of `P ∖ U`, contain the truth) -/
  cov_sound : ∀ i j, (i ∈ S ∨ i ∈ P) → (j ∈ S ∨ j ∈ P) → j ≠ i → isCov i j = false → good i j

theorem pinv_init (K : Nat) (dom good : Nat → Nat → Prop) : PInv K dom good (List.range K) [] [] where
  nodupS := List.nodup_range
  nodupP := List.nodup_nil
  disj := by simp
  lt := by simp
  subU := by simp
  covered := by
    intro i hi hS _
    exact absurd (List.mem_range.mpr hi) hS
  acc := by simp
  notUseful := by simp

/-! ### membership in the three phases -/

section phases
variable {isDom isCov : Rel} {S P U : List Nat}

theorem mem_pavebaDiscard (hS : S.Nodup) {x : Nat} :
    x ∈ pavebaDiscard isDom S U ↔
      x ∈ S ∧ ∀ j, (j ∈ S ∨ j ∈ U) → j ≠ x → isDom x j = false := by
  unfold pavebaDiscard pavebaToDiscard
  rw [mem_removeAll hS]
  simp only [List.mem_filter, not_and, Bool.not_eq_true, anyOther_eq_false, mem_union]
  constructor
  · rintro ⟨hx, h⟩; exact ⟨hx, h hx⟩
  · rintro ⟨hx, h⟩; exact ⟨hx, fun _ => h⟩

theorem mem_pavebaNewPareto {S1 : List Nat} {x : Nat} :
    x ∈ pavebaNewPareto isCov S1 U ↔
      x ∈ S1 ∧ ∀ j, (j ∈ S1 ∨ j ∈ U) → j ≠ x → isCov x j = false := by
  unfold pavebaNewPareto
  simp only [List.mem_filter, Bool.not_eq_true', anyOther_eq_false, mem_union]

end phases

/-- **One round preserves the invariant.** -/
theorem paveba_step {K : Nat} {dom good : Nat → Nat → Prop} (htruth : Truth K dom good)
    {isDom isCov : Rel} {S P U : List Nat}
    (hinv : PInv K dom good S P U) (hs : RoundSound dom good isDom isCov S P U) :
    PInv K dom good (pavebaRound isDom isCov S P U).1 (pavebaRound isDom isCov S P U).2.1
      (pavebaRound isDom isCov S P U).2.2 := by
  -- names for the intermediate sets
  have hS1nd : (pavebaDiscard isDom S U).Nodup := nodup_removeAll hinv.nodupS
  have hmemS1 : ∀ x, x ∈ pavebaDiscard isDom S U ↔
      x ∈ S ∧ ∀ j, (j ∈ S ∨ j ∈ U) → j ≠ x → isDom x j = false :=
    fun x => mem_pavebaDiscard hinv.nodupS
  have hmemNew : ∀ x, x ∈ pavebaNewPareto isCov (pavebaDiscard isDom S U) U ↔
      x ∈ pavebaDiscard isDom S U ∧
        ∀ j, (j ∈ pavebaDiscard isDom S U ∨ j ∈ U) → j ≠ x → isCov x j = false :=
    fun x => mem_pavebaNewPareto
  have hround : pavebaRound isDom isCov S P U =
      (removeAll (pavebaDiscard isDom S U) (pavebaNewPareto isCov (pavebaDiscard isDom S U) U),
       addAll P (pavebaNewPareto isCov (pavebaDiscard isDom S U) U),
       pavebaUseful isCov
         (removeAll (pavebaDiscard isDom S U) (pavebaNewPareto isCov (pavebaDiscard isDom S U) U))
         (addAll P (pavebaNewPareto isCov (pavebaDiscard isDom S U) U))) := rfl
  rw [hround]
  generalize hS1 : pavebaDiscard isDom S U = S1 at *
  generalize hN : pavebaNewPareto isCov S1 U = new at *
  have hS1sub : ∀ x, x ∈ S1 → x ∈ S := fun x hx => ((hmemS1 x).mp hx).1
  have hNsub : ∀ x, x ∈ new → x ∈ S1 := fun x hx => ((hmemNew x).mp hx).1
  have hmemS2 : ∀ x, x ∈ removeAll S1 new ↔ x ∈ S1 ∧ x ∉ new := fun x => mem_removeAll hS1nd
  have hmemP2 : ∀ x, x ∈ addAll P new ↔ x ∈ P ∨ x ∈ new := fun x => mem_addAll
  -- living designs after the round = living designs after discarding
  have halive : ∀ x, (x ∈ removeAll S1 new ∨ x ∈ addAll P new) ↔ (x ∈ S1 ∨ x ∈ P) := by
    intro x
    rw [hmemS2, hmemP2]
    constructor
    · rintro (⟨h, _⟩ | h | h)
      · exact Or.inl h
      · exact Or.inr h
      · exact Or.inl (hNsub x h)
    · rintro (h | h)
      · by_cases hn : x ∈ new
        · exact Or.inr (Or.inr hn)
        · exact Or.inl ⟨h, hn⟩
      · exact Or.inr (Or.inl h)
  -- (I2) after discarding: every design outside S1 ∪ P is dominated by a member of S1 ∪ P
  have hltA : ∀ x, (x ∈ S ∨ x ∈ U) → x < K := fun x hx =>
    hinv.lt x (hx.elim Or.inl (fun h => Or.inr (hinv.subU x h)))
  have hsurv : ∀ i, i ∈ S → i ∉ S1 → ∃ k, (k ∈ S1 ∨ k ∈ P) ∧ dom k i := by
    intro i hiS hi1
    -- i has a witness
    have hex : ∃ j ∈ union S U, isDom i j = true := by
      apply Classical.byContradiction
      intro hno
      apply hi1
      rw [hmemS1]
      refine ⟨hiS, fun j hj _ => ?_⟩
      cases h : isDom i j with
      | false => rfl
      | true => exact absurd ⟨j, mem_union.mpr hj, h⟩ hno
    obtain ⟨k, hkA, hik, hkmax⟩ := exists_maximal_above isDom (union S U)
      (fun a ha b hb c hc => hs.dom_trans a b c (mem_union.mp ha) (mem_union.mp hb) (mem_union.mp hc))
      (fun a ha => hs.dom_irrefl a (mem_union.mp ha)) i (mem_union.mpr (Or.inl hiS)) hex
    have hkA' := mem_union.mp hkA
    have hki : k ≠ i := by
      intro h
      rw [h, hs.dom_irrefl i (Or.inl hiS)] at hik
      exact absurd hik (by simp)
    refine ⟨k, ?_, hs.dom_sound i hiS k hkA' hki hik⟩
    rcases hkA' with hkS | hkU
    · left
      rw [hmemS1]
      exact ⟨hkS, fun l hl _ => hkmax l (mem_union.mpr hl)⟩
    · exact Or.inr (hinv.subU k hkU)
  have hcov1 : ∀ i, i < K → i ∉ S1 → i ∉ P → ∃ k, (k ∈ S1 ∨ k ∈ P) ∧ dom k i := by
    intro i hiK hi1 hiP
    by_cases hiS : i ∈ S
    · exact hsurv i hiS hi1
    · obtain ⟨j, hj, hji⟩ := hinv.covered i hiK hiS hiP
      rcases hj with hjS | hjP
      · by_cases hj1 : j ∈ S1
        · exact ⟨j, Or.inl hj1, hji⟩
        · obtain ⟨k, hk, hkj⟩ := hsurv j hjS hj1
          have hkK : k < K := hinv.lt k (hk.elim (fun h => Or.inl (hS1sub k h)) Or.inr)
          exact ⟨k, hk, htruth.dom_trans k j i hkK (hinv.lt j (Or.inl hjS)) hiK hkj hji⟩
      · exact ⟨j, Or.inr hjP, hji⟩
  -- a new Pareto member is good against every living design …
  have hgoodLive : ∀ i, i ∈ new → ∀ k, (k ∈ S1 ∨ k ∈ P) → good i k := by
    intro i hi k hk
    obtain ⟨hi1, hnc⟩ := (hmemNew i).mp hi
    have hiS := hS1sub i hi1
    have hiK := hinv.lt i (Or.inl hiS)
    by_cases hki : k = i
    · subst hki; exact htruth.good_refl k hiK
    · rcases hk with hk1 | hkP
      · exact hs.cov_sound i k (Or.inl hiS) (Or.inl (hS1sub k hk1)) hki (hnc k (Or.inl hk1) hki)
      · by_cases hkU : k ∈ U
        · exact hs.cov_sound i k (Or.inl hiS) (Or.inr hkP) hki (hnc k (Or.inr hkU) hki)
        · exact hinv.notUseful i hiS k hkP hkU
  -- … hence against every design
  have hgoodAll : ∀ i, i ∈ new → ∀ j, j < K → good i j := by
    intro i hi j hjK
    have hiK := hinv.lt i (Or.inl (hS1sub i (hNsub i hi)))
    by_cases hjl : j ∈ S1 ∨ j ∈ P
    · exact hgoodLive i hi j hjl
    · obtain ⟨k, hk, hkj⟩ := hcov1 j hjK (fun h => hjl (Or.inl h)) (fun h => hjl (Or.inr h))
      have hkK : k < K := hinv.lt k (hk.elim (fun h => Or.inl (hS1sub k h)) Or.inr)
      exact htruth.good_mono i k j hiK hkK hjK (hgoodLive i hi k hk) hkj
  refine
    { nodupS := nodup_removeAll hS1nd
      nodupP := nodup_addAll hinv.nodupP
      disj := ?_, lt := ?_, subU := ?_, covered := ?_, acc := ?_, notUseful := ?_ }
  · intro x hx
    rw [hmemS2] at hx
    rw [hmemP2]
    rintro (h | h)
    · exact hinv.disj x (hS1sub x hx.1) h
    · exact hx.2 h
  · intro x hx
    rcases (halive x).mp hx with h | h
    · exact hinv.lt x (Or.inl (hS1sub x h))
    · exact hinv.lt x (Or.inr h)
  · intro x hx
    unfold pavebaUseful at hx
    exact (List.mem_filter.mp hx).1
  · intro i hiK hi2 hiP2
    have h1 : i ∉ S1 := fun h => (not_or.mpr ⟨hi2, hiP2⟩) ((halive i).mpr (Or.inl h))
    have h2 : i ∉ P := fun h => (not_or.mpr ⟨hi2, hiP2⟩) ((halive i).mpr (Or.inr h))
    obtain ⟨k, hk, hki⟩ := hcov1 i hiK h1 h2
    exact ⟨k, (halive k).mpr hk, hki⟩
  · intro i hi j hjK
    rcases (hmemP2 i).mp hi with h | h
    · exact hinv.acc i h j hjK
    · exact hgoodAll i h j hjK
  · intro s hs2 p hp2 hpU
    have hs1 : s ∈ S1 := ((hmemS2 s).mp hs2).1
    have hsS := hS1sub s hs1
    have hpl : p ∈ S ∨ p ∈ P := by
      rcases (hmemP2 p).mp hp2 with h | h
      · exact Or.inr h
      · exact Or.inl (hS1sub p (hNsub p h))
    have hps : p ≠ s := by
      intro h
      subst h
      rcases (hmemP2 p).mp hp2 with h | h
      · exact hinv.disj p hsS h
      · exact ((hmemS2 p).mp hs2).2 h
    have hnc : isCov s p = false := by
      cases hc : isCov s p with
      | false => rfl
      | true =>
        exfalso
        apply hpU
        unfold pavebaUseful
        rw [List.mem_filter]
        exact ⟨hp2, List.any_eq_true.mpr ⟨s, hs2, hc⟩⟩
    exact hs.cov_sound s p (Or.inl hsS) hpl hps hnc

/-- **The invariant holds after every round** of a run all of whose rounds are sound. -/
theorem paveba_run_inv {K : Nat} {dom good : Nat → Nat → Prop} (htruth : Truth K dom good)
    (isDom isCov : Nat → Rel) (T : Nat)
    (hs : ∀ r, r < T → RoundSound dom good (isDom r) (isCov r)
      (pavebaRun K isDom isCov r).1 (pavebaRun K isDom isCov r).2.1 (pavebaRun K isDom isCov r).2.2) :
    PInv K dom good (pavebaRun K isDom isCov T).1 (pavebaRun K isDom isCov T).2.1
      (pavebaRun K isDom isCov T).2.2 := by
  induction T with
  | zero => exact pinv_init K dom good
  | succ T ih =>
    have h := ih (fun r hr => hs r (Nat.lt_succ_of_lt hr))
    exact paveba_step htruth h (hs T (Nat.lt_succ_self T))

/-- the living designs never grow -/
theorem paveba_alive_antitone {isDom isCov : Rel} {S P U : List Nat} (hS : S.Nodup) (x : Nat)
    (h : x ∈ (pavebaRound isDom isCov S P U).1 ∨ x ∈ (pavebaRound isDom isCov S P U).2.1) :
    x ∈ S ∨ x ∈ P := by
  have hround : pavebaRound isDom isCov S P U =
      (removeAll (pavebaDiscard isDom S U) (pavebaNewPareto isCov (pavebaDiscard isDom S U) U),
       addAll P (pavebaNewPareto isCov (pavebaDiscard isDom S U) U),
       pavebaUseful isCov
         (removeAll (pavebaDiscard isDom S U) (pavebaNewPareto isCov (pavebaDiscard isDom S U) U))
         (addAll P (pavebaNewPareto isCov (pavebaDiscard isDom S U) U))) := rfl
  rw [hround] at h
  have hS1 : ∀ y, y ∈ pavebaDiscard isDom S U → y ∈ S := fun y hy => ((mem_pavebaDiscard hS).mp hy).1
  rcases h with h | h
  · exact Or.inl (hS1 x ((mem_removeAll (nodup_removeAll hS)).mp h).1)
  · rcases mem_addAll.mp h with h | h
    · exact Or.inr h
    · exact Or.inl (hS1 x (mem_pavebaNewPareto.mp h).1)

end VOPy.Accuracy
