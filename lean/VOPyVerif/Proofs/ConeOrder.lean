import VOPyVerif.Model.Basic
import Mathlib.Algebra.Order.Field.Rat
import Mathlib.Data.Rat.Cast.Order
import Mathlib.Tactic.Ring
import Mathlib.Tactic.Linarith
import Mathlib.Tactic.Positivity
/-!
# Helper lemmas for C12: the cone relation over an arbitrary ordered field

`gdot`, `MemCone`, `Dom` are the list-model relation of `Model/Basic.lean` with the carrier generalised
from `Rat` to any linearly ordered field `K`.  At `K = ℚ` they coincide with `dot`, `inCone`, `dominates`
(`dot_eq_gdot`, `inCone_iff`, `dominates_iff`; all in namespace `VOPy.ConeOrd`), and `Rat.cast` carries them to every other ordered field
(`memCone_cast`), in particular `ℝ`.
-/
namespace VOPy.ConeOrd
open VOPy
set_option linter.unusedSectionVars false

section generic
variable {K : Type} [Field K] [LinearOrder K] [IsStrictOrderedRing K]

/-- dot product of two lists (truncating to the shorter one, like `dot`) -/
def gdot : List K → List K → K
  | a :: as, b :: bs => a * b + gdot as bs
  | _, _ => 0

/-- `x ∈ {x | W x ≥ 0}` -/
def MemCone (W : List (List K)) (x : List K) : Prop := ∀ w ∈ W, 0 ≤ gdot w x

/-- `a − b ∈ {x | W x ≥ 0}` -/
def Dom (W : List (List K)) (a b : List K) : Prop := MemCone W (List.zipWith (· - ·) a b)

@[simp] theorem gdot_nil_left (x : List K) : gdot [] x = 0 := by simp [gdot]
@[simp] theorem gdot_nil_right (w : List K) : gdot w [] = 0 := by cases w <;> simp [gdot]
@[simp] theorem gdot_cons (a b : K) (as bs : List K) : gdot (a :: as) (b :: bs) = a * b + gdot as bs := by
  simp [gdot]

theorem gdot_sub (w a b : List K) (h : a.length = b.length) :
    gdot w (List.zipWith (· - ·) a b) = gdot w a - gdot w b := by
  induction w generalizing a b with
  | nil => simp
  | cons x w ih =>
    cases a with
    | nil =>
      cases b with
      | nil => simp
      | cons _ _ => simp at h
    | cons y a =>
      cases b with
      | nil => simp at h
      | cons z b =>
        have h' : a.length = b.length := by simpa using h
        simp only [List.zipWith_cons_cons, gdot_cons, ih a b h']
        ring

theorem gdot_add (w a b : List K) (h : a.length = b.length) :
    gdot w (List.zipWith (· + ·) a b) = gdot w a + gdot w b := by
  induction w generalizing a b with
  | nil => simp
  | cons x w ih =>
    cases a with
    | nil =>
      cases b with
      | nil => simp
      | cons _ _ => simp at h
    | cons y a =>
      cases b with
      | nil => simp at h
      | cons z b =>
        have h' : a.length = b.length := by simpa using h
        simp only [List.zipWith_cons_cons, gdot_cons, ih a b h']
        ring

theorem gdot_smul (c : K) (w x : List K) : gdot w (x.map (c * ·)) = c * gdot w x := by
  induction w generalizing x with
  | nil => simp
  | cons y w ih =>
    cases x with
    | nil => simp
    | cons z x => simp only [List.map_cons, gdot_cons, ih x]; ring

theorem gdot_neg (w x : List K) : gdot w (x.map (- ·)) = - gdot w x := by
  induction w generalizing x with
  | nil => simp
  | cons y w ih =>
    cases x with
    | nil => simp
    | cons z x => simp only [List.map_cons, gdot_cons, ih x]; ring

theorem gdot_replicate_zero (w : List K) (n : Nat) : gdot w (List.replicate n 0) = 0 := by
  induction w generalizing n with
  | nil => simp
  | cons y w ih =>
    cases n with
    | zero => simp
    | succ n => simp [List.replicate_succ, ih n]

theorem zipWith_sub_self (a : List K) : List.zipWith (· - ·) a a = List.replicate a.length 0 := by
  induction a with
  | nil => rfl
  | cons x a ih => simp [List.replicate_succ]

theorem zipWith_sub_eq_zero {a b : List K} (h : a.length = b.length)
    (hz : List.zipWith (· - ·) a b = List.replicate a.length 0) : a = b := by
  induction a generalizing b with
  | nil => cases b with
    | nil => rfl
    | cons _ _ => simp at h
  | cons x a ih =>
    cases b with
    | nil => simp at h
    | cons y b =>
      simp only [List.zipWith_cons_cons, List.length_cons, List.replicate_succ, List.cons.injEq] at hz
      have h' : a.length = b.length := by simpa using h
      rw [ih h' hz.2, sub_eq_zero.mp hz.1]

theorem zipWith_sub_swap (a b : List K) :
    List.zipWith (· - ·) b a = (List.zipWith (· - ·) a b).map (- ·) := by
  induction a generalizing b with
  | nil => simp
  | cons x a ih =>
    cases b with
    | nil => simp
    | cons y b => simp [ih b]

theorem zipWith_sub_translate (a b t : List K) (ha : a.length = t.length) (hb : b.length = t.length) :
    List.zipWith (· - ·) (List.zipWith (· + ·) a t) (List.zipWith (· + ·) b t)
      = List.zipWith (· - ·) a b := by
  induction t generalizing a b with
  | nil =>
    have : a = [] := List.eq_nil_of_length_eq_zero (by simpa using ha)
    subst this
    simp
  | cons z t ih =>
    cases a with
    | nil => simp at ha
    | cons x a =>
      cases b with
      | nil => simp at hb
      | cons y b =>
        simp only [List.zipWith_cons_cons, List.cons.injEq]
        exact ⟨by ring, ih a b (by simpa using ha) (by simpa using hb)⟩

theorem zipWith_sub_smul (c : K) (a b : List K) :
    List.zipWith (· - ·) (a.map (c * ·)) (b.map (c * ·)) = (List.zipWith (· - ·) a b).map (c * ·) := by
  induction a generalizing b with
  | nil => simp
  | cons x a ih =>
    cases b with
    | nil => simp
    | cons y b => simp only [List.map_cons, List.zipWith_cons_cons, ih b, List.cons.injEq, and_true]; ring

/-! ### the laws, generically -/

theorem Dom.iff_facets {W : List (List K)} {a b : List K} (h : a.length = b.length) :
    Dom W a b ↔ ∀ w ∈ W, gdot w b ≤ gdot w a := by
  unfold Dom MemCone
  constructor
  · intro H w hw
    have := H w hw
    rw [gdot_sub w a b h] at this
    linarith
  · intro H w hw
    rw [gdot_sub w a b h]
    have := H w hw
    linarith

theorem Dom.refl (W : List (List K)) (a : List K) : Dom W a a := by
  intro w _
  rw [zipWith_sub_self, gdot_replicate_zero]

theorem Dom.trans {W : List (List K)} {a b c : List K} (hab : a.length = b.length)
    (hbc : b.length = c.length) (h1 : Dom W a b) (h2 : Dom W b c) : Dom W a c := by
  rw [Dom.iff_facets hab] at h1
  rw [Dom.iff_facets hbc] at h2
  rw [Dom.iff_facets (hab.trans hbc)]
  intro w hw
  exact le_trans (h2 w hw) (h1 w hw)

theorem Dom.translate (W : List (List K)) (a b t : List K) (ha : a.length = t.length)
    (hb : b.length = t.length) :
    Dom W (List.zipWith (· + ·) a t) (List.zipWith (· + ·) b t) ↔ Dom W a b := by
  unfold Dom
  rw [zipWith_sub_translate a b t ha hb]

theorem Dom.scale (W : List (List K)) (c : K) (hc : 0 < c) (a b : List K) :
    Dom W (a.map (c * ·)) (b.map (c * ·)) ↔ Dom W a b := by
  unfold Dom MemCone
  rw [zipWith_sub_smul]
  constructor
  · intro H w hw
    have := H w hw
    rw [gdot_smul] at this
    exact (mul_nonneg_iff_of_pos_left hc).mp this
  · intro H w hw
    rw [gdot_smul]
    exact mul_nonneg hc.le (H w hw)

/-- antisymmetry on vectors of length `m` ⇔ trivial kernel (pointed cone) -/
theorem Dom.antisymm_iff_pointed (W : List (List K)) (m : Nat) :
    (∀ a b : List K, a.length = m → b.length = m → Dom W a b → Dom W b a → a = b) ↔
    (∀ x : List K, x.length = m → (∀ w ∈ W, gdot w x = 0) → x = List.replicate m 0) := by
  constructor
  · intro H x hx hker
    have hz : (List.replicate m (0 : K)).length = m := by simp
    apply H x (List.replicate m 0) hx hz
    · rw [Dom.iff_facets (hx.trans hz.symm)]
      intro w hw
      rw [gdot_replicate_zero, hker w hw]
    · rw [Dom.iff_facets (hz.trans hx.symm)]
      intro w hw
      rw [gdot_replicate_zero, hker w hw]
  · intro H a b ha hb hab hba
    have hl : a.length = b.length := ha.trans hb.symm
    have hlen : (List.zipWith (· - ·) a b).length = m := by simp [ha, hb]
    have hzero := H (List.zipWith (· - ·) a b) hlen (by
      intro w hw
      have h1 := hab w hw
      have h2 := hba w hw
      rw [zipWith_sub_swap a b, gdot_neg] at h2
      linarith)
    apply zipWith_sub_eq_zero hl
    rw [hzero, ha]

end generic

/-! ### the `Rat` model is the generic relation at `K = ℚ` -/

theorem dot_eq_gdot (a b : Vec) : dot a b = gdot a b := by
  induction a generalizing b with
  | nil => simp [dot]
  | cons x a ih =>
    cases b with
    | nil => simp [dot]
    | cons y b => simp [dot, ih b]

theorem inCone_iff (W : Mat) (x : Vec) : inCone W x = true ↔ MemCone W x := by
  simp only [inCone, allNonneg, matVec, List.all_map, List.all_eq_true, Function.comp_apply,
    decide_eq_true_eq, MemCone, dot_eq_gdot]

theorem dominates_iff (W : Mat) (a b : Vec) : dominates W a b = true ↔ Dom W a b := by
  simp only [dominates, inCone_iff, Dom, vsub]

/-! ### transport along `Rat.cast` -/

section cast
variable {K : Type} [Field K] [LinearOrder K] [IsStrictOrderedRing K]

theorem gdot_cast (w x : List ℚ) :
    gdot (w.map (Rat.cast : ℚ → K)) (x.map (Rat.cast : ℚ → K)) = ((gdot w x : ℚ) : K) := by
  induction w generalizing x with
  | nil => simp
  | cons y w ih =>
    cases x with
    | nil => simp
    | cons z x => simp [ih x]

theorem memCone_cast (W : List (List ℚ)) (x : List ℚ) :
    MemCone (W.map (·.map (Rat.cast : ℚ → K))) (x.map (Rat.cast : ℚ → K)) ↔ MemCone W x := by
  simp only [MemCone, List.forall_mem_map, gdot_cast, Rat.cast_nonneg]

theorem zipWith_sub_cast (a b : List ℚ) :
    List.zipWith (· - ·) (a.map (Rat.cast : ℚ → K)) (b.map (Rat.cast : ℚ → K))
      = (List.zipWith (· - ·) a b).map (Rat.cast : ℚ → K) := by
  induction a generalizing b with
  | nil => simp
  | cons x a ih =>
    cases b with
    | nil => simp
    | cons y b => simp [ih b]

theorem dom_cast (W : List (List ℚ)) (a b : List ℚ) :
    Dom (W.map (·.map (Rat.cast : ℚ → K))) (a.map (Rat.cast : ℚ → K)) (b.map (Rat.cast : ℚ → K))
      ↔ Dom W a b := by
  unfold Dom
  rw [zipWith_sub_cast, memCone_cast]

end cast

/-! ### the identity matrix -/

theorem dot_basis_row (i : Nat) (s n : Nat) (x : Vec) (hx : x.length = n) :
    dot ((List.range' s n).map (fun j => if i = j then (1 : Rat) else 0)) x
      = if h : s ≤ i ∧ i < s + n then x[i - s]'(by omega) else 0 := by
  induction n generalizing s x with
  | zero =>
    have : ¬ (s ≤ i ∧ i < s + 0) := by omega
    simp [dot]
  | succ n ih =>
    cases x with
    | nil => simp at hx
    | cons y x =>
      have hx' : x.length = n := by simpa using hx
      simp only [List.range'_succ, List.map_cons, dot]
      rw [ih (s + 1) x hx']
      by_cases his : i = s
      · subst his
        have h1 : ¬ (i + 1 ≤ i ∧ i < i + 1 + n) := by omega
        have h2 : i ≤ i ∧ i < i + (n + 1) := by omega
        simp [h2]
      · by_cases hin : s ≤ i ∧ i < s + (n + 1)
        · have h1 : s + 1 ≤ i ∧ i < s + 1 + n := by omega
          have h3 : i - s = (i - (s + 1)) + 1 := by omega
          simp only [his, if_false, h1, hin, dif_pos, and_self]
          simp [h3]
        · have h1 : ¬ (s + 1 ≤ i ∧ i < s + 1 + n) := by omega
          simp [his, h1, hin]

theorem matVec_identMat (m : Nat) (x : Vec) (hx : x.length = m) : matVec (identMat m) x = x := by
  apply List.ext_getElem
  · simp [matVec, identMat, hx]
  · intro i h1 h2
    have him : i < m := by simpa [matVec, identMat] using h1
    simp only [matVec, identMat, List.getElem_map, List.getElem_range]
    rw [List.range_eq_range', dot_basis_row i 0 m x hx]
    simp [him]

end VOPy.ConeOrd
