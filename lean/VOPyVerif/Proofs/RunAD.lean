import VOPyVerif.Proofs.RunInv
/-!
# VOGP_AD from the constructor: only candidates are ever refined, `P` grows literally

`ADInv`: every member of `P` sits at the maximum depth, and once the latch
`enable_epsilon_covering` is set every candidate does.  It holds after the constructor and is
preserved by every call; hence `should_refine_design` never fires for a member of `P`.
-/
namespace VOPy.Run
open VOPy VOPy.Steps

structure ADInv (c : Cfg) (s : State) : Prop where
  pdepth : ∀ p ∈ s.P, depthOf s p = c.maxDepth
  latchS : s.latch = true → ∀ i ∈ s.S, depthOf s i = c.maxDepth

theorem adInv_init (c : Cfg) : ADInv c (init c) :=
  ⟨fun p hp => by simp [init] at hp, fun h => by simp [init] at h⟩

theorem adRound_inv (isDom isCov pessDom : Rel) (depth : Nat → Nat) (maxDepth : Nat) (enabled : Bool)
    (S P : List Nat) (hP : ∀ p ∈ P, depth p = maxDepth)
    (hL : enabled = true → ∀ i ∈ S, depth i = maxDepth) :
    (∀ p ∈ (vogpADRound isDom isCov pessDom depth maxDepth enabled S P).2.1, depth p = maxDepth) ∧
    ((vogpADRound isDom isCov pessDom depth maxDepth enabled S P).2.2 = true →
      ∀ i ∈ (vogpADRound isDom isCov pessDom depth maxDepth enabled S P).1, depth i = maxDepth) := by
  unfold vogpADRound epsilonCoveringAD
  split
  · exact ⟨hP, fun h => by cases h⟩
  · rename_i hcond
    have hall : ∀ i ∈ vogpDiscard isDom pessDom S P, depth i = maxDepth := by
      intro i hi
      cases he : enabled
      · simp only [he, Bool.not_false, Bool.true_and, Bool.not_eq_true', Bool.not_eq_false] at hcond
        have := List.all_eq_true.mp hcond i hi
        simpa using this
      · exact hL he i (removeAll_subset hi)
    simp only [epsilonCovering]
    refine ⟨?_, fun _ i hi => hall i (removeAll_subset hi)⟩
    intro p hp
    rcases (mem_addAll _ _ _).mp hp with h | h
    · exact hP p h
    · exact hall p (List.mem_filter.mp h).1

theorem depthOf_grow_lt (c : Cfg) (s : State) (d i : Nat) (h : i < s.depths.length) :
    (s.depths ++ List.replicate c.branch (depthOf s d + 1)).getD i 0 = depthOf s i := by
  unfold depthOf
  simp only [List.getD_eq_getElem?_getD]
  rw [List.getElem?_append_left h]

/-- `evaluate_refine()` preserves the invariant, keeps `P`, refines candidates only -/
theorem applyChoice_inv (c : Cfg) (s1 : State) (e : Env) (hc : c.alg = .vogpAD) (hw1 : WF c s1)
    (I : ADInv c s1) :
    ADInv c (applyChoice c s1 (choose c s1 e)).st ∧
    (∀ p ∈ s1.P, p ∈ (applyChoice c s1 (choose c s1 e)).st.P) ∧
    (∀ d, (applyChoice c s1 (choose c s1 e)).refined = some d → d ∈ s1.S) := by
  cases hch : choose c s1 e with
  | idle => exact ⟨⟨I.pdepth, I.latchS⟩, fun p hp => hp, fun d h => by cases h⟩
  | sample d => exact ⟨⟨I.pdepth, I.latchS⟩, fun p hp => hp, fun d h => by cases h⟩
  | refineS d =>
    obtain ⟨hdS, hlt⟩ := choose_refineS hch
    have hl : s1.latch = false := by
      cases h : s1.latch
      · rfl
      · have := I.latchS h d hdS; omega
    refine ⟨⟨?_, ?_⟩, fun p hp => hp, ?_⟩
    · intro p hp
      have hp' : p ∈ s1.P := hp
      have hb := hw1.bound hc p (Or.inr hp')
      show (s1.depths ++ List.replicate c.branch (depthOf s1 d + 1)).getD p 0 = c.maxDepth
      rw [depthOf_grow_lt c s1 d p hb]
      exact I.pdepth p hp'
    · intro h
      have : s1.latch = true := h
      rw [hl] at this; cases this
    · intro d' hd'
      have : d' = d := (Option.some.inj hd').symm
      rw [this]; exact hdS
  | refineP d =>
    obtain ⟨_, hdP, hlt⟩ := choose_refineP hch
    have := I.pdepth d hdP
    omega

/-- One VOGP_AD call from a well-formed state satisfying `ADInv`. -/
theorem ad_step_inv (c : Cfg) (s : State) (e : Env) (hc : c.alg = .vogpAD) (hw : WF c s)
    (I : ADInv c s) :
    ADInv c (step c s e).1 ∧ (∀ p ∈ s.P, p ∈ (step c s e).1.P) ∧
    (∀ d, (step c s e).2.refined = some d → d ∈ s.S) := by
  cases h : isDone c s
  · rw [step_of_not_done e h, active_ad hc]
    have T := vogpADRound_trans e.isDom e.isCov e.pessDom (depthOf s) c.maxDepth s.latch
      hw.nodupS hw.nodupP hw.disj
    have R := adRound_inv e.isDom e.isCov e.pessDom (depthOf s) c.maxDepth s.latch s.S s.P
      I.pdepth I.latchS
    have hw1 : WF c { s with
        S := (vogpADRound e.isDom e.isCov e.pessDom (depthOf s) c.maxDepth s.latch s.S s.P).1
        P := (vogpADRound e.isDom e.isCov e.pessDom (depthOf s) c.maxDepth s.latch s.S s.P).2.1
        latch := (vogpADRound e.isDom e.isCov e.pessDom (depthOf s) c.maxDepth s.latch s.S s.P).2.2 } := by
      refine ⟨T.nodupS, T.nodupP, T.disj, ?_, ?_, fun h => hw.noU h⟩
      · intro i hi
        have : i ∈ s.U := hi
        rw [hw.noU hc] at this
        cases this
      · intro _ i hi
        rcases hi with h | h
        · exact hw.bound hc i (Or.inl (T.sub.subset h))
        · exact hw.bound hc i ((T.from_ i h).symm)
    have I1 : ADInv c { s with
        S := (vogpADRound e.isDom e.isCov e.pessDom (depthOf s) c.maxDepth s.latch s.S s.P).1
        P := (vogpADRound e.isDom e.isCov e.pessDom (depthOf s) c.maxDepth s.latch s.S s.P).2.1
        latch := (vogpADRound e.isDom e.isCov e.pessDom (depthOf s) c.maxDepth s.latch s.S s.P).2.2 } :=
      ⟨R.1, R.2⟩
    simp only [adActive]
    split
    · exact ⟨⟨R.1, R.2⟩, T.keep, fun d h => by cases h⟩
    · obtain ⟨a1, a2, a3⟩ := applyChoice_inv c _ e hc hw1 I1
      refine ⟨a1, fun p hp => a2 p (T.keep p hp), fun d hd => T.sub.subset (a3 d hd)⟩
  · rw [step_of_done e h]
    exact ⟨I, fun p hp => hp, fun d hd => by simp [doneOut] at hd⟩

/-- whole runs: invariant, literal monotonicity of `P`, refined nodes were candidates -/
theorem ad_run_inv (c : Cfg) (s : State) (es : List Env) (hc : c.alg = .vogpAD) (hw : WF c s)
    (I : ADInv c s) :
    ADInv c (run c s es).1 ∧ (∀ p ∈ s.P, p ∈ (run c s es).1.P) ∧
    (∀ o ∈ (run c s es).2, ∀ d, o.refined = some d → d ∉ s.P) := by
  have hel : c.alg.elim = true := by simp [hc, Alg.elim]
  induction es generalizing s with
  | nil => exact ⟨I, fun p hp => hp, fun o ho => by cases ho⟩
  | cons e es ih =>
    rw [run_cons]
    obtain ⟨I1, k1, r1⟩ := ad_step_inv c s e hc hw I
    obtain ⟨I2, k2, r2⟩ := ih _ (wf_step c s e hw hel) I1
    refine ⟨I2, fun p hp => k2 p (k1 p hp), ?_⟩
    intro o ho d hd
    rcases List.mem_cons.mp ho with h | h
    · subst h
      exact fun hp => hw.disj d (r1 d hd) hp
    · exact fun hp => r2 o h d hd (k1 d hp)

end VOPy.Run
