import VOPyVerif.Proofs.Acq
/-! Helper lemmas for C07, decoupled optimiser: the top-`q` of the union of per-objective top-`q`
lists is the top-`q` of everything; selected pairs are distinct valid table cells. -/
namespace VOPy.Acq

/-- A descending list `T` that, together with some `rest` it dominates, makes up `L` is the
beginning of the descending sort of `L`. -/
theorem top_unique {T rest L : List Rat} (hperm : (T ++ rest).Perm L) (hT : T.Pairwise (· ≥ ·))
    (hdom : ∀ a ∈ T, ∀ b ∈ rest, b ≤ a) : T = (sortDesc L).take T.length := by
  have hdesc : (T ++ sortDesc rest).Pairwise (· ≥ ·) := by
    refine List.pairwise_append.mpr ⟨hT, sortDesc_pairwise _, ?_⟩
    intro a ha b hb
    exact hdom a ha b ((sortDesc_perm _).mem_iff.mp hb)
  have hp : (T ++ sortDesc rest).Perm (sortDesc L) :=
    ((List.Perm.append_left T (sortDesc_perm rest)).trans hperm).trans (sortDesc_perm L).symm
  rw [← eq_of_perm_of_desc hdesc (sortDesc_pairwise _) hp, List.take_left' rfl]

theorem countP_lt_length_of_mem {p : Rat → Bool} {l : List Rat} {a : Rat} (ha : a ∈ l)
    (hpa : p a = false) : l.countP p < l.length := by
  refine lt_of_le_of_ne List.countP_le_length ?_
  intro h
  have := List.countP_eq_length.mp h a ha
  rw [hpa] at this
  exact Bool.false_ne_true this

/-- merging step: replacing a block by its own top-`q` does not change the overall top-`q` -/
theorem take_sortDesc_merge (q : Nat) (A B : List Rat) :
    (sortDesc ((sortDesc A).take q ++ B)).take q = (sortDesc (A ++ B)).take q := by
  by_cases hA : A.length ≤ q
  · have h : (sortDesc A).take q = sortDesc A :=
      List.take_of_length_le (by rw [sortDesc_length]; exact hA)
    rw [h, sortDesc_congr ((sortDesc_perm A).append_right B)]
  · have hA : q < A.length := by omega
    set S := sortDesc A with hS
    set TA := S.take q with hTA
    set DA := S.drop q with hDA
    have hTAlen : TA.length = q := by
      rw [hTA, List.length_take, hS, sortDesc_length]; omega
    have hSsplit : TA ++ DA = S := List.take_append_drop q S
    have hSpw : (TA ++ DA).Pairwise (· ≥ ·) := by rw [hSsplit]; exact sortDesc_pairwise A
    set X := sortDesc (TA ++ B) with hX
    set R := X.take q with hR
    set R' := X.drop q with hR'
    have hXsplit : R ++ R' = X := List.take_append_drop q X
    have hXpw : (R ++ R').Pairwise (· ≥ ·) := by rw [hXsplit]; exact sortDesc_pairwise _
    have hXlen : X.length = q + B.length := by
      rw [hX, sortDesc_length, List.length_append, hTAlen]
    have hRlen : R.length = q := by rw [hR, List.length_take, hXlen]; omega
    have hperm : (R ++ (R' ++ DA)).Perm (A ++ B) := by
      rw [← List.append_assoc, hXsplit]
      have h1 : (X ++ DA).Perm ((TA ++ B) ++ DA) := (sortDesc_perm _).append_right DA
      have h2 : ((TA ++ B) ++ DA).Perm ((TA ++ DA) ++ B) := by
        rw [List.append_assoc, List.append_assoc]
        exact List.Perm.append_left TA List.perm_append_comm
      rw [hSsplit] at h2
      exact (h1.trans h2).trans ((sortDesc_perm A).append_right B)
    have hdom : ∀ a ∈ R, ∀ b ∈ R' ++ DA, b ≤ a := by
      intro a ha b hb
      rcases List.mem_append.mp hb with hb | hb
      · exact (List.pairwise_append.mp hXpw).2.2 a ha b hb
      · by_contra hlt
        have hlt : a < b := not_le.mp hlt
        let p : Rat → Bool := fun x => decide (a < x)
        have hTAall : TA.countP p = TA.length := by
          refine List.countP_eq_length.mpr ?_
          intro t ht
          have : t ≥ b := (List.pairwise_append.mp hSpw).2.2 t ht b hb
          simp only [p, decide_eq_true_eq]
          exact lt_of_lt_of_le hlt this
        have hXcount : X.countP p = (TA ++ B).countP p := (sortDesc_perm _).countP_eq p
        have hR'zero : R'.countP p = 0 := by
          refine List.countP_eq_zero.mpr ?_
          intro r hr
          have : a ≥ r := (List.pairwise_append.mp hXpw).2.2 a ha r hr
          simp only [p, decide_eq_true_eq, not_lt]
          exact this
        have hRlt : R.countP p < R.length :=
          countP_lt_length_of_mem ha (by simp [p])
        have : X.countP p = R.countP p + R'.countP p := by
          rw [← hXsplit, List.countP_append]
        rw [hXcount, List.countP_append, hTAall, hTAlen, hR'zero] at this
        omega
    have hRpw : R.Pairwise (· ≥ ·) := (List.pairwise_append.mp hXpw).1
    have := top_unique hperm hRpw hdom
    rw [hRlen] at this
    exact this

/-- the top-`q` of the concatenated per-row top-`q` lists is the top-`q` of all rows -/
theorem take_sortDesc_flatten (q : Nat) : ∀ rows : List (List Rat),
    (sortDesc (rows.map (fun r => (sortDesc r).take q)).flatten).take q
      = (sortDesc rows.flatten).take q
  | [] => rfl
  | A :: rest => by
    have ih := take_sortDesc_flatten q rest
    set RC := (rest.map (fun r => (sortDesc r).take q)).flatten with hRC
    set FL := rest.flatten with hFL
    simp only [List.map_cons, List.flatten_cons]
    rw [← hRC, ← hFL]
    calc (sortDesc ((sortDesc A).take q ++ RC)).take q
        = (sortDesc (A ++ RC)).take q := take_sortDesc_merge q A RC
      _ = (sortDesc (RC ++ A)).take q := by rw [sortDesc_congr List.perm_append_comm]
      _ = (sortDesc ((sortDesc RC).take q ++ A)).take q := (take_sortDesc_merge q RC A).symm
      _ = (sortDesc ((sortDesc FL).take q ++ A)).take q := by rw [ih]
      _ = (sortDesc (FL ++ A)).take q := take_sortDesc_merge q FL A
      _ = (sortDesc (A ++ FL)).take q := by rw [sortDesc_congr List.perm_append_comm]

/-! ## `optimizeDiscrete` facts used below -/

theorem optimizeDiscrete_values (vals : List Rat) (q : Nat) :
    (optimizeDiscrete vals q).map (·.2) = (sortDesc vals).take q := by
  rw [optimizeDiscrete, pickLoop_values, indexed_map_snd]

theorem optimizeDiscrete_mem {vals : List Rat} {q : Nat} {p : Nat × Rat}
    (hp : p ∈ optimizeDiscrete vals q) : vals[p.1]? = some p.2 := by
  obtain ⟨rest, hperm, _⟩ := pickLoop_split q (indexed vals)
  exact mem_indexed.mp (hperm.mem_iff.mp (List.mem_append_left _ hp))

theorem optimizeDiscrete_pos_nodup (vals : List Rat) (q : Nat) :
    ((optimizeDiscrete vals q).map (·.1)).Nodup := by
  obtain ⟨rest, hperm, _⟩ := pickLoop_split q (indexed vals)
  have h1 : ((indexed vals).map (·.1)).Nodup := by
    have := indexed_pairwise vals
    rw [List.Nodup, List.pairwise_map]
    exact this.imp (fun h => ne_of_lt h)
  have h2 := (hperm.map (·.1)).nodup_iff.mpr h1
  rw [List.map_append] at h2
  exact (List.nodup_append.mp h2).1

theorem optimizeDiscrete_length (vals : List Rat) (q : Nat) :
    (optimizeDiscrete vals q).length = min q vals.length := by
  obtain ⟨rest, _, _, _, hlen⟩ := pickLoop_split q (indexed vals)
  rw [optimizeDiscrete, hlen, indexed_length]

theorem optimizeDiscrete_pairwise (vals : List Rat) (q : Nat) :
    (optimizeDiscrete vals q).Pairwise (fun a b => b.2 ≤ a.2) := by
  obtain ⟨rest, _, _, hpw, _⟩ := pickLoop_split q (indexed vals)
  exact hpw

/-! ## decoupled candidates -/

theorem decoupledCandidates_vals (q : Nat) : ∀ (j : Nat) (rows : List (List Rat)),
    (decoupledCandidates j rows q).map (·.val) = (rows.map (fun r => (sortDesc r).take q)).flatten
  | _, [] => rfl
  | j, row :: rows => by
    simp only [decoupledCandidates, List.map_append, List.map_map, List.map_cons, List.flatten_cons]
    rw [decoupledCandidates_vals q (j + 1) rows]
    congr 1
    have := optimizeDiscrete_values row q
    simpa [Function.comp_def] using this

/-- every candidate is a cell of the table carrying its own value; objectives are counted from `j` -/
theorem decoupledCandidates_mem (q : Nat) : ∀ (j : Nat) (rows : List (List Rat)) (e : Entry),
    e ∈ decoupledCandidates j rows q →
    j ≤ e.obj ∧ ∃ row, rows[e.obj - j]? = some row ∧ row[e.pos]? = some e.val
  | _, [], e, h => by simp [decoupledCandidates] at h
  | j, row :: rows, e, h => by
    simp only [decoupledCandidates, List.mem_append, List.mem_map] at h
    rcases h with ⟨p, hp, rfl⟩ | h
    · exact ⟨le_refl _, row, by simp, optimizeDiscrete_mem hp⟩
    · obtain ⟨hj, r, hr, hv⟩ := decoupledCandidates_mem q (j + 1) rows e h
      refine ⟨by omega, r, ?_, hv⟩
      have : e.obj - j = (e.obj - (j + 1)) + 1 := by omega
      rw [this, List.getElem?_cons_succ]
      exact hr

theorem decoupledCandidates_keys_nodup (q : Nat) : ∀ (j : Nat) (rows : List (List Rat)),
    ((decoupledCandidates j rows q).map (fun e => (e.pos, e.obj))).Nodup
  | _, [] => by simp [decoupledCandidates]
  | j, row :: rows => by
    simp only [decoupledCandidates, List.map_append, List.map_map]
    refine List.nodup_append.mpr ⟨?_, decoupledCandidates_keys_nodup q (j + 1) rows, ?_⟩
    · have := optimizeDiscrete_pos_nodup row q
      have hinj : ((optimizeDiscrete row q).map (·.1)).map (fun i => (i, j)) =
          (optimizeDiscrete row q).map ((fun e : Entry => (e.pos, e.obj)) ∘ fun p => ⟨p.1, j, p.2⟩) := by
        simp [List.map_map, Function.comp_def]
      rw [← hinj]
      exact this.map (fun a b h => by simpa using h)
    · intro a ha b hb hab
      subst hab
      obtain ⟨p, _, rfl⟩ := List.mem_map.mp ha
      obtain ⟨e, he, heq⟩ := List.mem_map.mp hb
      have := (decoupledCandidates_mem q (j + 1) rows e he).1
      simp only [Function.comp_apply, Prod.mk.injEq] at heq
      omega

/-! ## the selection stage -/

theorem filterMap_getElem?_map {cands : List Entry} : ∀ (l : List (Nat × Rat)),
    (∀ p ∈ l, (cands.map (·.val))[p.1]? = some p.2) →
    (l.filterMap (fun p => cands[p.1]?)).map (·.val) = l.map (·.2) ∧
    (l.filterMap (fun p => cands[p.1]?)).map (fun e => (e.pos, e.obj)) =
      l.filterMap (fun p => (cands.map (fun e => (e.pos, e.obj)))[p.1]?) ∧
    ∀ e ∈ l.filterMap (fun p => cands[p.1]?), e ∈ cands
  | [], _ => by simp
  | p :: l, h => by
    have hp := h p (List.mem_cons_self)
    obtain ⟨ih1, ih2, ih3⟩ := filterMap_getElem?_map l (fun x hx => h x (List.mem_cons_of_mem _ hx))
    rw [List.getElem?_map] at hp
    cases hc : cands[p.1]? with
    | none => rw [hc] at hp; simp at hp
    | some c =>
      rw [hc] at hp
      simp only [Option.map_some, Option.some.injEq] at hp
      refine ⟨?_, ?_, ?_⟩
      · simp only [List.filterMap_cons, hc, List.map_cons, ih1, hp]
      · simp only [List.filterMap_cons, hc, List.map_cons, ih2, List.getElem?_map, Option.map_some]
      · intro e he
        simp only [List.filterMap_cons, hc, List.mem_cons] at he
        rcases he with rfl | he
        · exact List.mem_of_getElem? hc
        · exact ih3 e he

/-- values of the decoupled batch: the first `q` entries of the descending sort of all cells -/
theorem optimizeDecoupled_values (table : List (List Rat)) (q : Nat) :
    (optimizeDecoupled table q).map (·.val) = (sortDesc table.flatten).take q := by
  simp only [optimizeDecoupled]
  set cands := decoupledCandidates 0 table q with hc
  have h := filterMap_getElem?_map (cands := cands) (optimizeDiscrete (cands.map (·.val)) q)
    (fun p hp => optimizeDiscrete_mem hp)
  rw [h.1, optimizeDiscrete_values, hc, decoupledCandidates_vals, take_sortDesc_flatten]

theorem optimizeDecoupled_mem {table : List (List Rat)} {q : Nat} {e : Entry}
    (he : e ∈ optimizeDecoupled table q) : tableAt table e.pos e.obj = some e.val := by
  simp only [optimizeDecoupled] at he
  set cands := decoupledCandidates 0 table q with hc
  have h := filterMap_getElem?_map (cands := cands) (optimizeDiscrete (cands.map (·.val)) q)
    (fun p hp => optimizeDiscrete_mem hp)
  obtain ⟨_, row, hrow, hv⟩ := decoupledCandidates_mem q 0 table e (h.2.2 e he)
  simp only [Nat.sub_zero] at hrow
  simp only [tableAt, hrow, hv]

theorem nodup_filterMap_getElem? {β : Type} {keys : List β} (hk : keys.Nodup) :
    ∀ (idx : List Nat), idx.Nodup → (idx.filterMap (fun i => keys[i]?)).Nodup
  | [], _ => by simp
  | i :: idx, h => by
    have hi := List.nodup_cons.mp h
    have ih := nodup_filterMap_getElem? hk idx hi.2
    cases hki : keys[i]? with
    | none => simpa [List.filterMap_cons, hki] using ih
    | some k =>
      simp only [List.filterMap_cons, hki]
      refine List.nodup_cons.mpr ⟨?_, ih⟩
      intro hmem
      obtain ⟨i', hi', hk'⟩ := List.mem_filterMap.mp hmem
      have h1 := List.getElem?_eq_some_iff.mp hki
      have h2 := List.getElem?_eq_some_iff.mp hk'
      have : i = i' := by
        have := (List.Nodup.getElem_inj_iff hk (hi := h1.1) (hj := h2.1)).mp (h1.2.trans h2.2.symm)
        exact this
      subst this
      exact hi.1 hi'

theorem optimizeDecoupled_keys_nodup (table : List (List Rat)) (q : Nat) :
    ((optimizeDecoupled table q).map (fun e => (e.pos, e.obj))).Nodup := by
  simp only [optimizeDecoupled]
  set cands := decoupledCandidates 0 table q with hc
  have h := filterMap_getElem?_map (cands := cands) (optimizeDiscrete (cands.map (·.val)) q)
    (fun p hp => optimizeDiscrete_mem hp)
  rw [h.2.1]
  have hk := decoupledCandidates_keys_nodup q 0 table
  have hn := optimizeDiscrete_pos_nodup (cands.map (·.val)) q
  have := nodup_filterMap_getElem? hk _ hn
  rw [List.filterMap_map] at this
  exact this

theorem optimizeDecoupled_pairwise (table : List (List Rat)) (q : Nat) :
    (optimizeDecoupled table q).Pairwise (fun a b => b.val ≤ a.val) := by
  have h := optimizeDecoupled_values table q
  have hs : ((sortDesc table.flatten).take q).Pairwise (· ≥ ·) :=
    (sortDesc_pairwise _).sublist (List.take_sublist _ _)
  rw [← h, List.pairwise_map] at hs
  exact hs

end VOPy.Acq
