import VOPyVerif.Model.Adaptive
import Mathlib.Algebra.Order.Field.Basic
import Mathlib.Data.Rat.Cast.Order
import Mathlib.Tactic.Linarith
import Mathlib.Tactic.Ring
import Mathlib.Tactic.FieldSimp
/-!
# Geometry of one refinement (`childCells`) — helper lemmas for C18

Points live in `List K` for an ordered field `K` (ℚ, ℝ, …); the rational cell ends of the model are
cast into `K`.  `InCell x c` : `x` has as many coordinates as `c` and `lo ≤ xₖ ≤ hi` in every
dimension; `InInt x c` : the same with strict inequalities (the open box).
-/
set_option linter.unusedSectionVars false
namespace VOPy.Adaptive

variable {K : Type*} [Field K] [LinearOrder K] [IsStrictOrderedRing K]

/-- `x` lies in the closed box `c` (and has the same number of coordinates) -/
def InCell : List K → Cell → Prop
  | [], [] => True
  | xi :: x, p :: c => (((p.1 : Rat) : K) ≤ xi ∧ xi ≤ ((p.2 : Rat) : K)) ∧ InCell x c
  | _, _ => False

/-- `x` lies in the open box `c` (and has the same number of coordinates) -/
def InInt : List K → Cell → Prop
  | [], [] => True
  | xi :: x, p :: c => (((p.1 : Rat) : K) < xi ∧ xi < ((p.2 : Rat) : K)) ∧ InInt x c
  | _, _ => False

@[simp] theorem inCell_nil : InCell ([] : List K) [] = True := rfl
@[simp] theorem inCell_cons (xi : K) (x : List K) (p : Rat × Rat) (c : Cell) :
    InCell (xi :: x) (p :: c) = ((((p.1 : Rat) : K) ≤ xi ∧ xi ≤ ((p.2 : Rat) : K)) ∧ InCell x c) := rfl
@[simp] theorem inCell_nil_cons (p : Rat × Rat) (c : Cell) : InCell ([] : List K) (p :: c) = False := rfl
@[simp] theorem inCell_cons_nil (xi : K) (x : List K) : InCell (xi :: x) [] = False := rfl
@[simp] theorem inInt_nil : InInt ([] : List K) [] = True := rfl
@[simp] theorem inInt_cons (xi : K) (x : List K) (p : Rat × Rat) (c : Cell) :
    InInt (xi :: x) (p :: c) = ((((p.1 : Rat) : K) < xi ∧ xi < ((p.2 : Rat) : K)) ∧ InInt x c) := rfl
@[simp] theorem inInt_nil_cons (p : Rat × Rat) (c : Cell) : InInt ([] : List K) (p :: c) = False := rfl
@[simp] theorem inInt_cons_nil (xi : K) (x : List K) : InInt (xi :: x) [] = False := rfl

theorem InCell.length_eq : ∀ {x : List K} {c : Cell}, InCell x c → x.length = c.length
  | [], [], _ => rfl
  | _ :: x, _ :: c, h => by
      simp only [inCell_cons] at h
      simp [InCell.length_eq h.2]
  | [], _ :: _, h => by simp at h
  | _ :: _, [], h => by simp at h

theorem InInt.inCell : ∀ {x : List K} {c : Cell}, InInt x c → InCell x c
  | [], [], _ => trivial
  | _ :: x, _ :: c, h => by
      simp only [inInt_cons] at h
      simp only [inCell_cons]
      exact ⟨⟨le_of_lt h.1.1, le_of_lt h.1.2⟩, InInt.inCell h.2⟩
  | [], _ :: _, h => by simp at h
  | _ :: _, [], h => by simp at h

/-- the cast of the midpoint, with the division cleared -/
theorem two_mul_mid_cast (p : Rat × Rat) :
    2 * ((mid p : Rat) : K) = ((p.1 : Rat) : K) + ((p.2 : Rat) : K) := by
  unfold mid
  push_cast
  ring

/-! ## `childCells` unfolded -/

theorem childCells_nil : childCells [] = [[]] := rfl

theorem childCells_cons (p : Rat × Rat) (c : Cell) :
    childCells (p :: c) =
      (childCells c).map (fun t => (p.1, mid p) :: t) ++ (childCells c).map (fun t => (mid p, p.2) :: t) := by
  simp [childCells, prodCells, halves]

theorem mem_childCells_cons {p : Rat × Rat} {c : Cell} {c' : Cell} (h : c' ∈ childCells (p :: c)) :
    ∃ t ∈ childCells c, c' = (p.1, mid p) :: t ∨ c' = (mid p, p.2) :: t := by
  rw [childCells_cons] at h
  simp only [List.mem_append, List.mem_map] at h
  rcases h with ⟨t, ht, rfl⟩ | ⟨t, ht, rfl⟩
  · exact ⟨t, ht, Or.inl rfl⟩
  · exact ⟨t, ht, Or.inr rfl⟩

/-- exactly `2^d` children -/
theorem childCells_length (c : Cell) : (childCells c).length = 2 ^ c.length := by
  induction c with
  | nil => rfl
  | cons p c ih =>
    rw [childCells_cons]
    simp only [List.length_append, List.length_map, ih, List.length_cons]
    omega

/-- every child cell has as many dimensions as the parent -/
theorem length_of_mem_childCells : ∀ {c c' : Cell}, c' ∈ childCells c → c'.length = c.length
  | [], c', h => by
      rw [childCells_nil] at h
      simp only [List.mem_singleton] at h
      simp [h]
  | p :: c, c', h => by
      obtain ⟨t, ht, h' | h'⟩ := mem_childCells_cons h <;>
        simp [h', length_of_mem_childCells ht]

/-- every child has half the parent's side length in every dimension -/
theorem sides_of_mem_childCells : ∀ {c c' : Cell}, c' ∈ childCells c →
    c'.map (fun q => q.2 - q.1) = c.map (fun p => (p.2 - p.1) / 2)
  | [], c', h => by
      rw [childCells_nil] at h
      simp only [List.mem_singleton] at h
      simp [h]
  | p :: c, c', h => by
      obtain ⟨t, ht, h' | h'⟩ := mem_childCells_cons h
      · subst h'
        simp only [List.map_cons, sides_of_mem_childCells ht, List.cons.injEq, and_true]
        unfold mid; ring
      · subst h'
        simp only [List.map_cons, sides_of_mem_childCells ht, List.cons.injEq, and_true]
        unfold mid; ring

/-- the children cover the parent cell -/
theorem exists_child_of_inCell : ∀ {c : Cell} {x : List K}, InCell x c →
    ∃ c' ∈ childCells c, InCell x c'
  | [], [], _ => ⟨[], by simp [childCells_nil], trivial⟩
  | [], _ :: _, h => by simp at h
  | p :: c, [], h => by simp at h
  | p :: c, xi :: x, h => by
      simp only [inCell_cons] at h
      obtain ⟨t, ht, hxt⟩ := exists_child_of_inCell h.2
      have hm := two_mul_mid_cast (K := K) p
      rcases le_total xi ((mid p : Rat) : K) with hle | hle
      · refine ⟨(p.1, mid p) :: t, ?_, ?_⟩
        · rw [childCells_cons]; exact List.mem_append_left _ (List.mem_map_of_mem ht)
        · simp only [inCell_cons]; exact ⟨⟨h.1.1, hle⟩, hxt⟩
      · refine ⟨(mid p, p.2) :: t, ?_, ?_⟩
        · rw [childCells_cons]; exact List.mem_append_right _ (List.mem_map_of_mem ht)
        · simp only [inCell_cons]; exact ⟨⟨hle, h.1.2⟩, hxt⟩

/-- every child cell is contained in the parent cell -/
theorem inCell_of_child : ∀ {c c' : Cell} {x : List K}, c' ∈ childCells c → InCell x c' → InCell x c
  | [], c', x, h, hx => by
      rw [childCells_nil] at h
      simp only [List.mem_singleton] at h
      subst h; exact hx
  | p :: c, c', x, h, hx => by
      have hm := two_mul_mid_cast (K := K) p
      obtain ⟨t, ht, h' | h'⟩ := mem_childCells_cons h
      · subst h'
        cases x with
        | nil => simp at hx
        | cons xi x =>
          simp only [inCell_cons] at hx ⊢
          refine ⟨⟨hx.1.1, ?_⟩, inCell_of_child ht hx.2⟩
          linarith [hx.1.1, hx.1.2]
      · subst h'
        cases x with
        | nil => simp at hx
        | cons xi x =>
          simp only [inCell_cons] at hx ⊢
          refine ⟨⟨?_, hx.1.2⟩, inCell_of_child ht hx.2⟩
          linarith [hx.1.1, hx.1.2]

/-- the open child box is contained in the open parent box -/
theorem inInt_of_child : ∀ {c c' : Cell} {x : List K}, c' ∈ childCells c → InInt x c' → InInt x c
  | [], c', x, h, hx => by
      rw [childCells_nil] at h
      simp only [List.mem_singleton] at h
      subst h; exact hx
  | p :: c, c', x, h, hx => by
      have hm := two_mul_mid_cast (K := K) p
      obtain ⟨t, ht, h' | h'⟩ := mem_childCells_cons h
      · subst h'
        cases x with
        | nil => simp at hx
        | cons xi x =>
          simp only [inInt_cons] at hx ⊢
          refine ⟨⟨hx.1.1, ?_⟩, inInt_of_child ht hx.2⟩
          linarith [hx.1.1, hx.1.2]
      · subst h'
        cases x with
        | nil => simp at hx
        | cons xi x =>
          simp only [inInt_cons] at hx ⊢
          refine ⟨⟨?_, hx.1.2⟩, inInt_of_child ht hx.2⟩
          linarith [hx.1.1, hx.1.2]

/-- two boxes share no interior point -/
def IntDisjoint (K : Type*) [Field K] [LinearOrder K] [IsStrictOrderedRing K] (a b : Cell) : Prop :=
  ∀ x : List K, ¬ (InInt x a ∧ InInt x b)

theorem IntDisjoint.symm {a b : Cell} (h : IntDisjoint K a b) : IntDisjoint K b a :=
  fun x hx => h x ⟨hx.2, hx.1⟩

theorem IntDisjoint.cons {a b : Cell} (h : IntDisjoint K a b) (q : Rat × Rat) :
    IntDisjoint K (q :: a) (q :: b) := by
  intro x hx
  cases x with
  | nil => simp at hx
  | cons xi x =>
    simp only [inInt_cons] at hx
    exact h x ⟨hx.1.2, hx.2.2⟩

/-- distinct children have disjoint interiors -/
theorem childCells_pairwise (K : Type*) [Field K] [LinearOrder K] [IsStrictOrderedRing K] (c : Cell) :
    (childCells c).Pairwise (IntDisjoint K) := by
  induction c with
  | nil => simp [childCells_nil]
  | cons p c ih =>
    rw [childCells_cons, List.pairwise_append]
    refine ⟨?_, ?_, ?_⟩
    · rw [List.pairwise_map]
      exact ih.imp (fun h => h.cons _)
    · rw [List.pairwise_map]
      exact ih.imp (fun h => h.cons _)
    · intro a ha b hb x hx
      simp only [List.mem_map] at ha hb
      obtain ⟨t, _, rfl⟩ := ha
      obtain ⟨t', _, rfl⟩ := hb
      cases x with
      | nil => simp at hx
      | cons xi x =>
        simp only [inInt_cons] at hx
        exact absurd hx.1.1.2 (not_lt.mpr (le_of_lt hx.2.1.1))

/-- the children's volumes add up to the parent's -/
theorem childCells_vol_sum (c : Cell) : ((childCells c).map vol).sum = vol c := by
  induction c with
  | nil => simp [childCells_nil, vol]
  | cons p c ih =>
    have h1 : ∀ (q : Rat × Rat) (l : List Cell),
        ((l.map (fun t => q :: t)).map vol).sum = (q.2 - q.1) * (l.map vol).sum := by
      intro q l
      induction l with
      | nil => simp
      | cons t l ihl =>
        simp only [List.map_cons, List.sum_cons, ihl, vol]
        ring
    rw [childCells_cons, List.map_append, List.sum_append, h1, h1, ih]
    simp only [vol]
    unfold mid
    ring

end VOPy.Adaptive
