import VOPyVerif.Proofs.AdaptiveAlgo
/-!
# Node points are pairwise distinct — helper lemmas for C18

`evaluate_refine` finds the candidate's index by comparing its point with every row of `points`
(`np.where(np.all(points == candidate_pt, axis=1))[0].item()`); this is unambiguous because no two
nodes of the tree share a point.  Proved through the stronger invariant "the only node point in the
interior of a leaf's cell is that leaf's own centre".
-/
set_option linter.unusedSectionVars false
namespace VOPy.Adaptive

def Space.pointAt (s : Space) (i : Nat) : Option (List Rat) := (s.nodes[i]?).map Node.point

structure Space.PointsOk (s : Space) : Prop where
  /-- distinct nodes have distinct points -/
  inj : ∀ i j x, s.pointAt i = some x → s.pointAt j = some x → i = j
  /-- the only node point inside a leaf's open cell is the leaf's own -/
  own : ∀ e l x c, s.pointAt e = some x → s.isLeaf l = true → s.cellAt l = some c →
    InInt (K := ℚ) x c → e = l

theorem inInt_centre : ∀ {c : Cell}, (∀ q ∈ c, q.1 < q.2) → InInt (K := ℚ) (centre c) c
  | [], _ => trivial
  | p :: c, h => by
      simp only [centre, List.map_cons, inInt_cons, Rat.cast_id]
      have hp := h p List.mem_cons_self
      refine ⟨⟨?_, ?_⟩, inInt_centre (fun q hq => h q (List.mem_cons_of_mem _ hq))⟩
      · unfold mid; linarith
      · unfold mid; linarith

theorem not_inInt_centre_child {c c' : Cell} (hne : c ≠ []) (hc : c' ∈ childCells c) :
    ¬ InInt (K := ℚ) (centre c) c' := by
  cases c with
  | nil => exact absurd rfl hne
  | cons p c =>
    obtain ⟨t, _, h | h⟩ := mem_childCells_cons hc
    · subst h
      simp only [centre, List.map_cons, inInt_cons, Rat.cast_id]
      intro hx; exact lt_irrefl _ hx.1.2
    · subst h
      simp only [centre, List.map_cons, inInt_cons, Rat.cast_id]
      intro hx; exact lt_irrefl _ hx.1.1

theorem children_point_getElem? (p : Node) (a : Nat) :
    ((children p)[a]?).map Node.point = ((childCells p.cell)[a]?).map centre := by
  simp only [children, List.getElem?_map, Option.map_map]
  cases (childCells p.cell)[a]? <;> simp [mkChild]

theorem refine_pointAt_old {s s' : Space} {p : Node} (hs : s'.nodes = s.nodes ++ children p) {j : Nat}
    (hj : j < s.nodes.length) : s'.pointAt j = s.pointAt j := by
  simp [Space.pointAt, hs, List.getElem?_append_left hj]

theorem refine_pointAt_new {s s' : Space} {p : Node} (hs : s'.nodes = s.nodes ++ children p) {j : Nat}
    (hj : s.nodes.length ≤ j) :
    s'.pointAt j = ((childCells p.cell)[j - s.nodes.length]?).map centre := by
  simp only [Space.pointAt, hs, List.getElem?_append_right hj]
  exact children_point_getElem? p _

theorem pos_sides_of_wf {d : Nat} {s : Space} (hwf : s.WF d) {n : Node} (hn : n ∈ s.nodes) :
    ∀ q ∈ n.cell, q.1 < q.2 := by
  intro q hq
  have h := hwf.side n hn q hq
  have hpos : (0 : Rat) < 1 / 2 ^ (n.depth - 1) := by positivity
  linarith

theorem refine_pointsOk {d : Nat} {s s' : Space} {i : Nat} {ch : List Nat} (hd : 1 ≤ d) (hwf : s.WF d)
    (ht : s.Tiles ℚ d) (hpo : s.PointsOk) (hleaf : s.isLeaf i = true)
    (h : s.refine i = some (s', ch)) : s'.PointsOk := by
  obtain ⟨p, hp, hs, _⟩ := Space.refine_eq h
  obtain ⟨hn, hr, _⟩ := refine_nodes hp hs
  have hi := lt_of_getElem?_some hp
  have hpm : p ∈ s.nodes := List.mem_of_getElem? hp
  have hleaf' := refine_isLeaf (p := p) hwf.refinedLt hi hn hr
  have hci : s.cellAt i = some p.cell := by simp [Space.cellAt, hp]
  have hpi : s.pointAt i = some (centre p.cell) := by
    simp [Space.pointAt, hp, hwf.centre p hpm]
  have hwf' := refine_wf hwf h
  have hcne : p.cell ≠ [] := by
    intro h0
    have := hwf.cellLen p hpm
    rw [h0] at this; simp at this; omega
  -- a child cell has positive sides, so its centre is in its interior, hence in the parent's
  have hchild : ∀ c', c' ∈ childCells p.cell →
      InInt (K := ℚ) (centre c') c' ∧ InInt (K := ℚ) (centre c') p.cell := by
    intro c' hc'
    have hmem : mkChild p c' ∈ s'.nodes := by
      rw [hn]; exact List.mem_append_right _ (List.mem_map_of_mem hc')
    have h1 := inInt_centre (pos_sides_of_wf hwf' hmem)
    exact ⟨h1, inInt_of_child hc' h1⟩
  have hpw := List.pairwise_iff_getElem.mp (childCells_pairwise ℚ p.cell)
  -- two children whose interiors share a point are the same child
  have hsame : ∀ (a b : Nat) (ca cb : Cell) (x : List ℚ), (childCells p.cell)[a]? = some ca →
      (childCells p.cell)[b]? = some cb → InInt x ca → InInt x cb → a = b := by
    intro a b ca cb x ha hb hxa hxb
    obtain ⟨ha', hca⟩ := List.getElem?_eq_some_iff.mp ha
    obtain ⟨hb', hcb⟩ := List.getElem?_eq_some_iff.mp hb
    by_contra hab
    rcases Nat.lt_or_gt_of_ne hab with hlt | hlt
    · have := hpw a b ha' hb' hlt
      rw [hca, hcb] at this; exact this x ⟨hxa, hxb⟩
    · have := hpw b a hb' ha' hlt
      rw [hca, hcb] at this; exact this x ⟨hxb, hxa⟩
  -- an old node whose point is inside a child cell cannot exist
  have hold_new : ∀ e x c', e < s.nodes.length → s.pointAt e = some x → c' ∈ childCells p.cell →
      InInt (K := ℚ) x c' → False := by
    intro e x c' _ hpe hc' hx
    have hxp : InInt (K := ℚ) x p.cell := inInt_of_child hc' hx
    have hei : e = i := hpo.own e i x p.cell hpe hleaf hci hxp
    subst hei
    rw [hpi] at hpe; cases hpe
    exact not_inInt_centre_child hcne hc' hx
  refine ⟨?_, ?_⟩
  · intro j j' x hj hj'
    by_cases h1 : j < s.nodes.length <;> by_cases h2 : j' < s.nodes.length
    · rw [refine_pointAt_old hn h1] at hj
      rw [refine_pointAt_old hn h2] at hj'
      exact hpo.inj j j' x hj hj'
    · rw [refine_pointAt_old hn h1] at hj
      rw [refine_pointAt_new hn (Nat.le_of_not_lt h2)] at hj'
      obtain ⟨c', hc', rfl⟩ := Option.map_eq_some_iff.mp hj'
      exact absurd (hold_new j _ c' h1 hj (List.mem_of_getElem? hc') (hchild c' (List.mem_of_getElem? hc')).1) id
    · rw [refine_pointAt_new hn (Nat.le_of_not_lt h1)] at hj
      rw [refine_pointAt_old hn h2] at hj'
      obtain ⟨c', hc', rfl⟩ := Option.map_eq_some_iff.mp hj
      exact absurd (hold_new j' _ c' h2 hj' (List.mem_of_getElem? hc') (hchild c' (List.mem_of_getElem? hc')).1) id
    · rw [refine_pointAt_new hn (Nat.le_of_not_lt h1)] at hj
      rw [refine_pointAt_new hn (Nat.le_of_not_lt h2)] at hj'
      obtain ⟨ca, hca, hxa⟩ := Option.map_eq_some_iff.mp hj
      obtain ⟨cb, hcb, hxb⟩ := Option.map_eq_some_iff.mp hj'
      have := hsame _ _ ca cb x hca hcb (hxa ▸ (hchild ca (List.mem_of_getElem? hca)).1)
        (hxb ▸ (hchild cb (List.mem_of_getElem? hcb)).1)
      omega
  · intro e l x c hpe hl hc hx
    rw [hleaf'] at hl
    rcases hl with ⟨hl1, hl2, hli⟩ | ⟨hl1, _⟩
    · rw [refine_cellAt_old hn hl1] at hc
      by_cases h1 : e < s.nodes.length
      · rw [refine_pointAt_old hn h1] at hpe
        exact hpo.own e l x c hpe hl2 hc hx
      · rw [refine_pointAt_new hn (Nat.le_of_not_lt h1)] at hpe
        obtain ⟨cb, hcb, rfl⟩ := Option.map_eq_some_iff.mp hpe
        have hxp := (hchild cb (List.mem_of_getElem? hcb)).2
        exact absurd ⟨hxp, hx⟩ (ht.disjoint i l p.cell c hleaf hl2 (Ne.symm hli) hci hc _)
    · rw [refine_cellAt_new hn hl1] at hc
      have hcm : c ∈ childCells p.cell := List.mem_of_getElem? hc
      by_cases h1 : e < s.nodes.length
      · rw [refine_pointAt_old hn h1] at hpe
        exact absurd (hold_new e x c h1 hpe hcm hx) id
      · rw [refine_pointAt_new hn (Nat.le_of_not_lt h1)] at hpe
        obtain ⟨cb, hcb, rfl⟩ := Option.map_eq_some_iff.mp hpe
        have := hsame _ _ cb c _ hcb hc (hchild cb (List.mem_of_getElem? hcb)).1 hx
        omega

theorem setRegion_pointAt {s s' : Space} {i : Nat} {lo up : List Rat} (h : s.setRegion i lo up = some s')
    (j : Nat) : s'.pointAt j = s.pointAt j := by
  obtain ⟨p, hp, rfl⟩ := setRegion_eq h
  simp only [Space.pointAt, List.getElem?_set]
  split
  · rename_i hij; subst hij
    split
    · simp [hp]
    · rename_i hlt
      rw [List.getElem?_eq_none (Nat.le_of_not_lt hlt)]
  · rfl

theorem setRegion_pointsOk {s s' : Space} {i : Nat} {lo up : List Rat} (hpo : s.PointsOk)
    (h : s.setRegion i lo up = some s') : s'.PointsOk := by
  have hpt := setRegion_pointAt h
  have hl := setRegion_isLeaf h
  obtain ⟨_, _, _, hc, _, _⟩ := setRegion_facts h
  refine ⟨?_, ?_⟩
  · intro j j' x h1 h2
    rw [hpt] at h1 h2
    exact hpo.inj j j' x h1 h2
  · intro e l x c h1 h2 h3 h4
    rw [hpt] at h1; rw [hl] at h2; rw [hc] at h3
    exact hpo.own e l x c h1 h2 h3 h4

theorem root_pointsOk (d m md : Nat) : (Space.root d m md).PointsOk := by
  have hlen : ∀ j x, (Space.root d m md).pointAt j = some x → j = 0 := by
    intro j x h
    cases j with
    | zero => rfl
    | succ k => simp [Space.pointAt, Space.root] at h
  refine ⟨fun j j' x h1 h2 => by rw [hlen j x h1, hlen j' x h2], ?_⟩
  intro e l x c h1 h2 _ _
  have hl := ((Space.isLeaf_iff _ _).mp h2).1
  simp only [Space.root, List.length_singleton] at hl
  rw [hlen e x h1]; omega

end VOPy.Adaptive
