import VOPyVerif.Model.Problem
import VOPyVerif.Proofs.RealInst
import Mathlib.Tactic.Ring
import Mathlib.Tactic.Linarith
import Mathlib.Tactic.FieldSimp
/-! Helper lemmas for C20: the `RealLike` standardisation formula `standardiseF` at `ℝ`. -/
namespace VOPy.Problem

theorem sumF_real (l : List ℝ) : sumF l = l.sum := by
  induction l with
  | nil => simp [sumF]
  | cons x xs ih =>
    have : sumF (x :: xs) = x + sumF xs := rfl
    rw [this, ih, List.sum_cons]

theorem meanF_real (l : List ℝ) : meanF l = l.sum / (l.length : ℝ) := by
  unfold meanF
  rw [sumF_real]; rfl

theorem popVarF_real (l : List ℝ) :
    popVarF l = (l.map (fun x => (x - meanF l) * (x - meanF l))).sum / (l.length : ℝ) := by
  unfold popVarF
  rw [sumF_real]; rfl

theorem standardiseF_real (l : List ℝ) :
    standardiseF l = l.map (fun x => (x - meanF l) / Real.sqrt (popVarF l)) := rfl

theorem sum_map_affine_real (a b : ℝ) : ∀ l : List ℝ,
    (l.map (fun x => a * x + b)).sum = a * l.sum + b * l.length
  | [] => by simp
  | x :: xs => by
    have ih := sum_map_affine_real a b xs
    simp only [List.map_cons, List.sum_cons, List.length_cons, Nat.cast_succ] at ih ⊢
    rw [ih]; ring

theorem sum_map_congr_real {f g : ℝ → ℝ} : ∀ l : List ℝ, (∀ x ∈ l, f x = g x) →
    (l.map f).sum = (l.map g).sum
  | [], _ => rfl
  | x :: xs, h => by
    simp only [List.map_cons, List.sum_cons]
    rw [h x (by simp), sum_map_congr_real xs (fun y hy => h y (List.mem_cons_of_mem _ hy))]

theorem sum_map_smul_real (a : ℝ) (f : ℝ → ℝ) : ∀ l : List ℝ,
    (l.map (fun x => a * f x)).sum = a * (l.map f).sum
  | [] => by simp
  | x :: xs => by
    simp only [List.map_cons, List.sum_cons, sum_map_smul_real a f xs]; ring

theorem sum_sq_nonneg_real (f : ℝ → ℝ) : ∀ l : List ℝ, 0 ≤ (l.map (fun x => f x * f x)).sum
  | [] => by simp
  | x :: xs => by
    simp only [List.map_cons, List.sum_cons]
    have := sum_sq_nonneg_real f xs
    have := mul_self_nonneg (f x)
    linarith

theorem popVarF_nonneg (l : List ℝ) : 0 ≤ popVarF l := by
  rw [popVarF_real]
  exact div_nonneg (sum_sq_nonneg_real (fun x => x - meanF l) l) (Nat.cast_nonneg _)

/-- dividing the centred column by any `s`: mean 0 -/
theorem meanF_scaled (l : List ℝ) (s : ℝ) (hl : l ≠ []) :
    meanF (l.map (fun x => (x - meanF l) / s)) = 0 := by
  have hn : (l.length : ℝ) ≠ 0 := by
    have : l.length ≠ 0 := by simpa using hl
    exact_mod_cast this
  rw [meanF_real, List.length_map]
  have h1 : (l.map (fun x => (x - meanF l) / s)).sum =
      (l.map (fun x => (1 / s) * x + (-(meanF l) / s))).sum :=
    sum_map_congr_real l (fun x _ => by ring)
  rw [h1, sum_map_affine_real]
  have : 1 / s * l.sum + -(meanF l) / s * (l.length : ℝ) = 0 := by
    rw [meanF_real]
    field_simp
    ring
  rw [this, zero_div]

theorem popVarF_scaled (l : List ℝ) (s : ℝ) (hl : l ≠ []) :
    popVarF (l.map (fun x => (x - meanF l) / s)) = popVarF l / (s * s) := by
  have hm := meanF_scaled l s hl
  rw [popVarF_real, hm, popVarF_real]
  simp only [List.length_map, List.map_map, sub_zero]
  have h1 : (l.map ((fun x => x * x) ∘ fun x => (x - meanF l) / s)).sum =
      (l.map (fun x => (1 / (s * s)) * ((x - meanF l) * (x - meanF l)))).sum :=
    sum_map_congr_real l (fun x _ => by simp only [Function.comp]; ring)
  rw [h1, sum_map_smul_real]
  ring

theorem standardiseF_moments (l : List ℝ) (hl : l ≠ []) (hv : popVarF l ≠ 0) :
    (standardiseF l).length = l.length ∧ meanF (standardiseF l) = 0 ∧ popVarF (standardiseF l) = 1 := by
  rw [standardiseF_real]
  refine ⟨by simp, meanF_scaled l _ hl, ?_⟩
  rw [popVarF_scaled l _ hl, Real.mul_self_sqrt (popVarF_nonneg l), div_self hv]

end VOPy.Problem
