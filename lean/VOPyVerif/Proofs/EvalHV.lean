import Mathlib.MeasureTheory.Constructions.Pi
import Mathlib.MeasureTheory.Measure.Lebesgue.Basic
import Mathlib.Data.Matrix.Mul
/-!
# Helper lemmas for C19, part 4: the (mathematical) hypervolume indicator

`HV(S) = volume (⋃_{p ∈ S} [ref, W p])` in `ℝⁿ` (`n` = number of facets of the cone, Lebesgue
measure), exactly the quantity `calculate_hypervolume_discrepancy_for_model` asks botorch's
`Hypervolume` for (`f_W = f @ W.T`, `ref = min f_W`).  This file is about that mathematical
quantity only; botorch's implementation is compared with it in the harness.
-/
namespace VOPy.Eval
open MeasureTheory

variable {n m : Nat}

/-- the region dominated by the transformed points: `⋃_{p ∈ S} box[ref, W p]` -/
def hvRegion (W : Matrix (Fin n) (Fin m) ℝ) (ref : Fin n → ℝ) (S : Set (Fin m → ℝ)) :
    Set (Fin n → ℝ) :=
  ⋃ p ∈ S, Set.Icc ref (W.mulVec p)

/-- hypervolume indicator of a set of objective vectors w.r.t. the cone matrix `W` -/
noncomputable def HV (W : Matrix (Fin n) (Fin m) ℝ) (ref : Fin n → ℝ) (S : Set (Fin m → ℝ)) :
    ENNReal :=
  volume (hvRegion W ref S)

/-- `q` dominates `p` in the order of the cone `{x | W x ≥ 0}` -/
def ConeDom (W : Matrix (Fin n) (Fin m) ℝ) (q p : Fin m → ℝ) : Prop :=
  ∀ k, 0 ≤ (W.mulVec (q - p)) k

theorem coneDom_iff (W : Matrix (Fin n) (Fin m) ℝ) (q p : Fin m → ℝ) :
    ConeDom W q p ↔ W.mulVec p ≤ W.mulVec q := by
  unfold ConeDom
  rw [Matrix.mulVec_sub]
  constructor
  · intro h k; have := h k; simp only [Pi.sub_apply, sub_nonneg] at this; exact this
  · intro h k; simp only [Pi.sub_apply, sub_nonneg]; exact h k

theorem hvRegion_mono (W : Matrix (Fin n) (Fin m) ℝ) (ref : Fin n → ℝ) {S T : Set (Fin m → ℝ)}
    (h : S ⊆ T) : hvRegion W ref S ⊆ hvRegion W ref T :=
  Set.biUnion_subset_biUnion_left h

theorem hv_mono' (W : Matrix (Fin n) (Fin m) ℝ) (ref : Fin n → ℝ) {S T : Set (Fin m → ℝ)}
    (h : S ⊆ T) : HV W ref S ≤ HV W ref T :=
  measure_mono (hvRegion_mono W ref h)

/-- a covering subset dominates the same region -/
theorem hvRegion_eq_of_cover (W : Matrix (Fin n) (Fin m) ℝ) (ref : Fin n → ℝ)
    {P S : Set (Fin m → ℝ)} (hPS : P ⊆ S) (hcov : ∀ p ∈ S, ∃ q ∈ P, ConeDom W q p) :
    hvRegion W ref P = hvRegion W ref S := by
  apply Set.Subset.antisymm (hvRegion_mono W ref hPS)
  intro x hx
  simp only [hvRegion, Set.mem_iUnion, Set.mem_Icc] at hx ⊢
  obtain ⟨p, hp, h1, h2⟩ := hx
  obtain ⟨q, hq, hd⟩ := hcov p hp
  exact ⟨q, hq, h1, h2.trans ((coneDom_iff W q p).mp hd)⟩

end VOPy.Eval
