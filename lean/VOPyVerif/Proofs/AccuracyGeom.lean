import VOPyVerif.Proofs.AccuracySets
import VOPyVerif.Proofs.ParetoDominates
/-!
# C01 / C05: the order-theoretic facts about true means, and what the executable checks mean

* index-wise characterisations of the `zipWith … |>.any / .all` definitions of `Model/Accuracy.lean`
  (`notCovers_iff`, `gapLe_iff`, `dominates_iff_get`, …),
* linearity of `dot` in its second argument among vectors of one length,
* monotonicity: `notCovers W t a k → dominates W k j → notCovers W t a j`,
* `gapLe` from `notCovers` when the thresholds are `≤ ε·α`,
* `mGap` (the literal minimum) versus `gapLe`,
* Prop-level readings of `accA`, `accB`, `accT`, `keepsIsolated`, `internallyNondom`.
-/
namespace VOPy.Accuracy
open VOPy

/-! ### `zipWith` with `any` / `all`, by index -/

theorem any_zipWith_iff {α β : Type} (f : α → β → Bool) :
    ∀ (l1 : List α) (l2 : List β), (List.zipWith f l1 l2).any id = true ↔
      ∃ n, ∃ h1 : n < l1.length, ∃ h2 : n < l2.length, f l1[n] l2[n] = true := by
  intro l1
  induction l1 with
  | nil => intro l2; simp
  | cons a l1 ih =>
    intro l2
    cases l2 with
    | nil => simp
    | cons b l2 =>
      simp only [List.zipWith_cons_cons, List.any_cons, id, Bool.or_eq_true, ih, List.length_cons]
      constructor
      · rintro (h | ⟨n, h1, h2, h⟩)
        · exact ⟨0, by omega, by omega, h⟩
        · exact ⟨n + 1, by omega, by omega, by simpa using h⟩
      · rintro ⟨n, h1, h2, h⟩
        cases n with
        | zero => exact Or.inl (by simpa using h)
        | succ n => exact Or.inr ⟨n, by omega, by omega, by simpa using h⟩

theorem all_zipWith_iff {α β : Type} (f : α → β → Bool) :
    ∀ (l1 : List α) (l2 : List β), (List.zipWith f l1 l2).all id = true ↔
      ∀ n, ∀ h1 : n < l1.length, ∀ h2 : n < l2.length, f l1[n] l2[n] = true := by
  intro l1
  induction l1 with
  | nil => intro l2; simp
  | cons a l1 ih =>
    intro l2
    cases l2 with
    | nil => simp
    | cons b l2 =>
      simp only [List.zipWith_cons_cons, List.all_cons, id, Bool.and_eq_true, ih, List.length_cons]
      constructor
      · rintro ⟨h0, h⟩ n h1 h2
        cases n with
        | zero => simpa using h0
        | succ n => simpa using h n (by omega) (by omega)
      · intro h
        refine ⟨by simpa using h 0 (by omega) (by omega), fun n h1 h2 => ?_⟩
        have := h (n + 1) (by omega) (by omega)
        simp only [List.getElem_cons_succ] at this
        exact this

theorem any_zipWith_comp {α β γ : Type} (g : α → β → γ) (p : γ → Bool) :
    ∀ (l1 : List α) (l2 : List β),
      (List.zipWith g l1 l2).any p = (List.zipWith (fun a b => p (g a b)) l1 l2).any id := by
  intro l1
  induction l1 with
  | nil => intro l2; simp
  | cons a l1 ih =>
    intro l2
    cases l2 with
    | nil => simp
    | cons b l2 => simp only [List.zipWith_cons_cons, List.any_cons, id, ih]

/-! ### linearity of `dot` -/

theorem dot_vsub (w : Vec) : ∀ (a b : Vec), a.length = b.length →
    dot w (vsub a b) = dot w a - dot w b := by
  induction w with
  | nil => intro a b _; simp [dot]
  | cons y ws ih =>
    intro a b hab
    cases a with
    | nil =>
      cases b with
      | nil => simp [vsub, dot]
      | cons _ _ => simp at hab
    | cons x ta =>
      cases b with
      | nil => simp at hab
      | cons x' tb =>
        simp only [List.length_cons, Nat.add_right_cancel_iff] at hab
        have := ih ta tb hab
        simp only [vsub, List.zipWith_cons_cons, dot] at this ⊢
        rw [this]
        ring

theorem dot_vadd (w : Vec) : ∀ (a b : Vec), a.length = b.length →
    dot w (vadd a b) = dot w a + dot w b := by
  induction w with
  | nil => intro a b _; simp [dot]
  | cons y ws ih =>
    intro a b hab
    cases a with
    | nil =>
      cases b with
      | nil => simp [vadd, dot]
      | cons _ _ => simp at hab
    | cons x ta =>
      cases b with
      | nil => simp at hab
      | cons x' tb =>
        simp only [List.length_cons, Nat.add_right_cancel_iff] at hab
        have := ih ta tb hab
        simp only [vadd, List.zipWith_cons_cons, dot] at this ⊢
        rw [this]
        ring

theorem length_vadd (a b : Vec) (h : a.length = b.length) : (vadd a b).length = a.length := by
  simp [vadd, List.length_zipWith, h]

theorem length_vsub (a b : Vec) (h : a.length = b.length) : (vsub a b).length = a.length := by
  simp [vsub, List.length_zipWith, h]

/-! ### index-wise readings -/

theorem dominates_iff_get (W : Mat) (a b : Vec) :
    dominates W a b = true ↔ ∀ n, ∀ h : n < W.length, 0 ≤ dot W[n] (vsub a b) := by
  rw [dominates_iff]
  constructor
  · intro h n hn; exact h _ (List.getElem_mem hn)
  · intro h w hw
    obtain ⟨n, hn, rfl⟩ := List.getElem_of_mem hw
    exact h n hn

theorem notCovers_iff (W : Mat) (t a b : Vec) :
    notCovers W t a b = true ↔
      ∃ n, ∃ h1 : n < W.length, ∃ h2 : n < t.length, dot W[n] (vsub b a) < t[n] := by
  unfold notCovers
  rw [any_zipWith_iff]
  simp only [decide_eq_true_eq]

/-- `gapLe` is the literal "some facet term is `≤ ε`", by index. -/
theorem gapLe_iff (W : Mat) (alpha : Vec) (eps : Rat) (a b : Vec) :
    gapLe W alpha eps a b = true ↔
      ∃ n, ∃ h1 : n < W.length, ∃ h2 : n < alpha.length, facetGap W[n] alpha[n] a b ≤ eps := by
  unfold gapLe facetGaps
  rw [any_zipWith_comp, any_zipWith_iff]
  simp only [decide_eq_true_eq]

theorem foldl_min_le_iff (eps : Rat) : ∀ (xs : List Rat) (x : Rat),
    xs.foldl min x ≤ eps ↔ x ≤ eps ∨ ∃ y ∈ xs, y ≤ eps := by
  intro xs
  induction xs with
  | nil => intro x; simp
  | cons a xs ih =>
    intro x
    simp only [List.foldl_cons, ih, List.mem_cons, min_le_iff]
    constructor
    · rintro ((h | h) | ⟨y, hy, h⟩)
      · exact Or.inl h
      · exact Or.inr ⟨a, Or.inl rfl, h⟩
      · exact Or.inr ⟨y, Or.inr hy, h⟩
    · rintro (h | ⟨y, rfl | hy, h⟩)
      · exact Or.inl (Or.inl h)
      · exact Or.inl (Or.inr h)
      · exact Or.inr ⟨y, hy, h⟩

/-- The facet-by-facet decision agrees with the literal minimum `m(i,j) = min_n …`. -/
theorem mGap_le_iff (W : Mat) (alpha : Vec) (eps : Rat) (a b : Vec) (g : Rat)
    (hg : mGap W alpha a b = some g) : g ≤ eps ↔ gapLe W alpha eps a b = true := by
  unfold mGap at hg
  unfold gapLe
  cases hfg : facetGaps W alpha a b with
  | nil => rw [hfg] at hg; simp at hg
  | cons x xs =>
    rw [hfg] at hg
    simp only [Option.some.injEq] at hg
    rw [← hg, foldl_min_le_iff]
    simp only [List.any_cons, Bool.or_eq_true, decide_eq_true_eq, List.any_eq_true]

/-! ### order facts -/

/-- a positive threshold on some facet: the point never "covers itself" -/
theorem notCovers_self (W : Mat) (t a : Vec)
    (hpos : ∃ n, ∃ _ : n < W.length, ∃ h2 : n < t.length, 0 < t[n]) : notCovers W t a a = true := by
  rw [notCovers_iff]
  obtain ⟨n, h1, h2, h⟩ := hpos
  exact ⟨n, h1, h2, by rw [dot_vsub_self]; exact h⟩

/-- `notCovers` is downward closed along domination in its last argument -/
theorem notCovers_mono (W : Mat) (t a k j : Vec) (hak : a.length = k.length) (hkj : k.length = j.length)
    (h1 : notCovers W t a k = true) (h2 : dominates W k j = true) : notCovers W t a j = true := by
  rw [notCovers_iff] at h1 ⊢
  rw [dominates_iff_get] at h2
  obtain ⟨n, hn1, hn2, h⟩ := h1
  refine ⟨n, hn1, hn2, ?_⟩
  have hd := h2 n hn1
  rw [dot_vsub _ _ _ hkj] at hd
  rw [dot_vsub _ _ _ hak.symm] at h
  rw [dot_vsub _ _ _ (hak.trans hkj).symm]
  linarith

/-- a facet on which `b` stays below the threshold `t_n ≤ ε·α_n` witnesses `m(a,b) ≤ ε` -/
theorem gapLe_of_notCovers (W : Mat) (alpha t : Vec) (eps : Rat) (a b : Vec)
    (heps : 0 ≤ eps) (hal : ∀ n, ∀ h : n < alpha.length, 0 < alpha[n])
    (hlen : t.length = alpha.length)
    (hle : ∀ n, ∀ h1 : n < t.length, ∀ h2 : n < alpha.length, t[n] ≤ eps * alpha[n])
    (h : notCovers W t a b = true) : gapLe W alpha eps a b = true := by
  rw [notCovers_iff] at h
  rw [gapLe_iff]
  obtain ⟨n, h1, h2, hlt⟩ := h
  have h3 : n < alpha.length := hlen ▸ h2
  refine ⟨n, h1, h3, ?_⟩
  unfold facetGap
  have hapos := hal n h3
  rw [div_le_iff₀ hapos]
  have := hle n h2 h3
  rcases le_total 0 (dot W[n] (vsub b a)) with hd | hd
  · rw [max_eq_right hd]; linarith
  · rw [max_eq_left hd]; positivity

/-- `m(a,a) ≤ ε` for `ε ≥ 0`, a cone with at least one facet and positive `α` -/
theorem gapLe_self (W : Mat) (alpha : Vec) (eps : Rat) (a : Vec) (heps : 0 ≤ eps)
    (hne : ∃ n, n < W.length ∧ n < alpha.length) : gapLe W alpha eps a a = true := by
  rw [gapLe_iff]
  obtain ⟨n, h1, h2⟩ := hne
  refine ⟨n, h1, h2, ?_⟩
  unfold facetGap
  rw [dot_vsub_self]
  simpa using heps

/-- `m(a,·) ≤ ε` is downward closed along domination -/
theorem gapLe_mono (W : Mat) (alpha : Vec) (eps : Rat) (a k j : Vec)
    (hal : ∀ n, ∀ h : n < alpha.length, 0 < alpha[n])
    (hak : a.length = k.length) (hkj : k.length = j.length)
    (h1 : gapLe W alpha eps a k = true) (h2 : dominates W k j = true) :
    gapLe W alpha eps a j = true := by
  rw [gapLe_iff] at h1 ⊢
  rw [dominates_iff_get] at h2
  obtain ⟨n, hn1, hn2, h⟩ := h1
  refine ⟨n, hn1, hn2, le_trans ?_ h⟩
  unfold facetGap
  have hd := h2 n hn1
  rw [dot_vsub _ _ _ hkj] at hd
  rw [dot_vsub _ _ _ hak.symm, dot_vsub _ _ _ (hak.trans hkj).symm]
  apply div_le_div_of_nonneg_right _ (le_of_lt (hal n hn2))
  apply max_le_max (le_refl 0)
  linarith

/-! ### Prop-level readings of the executable conclusions -/

theorem accA_iff (W : Mat) (K : Nat) (mu : Nat → Vec) (P : List Nat) :
    accA W K mu P = true ↔
      ∀ i, i < K → i ∈ P ∨ ∃ j ∈ P, dominates W (mu j) (mu i) = true := by
  unfold accA
  simp only [List.all_eq_true, List.mem_range, Bool.or_eq_true, List.contains_eq_mem,
    decide_eq_true_eq, List.any_eq_true]

theorem accB_iff (W : Mat) (alpha : Vec) (eps : Rat) (K : Nat) (mu : Nat → Vec) (P : List Nat) :
    accB W alpha eps K mu P = true ↔
      ∀ i ∈ P, ∀ j, j < K → gapLe W alpha eps (mu i) (mu j) = true := by
  unfold accB
  simp only [List.all_eq_true, List.mem_range]

theorem accT_iff (W : Mat) (t : Vec) (K : Nat) (mu : Nat → Vec) (P : List Nat) :
    accT W t K mu P = true ↔
      ∀ i ∈ P, ∀ j, j < K → j = i ∨ notCovers W t (mu i) (mu j) = true := by
  unfold accT
  simp only [List.all_eq_true, List.mem_range, Bool.or_eq_true, beq_iff_eq]

theorem isolated_iff (W : Mat) (s : Vec) (K : Nat) (mu : Nat → Vec) (i : Nat) :
    isolated W s K mu i = true ↔
      ∀ j, j < K → j ≠ i → dominates W (vadd (mu j) s) (mu i) = false := by
  unfold isolated
  simp only [List.all_eq_true, List.mem_range, Bool.or_eq_true, beq_iff_eq, Bool.not_eq_true']
  constructor
  · intro h j hj hne
    rcases h j hj with h | h
    · exact absurd h hne
    · exact h
  · intro h j hj
    by_cases hji : j = i
    · exact Or.inl hji
    · exact Or.inr (h j hj hji)

theorem keepsIsolated_iff (W : Mat) (s : Vec) (K : Nat) (mu : Nat → Vec) (P : List Nat) :
    keepsIsolated W s K mu P = true ↔
      ∀ i, i < K → (∀ j, j < K → j ≠ i → dominates W (vadd (mu j) s) (mu i) = false) → i ∈ P := by
  unfold keepsIsolated
  simp only [List.all_eq_true, List.mem_range, Bool.or_eq_true, Bool.not_eq_true',
    List.contains_eq_mem, decide_eq_true_eq]
  constructor
  · intro h i hi hiso
    rcases h i hi with h | h
    · rw [← Bool.not_eq_true, isolated_iff] at h
      exact absurd hiso h
    · exact h
  · intro h i hi
    by_cases hiso : isolated W s K mu i = true
    · exact Or.inr (h i hi ((isolated_iff ..).mp hiso))
    · exact Or.inl (by simpa using hiso)

theorem internallyNondom_iff (W : Mat) (s : Vec) (mu : Nat → Vec) (P : List Nat) :
    internallyNondom W s mu P = true ↔
      ∀ i ∈ P, ∀ j ∈ P, j ≠ i → dominates W (mu j) (vadd (mu i) s) = false := by
  unfold internallyNondom
  simp only [List.all_eq_true, Bool.or_eq_true, beq_iff_eq, Bool.not_eq_true']
  constructor
  · intro h i hi j hj hne
    rcases h i hi j hj with h | h
    · exact absurd h hne
    · exact h
  · intro h i hi j hj
    by_cases hji : j = i
    · exact Or.inl hji
    · exact Or.inr (h i hi j hj hji)

end VOPy.Accuracy
