import VOPyVerif.Proofs.Empirical
/-!
# Helper lemmas for C16: affine equivariance of the empirical statistics

`affRow a c y = a·y + c` (entrywise, `c` one constant per objective) and `Op.affine a c` (the same
history with every sample row replaced by its affine image; indices, clears, updates and flag toggles
untouched).

* `mean_affine`, `popVar_affine` — `mean (a·x + k) = a·mean x + k`, `popVar (a·x + k) = a²·popVar x`;
* `meanOf_affine`, `varOf_affine` — the same for the per-design statistics `update()` stores,
  including the branches "no sample → zero vector" and "fewer than two samples → `noise·I`";
* `heldFor_affine`, `WF_affine`, `flagsAfter_affine` — the history vocabulary commutes with `Op.affine`.
-/
namespace VOPy.Empirical

/-- `a·y + c` entrywise -/
def affRow (a : Rat) (c : Vec) (y : Vec) : Vec := vadd (smul a y) c

/-- the same call with every sample row replaced by its affine image -/
def Op.affine (a : Rat) (c : Vec) : Op → Op
  | .add idx Y => .add idx (Y.map (affRow a c))
  | o => o

/-! ### numbers -/

theorem sum_map_affine (a k : Rat) (l : List Rat) :
    (l.map (fun x => a * x + k)).sum = a * l.sum + (l.length : Rat) * k := by
  induction l with
  | nil => simp
  | cons x l ih =>
    simp only [List.map_cons, List.sum_cons, ih, List.length_cons]
    push_cast
    ring

theorem mean_affine (a k : Rat) (l : List Rat) (hl : l ≠ []) :
    mean (l.map (fun x => a * x + k)) = a * mean l + k := by
  have hn : (l.length : Rat) ≠ 0 := by
    have : 0 < l.length := List.length_pos_iff.mpr hl
    exact_mod_cast (Nat.pos_iff_ne_zero.mp this)
  simp only [mean, sum_map_affine, List.length_map]
  field_simp

theorem popVar_affine (a k : Rat) (l : List Rat) :
    popVar (l.map (fun x => a * x + k)) = a * a * popVar l := by
  by_cases hl : l = []
  · subst hl; simp [popVar, mean]
  · simp only [popVar, mean_affine a k l hl, List.map_map, Function.comp_def]
    have e : (fun x => (a * x + k - (a * mean l + k)) * (a * x + k - (a * mean l + k))) =
        (fun x => (a * a) * ((x - mean l) * (x - mean l)) + 0) := by
      funext x; ring
    rw [e]
    have := mean_affine (a * a) 0 (l.map (fun x => (x - mean l) * (x - mean l))) (by simpa using hl)
    rw [List.map_map] at this
    simp only [Function.comp_def] at this
    rw [this, add_zero]

/-! ### rows and per-design statistics -/

theorem affRow_length (a : Rat) (c y : Vec) (h : y.length = c.length) :
    (affRow a c y).length = c.length := by
  simp [affRow, vadd, smul, h]

theorem affRow_getD (a : Rat) (c y : Vec) (j : Nat) (hy : j < y.length) (hc : j < c.length) :
    (affRow a c y).getD j 0 = a * y.getD j 0 + c.getD j 0 := by
  have hl : j < (affRow a c y).length := by simp [affRow, vadd, smul, hy, hc]
  simp only [List.getD_eq_getElem?_getD, List.getElem?_eq_getElem hl, List.getElem?_eq_getElem hy,
    List.getElem?_eq_getElem hc, Option.getD_some]
  simp [affRow, vadd, smul]

theorem colOf_affine (a : Rat) (c : Vec) (S : List Vec) (j : Nat) (hj : j < c.length)
    (hS : ∀ y ∈ S, y.length = c.length) :
    colOf j (S.map (affRow a c)) = (colOf j S).map (fun x => a * x + c.getD j 0) := by
  simp only [colOf, List.map_map]
  apply List.map_congr_left
  intro y hy
  simp only [Function.comp_def]
  exact affRow_getD a c y j (by rw [hS y hy]; exact hj) hj

/-- **Means are equivariant**: with at least one sample the stored mean of the transformed samples is
the affine image of the stored mean; with none it is the zero vector in both cases. -/
theorem meanOf_affine (a : Rat) (c : Vec) (S : List Vec) (hS : ∀ y ∈ S, y.length = c.length) :
    meanOf c.length (S.map (affRow a c)) =
      if S = [] then zeros c.length else affRow a c (meanOf c.length S) := by
  by_cases hS0 : S = []
  · subst hS0; simp [meanOf]
  · have hpos : 0 < S.length := List.length_pos_iff.mpr hS0
    simp only [meanOf, List.length_map, hpos, if_true, hS0, if_false]
    apply List.ext_getElem
    · simp [affRow, vadd, smul]
    · intro j h1 h2
      have hj : j < c.length := by simpa using h1
      have hne : colOf j S ≠ [] := by simpa [colOf] using hS0
      simp only [List.getElem_map, List.getElem_range, affRow, vadd, smul, List.getElem_zipWith]
      rw [colOf_affine a c S j hj hS, mean_affine _ _ _ hne]
      simp [List.getD_eq_getElem?_getD, List.getElem?_eq_getElem hj]

theorem diagOf_smul (m : Nat) (k : Rat) (f : Nat → Rat) :
    (diagOf m f).map (smul k) = diagOf m (fun j => k * f j) := by
  simp only [diagOf, List.map_map]
  apply List.map_congr_left
  intro i _
  simp only [Function.comp_def, smul, List.map_map]
  apply List.map_congr_left
  intro j _
  split_ifs <;> simp

/-- **Variances are invariant under shifts and scale with `a²`**: with at least two samples the stored
covariance of the transformed samples is `a²` times the stored covariance; with fewer it is the
configured `noise·I` in both cases. -/
theorem varOf_affine (a : Rat) (c : Vec) (noise : Rat) (S : List Vec)
    (hS : ∀ y ∈ S, y.length = c.length) :
    varOf c.length noise (S.map (affRow a c)) =
      if 1 < S.length then (varOf c.length noise S).map (smul (a * a)) else varOf c.length noise S := by
  by_cases h1 : 1 < S.length
  · simp only [varOf, List.length_map, h1, if_true, diagOf_smul]
    simp only [diagOf]
    apply List.map_congr_left
    intro i hi
    have hi' : i < c.length := List.mem_range.mp hi
    apply List.map_congr_left
    intro j _
    by_cases hij : i = j
    · simp only [hij, if_true]
      subst hij
      rw [colOf_affine a c S i hi' hS, popVar_affine]
    · simp [hij]
  · simp [varOf, h1]

/-! ### histories -/

theorem affine_isClear (a : Rat) (c : Vec) (o : Op) : (o.affine a c).isClear = o.isClear := by
  cases o <;> rfl

theorem affine_isUpdate (a : Rat) (c : Vec) (o : Op) : (o.affine a c).isUpdate = o.isUpdate := by
  cases o <;> rfl

theorem affine_rejected (a : Rat) (c : Vec) (count : Nat) (o : Op) :
    (o.affine a c).rejected count = o.rejected count := by
  cases o <;> simp [Op.affine, Op.rejected]

theorem affine_clean (a : Rat) (c : Vec) (count : Nat) (o : Op) (h : o.clean c.length count = true) :
    (o.affine a c).clean c.length count = true := by
  cases o with
  | add idx Y =>
    simp only [Op.affine, Op.clean, Bool.and_eq_true, beq_iff_eq, List.length_map, List.all_eq_true,
      List.mem_map, forall_exists_index, and_imp, forall_apply_eq_imp_iff₂] at h ⊢
    refine ⟨⟨⟨h.1.1.1, h.1.1.2⟩, h.1.2⟩, fun y hy => ?_⟩
    exact affRow_length a c y (h.2 y hy)
  | _ => rfl

theorem WF_affine (a : Rat) (c : Vec) (count : Nat) (ops : List Op) (h : WF c.length count ops) :
    WF c.length count (ops.map (Op.affine a c)) := by
  intro o ho
  obtain ⟨o', ho', rfl⟩ := List.mem_map.mp ho
  rcases h o' ho' with h1 | h1
  · exact Or.inl (affine_clean a c count o' h1)
  · exact Or.inr (by rw [affine_rejected]; exact h1)

theorem flagsAfter_affine (a : Rat) (c : Vec) (ops : List Op) :
    ∀ init, flagsAfter init (ops.map (Op.affine a c)) = flagsAfter init ops := by
  induction ops with
  | nil => intro; rfl
  | cons o ops ih =>
    intro init
    cases o <;> simp [Op.affine, flagsAfter, ih]

theorem pairs_affine (a : Rat) (c : Vec) (count : Nat) (o : Op) :
    (o.affine a c).pairs count = (o.pairs count).map (fun p => (p.1, affRow a c p.2)) := by
  cases o with
  | add idx Y =>
    simp only [Op.affine, Op.pairs, List.length_map]
    split
    · rw [List.zip_map_right]
      simp [List.map_map, Function.comp_def]
    · rfl
  | _ => rfl

theorem samplesFor_map (d : Nat) (g : Vec → Vec) (l : List (Nat × Vec)) :
    samplesFor d (l.map (fun p => (p.1, g p.2))) = (samplesFor d l).map g := by
  simp [samplesFor, List.filter_map, Function.comp_def]

theorem afterLastClear_affine (a : Rat) (c : Vec) (ops : List Op) :
    afterLastClear (ops.map (Op.affine a c)) = (afterLastClear ops).map (Op.affine a c) := by
  have e : ((fun o : Op => !o.isClear) ∘ Op.affine a c) = fun o => !o.isClear := by
    funext o; simp [affine_isClear]
  simp only [afterLastClear, ← List.map_reverse, List.takeWhile_map, e]

/-- the samples held for a design in the transformed history are the transformed held samples -/
theorem heldFor_affine (a : Rat) (c : Vec) (count d : Nat) (ops : List Op) :
    heldFor count d (ops.map (Op.affine a c)) = (heldFor count d ops).map (affRow a c) := by
  simp only [heldFor, afterLastClear_affine, List.flatMap_map]
  rw [← samplesFor_map]
  congr 1
  rw [List.map_flatMap]
  apply List.flatMap_congr
  intro o _
  exact pairs_affine a c count o

/-- in a well-formed history every held sample is an `m`-vector -/
theorem heldFor_rows {m count : Nat} (d : Nat) (ops : List Op) (h : WF m count ops) :
    ∀ y ∈ heldFor count d ops, y.length = m := by
  intro y hy
  simp only [heldFor, samplesFor, List.mem_map, List.mem_filter, List.mem_flatMap] at hy
  obtain ⟨p, ⟨⟨o, ho, hp⟩, _⟩, rfl⟩ := hy
  have hoO : o ∈ ops := by
    have : o ∈ (ops.reverse.takeWhile (fun o => !o.isClear)).reverse := ho
    rw [List.mem_reverse] at this
    exact List.mem_reverse.mp ((List.takeWhile_sublist _).subset this)
  cases o with
  | add idx Y =>
    simp only [Op.pairs] at hp
    split at hp
    · rename_i hg
      rcases h _ hoO with hc | hr
      · obtain ⟨_, _, _, hY⟩ := clean_add hc
        obtain ⟨q, hq, rfl⟩ := List.mem_map.mp hp
        exact hY _ (List.of_mem_zip hq).2
      · simp [Op.rejected, hg] at hr
    · simp at hp
  | clear => simp [Op.pairs] at hp
  | update => simp [Op.pairs] at hp
  | setFlags _ _ => simp [Op.pairs] at hp

theorem affRow_one_shift (c y : Vec) : affRow 1 c y = vadd y c := by
  simp [affRow, smul]

theorem affRow_scale (a : Rat) (m : Nat) (y : Vec) (hy : y.length = m) :
    affRow a (zeros m) y = smul a y := by
  subst hy
  simp only [affRow, vadd, zeros, smul]
  induction y with
  | nil => rfl
  | cons x y ih =>
    simp only [List.map_cons, List.length_cons, List.replicate_succ, List.zipWith_cons_cons, add_zero,
      List.cons.injEq, true_and]
    exact ih

end VOPy.Empirical
