import VOPyVerif.Proofs.PessimisticComplete
/-!
# Helper lemmas for C11, part 2b: completeness for *every* 2-D polyhedral cone (any number of facets)

* `seg_hitN`: in `ℚᴺ`, if a point of a segment between two members (different positions) of the
  polytope list is componentwise `≤ p`, the routine answers `true`: walk from that point towards
  the end `A` that exceeds `p` until the first coordinate becomes tight (`exists_tight`); the tight
  coordinate `d` and the ordered pair `(B, A)` pass the guard and the computed intersection is the
  point reached.
* `isPtIn_complete_2d`: `m = 2`, any facet list `W` whose cone contains a non-zero `g`: a witness
  `y ∈ R₂` slides along `−g` to the boundary of `R₂`, i.e. onto a segment between two vertices.
-/
namespace VOPy.Pess
set_option linter.unusedSimpArgs false

theorem vle_iff_getD : ∀ (a b : Vec), a.length = b.length →
    (vle a b = true ↔ ∀ k < a.length, a.getD k 0 ≤ b.getD k 0)
  | [], [], _ => by simp [vle]
  | x :: a, y :: b, h => by
    have ih := vle_iff_getD a b (by simpa using h)
    simp only [vle, List.zipWith_cons_cons, List.all_cons, Bool.and_eq_true, decide_eq_true_eq,
      id_eq] at ih ⊢
    rw [ih]
    constructor
    · rintro ⟨h0, hr⟩ k hk
      cases k with
      | zero => simpa using h0
      | succ k => simpa using hr k (by simpa using hk)
    · intro hall
      refine ⟨by simpa using hall 0 (by simp), ?_⟩
      intro k hk
      simpa using hall (k + 1) (by simpa using hk)
  | [], _ :: _, h => by simp at h
  | _ :: _, [], h => by simp at h

theorem getD_of_lt {v : Vec} {k : Nat} (h : k < v.length) : v.getD k 0 = v[k] := by
  simp [List.getD_eq_getElem?_getD, List.getElem?_eq_getElem h]

theorem getElem?_of_lt {v : Vec} {k : Nat} (h : k < v.length) : v[k]? = some (v.getD k 0) := by
  rw [List.getElem?_eq_getElem h, getD_of_lt h]

theorem getD_zipWith (f : Rat → Rat → Rat) (a b : Vec) (k : Nat) (ha : k < a.length)
    (hb : k < b.length) : (List.zipWith f a b).getD k 0 = f (a.getD k 0) (b.getD k 0) := by
  rw [getD_of_lt (v := List.zipWith f a b) (by simp [ha, hb]), getD_of_lt ha,
    getD_of_lt hb, List.getElem_zipWith]

/-- the pair loop at coordinate `d`, data of any dimension `N` -/
theorem edgeHit_general {p v1 v2 : Vec} {d N : Nat} (h1 : v1.length = N) (h2 : v2.length = N)
    (hp : p.length = N) (hd : d < N)
    (g1 : v1.getD d 0 ≤ p.getD d 0) (g2 : p.getD d 0 ≤ v2.getD d 0)
    (hlt : v1.getD d 0 < v2.getD d 0)
    (hq : ∀ k < N, v1.getD k 0 +
      (p.getD d 0 - v1.getD d 0) / (v2.getD d 0 - v1.getD d 0) * (v2.getD k 0 - v1.getD k 0)
        ≤ p.getD k 0) :
    edgeHit exact false p d v1 v2 = true := by
  have e1 := getElem?_of_lt (v := v1) (k := d) (by omega)
  have e2 := getElem?_of_lt (v := v2) (k := d) (by omega)
  have ep := getElem?_of_lt (v := p) (k := d) (by omega)
  have hpos : 0 < v2.getD d 0 - v1.getD d 0 := sub_pos.mpr hlt
  have hne : v2.getD d 0 - v1.getD d 0 ≠ 0 := ne_of_gt hpos
  have ht0 : ¬ (p.getD d 0 - v1.getD d 0) / (v2.getD d 0 - v1.getD d 0) < 0 :=
    not_lt.mpr (div_nonneg (sub_nonneg.mpr g1) hpos.le)
  have ht1 : ¬ 1 < (p.getD d 0 - v1.getD d 0) / (v2.getD d 0 - v1.getD d 0) :=
    not_lt.mpr ((div_le_one hpos).mpr (by linarith))
  have hv : vle (List.zipWith (fun x y => x +
      (p.getD d 0 - v1.getD d 0) / (v2.getD d 0 - v1.getD d 0) * (y - x)) v1 v2) p = true := by
    rw [vle_iff_getD _ _ (by simp [h1, h2, hp])]
    intro k hk
    have hk' : k < N := by simpa [h1, h2] using hk
    rw [getD_zipWith _ _ _ _ (by omega) (by omega)]
    exact hq k hk'
  unfold edgeHit
  rw [e1, ep, e2]
  simp only [g1, g2, decide_true, Bool.true_and]
  unfold lineSegAt
  rw [e1, e2, ep]
  simp only [exact, hne, ↓reduceIte, ht0, ht1, or_self, Bool.false_eq_true]
  exact hv

section SegN
variable {L : Type} [Field L] [LinearOrder L] [IsStrictOrderedRing L]

/-- **Case analysis in `ℚᴺ`.**  If the point at parameter `s ∈ [0,1]` of the segment between the
members `A`, `B` at positions `i ≠ j` of the polytope list is componentwise `≤ p`, the routine
answers `true` (vertex test on `A`, or the pair `(B, A)` at the first coordinate that becomes tight
when walking from that point towards `A`). -/
theorem seg_hitN {poly : List Vec} {i j N : Nat} {A B p : Vec} {s : L}
    (hi : poly[i]? = some A) (hj : poly[j]? = some B) (hij : i ≠ j)
    (hdim : polyDim poly = N) (hA : A.length = N) (hB : B.length = N) (hp : p.length = N)
    (hs0 : 0 ≤ s) (hs1 : s ≤ 1)
    (hr : ∀ k < N, (A.getD k 0 : L) + s * ((B.getD k 0 : L) - A.getD k 0) ≤ p.getD k 0) :
    isPtIn exact false p poly = true := by
  have memA : A ∈ poly := List.mem_of_getElem? hi
  by_cases hAp : vle A p = true
  · exact isPtIn_of_vertex memA hAp
  -- some coordinate of A exceeds p
  rw [vle_iff_getD A p (hA.trans hp.symm)] at hAp
  simp only [not_forall, not_le, hA] at hAp
  obtain ⟨k0, hk0, hk0A⟩ := hAp
  -- r_k and the constraints of the walk r → A
  let r : Nat → L := fun k => (A.getD k 0 : L) + s * ((B.getD k 0 : L) - A.getD k 0)
  let cons : List (L × L) :=
    (List.range N).map (fun k => ((A.getD k 0 : L) - r k, (p.getD k 0 : L) - r k))
  have hcons_slack : ∀ q ∈ cons, 0 ≤ q.2 := by
    intro q hq
    obtain ⟨k, hk, rfl⟩ := List.mem_map.mp hq
    exact sub_nonneg.mpr (hr k (List.mem_range.mp hk))
  have hcons_pos : ∃ q ∈ cons, 0 < q.1 := by
    refine ⟨_, List.mem_map.mpr ⟨k0, List.mem_range.mpr hk0, rfl⟩, ?_⟩
    have h1 : (p.getD k0 0 : L) < A.getD k0 0 := Rat.cast_lt.mpr hk0A
    have h2 := hr k0 hk0
    show (0 : L) < (A.getD k0 0 : L) - r k0
    simp only [r]; linarith
  obtain ⟨σ, hσ0, hall, q, hq, hqpos, hqtight⟩ := exists_tight cons hcons_slack hcons_pos
  obtain ⟨d, hd', rfl⟩ := List.mem_map.mp hq
  have hd : d < N := List.mem_range.mp hd'
  simp only at hqpos hqtight
  -- σ < 1 (the constraint of k0 fails at σ = 1)
  have hσ1 : σ < 1 := by
    have h := hall _ (List.mem_map.mpr ⟨k0, List.mem_range.mpr hk0, rfl⟩)
    simp only at h
    have h1 : (p.getD k0 0 : L) < A.getD k0 0 := Rat.cast_lt.mpr hk0A
    have h2 : (0 : L) < (A.getD k0 0 : L) - r k0 := by have := hr k0 hk0; simp only [r]; linarith
    by_contra hge
    have : ((A.getD k0 0 : L) - r k0) * 1 ≤ ((A.getD k0 0 : L) - r k0) * σ :=
      mul_le_mul_of_nonneg_left (not_lt.mp hge) h2.le
    linarith
  -- facts at the tight coordinate d, in L
  set a : Rat := B.getD d 0 with ha
  set b : Rat := A.getD d 0 with hb
  set c : Rat := p.getD d 0 with hc
  have hrd : r d = (b : L) + s * ((a : L) - b) := rfl
  have hbr : r d < (b : L) := by linarith
  have hsab : s * ((a : L) - b) < 0 := by rw [hrd] at hbr; linarith
  have hspos : 0 < s := by
    rcases eq_or_lt_of_le hs0 with h | h
    · rw [← h] at hsab; simp at hsab
    · exact h
  have habL : (a : L) < b := by
    by_contra hge
    have : 0 ≤ s * ((a : L) - b) := mul_nonneg hs0 (sub_nonneg.mpr (not_lt.mp hge))
    linarith
  have hab : a < b := Rat.cast_lt.mp habL
  have hra : (a : L) ≤ r d := by
    rw [hrd]; nlinarith
  have hrc : r d ≤ (c : L) := hr d hd
  have hacL : (a : L) ≤ c := le_trans hra hrc
  have hac : a ≤ c := Rat.cast_le.mp hacL
  -- c = r_d + σ (b − r_d) ≤ b
  have hceq : (c : L) = r d + σ * ((b : L) - r d) := by linarith [hqtight, mul_comm σ ((b : L) - r d)]
  have hcbL : (c : L) ≤ b := by rw [hceq]; nlinarith
  have hcb : c ≤ b := Rat.cast_le.mp hcbL
  have hpos : 0 < b - a := sub_pos.mpr hab
  have hposL : (0 : L) < (b : L) - a := sub_pos.mpr habL
  -- the model's parameter t and the walk parameter agree
  have ht : (c - a) / (b - a) * (b - a) = c - a := div_mul_cancel₀ _ (ne_of_gt hpos)
  generalize htdef : (c - a) / (b - a) = t at ht
  have htL : (t : L) * ((b : L) - a) = c - a := by exact_mod_cast ht
  -- t = 1 − (1 − σ) s
  have htval : (t : L) = 1 - (1 - σ) * s := by
    have h1 : (t : L) * ((b : L) - a) = (1 - (1 - σ) * s) * ((b : L) - a) := by
      rw [htL, hceq, hrd]; ring
    exact mul_right_cancel₀ (ne_of_gt hposL) h1
  refine isPtIn_of_edge hj hi (Ne.symm hij) (by rw [hdim]; exact hd)
    (edgeHit_general hB hA hp hd hac hcb hab ?_)
  intro k hk
  rw [← ha, ← hb, ← hc, htdef]
  -- the computed point equals the point reached by the walk, which satisfies constraint k
  have hk' := hall _ (List.mem_map.mpr ⟨k, List.mem_range.mpr hk, rfl⟩)
  simp only at hk'
  have goalL : ((B.getD k 0 : Rat) : L) + (t : L) * ((A.getD k 0 : L) - B.getD k 0) ≤ p.getD k 0 := by
    have e : ((B.getD k 0 : Rat) : L) + (t : L) * ((A.getD k 0 : L) - B.getD k 0)
        = r k + σ * ((A.getD k 0 : L) - r k) := by
      rw [htval]; simp only [r]; ring
    rw [e]; linarith [mul_comm σ ((A.getD k 0 : L) - r k)]
  exact_mod_cast goalL

end SegN

/-! ## `m = 2`, any number of facets -/

section TwoD
variable {L : Type} [Field L] [LinearOrder L] [IsStrictOrderedRing L]

theorem matVec_getD (W : Mat) (v : Vec) (k : Nat) (hk : k < W.length) :
    (matVec W v).getD k 0 = dot (W[k]) v := by
  rw [getD_of_lt (v := matVec W v) (by simpa [matVec] using hk)]
  simp [matVec]

/-- For any facet list `W` with rows of length 2 whose cone contains a non-zero vector `g`
(`W g ≥ 0`), `R₂ = [l0,u0]×[l1,u1]` and any rational `x`: if some `y ∈ R₂` (coordinates in any
ordered field `L ⊇ ℚ`) has `W y ≤ W x`, the routine run on `W x` and the transformed vertices of
`R₂` answers `true`. -/
theorem isPtIn_complete_2d (W : Mat) (hW : ∀ w ∈ W, w.length = 2)
    (g0 g1 : Rat) (hg : g0 ≠ 0 ∨ g1 ≠ 0) (hgC : ∀ w ∈ W, 0 ≤ dot w [g0, g1])
    (l0 l1 u0 u1 x0 x1 : Rat) (y0 y1 : L)
    (hy0 : (l0 : L) ≤ y0 ∧ y0 ≤ u0) (hy1 : (l1 : L) ≤ y1 ∧ y1 ≤ u1)
    (hd : ∀ w ∈ W, gdot (castV w) [y0, y1] ≤ ((dot w [x0, x1] : Rat) : L)) :
    isPtIn exact false (matVec W [x0, x1]) ((vertices [l0, l1] [u0, u1]).map (matVec W)) = true := by
  have hgpos : ∃ p ∈ [((g0 : L), y0 - l0), (-(g0 : L), u0 - y0), ((g1 : L), y1 - l1),
      (-(g1 : L), u1 - y1)], 0 < p.1 := by
    rcases hg with h | h
    · rcases lt_or_gt_of_ne h with h | h
      · exact ⟨(-(g0 : L), u0 - y0), by simp, by simpa using (Rat.cast_lt (K := L)).mpr h⟩
      · exact ⟨((g0 : L), y0 - l0), by simp, by simpa using (Rat.cast_lt (K := L)).mpr h⟩
    · rcases lt_or_gt_of_ne h with h | h
      · exact ⟨(-(g1 : L), u1 - y1), by simp, by simpa using (Rat.cast_lt (K := L)).mpr h⟩
      · exact ⟨((g1 : L), y1 - l1), by simp, by simpa using (Rat.cast_lt (K := L)).mpr h⟩
  obtain ⟨τ, hτ0, hall, ptight, hpt, _, htight⟩ :=
    exists_tight [((g0 : L), y0 - l0), (-(g0 : L), u0 - y0), ((g1 : L), y1 - l1), (-(g1 : L), u1 - y1)]
      (by
        intro p hp
        simp only [List.mem_cons, List.not_mem_nil, or_false] at hp
        rcases hp with rfl | rfl | rfl | rfl <;> simp <;> linarith [hy0.1, hy0.2, hy1.1, hy1.2])
      hgpos
  set z0 := y0 - τ * g0 with hz0
  set z1 := y1 - τ * g1 with hz1
  have b1 := hall ((g0 : L), y0 - l0) (by simp)
  have b2 := hall (-(g0 : L), u0 - y0) (by simp)
  have b3 := hall ((g1 : L), y1 - l1) (by simp)
  have b4 := hall (-(g1 : L), u1 - y1) (by simp)
  simp only at b1 b2 b3 b4
  have hz0l : (l0 : L) ≤ z0 := by rw [hz0]; linarith
  have hz0u : z0 ≤ u0 := by rw [hz0]; linarith
  have hz1l : (l1 : L) ≤ z1 := by rw [hz1]; linarith
  have hz1u : z1 ≤ u1 := by rw [hz1]; linarith
  -- every facet functional is still ≤ at z
  have hdz : ∀ w ∈ W, gdot (castV w) [z0, z1] ≤ ((dot w [x0, x1] : Rat) : L) := by
    intro w hw
    obtain ⟨a, b, rfl⟩ := List.length_eq_two.mp (hW w hw)
    have h1 := hd _ hw
    have h2 : (0 : L) ≤ ((dot [a, b] [g0, g1] : Rat) : L) := Rat.cast_nonneg.mpr (hgC _ hw)
    simp only [castV, List.map_cons, List.map_nil, gdot, dot, add_zero] at h1 h2 ⊢
    push_cast at h1 h2 ⊢
    rw [hz0, hz1]
    nlinarith
  have hpoly : (vertices [l0, l1] [u0, u1]).map (matVec W) =
      [matVec W [l0, l1], matVec W [l0, u1], matVec W [u0, l1], matVec W [u0, u1]] := by
    simp [vertices]
  have hlen : ∀ v : Vec, (matVec W v).length = W.length := by intro v; simp [matVec]
  rw [hpoly]
  -- common closing step: the edge between vertices Vi, Vj (positions i ≠ j) with parameter s
  have close : ∀ (i j : Nat) (Vi Vj : Vec) (s : L),
      [matVec W [l0, l1], matVec W [l0, u1], matVec W [u0, l1], matVec W [u0, u1]][i]? = some (matVec W Vi) →
      [matVec W [l0, l1], matVec W [l0, u1], matVec W [u0, l1], matVec W [u0, u1]][j]? = some (matVec W Vj) →
      i ≠ j → 0 ≤ s → s ≤ 1 →
      (∀ w ∈ W, ((dot w Vi : Rat) : L) + s * (((dot w Vj : Rat) : L) - (dot w Vi : Rat))
        = gdot (castV w) [z0, z1]) →
      isPtIn exact false (matVec W [x0, x1])
        [matVec W [l0, l1], matVec W [l0, u1], matVec W [u0, l1], matVec W [u0, u1]] = true := by
    intro i j Vi Vj s hi hj hij hs0 hs1 hcomb
    refine seg_hitN (L := L) (N := W.length) hi hj hij (by simp [polyDim, hlen]) (hlen _) (hlen _)
      (hlen _) hs0 hs1 ?_
    intro k hk
    rw [matVec_getD W Vi k hk, matVec_getD W Vj k hk, matVec_getD W _ k hk,
      hcomb _ (List.getElem_mem hk)]
    exact hdz _ (List.getElem_mem hk)
  simp only [List.mem_cons, List.not_mem_nil, or_false] at hpt
  rcases hpt with rfl | rfl | rfl | rfl
  · have e : z0 = l0 := by rw [hz0]; simp only at htight; linarith
    obtain ⟨s, hs0, hs1, hs⟩ := exists_param hz1l hz1u
    refine close 0 1 [l0, l1] [l0, u1] s rfl rfl (by decide) hs0 hs1 ?_
    intro w hw
    obtain ⟨a, b, rfl⟩ := List.length_eq_two.mp (hW w hw)
    simp only [castV, List.map_cons, List.map_nil, gdot, dot, add_zero]
    rw [e, ← hs]; push_cast; ring
  · have e : z0 = u0 := by rw [hz0]; simp only at htight; linarith
    obtain ⟨s, hs0, hs1, hs⟩ := exists_param hz1l hz1u
    refine close 2 3 [u0, l1] [u0, u1] s rfl rfl (by decide) hs0 hs1 ?_
    intro w hw
    obtain ⟨a, b, rfl⟩ := List.length_eq_two.mp (hW w hw)
    simp only [castV, List.map_cons, List.map_nil, gdot, dot, add_zero]
    rw [e, ← hs]; push_cast; ring
  · have e : z1 = l1 := by rw [hz1]; simp only at htight; linarith
    obtain ⟨s, hs0, hs1, hs⟩ := exists_param hz0l hz0u
    refine close 0 2 [l0, l1] [u0, l1] s rfl rfl (by decide) hs0 hs1 ?_
    intro w hw
    obtain ⟨a, b, rfl⟩ := List.length_eq_two.mp (hW w hw)
    simp only [castV, List.map_cons, List.map_nil, gdot, dot, add_zero]
    rw [e, ← hs]; push_cast; ring
  · have e : z1 = u1 := by rw [hz1]; simp only at htight; linarith
    obtain ⟨s, hs0, hs1, hs⟩ := exists_param hz0l hz0u
    refine close 1 3 [l0, u1] [u0, u1] s rfl rfl (by decide) hs0 hs1 ?_
    intro w hw
    obtain ⟨a, b, rfl⟩ := List.length_eq_two.mp (hW w hw)
    simp only [castV, List.map_cons, List.map_nil, gdot, dot, add_zero]
    rw [e, ← hs]; push_cast; ring

/-- **Completeness at the vertices of `R₁`, every 2-D cone.** -/
theorem checkDominates_complete_vertices_2d (W : Mat) (hW : ∀ w ∈ W, w.length = 2)
    (g0 g1 : Rat) (hg : g0 ≠ 0 ∨ g1 ≠ 0) (hgC : ∀ w ∈ W, 0 ≤ dot w [g0, g1])
    (l1 u1 l2 u2 : Vec)
    (hl1 : l1.length = 2) (hu1 : u1.length = 2) (hl2 : l2.length = 2) (hu2 : u2.length = 2)
    (hsem : ∀ x ∈ vertices l1 u1, ∃ y : List L, GInBox (castV l2) (castV u2) y ∧
      ∀ w ∈ W, gdot (castV w) y ≤ ((dot w x : Rat) : L)) :
    checkDominates W l1 u1 l2 u2 = true := by
  obtain ⟨l10, l11, rfl⟩ := List.length_eq_two.mp hl1
  obtain ⟨u10, u11, rfl⟩ := List.length_eq_two.mp hu1
  obtain ⟨l20, l21, rfl⟩ := List.length_eq_two.mp hl2
  obtain ⟨u20, u21, rfl⟩ := List.length_eq_two.mp hu2
  simp only [checkDominates, checkDominatesR, List.all_map, List.all_eq_true, Function.comp]
  intro x hx
  obtain ⟨y, hy, hd⟩ := hsem x hx
  have hxl := vertices_length [l10, l11] [u10, u11] rfl x hx
  obtain ⟨x0, x1, rfl⟩ := List.length_eq_two.mp hxl
  have hyl := (GInBox.length_eq hy).1
  simp only [castV_length] at hyl
  obtain ⟨y0, y1, rfl⟩ := List.length_eq_two.mp hyl
  simp only [castV, List.map_cons, List.map_nil, GInBox] at hy
  exact isPtIn_complete_2d W hW g0 g1 hg hgC l20 l21 u20 u21 x0 x1 y0 y1
    ⟨hy.1, hy.2.1⟩ ⟨hy.2.2.1, hy.2.2.2.1⟩ hd

end TwoD

end VOPy.Pess
