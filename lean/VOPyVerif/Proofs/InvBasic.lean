import VOPyVerif.Model.Rect
import VOPyVerif.Model.Pessimistic
import Mathlib.Algebra.Order.Field.Rat
import Mathlib.Algebra.Order.Field.Basic
import Mathlib.Tactic.Ring
import Mathlib.Tactic.Linarith
import Mathlib.Tactic.Positivity
import Mathlib.Tactic.FieldSimp
/-!
# List-level algebra for the invariance theorems (C09, C10, C11, C14)

`vadd`/`vsub`/`smul`/`dot`/`matVec` on `Vec = List ℚ` under a common translation and a positive
scaling, the vertex enumeration under both, and Boolean `all`/`any` congruence.  Everything is
about the executable definitions of `Model/Basic.lean` (truncating `zipWith` semantics), so every
statement carries exactly the length hypotheses it needs.
-/
namespace VOPy.Inv
open VOPy

/-! ## Boolean folds -/

theorem all_congr {α : Type} {l : List α} {p q : α → Bool} (h : ∀ x ∈ l, p x = q x) :
    l.all p = l.all q := by
  induction l with
  | nil => rfl
  | cons a l ih =>
    simp only [List.all_cons]
    rw [h a (by simp), ih (fun x hx => h x (by simp [hx]))]

theorem any_congr {α : Type} {l : List α} {p q : α → Bool} (h : ∀ x ∈ l, p x = q x) :
    l.any p = l.any q := by
  induction l with
  | nil => rfl
  | cons a l ih =>
    simp only [List.any_cons]
    rw [h a (by simp), ih (fun x hx => h x (by simp [hx]))]

/-! ## lengths -/

@[simp] theorem vadd_length (a b : Vec) : (vadd a b).length = min a.length b.length := by
  simp [vadd]

@[simp] theorem vsub_length (a b : Vec) : (vsub a b).length = min a.length b.length := by
  simp [vsub]

@[simp] theorem smul_length (c : ℚ) (a : Vec) : (smul c a).length = a.length := by simp [smul]

theorem vadd_length_eq {a t : Vec} (h : a.length = t.length) : (vadd a t).length = t.length := by
  simp [h]

/-! ## translation -/

/-- `(a + t) − (b + t) = a − b` -/
theorem vsub_vadd_vadd (a b t : Vec) (ha : a.length = t.length) (hb : b.length = t.length) :
    vsub (vadd a t) (vadd b t) = vsub a b := by
  induction t generalizing a b with
  | nil =>
    have : a = [] := List.eq_nil_of_length_eq_zero (by simpa using ha)
    subst this; simp [vsub, vadd]
  | cons z t ih =>
    cases a with
    | nil => simp at ha
    | cons x a =>
      cases b with
      | nil => simp at hb
      | cons y b =>
        have := ih a b (by simpa using ha) (by simpa using hb)
        simp only [vsub, vadd, List.zipWith_cons_cons, List.cons.injEq] at this ⊢
        exact ⟨by ring, this⟩

/-- `((a + t) + s) − (b + t) = (a + s) − b` for any `s` -/
theorem vsub_vadd_slack (a b t s : Vec) (ha : a.length = t.length) (hb : b.length = t.length) :
    vsub (vadd (vadd a t) s) (vadd b t) = vsub (vadd a s) b := by
  induction t generalizing a b s with
  | nil =>
    have : a = [] := List.eq_nil_of_length_eq_zero (by simpa using ha)
    subst this; simp [vsub, vadd]
  | cons z t ih =>
    cases a with
    | nil => simp at ha
    | cons x a =>
      cases b with
      | nil => simp at hb
      | cons y b =>
        cases s with
        | nil => simp [vsub, vadd]
        | cons r s =>
          have := ih a b s (by simpa using ha) (by simpa using hb)
          simp only [vsub, vadd, List.zipWith_cons_cons, List.cons.injEq] at this ⊢
          exact ⟨by ring, this⟩

/-- `(a + t) + (−t) = a` -/
theorem vadd_vneg_cancel (a t : Vec) (ha : a.length = t.length) : vadd (vadd a t) (vneg t) = a := by
  induction t generalizing a with
  | nil =>
    have : a = [] := List.eq_nil_of_length_eq_zero (by simpa using ha)
    subst this; simp [vadd, vneg]
  | cons z t ih =>
    cases a with
    | nil => simp at ha
    | cons x a =>
      have := ih a (by simpa using ha)
      simp only [vadd, vneg, List.map_cons, List.zipWith_cons_cons, List.cons.injEq] at this ⊢
      exact ⟨by ring, this⟩

@[simp] theorem vneg_length (t : Vec) : (vneg t).length = t.length := by simp [vneg]

theorem dot_vadd (w a t : Vec) (h : a.length = t.length) : dot w (vadd a t) = dot w a + dot w t := by
  induction w generalizing a t with
  | nil => simp [dot]
  | cons x w ih =>
    cases a with
    | nil =>
      have : t = [] := List.eq_nil_of_length_eq_zero (by simpa using h.symm)
      subst this; simp [dot, vadd]
    | cons y a =>
      cases t with
      | nil => simp at h
      | cons z t =>
        have := ih a t (by simpa using h)
        simp only [vadd, List.zipWith_cons_cons, dot] at this ⊢
        rw [this]; ring

theorem matVec_vadd (W : Mat) (a t : Vec) (h : a.length = t.length) :
    matVec W (vadd a t) = vadd (matVec W a) (matVec W t) := by
  induction W with
  | nil => simp [matVec, vadd]
  | cons w W ih =>
    simp only [matVec, List.map_cons, vadd, List.zipWith_cons_cons, List.cons.injEq] at ih ⊢
    exact ⟨dot_vadd w a t h, ih⟩

@[simp] theorem matVec_length (W : Mat) (a : Vec) : (matVec W a).length = W.length := by simp [matVec]

theorem vle_vadd (a b t : Vec) (ha : a.length = t.length) (hb : b.length = t.length) :
    vle (vadd a t) (vadd b t) = vle a b := by
  induction t generalizing a b with
  | nil =>
    have : a = [] := List.eq_nil_of_length_eq_zero (by simpa using ha)
    subst this; simp [vle, vadd]
  | cons z t ih =>
    cases a with
    | nil => simp at ha
    | cons x a =>
      cases b with
      | nil => simp at hb
      | cons y b =>
        have := ih a b (by simpa using ha) (by simpa using hb)
        simp only [vle, vadd, List.zipWith_cons_cons, List.all_cons] at this ⊢
        rw [this]
        congr 1
        simp

theorem getElem?_vadd (a t : Vec) (d : Nat) :
    (vadd a t)[d]? = match a[d]?, t[d]? with
      | some x, some y => some (x + y)
      | _, _ => none := by
  simp only [vadd, List.getElem?_zipWith]
  cases a[d]? <;> cases t[d]? <;> rfl

/-! ## positive scaling -/

theorem vsub_smul (c : ℚ) (a b : Vec) : vsub (smul c a) (smul c b) = smul c (vsub a b) := by
  induction a generalizing b with
  | nil => simp [vsub, smul]
  | cons x a ih =>
    cases b with
    | nil => simp [vsub, smul]
    | cons y b =>
      have := ih b
      simp only [vsub, smul, List.map_cons, List.zipWith_cons_cons, List.cons.injEq] at this ⊢
      exact ⟨by ring, this⟩

theorem vadd_smul (c : ℚ) (a b : Vec) : vadd (smul c a) (smul c b) = smul c (vadd a b) := by
  induction a generalizing b with
  | nil => simp [vadd, smul]
  | cons x a ih =>
    cases b with
    | nil => simp [vadd, smul]
    | cons y b =>
      have := ih b
      simp only [vadd, smul, List.map_cons, List.zipWith_cons_cons, List.cons.injEq] at this ⊢
      exact ⟨by ring, this⟩

theorem dot_smul_right (c : ℚ) (w a : Vec) : dot w (smul c a) = c * dot w a := by
  induction w generalizing a with
  | nil => simp [dot]
  | cons x w ih =>
    cases a with
    | nil => simp [dot, smul]
    | cons y a =>
      have := ih a
      simp only [smul, List.map_cons, dot] at this ⊢
      rw [this]; ring

theorem dot_smul_left (c : ℚ) (w a : Vec) : dot (smul c w) a = c * dot w a := by
  induction w generalizing a with
  | nil => simp [dot, smul]
  | cons x w ih =>
    cases a with
    | nil => simp [dot, smul]
    | cons y a =>
      have := ih a
      simp only [smul, List.map_cons, dot] at this ⊢
      rw [this]; ring

theorem matVec_smul (W : Mat) (c : ℚ) (a : Vec) : matVec W (smul c a) = smul c (matVec W a) := by
  simp only [matVec, smul, List.map_map]
  apply List.map_congr_left
  intro w _
  exact dot_smul_right c w a

theorem smul_smul (c d : ℚ) (a : Vec) : smul c (smul d a) = smul (c * d) a := by
  simp only [smul, List.map_map]
  apply List.map_congr_left
  intro x _
  simp [mul_assoc]

theorem smul_one (a : Vec) : smul 1 a = a := by simp [smul]

theorem smul_replicate (c x : ℚ) (n : Nat) : smul c (List.replicate n x) = List.replicate n (c * x) := by
  simp [smul]

theorem vle_smul (c : ℚ) (hc : 0 < c) (a b : Vec) : vle (smul c a) (smul c b) = vle a b := by
  induction a generalizing b with
  | nil => simp [vle, smul]
  | cons x a ih =>
    cases b with
    | nil => simp [vle, smul]
    | cons y b =>
      have := ih b
      simp only [vle, smul, List.map_cons, List.zipWith_cons_cons, List.all_cons] at this ⊢
      rw [this]
      congr 1
      simp only [id, decide_eq_decide]
      exact mul_le_mul_iff_right₀ hc

theorem getElem?_smul (c : ℚ) (a : Vec) (d : Nat) : (smul c a)[d]? = (a[d]?).map (c * ·) := by
  simp [smul]

/-- the cone test is invariant under a positive scaling of its argument -/
theorem inCone_smul (W : Mat) (c : ℚ) (hc : 0 < c) (x : Vec) : inCone W (smul c x) = inCone W x := by
  simp only [inCone, allNonneg, matVec, List.all_map]
  apply all_congr
  intro w _
  simp only [Function.comp_apply, dot_smul_right, decide_eq_decide]
  exact mul_nonneg_iff_of_pos_left hc

/-! ## the vertex enumeration -/

theorem rect_vertices_vadd (l u t : Vec) (hl : l.length = t.length) (hu : u.length = t.length) :
    Rect.vertices (vadd l t) (vadd u t) = (Rect.vertices l u).map (fun v => vadd v t) := by
  induction t generalizing l u with
  | nil =>
    have : l = [] := List.eq_nil_of_length_eq_zero (by simpa using hl)
    subst this
    simp [Rect.vertices, vadd]
  | cons z t ih =>
    cases l with
    | nil => simp at hl
    | cons a l =>
      cases u with
      | nil => simp at hu
      | cons b u =>
        have := ih l u (by simpa using hl) (by simpa using hu)
        simp only [vadd, List.zipWith_cons_cons, Rect.vertices] at this ⊢
        rw [this]
        simp [List.map_append, List.map_map, Function.comp_def]

theorem rect_vertices_smul (c : ℚ) (l u : Vec) :
    Rect.vertices (smul c l) (smul c u) = (Rect.vertices l u).map (smul c) := by
  induction l generalizing u with
  | nil => simp [Rect.vertices, smul]
  | cons a l ih =>
    cases u with
    | nil => simp [Rect.vertices, smul]
    | cons b u =>
      have := ih u
      simp only [smul, List.map_cons, Rect.vertices] at this ⊢
      rw [this]
      simp [List.map_append, List.map_map, Function.comp_def, smul]

theorem rect_vertices_length (l u : Vec) (h : l.length = u.length) :
    ∀ v ∈ Rect.vertices l u, v.length = l.length := by
  induction l generalizing u with
  | nil => intro v hv; simp [Rect.vertices] at hv; simp [hv]
  | cons a l ih =>
    cases u with
    | nil => simp at h
    | cons b u =>
      intro v hv
      simp only [Rect.vertices, List.mem_append, List.mem_map] at hv
      rcases hv with ⟨v', hv', rfl⟩ | ⟨v', hv', rfl⟩ <;>
        simp [ih u (by simpa using h) v' hv']

theorem pess_vertices_eq (l u : Vec) : Pess.vertices l u = Rect.vertices l u := by
  induction l generalizing u with
  | nil => simp [Pess.vertices, Rect.vertices]
  | cons a l ih =>
    cases u with
    | nil => simp [Pess.vertices, Rect.vertices]
    | cons b u => simp [Pess.vertices, Rect.vertices, ih u]

end VOPy.Inv
