import VOPyVerif.Proofs.AdaptiveOps
/-!
# The leaf volumes add up to 1 — helper lemmas for C18

`Space.leafVolume s` = Σ over the leaves (`Space.leaves`, the list the driver prints) of the volume of
their cells.  This is the quantity the harness evaluates on the real arrays.
-/
set_option linter.unusedSectionVars false
namespace VOPy.Adaptive

/-- volume of node `i`'s cell (0 for an index out of range) -/
def Space.volAt (s : Space) (i : Nat) : Rat :=
  match s.cellAt i with
  | some c => vol c
  | none => 0

def Space.leafVolume (s : Space) : Rat := (s.leaves.map s.volAt).sum

theorem sum_map_split_of_nodup {f : Nat → Rat} : ∀ {l : List Nat} {i : Nat}, l.Nodup → i ∈ l →
    (l.map f).sum = f i + ((l.filter (fun j => j != i)).map f).sum
  | [], i, _, h => by simp at h
  | a :: l, i, hnd, h => by
      rw [List.nodup_cons] at hnd
      by_cases hai : a = i
      · subst hai
        have hfil : l.filter (fun j => j != a) = l := by
          rw [List.filter_eq_self]
          intro j hj
          simp only [bne_iff_ne, ne_eq]
          rintro rfl; exact hnd.1 hj
        simp [hfil]
      · have hil : i ∈ l := by
          rcases List.mem_cons.mp h with h | h
          · exact absurd h.symm hai
          · exact h
        have ih := sum_map_split_of_nodup (f := f) hnd.2 hil
        have : (a != i) = true := by simpa using hai
        simp only [List.map_cons, List.sum_cons, List.filter_cons, this, if_true, ih]
        ring

theorem leaves_nodup (s : Space) : s.leaves.Nodup :=
  List.nodup_range.filter _

theorem mem_leaves {s : Space} {i : Nat} : i ∈ s.leaves ↔ s.isLeaf i = true := by
  simp only [Space.leaves, List.mem_filter, List.mem_range, Space.isLeaf_iff]
  constructor
  · exact fun h => h.2
  · exact fun h => ⟨h.1, h⟩

theorem refine_leaves {s s' : Space} {i : Nat} {p : Node}
    (hwf : ∀ k ∈ s.refined, k < s.nodes.length) (hi : i < s.nodes.length)
    (hn : s'.nodes = s.nodes ++ children p) (hr : s'.refined = i :: s.refined) :
    s'.leaves = s.leaves.filter (fun j => j != i) ++
      (List.range (children p).length).map (fun k => s.nodes.length + k) := by
  have hleaf' := refine_isLeaf (p := p) hwf hi hn hr
  unfold Space.leaves
  rw [hn, List.length_append, List.range_add, List.filter_append, List.filter_filter]
  congr 1
  · apply List.filter_congr
    intro j hj
    have hj' : j < s.nodes.length := List.mem_range.mp hj
    rw [Bool.eq_iff_iff, hleaf' j]
    simp only [Bool.and_eq_true, bne_iff_ne, ne_eq]
    constructor
    · rintro (⟨_, h2, h3⟩ | ⟨h1, _⟩)
      · exact ⟨h3, h2⟩
      · omega
    · rintro ⟨h1, h2⟩; exact Or.inl ⟨hj', h2, h1⟩
  · rw [List.filter_eq_self]
    intro j hj
    rw [hleaf' j]
    simp only [List.mem_map, List.mem_range] at hj
    obtain ⟨k, hk, rfl⟩ := hj
    exact Or.inr ⟨by omega, by omega⟩

theorem map_getElem?_range {α β : Type} (l : List α) (g : Option α → β) :
    (List.range l.length).map (fun a => g l[a]?) = l.map (fun x => g (some x)) := by
  apply List.ext_getElem
  · simp
  · intro a h1 h2
    simp only [List.length_map, List.length_range] at h1
    simp [List.getElem?_eq_getElem h1]

theorem refine_leafVolume {d : Nat} {s s' : Space} {i : Nat} {ch : List Nat} (hwf : s.WF d)
    (hleaf : s.isLeaf i = true) (h : s.refine i = some (s', ch)) :
    s'.leafVolume = s.leafVolume := by
  obtain ⟨p, hp, hs, _⟩ := Space.refine_eq h
  obtain ⟨hn, hr, _⟩ := refine_nodes hp hs
  have hi := lt_of_getElem?_some hp
  unfold Space.leafVolume
  rw [refine_leaves hwf.refinedLt hi hn hr, List.map_append, List.sum_append,
    sum_map_split_of_nodup (f := s.volAt) (leaves_nodup s) (mem_leaves.mpr hleaf)]
  have hold : (s.leaves.filter (fun j => j != i)).map s'.volAt =
      (s.leaves.filter (fun j => j != i)).map s.volAt := by
    apply List.map_congr_left
    intro j hj
    have hj' : j < s.nodes.length := ((Space.isLeaf_iff s j).mp (mem_leaves.mp (List.mem_filter.mp hj).1)).1
    simp [Space.volAt, refine_cellAt_old hn hj']
  have hnew : ((List.range (children p).length).map (fun k => s.nodes.length + k)).map s'.volAt =
      (childCells p.cell).map vol := by
    rw [List.map_map, children_length, ← childCells_length]
    have := map_getElem?_range (childCells p.cell) (fun o => match o with | some c => vol c | none => 0)
    simp only at this
    rw [← this]
    apply List.map_congr_left
    intro a _
    simp only [Function.comp, Space.volAt]
    rw [refine_cellAt_new hn (by omega), Nat.add_sub_cancel_left]
  have hvi : s.volAt i = vol p.cell := by simp [Space.volAt, Space.cellAt, hp]
  rw [hold, hnew, childCells_vol_sum, hvi]
  ring

theorem setRegion_leafVolume {s s' : Space} {i : Nat} {lo up : List Rat}
    (h : s.setRegion i lo up = some s') : s'.leafVolume = s.leafVolume := by
  obtain ⟨_, _, h3, h4, _, _⟩ := setRegion_facts h
  have hl : s'.leaves = s.leaves := by
    unfold Space.leaves
    rw [h3]
    apply List.filter_congr
    intro j _; exact setRegion_isLeaf h j
  unfold Space.leafVolume
  rw [hl]
  apply congrArg
  apply List.map_congr_left
  intro j _
  simp [Space.volAt, h4]

theorem vol_unitCell (d : Nat) : vol (unitCell d) = 1 := by
  induction d with
  | zero => rfl
  | succ k ih =>
    simp only [unitCell, List.replicate_succ, vol] at ih ⊢
    rw [ih]; norm_num

theorem root_leafVolume (d m md : Nat) : (Space.root d m md).leafVolume = 1 := by
  have : (Space.root d m md).leaves = [0] := by
    simp [Space.leaves, Space.root, Space.isLeaf, List.range_succ]
  simp only [Space.leafVolume, this, List.map_cons, List.map_nil, List.sum_cons, List.sum_nil, add_zero]
  have hc : (Space.root d m md).cellAt 0 = some (unitCell d) := by
    simp [Space.cellAt, Space.root, unitCell]
  simp [Space.volAt, hc, vol_unitCell]

theorem applyOp_leafVolume {d : Nat} {s s' : Space} {op : SOp} {ans : Option Bool}
    (hwf : s.WF d) (hleaf : s.leafOnly [op] = true) (h : s.applyOp op = some (s', ans)) :
    s'.leafVolume = s.leafVolume := by
  cases op with
  | refine i =>
    simp only [Space.applyOp, Option.map_eq_some_iff] at h
    obtain ⟨⟨s1, ch⟩, hr, heq⟩ := h
    simp only [Prod.mk.injEq] at heq
    obtain ⟨rfl, _⟩ := heq
    have hl : s.isLeaf i = true := by
      simp only [Space.leafOnly, Bool.and_eq_true] at hleaf
      exact hleaf.1
    exact refine_leafVolume hwf hl hr
  | guarded i vh =>
    simp only [Space.applyOp] at h
    cases hsr : s.shouldRefine i vh with
    | none => simp [hsr] at h
    | some b =>
      cases b with
      | false =>
        simp only [hsr, Option.some.injEq, Prod.mk.injEq] at h
        obtain ⟨rfl, _⟩ := h
        rfl
      | true =>
        simp only [hsr, Option.map_eq_some_iff] at h
        obtain ⟨⟨s1, ch⟩, hr, heq⟩ := h
        simp only [Prod.mk.injEq] at heq
        obtain ⟨rfl, _⟩ := heq
        have hl : s.isLeaf i = true := by
          simp only [Space.leafOnly, hsr, Bool.and_eq_true, Bool.or_eq_true] at hleaf
          rcases hleaf.1 with h1 | h1
          · simp at h1
          · exact h1
        exact refine_leafVolume hwf hl hr
  | setRegion i lo up =>
    simp only [Space.applyOp, Option.map_eq_some_iff] at h
    obtain ⟨s1, hr, heq⟩ := h
    simp only [Prod.mk.injEq] at heq
    obtain ⟨rfl, _⟩ := heq
    exact setRegion_leafVolume hr

theorem runOps_leafVolume {d : Nat} : ∀ (ops : List SOp) {s s' : Space} {ans : List Bool},
    s.WF d → s.leafOnly ops = true → s.runOps ops = some (s', ans) → s'.leafVolume = s.leafVolume
  | [], s, s', ans, _, _, h => by
      simp only [Space.runOps, Option.some.injEq, Prod.mk.injEq] at h
      obtain ⟨rfl, _⟩ := h
      rfl
  | op :: ops, s, s', ans, hwf, hl, h => by
      simp only [Space.runOps] at h
      cases ha : s.applyOp op with
      | none => simp [ha] at h
      | some r =>
        obtain ⟨s1, a1⟩ := r
        simp only [ha] at h
        cases hr : s1.runOps ops with
        | none => simp [hr] at h
        | some r2 =>
          obtain ⟨s2, l2⟩ := r2
          simp only [hr, Option.some.injEq, Prod.mk.injEq] at h
          obtain ⟨rfl, _⟩ := h
          obtain ⟨hl1, hl2⟩ := leafOnly_cons hl ha
          have hwf1 : s1.WF d := by
            cases op with
            | refine i =>
              simp only [Space.applyOp, Option.map_eq_some_iff] at ha
              obtain ⟨⟨s1', ch⟩, hr', heq⟩ := ha
              simp only [Prod.mk.injEq] at heq
              obtain ⟨rfl, _⟩ := heq
              exact refine_wf hwf hr'
            | guarded i vh =>
              simp only [Space.applyOp] at ha
              cases hsr : s.shouldRefine i vh with
              | none => simp [hsr] at ha
              | some b =>
                cases b with
                | false =>
                  simp only [hsr, Option.some.injEq, Prod.mk.injEq] at ha
                  obtain ⟨rfl, _⟩ := ha
                  exact hwf
                | true =>
                  simp only [hsr, Option.map_eq_some_iff] at ha
                  obtain ⟨⟨s1', ch⟩, hr', heq⟩ := ha
                  simp only [Prod.mk.injEq] at heq
                  obtain ⟨rfl, _⟩ := heq
                  exact refine_wf hwf hr'
            | setRegion i lo up =>
              simp only [Space.applyOp, Option.map_eq_some_iff] at ha
              obtain ⟨s1', hr', heq⟩ := ha
              simp only [Prod.mk.injEq] at heq
              obtain ⟨rfl, _⟩ := heq
              exact setRegion_wf hwf hr'
          rw [runOps_leafVolume ops hwf1 hl2 hr, applyOp_leafVolume hwf hl1 ha]

end VOPy.Adaptive
