import VOPyVerif.Proofs.AcqDecoupled
/-! Helper lemmas for C07: the pre-fix loop, evaluate-everything rounds, and the append-only data
stores behind `add_sample`. -/
namespace VOPy.Acq

/-! ## the loop before fix commit 00d0f01 -/

theorem pickLoopPreFix_eq : ∀ (q : Nat) (rem : List (Nat × Rat)),
    pickLoopPreFix q rem = if q ≤ rem.length then some (pickLoop q rem) else none
  | 0, rem => by simp [pickLoopPreFix]
  | q + 1, rem => by
    by_cases hne : rem = []
    · subst hne; simp [pickLoopPreFix, argmax]
    · cases ha : argmax (rem.map (·.2)) with
      | none => exact absurd (List.map_eq_nil_iff.mp (argmax_eq_none.mp ha)) hne
      | some p =>
        obtain ⟨j, v⟩ := p
        have h1 := (argmax_spec ha).1
        rw [List.getElem?_map] at h1
        cases he : rem[j]? with
        | none => rw [he] at h1; simp at h1
        | some e =>
          have hjl : j < rem.length := (List.getElem?_eq_some_iff.mp he).1
          simp only [pickLoopPreFix, pickLoop, ha, he]
          rw [pickLoopPreFix_eq q (rem.eraseIdx j), List.length_eraseIdx, if_pos hjl]
          by_cases hq : q ≤ rem.length - 1
          · rw [if_pos hq, if_pos (by omega)]; rfl
          · rw [if_neg hq, if_neg (by omega)]; rfl

/-! ## evaluate-everything rounds -/

theorem mem_evaluateAll {S U : List Nat} {i : Nat} : i ∈ evaluateAll S U ↔ i ∈ S ∨ i ∈ U := by
  simp only [evaluateAll, List.mem_append, List.mem_filter, Bool.not_eq_eq_eq_not, Bool.not_true,
    List.contains_eq_mem, decide_eq_false_iff_not]
  constructor
  · rintro (h | ⟨h, _⟩)
    · exact Or.inl h
    · exact Or.inr h
  · rintro (h | h)
    · exact Or.inl h
    · by_cases hs : i ∈ S
      · exact Or.inl hs
      · exact Or.inr ⟨h, hs⟩

theorem evaluateAll_nodup {S U : List Nat} (hS : S.Nodup) (hU : U.Nodup) :
    (evaluateAll S U).Nodup := by
  simp only [evaluateAll]
  refine List.nodup_append.mpr ⟨hS, hU.filter _, ?_⟩
  intro a ha b hb hab
  subst hab
  simp only [List.mem_filter, Bool.not_eq_eq_eq_not, Bool.not_true, List.contains_eq_mem,
    decide_eq_false_iff_not] at hb
  exact hb.2 ha

/-! ## stores -/

theorem foldl_modify_append_singleton {β : Type} : ∀ (pairs : List (Nat × β)) (st : List (List β)) (i : Nat),
    (pairs.foldl (fun st r => st.modify r.1 (· ++ [r.2])) st)[i]? =
      st[i]?.map (· ++ (pairs.filter (fun r => r.1 == i)).map (·.2))
  | [], st, i => by simp
  | r :: rs, st, i => by
    rw [List.foldl_cons, foldl_modify_append_singleton rs, List.getElem?_modify]
    cases st[i]? with
    | none => simp
    | some s =>
      by_cases h : r.1 = i
      · simp [h]
      · have h' : (r.1 == i) = false := by simpa using h
        simp [h, h']

theorem foldl_modify_append_of_nodup {β : Type} (G : Nat → List β) :
    ∀ (ds : List Nat) (st : List (List β)) (j : Nat), ds.Nodup →
    (ds.foldl (fun st d => st.modify d (· ++ G d)) st)[j]? =
      st[j]?.map (fun s => if j ∈ ds then s ++ G j else s)
  | [], st, j, _ => by simp
  | d :: ds, st, j, h => by
    have hd := List.nodup_cons.mp h
    rw [List.foldl_cons, foldl_modify_append_of_nodup G ds _ j hd.2, List.getElem?_modify]
    cases st[j]? with
    | none => simp
    | some s =>
      by_cases hj : d = j
      · subst hj
        simp [hd.1]
      · have : j ≠ d := fun h => hj h.symm
        simp [hj, this]

theorem mem_insertSorted {d x : Nat} : ∀ {l : List Nat}, x ∈ insertSorted d l ↔ x = d ∨ x ∈ l
  | [] => by simp [insertSorted]
  | e :: es => by
    simp only [insertSorted]
    split
    · simp
    · split
      · rename_i h; subst h; simp
      · simp only [List.mem_cons, mem_insertSorted (l := es)]
        constructor
        · rintro (h | h | h)
          · exact Or.inr (Or.inl h)
          · exact Or.inl h
          · exact Or.inr (Or.inr h)
        · rintro (h | h | h)
          · exact Or.inr (Or.inl h)
          · exact Or.inl h
          · exact Or.inr (Or.inr h)

theorem insertSorted_sorted {d : Nat} : ∀ {l : List Nat}, l.Pairwise (· < ·) →
    (insertSorted d l).Pairwise (· < ·)
  | [], _ => by simp [insertSorted]
  | e :: es, h => by
    have he := List.pairwise_cons.mp h
    simp only [insertSorted]
    split
    · rename_i hlt
      refine List.pairwise_cons.mpr ⟨?_, h⟩
      intro a ha
      rcases List.mem_cons.mp ha with rfl | ha
      · exact hlt
      · exact lt_trans hlt (he.1 a ha)
    · split
      · exact h
      · rename_i h1 h2
        refine List.pairwise_cons.mpr ⟨?_, insertSorted_sorted he.2⟩
        intro a ha
        rcases mem_insertSorted.mp ha with rfl | ha
        · omega
        · exact he.1 a ha

theorem uniqueSorted_sorted : ∀ (dims : List Nat), (uniqueSorted dims).Pairwise (· < ·)
  | [] => by simp [uniqueSorted]
  | d :: ds => by
    simp only [uniqueSorted, List.foldr_cons]
    exact insertSorted_sorted (uniqueSorted_sorted ds)

theorem mem_uniqueSorted {x : Nat} : ∀ {dims : List Nat}, x ∈ uniqueSorted dims ↔ x ∈ dims
  | [] => by simp [uniqueSorted]
  | d :: ds => by
    simp only [uniqueSorted, List.foldr_cons, List.mem_cons]
    rw [mem_insertSorted]
    exact or_congr Iff.rfl (mem_uniqueSorted (dims := ds))

theorem uniqueSorted_nodup (dims : List Nat) : (uniqueSorted dims).Nodup :=
  (uniqueSorted_sorted dims).imp (fun h => ne_of_lt h)

end VOPy.Acq
