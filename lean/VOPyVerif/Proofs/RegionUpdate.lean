import VOPyVerif.Model.RegionUpdate
import Mathlib.Analysis.Real.Sqrt
import Mathlib.Algebra.Order.Field.Rat
import Mathlib.Data.Rat.Cast.Order
import Mathlib.Tactic.Ring
import Mathlib.Tactic.Linarith
/-! Helper lemmas for C14: the rectangle update formula entry by entry, validity (`lower ≤ upper`),
the intersection rule as sets over an ordered field, the design-space loop (listed / unlisted
designs), and invariants of call sequences. -/
namespace VOPy.Region

/-! ### scale broadcast and bounds -/

theorem bcast_spec {m : Nat} {s s' : Vec} (h : bcast m s = some s') :
    s'.length = m ∧ ((s.length = m ∧ s' = s) ∨ (∃ a, s = [a] ∧ s' = List.replicate m a)) := by
  unfold bcast at h
  split at h
  · rename_i hl
    simp only [Option.some.injEq] at h
    subst h
    exact ⟨hl, Or.inl ⟨hl, rfl⟩⟩
  · split at h
    · rename_i a _
      simp only [Option.some.injEq] at h
      subst h
      exact ⟨by simp, Or.inr ⟨a, rfl, rfl⟩⟩
    · simp at h

theorem bcast_nonneg {m : Nat} {s s' : Vec} (h : bcast m s = some s') (hs : ∀ a ∈ s, 0 ≤ a) :
    ∀ a ∈ s', 0 ≤ a := by
  obtain ⟨_, h' | ⟨a, rfl, rfl⟩⟩ := bcast_spec h
  · rw [h'.2]; exact hs
  · intro b hb
    rw [List.eq_of_mem_replicate hb]
    exact hs a (by simp)

theorem bounds_spec {mean std scale L U : Vec} (h : bounds mean std scale = some (L, U)) :
    ∃ s', bcast std.length scale = some s' ∧ mean.length = std.length ∧
      L = List.zipWith (· - ·) mean (List.zipWith (· * ·) std s') ∧
      U = List.zipWith (· + ·) mean (List.zipWith (· * ·) std s') := by
  unfold bounds at h
  split at h
  · simp at h
  · rename_i s' hs'
    split at h
    · rename_i hl
      simp only [Option.some.injEq, Prod.mk.injEq] at h
      exact ⟨s', hs', hl, h.1.symm, h.2.symm⟩
    · simp at h

/-- entry `j` of the two corners: `mean_j ∓ std_j · s_j` -/
theorem bounds_entry {mean std scale L U : Vec} (h : bounds mean std scale = some (L, U)) :
    L.length = std.length ∧ U.length = std.length ∧
    ∃ s', bcast std.length scale = some s' ∧
      ∀ (j : Nat) (μ σ a : Rat), mean[j]? = some μ → std[j]? = some σ → s'[j]? = some a →
        L[j]? = some (μ - σ * a) ∧ U[j]? = some (μ + σ * a) := by
  obtain ⟨s', hs', hl, rfl, rfl⟩ := bounds_spec h
  have hlen := (bcast_spec hs').1
  refine ⟨by simp [hl, hlen], by simp [hl, hlen], s', hs', ?_⟩
  intro j μ σ a hμ hσ ha
  simp [List.getElem?_zipWith, hμ, hσ, ha]

theorem bounds_le (mean : Vec) : ∀ (std s : Vec), (∀ σ ∈ std, 0 ≤ σ) → (∀ a ∈ s, 0 ≤ a) →
    List.Forall₂ (· ≤ ·) (List.zipWith (· - ·) mean (List.zipWith (· * ·) std s))
      (List.zipWith (· + ·) mean (List.zipWith (· * ·) std s)) := by
  induction mean with
  | nil => intro std s _ _; simp
  | cons μ rest ih =>
    intro std s hstd hs
    cases std with
    | nil => simp
    | cons σ std' =>
      cases s with
      | nil => simp
      | cons a s' =>
        simp only [List.zipWith_cons_cons]
        refine List.Forall₂.cons ?_ (ih std' s' (fun x hx => hstd x (List.mem_cons_of_mem _ hx))
          (fun x hx => hs x (List.mem_cons_of_mem _ hx)))
        have h1 := hstd σ (List.mem_cons_self)
        have h2 := hs a (List.mem_cons_self)
        have := mul_nonneg h1 h2
        linarith

/-- `lower ≤ upper`, componentwise -/
def Rect.valid (r : Rect) : Prop := List.Forall₂ (· ≤ ·) r.lower r.upper

theorem bounds_valid {mean std scale L U : Vec} (h : bounds mean std scale = some (L, U))
    (hstd : ∀ σ ∈ std, 0 ≤ σ) (hs : ∀ a ∈ scale, 0 ≤ a) : List.Forall₂ (· ≤ ·) L U := by
  obtain ⟨s', hs', _, rfl, rfl⟩ := bounds_spec h
  exact bounds_le mean std s' hstd (bcast_nonneg hs' hs)

/-! ### the intersection test -/

theorem checkIntersection_cons (a b c d : Rat) (l1 u1 l2 u2 : Vec) :
    checkIntersection (a :: l1) (b :: u1) (c :: l2) (d :: u2) = true ↔
      a < d ∧ c < b ∧ checkIntersection l1 u1 l2 u2 = true := by
  simp only [checkIntersection, List.zipWith_cons_cons, List.any_cons, id, Bool.not_eq_true',
    Bool.or_eq_false_iff, decide_eq_false_iff_not, not_le]
  tauto

theorem checkIntersection_nil_left (u1 l2 u2 : Vec) (h : u1 = [] ∨ l2 = []) :
    checkIntersection [] u1 l2 u2 = true := by
  rcases h with rfl | rfl <;> simp [checkIntersection]

theorem intersect_valid {l1 u1 : Vec} (h1 : List.Forall₂ (· ≤ ·) l1 u1) :
    ∀ {l2 u2 : Vec}, List.Forall₂ (· ≤ ·) l2 u2 → checkIntersection l1 u1 l2 u2 = true →
      List.Forall₂ (· ≤ ·) (List.zipWith max l1 l2) (List.zipWith min u1 u2) := by
  induction h1 with
  | nil => intro l2 u2 _ _; simp
  | @cons a b l1 u1 hab _ ih =>
    intro l2 u2 h2 hc
    cases h2 with
    | nil => simp
    | @cons c d l2 u2 hcd h2' =>
      rw [checkIntersection_cons] at hc
      simp only [List.zipWith_cons_cons]
      refine List.Forall₂.cons ?_ (ih h2' hc.2.2)
      apply max_le <;> apply le_min
      · exact hab
      · exact le_of_lt hc.1
      · exact le_of_lt hc.2.1
      · exact hcd

theorem Rect.intersect_valid' {r : Rect} {l u : Vec} (hr : r.valid) (hlu : List.Forall₂ (· ≤ ·) l u) :
    (r.intersect l u).valid := by
  unfold Rect.intersect
  split
  · rename_i hc
    exact Region.intersect_valid hr hlu hc
  · exact hlu

theorem Rect.update_valid {r r' : Rect} {p : Pred} {scale : Vec} (h : r.update p scale = .ok r')
    (hstd : ∀ σ ∈ p.std, 0 ≤ σ) (hs : ∀ a ∈ scale, 0 ≤ a) (hr : r.iter = true → r.valid) : r'.valid := by
  unfold Rect.update at h
  split at h
  · simp at h
  · split at h
    · simp at h
    · rename_i L U hb
      have hv := bounds_valid hb hstd hs
      simp only [Except.ok.injEq] at h
      subst h
      split
      · rename_i hi
        exact Rect.intersect_valid' (hr hi) hv
      · exact hv

theorem Rect.init_valid (m : Nat) : (Rect.init m).valid := by
  unfold Rect.valid Rect.init
  induction m with
  | zero => simp
  | succ k ih =>
    simp only [List.replicate_succ]
    exact List.Forall₂.cons (by norm_num) ih

/-! ### rectangles as sets over an ordered field -/

section sets
variable (K : Type) [Field K] [LinearOrder K] [IsStrictOrderedRing K]

/-- the closed box `{x | ∀ j, l_j ≤ x_j ≤ u_j}` (points are lists of the same length) -/
def memBox (l u : Vec) (x : List K) : Prop :=
  List.Forall₂ (fun (a : Rat) (y : K) => (a : K) ≤ y) l x ∧ List.Forall₂ (fun (y : K) (b : Rat) => y ≤ (b : K)) x u

/-- the open box `{x | ∀ j, l_j < x_j < u_j}` -/
def memInt (l u : Vec) (x : List K) : Prop :=
  List.Forall₂ (fun (a : Rat) (y : K) => (a : K) < y) l x ∧ List.Forall₂ (fun (y : K) (b : Rat) => y < (b : K)) x u

variable {K}

theorem forall₂_zipWith_max {l1 : Vec} : ∀ {l2 : Vec} {x : List K}, l1.length = l2.length →
    (List.Forall₂ (fun (a : Rat) (y : K) => (a : K) ≤ y) (List.zipWith max l1 l2) x ↔
      List.Forall₂ (fun (a : Rat) (y : K) => (a : K) ≤ y) l1 x ∧ List.Forall₂ (fun (a : Rat) (y : K) => (a : K) ≤ y) l2 x) := by
  induction l1 with
  | nil =>
    intro l2 x h
    have : l2 = [] := List.length_eq_zero_iff.mp h.symm
    subst this
    simp
  | cons a l1 ih =>
    intro l2 x h
    cases l2 with
    | nil => simp at h
    | cons c l2 =>
      cases x with
      | nil => simp
      | cons y x =>
        simp only [List.zipWith_cons_cons, List.forall₂_cons, Rat.cast_max, max_le_iff,
          ih (by simpa using h)]
        tauto

theorem forall₂_zipWith_min {u1 : Vec} : ∀ {u2 : Vec} {x : List K}, u1.length = u2.length →
    (List.Forall₂ (fun (y : K) (b : Rat) => y ≤ (b : K)) x (List.zipWith min u1 u2) ↔
      List.Forall₂ (fun (y : K) (b : Rat) => y ≤ (b : K)) x u1 ∧ List.Forall₂ (fun (y : K) (b : Rat) => y ≤ (b : K)) x u2) := by
  induction u1 with
  | nil =>
    intro u2 x h
    have : u2 = [] := List.length_eq_zero_iff.mp h.symm
    subst this
    simp
  | cons b u1 ih =>
    intro u2 x h
    cases u2 with
    | nil => simp at h
    | cons d u2 =>
      cases x with
      | nil => simp
      | cons y x =>
        simp only [List.zipWith_cons_cons, List.forall₂_cons, Rat.cast_min, le_min_iff,
          ih (by simpa using h)]
        tauto

/-- The box with corners `max l₁ l₂`, `min u₁ u₂` is the set intersection of the two boxes. -/
theorem memBox_inter {l1 u1 l2 u2 : Vec} (hl : l1.length = l2.length) (hu : u1.length = u2.length)
    (x : List K) :
    memBox K (List.zipWith max l1 l2) (List.zipWith min u1 u2) x ↔ memBox K l1 u1 x ∧ memBox K l2 u2 x := by
  unfold memBox
  rw [forall₂_zipWith_max hl, forall₂_zipWith_min hu]
  tauto

/-- If the code's test says "no intersection", no point lies strictly inside both rectangles. -/
theorem interiors_disjoint_of_not_check : ∀ {x : List K} {l1 u1 l2 u2 : Vec},
    checkIntersection l1 u1 l2 u2 = false → ¬ (memInt K l1 u1 x ∧ memInt K l2 u2 x) := by
  intro x
  induction x with
  | nil =>
    intro l1 u1 l2 u2 hc ⟨⟨h1, h2⟩, ⟨h3, h4⟩⟩
    cases h1; cases h2; cases h3; cases h4
    simp [checkIntersection] at hc
  | cons y x ih =>
    intro l1 u1 l2 u2 hc ⟨⟨h1, h2⟩, ⟨h3, h4⟩⟩
    cases h1 with
    | cons hay h1 =>
    cases h2 with
    | cons hyb h2 =>
    cases h3 with
    | cons hcy h3 =>
    cases h4 with
    | cons hyd h4 =>
    rename_i a l1 b u1 c l2 d u2
    by_cases hc' : checkIntersection l1 u1 l2 u2 = true
    · have : ¬ (a < d ∧ c < b) := by
        intro hh
        have := (checkIntersection_cons a b c d l1 u1 l2 u2).2 ⟨hh.1, hh.2, hc'⟩
        rw [this] at hc
        exact Bool.noConfusion hc
      apply this
      constructor
      · have : (a : K) < (d : K) := lt_trans hay hyd
        exact_mod_cast this
      · have : (c : K) < (b : K) := lt_trans hcy hyb
        exact_mod_cast this
    · exact ih (by simpa using hc') ⟨⟨h1, h2⟩, ⟨h3, h4⟩⟩

/-- If the test says "intersect" and both rectangles have non-empty interior, the midpoint of the
intersection box lies strictly inside both: the interiors meet. -/
theorem interiors_meet_of_check {l1 u1 : Vec} (h1 : List.Forall₂ (· < ·) l1 u1) :
    ∀ {l2 u2 : Vec}, List.Forall₂ (· < ·) l2 u2 → l1.length = l2.length →
      checkIntersection l1 u1 l2 u2 = true →
      ∃ x : List K, memInt K l1 u1 x ∧ memInt K l2 u2 x := by
  induction h1 with
  | nil =>
    intro l2 u2 h2 hl _
    have : l2 = [] := List.length_eq_zero_iff.mp hl.symm
    subst this
    cases h2
    exact ⟨[], ⟨.nil, .nil⟩, ⟨.nil, .nil⟩⟩
  | @cons a b l1 u1 hab _ ih =>
    intro l2 u2 h2 hl hc
    cases h2 with
    | nil => simp at hl
    | @cons c d l2 u2 hcd h2' =>
      rw [checkIntersection_cons] at hc
      obtain ⟨x, ⟨hx1, hx2⟩, ⟨hx3, hx4⟩⟩ := ih h2' (by simpa using hl) hc.2.2
      have hlt : max a c < min b d := by
        apply max_lt <;> apply lt_min
        · exact hab
        · exact hc.1
        · exact hc.2.1
        · exact hcd
      have hltK : ((max a c : Rat) : K) < ((min b d : Rat) : K) := by exact_mod_cast hlt
      set y : K := (((max a c : Rat) : K) + ((min b d : Rat) : K)) / 2 with hy
      have hy1 : ((max a c : Rat) : K) < y := by rw [hy]; linarith
      have hy2 : y < ((min b d : Rat) : K) := by rw [hy]; linarith
      have ha : (a : K) ≤ ((max a c : Rat) : K) := by exact_mod_cast le_max_left a c
      have hc2 : (c : K) ≤ ((max a c : Rat) : K) := by exact_mod_cast le_max_right a c
      have hb : ((min b d : Rat) : K) ≤ (b : K) := by exact_mod_cast min_le_left b d
      have hd : ((min b d : Rat) : K) ≤ (d : K) := by exact_mod_cast min_le_right b d
      refine ⟨y :: x, ⟨.cons ?_ hx1, .cons ?_ hx2⟩, ⟨.cons ?_ hx3, .cons ?_ hx4⟩⟩
      · exact lt_of_le_of_lt ha hy1
      · exact lt_of_lt_of_le hy2 hb
      · exact lt_of_le_of_lt hc2 hy1
      · exact lt_of_lt_of_le hy2 hd

end sets

end VOPy.Region
namespace VOPy.Region

/-! ### the design-space loop -/

theorem updLoop_length : ∀ (T : List (Nat × Pred × Vec)) (regs : List Region),
    (updLoop regs T).1.length = regs.length := by
  intro T
  induction T with
  | nil => intro regs; rfl
  | cons t rest ih =>
    intro regs
    obtain ⟨i, p, s⟩ := t
    unfold updLoop
    split
    · rfl
    · split
      · rfl
      · rw [ih]; simp

/-- designs that are not listed keep their region (also when the loop stops with an exception) -/
theorem updLoop_unlisted : ∀ (T : List (Nat × Pred × Vec)) (regs : List Region) (d : Nat),
    d ∉ T.map (·.1) → (updLoop regs T).1[d]? = regs[d]? := by
  intro T
  induction T with
  | nil => intro regs d _; rfl
  | cons t rest ih =>
    intro regs d hd
    obtain ⟨i, p, s⟩ := t
    simp only [List.map_cons, List.mem_cons, not_or] at hd
    unfold updLoop
    split
    · rfl
    · split
      · rfl
      · rw [ih _ _ hd.2, List.getElem?_set_ne (Ne.symm hd.1)]

/-- with pairwise different listed designs and no exception, every listed design ends up with the
update of *its own previous* region by *its own* prediction and scale row -/
theorem updLoop_listed : ∀ (T : List (Nat × Pred × Vec)) (regs : List Region),
    (T.map (·.1)).Nodup → (updLoop regs T).2 = none →
    ∀ t ∈ T, ∃ r r', regs[t.1]? = some r ∧ r.update t.2.1 t.2.2 = .ok r' ∧
      (updLoop regs T).1[t.1]? = some r' := by
  intro T
  induction T with
  | nil => intro regs _ _ t ht; simp at ht
  | cons t0 rest ih =>
    intro regs hnd hok t ht
    obtain ⟨i, p, s⟩ := t0
    simp only [List.map_cons, List.nodup_cons] at hnd
    cases hr : regs[i]? with
    | none => simp [updLoop, hr] at hok
    | some r =>
      cases hr' : r.update p s with
      | error e => simp [updLoop, hr, hr'] at hok
      | ok r' =>
        have hstep : updLoop regs ((i, p, s) :: rest) = updLoop (regs.set i r') rest := by
          simp [updLoop, hr, hr']
        rw [hstep] at hok ⊢
        rcases List.mem_cons.1 ht with rfl | ht'
        · refine ⟨r, r', hr, hr', ?_⟩
          rw [updLoop_unlisted rest _ i hnd.1]
          have hi : i < regs.length := by
            by_contra hge
            rw [List.getElem?_eq_none (by omega)] at hr
            simp at hr
          exact List.getElem?_set_self hi
        · obtain ⟨q, q', hq, hq', hres⟩ := ih (regs.set i r') hnd.2 hok t ht'
          have hne : i ≠ t.1 := by
            rintro rfl
            exact hnd.1 (List.mem_map_of_mem (f := (·.1)) ht')
          rw [List.getElem?_set_ne hne] at hq
          exact ⟨q, q', hq, hq', hres⟩

/-- sequential composition: the loop over `a ++ b` is the loop over `a`, then (if no exception) over `b`
starting from the regions `a` left — in particular a design listed twice is updated twice, in order -/
theorem updLoop_append : ∀ (a b : List (Nat × Pred × Vec)) (regs : List Region),
    updLoop regs (a ++ b) =
      if (updLoop regs a).2 = none then updLoop (updLoop regs a).1 b else updLoop regs a := by
  intro a
  induction a with
  | nil => intro b regs; simp [updLoop]
  | cons t rest ih =>
    intro b regs
    obtain ⟨i, p, s⟩ := t
    simp only [List.cons_append]
    cases hr : regs[i]? with
    | none => simp [updLoop, hr]
    | some r =>
      cases hr' : r.update p s with
      | error e => simp [updLoop, hr, hr']
      | ok r' =>
        have h1 : ∀ T, updLoop regs ((i, p, s) :: T) = updLoop (regs.set i r') T := by
          intro T; simp [updLoop, hr, hr']
        rw [h1, h1, ih]

theorem lookupAll_spec : ∀ (idx : List Nat) (table preds : List Pred), lookupAll table idx = some preds →
    preds.length = idx.length ∧ ∀ (k i : Nat), idx[k]? = some i → preds[k]? = table[i]? ∧ i < table.length := by
  intro idx
  induction idx with
  | nil =>
    intro table preds h
    simp only [lookupAll, Option.some.injEq] at h
    subst h
    simp
  | cons i0 rest ih =>
    intro table preds h
    unfold lookupAll at h
    split at h
    · simp at h
    · rename_i p hp
      cases hrest : lookupAll table rest with
      | none => simp [hrest] at h
      | some ps =>
        simp only [hrest, Option.map_some, Option.some.injEq] at h
        subst h
        obtain ⟨hl, hk⟩ := ih table ps hrest
        refine ⟨by simp [hl], ?_⟩
        intro k i hki
        cases k with
        | zero =>
          simp only [List.getElem?_cons_zero, Option.some.injEq] at hki
          subst hki
          refine ⟨by simp [hp], ?_⟩
          by_contra hge
          rw [List.getElem?_eq_none (by omega)] at hp
          simp at hp
        | succ k => simpa using hk k i (by simpa using hki)

theorem scaleRows_spec {sc : Scale} {n : Nat} {rows : List Vec} (h : scaleRows sc n = some rows) :
    rows.length = n ∧ ∀ (k : Nat), k < n → rows[k]? = some (match sc with
      | .scalar s => [s]
      | .vec v => v
      | .mat M => M.getD k []
      | .other => []) := by
  cases sc with
  | scalar s =>
    simp only [scaleRows, Option.some.injEq] at h
    subst h
    exact ⟨by simp, fun k hk => by simp [hk]⟩
  | vec v =>
    simp only [scaleRows, Option.some.injEq] at h
    subst h
    exact ⟨by simp, fun k hk => by simp [hk]⟩
  | mat M =>
    simp only [scaleRows] at h
    split at h
    · rename_i hl
      simp only [Option.some.injEq] at h
      subst h
      exact ⟨hl, fun k hk => by simp [List.getD, hl ▸ hk]⟩
    · simp at h
  | other => simp [scaleRows] at h

/-- the scale row the broadcast assigns to position `k` of the index list -/
def scaleRow : Scale → Nat → Vec
  | .scalar s, _ => [s]
  | .vec v, _ => v
  | .mat M, k => M.getD k []
  | .other, _ => []

theorem scaleRows_row {sc : Scale} {n : Nat} {rows : List Vec} (h : scaleRows sc n = some rows) :
    rows.length = n ∧ ∀ (k : Nat), k < n → rows[k]? = some (scaleRow sc k) := by
  obtain ⟨h1, h2⟩ := scaleRows_spec h
  refine ⟨h1, fun k hk => ?_⟩
  rw [h2 k hk]
  cases sc <;> rfl

/-- unlisted designs keep their region, whatever happens (duplicates, exceptions) -/
theorem update_unlisted (regs : List Region) (table : List Pred) (sc : Scale) (idx : List Nat) (d : Nat)
    (hd : d ∉ idx) : (update regs table sc idx).1[d]? = regs[d]? := by
  unfold update
  split
  · rfl
  · split
    · rfl
    · apply updLoop_unlisted
      intro hmem
      simp only [List.mem_map] at hmem
      obtain ⟨t, ht, rfl⟩ := hmem
      exact hd (List.of_mem_zip ht).1

theorem update_length (regs : List Region) (table : List Pred) (sc : Scale) (idx : List Nat) :
    (update regs table sc idx).1.length = regs.length := by
  unfold update
  split
  · rfl
  · split
    · rfl
    · exact updLoop_length _ _

/-- listed designs, duplicate-free index list, no exception -/
theorem update_listed (regs : List Region) (table : List Pred) (sc : Scale) (idx : List Nat)
    (hnd : idx.Nodup) (hok : (update regs table sc idx).2 = none) (k i : Nat) (hk : idx[k]? = some i) :
    ∃ r p r', regs[i]? = some r ∧ table[i]? = some p ∧ r.update p (scaleRow sc k) = .ok r' ∧
      (update regs table sc idx).1[i]? = some r' := by
  unfold update at hok ⊢
  cases hrows : scaleRows sc idx.length with
  | none => simp [hrows] at hok
  | some rows =>
    cases hpreds : lookupAll table idx with
    | none => simp [hrows, hpreds] at hok
    | some preds =>
      simp only [hrows, hpreds] at hok ⊢
      obtain ⟨hpl, hpk⟩ := lookupAll_spec idx table preds hpreds
      obtain ⟨hrl, hrk⟩ := scaleRows_row hrows
      have hkl : k < idx.length := by
        by_contra hge
        rw [List.getElem?_eq_none (by omega)] at hk
        simp at hk
      obtain ⟨hp1, hp2⟩ := hpk k i hk
      have hp : table[i]? = some table[i] := by simp [hp2]
      have hfst : (idx.zip (preds.zip rows)).map (·.1) = idx := by
        apply List.map_fst_zip
        simp [hpl, hrl]
      have hmem : (i, table[i], scaleRow sc k) ∈ idx.zip (preds.zip rows) := by
        apply List.mem_of_getElem? (i := k)
        rw [List.getElem?_zip_eq_some]
        refine ⟨hk, ?_⟩
        rw [List.getElem?_zip_eq_some]
        exact ⟨by rw [hp1, hp], hrk k hkl⟩
      obtain ⟨r, r', h1, h2, h3⟩ := updLoop_listed _ regs (by rw [hfst]; exact hnd) hok _ hmem
      exact ⟨r, table[i], r', h1, hp, h2, h3⟩

/-! ### validity of all rectangles along call sequences -/

def regionValid : Region → Prop
  | .rect r => r.valid
  | .ell _ => True

def AllValid (regs : List Region) : Prop := ∀ r ∈ regs, regionValid r

theorem region_update_valid {r r' : Region} {p : Pred} {s : Vec} (h : r.update p s = .ok r')
    (hstd : ∀ σ ∈ p.std, 0 ≤ σ) (hs : ∀ a ∈ s, 0 ≤ a) (hr : regionValid r) : regionValid r' := by
  cases r with
  | rect q =>
    simp only [Region.update] at h
    cases hq : q.update p s with
    | error e => simp [hq, Except.map] at h
    | ok q' =>
      simp only [hq, Except.map, Except.ok.injEq] at h
      subst h
      exact Rect.update_valid hq hstd hs (fun _ => hr)
  | ell e =>
    simp only [Region.update] at h
    cases he : e.update p s with
    | error e' => simp [he, Except.map] at h
    | ok e' =>
      simp only [he, Except.map, Except.ok.injEq] at h
      subst h
      trivial

theorem updLoop_valid : ∀ (T : List (Nat × Pred × Vec)) (regs : List Region),
    (∀ t ∈ T, (∀ σ ∈ t.2.1.std, 0 ≤ σ) ∧ ∀ a ∈ t.2.2, 0 ≤ a) → AllValid regs →
    AllValid (updLoop regs T).1 := by
  intro T
  induction T with
  | nil => intro regs _ h; exact h
  | cons t rest ih =>
    intro regs hT hv
    obtain ⟨i, p, s⟩ := t
    unfold updLoop
    split
    · exact hv
    · rename_i r hr
      split
      · exact hv
      · rename_i r' hr'
        apply ih _ (fun t ht => hT t (List.mem_cons_of_mem _ ht))
        intro q hq
        have h0 := hT (i, p, s) (List.mem_cons_self)
        rcases List.mem_or_eq_of_mem_set hq with hq' | rfl
        · exact hv q hq'
        · exact region_update_valid hr' h0.1 h0.2 (hv r (List.mem_of_getElem? hr))

/-- every entry of the scale argument is non-negative -/
def scaleNonneg : Scale → Prop
  | .scalar s => 0 ≤ s
  | .vec v => ∀ a ∈ v, 0 ≤ a
  | .mat M => ∀ row ∈ M, ∀ a ∈ row, 0 ≤ a
  | .other => True

theorem scaleRows_nonneg {sc : Scale} {n : Nat} {rows : List Vec} (h : scaleRows sc n = some rows)
    (hs : scaleNonneg sc) : ∀ row ∈ rows, ∀ a ∈ row, 0 ≤ a := by
  cases sc with
  | scalar s =>
    simp only [scaleRows, Option.some.injEq] at h
    subst h
    intro row hrow a ha
    rw [List.eq_of_mem_replicate hrow] at ha
    simp only [List.mem_singleton] at ha
    subst ha
    exact hs
  | vec v =>
    simp only [scaleRows, Option.some.injEq] at h
    subst h
    intro row hrow a ha
    rw [List.eq_of_mem_replicate hrow] at ha
    exact hs a ha
  | mat M =>
    simp only [scaleRows] at h
    split at h
    · simp only [Option.some.injEq] at h
      subst h
      exact hs
    · simp at h
  | other => simp [scaleRows] at h

theorem lookupAll_mem : ∀ (idx : List Nat) (table preds : List Pred), lookupAll table idx = some preds →
    ∀ p ∈ preds, p ∈ table := by
  intro idx
  induction idx with
  | nil =>
    intro table preds h p hp
    simp only [lookupAll, Option.some.injEq] at h
    subst h
    simp at hp
  | cons i0 rest ih =>
    intro table preds h p hp
    unfold lookupAll at h
    split at h
    · simp at h
    · rename_i p0 hp0
      cases hrest : lookupAll table rest with
      | none => simp [hrest] at h
      | some ps =>
        simp only [hrest, Option.map_some, Option.some.injEq] at h
        subst h
        rcases List.mem_cons.1 hp with rfl | hp'
        · exact List.mem_of_getElem? hp0
        · exact ih table ps hrest p hp'

/-- predictions have non-negative standard deviations -/
def tableNonneg (table : List Pred) : Prop := ∀ p ∈ table, ∀ σ ∈ p.std, 0 ≤ σ

theorem update_valid (regs : List Region) (table : List Pred) (sc : Scale) (idx : List Nat)
    (ht : tableNonneg table) (hs : scaleNonneg sc) (hv : AllValid regs) :
    AllValid (update regs table sc idx).1 := by
  unfold update
  split
  · exact hv
  · rename_i rows hrows
    split
    · exact hv
    · rename_i preds hpreds
      apply updLoop_valid _ _ _ hv
      intro t htm
      obtain ⟨_, h2⟩ := List.of_mem_zip htm
      obtain ⟨h3, h4⟩ := List.of_mem_zip h2
      exact ⟨ht _ (lookupAll_mem idx table preds hpreds _ h3), scaleRows_nonneg hrows hs _ h4⟩

theorem refine_valid {regs regs' : List Region} {i k : Nat} (h : refine regs i k = some regs')
    (hv : AllValid regs) : AllValid regs' := by
  unfold refine at h
  split at h
  · rename_i r hr
    simp only [Option.some.injEq] at h
    subst h
    intro q hq
    rcases List.mem_append.1 hq with hq | hq
    · exact hv q hq
    · rw [List.eq_of_mem_replicate hq]
      exact hv (.rect r) (List.mem_of_getElem? hr)
  · simp at h

theorem setIter_valid (regs : List Region) (idx : List Nat) (b : Bool) (hv : AllValid regs) :
    AllValid (setIter regs idx b) := by
  intro q hq
  unfold setIter at hq
  rw [List.mem_mapIdx] at hq
  obtain ⟨i, hi, rfl⟩ := hq
  have hmem := hv regs[i] (List.getElem_mem hi)
  split
  · cases hreg : regs[i] with
    | rect r => rw [hreg] at hmem; exact hmem
    | ell e => trivial
  · exact hmem

/-- a call with non-negative scale and standard deviations (other calls: no condition) -/
def opNonneg : Op → Prop
  | .upd table sc _ => tableNonneg table ∧ scaleNonneg sc
  | _ => True

theorem step_valid (regs : List Region) (o : Op) (ho : opNonneg o) (hv : AllValid regs) :
    AllValid (step regs o).1 := by
  cases o with
  | upd table sc idx => exact update_valid regs table sc idx ho.1 ho.2 hv
  | refine i k =>
    simp only [step]
    cases h : refine regs i k with
    | none => exact hv
    | some regs' => exact refine_valid h hv
  | setIter b idx => exact setIter_valid regs idx b hv

theorem run_valid (ops : List Op) : ∀ (regs : List Region), (∀ o ∈ ops, opNonneg o) → AllValid regs →
    AllValid (run regs ops) := by
  induction ops with
  | nil => intro regs _ hv; exact hv
  | cons o rest ih =>
    intro regs ho hv
    exact ih _ (fun o' ho' => ho o' (List.mem_cons_of_mem _ ho'))
      (step_valid regs o (ho o (List.mem_cons_self)) hv)

theorem init_valid (n m : Nat) : AllValid (List.replicate n (.rect (Rect.init m))) ∧
    AllValid (List.replicate n (.ell (Ell.init m))) := by
  constructor
  · intro q hq
    rw [List.eq_of_mem_replicate hq]
    exact Rect.init_valid m
  · intro q hq
    rw [List.eq_of_mem_replicate hq]
    trivial

end VOPy.Region
