import VOPyVerif.Model.AdaptiveVh
import VOPyVerif.Model.Adaptive
import VOPyVerif.Proofs.RealInst
import Mathlib.Analysis.SpecialFunctions.Log.Basic
import Mathlib.Analysis.SpecialFunctions.Sqrt
import Mathlib.Tactic.Linarith
import Mathlib.Tactic.Positivity
import Mathlib.Tactic.FieldSimp
import Mathlib.Tactic.Ring
/-!
# The `ℝ` reading of `Model/AdaptiveVh.lean` (helpers for `Props/C18.lean`)

`LeB ℝ` is the order of `ℝ`; every auxiliary of the term (`ofInt`, `npow`, `zpow`, `max0`, `sumL`,
`norm`) is identified with its Mathlib counterpart, then the closed forms, positivity and the
monotonicity in the depth are proved.
-/
namespace VOPy

noncomputable instance : LeB ℝ := ⟨fun a b => decide (a ≤ b)⟩

namespace Vh
open VOPy.RealLike

@[simp] theorem leb_real (a b : ℝ) : LeB.leb a b = decide (a ≤ b) := rfl

@[simp] theorem ofFrac_real (n d : Nat) : (ofFrac n d : ℝ) = (n : ℝ) / (d : ℝ) := rfl

@[simp] theorem ofInt_real (k : Int) : (ofInt k : ℝ) = (k : ℝ) := by
  unfold ofInt
  split
  · rename_i h
    simp only [ofNat_real]
    rw [← Int.cast_natCast, Int.natCast_natAbs, abs_of_neg h]; push_cast; ring
  · rename_i h
    simp only [ofNat_real]
    rw [← Int.cast_natCast, Int.natCast_natAbs, abs_of_nonneg (not_lt.mp h)]

@[simp] theorem npow_real (x : ℝ) (k : Nat) : npow x k = x ^ k := by
  induction k with
  | zero => simp [npow]
  | succ k ih => simp [npow, ih, pow_succ]

@[simp] theorem zpow_real (x : ℝ) (k : Int) : zpow x k = x ^ k := by
  unfold zpow
  split
  · rename_i h
    obtain ⟨n, rfl⟩ := Int.exists_eq_neg_ofNat (le_of_lt h)
    simp [zpow_neg]
  · rename_i h
    obtain ⟨n, rfl⟩ := Int.eq_ofNat_of_zero_le (not_lt.mp h)
    simp

@[simp] theorem max0_real (y : ℝ) : max0 y = max 0 y := by
  unfold max0
  by_cases h : (0 : ℝ) ≤ y
  · simp [h]
  · simp [h, max_eq_left (le_of_not_ge h)]

theorem foldl_add_real (l : List ℝ) (a : ℝ) : l.foldl (· + ·) a = a + l.sum := by
  induction l generalizing a with
  | nil => simp
  | cons x xs ih => simp [ih, add_assoc]

@[simp] theorem sumL_real (l : List ℝ) : sumL l = l.sum := by
  simp [sumL, foldl_add_real]

@[simp] theorem norm_real (v : List ℝ) : norm v = Real.sqrt ((v.map (fun x => x * x)).sum) := by
  simp [norm]

theorem allLe_real (lhs : List ℝ) (rhs : ℝ) : allLe lhs rhs = true ↔ ∀ l ∈ lhs, l ≤ rhs := by
  simp [allLe]

/-! ## closed forms -/

theorem rho_real : (rho : ℝ) = 1 / 2 := by simp [rho]

theorem cki_real (ls var : ℝ) : cki ls var = Real.sqrt var / ls := rfl

theorem term1_real (d : Nat) (depth : Int) (ls var : ℝ) :
    term1 d depth ls var = Real.sqrt var / ls * (1 / 2 * Real.sqrt d * (1 / 2 : ℝ) ^ depth) := by
  simp [term1, cki, rho, alphaC]

theorem c1_real (d : Nat) (ls var : ℝ) :
    c1 d ls var = ((Real.sqrt d + 1) * Real.sqrt d / 2) ^ d * (Real.sqrt var / ls) := by
  simp [c1, cki]

theorem c2_real (d : Nat) (ls var : ℝ) :
    c2 d ls var = 2 * Real.log (2 * c1 d ls var ^ 2 * Real.pi ^ 2 / 6) := by
  simp [c2]

theorem c3_real (d : Nat) :
    (c3 d : ℝ) = 1 + 27 / 10 * Real.sqrt ((2 * d : ℕ) * Real.log 2) := by
  simp [c3, alphaC]

theorem term2_real (m : Nat) (depth : Int) (δ : ℝ) :
    term2 m depth δ = Real.log (2 * ((depth : ℝ) + 1) ^ 2 * Real.pi ^ 2 * m / (6 * δ)) := by
  simp only [term2, ofInt_real, npow_real, ofNat_real, pi_real, log_real]
  push_cast
  ring_nf

theorem term3_real (depth : Int) : (term3 depth : ℝ) = depth * Real.log 4 := by
  simp [term3, bigN]

theorem term4_real (d : Nat) (depth : Int) (ls var : ℝ) :
    term4 d depth ls var = max 0 (-(4 * (d : ℝ)) * Real.log (term1 d depth ls var)) := by
  simp [term4, alphaC]

theorem vhEntry_real (d m : Nat) (δ : ℝ) (depth : Int) (ls var : ℝ) :
    vhEntry d m δ depth ls var =
      4 * term1 d depth ls var *
        (Real.sqrt (c2 d ls var + 2 * term2 m depth δ + term3 depth + term4 d depth ls var) + c3 d) := by
  simp [vhEntry]

/-! ## positivity -/

theorem term1_pos (d : Nat) (hd : 1 ≤ d) (depth : Int) {ls var : ℝ} (hls : 0 < ls) (hv : 0 < var) :
    0 < (term1 d depth ls var : ℝ) := by
  rw [term1_real]
  have h1 : 0 < Real.sqrt var := Real.sqrt_pos.mpr hv
  have h2 : 0 < Real.sqrt (d : ℝ) := Real.sqrt_pos.mpr (by exact_mod_cast hd)
  have h3 : 0 < (1 / 2 : ℝ) ^ depth := zpow_pos (by norm_num) _
  positivity

theorem c3_ge_one (d : Nat) : (1 : ℝ) ≤ c3 d := by
  rw [c3_real]
  have := Real.sqrt_nonneg (((2 * d : ℕ) : ℝ) * Real.log 2)
  linarith

theorem vhEntry_pos (d m : Nat) (hd : 1 ≤ d) (δ : ℝ) (depth : Int) {ls var : ℝ} (hls : 0 < ls)
    (hv : 0 < var) : 0 < (vhEntry d m δ depth ls var : ℝ) := by
  rw [vhEntry_real]
  have h1 := term1_pos d hd depth hls hv
  have h2 := c3_ge_one d
  have h3 := Real.sqrt_nonneg
    (c2 d ls var + 2 * term2 m depth δ + term3 depth + term4 d depth ls var)
  have : 0 < Real.sqrt (c2 d ls var + 2 * term2 m depth δ + term3 depth + term4 d depth ls var)
      + c3 d := by linarith
  positivity

/-! ## monotonicity in the depth -/

theorem term1_succ (d : Nat) (depth : Int) (ls var : ℝ) :
    (term1 d (depth + 1) ls var : ℝ) = term1 d depth ls var / 2 := by
  rw [term1_real, term1_real, zpow_add₀ (by norm_num : (1 / 2 : ℝ) ≠ 0)]
  simp only [zpow_one]
  ring

theorem log_four : Real.log 4 = 2 * Real.log 2 := by
  rw [show (4 : ℝ) = 2 ^ 2 by norm_num, Real.log_pow]; norm_num

theorem term2_succ_le (m : Nat) (hm : 0 < m) (depth : Int) (hdep : 0 ≤ depth) {δ : ℝ} (hδ : 0 < δ) :
    (term2 m (depth + 1) δ : ℝ) ≤ term2 m depth δ + 2 * Real.log 2 ∧
    (term2 m depth δ : ℝ) ≤ term2 m (depth + 1) δ := by
  rw [term2_real, term2_real]
  have hh : (0 : ℝ) ≤ (depth : ℝ) := by exact_mod_cast hdep
  have hm' : (0 : ℝ) < m := by exact_mod_cast hm
  have hpi : 0 < Real.pi ^ 2 := by positivity
  set a : ℝ := 2 * ((depth : ℝ) + 1) ^ 2 * Real.pi ^ 2 * m / (6 * δ) with ha
  have ha0 : 0 < a := by rw [ha]; positivity
  have hcast : (((depth + 1 : Int) : ℝ)) = (depth : ℝ) + 1 := by push_cast; ring
  rw [hcast]
  set b : ℝ := 2 * ((depth : ℝ) + 1 + 1) ^ 2 * Real.pi ^ 2 * m / (6 * δ) with hb
  have hb0 : 0 < b := by rw [hb]; positivity
  have hab : a ≤ b := by
    rw [ha, hb]
    apply div_le_div_of_nonneg_right _ (by positivity)
    have : ((depth : ℝ) + 1) ^ 2 ≤ ((depth : ℝ) + 1 + 1) ^ 2 := by nlinarith
    have h2 : (0 : ℝ) ≤ Real.pi ^ 2 * m := by positivity
    nlinarith
  have hb4 : b ≤ 4 * a := by
    rw [ha, hb]
    rw [show 4 * (2 * ((depth : ℝ) + 1) ^ 2 * Real.pi ^ 2 * m / (6 * δ))
        = (4 * (2 * ((depth : ℝ) + 1) ^ 2 * Real.pi ^ 2 * m)) / (6 * δ) by ring]
    apply div_le_div_of_nonneg_right _ (by positivity)
    have : ((depth : ℝ) + 1 + 1) ^ 2 ≤ 4 * ((depth : ℝ) + 1) ^ 2 := by nlinarith
    have h2 : (0 : ℝ) ≤ Real.pi ^ 2 * m := by positivity
    nlinarith
  constructor
  · calc Real.log b ≤ Real.log (4 * a) := Real.log_le_log hb0 hb4
      _ = Real.log 4 + Real.log a := Real.log_mul (by norm_num) (ne_of_gt ha0)
      _ = Real.log a + 2 * Real.log 2 := by rw [log_four]; ring
  · exact Real.log_le_log ha0 hab

theorem term4_succ_le (d : Nat) (hd : 1 ≤ d) (depth : Int) {ls var : ℝ} (hls : 0 < ls) (hv : 0 < var) :
    (term4 d (depth + 1) ls var : ℝ) ≤ term4 d depth ls var + 4 * d * Real.log 2 ∧
    (term4 d depth ls var : ℝ) ≤ term4 d (depth + 1) ls var := by
  rw [term4_real, term4_real, term1_succ]
  have hT := term1_pos d hd depth hls hv
  have hl2 : 0 < Real.log 2 := Real.log_pos (by norm_num)
  have hd' : (0 : ℝ) ≤ d := by positivity
  rw [Real.log_div (ne_of_gt hT) (by norm_num)]
  set L := Real.log (term1 d depth ls var)
  have e : -(4 * (d : ℝ)) * (L - Real.log 2) = -(4 * (d : ℝ)) * L + 4 * d * Real.log 2 := by ring
  rw [e]
  have hpos : 0 ≤ 4 * (d : ℝ) * Real.log 2 := by positivity
  constructor
  · rcases le_total 0 (-(4 * (d : ℝ)) * L) with h | h
    · rw [max_eq_right h, max_eq_right (by linarith)]
    · rw [max_eq_left h]
      exact max_le (by linarith) (by linarith)
  · exact max_le_max le_rfl (by linarith)

theorem sqrt_add_le (a b : ℝ) (hb : 0 ≤ b) : Real.sqrt (a + b) ≤ Real.sqrt a + Real.sqrt b := by
  rcases le_total 0 a with ha | ha
  · rw [Real.sqrt_le_iff]
    refine ⟨by positivity, ?_⟩
    have h1 := Real.sq_sqrt ha
    have h2 := Real.sq_sqrt hb
    have h3 : 0 ≤ Real.sqrt a * Real.sqrt b := by positivity
    nlinarith
  · rw [Real.sqrt_eq_zero_of_nonpos ha, zero_add]
    exact Real.sqrt_le_sqrt (by linarith)

/-- the radicand of `Vh` grows by at most `(6 + 4d)·log 2` per level, and does not shrink -/
theorem radicand_succ (d m : Nat) (hd : 1 ≤ d) (hm : 0 < m) (depth : Int) (hdep : 0 ≤ depth)
    {δ ls var : ℝ} (hδ : 0 < δ) (hls : 0 < ls) (hv : 0 < var) :
    let A := fun k : Int =>
      (c2 d ls var + 2 * term2 m k δ + term3 k + term4 d k ls var : ℝ)
    A depth ≤ A (depth + 1) ∧ A (depth + 1) ≤ A depth + (6 + 4 * (d : ℝ)) * Real.log 2 := by
  intro A
  have h2 := term2_succ_le m hm depth hdep hδ
  have h4 := term4_succ_le d hd depth hls hv
  have h3 : (term3 (depth + 1) : ℝ) = term3 depth + 2 * Real.log 2 := by
    rw [term3_real, term3_real, log_four]; push_cast; ring
  have hl2 : 0 < Real.log 2 := Real.log_pos (by norm_num)
  simp only [A]
  constructor
  · linarith [h2.2, h4.2]
  · linarith [h2.1, h4.1]

theorem c3_sq_gt (d : Nat) (hd : 1 ≤ d) :
    (6 + 4 * (d : ℝ)) * Real.log 2 < (c3 d : ℝ) ^ 2 := by
  rw [c3_real]
  have hl2 : 0 < Real.log 2 := Real.log_pos (by norm_num)
  have hd' : (1 : ℝ) ≤ d := by exact_mod_cast hd
  have hx : (0 : ℝ) ≤ ((2 * d : ℕ) : ℝ) * Real.log 2 := by positivity
  have hs := Real.sq_sqrt hx
  have hs0 := Real.sqrt_nonneg (((2 * d : ℕ) : ℝ) * Real.log 2)
  have hc : ((2 * d : ℕ) : ℝ) = 2 * (d : ℝ) := by push_cast; ring
  rw [hc] at hs hs0 ⊢
  set s := Real.sqrt (2 * (d : ℝ) * Real.log 2)
  have : (1 + 27 / 10 * s) ^ 2 = 1 + 27 / 5 * s + 729 / 100 * s ^ 2 := by ring
  rw [this, hs]
  nlinarith

/-- `Vh` is strictly decreasing in the depth -/
theorem vhEntry_succ_lt (d m : Nat) (hd : 1 ≤ d) (hm : 0 < m) (depth : Int) (hdep : 0 ≤ depth)
    {δ ls var : ℝ} (hδ : 0 < δ) (hls : 0 < ls) (hv : 0 < var) :
    (vhEntry d m δ (depth + 1) ls var : ℝ) < vhEntry d m δ depth ls var := by
  rw [vhEntry_real, vhEntry_real, term1_succ]
  have hT := term1_pos d hd depth hls hv
  obtain ⟨hmono, hgrow⟩ := radicand_succ d m hd hm depth hdep hδ hls hv
  simp only at hmono hgrow
  set A0 : ℝ := c2 d ls var + 2 * term2 m depth δ + term3 depth + term4 d depth ls var
  set A1 : ℝ := c2 d ls var + 2 * term2 m (depth + 1) δ + term3 (depth + 1) + term4 d (depth + 1) ls var
  have hc3 := c3_ge_one d
  have hΔ : 0 ≤ A1 - A0 := by linarith
  have hs : Real.sqrt A1 ≤ Real.sqrt A0 + Real.sqrt (A1 - A0) := by
    have := sqrt_add_le A0 (A1 - A0) hΔ
    rwa [show A0 + (A1 - A0) = A1 by ring] at this
  have hlt : Real.sqrt (A1 - A0) < c3 d := by
    rw [Real.sqrt_lt' (by linarith)]
    have := c3_sq_gt d hd
    linarith
  have h0 := Real.sqrt_nonneg A0
  have key : Real.sqrt A1 + c3 d < 2 * (Real.sqrt A0 + c3 d) := by linarith
  have : 4 * (term1 d depth ls var / 2) * (Real.sqrt A1 + c3 d)
      = 2 * term1 d depth ls var * (Real.sqrt A1 + c3 d) := by ring
  rw [this]
  nlinarith

theorem sum_sq_lt {β : Type} (l : List β) (hl : l ≠ []) (f g : β → ℝ)
    (h : ∀ p ∈ l, 0 < g p ∧ g p < f p) :
    ((l.map g).map (fun x => x * x)).sum < ((l.map f).map (fun x => x * x)).sum := by
  induction l with
  | nil => exact absurd rfl hl
  | cons a l ih =>
    have ha := h a (by simp)
    have h1 : g a * g a < f a * f a := by nlinarith
    by_cases hl' : l = []
    · subst hl'; simpa using h1
    · have := ih hl' (fun p hp => h p (by simp [hp]))
      simp only [List.map_cons, List.sum_cons]
      linarith

/-- `‖Vh‖` strictly decreases with the depth -/
theorem refineRhs_succ_lt (d m : Nat) (hd : 1 ≤ d) (hm : 0 < m) {δ : ℝ} (hδ : 0 < δ) (h : Nat)
    (lsvar : List (ℝ × ℝ)) (hne : lsvar ≠ []) (hpos : ∀ p ∈ lsvar, 0 < p.1 ∧ 0 < p.2) :
    (refineRhs d m δ (h + 1) lsvar : ℝ) < refineRhs d m δ h lsvar := by
  simp only [refineRhs, norm_real, designVh]
  apply Real.sqrt_lt_sqrt
  · apply List.sum_nonneg
    intro x hx
    obtain ⟨y, _, rfl⟩ := List.mem_map.mp hx
    exact mul_self_nonneg y
  · apply sum_sq_lt lsvar hne
    intro p hp
    have h1 := hpos p hp
    refine ⟨vhEntry_pos d m hd δ _ h1.1 h1.2, ?_⟩
    have := vhEntry_succ_lt d m hd hm (h : Int) (by positivity) hδ h1.1 h1.2
    simpa using this

/-! ## the depth gate and the link to `Adaptive.Space.shouldRefine` -/

theorem shouldRefine_gate {α : Type} [RealLike α] [LeB α] (d m : Nat) (δ : α)
    (pointDepth maxDepth : Nat) (h : maxDepth ≤ pointDepth) (lsvar : List (α × α))
    (scale diagCov : List α) :
    shouldRefine d m δ pointDepth maxDepth lsvar scale diagCov = false := by
  simp [shouldRefine, h]

theorem shouldRefine_below {α : Type} [RealLike α] [LeB α] (d m : Nat) (δ : α)
    (pointDepth maxDepth : Nat) (h : pointDepth < maxDepth) (lsvar : List (α × α))
    (scale diagCov : List α) :
    shouldRefine d m δ pointDepth maxDepth lsvar scale diagCov =
      allLe (refineLhs scale diagCov) (refineRhs d m δ pointDepth lsvar) := by
  simp [shouldRefine, Nat.not_le.mpr h]

/-! ## `compute_beta` -/

theorem vogpAdBeta_real (nv δ det c : ℝ) :
    vogpAdBeta nv δ det c =
      Real.sqrt ((1 / 10 + Real.sqrt (nv * Real.log (1 / nv * det) - 2 * Real.log δ)) ^ 2 / c) := by
  simp [vogpAdBeta, pow_two]

end Vh
end VOPy
