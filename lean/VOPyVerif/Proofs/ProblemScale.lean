import VOPyVerif.Proofs.Problem
import Mathlib.Data.Rat.Lemmas
import Mathlib.Data.Nat.Sqrt
import Mathlib.Algebra.Order.Field.Basic
/-! Helper lemmas for C20: min-max scaling, standardisation, normalize / unnormalize (over `ℚ`). -/
namespace VOPy.Problem

/-! ## column minimum / maximum -/

theorem rmin_le_left (a b : Rat) : rmin a b ≤ a := by
  unfold rmin; split
  · exact le_refl _
  · rename_i h; exact le_of_lt (not_le.mp h)

theorem rmin_le_right (a b : Rat) : rmin a b ≤ b := by
  unfold rmin; split
  · rename_i h; exact h
  · exact le_refl _

theorem rmin_eq (a b : Rat) : rmin a b = a ∨ rmin a b = b := by
  unfold rmin; split <;> simp

theorem le_rmax_left (a b : Rat) : a ≤ rmax a b := by
  unfold rmax; split
  · rename_i h; exact h
  · exact le_refl _

theorem le_rmax_right (a b : Rat) : b ≤ rmax a b := by
  unfold rmax; split
  · exact le_refl _
  · rename_i h; exact le_of_lt (not_le.mp h)

theorem rmax_eq (a b : Rat) : rmax a b = a ∨ rmax a b = b := by
  unfold rmax; split <;> simp

theorem foldl_rmin_le : ∀ (xs : Vec) (a : Rat), xs.foldl rmin a ≤ a ∧ ∀ y ∈ xs, xs.foldl rmin a ≤ y
  | [], a => by simp
  | x :: xs, a => by
    obtain ⟨h1, h2⟩ := foldl_rmin_le xs (rmin a x)
    simp only [List.foldl_cons, List.mem_cons, forall_eq_or_imp]
    exact ⟨le_trans h1 (rmin_le_left a x), le_trans h1 (rmin_le_right a x), h2⟩

theorem foldl_rmin_mem : ∀ (xs : Vec) (a : Rat), xs.foldl rmin a = a ∨ xs.foldl rmin a ∈ xs
  | [], a => by simp
  | x :: xs, a => by
    simp only [List.foldl_cons, List.mem_cons]
    rcases foldl_rmin_mem xs (rmin a x) with h | h
    · rcases rmin_eq a x with h' | h'
      · left; rw [h, h']
      · right; left; rw [h, h']
    · right; right; exact h

theorem le_foldl_rmax : ∀ (xs : Vec) (a : Rat), a ≤ xs.foldl rmax a ∧ ∀ y ∈ xs, y ≤ xs.foldl rmax a
  | [], a => by simp
  | x :: xs, a => by
    obtain ⟨h1, h2⟩ := le_foldl_rmax xs (rmax a x)
    simp only [List.foldl_cons, List.mem_cons, forall_eq_or_imp]
    exact ⟨le_trans (le_rmax_left a x) h1, le_trans (le_rmax_right a x) h1, h2⟩

theorem foldl_rmax_mem : ∀ (xs : Vec) (a : Rat), xs.foldl rmax a = a ∨ xs.foldl rmax a ∈ xs
  | [], a => by simp
  | x :: xs, a => by
    simp only [List.foldl_cons, List.mem_cons]
    rcases foldl_rmax_mem xs (rmax a x) with h | h
    · rcases rmax_eq a x with h' | h'
      · left; rw [h, h']
      · right; left; rw [h, h']
    · right; right; exact h

theorem colMin_le {col : Vec} {y : Rat} (hy : y ∈ col) : colMin col ≤ y := by
  cases col with
  | nil => simp at hy
  | cons x xs =>
    obtain ⟨h1, h2⟩ := foldl_rmin_le xs x
    rcases List.mem_cons.mp hy with rfl | hy
    · exact h1
    · exact h2 y hy

theorem colMin_mem {col : Vec} (h : col ≠ []) : colMin col ∈ col := by
  cases col with
  | nil => exact absurd rfl h
  | cons x xs =>
    rcases foldl_rmin_mem xs x with h | h
    · simp [colMin, h]
    · simp only [colMin, List.mem_cons]; right; exact h

theorem le_colMax {col : Vec} {y : Rat} (hy : y ∈ col) : y ≤ colMax col := by
  cases col with
  | nil => simp at hy
  | cons x xs =>
    obtain ⟨h1, h2⟩ := le_foldl_rmax xs x
    rcases List.mem_cons.mp hy with rfl | hy
    · exact h1
    · exact h2 y hy

theorem colMax_mem {col : Vec} (h : col ≠ []) : colMax col ∈ col := by
  cases col with
  | nil => exact absurd rfl h
  | cons x xs =>
    rcases foldl_rmax_mem xs x with h | h
    · simp [colMax, h]
    · simp only [colMax, List.mem_cons]; right; exact h

/-- the minimum is characterised by membership and being a lower bound -/
theorem colMin_eq_of {col : Vec} {m : Rat} (hm : m ∈ col) (hle : ∀ y ∈ col, m ≤ y) : colMin col = m :=
  le_antisymm (colMin_le hm) (hle _ (colMin_mem (List.ne_nil_of_mem hm)))

theorem colMax_eq_of {col : Vec} {m : Rat} (hm : m ∈ col) (hle : ∀ y ∈ col, y ≤ m) : colMax col = m :=
  le_antisymm (hle _ (colMax_mem (List.ne_nil_of_mem hm))) (le_colMax hm)

theorem colMin_lt_colMax {col : Vec} {a b : Rat} (ha : a ∈ col) (hb : b ∈ col) (hab : a ≠ b) :
    colMin col < colMax col := by
  rcases lt_or_gt_of_ne hab with h | h
  · exact lt_of_le_of_lt (colMin_le ha) (lt_of_lt_of_le h (le_colMax hb))
  · exact lt_of_le_of_lt (colMin_le hb) (lt_of_lt_of_le h (le_colMax ha))

/-! ## sums -/

theorem vsum_cons (x : Rat) (xs : Vec) : vsum (x :: xs) = x + vsum xs := rfl

theorem vsum_map_affine (a b : Rat) : ∀ l : Vec,
    vsum (l.map (fun x => a * x + b)) = a * vsum l + b * l.length
  | [] => by simp [vsum]
  | x :: xs => by
    have ih := vsum_map_affine a b xs
    simp only [List.map_cons, vsum_cons, List.length_cons, Nat.cast_succ] at ih ⊢
    rw [ih]; ring

theorem vsum_map_congr {f g : Rat → Rat} : ∀ l : Vec, (∀ x ∈ l, f x = g x) →
    vsum (l.map f) = vsum (l.map g)
  | [], _ => rfl
  | x :: xs, h => by
    simp only [List.map_cons, vsum_cons]
    rw [h x (by simp), vsum_map_congr xs (fun y hy => h y (List.mem_cons_of_mem _ hy))]

theorem vsum_map_smul (a : Rat) (f : Rat → Rat) : ∀ l : Vec,
    vsum (l.map (fun x => a * f x)) = a * vsum (l.map f)
  | [] => by simp [vsum]
  | x :: xs => by
    simp only [List.map_cons, vsum_cons, vsum_map_smul a f xs]; ring

theorem vsum_sq_nonneg (f : Rat → Rat) : ∀ l : Vec, 0 ≤ vsum (l.map (fun x => f x * f x))
  | [] => by simp [vsum]
  | x :: xs => by
    simp only [List.map_cons, vsum_cons]
    have := vsum_sq_nonneg f xs
    have := mul_self_nonneg (f x)
    linarith

theorem popVar_nonneg (col : Vec) : 0 ≤ popVar col := by
  unfold popVar
  exact div_nonneg (vsum_sq_nonneg (fun x => x - mean col) col) (Nat.cast_nonneg _)

/-! ## exact rational square root -/

theorem natSqrt?_sound {n r : Nat} (h : natSqrt? n = some r) : r * r = n := by
  unfold natSqrt? at h
  simp only at h
  split at h
  · rename_i hr; cases h; exact hr
  · cases h

theorem natSqrt?_complete (r : Nat) : natSqrt? (r * r) = some r := by
  unfold natSqrt?
  simp [Nat.sqrt_eq]

theorem ratSqrt?_sound {q s : Rat} (h : ratSqrt? q = some s) : s * s = q ∧ 0 ≤ s := by
  unfold ratSqrt? at h
  split at h
  · cases h
  · rename_i hq
    have hq0 : 0 ≤ q := not_lt.mp hq
    split at h
    · rename_i a b ha hb
      split at h
      · cases h
      · rename_i hb0
        cases h
        have ha' := natSqrt?_sound ha
        have hb' := natSqrt?_sound hb
        have hnum : (0 : Int) ≤ q.num := Rat.num_nonneg.mpr hq0
        have hb0' : (b : ℚ) ≠ 0 := by exact_mod_cast hb0
        refine ⟨?_, div_nonneg (Nat.cast_nonneg _) (Nat.cast_nonneg _)⟩
        have h1 : ((a : ℚ) * a) = (q.num : ℚ) := by
          have : ((a * a : Nat) : Int) = q.num := by rw [ha']; exact Int.toNat_of_nonneg hnum
          exact_mod_cast this
        have h2 : ((b : ℚ) * b) = (q.den : ℚ) := by exact_mod_cast hb'
        have h3 : (q.num : ℚ) / (q.den : ℚ) = q := Rat.num_div_den q
        rw [div_mul_div_comm, h1, h2, h3]
    · cases h

theorem ratSqrt?_complete (t : Rat) : ratSqrt? (t * t) = some |t| := by
  unfold ratSqrt?
  have h0 : ¬ t * t < 0 := not_lt.mpr (mul_self_nonneg t)
  simp only [h0, ↓reduceIte]
  have hn : (t * t).num.toNat = t.num.natAbs * t.num.natAbs := by
    rw [Rat.mul_self_num]
    have : t.num * t.num = ((t.num.natAbs * t.num.natAbs : Nat) : Int) := by
      push_cast; exact (abs_mul_abs_self _).symm
    rw [this, Int.toNat_natCast]
  rw [hn, Rat.mul_self_den, natSqrt?_complete, natSqrt?_complete]
  simp only [t.den_nz, ↓reduceIte, Option.some.injEq]
  have hcast : ((t.num.natAbs : Nat) : ℚ) = |(t.num : ℚ)| := by
    rw [Nat.cast_natAbs]; push_cast; rfl
  rw [hcast]
  have hden : (0 : ℚ) < t.den := by exact_mod_cast t.den_pos
  conv_rhs => rw [← Rat.num_div_den t]
  rw [abs_div, abs_of_pos hden]

/-! ## normalize / unnormalize -/

theorem unnormalizeCol_normalizeCol (lo hi x : Rat) (h : lo ≠ hi) :
    unnormalizeCol lo hi (normalizeCol lo hi x) = x := by
  have hne : hi - lo ≠ 0 := sub_ne_zero.mpr (Ne.symm h)
  unfold unnormalizeCol normalizeCol
  field_simp
  ring

theorem normalizeCol_unnormalizeCol (lo hi x : Rat) (h : lo ≠ hi) :
    normalizeCol lo hi (unnormalizeCol lo hi x) = x := by
  have hne : hi - lo ≠ 0 := sub_ne_zero.mpr (Ne.symm h)
  unfold unnormalizeCol normalizeCol
  field_simp
  ring

theorem rowWise_length (f : Rat → Rat → Rat → Rat) (b : List (Rat × Rat)) (row : Vec)
    (h : row.length = b.length) : (rowWise f b row).length = b.length := by
  simp [rowWise, h]

theorem rowWise_rowWise (f g : Rat → Rat → Rat → Rat) :
    ∀ (b : List (Rat × Rat)) (row : Vec),
      (∀ p ∈ b, ∀ x, g p.1 p.2 (f p.1 p.2 x) = x) → row.length = b.length →
      rowWise g b (rowWise f b row) = row
  | [], [], _, _ => rfl
  | [], _ :: _, _, h => by simp at h
  | _ :: _, [], _, h => by simp at h
  | p :: b, x :: row, hinv, h => by
    have ih := rowWise_rowWise f g b row (fun q hq => hinv q (List.mem_cons_of_mem _ hq)) (by simpa using h)
    simp only [rowWise, List.zipWith_cons_cons] at ih ⊢
    rw [hinv p (by simp) x, ih]

theorem boundsOK_iff (b : List (Rat × Rat)) : boundsOK b = true ↔ ∀ p ∈ b, p.1 ≠ p.2 := by
  simp [boundsOK]

theorem map_rowWise_inverse (f g : Rat → Rat → Rat → Rat) (b : List (Rat × Rat))
    (hinv : ∀ p ∈ b, ∀ x, g p.1 p.2 (f p.1 p.2 x) = x) :
    ∀ data : Mat, (∀ r ∈ data, r.length = b.length) →
      (data.map (rowWise f b)).map (rowWise g b) = data
  | [], _ => rfl
  | r :: data, h => by
    simp only [List.map_cons]
    rw [rowWise_rowWise f g b r hinv (h r (by simp)),
      map_rowWise_inverse f g b hinv data (fun q hq => h q (List.mem_cons_of_mem _ hq))]

/-! ## min-max scaling -/

/-- the divisor `MinMaxScaler` uses: the range, or 1 for a constant column -/
theorem minMax_eq (col : Vec) :
    minMax col = col.map (fun x => (x - colMin col) /
      (if colMax col - colMin col = 0 then 1 else colMax col - colMin col)) := rfl

theorem minMax_divisor_pos (col : Vec) :
    0 < (if colMax col - colMin col = 0 then (1 : Rat) else colMax col - colMin col) := by
  split
  · exact one_pos
  · rename_i h
    cases col with
    | nil => simp [colMax, colMin] at h
    | cons x xs =>
      have h1 : colMin (x :: xs) ≤ colMax (x :: xs) :=
        le_trans (colMin_le (List.mem_cons_self)) (le_colMax (List.mem_cons_self))
      rcases lt_or_eq_of_le h1 with h2 | h2
      · exact sub_pos.mpr h2
      · exact absurd (by rw [h2, sub_self]) h

/-! ## standardisation -/

theorem mean_standardiseWith (s : Rat) (col : Vec) (hcol : col ≠ []) :
    mean (standardiseWith s col) = 0 := by
  have hn : (col.length : ℚ) ≠ 0 := by
    have : col.length ≠ 0 := by simpa using hcol
    exact_mod_cast this
  unfold standardiseWith
  simp only []
  rw [show mean (col.map (fun x => (x - mean col) / s)) =
    vsum (col.map (fun x => (x - mean col) / s)) / col.length by simp [mean]]
  have h1 : vsum (col.map (fun x => (x - mean col) / s)) =
      vsum (col.map (fun x => (1 / s) * x + (-(mean col) / s))) :=
    vsum_map_congr col (fun x _ => by ring)
  rw [h1, vsum_map_affine]
  have : 1 / s * vsum col + -(mean col) / s * ↑col.length = 0 := by
    unfold mean
    field_simp
    ring
  rw [this, zero_div]

theorem popVar_standardiseWith (s : Rat) (col : Vec) (hcol : col ≠ []) :
    popVar (standardiseWith s col) = popVar col / (s * s) := by
  have hm := mean_standardiseWith s col hcol
  unfold popVar
  rw [hm]
  unfold standardiseWith
  simp only [List.length_map, List.map_map, sub_zero]
  have h1 : vsum (col.map ((fun x => x * x) ∘ fun x => (x - mean col) / s)) =
      vsum (col.map (fun x => (1 / (s * s)) * ((x - mean col) * (x - mean col)))) :=
    vsum_map_congr col (fun x _ => by simp only [Function.comp]; ring)
  rw [h1, vsum_map_smul]
  ring

theorem standardiseWith_moments (s : Rat) (col : Vec) (hcol : col ≠ []) (hs : s * s = popVar col)
    (hv : popVar col ≠ 0) :
    mean (standardiseWith s col) = 0 ∧ popVar (standardiseWith s col) = 1 :=
  ⟨mean_standardiseWith s col hcol, by rw [popVar_standardiseWith s col hcol, hs, div_self hv]⟩

/-! ## tolerance comparison used by the driver -/

theorem rabs_le_iff (a t : Rat) : rabs a ≤ t ↔ -t ≤ a ∧ a ≤ t := by
  unfold rabs
  split
  · rename_i h; constructor
    · intro h1; constructor <;> linarith
    · rintro ⟨h1, _⟩; linarith
  · rename_i h
    have h0 : 0 ≤ a := not_lt.mp h
    constructor
    · intro h1; constructor <;> linarith
    · rintro ⟨_, h2⟩; exact h2

theorem vecClose_iff (tol : Rat) : ∀ (a b : Vec),
    (a.length == b.length && (List.zipWith (fun x y => decide (rabs (x - y) ≤ tol)) a b).all id) = true ↔
      a.length = b.length ∧ ∀ (j : Nat) (x y : Rat), a[j]? = some x → b[j]? = some y → rabs (x - y) ≤ tol
  | [], [] => by simp
  | [], _ :: _ => by simp
  | _ :: _, [] => by simp
  | x :: a, y :: b => by
    have ih := vecClose_iff tol a b
    simp only [List.length_cons, Nat.add_right_cancel_iff, List.zipWith_cons_cons, List.all_cons, id,
      Bool.and_eq_true, beq_iff_eq, decide_eq_true_eq] at ih ⊢
    constructor
    · rintro ⟨hl, hxy, hall⟩
      obtain ⟨_, h⟩ := ih.mp ⟨hl, hall⟩
      refine ⟨hl, ?_⟩
      intro j u v hu hv
      cases j with
      | zero => simp at hu hv; subst hu; subst hv; exact hxy
      | succ j => simp at hu hv; exact h j u v hu hv
    · rintro ⟨hl, h⟩
      refine ⟨hl, h 0 x y (by simp) (by simp), (ih.mpr ⟨hl, ?_⟩).2⟩
      intro j u v hu hv
      exact h (j + 1) u v (by simpa using hu) (by simpa using hv)

theorem vecClose_zero_iff (a b : Vec) :
    (a.length == b.length && (List.zipWith (fun x y => decide (rabs (x - y) ≤ 0)) a b).all id) = true ↔
      a = b := by
  rw [vecClose_iff]
  constructor
  · rintro ⟨hl, h⟩
    apply List.ext_getElem hl
    intro j h1 h2
    have := h j a[j] b[j] (List.getElem?_eq_getElem h1) (List.getElem?_eq_getElem h2)
    rw [rabs_le_iff] at this
    linarith [this.1, this.2]
  · rintro rfl
    refine ⟨rfl, ?_⟩
    intro j x y hx hy
    rw [hx] at hy; cases hy
    simp [rabs]

theorem matClose_zero_iff : ∀ (A B : Mat), matClose 0 A B = true ↔ A = B
  | [], [] => by simp [matClose]
  | [], _ :: _ => by simp [matClose]
  | _ :: _, [] => by simp [matClose]
  | a :: A, b :: B => by
    have ih := matClose_zero_iff A B
    have hv := vecClose_zero_iff a b
    simp only [matClose, List.length_cons, List.zipWith_cons_cons, List.all_cons, id,
      Bool.and_eq_true, beq_iff_eq, Nat.add_right_cancel_iff, List.cons.injEq] at ih hv ⊢
    constructor
    · rintro ⟨hl, hab, hall⟩
      exact ⟨hv.mp hab, ih.mp ⟨hl, hall⟩⟩
    · rintro ⟨hab, hAB⟩
      obtain ⟨hl, hall⟩ := ih.mpr hAB
      exact ⟨hl, hv.mpr hab, hall⟩

end VOPy.Problem
