import VOPyVerif.Proofs.RunStep
/-!
# Invariants of whole runs (C06): induction over every finite sequence of environments
-/
namespace VOPy.Run
open VOPy VOPy.Steps

/-- the output of a call on a finished run -/
def doneOut : Out := { done := true, req := [], refined := none, batchExceeds := false }

theorem step_of_done {c : Cfg} {s : State} (e : Env) (h : isDone c s = true) :
    step c s e = (s, doneOut) := by
  simp [step, h, doneOut]

theorem step_of_not_done {c : Cfg} {s : State} (e : Env) (h : isDone c s = false) :
    step c s e = ((active c s e).st,
      { done := isDone c (active c s e).st, req := (active c s e).req,
        refined := (active c s e).refined, batchExceeds := (active c s e).exceeds,
        cap := (active c s e).cap }) := by
  simp [step, h]

/-- the returned flag is the termination test on the state the call leaves behind -/
theorem step_done_flag (c : Cfg) (s : State) (e : Env) :
    (step c s e).2.done = isDone c (step c s e).1 := by
  cases h : isDone c s
  · rw [step_of_not_done e h]
  · rw [step_of_done e h]; simp [doneOut, h]

theorem step_round (c : Cfg) (s : State) (e : Env) :
    (step c s e).1.round = if isDone c s then s.round else s.round + 1 := by
  cases h : isDone c s
  · rw [step_of_not_done e h]; simp [(active_account c s e).1]
  · rw [step_of_done e h]; simp

theorem step_account (c : Cfg) (s : State) (e : Env) :
    (step c s e).1.sampleCount = s.sampleCount + (step c s e).2.req.length ∧
    (step c s e).1.totalCost = s.totalCost + reqsCost c (step c s e).2.req := by
  cases h : isDone c s
  · rw [step_of_not_done e h]
    exact ⟨(active_account c s e).2.1, (active_account c s e).2.2⟩
  · rw [step_of_done e h]
    simp [doneOut, reqsCost, Rat.add_zero]

/-- well-formedness is preserved by every call of an elimination algorithm -/
theorem wf_step (c : Cfg) (s : State) (e : Env) (hw : WF c s) (hel : c.alg.elim = true) :
    WF c (step c s e).1 := by
  cases h : isDone c s
  · rw [step_of_not_done e h]
    by_cases hc : c.alg = .vogpAD
    · have := adActive_facts c s e hw hc
      have ha : active c s e = adActive c s e := by simp [active, hc]
      rw [ha]; exact this.wf
    · obtain ⟨T, hU, hD, _, _, _⟩ := active_trans c s e hw hel hc
      exact ⟨T.nodupS, T.nodupP, T.disj, hU, fun h => absurd h hc, fun h => absurd h hc⟩
  · rw [step_of_done e h]; exact hw

/-- fixed-design elimination algorithms: one call is a `Trans` on `(S, P)` -/
theorem step_trans (c : Cfg) (s : State) (e : Env) (hw : WF c s) (hel : c.alg.elim = true)
    (hne : c.alg ≠ .vogpAD) : Trans s.S s.P (step c s e).1.S (step c s e).1.P := by
  cases h : isDone c s
  · rw [step_of_not_done e h]; exact (active_trans c s e hw hel hne).1
  · rw [step_of_done e h]; exact Trans.refl hw.nodupS hw.nodupP hw.disj

/-! ### whole runs -/

theorem run_nil (c : Cfg) (s : State) : run c s [] = (s, []) := rfl

theorem run_cons (c : Cfg) (s : State) (e : Env) (es : List Env) :
    run c s (e :: es) = ((run c (step c s e).1 es).1, (step c s e).2 :: (run c (step c s e).1 es).2) :=
  rfl

/-- a run over `es₁ ++ es₂` is the run over `es₂` continued from the end of the run over `es₁`:
every statement about "the state after a run" is a statement about every prefix -/
theorem run_append (c : Cfg) (s : State) (es1 es2 : List Env) :
    run c s (es1 ++ es2) =
      ((run c (run c s es1).1 es2).1, (run c s es1).2 ++ (run c (run c s es1).1 es2).2) := by
  induction es1 generalizing s with
  | nil => simp [run_nil]
  | cons e es ih => simp only [List.cons_append, run_cons, ih, List.cons_append]

theorem run_length (c : Cfg) (s : State) (es : List Env) : (run c s es).2.length = es.length := by
  induction es generalizing s with
  | nil => rfl
  | cons e es ih => simp [run_cons, ih]

theorem wf_run (c : Cfg) (s : State) (es : List Env) (hw : WF c s) (hel : c.alg.elim = true) :
    WF c (run c s es).1 := by
  induction es generalizing s with
  | nil => exact hw
  | cons e es ih => rw [run_cons]; exact ih _ (wf_step c s e hw hel)

/-- fixed-design elimination algorithms: a whole run is a `Trans` on `(S, P)` -/
theorem run_trans (c : Cfg) (s : State) (es : List Env) (hw : WF c s) (hel : c.alg.elim = true)
    (hne : c.alg ≠ .vogpAD) : Trans s.S s.P (run c s es).1.S (run c s es).1.P := by
  induction es generalizing s with
  | nil => exact Trans.refl hw.nodupS hw.nodupP hw.disj
  | cons e es ih =>
    rw [run_cons]
    have t1 := step_trans c s e hw hel hne
    have t2 := ih _ (wf_step c s e hw hel)
    exact ⟨t2.sub.trans t1.sub, t2.nodupS, t2.nodupP, fun i hi => t2.keep i (t1.keep i hi),
      fun i hi => by
        rcases t2.from_ i hi with h | h
        · exact t1.from_ i h
        · exact Or.inr (t1.sub.subset h),
      t2.disj⟩

/-- once finished, always finished: the state is frozen and every later call is `doneOut` -/
theorem run_of_done (c : Cfg) (s : State) (es : List Env) (h : isDone c s = true) :
    run c s es = (s, List.replicate es.length doneOut) := by
  induction es with
  | nil => rfl
  | cons e es ih => rw [run_cons, step_of_done e h, ih]; rfl

theorem run_round_le (c : Cfg) (s : State) (es : List Env) :
    s.round ≤ (run c s es).1.round ∧ (run c s es).1.round ≤ s.round + es.length := by
  induction es generalizing s with
  | nil => simp [run_nil]
  | cons e es ih =>
    rw [run_cons]
    have h1 := step_round c s e
    have h2 := ih (step c s e).1
    simp only [List.length_cons]
    split at h1 <;> omega

/-- accounting over a whole run: the sample counter and the cost grow by exactly what was requested -/
theorem run_account (c : Cfg) (s : State) (es : List Env) :
    (run c s es).1.sampleCount = s.sampleCount + (allReqs (run c s es).2).length ∧
    (run c s es).1.totalCost = s.totalCost + reqsCost c (allReqs (run c s es).2) := by
  induction es generalizing s with
  | nil => simp [run_nil, allReqs, reqsCost, Rat.add_zero]
  | cons e es ih =>
    rw [run_cons]
    obtain ⟨h1, h2⟩ := step_account c s e
    obtain ⟨i1, i2⟩ := ih (step c s e).1
    refine ⟨?_, ?_⟩
    · rw [i1, h1]
      simp only [allReqs, List.flatMap_cons, List.length_append]
      omega
    · rw [i2, h2]
      simp only [allReqs, reqsCost, List.flatMap_cons, List.map_append, List.sum_append]
      rw [Rat.add_assoc]

/-- number of calls of a run prefix that found the run unfinished -/
def activeCalls (c : Cfg) (s : State) : List Env → Nat
  | [] => 0
  | e :: es => (if isDone c s then 0 else 1) + activeCalls c (step c s e).1 es

theorem run_round (c : Cfg) (s : State) (es : List Env) :
    (run c s es).1.round = s.round + activeCalls c s es := by
  induction es generalizing s with
  | nil => rfl
  | cons e es ih =>
    rw [run_cons, ih, step_round, activeCalls]
    split <;> omega

/-- NaiveElimination: from a state with `round ≤ L` a run prefix of `n` calls leaves
`round = min L (round + n)`, and every active call sampled all `K` designs. -/
theorem naive_run (c : Cfg) (hc : c.alg = .naive) (s : State) (es : List Env)
    (hle : s.round ≤ c.L) :
    (run c s es).1.round = min c.L (s.round + es.length) ∧
    (run c s es).1.sampleCount = s.sampleCount + c.K * ((run c s es).1.round - s.round) := by
  induction es generalizing s with
  | nil => simp [run_nil]; omega
  | cons e es ih =>
    rw [run_cons]
    by_cases hd : s.round = c.L
    · have hdone : isDone c s = true := by simp [isDone, hc, hd]
      rw [step_of_done e hdone]
      obtain ⟨i1, i2⟩ := ih s hle
      simp only [List.length_cons]
      refine ⟨by omega, i2⟩
    · have hdone : isDone c s = false := by simp [isDone, hc, hd]
      have hst : (step c s e).1 = account c s (allOf (List.range c.K)) := by
        rw [step_of_not_done e hdone]; simp [active, hc, naiveActive]
      rw [hst]
      have hle' : (account c s (allOf (List.range c.K))).round ≤ c.L := by
        simp only [account_round]; omega
      obtain ⟨i1, i2⟩ := ih _ hle'
      simp only [account_round, account_sampleCount, List.length_cons] at i1 i2 ⊢
      refine ⟨by omega, ?_⟩
      rw [i2]
      simp only [allOf, List.length_map, List.length_range]
      have h1 : 1 ≤ (run c (account c s (List.map (fun d => (d, none)) (List.range c.K))) es).1.round
          - s.round := by
        have := (run_round_le c (account c s (List.map (fun d => (d, none)) (List.range c.K))) es).1
        simp only [account_round] at this
        omega
      have h2 : (run c (account c s (List.map (fun d => (d, none)) (List.range c.K))) es).1.round
          - s.round = ((run c (account c s (List.map (fun d => (d, none)) (List.range c.K))) es).1.round
          - (s.round + 1)) + 1 := by omega
      rw [h2, Nat.mul_add]
      omega

/-! ### VOGP_AD -/

theorem active_ad {c : Cfg} (hc : c.alg = .vogpAD) (s : State) (e : Env) :
    active c s e = adActive c s e := by simp [active, hc]

/-- One VOGP_AD call on a well-formed state: the node list only grows; candidates are old
candidates or fresh nodes; a member of `P` stays unless it is the refined node, whose children
are then all in `P`. -/
theorem ad_step (c : Cfg) (s : State) (e : Env) (hw : WF c s) (hc : c.alg = .vogpAD) :
    (∃ t, (step c s e).1.depths = s.depths ++ t) ∧
    (∀ i ∈ (step c s e).1.S, i ∈ s.S ∨ s.depths.length ≤ i) ∧
    (∀ p ∈ s.P, p ∈ (step c s e).1.P ∨
      ((step c s e).2.refined = some p ∧ p ∉ (step c s e).1.S ∧
        ∀ k ∈ childIds c s.depths.length, k ∈ (step c s e).1.P)) := by
  cases h : isDone c s
  · rw [step_of_not_done e h, active_ad hc]
    have F := adActive_facts c s e hw hc
    cases hr : (adActive c s e).refined with
    | none =>
      obtain ⟨T, hD⟩ := F.plain hr
      exact ⟨⟨[], by simp [hD]⟩, fun i hi => Or.inl (T.sub.subset hi), fun p hp => Or.inl (T.keep p hp)⟩
    | some d =>
      obtain ⟨R, _⟩ := F.refine d hr
      refine ⟨⟨_, R.depths_eq⟩, ?_, ?_⟩
      · intro i hi
        rcases R.S_from i hi with h1 | h1
        · exact Or.inl h1
        · exact Or.inr ((mem_childIds c _ i).mp h1).1
      · intro p hp
        rcases R.P_keep p hp with h1 | h1
        · exact Or.inl h1
        · subst h1
          exact Or.inr ⟨rfl, R.notS, R.kidsP hp⟩
  · rw [step_of_done e h]
    exact ⟨⟨[], by simp⟩, fun i hi => Or.inl hi, fun p hp => Or.inl hp⟩

/-- VOGP_AD, whole run: nodes are never forgotten and every candidate at the end is a candidate of
the start or a node created during the run. -/
theorem ad_run (c : Cfg) (s : State) (es : List Env) (hw : WF c s) (hc : c.alg = .vogpAD) :
    (∃ t, (run c s es).1.depths = s.depths ++ t) ∧
    (∀ i ∈ (run c s es).1.S, i ∈ s.S ∨ s.depths.length ≤ i) := by
  have hel : c.alg.elim = true := by simp [hc, Alg.elim]
  induction es generalizing s with
  | nil => exact ⟨⟨[], by simp [run_nil]⟩, fun i hi => Or.inl hi⟩
  | cons e es ih =>
    rw [run_cons]
    obtain ⟨⟨t1, h1⟩, h2, _⟩ := ad_step c s e hw hc
    obtain ⟨⟨t2, h3⟩, h4⟩ := ih _ (wf_step c s e hw hel)
    refine ⟨⟨t1 ++ t2, by rw [h3, h1, List.append_assoc]⟩, ?_⟩
    intro i hi
    rcases h4 i hi with h | h
    · exact h2 i h
    · rw [h1, List.length_append] at h
      exact Or.inr (by omega)

end VOPy.Run
