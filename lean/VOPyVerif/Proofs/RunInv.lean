import VOPyVerif.Proofs.RunStep
/-!
# Invariants of whole runs (C06): induction over every finite sequence of environments
-/
namespace VOPy.Run
open VOPy VOPy.Steps

/-- the output of a call on a finished run -/
def doneOut : Out := { done := true, req := [], refined := none, batchExceeds := false }

theorem step_of_done {c : Cfg} {s : State} (e : Env) (h : isDone c s = true) :
    step c s e = (s, doneOut) := by
  simp [step, h, doneOut]

theorem step_of_not_done {c : Cfg} {s : State} (e : Env) (h : isDone c s = false) :
    step c s e = ((active c s e).st,
      { done := isDone c (active c s e).st, req := (active c s e).req,
        refined := (active c s e).refined, batchExceeds := (active c s e).exceeds }) := by
  simp [step, h]

/-- the returned flag is the termination test on the state the call leaves behind -/
theorem step_done_flag (c : Cfg) (s : State) (e : Env) :
    (step c s e).2.done = isDone c (step c s e).1 := by
  cases h : isDone c s
  · rw [step_of_not_done e h]
  · rw [step_of_done e h]; simp [doneOut, h]

theorem step_round (c : Cfg) (s : State) (e : Env) :
    (step c s e).1.round = if isDone c s then s.round else s.round + 1 := by
  cases h : isDone c s
  · rw [step_of_not_done e h]; simp [(active_account c s e).1]
  · rw [step_of_done e h]; simp

theorem step_account (c : Cfg) (s : State) (e : Env) :
    (step c s e).1.sampleCount = s.sampleCount + (step c s e).2.req.length ∧
    (step c s e).1.totalCost = s.totalCost + reqsCost c (step c s e).2.req := by
  cases h : isDone c s
  · rw [step_of_not_done e h]
    exact ⟨(active_account c s e).2.1, (active_account c s e).2.2⟩
  · rw [step_of_done e h]
    simp [doneOut, reqsCost, Rat.add_zero]

/-- well-formedness is preserved by every call of an elimination algorithm -/
theorem wf_step (c : Cfg) (s : State) (e : Env) (hw : WF c s) (hel : c.alg.elim = true) :
    WF c (step c s e).1 := by
  cases h : isDone c s
  · rw [step_of_not_done e h]
    by_cases hc : c.alg = .vogpAD
    · have := adActive_facts c s e hw hc
      have ha : active c s e = adActive c s e := by simp [active, hc]
      rw [ha]; exact this.wf
    · obtain ⟨T, hU, hD, _, _, _⟩ := active_trans c s e hw hel hc
      exact ⟨T.nodupS, T.nodupP, T.disj, hU, fun h => absurd h hc, fun h => absurd h hc⟩
  · rw [step_of_done e h]; exact hw

/-- fixed-design elimination algorithms: one call is a `Trans` on `(S, P)` -/
theorem step_trans (c : Cfg) (s : State) (e : Env) (hw : WF c s) (hel : c.alg.elim = true)
    (hne : c.alg ≠ .vogpAD) : Trans s.S s.P (step c s e).1.S (step c s e).1.P := by
  cases h : isDone c s
  · rw [step_of_not_done e h]; exact (active_trans c s e hw hel hne).1
  · rw [step_of_done e h]; exact Trans.refl hw.nodupS hw.nodupP hw.disj

/-! ### whole runs -/

theorem run_nil (c : Cfg) (s : State) : run c s [] = (s, []) := rfl

theorem run_cons (c : Cfg) (s : State) (e : Env) (es : List Env) :
    run c s (e :: es) = ((run c (step c s e).1 es).1, (step c s e).2 :: (run c (step c s e).1 es).2) :=
  rfl

/-- a run over `es₁ ++ es₂` is the run over `es₂` continued from the end of the run over `es₁`:
every statement about "the state after a run" is a statement about every prefix -/
theorem run_append (c : Cfg) (s : State) (es1 es2 : List Env) :
    run c s (es1 ++ es2) =
      ((run c (run c s es1).1 es2).1, (run c s es1).2 ++ (run c (run c s es1).1 es2).2) := by
  induction es1 generalizing s with
  | nil => simp [run_nil]
  | cons e es ih => simp only [List.cons_append, run_cons, ih, List.cons_append]

theorem run_length (c : Cfg) (s : State) (es : List Env) : (run c s es).2.length = es.length := by
  induction es generalizing s with
  | nil => rfl
  | cons e es ih => simp [run_cons, ih]

theorem wf_run (c : Cfg) (s : State) (es : List Env) (hw : WF c s) (hel : c.alg.elim = true) :
    WF c (run c s es).1 := by
  induction es generalizing s with
  | nil => exact hw
  | cons e es ih => rw [run_cons]; exact ih _ (wf_step c s e hw hel)

/-- fixed-design elimination algorithms: a whole run is a `Trans` on `(S, P)` -/
theorem run_trans (c : Cfg) (s : State) (es : List Env) (hw : WF c s) (hel : c.alg.elim = true)
    (hne : c.alg ≠ .vogpAD) : Trans s.S s.P (run c s es).1.S (run c s es).1.P := by
  induction es generalizing s with
  | nil => exact Trans.refl hw.nodupS hw.nodupP hw.disj
  | cons e es ih =>
    rw [run_cons]
    have t1 := step_trans c s e hw hel hne
    have t2 := ih _ (wf_step c s e hw hel)
    exact ⟨t2.sub.trans t1.sub, t2.nodupS, t2.nodupP, fun i hi => t2.keep i (t1.keep i hi),
      fun i hi => by
        rcases t2.from_ i hi with h | h
        · exact t1.from_ i h
        · exact Or.inr (t1.sub.subset h),
      t2.disj⟩

/-- once finished, always finished: the state is frozen and every later call is `doneOut` -/
theorem run_of_done (c : Cfg) (s : State) (es : List Env) (h : isDone c s = true) :
    run c s es = (s, List.replicate es.length doneOut) := by
  induction es with
  | nil => rfl
  | cons e es ih => rw [run_cons, step_of_done e h, ih]; rfl

theorem run_round_le (c : Cfg) (s : State) (es : List Env) :
    s.round ≤ (run c s es).1.round ∧ (run c s es).1.round ≤ s.round + es.length := by
  induction es generalizing s with
  | nil => simp [run_nil]
  | cons e es ih =>
    rw [run_cons]
    have h1 := step_round c s e
    have h2 := ih (step c s e).1
    simp only [List.length_cons]
    split at h1 <;> omega

/-- accounting over a whole run: the sample counter and the cost grow by exactly what was requested -/
theorem run_account (c : Cfg) (s : State) (es : List Env) :
    (run c s es).1.sampleCount = s.sampleCount + (allReqs (run c s es).2).length ∧
    (run c s es).1.totalCost = s.totalCost + reqsCost c (allReqs (run c s es).2) := by
  induction es generalizing s with
  | nil => simp [run_nil, allReqs, reqsCost, Rat.add_zero]
  | cons e es ih =>
    rw [run_cons]
    obtain ⟨h1, h2⟩ := step_account c s e
    obtain ⟨i1, i2⟩ := ih (step c s e).1
    refine ⟨?_, ?_⟩
    · rw [i1, h1]
      simp only [allReqs, List.flatMap_cons, List.length_append]
      omega
    · rw [i2, h2]
      simp only [allReqs, reqsCost, List.flatMap_cons, List.map_append, List.sum_append]
      rw [Rat.add_assoc]

end VOPy.Run
