import VOPyVerif.Proofs.RunInv
/-!
# The decidable relation (R) `Run.specOk`: satisfied by the model's `step`, sound for the
Prop-level statements of C06
-/
namespace VOPy.Run
open VOPy VOPy.Steps

theorem subsetB_iff (a b : List Nat) : subsetB a b = true ↔ ∀ i ∈ a, i ∈ b := by
  simp [subsetB]

theorem disjointB_iff (a b : List Nat) : disjointB a b = true ↔ ∀ i ∈ a, i ∉ b := by
  simp [disjointB]

theorem sameSet_refl (a : List Nat) : sameSet a a = true := by
  simp [sameSet, subsetB]

theorem sameSet_iff (a b : List Nat) : sameSet a b = true ↔ ∀ i, i ∈ a ↔ i ∈ b := by
  simp only [sameSet, Bool.and_eq_true, subsetB_iff]
  constructor
  · rintro ⟨h1, h2⟩ i; exact ⟨h1 i, h2 i⟩
  · intro h; exact ⟨fun i hi => (h i).mp hi, fun i hi => (h i).mpr hi⟩

theorem sameState_refl (s : State) : sameState s s = true := by
  simp [sameState, sameSet_refl]

/-! ### requests -/

theorem reqsOk_allOf (act : List Nat) :
    ((allOf act).all (fun r => act.contains r.1) &&
     ((allOf act).length == act.length && act.all (fun d => (allOf act).any (fun r => r.1 == d)) &&
      (allOf act).all (fun r => r.2.isNone))) = true := by
  simp [allOf]

theorem cappedC_ok (c : Cfg) (act : List Nat) (picks : List (Nat × Nat)) :
    (cappedC c act picks).all (fun r => act.contains r.1) = true ∧
    (cappedC c act picks).length ≤ min c.batch (1 * act.length) ∧
    (cappedC c act picks).all (fun r => r.2.isNone) = true := by
  refine ⟨?_, ?_, ?_⟩
  · simp only [cappedC, List.all_eq_true, List.mem_map]
    rintro r ⟨p, hp, rfl⟩
    exact (List.mem_filter.mp (List.mem_of_mem_take hp)).2
  · simp only [cappedC, List.length_map, List.length_take, Nat.one_mul]
    omega
  · simp only [cappedC, List.all_eq_true, List.mem_map]
    rintro r ⟨p, _, rfl⟩
    rfl

theorem cappedD_ok (c : Cfg) (act : List Nat) (picks : List (Nat × Nat)) :
    (cappedD c act picks).all (fun r => act.contains r.1) = true ∧
    (cappedD c act picks).length ≤ min c.batch (c.m * act.length) ∧
    (cappedD c act picks).all
      (fun r => match r.2 with | some k => decide (k < c.m) | none => false) = true := by
  refine ⟨?_, ?_, ?_⟩
  · simp only [cappedD, List.all_eq_true, List.mem_map]
    rintro r ⟨p, hp, rfl⟩
    have := (List.mem_filter.mp (List.mem_of_mem_take hp)).2
    simp only [Bool.and_eq_true] at this
    exact this.1
  · simp only [cappedD, List.length_map, List.length_take]
    omega
  · simp only [cappedD, List.all_eq_true, List.mem_map]
    rintro r ⟨p, hp, rfl⟩
    have := (List.mem_filter.mp (List.mem_of_mem_take hp)).2
    simp only [Bool.and_eq_true] at this
    exact this.2

/-- an active call never requests more than the expected batch -/
theorem req_le_cap (c : Cfg) (s : State) (e : Env) :
    (active c s e).req.length ≤ (active c s e).cap := by
  unfold active
  cases hc : c.alg
  case paveba => simp [pavebaActive, hc, allOf]
  case pavebaGP =>
    have := (cappedC_ok c (union s.S s.U) e.picks).2.1
    simpa [pavebaActive, hc] using this
  case pavebaPartial =>
    have := (cappedD_ok c (union s.S s.U) e.picks).2.1
    simpa [pavebaActive, hc] using this
  case auer => simp [auerActive, allOf]
  case naive => simp [naiveActive, allOf]
  case decoupled =>
    have := (cappedD_ok c (List.range c.K) e.picks).2.1
    simpa [decoupledActive] using this
  case vogp =>
    simp only [vogpActive]
    split
    · simp
    · have := (cappedC_ok c (union (vogpRound e.isDom e.isCov e.pessDom s.S s.P).1
        (vogpRound e.isDom e.isCov e.pessDom s.S s.P).2) e.picks).2.1
      simpa using this
  case epal =>
    simp only [vogpActive]
    split
    · simp
    · have := (cappedC_ok c (union (vogpRound e.isDom e.isCov e.pessDom s.S s.P).1
        (vogpRound e.isDom e.isCov e.pessDom s.S s.P).2) e.picks).2.1
      simpa using this
  case vogpAD =>
    simp only [adActive]
    split
    · simp
    · unfold evalRefine
      cases choose c _ e <;> simp [applyChoice]

/-- PaVeBa / Auer / NaiveElimination: an active call requests exactly `cap = |active|` evaluations -/
theorem req_eq_cap_evalAll (c : Cfg) (s : State) (e : Env) (h : c.alg.evalAll = true) :
    (active c s e).req.length = (active c s e).cap := by
  unfold active
  cases hc : c.alg <;> simp [hc, Alg.evalAll] at h
  · simp [pavebaActive, hc, allOf]
  · simp [auerActive, allOf]
  · simp [naiveActive, allOf]

theorem cappedC_length (c : Cfg) (act : List Nat) (picks : List (Nat × Nat)) :
    (cappedC c act picks).length =
      min (min c.batch act.length) (picks.filter (fun p => act.contains p.1)).length := by
  simp [cappedC, List.length_take]

theorem cappedD_length (c : Cfg) (act : List Nat) (picks : List (Nat × Nat)) :
    (cappedD c act picks).length =
      min (min c.batch (c.m * act.length))
        (picks.filter (fun p => act.contains p.1 && decide (p.2 < c.m))).length := by
  simp [cappedD, List.length_take]

/-- the requests of an active call of the model satisfy `reqsOk` -/
theorem reqsOk_active (c : Cfg) (s : State) (e : Env) (hw : WF c s)
    (hb : c.alg = .vogpAD → c.batch = 1) (o : Out) (ho : o.req = (active c s e).req) :
    reqsOk c s (active c s e).st o = true := by
  unfold reqsOk
  rw [ho]
  cases hc : c.alg
  case paveba =>
    have := reqsOk_allOf (union s.S s.U)
    simpa [activeAt, hc, Alg.evalAll, active, pavebaActive] using this
  case auer =>
    have := reqsOk_allOf s.S
    simpa [activeAt, hc, Alg.evalAll, active, auerActive] using this
  case naive =>
    have := reqsOk_allOf (List.range c.K)
    simpa [activeAt, hc, Alg.evalAll, active, naiveActive] using this
  case pavebaGP =>
    obtain ⟨h1, h2, h3⟩ := cappedC_ok c (union s.S s.U) e.picks
    simp only [activeAt, hc, Alg.evalAll, active, pavebaActive, Bool.false_eq_true, if_false,
      Bool.and_eq_true, decide_eq_true_eq]
    exact ⟨h1, h2, h3⟩
  case pavebaPartial =>
    obtain ⟨h1, h2, h3⟩ := cappedD_ok c (union s.S s.U) e.picks
    simp only [activeAt, hc, Alg.evalAll, active, pavebaActive, Bool.false_eq_true, if_false,
      Bool.and_eq_true, decide_eq_true_eq]
    exact ⟨h1, h2, h3⟩
  case decoupled =>
    obtain ⟨h1, h2, h3⟩ := cappedD_ok c (List.range c.K) e.picks
    simp only [activeAt, hc, Alg.evalAll, active, decoupledActive, Bool.false_eq_true, if_false,
      Bool.and_eq_true, decide_eq_true_eq]
    exact ⟨h1, h2, h3⟩
  case vogp =>
    simp only [activeAt, hc, Alg.evalAll, active, vogpActive, account_S, account_P,
      Bool.false_eq_true, if_false, Bool.and_eq_true, decide_eq_true_eq]
    split
    · simp
    · obtain ⟨h1, h2, h3⟩ := cappedC_ok c
        (union (vogpRound e.isDom e.isCov e.pessDom s.S s.P).1
          (vogpRound e.isDom e.isCov e.pessDom s.S s.P).2) e.picks
      exact ⟨h1, h2, h3⟩
  case epal =>
    simp only [activeAt, hc, Alg.evalAll, active, vogpActive, account_S, account_P,
      Bool.false_eq_true, if_false, Bool.and_eq_true, decide_eq_true_eq]
    split
    · simp
    · obtain ⟨h1, h2, h3⟩ := cappedC_ok c
        (union (vogpRound e.isDom e.isCov e.pessDom s.S s.P).1
          (vogpRound e.isDom e.isCov e.pessDom s.S s.P).2) e.picks
      exact ⟨h1, h2, h3⟩
  case vogpAD =>
    have F := adActive_facts c s e hw hc
    rw [active_ad hc]
    simp only [activeAt, hc, Alg.evalAll, Bool.false_eq_true, if_false, Bool.and_eq_true,
      decide_eq_true_eq, hb hc]
    by_cases hS : (adActive c s e).st.S = []
    · have hr := F.emptyS hS
      simp [hS, hr]
    · have hne : (adActive c s e).st.S.isEmpty = false := by
        cases h : (adActive c s e).st.S with
        | nil => exact absurd h hS
        | cons _ _ => rfl
      simp only [hne, Bool.false_eq_true, if_false]
      refine ⟨?_, ?_, ?_⟩
      · rw [List.all_eq_true]
        intro r hr
        have := (F.reqIn r hr).2
        simpa using (mem_union s.S s.P r.1).mpr this
      · have hl := F.reqLen
        cases hq : (adActive c s e).req with
        | nil => simp
        | cons r rs =>
          have hr : r ∈ (adActive c s e).req := by rw [hq]; exact List.mem_cons_self
          have hin := (mem_union s.S s.P r.1).mpr (F.reqIn r hr).2
          have hpos : 0 < (union s.S s.P).length := List.length_pos_of_mem hin
          rw [hq] at hl
          simp only [List.length_cons] at hl ⊢
          omega
      · rw [List.all_eq_true]
        intro r hr
        simp [(F.reqIn r hr).1]

theorem setsOk_of_trans {s st : State} (T : Trans s.S s.P st.S st.P) : setsOk s st = true := by
  simp only [setsOk, Bool.and_eq_true, subsetB_iff]
  refine ⟨⟨fun i hi => T.sub.subset hi, T.keep⟩, ?_⟩
  intro i hi
  rw [List.mem_append]
  exact (T.from_ i hi).symm

theorem adSetsOk_of_facts {c : Cfg} {s : State} {a : Act} (F : ADFacts c s a) (o : Out)
    (hr : o.refined = a.refined) (hq : o.req = a.req) : adSetsOk c s a.st o = true := by
  unfold adSetsOk
  rw [hr]
  cases hrr : a.refined with
  | none =>
    obtain ⟨T, hD⟩ := F.plain hrr
    simp [hD, setsOk_of_trans T]
  | some d =>
    obtain ⟨R, hreq⟩ := F.refine d hrr
    simp only [Bool.and_eq_true, decide_eq_true_eq, Bool.or_eq_true,
      List.all_eq_true, List.contains_eq_mem, decide_eq_false_iff_not, beq_iff_eq,
      List.isEmpty_iff, Bool.not_eq_eq_eq_not, Bool.not_true]
    refine ⟨⟨⟨⟨⟨⟨⟨⟨⟨⟨⟨?_, R.depth_lt⟩, R.depths_eq⟩, ?_⟩, ?_⟩, ?_⟩, ?_⟩, ?_⟩, ?_⟩, ?_⟩, ?_⟩, ?_⟩
    · rw [hq]; exact hreq
    · simpa using R.notS
    · simpa using R.notP
    · rcases R.was with h | h
      · exact Or.inl (by simpa using h)
      · exact Or.inr (by simpa using h)
    · intro i hi
      rcases R.S_from i hi with h | h
      · exact Or.inl (by simpa using h)
      · exact Or.inr (by simpa using h)
    · intro p hp
      rcases R.P_keep p hp with h | h
      · exact Or.inl (by simpa using h)
      · exact Or.inr h
    · intro p hp
      rcases R.P_from p hp with h | h | h
      · exact Or.inl (Or.inl (by simpa using h))
      · exact Or.inl (Or.inr (by simpa using h))
      · exact Or.inr (by simpa using h)
    · rcases R.side with h | h
      · exact Or.inl (fun k hk => by simpa using h k hk)
      · exact Or.inr (fun k hk => by simpa using h k hk)
    · by_cases hP : d ∈ s.P
      · exact Or.inr (fun k hk => by simpa using R.kidsP hP k hk)
      · exact Or.inl (by simpa using hP)
    · by_cases hS : d ∈ s.S
      · cases hl : s.latch
        · exact Or.inr (fun k hk => by simpa using R.kidsS hS hl k hk)
        · exact Or.inl (Or.inr rfl)
      · exact Or.inl (Or.inl (by simpa using hS))

theorem active_refined_nonelim (c : Cfg) (s : State) (e : Env) (h : c.alg.elim = false) :
    (active c s e).refined = none := by
  unfold active
  cases hc : c.alg <;> simp [hc, Alg.elim] at h <;> rfl

/-- **The model satisfies relation (R).**  On every well-formed state and for every environment the
state and output produced by `Run.step` pass `Run.specOk`. -/
theorem specOk_step (c : Cfg) (s : State) (e : Env) (hw : WF c s)
    (hb : c.alg = .vogpAD → c.batch = 1) :
    specOk c s (step c s e).1 (step c s e).2 = true := by
  cases h : isDone c s
  · rw [step_of_not_done e h]
    obtain ⟨a1, a2, a3⟩ := active_account c s e
    have hreq := reqsOk_active c s e hw hb
      { done := isDone c (active c s e).st, req := (active c s e).req,
        refined := (active c s e).refined, batchExceeds := (active c s e).exceeds,
        cap := (active c s e).cap } rfl
    unfold specOk
    simp only [h, Bool.false_eq_true, if_false, Bool.and_eq_true, beq_iff_eq, decide_eq_true_eq,
      beq_self_eq_true, and_true]
    refine ⟨⟨⟨⟨a1, a2⟩, a3⟩, hreq⟩, ?_⟩
    cases hel : c.alg.elim
    · simp [active_refined_nonelim c s e hel]
    · simp only [if_true, Bool.and_eq_true]
      by_cases hc : c.alg = .vogpAD
      · have F := adActive_facts c s e hw hc
        rw [active_ad hc] at *
        refine ⟨⟨(disjointB_iff _ _).mpr F.wf.disj, (subsetB_iff _ _).mpr F.wf.useful⟩, ?_⟩
        simp only [hc]
        exact adSetsOk_of_facts F _ rfl rfl
      · obtain ⟨T, hU, _, _, _, hR⟩ := active_trans c s e hw hel hc
        refine ⟨⟨(disjointB_iff _ _).mpr T.disj, (subsetB_iff _ _).mpr hU⟩, ?_⟩
        split
        · rename_i hcc; exact absurd hcc hc
        · rw [hR, setsOk_of_trans T]; rfl
  · rw [step_of_done e h]
    simp [specOk, h, sameState_refl, doneOut]

/-- soundness of (R), finished case -/
theorem specOk_sound_done {c : Cfg} {s s' : State} {o : Out} (h : specOk c s s' o = true)
    (hd : isDone c s = true) :
    (∀ i, i ∈ s.S ↔ i ∈ s'.S) ∧ (∀ i, i ∈ s.P ↔ i ∈ s'.P) ∧ (∀ i, i ∈ s.U ↔ i ∈ s'.U) ∧
    s'.round = s.round ∧ s'.sampleCount = s.sampleCount ∧ s'.totalCost = s.totalCost ∧
    s'.latch = s.latch ∧ s'.depths = s.depths ∧ o.done = true ∧ o.req = [] ∧ o.refined = none := by
  unfold specOk at h
  simp only [hd, if_true, Bool.and_eq_true, sameState, sameSet_iff, beq_iff_eq,
    decide_eq_true_eq, List.isEmpty_iff, Option.isNone_iff_eq_none] at h
  obtain ⟨⟨⟨⟨⟨⟨⟨⟨⟨⟨hS, hP⟩, hU⟩, hr⟩, hsc⟩, hc⟩, hl⟩, hdp⟩, hdone⟩, hreq⟩, href⟩ := h
  exact ⟨hS, hP, hU, hr.symm, hsc.symm, hc.symm, hl.symm, hdp.symm, hdone, hreq, href⟩

/-- soundness of (R), active case: accounting, returned flag, disjointness -/
theorem specOk_sound_active {c : Cfg} {s s' : State} {o : Out} (h : specOk c s s' o = true)
    (hd : isDone c s = false) :
    s'.round = s.round + 1 ∧ s'.sampleCount = s.sampleCount + o.req.length ∧
    s'.totalCost = s.totalCost + reqsCost c o.req ∧ o.done = isDone c s' ∧
    (c.alg.elim = true → (∀ i ∈ s'.S, i ∉ s'.P) ∧ (∀ i ∈ s'.U, i ∈ s'.P)) := by
  unfold specOk at h
  simp only [hd, Bool.false_eq_true, if_false, Bool.and_eq_true, beq_iff_eq,
    decide_eq_true_eq] at h
  obtain ⟨⟨⟨⟨⟨h1, h2⟩, h3⟩, h4⟩, _⟩, h6⟩ := h
  refine ⟨h1, h2, h3, h4, ?_⟩
  intro hel
  simp only [hel, if_true, Bool.and_eq_true, disjointB_iff, subsetB_iff] at h6
  exact ⟨h6.1.1, h6.1.2⟩

/-- soundness of (R), active case of a fixed-design elimination algorithm: `S` shrinks, `P` grows
and gains only former candidates, nothing is refined -/
theorem specOk_sound_sets {c : Cfg} {s s' : State} {o : Out} (h : specOk c s s' o = true)
    (hd : isDone c s = false) (hel : c.alg.elim = true) (hne : c.alg ≠ .vogpAD) :
    (∀ i ∈ s'.S, i ∈ s.S) ∧ (∀ i ∈ s.P, i ∈ s'.P) ∧ (∀ i ∈ s'.P, i ∈ s.P ∨ i ∈ s.S) := by
  unfold specOk at h
  simp only [hd, Bool.false_eq_true, if_false, Bool.and_eq_true, hel, if_true] at h
  have h6 := h.2.2
  have := h6
  simp only [Bool.and_eq_true, setsOk, subsetB_iff] at this
  obtain ⟨_, ⟨h1, h2⟩, h3⟩ := this
  exact ⟨h1, h2, fun i hi => (List.mem_append.mp (h3 i hi)).symm⟩

/-- soundness of (R), active VOGP_AD call: candidates are old candidates or nodes created in this
call; a member of `P` stays in `P` unless it is the refined node, whose children are then all in
`P`; the refined node is gone from both sets -/
theorem specOk_sound_ad {c : Cfg} {s s' : State} {o : Out} (h : specOk c s s' o = true)
    (hd : isDone c s = false) (hc : c.alg = .vogpAD) :
    (∀ i ∈ s'.S, i ∈ s.S ∨ s.depths.length ≤ i) ∧
    (∀ p ∈ s.P, p ∈ s'.P ∨ (o.refined = some p ∧ ∀ k ∈ childIds c s.depths.length, k ∈ s'.P)) ∧
    (∀ d, o.refined = some d → d ∉ s'.S ∧ d ∉ s'.P ∧ depthOf s d < c.maxDepth ∧ o.req = []) := by
  have hel : c.alg.elim = true := by simp [hc, Alg.elim]
  unfold specOk at h
  simp only [hd, Bool.false_eq_true, if_false, Bool.and_eq_true, hel, if_true] at h
  have h6 := h.2.2
  simp only [hc] at h6
  unfold adSetsOk at h6
  cases hr : o.refined with
  | none =>
    simp only [hr, Bool.and_eq_true, setsOk, subsetB_iff] at h6
    obtain ⟨_, ⟨h1, h2⟩, _⟩ := h6
    exact ⟨fun i hi => Or.inl (h1 i hi), fun p hp => Or.inl (h2 p hp), fun d hd' => by cases hd'⟩
  | some d =>
    simp only [hr, Bool.and_eq_true, decide_eq_true_eq, Bool.or_eq_true, List.all_eq_true,
      List.contains_eq_mem, decide_eq_false_iff_not, beq_iff_eq, List.isEmpty_iff,
      Bool.not_eq_eq_eq_not, Bool.not_true, decide_eq_true_eq] at h6
    obtain ⟨⟨⟨⟨⟨⟨⟨⟨⟨⟨⟨hq, hlt⟩, _⟩, hnS⟩, hnP⟩, _⟩, hSf⟩, hPk⟩, _⟩, _⟩, hkP⟩, _⟩ := h6
    refine ⟨?_, ?_, ?_⟩
    · intro i hi
      rcases hSf i hi with h1 | h1
      · exact Or.inl h1
      · exact Or.inr ((mem_childIds c _ i).mp h1).1
    · intro p hp
      rcases hPk p hp with h1 | h1
      · exact Or.inl h1
      · subst h1
        rcases hkP with h2 | h2
        · exact absurd hp h2
        · exact Or.inr ⟨rfl, h2⟩
    · intro d' hd'
      cases hd'
      exact ⟨hnS, hnP, hlt, hq⟩

/-- soundness of (R), requests of an active call: drawn from the active set; PaVeBa / Auer /
NaiveElimination request every active design; the others at most `batch` evaluations -/
theorem specOk_sound_requests {c : Cfg} {s s' : State} {o : Out} (h : specOk c s s' o = true)
    (hd : isDone c s = false) :
    (∀ r ∈ o.req, r.1 ∈ activeAt c s s') ∧
    (c.alg.evalAll = true → o.req.length = (activeAt c s s').length ∧
      ∀ d ∈ activeAt c s s', ∃ r ∈ o.req, r.1 = d) ∧
    (c.alg.evalAll = false → o.req.length ≤ c.batch) := by
  unfold specOk at h
  simp only [hd, Bool.false_eq_true, if_false, Bool.and_eq_true] at h
  have h5 := h.1.2
  unfold reqsOk at h5
  simp only [Bool.and_eq_true, List.all_eq_true, List.contains_eq_mem, decide_eq_true_eq] at h5
  refine ⟨h5.1, ?_, ?_⟩
  · intro he
    simp only [he, if_true, Bool.and_eq_true, beq_iff_eq, List.all_eq_true, List.any_eq_true] at h5
    exact ⟨h5.2.1.1, h5.2.1.2⟩
  · intro he
    simp only [he, Bool.false_eq_true, if_false, Bool.and_eq_true, decide_eq_true_eq] at h5
    have := h5.2.1
    omega

end VOPy.Run
