import VOPyVerif.Proofs.Eval
import Mathlib.Data.Rat.Cast.Order
/-!
# Helper lemmas for C19, part 2: soundness of the KKT / Farkas checkers and ε-coverage

The checkers run over `ℚ` (the driver); the statements quantify over vectors with entries in an
arbitrary linearly ordered field `K` (ℝ in particular), the rational data being cast into `K`.
-/
set_option linter.unusedSectionVars false
namespace VOPy.Eval

variable {K : Type} [Field K] [LinearOrder K] [IsStrictOrderedRing K]

/-- entrywise cast `ℚ → K` -/
def castV (v : Vec) : List K := v.map (fun q => (q : K))
/-- rowwise cast -/
def castM (W : Mat) : List (List K) := W.map castV

@[simp] theorem castV_nil : castV (K := K) [] = [] := rfl
@[simp] theorem castV_cons (a : Rat) (as : Vec) : castV (K := K) (a :: as) = (a : K) :: castV as := rfl
@[simp] theorem castV_length (v : Vec) : (castV (K := K) v).length = v.length := by simp [castV]

/-! ### the rational instance of the generic terms -/

theorem gdotQ_nil_left (b : Vec) : gdot ([] : Vec) b = 0 := by unfold gdot; rfl
theorem gdotQ_nil_right (a : Vec) : gdot a ([] : Vec) = 0 := by cases a <;> (unfold gdot; rfl)
theorem gdotQ_cons (a : Rat) (as : Vec) (b : Rat) (bs : Vec) :
    gdot (a :: as) (b :: bs) = a * b + gdot as bs := by rw [gdot]

theorem gdot_cast (a b : Vec) : ((gdot a b : Rat) : K) = gdot (castV a) (castV b) := by
  induction a generalizing b with
  | nil => rw [gdotQ_nil_left]; simp
  | cons x xs ih =>
    cases b with
    | nil => rw [gdotQ_nil_right]; simp
    | cons y ys =>
      rw [gdotQ_cons]
      simp only [castV_cons, gdot_cons]
      rw [← ih ys]
      push_cast
      ring

theorem relu_cast (x : Rat) : ((relu x : Rat) : K) = relu (x : K) := by
  unfold relu
  by_cases h : x < 0
  · have h' : (x : K) < 0 := by exact_mod_cast h
    rw [if_pos h, if_pos h']; simp
  · have h' : ¬ (x : K) < 0 := by
      intro hc; apply h; exact_mod_cast hc
    rw [if_neg h, if_neg h']

theorem castV_gsub (a b : Vec) : castV (K := K) (gsub a b) = gsub (castV a) (castV b) := by
  induction a generalizing b with
  | nil => simp [gsub]
  | cons x xs ih =>
    cases b with
    | nil => simp [gsub]
    | cons y ys =>
      have := ih ys
      simp only [gsub, List.zipWith_cons_cons, castV_cons] at this ⊢
      rw [this]; push_cast; rfl

theorem castV_replicate_zero (n : Nat) : castV (K := K) (List.replicate n 0) = List.replicate n 0 := by
  induction n with
  | zero => rfl
  | succ n ih => simp [List.replicate_succ, ih]

/-! ### `lincomb` -/

theorem lincomb_length (D : Nat) (W : Mat) (lam : Vec) (hW : rowsHaveLen D W = true) :
    (lincomb D W lam).length = D := by
  induction W generalizing lam with
  | nil => simp [lincomb, zeros]
  | cons w W ih =>
    cases lam with
    | nil => simp [lincomb, zeros]
    | cons l ls =>
      simp only [rowsHaveLen, List.all_cons, Bool.and_eq_true, decide_eq_true_eq] at hW
      have := ih ls (by simpa [rowsHaveLen] using hW.2)
      simp [lincomb, axpy, hW.1, this]

theorem gdot_axpy (l : Rat) (w r : Vec) (z : List K) (h : w.length = r.length) :
    gdot (castV (axpy l w r)) z = (l : K) * gdot (castV w) z + gdot (castV r) z := by
  induction w generalizing r z with
  | nil =>
    cases r with
    | nil => simp [axpy]
    | cons _ _ => simp at h
  | cons x xs ih =>
    cases r with
    | nil => simp at h
    | cons y ys =>
      cases z with
      | nil => simp
      | cons c cs =>
        have := ih ys cs (by simpa using h)
        simp only [axpy, List.zipWith_cons_cons, castV_cons, gdot_cons] at this ⊢
        rw [this]; push_cast; ring

/-- `(Σ λ_n w_n) · z = Σ λ_n (w_n · z)` -/
theorem gdot_lincomb (D : Nat) (W : Mat) (lam : Vec) (z : List K) (hW : rowsHaveLen D W = true) :
    gdot (castV (lincomb D W lam)) z =
      gdot (castV lam) (W.map (fun w => gdot (castV w) z)) := by
  induction W generalizing lam with
  | nil =>
    simp only [lincomb, zeros, List.map_nil, gdot_nil_right]
    rw [castV_replicate_zero, gdot_comm, gdot_replicate_zero]
  | cons w W ih =>
    have hW' : w.length = D ∧ rowsHaveLen D W = true := by
      simpa [rowsHaveLen] using hW
    cases lam with
    | nil =>
      simp only [lincomb, zeros, castV_nil, gdot_nil_left]
      rw [castV_replicate_zero, gdot_comm, gdot_replicate_zero]
    | cons l ls =>
      simp only [lincomb, List.map_cons, castV_cons, gdot_cons]
      rw [gdot_axpy _ _ _ _ (by rw [hW'.1, lincomb_length D W ls hW'.2]), ih ls hW'.2]

/-! ### feasibility over `K` -/

/-- `z` satisfies every row constraint `b_n ≤ w_n · z` (one right-hand side per row) -/
def FeasK : Mat → Vec → List K → Prop
  | w :: W, b :: bs, z => (b : K) ≤ gdot (castV w) z ∧ FeasK W bs z
  | [], [], _ => True
  | _, _, _ => False

theorem feasK_of_feasible (W : Mat) (b y : Vec) (h : feasible W b y = true) :
    FeasK (K := K) W b (castV y) := by
  induction W generalizing b with
  | nil =>
    cases b with
    | nil => trivial
    | cons _ _ => simp [feasible] at h
  | cons w W ih =>
    cases b with
    | nil => simp [feasible] at h
    | cons b0 bs =>
      simp only [feasible, Bool.and_eq_true, decide_eq_true_eq] at h
      refine ⟨?_, ih bs h.2⟩
      rw [← gdot_cast]
      exact_mod_cast h.1

theorem feasK_map_iff (W : Mat) (f : Vec → Rat) (z : List K) :
    FeasK W (W.map f) z ↔ ∀ w ∈ W, (f w : K) ≤ gdot (castV w) z := by
  induction W with
  | nil => simp [FeasK]
  | cons w W ih => simp [FeasK, ih]

theorem feasible_map_iff (W : Mat) (f : Vec → Rat) (y : Vec) :
    feasible W (W.map f) y = true ↔ ∀ w ∈ W, f w ≤ gdot w y := by
  induction W with
  | nil => simp [feasible]
  | cons w W ih => simp [feasible, ih]

/-- `Σ λ_n b_n ≤ Σ λ_n (w_n · z)` for `λ ≥ 0` and feasible `z` -/
theorem kkt_sum_le (W : Mat) (b lam : Vec) (z : List K) (hz : FeasK W b z)
    (hl : allNonneg lam = true) :
    gdot (castV (K := K) lam) (castV b) ≤ gdot (castV lam) (W.map (fun w => gdot (castV w) z)) := by
  induction W generalizing b lam with
  | nil =>
    cases b with
    | nil => simp
    | cons _ _ => exact absurd hz (by simp [FeasK])
  | cons w W ih =>
    cases b with
    | nil => exact absurd hz (by simp [FeasK])
    | cons b0 bs =>
      cases lam with
      | nil => simp
      | cons l ls =>
        simp only [allNonneg, List.all_cons, Bool.and_eq_true, decide_eq_true_eq] at hl
        obtain ⟨hz1, hz2⟩ := hz
        have := ih bs ls hz2 (by simpa [allNonneg] using hl.2)
        simp only [castV_cons, List.map_cons, gdot_cons]
        have hl0 : (0 : K) ≤ (l : K) := by exact_mod_cast hl.1
        have := mul_le_mul_of_nonneg_left hz1 hl0
        linarith

/-- complementary slackness: `Σ λ_n b_n = Σ λ_n (w_n · y)` -/
theorem cs_sum_eq (W : Mat) (b lam y : Vec) (h : complSlack W b lam y = true) :
    gdot (castV (K := K) lam) (castV b) =
      gdot (castV lam) (W.map (fun w => gdot (castV w) (castV y))) := by
  induction W generalizing b lam with
  | nil =>
    cases b with
    | nil => simp
    | cons _ _ => simp [complSlack] at h
  | cons w W ih =>
    cases b with
    | nil => simp [complSlack] at h
    | cons b0 bs =>
      cases lam with
      | nil => simp
      | cons l ls =>
        simp only [complSlack, Bool.and_eq_true, decide_eq_true_eq] at h
        have := ih bs ls h.2
        simp only [castV_cons, List.map_cons, gdot_cons]
        have h1 : ((l * (gdot w y - b0) : Rat) : K) = 0 := by rw [h.1]; simp
        rw [Rat.cast_mul, Rat.cast_sub, gdot_cast, mul_sub, sub_eq_zero] at h1
        rw [← h1, this]

/-! ### checker soundness -/

/-- **KKT checker soundness.**  If `checkKKT D W b y lam` accepts, then `y` is feasible and every
`K`-vector `z` of dimension `D` satisfying all row constraints has `‖y‖² ≤ ‖z‖²`. -/
theorem checkKKT_sound (D : Nat) (W : Mat) (b y lam : Vec) (h : checkKKT D W b y lam = true) :
    FeasK (K := K) W b (castV y) ∧
    ∀ z : List K, z.length = D → FeasK W b z → ((gdot y y : Rat) : K) ≤ gdot z z := by
  simp only [checkKKT, Bool.and_eq_true, decide_eq_true_eq] at h
  obtain ⟨⟨⟨⟨⟨_hy, hW⟩, hfe⟩, hl⟩, hyeq⟩, hcs⟩ := h
  refine ⟨feasK_of_feasible W b y hfe, ?_⟩
  intro z _hz hzf
  -- y · x = Σ λ_n (w_n · x) for every x
  have hyx : ∀ x : List K, gdot (castV y) x = gdot (castV lam) (W.map (fun w => gdot (castV w) x)) := by
    intro x
    have := gdot_lincomb (K := K) D W lam x hW
    rw [← hyeq] at this
    exact this
  have h1 : gdot (castV (K := K) y) (castV y) = gdot (castV lam) (castV b) := by
    rw [hyx (castV y), ← cs_sum_eq W b lam y hcs]
  have h2 : gdot (castV (K := K) lam) (castV b) ≤ gdot (castV y) z := by
    rw [hyx z]; exact kkt_sum_le W b lam z hzf hl
  have h3 := two_gdot_le (castV (K := K) y) z
  rw [gdot_cast]
  linarith

/-- **Farkas checker soundness.**  If `checkFarkas D W b lam` accepts, no `K`-vector of dimension
`D` satisfies all the row constraints. -/
theorem checkFarkas_sound (D : Nat) (W : Mat) (b lam : Vec) (h : checkFarkas D W b lam = true) :
    ¬ ∃ z : List K, z.length = D ∧ FeasK W b z := by
  simp only [checkFarkas, Bool.and_eq_true, decide_eq_true_eq] at h
  obtain ⟨⟨⟨⟨⟨hW, _⟩, _⟩, hl⟩, hzero⟩, hpos⟩ := h
  rintro ⟨z, _, hzf⟩
  have h1 := gdot_lincomb (K := K) D W lam z hW
  rw [hzero, zeros, castV_replicate_zero, gdot_comm, gdot_replicate_zero] at h1
  have h2 := kkt_sum_le W b lam z hzf hl
  rw [← h1, ← gdot_cast] at h2
  have : ((0 : Rat) : K) < ((gdot lam b : Rat) : K) := by exact_mod_cast hpos
  simp only [Rat.cast_zero] at this
  exact absurd this (not_lt.mpr h2)

/-! ### the searches only return checked answers -/

theorem project_checked {D : Nat} {W : Mat} {b y lam : Vec} (h : project D W b = some (y, lam)) :
    checkKKT D W b y lam = true := by
  unfold project at h
  obtain ⟨S, _, hS⟩ := List.exists_of_findSome?_eq_some h
  cases hc : candidate D W b S with
  | none => simp [hc] at hS
  | some p =>
    obtain ⟨y', lam'⟩ := p
    simp only [hc] at hS
    by_cases hk : checkKKT D W b y' lam' = true
    · rw [if_pos hk] at hS
      simp only [Option.some.injEq, Prod.mk.injEq] at hS
      rw [← hS.1, ← hS.2]; exact hk
    · rw [if_neg hk] at hS; simp at hS

theorem findFarkas_checked {D : Nat} {W : Mat} {b lam : Vec} (h : findFarkas D W b = some lam) :
    checkFarkas D W b lam = true := by
  unfold findFarkas at h
  obtain ⟨S, _, hS⟩ := List.exists_of_findSome?_eq_some h
  obtain ⟨r, _, hr⟩ := List.exists_of_findSome?_eq_some hS
  cases hc : farkasCandidate W S r with
  | none => simp [hc] at hr
  | some lam' =>
    simp only [hc] at hr
    by_cases hk : checkFarkas D W b lam' = true
    · rw [if_pos hk] at hr
      simp only [Option.some.injEq] at hr
      rw [← hr]; exact hk
    · rw [if_neg hk] at hr; simp at hr

/-! ### ε-coverage -/

/-- **Geometric definition of ε-coverage**: some cone vector `z` of squared norm at most `ε²`
added to `vj` dominates `vi` (`vj + z − vi ∈ C`).  Vectors have entries in `K`. -/
def Covered (W : Mat) (vi vj : Vec) (ε : K) : Prop :=
  ∃ z : List K, z.length = vi.length ∧ InCone (castM W) z ∧ gdot z z ≤ ε * ε ∧
    InCone (castM W) (gsub (gadd (castV vj) z) (castV vi))

theorem inCone_castM_iff (W : Mat) (x : List K) :
    InCone (castM W) x ↔ ∀ w ∈ W, 0 ≤ gdot (castV w) x := by
  simp [InCone, castM]

/-- membership of `z` in the covering polyhedron ⇔ `z ∈ C` and `vj + z − vi ∈ C` -/
theorem feasK_cover_iff (W : Mat) (vi vj : Vec) (z : List K) (D : Nat)
    (hvi : vi.length = D) (hvj : vj.length = D) (hz : z.length = D) :
    FeasK W (coverRhs vi vj W) z ↔
      InCone (castM W) z ∧ InCone (castM W) (gsub (gadd (castV vj) z) (castV vi)) := by
  unfold coverRhs
  rw [feasK_map_iff, inCone_castM_iff, inCone_castM_iff]
  have key : ∀ w ∈ W, ((relu (gdot w (gsub vi vj)) : Rat) : K) ≤ gdot (castV w) z ↔
      (0 ≤ gdot (castV w) z ∧ 0 ≤ gdot (castV w) (gsub (gadd (castV vj) z) (castV vi))) := by
    intro w _
    rw [relu_cast, gdot_cast, castV_gsub, gdot_gsub _ _ _ (by simp [hvi, hvj]),
      gdot_gsub _ _ _ (by simp [gadd, hvi, hvj, hz]), gdot_gadd _ _ _ (by simp [hvj, hz]),
      relu_eq_max, max_le_iff]
    constructor
    · rintro ⟨h1, h2⟩; exact ⟨h1, by linarith⟩
    · rintro ⟨h1, h2⟩; exact ⟨h1, by linarith⟩
  constructor
  · intro h
    exact ⟨fun w hw => ((key w hw).mp (h w hw)).1, fun w hw => ((key w hw).mp (h w hw)).2⟩
  · rintro ⟨h1, h2⟩ w hw
    exact (key w hw).mpr ⟨h1 w hw, h2 w hw⟩

/-- what a `dist2` answer of `coverSolve` certifies -/
theorem coverSolve_dist2 {vi vj : Vec} {W : Mat} {d2 : Rat} {y lam : Vec}
    (h : coverSolve vi vj W = .dist2 d2 y lam) :
    vj.length = vi.length ∧ d2 = gdot y y ∧
      checkKKT vi.length W (coverRhs vi vj W) y lam = true := by
  unfold coverSolve at h
  simp only at h
  by_cases hl : vj.length ≠ vi.length
  · rw [if_pos hl] at h; cases h
  · rw [if_neg hl] at h
    cases hp : project vi.length W (coverRhs vi vj W) with
    | some p =>
      obtain ⟨y', lam'⟩ := p
      simp only [hp] at h
      injection h with h1 h2 h3
      subst h2 h3
      exact ⟨not_not.mp hl, h1.symm, project_checked hp⟩
    | none =>
      simp only [hp] at h
      cases hf : findFarkas vi.length W (coverRhs vi vj W) with
      | some l => simp only [hf] at h; cases h
      | none => simp only [hf] at h; cases h

theorem coverSolve_infeasible {vi vj : Vec} {W : Mat} {lam : Vec}
    (h : coverSolve vi vj W = .infeasible lam) :
    vj.length = vi.length ∧ checkFarkas vi.length W (coverRhs vi vj W) lam = true := by
  unfold coverSolve at h
  simp only at h
  by_cases hl : vj.length ≠ vi.length
  · rw [if_pos hl] at h; cases h
  · rw [if_neg hl] at h
    cases hp : project vi.length W (coverRhs vi vj W) with
    | some p =>
      obtain ⟨y', lam'⟩ := p
      simp only [hp] at h
      cases h
    | none =>
      simp only [hp] at h
      cases hf : findFarkas vi.length W (coverRhs vi vj W) with
      | some l =>
        simp only [hf] at h
        injection h with h1
        subst h1
        exact ⟨not_not.mp hl, findFarkas_checked hf⟩
      | none => simp only [hf] at h; cases h

/-- A certified squared distance decides ε-coverage exactly. -/
theorem covered_iff_of_dist2 {vi vj : Vec} {W : Mat} {d2 : Rat} {y lam : Vec}
    (h : coverSolve vi vj W = .dist2 d2 y lam) (ε : Rat) :
    Covered (K := K) W vi vj (ε : K) ↔ d2 ≤ ε * ε := by
  obtain ⟨hvj, hd2, hk⟩ := coverSolve_dist2 h
  have hk' := hk
  simp only [checkKKT, Bool.and_eq_true, decide_eq_true_eq] at hk'
  obtain ⟨⟨⟨⟨⟨hy, hW⟩, _⟩, _⟩, _⟩, _⟩ := hk'
  obtain ⟨hfy, hopt⟩ := checkKKT_sound (K := K) _ W _ y lam hk
  constructor
  · rintro ⟨z, hz, hzC, hzn, hzD⟩
    have hzf : FeasK W (coverRhs vi vj W) z :=
      (feasK_cover_iff W vi vj z vi.length rfl hvj hz).mpr ⟨hzC, hzD⟩
    have := hopt z hz hzf
    have h2 : ((d2 : Rat) : K) ≤ ((ε * ε : Rat) : K) := by
      rw [hd2]; push_cast; exact this.trans hzn
    exact_mod_cast h2
  · intro hle
    have hyK : (castV (K := K) y).length = vi.length := by simp [hy]
    obtain ⟨h1, h2⟩ := (feasK_cover_iff W vi vj (castV y) vi.length rfl hvj hyK).mp hfy
    refine ⟨castV y, hyK, h1, ?_, h2⟩
    rw [← gdot_cast, ← hd2]
    have : ((d2 : Rat) : K) ≤ ((ε * ε : Rat) : K) := by exact_mod_cast hle
    simpa using this

/-- A certified "infeasible" means no vector at all covers, for any ε. -/
theorem not_covered_of_infeasible {vi vj : Vec} {W : Mat} {lam : Vec}
    (h : coverSolve vi vj W = .infeasible lam) (ε : K) : ¬ Covered (K := K) W vi vj ε := by
  obtain ⟨hvj, hf⟩ := coverSolve_infeasible h
  have hf' := hf
  simp only [checkFarkas, Bool.and_eq_true, decide_eq_true_eq] at hf'
  obtain ⟨⟨⟨⟨⟨hW, _⟩, _⟩, _⟩, _⟩, _⟩ := hf'
  rintro ⟨z, hz, hzC, _, hzD⟩
  exact checkFarkas_sound (K := K) _ W _ lam hf
    ⟨z, hz, (feasK_cover_iff W vi vj z vi.length rfl hvj hz).mpr ⟨hzC, hzD⟩⟩

end VOPy.Eval
