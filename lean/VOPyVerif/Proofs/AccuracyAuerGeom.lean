import VOPyVerif.Proofs.AccuracyGeom
import VOPyVerif.Proofs.AccuracyAuer
/-!
# C01, Auer: the `m/M` rules with summed widths are sound for the componentwise order

Arithmetic behind `ARoundSound`: for centres `c`, width rows `β` and true means `μ` (all of length
`m`) with `‖c_i − μ_i‖_∞ ≤ min_d β_i[d]` (`errWithin`) and positive widths,

* an elimination certificate `np.all(m(c_i, c_j) > β_i + β_j)` implies `μ_i < μ_j` in every coordinate,
* a stage-1 pass `¬ np.all(M(c_i, c_j) < β_i + β_j)` implies `∃ d, μ_j[d] − μ_i[d] ≤ ε`,
* a stage-2 pass `¬ np.all(M(c_j, c_i) <= β_i + β_j)` implies `∃ d, μ_i[d] − μ_j[d] ≤ ε`,

and the identity-matrix bookkeeping that turns the coordinate statements into
`dominates (identMat m)` / `gapLe (identMat m) (ones m) ε`, the functions the driver evaluates.
-/
namespace VOPy.Accuracy
open VOPy VOPy.Steps

/-! ### `vmin`, `vmax`, `allGt`, `allLt`, `allLe` -/

theorem foldl_min_le_init (xs : List Rat) (x : Rat) : xs.foldl min x ≤ x := by
  induction xs generalizing x with
  | nil => simp
  | cons a xs ih => exact le_trans (ih (min x a)) (min_le_left _ _)

theorem foldl_min_le_mem (xs : List Rat) (x : Rat) : ∀ y ∈ xs, xs.foldl min x ≤ y := by
  induction xs generalizing x with
  | nil => simp
  | cons a xs ih =>
    intro y hy
    rcases List.mem_cons.mp hy with rfl | hy
    · exact le_trans (foldl_min_le_init xs (min x y)) (min_le_right _ _)
    · exact ih (min x a) y hy

theorem vmin_le_get (v : Vec) (n : Nat) (h : n < v.length) : vmin v ≤ v[n] := by
  cases v with
  | nil => simp at h
  | cons x xs =>
    unfold vmin
    cases n with
    | zero => simpa using foldl_min_le_init xs x
    | succ n =>
      simp only [List.getElem_cons_succ]
      exact foldl_min_le_mem xs x _ (List.getElem_mem _)

theorem foldl_max_lt (B : Rat) (xs : List Rat) (x : Rat) (hx : x < B) (hxs : ∀ y ∈ xs, y < B) :
    xs.foldl max x < B := by
  induction xs generalizing x with
  | nil => simpa using hx
  | cons a xs ih =>
    exact ih (max x a) (max_lt hx (hxs a (List.mem_cons_self ..)))
      (fun y hy => hxs y (List.mem_cons_of_mem _ hy))

/-- every entry `< B` and `0 < B` (covers the empty vector, whose `np.max` the model reads as 0) -/
theorem vmax_lt (v : Vec) (B : Rat) (hB : 0 < B) (h : ∀ n, ∀ hn : n < v.length, v[n] < B) :
    vmax v < B := by
  cases v with
  | nil => simpa [vmax] using hB
  | cons x xs =>
    unfold vmax
    have h0 : x < B := h 0 (by simp)
    apply foldl_max_lt B xs x h0
    intro y hy
    obtain ⟨n, hn, rfl⟩ := List.getElem_of_mem hy
    exact h (n + 1) (by simpa using hn)

theorem allGt_iff (x : Rat) (b : Vec) : allGt x b = true ↔ ∀ n, ∀ h : n < b.length, b[n] < x := by
  unfold allGt
  simp only [List.all_eq_true, decide_eq_true_eq]
  constructor
  · intro h n hn; exact h _ (List.getElem_mem hn)
  · intro h y hy
    obtain ⟨n, hn, rfl⟩ := List.getElem_of_mem hy
    exact h n hn

theorem allLt_iff (x : Rat) (b : Vec) : allLt x b = true ↔ ∀ n, ∀ h : n < b.length, x < b[n] := by
  unfold allLt
  simp only [List.all_eq_true, decide_eq_true_eq]
  constructor
  · intro h n hn; exact h _ (List.getElem_mem hn)
  · intro h y hy
    obtain ⟨n, hn, rfl⟩ := List.getElem_of_mem hy
    exact h n hn

theorem allLe_iff (x : Rat) (b : Vec) : allLe x b = true ↔ ∀ n, ∀ h : n < b.length, x ≤ b[n] := by
  unfold allLe
  simp only [List.all_eq_true, decide_eq_true_eq]
  constructor
  · intro h n hn; exact h _ (List.getElem_mem hn)
  · intro h y hy
    obtain ⟨n, hn, rfl⟩ := List.getElem_of_mem hy
    exact h n hn

/-! ### the premise, by index -/

theorem errWithin_iff (c beta mu : Vec) :
    errWithin c beta mu = true ↔
      ∀ n, ∀ h1 : n < c.length, ∀ h2 : n < mu.length, ∀ k, ∀ h3 : k < beta.length,
        -beta[k] ≤ c[n] - mu[n] ∧ c[n] - mu[n] ≤ beta[k] := by
  unfold errWithin
  constructor
  · intro h n h1 h2 k h3
    rw [List.all_eq_true] at h
    have hm : c[n] - mu[n] ∈ List.zipWith (fun x y => x - y) c mu := by
      rw [List.mem_iff_getElem]
      exact ⟨n, by simp [List.length_zipWith]; omega, by simp⟩
    have := h _ hm
    rw [List.all_eq_true] at this
    have := this _ (List.getElem_mem h3)
    simpa using this
  · intro h
    rw [List.all_eq_true]
    intro e he
    rw [List.mem_iff_getElem] at he
    obtain ⟨n, hn, rfl⟩ := he
    simp only [List.length_zipWith, Nat.lt_min] at hn
    rw [List.all_eq_true]
    intro b hb
    obtain ⟨k, hk, rfl⟩ := List.getElem_of_mem hb
    have := h n hn.1 hn.2 k hk
    simpa using this

theorem widthsPos_iff (beta : Vec) : widthsPos beta = true ↔ ∀ n, ∀ h : n < beta.length, 0 < beta[n] := by
  unfold widthsPos
  simp only [List.all_eq_true, decide_eq_true_eq]
  constructor
  · intro h n hn; exact h _ (List.getElem_mem hn)
  · intro h y hy
    obtain ⟨n, hn, rfl⟩ := List.getElem_of_mem hy
    exact h n hn

theorem sltB_iff (a b : Vec) :
    sltB a b = true ↔ ∀ n, ∀ h1 : n < a.length, ∀ h2 : n < b.length, a[n] < b[n] := by
  unfold sltB
  rw [all_zipWith_iff]
  simp only [decide_eq_true_eq]

/-! ### soundness of the three rules -/

section rules
variable {m : Nat} {ci cj bi bj mi mj : Vec}

/-- elimination certificate ⇒ strictly smaller in every coordinate -/
theorem cert_sound_coord (hci : ci.length = m) (hcj : cj.length = m) (hbi : bi.length = m)
    (hbj : bj.length = m) (hmi : mi.length = m) (hmj : mj.length = m)
    (hei : errWithin ci bi mi = true) (hej : errWithin cj bj mj = true)
    (hpi : widthsPos bi = true) (hpj : widthsPos bj = true)
    (h : allGt (smallM ci cj) (vadd bi bj) = true) : sltB mi mj = true := by
  rw [sltB_iff]
  intro n h1 h2
  have hn : n < m := hmi ▸ h1
  rw [allGt_iff] at h
  have hlen : (vadd bi bj).length = m := by rw [length_vadd _ _ (hbi.trans hbj.symm), hbi]
  have hs := h n (by omega)
  have hbn : (vadd bi bj)[n]'(by omega) = bi[n]'(by omega) + bj[n]'(by omega) := by
    simp [vadd]
  rw [hbn] at hs
  have hpi' := (widthsPos_iff bi).mp hpi n (by omega)
  have hpj' := (widthsPos_iff bj).mp hpj n (by omega)
  unfold smallM at hs
  have hv : bi[n]'(by omega) + bj[n]'(by omega) < vmin (vsub cj ci) := by
    rcases le_total (vmin (vsub cj ci)) 0 with hle | hle
    · rw [max_eq_left hle] at hs; linarith
    · rwa [max_eq_right hle] at hs
  have hlen2 : (vsub cj ci).length = m := by rw [length_vsub _ _ (hcj.trans hci.symm), hcj]
  have hvn := vmin_le_get (vsub cj ci) n (by omega)
  have hvn' : (vsub cj ci)[n]'(by omega) = cj[n]'(by omega) - ci[n]'(by omega) := by simp [vsub]
  rw [hvn'] at hvn
  have e1 := (errWithin_iff ci bi mi).mp hei n (by omega) (by omega) n (by omega)
  have e2 := (errWithin_iff cj bj mj).mp hej n (by omega) (by omega) n (by omega)
  linarith [e1.1, e1.2, e2.1, e2.2]

/-- the common core of stage 1 and stage 2: if `a` is exceeded by `b` by more than `ε` in every
coordinate (true means), then `M(c_a, c_b) < β_a[k] + β_b[k]` for every `k` -/
theorem bigM_lt_of_exceeds {eps : Rat} (hci : ci.length = m) (hcj : cj.length = m) (hbi : bi.length = m)
    (hbj : bj.length = m) (hmi : mi.length = m) (hmj : mj.length = m)
    (hei : errWithin ci bi mi = true) (hej : errWithin cj bj mj = true)
    (hpi : widthsPos bi = true) (hpj : widthsPos bj = true)
    (hex : ∀ n, ∀ h1 : n < mi.length, ∀ h2 : n < mj.length, eps < mj[n] - mi[n])
    (k : Nat) (hk : k < m) :
    bigM eps ci cj < bi[k]'(by omega) + bj[k]'(by omega) := by
  have hpi' := (widthsPos_iff bi).mp hpi k (by omega)
  have hpj' := (widthsPos_iff bj).mp hpj k (by omega)
  unfold bigM
  apply max_lt (by linarith)
  apply vmax_lt _ _ (by linarith)
  intro n hn
  have hlen : (vsub (ci.map (· + eps)) cj).length = m := by
    rw [length_vsub _ _ (by simp [hci, hcj])]; simp [hci]
  have hn' : n < m := hlen ▸ hn
  have hval : (vsub (ci.map (· + eps)) cj)[n] = ci[n]'(by omega) + eps - cj[n]'(by omega) := by
    simp [vsub]
  rw [hval]
  have e1 := (errWithin_iff ci bi mi).mp hei n (by omega) (by omega) k (by omega)
  have e2 := (errWithin_iff cj bj mj).mp hej n (by omega) (by omega) k (by omega)
  have := hex n (by omega) (by omega)
  linarith [e1.1, e1.2, e2.1, e2.2]

/-- stage 1 not breaking ⇒ some coordinate of `μ_j − μ_i` is `≤ ε` -/
theorem p1_sound_coord {eps : Rat} (hci : ci.length = m) (hcj : cj.length = m) (hbi : bi.length = m)
    (hbj : bj.length = m) (hmi : mi.length = m) (hmj : mj.length = m)
    (hei : errWithin ci bi mi = true) (hej : errWithin cj bj mj = true)
    (hpi : widthsPos bi = true) (hpj : widthsPos bj = true)
    (h : allLt (bigM eps ci cj) (vadd bi bj) = false) :
    ∃ n, ∃ h1 : n < mi.length, ∃ h2 : n < mj.length, mj[n] - mi[n] ≤ eps := by
  apply Classical.byContradiction
  intro hno
  have hex : ∀ n, ∀ h1 : n < mi.length, ∀ h2 : n < mj.length, eps < mj[n] - mi[n] := by
    intro n h1 h2
    apply lt_of_not_ge
    intro hle
    exact hno ⟨n, h1, h2, hle⟩
  have : allLt (bigM eps ci cj) (vadd bi bj) = true := by
    rw [allLt_iff]
    intro k hk
    have hlen : (vadd bi bj).length = m := by rw [length_vadd _ _ (hbi.trans hbj.symm), hbi]
    have hk' : k < m := hlen ▸ hk
    have hbn : (vadd bi bj)[k] = bi[k]'(by omega) + bj[k]'(by omega) := by simp [vadd]
    rw [hbn]
    exact bigM_lt_of_exceeds hci hcj hbi hbj hmi hmj hei hej hpi hpj hex k hk'
  rw [this] at h
  exact absurd h (by simp)

/-- stage 2 not breaking (`M(c_j, c_i) > β`) ⇒ some coordinate of `μ_i − μ_j` is `≤ ε` -/
theorem p2_sound_coord {eps : Rat} (hci : ci.length = m) (hcj : cj.length = m) (hbi : bi.length = m)
    (hbj : bj.length = m) (hmi : mi.length = m) (hmj : mj.length = m)
    (hei : errWithin ci bi mi = true) (hej : errWithin cj bj mj = true)
    (hpi : widthsPos bi = true) (hpj : widthsPos bj = true)
    (h : allLe (bigM eps cj ci) (vadd bi bj) = false) :
    ∃ n, ∃ h1 : n < mj.length, ∃ h2 : n < mi.length, mi[n] - mj[n] ≤ eps := by
  apply Classical.byContradiction
  intro hno
  have hex : ∀ n, ∀ h1 : n < mj.length, ∀ h2 : n < mi.length, eps < mi[n] - mj[n] := by
    intro n h1 h2
    apply lt_of_not_ge
    intro hle
    exact hno ⟨n, h1, h2, hle⟩
  have : allLe (bigM eps cj ci) (vadd bi bj) = true := by
    rw [allLe_iff]
    intro k hk
    have hlen : (vadd bi bj).length = m := by rw [length_vadd _ _ (hbi.trans hbj.symm), hbi]
    have hk' : k < m := hlen ▸ hk
    have hbn : (vadd bi bj)[k] = bi[k]'(by omega) + bj[k]'(by omega) := by simp [vadd]
    rw [hbn]
    have := bigM_lt_of_exceeds hcj hci hbj hbi hmj hmi hej hei hpj hpi hex k hk'
    linarith
  rw [this] at h
  exact absurd h (by simp)

end rules

/-! ### the identity matrix -/

theorem dot_unitRow (d : Nat) : ∀ (n k : Nat) (x : Vec), x.length = n →
    dot ((List.range' k n).map (fun j => if d = j then (1 : Rat) else 0)) x =
      if k ≤ d ∧ d < k + n then x.getD (d - k) 0 else 0 := by
  intro n
  induction n with
  | zero =>
    intro k x hx
    simp [List.range', dot]
  | succ n ih =>
    intro k x hx
    cases x with
    | nil => simp at hx
    | cons x0 xs =>
      simp only [List.length_cons, Nat.add_right_cancel_iff] at hx
      simp only [List.range'_succ, List.map_cons, dot]
      rw [ih (k + 1) xs hx]
      by_cases hdk : d = k
      · subst hdk
        have h2 : d ≤ d ∧ d < d + (n + 1) := by omega
        simp [h2]
      · by_cases hlt : k + 1 ≤ d ∧ d < k + 1 + n
        · have h2 : k ≤ d ∧ d < k + (n + 1) := by omega
          have h3 : d - k = (d - (k + 1)) + 1 := by omega
          simp only [hdk, if_false, hlt, h2, and_self, if_true, zero_mul, zero_add, h3,
            List.getD_cons_succ]
        · have h2 : ¬ (k ≤ d ∧ d < k + (n + 1)) := by omega
          simp [hdk, hlt, h2]

theorem identMat_length (m : Nat) : (identMat m).length = m := by simp [identMat]

theorem dot_identMat_row (m d : Nat) (hd : d < m) (x : Vec) (hx : x.length = m) :
    dot ((identMat m)[d]'(by rw [identMat_length]; exact hd)) x = x[d]'(by omega) := by
  have hrow : (identMat m)[d]'(by rw [identMat_length]; exact hd) =
      (List.range' 0 m).map (fun j => if d = j then (1 : Rat) else 0) := by
    simp [identMat, List.range_eq_range']
  rw [hrow, dot_unitRow d m 0 x hx]
  have : 0 ≤ d ∧ d < 0 + m := by omega
  simp only [this, and_self, if_true, Nat.sub_zero]
  rw [List.getD_eq_getElem?_getD, List.getElem?_eq_getElem (by omega)]
  rfl

/-- `b` dominates `a` in the componentwise order iff `a ≤ b` in every coordinate -/
theorem dominates_identMat_iff (m : Nat) (a b : Vec) (ha : a.length = m) (hb : b.length = m) :
    dominates (identMat m) b a = true ↔ ∀ n, ∀ h1 : n < a.length, ∀ h2 : n < b.length, a[n] ≤ b[n] := by
  rw [dominates_iff_get]
  have hlen : (vsub b a).length = m := by rw [length_vsub _ _ (hb.trans ha.symm), hb]
  constructor
  · intro h n h1 h2
    have hn : n < m := ha ▸ h1
    have := h n (by rw [identMat_length]; exact hn)
    rw [dot_identMat_row m n hn _ hlen] at this
    have hv : (vsub b a)[n]'(by omega) = b[n] - a[n] := by simp [vsub]
    rw [hv] at this
    linarith
  · intro h n hn
    have hn' : n < m := by rw [identMat_length] at hn; exact hn
    rw [dot_identMat_row m n hn' _ hlen]
    have hv : (vsub b a)[n]'(by omega) = b[n]'(by omega) - a[n]'(by omega) := by simp [vsub]
    rw [hv]
    have := h n (by omega) (by omega)
    linarith

theorem sltB_dominates (m : Nat) (a b : Vec) (ha : a.length = m) (hb : b.length = m)
    (h : sltB a b = true) : dominates (identMat m) b a = true := by
  rw [dominates_identMat_iff m a b ha hb]
  intro n h1 h2
  exact le_of_lt ((sltB_iff a b).mp h n h1 h2)

theorem ones_length (m : Nat) : (ones m).length = m := by simp [ones]

/-- a coordinate with `b[n] − a[n] ≤ ε` witnesses `m(a,b) ≤ ε` for the componentwise order -/
theorem gapLe_identMat_of_coord (m : Nat) (eps : Rat) (heps : 0 ≤ eps) (a b : Vec)
    (ha : a.length = m) (hb : b.length = m)
    (h : ∃ n, ∃ h1 : n < a.length, ∃ h2 : n < b.length, b[n] - a[n] ≤ eps) :
    gapLe (identMat m) (ones m) eps a b = true := by
  rw [gapLe_iff]
  obtain ⟨n, h1, h2, hle⟩ := h
  have hn : n < m := ha ▸ h1
  refine ⟨n, by rw [identMat_length]; exact hn, by rw [ones_length]; exact hn, ?_⟩
  unfold facetGap
  have hlen : (vsub b a).length = m := by rw [length_vsub _ _ (hb.trans ha.symm), hb]
  rw [dot_identMat_row m n hn _ hlen]
  have hv : (vsub b a)[n]'(by omega) = b[n] - a[n] := by simp [vsub]
  have h1' : (ones m)[n]'(by rw [ones_length]; exact hn) = 1 := by simp [ones]
  rw [hv, h1', div_one]
  exact max_le heps hle

end VOPy.Accuracy

namespace VOPy.Accuracy
open VOPy

/-! ### the premise checks -/

theorem vle_iff (a b : Vec) :
    vle a b = true ↔ ∀ n, ∀ h1 : n < a.length, ∀ h2 : n < b.length, a[n] ≤ b[n] := by
  unfold vle
  rw [all_zipWith_iff]
  simp only [decide_eq_true_eq]

/-- `inBox l u x` says `l ≤ x ≤ u` coordinate by coordinate, all of one length -/
theorem inBox_iff (l u x : Vec) :
    inBox l u x = true ↔
      l.length = x.length ∧ u.length = x.length ∧
        ∀ n, ∀ h : n < x.length, ∀ hl : n < l.length, ∀ hu : n < u.length, l[n] ≤ x[n] ∧ x[n] ≤ u[n] := by
  unfold inBox
  simp only [Bool.and_eq_true, decide_eq_true_eq, vle_iff]
  constructor
  · rintro ⟨⟨⟨h1, h2⟩, h3⟩, h4⟩
    exact ⟨h1, h2, fun n h hl hu => ⟨h3 n hl h, h4 n h hu⟩⟩
  · rintro ⟨h1, h2, h⟩
    exact ⟨⟨⟨h1, h2⟩, fun n hl hx => (h n hx hl (by omega)).1⟩, fun n hx hu => (h n hx (by omega) hu).2⟩

/-- For a width row with equal entries `b` (Auer without empirical β) the premise `errWithin` of
`auer_final_accurate` is exactly "μ inside the displayed box `[c − b, c + b]`". -/
theorem errWithin_uniform_iff_inBox (m : Nat) (hm : 0 < m) (c mu : Vec) (b : Rat)
    (hc : c.length = m) (hmu : mu.length = m) :
    errWithin c (List.replicate m b) mu = true ↔
      inBox (c.map (· - b)) (c.map (· + b)) mu = true := by
  rw [errWithin_iff, inBox_iff]
  simp only [List.length_map, List.length_replicate, List.getElem_map, List.getElem_replicate]
  constructor
  · intro h
    refine ⟨by omega, by omega, fun n hn _ _ => ?_⟩
    have := h n (by omega) hn 0 hm
    constructor <;> linarith [this.1, this.2]
  · rintro ⟨_, _, h⟩ n h1 h2 k _
    have := h n h2 h1 h1
    constructor <;> linarith [this.1, this.2]

/-- **The ellipsoid containment check is sound.**  When `inEll c Σ a x` answers `true` there is a
`y` with `Σ y = x − c` (so `y = Σ⁻¹(x − c)` whenever `Σ` is invertible), `(x − c)·y ≤ a²` and `a ≥ 0`:
the quadratic form `(x − c)ᵀ Σ⁻¹ (x − c)` is at most `a²`.  The Gaussian elimination is untrusted;
its result is checked before it is used. -/
theorem inEll_sound (c : Vec) (Sg : Mat) (a : Rat) (x : Vec) (h : inEll c Sg a x = some true) :
    ∃ y : Vec, matVec Sg y = vsub x c ∧ dot (vsub x c) y ≤ a * a ∧ 0 ≤ a := by
  unfold inEll at h
  simp only at h
  split at h
  · exact absurd h (by simp)
  · split at h
    · exact absurd h (by simp)
    · rename_i y _
      split at h
      · rename_i hy
        simp only [Option.some.injEq, Bool.and_eq_true, decide_eq_true_eq] at h
        exact ⟨y, hy.2, h.2, h.1⟩
      · exact absurd h (by simp)

end VOPy.Accuracy

namespace VOPy.Accuracy
open VOPy

/-! ### boxes of positive size are non-degenerate -/

theorem dot_set (w : Vec) : ∀ (l : Vec) (d : Nat) (x : Rat) (hd : d < l.length) (hw : d < w.length),
    dot w (l.set d x) = dot w l + w[d] * (x - l[d]) := by
  induction w with
  | nil => intro l d x _ hw; simp at hw
  | cons y ws ih =>
    intro l d x hd hw
    cases l with
    | nil => simp at hd
    | cons a t =>
      cases d with
      | zero => simp only [List.set_cons_zero, dot, List.getElem_cons_zero]; ring
      | succ d =>
        simp only [List.set_cons_succ, dot, List.getElem_cons_succ]
        rw [ih t d x (by simpa using hd) (by simpa using hw)]
        ring

/-- A box `[l, u]` (`l ≤ u`) with positive width in a coordinate `d` on which some facet `w` of the
cone has a non-zero entry contains two points on which that facet functional differs: the
non-degeneracy hypothesis of `paveba_oracles_sound_of_valid_regions` holds for such boxes. -/
theorem box_nondegenerate (W : Mat) (l u : Vec) (hlen : l.length = u.length) (hle : vle l u = true)
    (w : Vec) (hwW : w ∈ W) (d : Nat) (hd : d < l.length) (hwd : d < w.length)
    (hw : w[d] ≠ 0) (hlt : l[d] < u[d]'(by omega)) :
    ∃ z, inBox l u z = true ∧ ∃ z', inBox l u z' = true ∧ ∃ w ∈ W, dot w z ≠ dot w z' := by
  have hle' := (vle_iff l u).mp hle
  refine ⟨l, ?_, l.set d (u[d]'(by omega)), ?_, w, hwW, ?_⟩
  · rw [inBox_iff]
    exact ⟨rfl, hlen.symm, fun n h hl hu => ⟨le_refl _, hle' n hl hu⟩⟩
  · rw [inBox_iff]
    refine ⟨by simp, by simp [hlen], fun n h hl hu => ?_⟩
    rw [List.getElem_set]
    by_cases hdn : d = n
    · subst hdn
      simp only [if_true]
      exact ⟨le_of_lt hlt, le_refl _⟩
    · simp only [hdn, if_false]
      exact ⟨le_refl _, hle' n hl hu⟩
  · rw [dot_set w l d _ hd hwd]
    intro h
    have : w[d] * (u[d]'(by omega) - l[d]) = 0 := by linarith
    rcases mul_eq_zero.mp this with h0 | h0
    · exact hw h0
    · linarith

end VOPy.Accuracy
