import VOPyVerif.Model.Pareto
/-! Helper lemmas for C13: the loop invariant of the split-form Pareto loop, the Prop-level
specification `IsParetoIdx` and its equivalence with the decidable relation `specOk`, and the
characterisation of the naive routine.

All preorder hypotheses are taken *on the elements of the input list only* (`…_on` lemmas), so that
the theorems can be instantiated at `VOPy.dominates W`, which is transitive only among vectors of
equal length. -/
namespace VOPy.Pareto

variable {α : Type}

structure PInv (dom : α → α → Bool) (L pre post : List (Nat × α)) : Prop where
  sub : (pre ++ post).Sublist L
  anti : ∀ e ∈ pre, ∀ f ∈ pre ++ post, e ≠ f → dom e.2 f.2 = false
  cover : ∀ x ∈ L, ∃ f ∈ pre ++ post, dom f.2 x.2 = true

/-- transitivity among the (second components of the) members of `L` -/
def TransOn (dom : α → α → Bool) (L : List (Nat × α)) : Prop :=
  ∀ a ∈ L, ∀ b ∈ L, ∀ c ∈ L, dom a.2 b.2 = true → dom b.2 c.2 = true → dom a.2 c.2 = true

theorem inv_step_on (dom : α → α → Bool) (L pre post : List (Nat × α)) (v : Nat × α)
    (htrans : TransOn dom L) (h : PInv dom L pre (v :: post)) :
    PInv dom L (rm dom v pre ++ [v]) (rm dom v post) := by
  have hvL : v ∈ L := h.sub.subset (by simp)
  unfold rm
  refine ⟨?_, ?_, ?_⟩
  · have h1 : ((pre.filter (fun e => !dom v.2 e.2) ++ [v]) ++
        post.filter (fun e => !dom v.2 e.2)).Sublist (pre ++ v :: post) := by
      rw [List.append_assoc]
      apply List.Sublist.append List.filter_sublist
      simp only [List.singleton_append]
      exact List.Sublist.cons_cons _ List.filter_sublist
    exact h1.trans h.sub
  · intro e he f hf hne
    rw [List.mem_append] at he
    rcases he with he | he
    · have hep : e ∈ pre := (List.mem_filter.mp he).1
      apply h.anti e hep f _ hne
      simp only [List.mem_append, List.mem_filter, List.mem_cons, List.not_mem_nil, or_false] at hf ⊢
      rcases hf with (⟨hf, _⟩ | hf) | ⟨hf, _⟩
      · exact Or.inl hf
      · exact Or.inr (Or.inl hf)
      · exact Or.inr (Or.inr hf)
    · have hev : e = v := by simpa using he
      subst hev
      simp only [List.mem_append, List.mem_filter, List.mem_singleton] at hf
      rcases hf with (⟨_, hf⟩ | hf) | ⟨_, hf⟩
      · simpa using hf
      · exact absurd hf.symm hne
      · simpa using hf
  · intro x hx
    obtain ⟨f, hf, hfx⟩ := h.cover x hx
    have hfL : f ∈ L := h.sub.subset hf
    by_cases hvf : dom v.2 f.2 = true
    · exact ⟨v, by simp, htrans v hvL f hfL x hx hvf hfx⟩
    · refine ⟨f, ?_, hfx⟩
      simp only [List.mem_append, List.mem_cons] at hf
      simp only [List.mem_append, List.mem_filter, List.mem_singleton]
      rcases hf with hf | hf | hf
      · exact Or.inl (Or.inl ⟨hf, by simpa using hvf⟩)
      · exact Or.inl (Or.inr hf)
      · exact Or.inr ⟨hf, by simpa using hvf⟩

theorem loop_inv_on (dom : α → α → Bool) (L : List (Nat × α)) (htrans : TransOn dom L) :
    ∀ (pre post : List (Nat × α)), PInv dom L pre post → PInv dom L (loop dom pre post) [] := by
  intro pre post
  induction pre, post using loop.induct dom with
  | case1 pre => intro h; simpa [loop] using h
  | case2 pre v post ih =>
    intro h
    rw [loop]
    exact ih (inv_step_on dom L pre post v htrans h)

/-- The loop result is always a sublist of what it was given (no hypothesis on `dom`). -/
theorem loop_sublist (dom : α → α → Bool) :
    ∀ (pre post : List (Nat × α)), (loop dom pre post).Sublist (pre ++ post) := by
  intro pre post
  induction pre, post using loop.induct dom with
  | case1 pre => simp [loop]
  | case2 pre v post ih =>
    rw [loop]
    refine ih.trans ?_
    unfold rm
    rw [List.append_assoc]
    apply List.Sublist.append List.filter_sublist
    simp only [List.singleton_append]
    exact List.Sublist.cons_cons _ List.filter_sublist

/-- Specification of the loop result, for a relation that is reflexive and transitive on the
members of `L`. -/
theorem loop_spec_on (dom : α → α → Bool) (L : List (Nat × α))
    (hrefl : ∀ a ∈ L, dom a.2 a.2 = true) (htrans : TransOn dom L) :
    let R := loop dom [] L
    R.Sublist L ∧
    (∀ e ∈ R, ∀ f ∈ R, e ≠ f → dom e.2 f.2 = false) ∧
    (∀ x ∈ L, ∃ f ∈ R, dom f.2 x.2 = true) ∧
    (∀ e ∈ R, ∀ x ∈ L, dom x.2 e.2 = true → dom e.2 x.2 = true) := by
  have h0 : PInv dom L [] L :=
    ⟨by simp, by simp, fun x hx => ⟨x, by simpa using hx, hrefl x hx⟩⟩
  have h := loop_inv_on dom L htrans [] L h0
  have hsub : (loop dom [] L).Sublist L := by simpa using h.sub
  refine ⟨hsub, ?_, ?_, ?_⟩
  · intro e he f hf hne; exact h.anti e he f (by simpa using hf) hne
  · intro x hx; obtain ⟨f, hf, hfx⟩ := h.cover x hx; exact ⟨f, by simpa using hf, hfx⟩
  · intro e he x hx hxe
    obtain ⟨f, hf, hfx⟩ := h.cover x hx
    have hf' : f ∈ loop dom [] L := by simpa using hf
    have hfe : dom f.2 e.2 = true :=
      htrans f (hsub.subset hf') x hx e (hsub.subset he) hfx hxe
    by_cases hef : f = e
    · subst hef; exact hfx
    · have := h.anti f hf' e (by simpa using he) hef
      rw [this] at hfe; exact absurd hfe (by simp)

/-- Specification of the loop result, for a reflexive transitive relation. -/
theorem loop_spec (dom : α → α → Bool)
    (hrefl : ∀ a, dom a a = true)
    (htrans : ∀ a b c, dom a b = true → dom b c = true → dom a c = true)
    (L : List (Nat × α)) :
    let R := loop dom [] L
    R.Sublist L ∧
    (∀ e ∈ R, ∀ f ∈ R, e ≠ f → dom e.2 f.2 = false) ∧
    (∀ x ∈ L, ∃ f ∈ R, dom f.2 x.2 = true) ∧
    (∀ e ∈ R, ∀ x ∈ L, dom x.2 e.2 = true → dom e.2 x.2 = true) :=
  loop_spec_on dom L (fun a _ => hrefl a.2) (fun a _ b _ c _ => htrans a.2 b.2 c.2)

/-! ### the indexed list -/

theorem mem_indexed {xs : List α} {p : Nat × α} : p ∈ indexed xs ↔ xs[p.1]? = some p.2 := by
  simp only [indexed, List.mem_map, Prod.exists, List.mem_zipIdx_iff_getElem?]
  constructor
  · rintro ⟨a, i, h, rfl⟩; exact h
  · intro h; exact ⟨p.2, p.1, h, rfl⟩

theorem indexed_map_fst (xs : List α) : (indexed xs).map (·.1) = List.range xs.length := by
  have h : (indexed xs).map (·.1) = (xs.zipIdx).map Prod.snd := by
    simp only [indexed, List.map_map]
    rfl
  rw [h, List.zipIdx_map_snd, List.range'_eq_map_range]
  simp

theorem snd_mem_of_mem_indexed {xs : List α} {p : Nat × α} (h : p ∈ indexed xs) : p.2 ∈ xs :=
  List.mem_of_getElem? (mem_indexed.mp h)

theorem exists_indexed_of_mem {xs : List α} {x : α} (hx : x ∈ xs) : ∃ p ∈ indexed xs, p.2 = x := by
  obtain ⟨i, hi, rfl⟩ := List.getElem_of_mem hx
  exact ⟨(i, xs[i]), mem_indexed.mpr (by simp [hi]), rfl⟩

/-- a pair of the indexed list is determined by its index -/
theorem indexed_inj {xs : List α} {p q : Nat × α} (hp : p ∈ indexed xs) (hq : q ∈ indexed xs)
    (h : p.1 = q.1) : p = q := by
  have h1 := mem_indexed.mp hp
  have h2 := mem_indexed.mp hq
  rw [h] at h1
  rw [h1] at h2
  exact Prod.ext h (Option.some.inj h2)

/-! ### preorders on a list -/

/-- `dom` is reflexive and transitive among the members of `xs` -/
structure PreorderOn (dom : α → α → Bool) (xs : List α) : Prop where
  refl : ∀ a ∈ xs, dom a a = true
  trans : ∀ a ∈ xs, ∀ b ∈ xs, ∀ c ∈ xs, dom a b = true → dom b c = true → dom a c = true

theorem PreorderOn.of_global {dom : α → α → Bool} (hrefl : ∀ a, dom a a = true)
    (htrans : ∀ a b c, dom a b = true → dom b c = true → dom a c = true) (xs : List α) :
    PreorderOn dom xs :=
  ⟨fun a _ => hrefl a, fun a _ b _ c _ => htrans a b c⟩

/-- antisymmetry among the members of `xs` (pointed cone) -/
def AntisymmOn (dom : α → α → Bool) (xs : List α) : Prop :=
  ∀ a ∈ xs, ∀ b ∈ xs, dom a b = true → dom b a = true → a = b

/-- the four facts about the kept (index, element) pairs of the fast routine -/
theorem fast_pairs_on (dom : α → α → Bool) (xs : List α) (h : PreorderOn dom xs) :
    let R := loop dom [] (indexed xs)
    R.Sublist (indexed xs) ∧
    (∀ e ∈ R, ∀ f ∈ R, e ≠ f → dom e.2 f.2 = false) ∧
    (∀ x ∈ xs, ∃ f ∈ R, dom f.2 x = true) ∧
    (∀ e ∈ R, ∀ x ∈ xs, dom x e.2 = true → dom e.2 x = true) := by
  have hs := loop_spec_on dom (indexed xs)
    (fun a ha => h.refl a.2 (snd_mem_of_mem_indexed ha))
    (fun a ha b hb c hc => h.trans a.2 (snd_mem_of_mem_indexed ha) b.2 (snd_mem_of_mem_indexed hb)
      c.2 (snd_mem_of_mem_indexed hc))
  refine ⟨hs.1, hs.2.1, ?_, ?_⟩
  · intro x hx
    obtain ⟨p, hp, rfl⟩ := exists_indexed_of_mem hx
    exact hs.2.2.1 p hp
  · intro e he x hx hxe
    obtain ⟨p, hp, rfl⟩ := exists_indexed_of_mem hx
    exact hs.2.2.2 e he p hp hxe

/-! ### Prop-level specification of an index list and the decidable relation `specOk` -/

/-- The Pareto specification of a list of indices into `xs`: valid, strictly increasing (hence
distinct); kept elements pairwise unrelated; every input dominated by a kept element; no kept
element strictly dominated by an input. -/
structure IsParetoIdx (dom : α → α → Bool) (xs : List α) (idx : List Nat) : Prop where
  valid : ∀ i ∈ idx, i < xs.length
  incr : idx.Pairwise (· < ·)
  anti : ∀ i ∈ idx, ∀ j ∈ idx, i ≠ j → ∀ a b, xs[i]? = some a → xs[j]? = some b → dom a b = false
  cover : ∀ x ∈ xs, ∃ i ∈ idx, ∃ a, xs[i]? = some a ∧ dom a x = true
  maximal : ∀ i ∈ idx, ∀ a, xs[i]? = some a → ∀ x ∈ xs, dom x a = true → dom a x = true

theorem zipTail_all_iff (l : List Nat) :
    (l.zip l.tail).all (fun (a, b) => decide (a < b)) = true ↔ l.Pairwise (· < ·) := by
  induction l with
  | nil => simp
  | cons a t ih =>
    cases t with
    | nil => simp
    | cons b t =>
      simp only [List.tail_cons, List.zip_cons_cons, List.all_cons, Bool.and_eq_true,
        decide_eq_true_eq] at ih ⊢
      rw [List.pairwise_cons (a := a), ih]
      constructor
      · rintro ⟨hab, hp⟩
        refine ⟨?_, hp⟩
        intro x hx
        rcases List.mem_cons.mp hx with rfl | hx
        · exact hab
        · exact Nat.lt_trans hab ((List.pairwise_cons.mp hp).1 x hx)
      · rintro ⟨hall, hp⟩
        exact ⟨hall b (by simp), hp⟩

theorem specOk_iff (dom : α → α → Bool) (xs : List α) (idx : List Nat) :
    specOk dom xs idx = true ↔ IsParetoIdx dom xs idx := by
  unfold specOk
  simp only [Bool.and_eq_true, zipTail_all_iff]
  constructor
  · rintro ⟨⟨⟨⟨h1, h2⟩, h3⟩, h4⟩, h5⟩
    simp only [List.all_eq_true, List.any_eq_true, decide_eq_true_eq, Bool.or_eq_true,
      beq_iff_eq] at h1 h3 h4 h5
    refine ⟨h1, h2, ?_, ?_, ?_⟩
    · intro i hi j hj hne a b ha hb
      have := h3 i hi j hj
      rw [ha, hb] at this
      rcases this with h | h
      · exact absurd h hne
      · simpa using h
    · intro x hx
      obtain ⟨i, hi, h⟩ := h4 x hx
      cases ha : xs[i]? with
      | none => rw [ha] at h; simp at h
      | some a => rw [ha] at h; exact ⟨i, hi, a, ha, h⟩
    · intro i hi a ha x hx hxa
      have := h5 i hi x hx
      rw [ha] at this
      simp only [Bool.or_eq_true, Bool.not_eq_true'] at this
      rcases this with h | h
      · rw [h] at hxa; exact absurd hxa (by simp)
      · exact h
  · intro h
    have hget : ∀ i ∈ idx, ∃ a, xs[i]? = some a := fun i hi =>
      ⟨xs[i]'(h.valid i hi), List.getElem?_eq_getElem (h.valid i hi)⟩
    simp only [List.all_eq_true, List.any_eq_true, decide_eq_true_eq, Bool.or_eq_true,
      beq_iff_eq]
    refine ⟨⟨⟨⟨h.valid, h.incr⟩, ?_⟩, ?_⟩, ?_⟩
    · intro i hi j hj
      obtain ⟨a, ha⟩ := hget i hi
      obtain ⟨b, hb⟩ := hget j hj
      rw [ha, hb]
      by_cases hij : i = j
      · exact Or.inl hij
      · right; simp [h.anti i hi j hj hij a b ha hb]
    · intro x hx
      obtain ⟨i, hi, a, ha, hd⟩ := h.cover x hx
      exact ⟨i, hi, by rw [ha]; exact hd⟩
    · intro i hi x hx
      obtain ⟨a, ha⟩ := hget i hi
      rw [ha]
      simp only [Bool.or_eq_true, Bool.not_eq_true']
      cases hxa : dom x a with
      | false => exact Or.inl rfl
      | true => exact Or.inr (h.maximal i hi a ha x hx hxa)

/-- `fast` returns a sublist of `0, 1, …, n-1` -/
theorem fast_sublist_range (dom : α → α → Bool) (xs : List α) :
    (fast dom xs).Sublist (List.range xs.length) := by
  unfold fast
  rw [← indexed_map_fst]
  exact (by simpa using loop_sublist dom [] (indexed xs) :
    (loop dom [] (indexed xs)).Sublist (indexed xs)).map _

theorem fast_isParetoIdx_on (dom : α → α → Bool) (xs : List α) (h : PreorderOn dom xs) :
    IsParetoIdx dom xs (fast dom xs) := by
  obtain ⟨hsub, hanti, hcov, hmax⟩ := fast_pairs_on dom xs h
  have hmem : ∀ i ∈ fast dom xs, ∃ e ∈ loop dom [] (indexed xs), e.1 = i := by
    intro i hi
    simpa [fast] using hi
  have hR : ∀ e ∈ loop dom [] (indexed xs), xs[e.1]? = some e.2 :=
    fun e he => mem_indexed.mp (hsub.subset he)
  refine ⟨?_, ?_, ?_, ?_, ?_⟩
  · intro i hi
    exact List.mem_range.mp ((fast_sublist_range dom xs).subset hi)
  · exact List.Pairwise.sublist (fast_sublist_range dom xs) List.pairwise_lt_range
  · intro i hi j hj hne a b ha hb
    obtain ⟨e, he, rfl⟩ := hmem i hi
    obtain ⟨f, hf, rfl⟩ := hmem j hj
    have h1 := hR e he
    have h2 := hR f hf
    rw [ha] at h1; rw [hb] at h2
    have := hanti e he f hf (fun hef => hne (by rw [hef]))
    rw [← Option.some.inj h1, ← Option.some.inj h2] at this
    exact this
  · intro x hx
    obtain ⟨f, hf, hfx⟩ := hcov x hx
    exact ⟨f.1, by simp only [fast, List.mem_map]; exact ⟨f, hf, rfl⟩, f.2, hR f hf, hfx⟩
  · intro i hi a ha x hx hxa
    obtain ⟨e, he, rfl⟩ := hmem i hi
    have h1 := hR e he
    rw [ha] at h1
    have h2 : a = e.2 := Option.some.inj h1
    rw [h2] at hxa ⊢
    exact hmax e he x hx hxa

/-! ### the naive routine -/

theorem mem_naive_iff (eqv dom : α → α → Bool) (xs : List α) (i : Nat) :
    i ∈ naive eqv dom xs ↔
      ∃ a, xs[i]? = some a ∧ ∀ o ∈ xs, eqv a o = false → dom o a = false := by
  unfold naive
  simp only [List.mem_map, List.mem_filter, Bool.not_eq_true', List.any_eq_false,
    Bool.and_eq_true, Bool.not_eq_true', not_and, Bool.not_eq_true]
  constructor
  · rintro ⟨e, ⟨he, hk⟩, rfl⟩
    exact ⟨e.2, mem_indexed.mp he, hk⟩
  · rintro ⟨a, ha, hk⟩
    exact ⟨(i, a), ⟨mem_indexed.mpr ha, hk⟩, rfl⟩

theorem naive_sublist_range (eqv dom : α → α → Bool) (xs : List α) :
    (naive eqv dom xs).Sublist (List.range xs.length) := by
  unfold naive
  rw [← indexed_map_fst]
  exact List.filter_sublist.map _

theorem naiveSpecOk_naive (eqv dom : α → α → Bool) (xs : List α) :
    naiveSpecOk eqv dom xs (naive eqv dom xs) = true := by
  unfold naiveSpecOk
  simp only [Bool.and_eq_true, zipTail_all_iff]
  refine ⟨⟨?_, ?_⟩, ?_⟩
  · simp only [List.all_eq_true, decide_eq_true_eq]
    intro i hi
    exact List.mem_range.mp ((naive_sublist_range eqv dom xs).subset hi)
  · exact List.Pairwise.sublist (naive_sublist_range eqv dom xs) List.pairwise_lt_range
  · simp only [List.all_eq_true, List.mem_range]
    intro i hi
    rw [List.getElem?_eq_getElem hi]
    simp only [beq_iff_eq]
    rw [Bool.eq_iff_iff, List.contains_iff_mem, mem_naive_iff]
    simp only [List.getElem?_eq_getElem hi, Option.some.injEq, exists_eq_left', Bool.not_eq_true',
      List.any_eq_false, Bool.and_eq_true, not_and, Bool.not_eq_true]

/-! ### naive routine with `eqv` = equality, for a partial order on the members of `xs` -/

/-- every pair kept by the fast loop is kept by the naive routine -/
theorem fast_pair_mem_naive_on (eqv dom : α → α → Bool) (xs : List α)
    (heqv : ∀ a b, eqv a b = true ↔ a = b) (h : PreorderOn dom xs) (hanti : AntisymmOn dom xs)
    (e : Nat × α) (he : e ∈ loop dom [] (indexed xs)) : e.1 ∈ naive eqv dom xs := by
  obtain ⟨hsub, _, _, hmax⟩ := fast_pairs_on dom xs h
  have hei := hsub.subset he
  rw [mem_naive_iff]
  refine ⟨e.2, mem_indexed.mp hei, ?_⟩
  intro o ho hne
  cases hd : dom o e.2 with
  | false => rfl
  | true =>
    have h2 := hmax e he o ho hd
    have := hanti o ho e.2 (snd_mem_of_mem_indexed hei) hd h2
    rw [this, (heqv e.2 e.2).mpr rfl] at hne
    exact absurd hne (by simp)

theorem naive_cover_on (eqv dom : α → α → Bool) (xs : List α)
    (heqv : ∀ a b, eqv a b = true ↔ a = b) (h : PreorderOn dom xs) (hanti : AntisymmOn dom xs) :
    ∀ x ∈ xs, ∃ i ∈ naive eqv dom xs, ∃ a, xs[i]? = some a ∧ dom a x = true := by
  obtain ⟨hsub, _, hcov, _⟩ := fast_pairs_on dom xs h
  intro x hx
  obtain ⟨f, hf, hfx⟩ := hcov x hx
  exact ⟨f.1, fast_pair_mem_naive_on eqv dom xs heqv h hanti f hf, f.2,
    mem_indexed.mp (hsub.subset hf), hfx⟩

theorem naive_values_eq_fast_on (eqv dom : α → α → Bool) (xs : List α)
    (heqv : ∀ a b, eqv a b = true ↔ a = b) (h : PreorderOn dom xs) (hanti : AntisymmOn dom xs)
    (v : α) :
    (∃ i ∈ naive eqv dom xs, xs[i]? = some v) ↔ (∃ i ∈ fast dom xs, xs[i]? = some v) := by
  obtain ⟨hsub, _, hcov, _⟩ := fast_pairs_on dom xs h
  constructor
  · rintro ⟨i, hi, hv⟩
    rw [mem_naive_iff] at hi
    obtain ⟨a, ha, hk⟩ := hi
    rw [hv] at ha
    have hav : v = a := Option.some.inj ha
    subst hav
    obtain ⟨f, hf, hfv⟩ := hcov v (List.mem_of_getElem? hv)
    have hfi := hsub.subset hf
    by_cases hfe : v = f.2
    · refine ⟨f.1, ?_, ?_⟩
      · simp only [fast, List.mem_map]; exact ⟨f, hf, rfl⟩
      · rw [hfe]; exact mem_indexed.mp hfi
    · have h1 : eqv v f.2 = false := by
        cases hq : eqv v f.2 with
        | false => rfl
        | true => exact absurd ((heqv _ _).mp hq) hfe
      have := hk f.2 (snd_mem_of_mem_indexed hfi) h1
      rw [this] at hfv
      exact absurd hfv (by simp)
  · rintro ⟨i, hi, hv⟩
    simp only [fast, List.mem_map] at hi
    obtain ⟨e, he, rfl⟩ := hi
    exact ⟨e.1, fast_pair_mem_naive_on eqv dom xs heqv h hanti e he, hv⟩

end VOPy.Pareto
