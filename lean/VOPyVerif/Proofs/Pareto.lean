import VOPyVerif.Model.Pareto
/-! Helper lemmas for C13: the loop invariant of the split-form Pareto loop. -/
namespace VOPy.Pareto

variable {α : Type}

structure PInv (dom : α → α → Bool) (L pre post : List (Nat × α)) : Prop where
  sub : (pre ++ post).Sublist L
  anti : ∀ e ∈ pre, ∀ f ∈ pre ++ post, e ≠ f → dom e.2 f.2 = false
  cover : ∀ x ∈ L, ∃ f ∈ pre ++ post, dom f.2 x.2 = true

theorem inv_step (dom : α → α → Bool)
    (htrans : ∀ a b c, dom a b = true → dom b c = true → dom a c = true)
    (L pre post : List (Nat × α)) (v : Nat × α) (h : PInv dom L pre (v :: post)) :
    PInv dom L (rm dom v pre ++ [v]) (rm dom v post) := by
  unfold rm
  refine ⟨?_, ?_, ?_⟩
  · have h1 : ((pre.filter (fun e => !dom v.2 e.2) ++ [v]) ++
        post.filter (fun e => !dom v.2 e.2)).Sublist (pre ++ v :: post) := by
      rw [List.append_assoc]
      apply List.Sublist.append List.filter_sublist
      simp only [List.singleton_append]
      exact List.Sublist.cons_cons _ List.filter_sublist
    exact h1.trans h.sub
  · intro e he f hf hne
    rw [List.mem_append] at he
    rcases he with he | he
    · have hep : e ∈ pre := (List.mem_filter.mp he).1
      apply h.anti e hep f _ hne
      simp only [List.mem_append, List.mem_filter, List.mem_cons, List.not_mem_nil, or_false] at hf ⊢
      rcases hf with (⟨hf, _⟩ | hf) | ⟨hf, _⟩
      · exact Or.inl hf
      · exact Or.inr (Or.inl hf)
      · exact Or.inr (Or.inr hf)
    · have hev : e = v := by simpa using he
      subst hev
      simp only [List.mem_append, List.mem_filter, List.mem_singleton] at hf
      rcases hf with (⟨_, hf⟩ | hf) | ⟨_, hf⟩
      · simpa using hf
      · exact absurd hf.symm hne
      · simpa using hf
  · intro x hx
    obtain ⟨f, hf, hfx⟩ := h.cover x hx
    by_cases hvf : dom v.2 f.2 = true
    · exact ⟨v, by simp, htrans _ _ _ hvf hfx⟩
    · refine ⟨f, ?_, hfx⟩
      simp only [List.mem_append, List.mem_cons] at hf
      simp only [List.mem_append, List.mem_filter, List.mem_singleton]
      rcases hf with hf | hf | hf
      · exact Or.inl (Or.inl ⟨hf, by simpa using hvf⟩)
      · exact Or.inl (Or.inr hf)
      · exact Or.inr ⟨hf, by simpa using hvf⟩

theorem loop_inv (dom : α → α → Bool)
    (htrans : ∀ a b c, dom a b = true → dom b c = true → dom a c = true)
    (L : List (Nat × α)) : ∀ (pre post : List (Nat × α)), PInv dom L pre post →
    PInv dom L (loop dom pre post) [] := by
  intro pre post
  induction pre, post using loop.induct dom with
  | case1 pre => intro h; simpa [loop] using h
  | case2 pre v post ih =>
    intro h
    rw [loop]
    exact ih (inv_step dom htrans L pre post v h)

/-- Specification of the loop result, for a reflexive transitive relation. -/
theorem loop_spec (dom : α → α → Bool)
    (hrefl : ∀ a, dom a a = true)
    (htrans : ∀ a b c, dom a b = true → dom b c = true → dom a c = true)
    (L : List (Nat × α)) :
    let R := loop dom [] L
    R.Sublist L ∧
    (∀ e ∈ R, ∀ f ∈ R, e ≠ f → dom e.2 f.2 = false) ∧
    (∀ x ∈ L, ∃ f ∈ R, dom f.2 x.2 = true) ∧
    (∀ e ∈ R, ∀ x ∈ L, dom x.2 e.2 = true → dom e.2 x.2 = true) := by
  have h0 : PInv dom L [] L := ⟨by simp, by simp, fun x hx => ⟨x, by simpa using hx, hrefl _⟩⟩
  have h := loop_inv dom htrans L [] L h0
  refine ⟨by simpa using h.sub, ?_, ?_, ?_⟩
  · intro e he f hf hne; exact h.anti e he f (by simpa using hf) hne
  · intro x hx; obtain ⟨f, hf, hfx⟩ := h.cover x hx; exact ⟨f, by simpa using hf, hfx⟩
  · intro e he x hx hxe
    obtain ⟨f, hf, hfx⟩ := h.cover x hx
    have hf' : f ∈ loop dom [] L := by simpa using hf
    have hfe : dom f.2 e.2 = true := htrans _ _ _ hfx hxe
    by_cases hef : f = e
    · subst hef; exact hfx
    · have := h.anti f hf' e (by simpa using he) hef
      rw [this] at hfe; exact absurd hfe (by simp)

end VOPy.Pareto
