import VOPyVerif.Proofs.RunSets
/-!
# One call of `run_one_step()` in the model: what `Run.step` guarantees on a well-formed state

`WF` is the invariant of the elimination algorithms (duplicate-free disjoint `S`, `P`; `U ⊆ P`;
VOGP_AD: every node mentioned exists).  `active_trans` / `adActive_facts` describe the set
transition of an active call, `active_account` the bookkeeping.
-/
namespace VOPy.Run
open VOPy VOPy.Steps

/-- invariant of the run state of an elimination algorithm -/
structure WF (c : Cfg) (s : State) : Prop where
  nodupS : s.S.Nodup
  nodupP : s.P.Nodup
  disj : ∀ i ∈ s.S, i ∉ s.P
  useful : ∀ i ∈ s.U, i ∈ s.P
  bound : c.alg = .vogpAD → ∀ i, i ∈ s.S ∨ i ∈ s.P → i < s.depths.length

theorem wf_init (c : Cfg) : WF c (init c) := by
  refine ⟨?_, by simp [init], ?_, by simp [init], ?_⟩
  · unfold init
    cases c.alg <;> simp [List.nodup_range]
  · simp [init]
  · intro h i hi
    simp only [init, h] at hi ⊢
    simp at hi ⊢
    omega

/-! ### bookkeeping -/

@[simp] theorem account_S (c : Cfg) (s : State) (r : List Req) : (account c s r).S = s.S := rfl
@[simp] theorem account_P (c : Cfg) (s : State) (r : List Req) : (account c s r).P = s.P := rfl
@[simp] theorem account_U (c : Cfg) (s : State) (r : List Req) : (account c s r).U = s.U := rfl
@[simp] theorem account_latch (c : Cfg) (s : State) (r : List Req) :
    (account c s r).latch = s.latch := rfl
@[simp] theorem account_depths (c : Cfg) (s : State) (r : List Req) :
    (account c s r).depths = s.depths := rfl
@[simp] theorem account_parent (c : Cfg) (s : State) (r : List Req) :
    (account c s r).parent = s.parent := rfl
@[simp] theorem account_round (c : Cfg) (s : State) (r : List Req) :
    (account c s r).round = s.round + 1 := rfl
@[simp] theorem account_sampleCount (c : Cfg) (s : State) (r : List Req) :
    (account c s r).sampleCount = s.sampleCount + r.length := rfl
@[simp] theorem account_totalCost (c : Cfg) (s : State) (r : List Req) :
    (account c s r).totalCost = s.totalCost + reqsCost c r := rfl

/-- `evaluate_refine()` keeps the counters of its input state apart from `account` -/
theorem evalRefine_account (c : Cfg) (s : State) (e : Env) :
    (evalRefine c s e).st.round = s.round + 1 ∧
    (evalRefine c s e).st.sampleCount = s.sampleCount + (evalRefine c s e).req.length ∧
    (evalRefine c s e).st.totalCost = s.totalCost + reqsCost c (evalRefine c s e).req := by
  unfold evalRefine
  cases choose c s e <;> simp [applyChoice, grow]

/-- Every active call: `round += 1`, `sample_count += len(requested)`,
`total_cost += Σ costs[objective]`. -/
theorem active_account (c : Cfg) (s : State) (e : Env) :
    (active c s e).st.round = s.round + 1 ∧
    (active c s e).st.sampleCount = s.sampleCount + (active c s e).req.length ∧
    (active c s e).st.totalCost = s.totalCost + reqsCost c (active c s e).req := by
  unfold active
  cases c.alg
  case vogpAD =>
    simp only [adActive]
    split
    · simp
    · exact evalRefine_account c _ e
  all_goals simp [pavebaActive, auerActive, vogpActive, naiveActive, decoupledActive]

/-! ### set transitions of the fixed-design elimination algorithms -/

/-- An active call of PaVeBa / PaVeBaGP / PaVeBaPartialGP / Auer / VOGP / ε-PAL on a well-formed
state: a `Trans` on `(S, P)`, `U ⊆ P` afterwards, nothing else touched, nothing refined. -/
theorem active_trans (c : Cfg) (s : State) (e : Env) (hw : WF c s)
    (hel : c.alg.elim = true) (hne : c.alg ≠ .vogpAD) :
    Trans s.S s.P (active c s e).st.S (active c s e).st.P ∧
    (∀ i ∈ (active c s e).st.U, i ∈ (active c s e).st.P) ∧
    (active c s e).st.depths = s.depths ∧ (active c s e).st.latch = s.latch ∧
    (active c s e).st.parent = s.parent ∧ (active c s e).refined = none := by
  have hpav := pavebaRound_trans e.isDom e.isCov s.U hw.nodupS hw.nodupP hw.disj
  have hvo := vogpRound_trans e.isDom e.isCov e.pessDom hw.nodupS hw.nodupP hw.disj
  have hau := auerRound_trans c.eps e.centre e.width hw.nodupS hw.nodupP hw.disj
  unfold active
  cases hc : c.alg
  case naive => simp [hc, Alg.elim] at hel
  case decoupled => simp [hc, Alg.elim] at hel
  case vogpAD => exact absurd hc hne
  case paveba => simpa [pavebaActive] using hpav
  case pavebaGP => simpa [pavebaActive] using hpav
  case pavebaPartial => simpa [pavebaActive] using hpav
  case auer =>
    exact ⟨hau, fun i hi => hau.keep i (hw.useful i hi), rfl, rfl, rfl, rfl⟩
  case vogp =>
    exact ⟨hvo, fun i hi => hvo.keep i (hw.useful i hi), rfl, rfl, rfl, rfl⟩
  case epal =>
    exact ⟨hvo, fun i hi => hvo.keep i (hw.useful i hi), rfl, rfl, rfl, rfl⟩

end VOPy.Run
