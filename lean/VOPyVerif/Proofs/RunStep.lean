import VOPyVerif.Proofs.RunSets
/-!
# One call of `run_one_step()` in the model: what `Run.step` guarantees on a well-formed state

`WF` is the invariant of the elimination algorithms (duplicate-free disjoint `S`, `P`; `U ⊆ P`;
VOGP_AD: every node mentioned exists).  `active_trans` / `adActive_facts` describe the set
transition of an active call, `active_account` the bookkeeping.
-/
namespace VOPy.Run
open VOPy VOPy.Steps

/-- invariant of the run state of an elimination algorithm -/
structure WF (c : Cfg) (s : State) : Prop where
  nodupS : s.S.Nodup
  nodupP : s.P.Nodup
  disj : ∀ i ∈ s.S, i ∉ s.P
  useful : ∀ i ∈ s.U, i ∈ s.P
  bound : c.alg = .vogpAD → ∀ i, i ∈ s.S ∨ i ∈ s.P → i < s.depths.length
  noU : c.alg = .vogpAD → s.U = []

theorem wf_init (c : Cfg) : WF c (init c) := by
  refine ⟨?_, by simp [init], ?_, by simp [init], ?_, fun _ => rfl⟩
  · unfold init
    cases c.alg <;> simp [List.nodup_range]
  · simp [init]
  · intro h i hi
    simp only [init, h] at hi ⊢
    simp at hi ⊢
    omega

/-! ### bookkeeping -/

@[simp] theorem account_S (c : Cfg) (s : State) (r : List Req) : (account c s r).S = s.S := rfl
@[simp] theorem account_P (c : Cfg) (s : State) (r : List Req) : (account c s r).P = s.P := rfl
@[simp] theorem account_U (c : Cfg) (s : State) (r : List Req) : (account c s r).U = s.U := rfl
@[simp] theorem account_latch (c : Cfg) (s : State) (r : List Req) :
    (account c s r).latch = s.latch := rfl
@[simp] theorem account_depths (c : Cfg) (s : State) (r : List Req) :
    (account c s r).depths = s.depths := rfl
@[simp] theorem account_parent (c : Cfg) (s : State) (r : List Req) :
    (account c s r).parent = s.parent := rfl
@[simp] theorem account_round (c : Cfg) (s : State) (r : List Req) :
    (account c s r).round = s.round + 1 := rfl
@[simp] theorem account_sampleCount (c : Cfg) (s : State) (r : List Req) :
    (account c s r).sampleCount = s.sampleCount + r.length := rfl
@[simp] theorem account_totalCost (c : Cfg) (s : State) (r : List Req) :
    (account c s r).totalCost = s.totalCost + reqsCost c r := rfl

/-- `evaluate_refine()` keeps the counters of its input state apart from `account` -/
theorem evalRefine_account (c : Cfg) (s : State) (e : Env) :
    (evalRefine c s e).st.round = s.round + 1 ∧
    (evalRefine c s e).st.sampleCount = s.sampleCount + (evalRefine c s e).req.length ∧
    (evalRefine c s e).st.totalCost = s.totalCost + reqsCost c (evalRefine c s e).req := by
  unfold evalRefine
  cases choose c s e <;> simp [applyChoice, grow]

/-- Every active call: `round += 1`, `sample_count += len(requested)`,
`total_cost += Σ costs[objective]`. -/
theorem active_account (c : Cfg) (s : State) (e : Env) :
    (active c s e).st.round = s.round + 1 ∧
    (active c s e).st.sampleCount = s.sampleCount + (active c s e).req.length ∧
    (active c s e).st.totalCost = s.totalCost + reqsCost c (active c s e).req := by
  unfold active
  cases c.alg
  case vogpAD =>
    simp only [adActive]
    split
    · simp
    · exact evalRefine_account c _ e
  all_goals simp [pavebaActive, auerActive, vogpActive, naiveActive, decoupledActive]

/-! ### set transitions of the fixed-design elimination algorithms -/

/-- An active call of PaVeBa / PaVeBaGP / PaVeBaPartialGP / Auer / VOGP / ε-PAL on a well-formed
state: a `Trans` on `(S, P)`, `U ⊆ P` afterwards, nothing else touched, nothing refined. -/
theorem active_trans (c : Cfg) (s : State) (e : Env) (hw : WF c s)
    (hel : c.alg.elim = true) (hne : c.alg ≠ .vogpAD) :
    Trans s.S s.P (active c s e).st.S (active c s e).st.P ∧
    (∀ i ∈ (active c s e).st.U, i ∈ (active c s e).st.P) ∧
    (active c s e).st.depths = s.depths ∧ (active c s e).st.latch = s.latch ∧
    (active c s e).st.parent = s.parent ∧ (active c s e).refined = none := by
  have hpav := pavebaRound_trans e.isDom e.isCov s.U hw.nodupS hw.nodupP hw.disj
  have hvo := vogpRound_trans e.isDom e.isCov e.pessDom hw.nodupS hw.nodupP hw.disj
  have hau := auerRound_trans c.eps e.centre e.width hw.nodupS hw.nodupP hw.disj
  unfold active
  cases hc : c.alg
  case naive => simp [hc, Alg.elim] at hel
  case decoupled => simp [hc, Alg.elim] at hel
  case vogpAD => exact absurd hc hne
  case paveba => simpa [pavebaActive] using hpav
  case pavebaGP => simpa [pavebaActive] using hpav
  case pavebaPartial => simpa [pavebaActive] using hpav
  case auer =>
    exact ⟨hau, fun i hi => hau.keep i (hw.useful i hi), rfl, rfl, rfl, rfl⟩
  case vogp =>
    exact ⟨hvo, fun i hi => hvo.keep i (hw.useful i hi), rfl, rfl, rfl, rfl⟩
  case epal =>
    exact ⟨hvo, fun i hi => hvo.keep i (hw.useful i hi), rfl, rfl, rfl, rfl⟩

/-! ### VOGP_AD -/

theorem mem_childIds (c : Cfg) (n k : Nat) : k ∈ childIds c n ↔ n ≤ k ∧ k < n + c.branch := by
  unfold childIds
  simp only [List.mem_map, List.mem_range]
  constructor
  · rintro ⟨j, hj, rfl⟩; omega
  · rintro ⟨h1, h2⟩; exact ⟨k - n, by omega, by omega⟩

theorem nodup_childIds (c : Cfg) (n : Nat) : (childIds c n).Nodup := by
  unfold childIds
  exact List.Pairwise.map _ (fun a b (h : a ≠ b) => by omega) List.nodup_range

theorem choose_sample {c : Cfg} {s : State} {e : Env} {d : Nat} (h : choose c s e = .sample d) :
    d ∈ s.S ∨ d ∈ s.P := by
  unfold choose at h
  split at h
  · cases h
  · rename_i p hp
    have hm := List.mem_of_mem_head? (Option.mem_def.mpr hp)
    have hc : (union s.S s.P).contains p.1 = true := (List.mem_filter.mp hm).2
    have hu : p.1 ∈ union s.S s.P := by simpa using hc
    split at h
    · split at h <;> cases h
    · cases h; exact (mem_union _ _ _).mp hu

theorem choose_refineS {c : Cfg} {s : State} {e : Env} {d : Nat} (h : choose c s e = .refineS d) :
    d ∈ s.S ∧ depthOf s d < c.maxDepth := by
  unfold choose at h
  split at h
  · cases h
  · rename_i p hp
    split at h
    · rename_i hcond
      split at h
      · rename_i hS
        cases h
        simp only [Bool.and_eq_true, decide_eq_true_eq] at hcond
        exact ⟨by simpa using hS, hcond.1⟩
      · cases h
    · cases h

theorem choose_refineP {c : Cfg} {s : State} {e : Env} {d : Nat} (h : choose c s e = .refineP d) :
    d ∉ s.S ∧ d ∈ s.P ∧ depthOf s d < c.maxDepth := by
  unfold choose at h
  split at h
  · cases h
  · rename_i p hp
    have hm := List.mem_of_mem_head? (Option.mem_def.mpr hp)
    have hc : (union s.S s.P).contains p.1 = true := (List.mem_filter.mp hm).2
    have hu : p.1 ∈ union s.S s.P := by simpa using hc
    split at h
    · rename_i hcond
      split at h
      · cases h
      · rename_i hS
        cases h
        simp only [Bool.and_eq_true, decide_eq_true_eq] at hcond
        have hS' : p.1 ∉ s.S := by simpa using hS
        refine ⟨hS', ?_, hcond.1⟩
        rcases (mem_union _ _ _).mp hu with h1 | h1
        · exact absurd h1 hS'
        · exact h1
    · cases h

/-- with the latch off, a candidate below the maximum depth that is still active after the
decision phases is still a *candidate*: ε-covering cannot have moved it -/
theorem ad_latch_keeps (isDom isCov pessDom : Rel) (depth : Nat → Nat) (maxDepth : Nat)
    {S P : List Nat} (hd : ∀ i ∈ S, i ∉ P) {d : Nat} (hS : d ∈ S) (hdep : depth d ≠ maxDepth)
    (hin : d ∈ (vogpADRound isDom isCov pessDom depth maxDepth false S P).1 ∨
           d ∈ (vogpADRound isDom isCov pessDom depth maxDepth false S P).2.1) :
    d ∈ (vogpADRound isDom isCov pessDom depth maxDepth false S P).1 := by
  rcases hin with h | h
  · exact h
  · exfalso
    unfold vogpADRound epsilonCoveringAD at h
    split at h
    · exact hd d hS h
    · rename_i hcond
      simp only [Bool.not_false, Bool.true_and, Bool.not_eq_true', Bool.not_eq_false] at hcond
      simp only [epsilonCovering] at h
      rcases (mem_addAll _ _ _).mp h with h1 | h1
      · exact hd d hS h1
      · have h2 : d ∈ vogpDiscard isDom pessDom S P := (List.mem_filter.mp h1).1
        have := List.all_eq_true.mp hcond d h2
        exact hdep (by simpa using this)

/-- Prop form of the refinement clauses of `adSetsOk`: node `d` was refined in this call -/
structure ADRefine (c : Cfg) (s st : State) (d : Nat) : Prop where
  depth_lt : depthOf s d < c.maxDepth
  depths_eq : st.depths = s.depths ++ List.replicate c.branch (depthOf s d + 1)
  notS : d ∉ st.S
  notP : d ∉ st.P
  was : d ∈ s.S ∨ d ∈ s.P
  S_from : ∀ i ∈ st.S, i ∈ s.S ∨ i ∈ childIds c s.depths.length
  P_keep : ∀ p ∈ s.P, p ∈ st.P ∨ p = d
  P_from : ∀ p ∈ st.P, p ∈ s.P ∨ p ∈ s.S ∨ p ∈ childIds c s.depths.length
  side : (∀ k ∈ childIds c s.depths.length, k ∈ st.S) ∨ (∀ k ∈ childIds c s.depths.length, k ∈ st.P)
  kidsP : d ∈ s.P → ∀ k ∈ childIds c s.depths.length, k ∈ st.P
  kidsS : d ∈ s.S → s.latch = false → ∀ k ∈ childIds c s.depths.length, k ∈ st.S

/-- what an active VOGP_AD call guarantees on a well-formed state -/
structure ADFacts (c : Cfg) (s : State) (a : Act) : Prop where
  wf : WF c a.st
  plain : a.refined = none → Trans s.S s.P a.st.S a.st.P ∧ a.st.depths = s.depths
  refine : ∀ d, a.refined = some d → ADRefine c s a.st d ∧ a.req = []
  reqIn : ∀ r ∈ a.req, r.2 = none ∧ (r.1 ∈ s.S ∨ r.1 ∈ s.P)
  reqLen : a.req.length ≤ 1
  reqS : a.req ≠ [] → a.st.S ≠ []
  emptyS : a.st.S = [] → a.req = []
  parentPlain : a.refined = none → a.st.parent = s.parent
  parentRefine : ∀ d, a.refined = some d → a.st.parent = s.parent ++ List.replicate c.branch d

theorem wf_account {c : Cfg} {s : State} (r : List Req) (hw : WF c s) : WF c (account c s r) :=
  ⟨hw.nodupS, hw.nodupP, hw.disj, hw.useful, hw.bound, hw.noU⟩

theorem depthOf_congr {s s1 : State} (h : s1.depths = s.depths) (d : Nat) :
    depthOf s1 d = depthOf s d := by
  unfold depthOf; rw [h]

/-- `evaluate_refine()` on the state `s1` reached by the decision phases from `s` -/
theorem applyChoice_facts (c : Cfg) (s s1 : State) (e : Env) (hc : c.alg = .vogpAD)
    (hd : ∀ i ∈ s.S, i ∉ s.P) (hw1 : WF c s1) (T : Trans s.S s.P s1.S s1.P)
    (hdep : s1.depths = s.depths) (hpar : s1.parent = s.parent) (hne : s1.S ≠ [])
    (hlatch : ∀ d ∈ s.S, s.latch = false → depthOf s d ≠ c.maxDepth →
      (d ∈ s1.S ∨ d ∈ s1.P) → d ∈ s1.S) :
    ADFacts c s (applyChoice c s1 (choose c s1 e)) := by
  have hU := hw1.noU hc
  have hb := hw1.bound hc
  have hkid : childIds c s1.depths.length = childIds c s.depths.length := by rw [hdep]
  cases hch : choose c s1 e with
  | idle =>
    exact ⟨wf_account _ hw1, fun _ => ⟨T, hdep⟩, (fun d h => by cases h),
      (fun r hr => by cases hr), (by simp [applyChoice]), fun h => absurd rfl h, fun _ => rfl,
      fun _ => hpar, (fun d h => by cases h)⟩
  | sample d =>
    have hin := choose_sample hch
    refine ⟨wf_account _ hw1, fun _ => ⟨T, hdep⟩, (fun d h => by cases h), ?_, (by simp [applyChoice]),
      fun _ => hne, fun h => absurd h hne, fun _ => hpar, (fun d h => by cases h)⟩
    intro r hr
    simp only [applyChoice, List.mem_singleton] at hr
    subst hr
    refine ⟨rfl, ?_⟩
    rcases hin with h | h
    · exact Or.inl (T.sub.subset h)
    · exact (T.from_ d h).symm
  | refineS d =>
    obtain ⟨hdS, hlt⟩ := choose_refineS hch
    have hdn : d < s1.depths.length := hb d (Or.inl hdS)
    have hSt : (applyChoice c s1 (.refineS d)).st.S = s1.S.erase d ++ childIds c s1.depths.length := rfl
    have hPt : (applyChoice c s1 (.refineS d)).st.P = s1.P := rfl
    have hDt : (applyChoice c s1 (.refineS d)).st.depths =
        s1.depths ++ List.replicate c.branch (depthOf s1 d + 1) := rfl
    have hwas : d ∈ s.S := T.sub.subset hdS
    refine ⟨⟨?_, ?_, ?_, ?_, ?_, ?_⟩, (fun h => by cases h), ?_, (fun r hr => by cases hr),
      (by simp [applyChoice]), fun h => absurd rfl h, fun _ => rfl, (fun h => by cases h),
      fun d' hd' => by
        have : d' = d := by
          simp only [applyChoice] at hd'
          exact (Option.some.inj hd').symm
        subst this
        show s1.parent ++ List.replicate c.branch d' = _
        rw [hpar]⟩
    · rw [hSt, List.nodup_append]
      refine ⟨hw1.nodupS.erase d, nodup_childIds c _, ?_⟩
      intro a ha b hb' hab
      have := hb a (Or.inl (List.mem_of_mem_erase ha))
      have := (mem_childIds c _ b).mp hb'
      omega
    · rw [hPt]; exact hw1.nodupP
    · intro i hi hp
      rw [hSt, List.mem_append] at hi
      rw [hPt] at hp
      rcases hi with h | h
      · exact hw1.disj i (List.mem_of_mem_erase h) hp
      · have := hb i (Or.inr hp)
        have := (mem_childIds c _ i).mp h
        omega
    · intro i hi
      have : (applyChoice c s1 (.refineS d)).st.U = s1.U := rfl
      rw [this, hU] at hi
      cases hi
    · intro _ i hi
      rw [hSt, hPt, hDt, List.mem_append] at *
      simp only [List.length_append, List.length_replicate]
      rcases hi with (h | h) | h
      · have := hb i (Or.inl (List.mem_of_mem_erase h)); omega
      · have := (mem_childIds c _ i).mp h; omega
      · have := hb i (Or.inr h); omega
    · intro _
      exact hU
    · intro d' hd'
      have : d' = d := by
        simp only [applyChoice] at hd'
        exact (Option.some.inj hd').symm
      subst this
      refine ⟨⟨?_, ?_, ?_, ?_, Or.inl hwas, ?_, ?_, ?_, Or.inl ?_, ?_, ?_⟩, rfl⟩
      · rw [← depthOf_congr hdep]; exact hlt
      · rw [hDt, hdep, depthOf_congr hdep]
      · rw [hSt, List.mem_append]
        rintro (h | h)
        · exact ((hw1.nodupS.mem_erase_iff).mp h).1 rfl
        · have := (mem_childIds c _ d').mp h; omega
      · rw [hPt]; exact hw1.disj d' hdS
      · intro i hi
        rw [hSt, List.mem_append] at hi
        rcases hi with h | h
        · exact Or.inl (T.sub.subset (List.mem_of_mem_erase h))
        · exact Or.inr (hkid ▸ h)
      · intro p hp
        rw [hPt]; exact Or.inl (T.keep p hp)
      · intro p hp
        rw [hPt] at hp
        rcases T.from_ p hp with h | h
        · exact Or.inl h
        · exact Or.inr (Or.inl h)
      · intro k hk
        rw [hSt, List.mem_append]; exact Or.inr (hkid ▸ hk)
      · intro hP'
        exact absurd hP' (hd d' hwas)
      · intro _ _ k hk
        rw [hSt, List.mem_append]; exact Or.inr (hkid ▸ hk)
  | refineP d =>
    obtain ⟨hnS, hdP, hlt⟩ := choose_refineP hch
    have hdn : d < s1.depths.length := hb d (Or.inr hdP)
    have hSt : (applyChoice c s1 (.refineP d)).st.S = s1.S := rfl
    have hPt : (applyChoice c s1 (.refineP d)).st.P = s1.P.erase d ++ childIds c s1.depths.length := rfl
    have hDt : (applyChoice c s1 (.refineP d)).st.depths =
        s1.depths ++ List.replicate c.branch (depthOf s1 d + 1) := rfl
    have hwas : d ∈ s.P ∨ d ∈ s.S := T.from_ d hdP
    refine ⟨⟨?_, ?_, ?_, ?_, ?_, ?_⟩, (fun h => by cases h), ?_, (fun r hr => by cases hr),
      (by simp [applyChoice]), fun h => absurd rfl h, fun _ => rfl, (fun h => by cases h),
      fun d' hd' => by
        have : d' = d := by
          simp only [applyChoice] at hd'
          exact (Option.some.inj hd').symm
        subst this
        show s1.parent ++ List.replicate c.branch d' = _
        rw [hpar]⟩
    · rw [hSt]; exact hw1.nodupS
    · rw [hPt, List.nodup_append]
      refine ⟨hw1.nodupP.erase d, nodup_childIds c _, ?_⟩
      intro a ha b hb' hab
      have := hb a (Or.inr (List.mem_of_mem_erase ha))
      have := (mem_childIds c _ b).mp hb'
      omega
    · intro i hi hp
      rw [hSt] at hi
      rw [hPt, List.mem_append] at hp
      rcases hp with h | h
      · exact hw1.disj i hi (List.mem_of_mem_erase h)
      · have := hb i (Or.inl hi)
        have := (mem_childIds c _ i).mp h
        omega
    · intro i hi
      have : (applyChoice c s1 (.refineP d)).st.U = s1.U := rfl
      rw [this, hU] at hi
      cases hi
    · intro _ i hi
      rw [hSt, hPt, hDt, List.mem_append] at *
      simp only [List.length_append, List.length_replicate]
      rcases hi with h | h | h
      · have := hb i (Or.inl h); omega
      · have := hb i (Or.inr (List.mem_of_mem_erase h)); omega
      · have := (mem_childIds c _ i).mp h; omega
    · intro _
      exact hU
    · intro d' hd'
      have : d' = d := by
        simp only [applyChoice] at hd'
        exact (Option.some.inj hd').symm
      subst this
      refine ⟨⟨?_, ?_, ?_, ?_, hwas.symm, ?_, ?_, ?_, Or.inr ?_, ?_, ?_⟩, rfl⟩
      · rw [← depthOf_congr hdep]; exact hlt
      · rw [hDt, hdep, depthOf_congr hdep]
      · rw [hSt]; exact hnS
      · rw [hPt, List.mem_append]
        rintro (h | h)
        · exact ((hw1.nodupP.mem_erase_iff).mp h).1 rfl
        · have := (mem_childIds c _ d').mp h; omega
      · intro i hi
        rw [hSt] at hi
        exact Or.inl (T.sub.subset hi)
      · intro p hp
        by_cases hpd : p = d'
        · exact Or.inr hpd
        · refine Or.inl ?_
          rw [hPt, List.mem_append]
          exact Or.inl ((List.mem_erase_of_ne hpd).mpr (T.keep p hp))
      · intro p hp
        rw [hPt, List.mem_append] at hp
        rcases hp with h | h
        · rcases T.from_ p (List.mem_of_mem_erase h) with h1 | h1
          · exact Or.inl h1
          · exact Or.inr (Or.inl h1)
        · exact Or.inr (Or.inr (hkid ▸ h))
      · intro k hk
        rw [hPt, List.mem_append]; exact Or.inr (hkid ▸ hk)
      · intro _ k hk
        rw [hPt, List.mem_append]; exact Or.inr (hkid ▸ hk)
      · intro hS' hl
        have hne' : depthOf s d' ≠ c.maxDepth := by
          have := depthOf_congr hdep d'
          omega
        exact absurd (hlatch d' hS' hl hne' (Or.inr hdP)) hnS

/-- An active VOGP_AD call on a well-formed state. -/
theorem adActive_facts (c : Cfg) (s : State) (e : Env) (hw : WF c s) (hc : c.alg = .vogpAD) :
    ADFacts c s (adActive c s e) := by
  have T := vogpADRound_trans e.isDom e.isCov e.pessDom (depthOf s) c.maxDepth s.latch
    hw.nodupS hw.nodupP hw.disj
  have hw1 : WF c { s with
      S := (vogpADRound e.isDom e.isCov e.pessDom (depthOf s) c.maxDepth s.latch s.S s.P).1
      P := (vogpADRound e.isDom e.isCov e.pessDom (depthOf s) c.maxDepth s.latch s.S s.P).2.1
      latch := (vogpADRound e.isDom e.isCov e.pessDom (depthOf s) c.maxDepth s.latch s.S s.P).2.2 } := by
    refine ⟨T.nodupS, T.nodupP, T.disj, ?_, ?_, fun h => hw.noU h⟩
    · intro i hi
      have : i ∈ s.U := hi
      rw [hw.noU hc] at this
      cases this
    · intro _ i hi
      rcases hi with h | h
      · exact hw.bound hc i (Or.inl (T.sub.subset h))
      · exact hw.bound hc i ((T.from_ i h).symm)
  simp only [adActive]
  split
  · exact ⟨wf_account _ hw1, fun _ => ⟨T, rfl⟩, (fun d h => by cases h), (fun r hr => by cases hr),
      (by simp), fun h => absurd rfl h, fun _ => rfl, fun _ => rfl,
      (fun d h => by cases h)⟩
  · rename_i hne
    refine applyChoice_facts c s _ e hc hw.disj hw1 T rfl rfl ?_ ?_
    · intro h
      apply hne
      show (vogpADRound e.isDom e.isCov e.pessDom (depthOf s) c.maxDepth s.latch s.S s.P).1.isEmpty = true
      have h' : (vogpADRound e.isDom e.isCov e.pessDom (depthOf s) c.maxDepth s.latch s.S s.P).1 = [] := h
      rw [h']; rfl
    · intro d hd hl hdep hin
      have hin' : d ∈ (vogpADRound e.isDom e.isCov e.pessDom (depthOf s) c.maxDepth s.latch s.S s.P).1 ∨
          d ∈ (vogpADRound e.isDom e.isCov e.pessDom (depthOf s) c.maxDepth s.latch s.S s.P).2.1 := hin
      show d ∈ (vogpADRound e.isDom e.isCov e.pessDom (depthOf s) c.maxDepth s.latch s.S s.P).1
      rw [hl] at hin' ⊢
      exact ad_latch_keeps e.isDom e.isCov e.pessDom (depthOf s) c.maxDepth hw.disj hd hdep hin'

end VOPy.Run
