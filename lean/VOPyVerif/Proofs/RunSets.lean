import VOPyVerif.Model.Run
/-!
# Set-level lemmas about the transitions of `Model/Steps.lean` used by the run invariants (C06)

Everything here is independent of the oracle relations: the statements hold for *any* geometry.
-/
namespace VOPy.Steps

theorem removeAll_sublist (S rm : List Nat) : (removeAll S rm).Sublist S := by
  unfold removeAll
  induction rm generalizing S with
  | nil => exact List.Sublist.refl _
  | cons x xs ih =>
    simp only [List.foldl_cons]
    exact (ih (S.erase x)).trans List.erase_sublist

theorem removeAll_subset {S rm : List Nat} {i : Nat} (h : i ∈ removeAll S rm) : i ∈ S :=
  (removeAll_sublist S rm).subset h

theorem nodup_removeAll {S : List Nat} (rm : List Nat) (h : S.Nodup) : (removeAll S rm).Nodup :=
  h.sublist (removeAll_sublist S rm)

theorem mem_removeAll {S : List Nat} (rm : List Nat) (h : S.Nodup) (i : Nat) :
    i ∈ removeAll S rm ↔ i ∈ S ∧ i ∉ rm := by
  unfold removeAll
  induction rm generalizing S with
  | nil => simp
  | cons x xs ih =>
    simp only [List.foldl_cons]
    rw [ih (h.erase x), h.mem_erase_iff]
    simp only [List.mem_cons, not_or]
    constructor
    · rintro ⟨⟨h1, h2⟩, h3⟩; exact ⟨h2, h1, h3⟩
    · rintro ⟨h2, h1, h3⟩; exact ⟨⟨h1, h2⟩, h3⟩

theorem mem_addAll (P new : List Nat) (i : Nat) : i ∈ addAll P new ↔ i ∈ P ∨ i ∈ new := by
  unfold addAll
  induction new generalizing P with
  | nil => simp
  | cons x xs ih =>
    simp only [List.foldl_cons]
    rw [ih]
    by_cases hx : P.contains x = true
    · simp only [hx, if_true, List.mem_cons]
      have : x ∈ P := by simpa using hx
      constructor
      · rintro (h | h)
        · exact Or.inl h
        · exact Or.inr (Or.inr h)
      · rintro (h | h | h)
        · exact Or.inl h
        · exact Or.inl (h ▸ this)
        · exact Or.inr h
    · simp only [hx, List.mem_cons]
      simp only [Bool.false_eq_true, if_false, List.mem_append, List.mem_singleton]
      constructor
      · rintro ((h | h) | h)
        · exact Or.inl h
        · exact Or.inr (Or.inl h)
        · exact Or.inr (Or.inr h)
      · rintro (h | h | h)
        · exact Or.inl (Or.inl h)
        · exact Or.inl (Or.inr h)
        · exact Or.inr h

theorem nodup_addAll {P : List Nat} (new : List Nat) (h : P.Nodup) : (addAll P new).Nodup := by
  unfold addAll
  induction new generalizing P with
  | nil => simpa using h
  | cons x xs ih =>
    simp only [List.foldl_cons]
    apply ih
    by_cases hx : P.contains x = true
    · simp only [hx, if_true]; exact h
    · simp only [hx, Bool.false_eq_true, if_false]
      have hx' : x ∉ P := by simpa using hx
      rw [List.nodup_append]
      refine ⟨h, by simp, ?_⟩
      intro a ha b hb
      simp only [List.mem_singleton] at hb
      subst hb
      intro hab
      exact hx' (hab ▸ ha)

theorem mem_union (S U : List Nat) (i : Nat) : i ∈ union S U ↔ i ∈ S ∨ i ∈ U := by
  unfold union
  simp only [List.mem_append, List.mem_filter, Bool.not_eq_true', List.contains_eq_mem,
    decide_eq_false_iff_not]
  constructor
  · rintro (h | ⟨h, _⟩)
    · exact Or.inl h
    · exact Or.inr h
  · rintro (h | h)
    · exact Or.inl h
    · by_cases hs : i ∈ S
      · exact Or.inl hs
      · exact Or.inr ⟨h, hs⟩

/-- One round of decisions on the pair `(S, P)`: candidates only leave `S` (in order: a sublist),
`P` keeps its members and gains only former candidates, and the two stay disjoint and duplicate
free. -/
structure Trans (S P S' P' : List Nat) : Prop where
  sub : S'.Sublist S
  nodupS : S'.Nodup
  nodupP : P'.Nodup
  keep : ∀ i ∈ P, i ∈ P'
  from_ : ∀ i ∈ P', i ∈ P ∨ i ∈ S
  disj : ∀ i ∈ S', i ∉ P'

theorem Trans.refl {S P : List Nat} (hS : S.Nodup) (hP : P.Nodup) (hd : ∀ i ∈ S, i ∉ P) :
    Trans S P S P :=
  ⟨List.Sublist.refl _, hS, hP, fun _ h => h, fun _ h => Or.inl h, hd⟩

/-- the common shape of `pareto_updating()` / `epsiloncovering()`: the designs in `new ⊆ S` leave
`S` and enter `P` -/
theorem trans_of_new {S P new : List Nat} (hS : S.Nodup) (hP : P.Nodup)
    (hd : ∀ i ∈ S, i ∉ P) (hn : ∀ i ∈ new, i ∈ S) :
    Trans S P (removeAll S new) (addAll P new) where
  sub := removeAll_sublist S new
  nodupS := nodup_removeAll new hS
  nodupP := nodup_addAll new hP
  keep := fun i hi => (mem_addAll P new i).mpr (Or.inl hi)
  from_ := fun i hi => by
    rcases (mem_addAll P new i).mp hi with h | h
    · exact Or.inl h
    · exact Or.inr (hn i h)
  disj := fun i hi hp => by
    have h1 := (mem_removeAll new hS i).mp hi
    rcases (mem_addAll P new i).mp hp with h | h
    · exact hd i h1.1 h
    · exact h1.2 h

/-- a preceding discarding step `S₀ → S` (a sublist) composes -/
theorem Trans.after_discard {S0 S P S' P' : List Nat} (h : Trans S P S' P') (hs : S.Sublist S0) :
    Trans S0 P S' P' :=
  ⟨h.sub.trans hs, h.nodupS, h.nodupP, h.keep,
   fun i hi => (h.from_ i hi).imp id (fun x => hs.subset x), h.disj⟩

/-- PaVeBa family: one round is a `Trans`, and the new `U` lies inside the new `P` -/
theorem pavebaRound_trans (isDom isCov : Rel) {S P : List Nat} (U : List Nat)
    (hS : S.Nodup) (hP : P.Nodup) (hd : ∀ i ∈ S, i ∉ P) :
    Trans S P (pavebaRound isDom isCov S P U).1 (pavebaRound isDom isCov S P U).2.1 ∧
    ∀ i ∈ (pavebaRound isDom isCov S P U).2.2, i ∈ (pavebaRound isDom isCov S P U).2.1 := by
  have hsub : (pavebaDiscard isDom S U).Sublist S := removeAll_sublist _ _
  have hS1 : (pavebaDiscard isDom S U).Nodup := hS.sublist hsub
  have hd1 : ∀ i ∈ pavebaDiscard isDom S U, i ∉ P := fun i hi => hd i (hsub.subset hi)
  have hn : ∀ i ∈ pavebaNewPareto isCov (pavebaDiscard isDom S U) U, i ∈ pavebaDiscard isDom S U :=
    fun i hi => (List.mem_filter.mp hi).1
  refine ⟨(trans_of_new hS1 hP hd1 hn).after_discard hsub, ?_⟩
  intro i hi
  exact (List.mem_filter.mp hi).1

/-- VOGP / ε-PAL: one round is a `Trans` -/
theorem vogpRound_trans (isDom isCov pessDom : Rel) {S P : List Nat}
    (hS : S.Nodup) (hP : P.Nodup) (hd : ∀ i ∈ S, i ∉ P) :
    Trans S P (vogpRound isDom isCov pessDom S P).1 (vogpRound isDom isCov pessDom S P).2 := by
  have hsub : (vogpDiscard isDom pessDom S P).Sublist S := removeAll_sublist _ _
  have hS1 : (vogpDiscard isDom pessDom S P).Nodup := hS.sublist hsub
  have hd1 : ∀ i ∈ vogpDiscard isDom pessDom S P, i ∉ P := fun i hi => hd i (hsub.subset hi)
  have hn : ∀ i ∈ coverNew isCov (vogpDiscard isDom pessDom S P) P, i ∈ vogpDiscard isDom pessDom S P :=
    fun i hi => (List.mem_filter.mp hi).1
  exact (trans_of_new hS1 hP hd1 hn).after_discard hsub

/-- VOGP_AD: one round of decisions is a `Trans` -/
theorem vogpADRound_trans (isDom isCov pessDom : Rel) (depth : Nat → Nat) (maxDepth : Nat)
    (enabled : Bool) {S P : List Nat} (hS : S.Nodup) (hP : P.Nodup) (hd : ∀ i ∈ S, i ∉ P) :
    Trans S P (vogpADRound isDom isCov pessDom depth maxDepth enabled S P).1
      (vogpADRound isDom isCov pessDom depth maxDepth enabled S P).2.1 := by
  have hsub : (vogpDiscard isDom pessDom S P).Sublist S := removeAll_sublist _ _
  have hS1 : (vogpDiscard isDom pessDom S P).Nodup := hS.sublist hsub
  have hd1 : ∀ i ∈ vogpDiscard isDom pessDom S P, i ∉ P := fun i hi => hd i (hsub.subset hi)
  unfold vogpADRound epsilonCoveringAD
  split
  · exact (Trans.refl hS1 hP hd1).after_discard hsub
  · have hn : ∀ i ∈ coverNew isCov (vogpDiscard isDom pessDom S P) P,
        i ∈ vogpDiscard isDom pessDom S P := fun i hi => (List.mem_filter.mp hi).1
    exact (trans_of_new hS1 hP hd1 hn).after_discard hsub

theorem auerNewParetoCore_subset (eps : Rat) (centre width : Nat → Vec) (S : List Nat) :
    ∀ i ∈ auerNewParetoCore eps centre (byDesign width S), i ∈ S := by
  intro i hi
  unfold auerNewParetoCore at hi
  obtain ⟨p, hp, rfl⟩ := List.mem_map.mp hi
  have hp1 : p ∈ auerP1Core eps centre (byDesign width S) := (List.mem_filter.mp hp).1
  have hp2 : p ∈ byDesign width S := (List.mem_filter.mp hp1).1
  unfold byDesign at hp2
  obtain ⟨j, hj, rfl⟩ := List.mem_map.mp hp2
  exact hj

/-- Auer (widths looked up by design): one round is a `Trans` -/
theorem auerRound_trans (eps : Rat) (centre width : Nat → Vec) {S P : List Nat}
    (hS : S.Nodup) (hP : P.Nodup) (hd : ∀ i ∈ S, i ∉ P) :
    Trans S P (auerRound eps centre width S P).1 (auerRound eps centre width S P).2 := by
  have hsub : (auerDiscard centre width S).Sublist S := removeAll_sublist _ _
  have hS1 : (auerDiscard centre width S).Nodup := hS.sublist hsub
  have hd1 : ∀ i ∈ auerDiscard centre width S, i ∉ P := fun i hi => hd i (hsub.subset hi)
  exact (trans_of_new hS1 hP hd1
    (auerNewParetoCore_subset eps centre width _)).after_discard hsub

end VOPy.Steps
