import VOPyVerif.Model.Problem
import Mathlib.Algebra.Order.Field.Rat
import Mathlib.Tactic.Ring
import Mathlib.Tactic.Linarith
import Mathlib.Tactic.FieldSimp
/-! Helper lemmas for C20: `np.argmin` scan, nearest design, decoupled selection. -/
namespace VOPy.Problem

/-! ## `argminFirst` -/

/-- `i` is the first index of the minimum of `l` -/
def IsFirstMin (l : List Rat) (i : Nat) : Prop :=
  ∃ v, l[i]? = some v ∧ (∀ (j : Nat) (w : Rat), l[j]? = some w → v ≤ w) ∧
    (∀ (j : Nat) (w : Rat), j < i → l[j]? = some w → v < w)

theorem isFirstMin_unique {l : List Rat} {i k : Nat} (hi : IsFirstMin l i) (hk : IsFirstMin l k) :
    i = k := by
  obtain ⟨v, hv, hle, hlt⟩ := hi
  obtain ⟨w, hw, hle', hlt'⟩ := hk
  rcases Nat.lt_trichotomy i k with h | h | h
  · have h1 := hlt' i v h hv
    have h2 := hle k w hw
    exact absurd (lt_of_lt_of_le h1 h2) (lt_irrefl _)
  · exact h
  · have h1 := hlt k w h hw
    have h2 := hle' i v hv
    exact absurd (lt_of_lt_of_le h1 h2) (lt_irrefl _)

theorem argminAux_spec : ∀ (ds pre : List Rat) (bv : Rat) (bi : Nat),
    pre[bi]? = some bv →
    (∀ (j : Nat) (w : Rat), pre[j]? = some w → bv ≤ w) →
    (∀ (j : Nat) (w : Rat), j < bi → pre[j]? = some w → bv < w) →
    IsFirstMin (pre ++ ds) (argminAux bv bi pre.length ds) := by
  intro ds
  induction ds with
  | nil =>
    intro pre bv bi h1 h2 h3
    simp only [argminAux, List.append_nil]
    exact ⟨bv, h1, h2, h3⟩
  | cons d ds ih =>
    intro pre bv bi h1 h2 h3
    have hbi : bi < pre.length := by
      rcases Nat.lt_or_ge bi pre.length with h | h
      · exact h
      · rw [List.getElem?_eq_none h] at h1; exact absurd h1 (by simp)
    have hlen : (pre ++ [d]).length = pre.length + 1 := by simp
    have happ : pre ++ d :: ds = (pre ++ [d]) ++ ds := by simp
    unfold argminAux
    split
    · -- strict improvement: new incumbent `d` at index `pre.length`
      rename_i hlt
      rw [happ, ← hlen]
      apply ih (pre ++ [d]) d pre.length
      · simp
      · intro j w hj
        rcases Nat.lt_or_ge j pre.length with hjl | hjl
        · rw [List.getElem?_append_left hjl] at hj
          exact le_of_lt (lt_of_lt_of_le hlt (h2 j w hj))
        · rw [List.getElem?_append_right hjl] at hj
          rcases Nat.eq_zero_or_pos (j - pre.length) with h0 | h0
          · rw [h0] at hj; simp at hj; rw [hj]
          · rw [List.getElem?_eq_none (by simp only [List.length_singleton]; omega)] at hj
            exact absurd hj (by simp)
      · intro j w hjl hj
        rw [List.getElem?_append_left hjl] at hj
        exact lt_of_lt_of_le hlt (h2 j w hj)
    · rename_i hnlt
      have hge : bv ≤ d := not_lt.mp hnlt
      rw [happ, ← hlen]
      apply ih (pre ++ [d]) bv bi
      · rw [List.getElem?_append_left hbi]; exact h1
      · intro j w hj
        rcases Nat.lt_or_ge j pre.length with hjl | hjl
        · rw [List.getElem?_append_left hjl] at hj; exact h2 j w hj
        · rw [List.getElem?_append_right hjl] at hj
          rcases Nat.eq_zero_or_pos (j - pre.length) with h0 | h0
          · rw [h0] at hj; simp at hj; rw [← hj]; exact hge
          · rw [List.getElem?_eq_none (by simp only [List.length_singleton]; omega)] at hj
            exact absurd hj (by simp)
      · intro j w hjl hj
        rw [List.getElem?_append_left (by omega)] at hj
        exact h3 j w hjl hj

theorem argminFirst_spec (l : List Rat) (hl : l ≠ []) :
    ∃ i, argminFirst l = some i ∧ IsFirstMin l i := by
  cases l with
  | nil => exact absurd rfl hl
  | cons d ds =>
    refine ⟨argminAux d 0 1 ds, rfl, ?_⟩
    have := argminAux_spec ds [d] d 0 (by simp) ?_ ?_
    · simpa using this
    · intro j w hj
      cases j with
      | zero => simp at hj; rw [hj]
      | succ j => simp at hj
    · intro j w hj; omega

theorem argminFirst_eq_some_iff (l : List Rat) (i : Nat) :
    argminFirst l = some i ↔ IsFirstMin l i := by
  constructor
  · intro h
    have hl : l ≠ [] := by rintro rfl; simp [argminFirst] at h
    obtain ⟨k, hk, hs⟩ := argminFirst_spec l hl
    rw [hk] at h; cases h; exact hs
  · intro h
    have hl : l ≠ [] := by
      rintro rfl
      obtain ⟨v, hv, _⟩ := h
      simp at hv
    obtain ⟨k, hk, hs⟩ := argminFirst_spec l hl
    rw [hk, isFirstMin_unique hs h]

/-! ## squared distance -/

theorem dot_self_nonneg : ∀ a : Vec, 0 ≤ dot a a
  | [] => by simp [dot]
  | x :: xs => by
    have := dot_self_nonneg xs
    have h2 := mul_self_nonneg x
    simp only [dot]; linarith

theorem dot_self_eq_zero : ∀ a : Vec, dot a a = 0 → ∀ x ∈ a, x = 0
  | [], _ => by simp
  | x :: xs, h => by
    have h1 := dot_self_nonneg xs
    have h2 := mul_self_nonneg x
    simp only [dot] at h
    have hx : x * x = 0 := by linarith
    have hxs : dot xs xs = 0 := by linarith
    intro y hy
    rcases List.mem_cons.mp hy with rfl | hy
    · exact mul_self_eq_zero.mp hx
    · exact dot_self_eq_zero xs hxs y hy

theorem sqDist_nonneg (a b : Vec) : 0 ≤ sqDist a b := dot_self_nonneg _

theorem sqDist_self (a : Vec) : sqDist a a = 0 := by
  unfold sqDist normSq vsub
  induction a with
  | nil => simp [dot]
  | cons x xs ih => simp only [List.zipWith_cons_cons, dot, sub_self, mul_zero, zero_add]; exact ih

theorem vsub_eq_zero_imp : ∀ (a b : Vec), a.length = b.length → (∀ x ∈ vsub a b, x = 0) → a = b
  | [], [], _, _ => rfl
  | [], _ :: _, h, _ => by simp at h
  | _ :: _, [], h, _ => by simp at h
  | x :: xs, y :: ys, h, hz => by
    simp only [vsub, List.zipWith_cons_cons, List.mem_cons, forall_eq_or_imp] at hz
    have hxy : x = y := by linarith [hz.1]
    have := vsub_eq_zero_imp xs ys (by simpa using h) hz.2
    rw [hxy, this]

theorem sqDist_eq_zero {a b : Vec} (hlen : a.length = b.length) (h : sqDist a b = 0) : a = b :=
  vsub_eq_zero_imp a b hlen (dot_self_eq_zero _ h)

/-- `sqDist` is the sum of squared coordinate differences (same length) -/
theorem sqDist_cons (x y : Rat) (xs ys : Vec) :
    sqDist (x :: xs) (y :: ys) = (x - y) * (x - y) + sqDist xs ys := by
  simp [sqDist, normSq, vsub, dot]

/-! ## `column`, `pick` -/

theorem mapM_option_spec {α β : Type} (f : α → Option β) :
    ∀ (l : List α) (out : List β), l.mapM f = some out ↔
      out.length = l.length ∧ ∀ (i : Nat) (a : α), l[i]? = some a → ∃ b, out[i]? = some b ∧ f a = some b := by
  intro l
  induction l with
  | nil =>
    intro out
    simp only [List.mapM_nil, List.length_nil, List.getElem?_nil]
    constructor
    · intro h; cases h; simp
    · rintro ⟨h, _⟩; rw [List.length_eq_zero_iff.mp h]; rfl
  | cons a l ih =>
    intro out
    rw [List.mapM_cons]
    constructor
    · intro h
      cases hfa : f a with
      | none => simp [hfa] at h
      | some b =>
        cases hl : l.mapM f with
        | none => simp [hfa, hl] at h
        | some bs =>
          simp [hfa, hl] at h
          subst h
          obtain ⟨h1, h2⟩ := (ih bs).mp hl
          refine ⟨by simp [h1], ?_⟩
          intro i a' hi
          cases i with
          | zero => simp at hi; subst hi; exact ⟨b, by simp, hfa⟩
          | succ i => simp at hi; simpa using h2 i a' hi
    · rintro ⟨h1, h2⟩
      cases out with
      | nil => simp at h1
      | cons b bs =>
        obtain ⟨b', hb', hfa⟩ := h2 0 a (by simp)
        simp at hb'; subst hb'
        have hl : l.mapM f = some bs := by
          apply (ih bs).mpr
          refine ⟨by simpa using h1, ?_⟩
          intro i a' hi
          simpa using h2 (i + 1) a' (by simpa using hi)
        simp [hfa, hl]

theorem mapM_option_isSome {α β : Type} (f : α → Option β) (l : List α)
    (h : ∀ a ∈ l, (f a).isSome) : ∃ out, l.mapM f = some out := by
  induction l with
  | nil => exact ⟨[], rfl⟩
  | cons a l ih =>
    obtain ⟨bs, hbs⟩ := ih (fun x hx => h x (List.mem_cons_of_mem _ hx))
    obtain ⟨b, hb⟩ := Option.isSome_iff_exists.mp (h a (by simp))
    exact ⟨b :: bs, by simp [List.mapM_cons, hb, hbs]⟩

theorem mapM_option_eq_none {α β : Type} (f : α → Option β) (l : List α) :
    l.mapM f = none ↔ ∃ a ∈ l, f a = none := by
  induction l with
  | nil => simp
  | cons a l ih =>
    rw [List.mapM_cons]
    cases hfa : f a with
    | none => simp [hfa]
    | some b =>
      cases hl : l.mapM f with
      | none =>
        obtain ⟨x, hx, hfx⟩ := ih.mp hl
        simp only [Option.bind_eq_bind, Option.bind_some, Option.bind_none, true_iff]
        exact ⟨x, List.mem_cons_of_mem _ hx, hfx⟩
      | some bs =>
        simp only [Option.bind_eq_bind, Option.bind_some, Option.pure_def, reduceCtorEq, false_iff]
        rintro ⟨x, hx, hfx⟩
        rcases List.mem_cons.mp hx with rfl | hx
        · rw [hfa] at hfx; cases hfx
        · have := ih.mpr ⟨x, hx, hfx⟩
          rw [hl] at this; cases this


/-! ## nearest design -/

theorem isFirstMin_dists_iff (x : Vec) (X : Mat) (i : Nat) :
    IsFirstMin (dists x X) i ↔ ∃ hi : i < X.length,
      (∀ (j : Nat) (hj : j < X.length), sqDist x X[i] ≤ sqDist x X[j]) ∧
      (∀ (j : Nat) (hj : j < i), sqDist x X[i] < sqDist x (X[j]'(Nat.lt_trans hj hi))) := by
  unfold IsFirstMin dists
  constructor
  · rintro ⟨v, hv, hle, hlt⟩
    have hi : i < X.length := by
      rcases Nat.lt_or_ge i X.length with h | h
      · exact h
      · rw [List.getElem?_eq_none (by simpa using h)] at hv; exact absurd hv (by simp)
    have hvi : v = sqDist x X[i] := by
      rw [List.getElem?_map, List.getElem?_eq_getElem hi] at hv
      simpa using hv.symm
    refine ⟨hi, ?_, ?_⟩
    · intro j hj
      rw [← hvi]
      exact hle j _ (by rw [List.getElem?_map, List.getElem?_eq_getElem hj]; rfl)
    · intro j hj
      rw [← hvi]
      exact hlt j _ hj (by rw [List.getElem?_map, List.getElem?_eq_getElem (Nat.lt_trans hj hi)]; rfl)
  · rintro ⟨hi, hle, hlt⟩
    refine ⟨sqDist x X[i], by rw [List.getElem?_map, List.getElem?_eq_getElem hi]; rfl, ?_, ?_⟩
    · intro j w hj
      have hjl : j < X.length := by
        rcases Nat.lt_or_ge j X.length with h | h
        · exact h
        · rw [List.getElem?_eq_none (by simpa using h)] at hj; exact absurd hj (by simp)
      rw [List.getElem?_map, List.getElem?_eq_getElem hjl] at hj
      have : w = sqDist x X[j] := by simpa using hj.symm
      rw [this]; exact hle j hjl
    · intro j w hji hj
      have hjl : j < X.length := Nat.lt_trans hji hi
      rw [List.getElem?_map, List.getElem?_eq_getElem hjl] at hj
      have : w = sqDist x X[j] := by simpa using hj.symm
      rw [this]; exact hlt j hji

/-! ## decoupled selection -/

theorem column_spec (values : Mat) (k : Nat) (hk : ∀ row ∈ values, k < row.length) :
    ∃ v, column values k = some v ∧ v.length = values.length ∧
      ∀ (r : Nat) (hr : r < values.length),
        v[r]? = some ((values[r])[k]'(hk _ (List.getElem_mem hr))) := by
  have hall : ∀ row ∈ values, (row[k]?).isSome := by
    intro row hrow
    rw [List.getElem?_eq_getElem (hk row hrow)]; rfl
  obtain ⟨v, hv⟩ := mapM_option_isSome (fun r : Vec => r[k]?) values hall
  refine ⟨v, hv, ?_⟩
  obtain ⟨hlen, hrows⟩ := (mapM_option_spec _ values v).mp hv
  refine ⟨hlen, ?_⟩
  intro r hr
  obtain ⟨b, hb, hfb⟩ := hrows r values[r] (List.getElem?_eq_getElem hr)
  rw [hb, ← hfb, List.getElem?_eq_getElem (hk _ (List.getElem_mem hr))]

theorem column_eq_none_iff (values : Mat) (k : Nat) :
    column values k = none ↔ ∃ row ∈ values, row.length ≤ k := by
  unfold column
  rw [mapM_option_eq_none]
  constructor
  · rintro ⟨row, hrow, h⟩
    exact ⟨row, hrow, by simpa using h⟩
  · rintro ⟨row, hrow, h⟩
    exact ⟨row, hrow, by simpa using h⟩

theorem pick_spec (values : Mat) (ks : List Nat) (hlen : ks.length ≤ values.length)
    (hk : ∀ (r : Nat) (hr : r < ks.length), ks[r] < (values[r]'(Nat.lt_of_lt_of_le hr hlen)).length) :
    ∃ v, pick values ks = some v ∧ v.length = ks.length ∧
      ∀ (r : Nat) (hr : r < ks.length),
        v[r]? = some ((values[r]'(Nat.lt_of_lt_of_le hr hlen))[ks[r]]'(hk r hr)) := by
  have hf : ∀ (r : Nat) (hr : r < ks.length),
      ((values[r]?).bind (fun row : Vec => row[ks[r]]?)) =
        some ((values[r]'(Nat.lt_of_lt_of_le hr hlen))[ks[r]]'(hk r hr)) := by
    intro r hr
    rw [List.getElem?_eq_getElem (Nat.lt_of_lt_of_le hr hlen)]
    simp only [Option.bind_some]
    rw [List.getElem?_eq_getElem (hk r hr)]
  have hall : ∀ p ∈ ks.zipIdx, ((values[p.2]?).bind (fun row : Vec => row[p.1]?)).isSome := by
    intro p hp
    obtain ⟨hr, hpk⟩ : ∃ hr : p.2 < ks.length, ks[p.2] = p.1 := by
      have := List.mem_zipIdx_iff_getElem?.mp hp
      obtain ⟨h1, h2⟩ := List.getElem?_eq_some_iff.mp this
      exact ⟨h1, h2⟩
    rw [← hpk, hf p.2 hr]; rfl
  obtain ⟨v, hv⟩ := mapM_option_isSome _ ks.zipIdx hall
  refine ⟨v, hv, ?_⟩
  obtain ⟨hl, hrows⟩ := (mapM_option_spec _ ks.zipIdx v).mp hv
  refine ⟨by simpa using hl, ?_⟩
  intro r hr
  obtain ⟨b, hb, hfb⟩ := hrows r (ks[r], r) (by simp [hr])
  rw [hb, ← hfb]
  exact hf r hr

theorem pick_eq_none_iff (values : Mat) (ks : List Nat) :
    pick values ks = none ↔ ∃ (r : Nat) (hr : r < ks.length),
      (values[r]?).bind (fun row : Vec => row[ks[r]]?) = none := by
  unfold pick
  rw [mapM_option_eq_none]
  constructor
  · rintro ⟨p, hp, h⟩
    have := List.mem_zipIdx_iff_getElem?.mp hp
    obtain ⟨h1, h2⟩ := List.getElem?_eq_some_iff.mp this
    exact ⟨p.2, h1, by rw [h2]; exact h⟩
  · rintro ⟨r, hr, h⟩
    exact ⟨(ks[r], r), List.mem_zipIdx_iff_getElem?.mpr (List.getElem?_eq_getElem hr), h⟩

/-! ## the tie / rounding band used by the harness' relation (R) -/

theorem mem_nearestBand_iff (x : Vec) (X : Mat) (tol : Rat) (hX : X ≠ []) (j : Nat) :
    j ∈ nearestBand x X tol ↔ ∃ hj : j < X.length,
      ∀ (k : Nat) (hk : k < X.length), sqDist x X[j] ≤ sqDist x X[k] + tol := by
  have hd : dists x X ≠ [] := by simpa [dists] using hX
  obtain ⟨i, hi, v, hv, hle, _⟩ := argminFirst_spec (dists x X) hd
  have hdl : (dists x X).length = X.length := by simp [dists]
  have hget : ∀ (k : Nat) (hk : k < X.length), (dists x X)[k]? = some (sqDist x X[k]) := by
    intro k hk
    simp [dists, List.getElem?_map, List.getElem?_eq_getElem hk]
  have hil : i < X.length := by
    rcases Nat.lt_or_ge i X.length with h | h
    · exact h
    · rw [List.getElem?_eq_none (by omega)] at hv; exact absurd hv (by simp)
  have hvi : v = sqDist x X[i] := by
    have := hget i hil; rw [hv] at this; simpa using this
  unfold nearestBand
  simp only [hi, hv, List.mem_map, List.mem_filter, decide_eq_true_eq]
  constructor
  · rintro ⟨⟨d, j'⟩, ⟨hmem, hdle⟩, rfl⟩
    have hj := List.mem_zipIdx_iff_getElem?.mp hmem
    simp only at hj hdle ⊢
    have hjl : j' < X.length := by
      rcases Nat.lt_or_ge j' X.length with h | h
      · exact h
      · rw [List.getElem?_eq_none (by omega)] at hj; exact absurd hj (by simp)
    refine ⟨hjl, ?_⟩
    intro k hk
    have hdj : d = sqDist x X[j'] := by
      have := hget j' hjl; rw [hj] at this; simpa using this
    have := hle k _ (hget k hk)
    rw [← hdj]; linarith
  · rintro ⟨hjl, hall⟩
    refine ⟨(sqDist x X[j], j), ⟨List.mem_zipIdx_iff_getElem?.mpr (hget j hjl), ?_⟩, rfl⟩
    have := hall i hil
    rw [hvi]; exact this

end VOPy.Problem
