import VOPyVerif.Proofs.Pessimistic
import Mathlib.Tactic.Positivity
/-!
# Helper lemmas for C11, part 2: completeness of the polytope routine for 2×2 cones

* `exists_tight`: moving along a direction inside finitely many constraints `cᵢ τ ≤ sᵢ` until one
  becomes tight (the exit point of a ray from a box, without any analysis);
* `seg_hit`: planar case analysis — if a point of a segment between two members (at different
  positions) of the polytope list is `≤ p`, the routine answers `true` (vertex test or the pair
  loop at one of the two coordinates);
* `isPtIn_complete_2x2`: for an invertible 2×2 `W` and a non-empty rectangle `R₂`, if `W y ≤ W x`
  for some `y ∈ R₂` then `isPtIn (W x) (W · vertices R₂) = true`.
-/
namespace VOPy.Pess
set_option linter.unusedSimpArgs false

/-! ## reaching the answer `true` -/

theorem isPtIn_of_vertex {p v : Vec} {poly : List Vec} (hv : v ∈ poly) (h : vle v p = true) :
    isPtIn exact false p poly = true := by
  unfold isPtIn
  rw [Bool.or_eq_true]
  exact Or.inl (List.any_eq_true.mpr ⟨v, hv, h⟩)

theorem isPtIn_of_edge {p v1 v2 : Vec} {poly : List Vec} {i j d : Nat}
    (hi : poly[i]? = some v1) (hj : poly[j]? = some v2) (hij : i ≠ j) (hd : d < polyDim poly)
    (h : edgeHit exact false p d v1 v2 = true) :
    isPtIn exact false p poly = true := by
  unfold isPtIn
  rw [Bool.or_eq_true]
  refine Or.inr ?_
  simp only [List.any_eq_true, Bool.and_eq_true]
  refine ⟨d, List.mem_range.mpr hd, (v1, i), ?_, (v2, j), ?_, ?_, h⟩
  · simp [List.mem_zipIdx_iff_getElem?, hi]
  · simp [List.mem_zipIdx_iff_getElem?, hj]
  · simpa using hij

/-- the pair loop at coordinate 0, planar data -/
theorem edgeHit2_0 {p0 p1 B0 B1 A0 A1 : Rat} (h1 : B0 ≤ p0) (h2 : p0 ≤ A0) (hlt : B0 < A0)
    (hq : B1 + (p0 - B0) / (A0 - B0) * (A1 - B1) ≤ p1) :
    edgeHit exact false [p0, p1] 0 [B0, B1] [A0, A1] = true := by
  have hpos : 0 < A0 - B0 := sub_pos.mpr hlt
  have hne : A0 - B0 ≠ 0 := ne_of_gt hpos
  have ht0 : ¬ (p0 - B0) / (A0 - B0) < 0 := not_lt.mpr (div_nonneg (sub_nonneg.mpr h1) hpos.le)
  have ht1 : ¬ 1 < (p0 - B0) / (A0 - B0) := not_lt.mpr ((div_le_one hpos).mpr (by linarith))
  have hq0 : B0 + (p0 - B0) / (A0 - B0) * (A0 - B0) ≤ p0 := by
    rw [div_mul_cancel₀ _ hne]; linarith
  simp [edgeHit, lineSegAt, exact, vle, h1, h2, hne, ht0, ht1, hq0, hq]

/-- the pair loop at coordinate 1, planar data -/
theorem edgeHit2_1 {p0 p1 B0 B1 A0 A1 : Rat} (h1 : B1 ≤ p1) (h2 : p1 ≤ A1) (hlt : B1 < A1)
    (hq : B0 + (p1 - B1) / (A1 - B1) * (A0 - B0) ≤ p0) :
    edgeHit exact false [p0, p1] 1 [B0, B1] [A0, A1] = true := by
  have hpos : 0 < A1 - B1 := sub_pos.mpr hlt
  have hne : A1 - B1 ≠ 0 := ne_of_gt hpos
  have ht0 : ¬ (p1 - B1) / (A1 - B1) < 0 := not_lt.mpr (div_nonneg (sub_nonneg.mpr h1) hpos.le)
  have ht1 : ¬ 1 < (p1 - B1) / (A1 - B1) := not_lt.mpr ((div_le_one hpos).mpr (by linarith))
  have hq1 : B1 + (p1 - B1) / (A1 - B1) * (A1 - B1) ≤ p1 := by
    rw [div_mul_cancel₀ _ hne]; linarith
  simp [edgeHit, lineSegAt, exact, vle, h1, h2, hne, ht0, ht1, hq1, hq]

/-- **Planar case analysis.**  If the point at parameter `s ∈ [0,1]` of the segment between the
members at positions `i ≠ j` of the polytope list is componentwise `≤ p`, the routine answers
`true`: by the vertex test, or by the pair `(B, A)` at coordinate 0 or 1.  The parameter `s` may live
in any ordered field `L ⊇ ℚ` (real witnesses). -/
theorem seg_hit {L : Type} [Field L] [LinearOrder L] [IsStrictOrderedRing L]
    {poly : List Vec} {i j : Nat} {A0 A1 B0 B1 p0 p1 : Rat} {s : L}
    (hi : poly[i]? = some [A0, A1]) (hj : poly[j]? = some [B0, B1]) (hij : i ≠ j)
    (hdim : polyDim poly = 2) (hs0 : 0 ≤ s) (hs1 : s ≤ 1)
    (hr0 : (A0 : L) + s * (B0 - A0) ≤ p0) (hr1 : (A1 : L) + s * (B1 - A1) ≤ p1) :
    isPtIn exact false [p0, p1] poly = true := by
  have memA : [A0, A1] ∈ poly := List.mem_of_getElem? hi
  have memB : [B0, B1] ∈ poly := List.mem_of_getElem? hj
  by_cases hA : A0 ≤ p0 ∧ A1 ≤ p1
  · exact isPtIn_of_vertex memA (by simp [vle, hA.1, hA.2])
  by_cases hB : B0 ≤ p0 ∧ B1 ≤ p1
  · exact isPtIn_of_vertex memB (by simp [vle, hB.1, hB.2])
  by_cases hA0 : A0 ≤ p0
  · -- then A1 > p1: exit through coordinate 1 with the pair (B, A)
    have hA1 : p1 < A1 := by
      by_contra h; exact hA ⟨hA0, not_lt.mp h⟩
    have hA0L : (A0 : L) ≤ p0 := Rat.cast_le.mpr hA0
    have hA1L : (p1 : L) < A1 := Rat.cast_lt.mpr hA1
    have hBAL : (B1 : L) < A1 := by nlinarith
    have hB1L : (B1 : L) ≤ p1 := by nlinarith
    have hBA : B1 < A1 := Rat.cast_lt.mp hBAL
    have hB1 : B1 ≤ p1 := Rat.cast_le.mp hB1L
    have hpos : 0 < A1 - B1 := sub_pos.mpr hBA
    have hposL : (0 : L) < A1 - B1 := sub_pos.mpr hBAL
    refine isPtIn_of_edge hj hi (Ne.symm hij) (by rw [hdim]; decide)
      (edgeHit2_1 hB1 hA1.le hBA ?_)
    -- the hit's other coordinate: between r₀ and A₀
    have ht : (p1 - B1) / (A1 - B1) * (A1 - B1) = p1 - B1 := div_mul_cancel₀ _ (ne_of_gt hpos)
    have ht0 : 0 ≤ (p1 - B1) / (A1 - B1) := div_nonneg (sub_nonneg.mpr hB1) hpos.le
    have ht1 : (p1 - B1) / (A1 - B1) ≤ 1 := (div_le_one hpos).mpr (by linarith)
    generalize (p1 - B1) / (A1 - B1) = t at ht ht0 ht1 ⊢
    have htL : (t : L) * (A1 - B1) = p1 - B1 := by exact_mod_cast ht
    have ht0L : (0 : L) ≤ t := by exact_mod_cast ht0
    have ht1L : (t : L) ≤ 1 := by exact_mod_cast ht1
    have hts : (1 - s) * ((A1 : L) - B1) ≤ t * (A1 - B1) := by rw [htL]; nlinarith
    have hts' : 1 - s ≤ (t : L) := le_of_mul_le_mul_right hts hposL
    have goalL : (B0 : L) + t * (A0 - B0) ≤ p0 := by
      rcases le_total (B0 : L) A0 with hle | hle
      · nlinarith
      · nlinarith
    exact_mod_cast goalL
  · -- A0 > p0
    have hA0' : p0 < A0 := not_le.mp hA0
    have hA0L : (p0 : L) < A0 := Rat.cast_lt.mpr hA0'
    have hBAL : (B0 : L) < A0 := by nlinarith
    have hB0L : (B0 : L) ≤ p0 := by nlinarith
    have hBA : B0 < A0 := Rat.cast_lt.mp hBAL
    have hB0 : B0 ≤ p0 := Rat.cast_le.mp hB0L
    have hpos : 0 < A0 - B0 := sub_pos.mpr hBA
    have hposL : (0 : L) < A0 - B0 := sub_pos.mpr hBAL
    by_cases hA1 : A1 ≤ p1
    · have hA1L : (A1 : L) ≤ p1 := Rat.cast_le.mpr hA1
      refine isPtIn_of_edge hj hi (Ne.symm hij) (by rw [hdim]; decide)
        (edgeHit2_0 hB0 hA0'.le hBA ?_)
      have ht : (p0 - B0) / (A0 - B0) * (A0 - B0) = p0 - B0 := div_mul_cancel₀ _ (ne_of_gt hpos)
      have ht0 : 0 ≤ (p0 - B0) / (A0 - B0) := div_nonneg (sub_nonneg.mpr hB0) hpos.le
      have ht1 : (p0 - B0) / (A0 - B0) ≤ 1 := (div_le_one hpos).mpr (by linarith)
      generalize (p0 - B0) / (A0 - B0) = t at ht ht0 ht1 ⊢
      have htL : (t : L) * (A0 - B0) = p0 - B0 := by exact_mod_cast ht
      have ht0L : (0 : L) ≤ t := by exact_mod_cast ht0
      have ht1L : (t : L) ≤ 1 := by exact_mod_cast ht1
      have hts : (1 - s) * ((A0 : L) - B0) ≤ t * (A0 - B0) := by rw [htL]; nlinarith
      have hts' : 1 - s ≤ (t : L) := le_of_mul_le_mul_right hts hposL
      have goalL : (B1 : L) + t * (A1 - B1) ≤ p1 := by
        rcases le_total (B1 : L) A1 with hle | hle
        · nlinarith
        · nlinarith
      exact_mod_cast goalL
    · -- both coordinates of A exceed p: then B ≤ r ≤ p, contradiction
      have hA1' : p1 < A1 := not_le.mp hA1
      have hA1L : (p1 : L) < A1 := Rat.cast_lt.mpr hA1'
      have hBA1L : (B1 : L) < A1 := by nlinarith
      have hB1L : (B1 : L) ≤ p1 := by nlinarith
      exact absurd ⟨hB0, Rat.cast_le.mp hB1L⟩ hB

/-! ## exit point of a ray from finitely many constraints -/

section Tight
variable {K : Type} [Field K] [LinearOrder K] [IsStrictOrderedRing K]

/-- constraints `c τ ≤ s` with `s ≥ 0` (all satisfied at `τ = 0`); if some `c` is positive there is a
`τ ≥ 0` satisfying all of them with one of them (with positive `c`) tight. -/
theorem exists_tight : ∀ (L : List (K × K)), (∀ p ∈ L, 0 ≤ p.2) → (∃ p ∈ L, 0 < p.1) →
    ∃ τ, 0 ≤ τ ∧ (∀ p ∈ L, p.1 * τ ≤ p.2) ∧ ∃ p ∈ L, 0 < p.1 ∧ p.1 * τ = p.2
  | [], _, hpos => by obtain ⟨p, hp, _⟩ := hpos; simp at hp
  | p :: L, hs, hpos => by
    have hsL : ∀ q ∈ L, 0 ≤ q.2 := fun q hq => hs q (List.mem_cons_of_mem _ hq)
    have hp2 : 0 ≤ p.2 := hs p (List.mem_cons_self ..)
    by_cases hposL : ∃ q ∈ L, 0 < q.1
    · obtain ⟨τ', h0, hall, q0, hq0, hq0pos, htight⟩ := exists_tight L hsL hposL
      by_cases hp : p.1 * τ' ≤ p.2
      · refine ⟨τ', h0, ?_, q0, List.mem_cons_of_mem _ hq0, hq0pos, htight⟩
        intro q hq
        rcases List.mem_cons.mp hq with rfl | hq
        · exact hp
        · exact hall q hq
      · have hlt : p.2 < p.1 * τ' := not_le.mp hp
        have hp1 : 0 < p.1 := by
          by_contra hneg
          have : p.1 * τ' ≤ 0 := mul_nonpos_of_nonpos_of_nonneg (not_lt.mp hneg) h0
          linarith
        have hττ : p.2 / p.1 ≤ τ' := by
          rw [div_le_iff₀ hp1]; linarith [mul_comm p.1 τ']
        refine ⟨p.2 / p.1, div_nonneg hp2 hp1.le, ?_, p, List.mem_cons_self .., hp1, ?_⟩
        · intro q hq
          rcases List.mem_cons.mp hq with rfl | hq
          · rw [mul_div_cancel₀ _ (ne_of_gt hp1)]
          · rcases le_total 0 q.1 with hq1 | hq1
            · exact le_trans (mul_le_mul_of_nonneg_left hττ hq1) (hall q hq)
            · exact le_trans (mul_nonpos_of_nonpos_of_nonneg hq1 (div_nonneg hp2 hp1.le)) (hsL q hq)
        · rw [mul_div_cancel₀ _ (ne_of_gt hp1)]
    · have hp1 : 0 < p.1 := by
        obtain ⟨q, hq, hq1⟩ := hpos
        rcases List.mem_cons.mp hq with rfl | hq
        · exact hq1
        · exact absurd ⟨q, hq, hq1⟩ hposL
      refine ⟨p.2 / p.1, div_nonneg hp2 hp1.le, ?_, p, List.mem_cons_self .., hp1, ?_⟩
      · intro q hq
        rcases List.mem_cons.mp hq with rfl | hq
        · rw [mul_div_cancel₀ _ (ne_of_gt hp1)]
        · have hq1 : q.1 ≤ 0 := by
            by_contra h; exact hposL ⟨q, hq, not_le.mp h⟩
          exact le_trans (mul_nonpos_of_nonpos_of_nonneg hq1 (div_nonneg hp2 hp1.le)) (hsL q hq)
      · rw [mul_div_cancel₀ _ (ne_of_gt hp1)]

/-- a point of an interval as a point of the segment between its ends -/
theorem exists_param {a b z : K} (h1 : a ≤ z) (h2 : z ≤ b) :
    ∃ s, 0 ≤ s ∧ s ≤ 1 ∧ a + s * (b - a) = z := by
  rcases eq_or_lt_of_le (le_trans h1 h2) with hab | hab
  · exact ⟨0, le_refl _, zero_le_one, by simp; exact le_antisymm h1 (hab ▸ h2)⟩
  · have hpos : 0 < b - a := sub_pos.mpr hab
    exact ⟨(z - a) / (b - a), div_nonneg (sub_nonneg.mpr h1) hpos.le,
      (div_le_one hpos).mpr (by linarith), by rw [div_mul_cancel₀ _ (ne_of_gt hpos)]; ring⟩

end Tight

/-! ## completeness of the polytope routine for an invertible 2×2 cone matrix -/

/-- For `W = [[a,b],[c,d]]` with `ad − bc ≠ 0`, `R₂ = [l0,u0]×[l1,u1]` and any rational `x`:
if some `y ∈ R₂` — with coordinates in any ordered field `L ⊇ ℚ`, e.g. real — has `W y ≤ W x`, then
the routine run on `W x` and the transformed vertices of `R₂` answers `true`. -/
theorem isPtIn_complete_2x2 {L : Type} [Field L] [LinearOrder L] [IsStrictOrderedRing L]
    (a b c d : Rat) (hdet : a * d - b * c ≠ 0)
    (l0 l1 u0 u1 x0 x1 : Rat) (y0 y1 : L)
    (hy0 : (l0 : L) ≤ y0 ∧ y0 ≤ u0) (hy1 : (l1 : L) ≤ y1 ∧ y1 ≤ u1)
    (hd0 : (a : L) * y0 + b * y1 ≤ a * x0 + b * x1) (hd1 : (c : L) * y0 + d * y1 ≤ c * x0 + d * x1) :
    isPtIn exact false (matVec [[a, b], [c, d]] [x0, x1])
      ((vertices [l0, l1] [u0, u1]).map (matVec [[a, b], [c, d]])) = true := by
  -- direction g with W g = (1,1)
  have hdetL : ((a : L) * d - b * c) ≠ 0 := by exact_mod_cast hdet
  set D : L := (a : L) * d - b * c with hD
  set g0 : L := ((d : L) - b) / D with hg0
  set g1 : L := ((a : L) - c) / D with hg1
  have hWg0 : (a : L) * g0 + b * g1 = 1 := by
    rw [hg0, hg1]; field_simp; rw [hD]; ring
  have hWg1 : (c : L) * g0 + d * g1 = 1 := by
    rw [hg0, hg1]; field_simp; rw [hD]; ring
  have hgpos : ∃ p ∈ [(g0, y0 - l0), (-g0, u0 - y0), (g1, y1 - l1), (-g1, u1 - y1)], 0 < p.1 := by
    by_contra hno
    simp only [List.mem_cons, List.not_mem_nil, or_false, not_exists, not_and, not_lt] at hno
    have e0 : g0 = 0 := le_antisymm (hno (g0, y0 - l0) (Or.inl rfl))
      (by have := hno (-g0, u0 - y0) (Or.inr (Or.inl rfl)); simpa using this)
    have e1 : g1 = 0 := le_antisymm (hno (g1, y1 - l1) (Or.inr (Or.inr (Or.inl rfl))))
      (by have := hno (-g1, u1 - y1) (Or.inr (Or.inr (Or.inr rfl))); simpa using this)
    rw [e0, e1] at hWg0; simp at hWg0
  obtain ⟨τ, hτ0, hall, ptight, hpt, _, htight⟩ :=
    exists_tight [(g0, y0 - l0), (-g0, u0 - y0), (g1, y1 - l1), (-g1, u1 - y1)]
      (by
        intro p hp
        simp only [List.mem_cons, List.not_mem_nil, or_false] at hp
        rcases hp with rfl | rfl | rfl | rfl <;> simp <;> linarith [hy0.1, hy0.2, hy1.1, hy1.2])
      hgpos
  -- the exit point y' = y − τ g
  set z0 := y0 - τ * g0 with hz0
  set z1 := y1 - τ * g1 with hz1
  have b1 := hall (g0, y0 - l0) (by simp)
  have b2 := hall (-g0, u0 - y0) (by simp)
  have b3 := hall (g1, y1 - l1) (by simp)
  have b4 := hall (-g1, u1 - y1) (by simp)
  simp only at b1 b2 b3 b4
  have hz0l : (l0 : L) ≤ z0 := by rw [hz0]; linarith
  have hz0u : z0 ≤ u0 := by rw [hz0]; linarith
  have hz1l : (l1 : L) ≤ z1 := by rw [hz1]; linarith
  have hz1u : z1 ≤ u1 := by rw [hz1]; linarith
  have hdz0 : (a : L) * z0 + b * z1 ≤ a * x0 + b * x1 := by
    have : (a : L) * z0 + b * z1 = a * y0 + b * y1 - τ * (a * g0 + b * g1) := by rw [hz0, hz1]; ring
    rw [this, hWg0]; linarith
  have hdz1 : (c : L) * z0 + d * z1 ≤ c * x0 + d * x1 := by
    have : (c : L) * z0 + d * z1 = c * y0 + d * y1 - τ * (c * g0 + d * g1) := by rw [hz0, hz1]; ring
    rw [this, hWg1]; linarith
  -- the polytope list and its dimension
  have hpoly : (vertices [l0, l1] [u0, u1]).map (matVec [[a, b], [c, d]]) =
      [[a * l0 + b * l1, c * l0 + d * l1], [a * l0 + b * u1, c * l0 + d * u1],
       [a * u0 + b * l1, c * u0 + d * l1], [a * u0 + b * u1, c * u0 + d * u1]] := by
    simp [vertices, matVec, dot]
  have hp : matVec [[a, b], [c, d]] [x0, x1] = [a * x0 + b * x1, c * x0 + d * x1] := by
    simp [matVec, dot]
  rw [hpoly, hp]
  -- which side is tight
  simp only [List.mem_cons, List.not_mem_nil, or_false] at hpt
  rcases hpt with rfl | rfl | rfl | rfl
  · -- z0 = l0 : edge between vertices 0 and 1
    have e : z0 = l0 := by rw [hz0]; simp only at htight; linarith
    obtain ⟨s, hs0, hs1, hs⟩ := exists_param hz1l hz1u
    refine seg_hit (L := L) (i := 0) (j := 1) (s := s) rfl rfl (by decide) rfl hs0 hs1 ?_ ?_
    · have : ((a * l0 + b * l1 : Rat) : L) + s * ((a * l0 + b * u1 : Rat) - (a * l0 + b * l1 : Rat))
          = a * z0 + b * z1 := by rw [e, ← hs]; push_cast; ring
      rw [this]; exact_mod_cast hdz0
    · have : ((c * l0 + d * l1 : Rat) : L) + s * ((c * l0 + d * u1 : Rat) - (c * l0 + d * l1 : Rat))
          = c * z0 + d * z1 := by rw [e, ← hs]; push_cast; ring
      rw [this]; exact_mod_cast hdz1
  · -- z0 = u0 : edge between vertices 2 and 3
    have e : z0 = u0 := by rw [hz0]; simp only at htight; linarith
    obtain ⟨s, hs0, hs1, hs⟩ := exists_param hz1l hz1u
    refine seg_hit (L := L) (i := 2) (j := 3) (s := s) rfl rfl (by decide) rfl hs0 hs1 ?_ ?_
    · have : ((a * u0 + b * l1 : Rat) : L) + s * ((a * u0 + b * u1 : Rat) - (a * u0 + b * l1 : Rat))
          = a * z0 + b * z1 := by rw [e, ← hs]; push_cast; ring
      rw [this]; exact_mod_cast hdz0
    · have : ((c * u0 + d * l1 : Rat) : L) + s * ((c * u0 + d * u1 : Rat) - (c * u0 + d * l1 : Rat))
          = c * z0 + d * z1 := by rw [e, ← hs]; push_cast; ring
      rw [this]; exact_mod_cast hdz1
  · -- z1 = l1 : edge between vertices 0 and 2
    have e : z1 = l1 := by rw [hz1]; simp only at htight; linarith
    obtain ⟨s, hs0, hs1, hs⟩ := exists_param hz0l hz0u
    refine seg_hit (L := L) (i := 0) (j := 2) (s := s) rfl rfl (by decide) rfl hs0 hs1 ?_ ?_
    · have : ((a * l0 + b * l1 : Rat) : L) + s * ((a * u0 + b * l1 : Rat) - (a * l0 + b * l1 : Rat))
          = a * z0 + b * z1 := by rw [e, ← hs]; push_cast; ring
      rw [this]; exact_mod_cast hdz0
    · have : ((c * l0 + d * l1 : Rat) : L) + s * ((c * u0 + d * l1 : Rat) - (c * l0 + d * l1 : Rat))
          = c * z0 + d * z1 := by rw [e, ← hs]; push_cast; ring
      rw [this]; exact_mod_cast hdz1
  · -- z1 = u1 : edge between vertices 1 and 3
    have e : z1 = u1 := by rw [hz1]; simp only at htight; linarith
    obtain ⟨s, hs0, hs1, hs⟩ := exists_param hz0l hz0u
    refine seg_hit (L := L) (i := 1) (j := 3) (s := s) rfl rfl (by decide) rfl hs0 hs1 ?_ ?_
    · have : ((a * l0 + b * u1 : Rat) : L) + s * ((a * u0 + b * u1 : Rat) - (a * l0 + b * u1 : Rat))
          = a * z0 + b * z1 := by rw [e, ← hs]; push_cast; ring
      rw [this]; exact_mod_cast hdz0
    · have : ((c * l0 + d * u1 : Rat) : L) + s * ((c * u0 + d * u1 : Rat) - (c * l0 + d * u1 : Rat))
          = c * z0 + d * z1 := by rw [e, ← hs]; push_cast; ring
      rw [this]; exact_mod_cast hdz1

/-- **Completeness at the vertices of `R₁`, 2×2.**  If every vertex `x` of `R₁` has a witness
`y ∈ R₂` (coordinates in any ordered field `L ⊇ ℚ`) with `w·y ≤ w·x` for both rows, the model of
`check_dominates` answers `true`. -/
theorem checkDominates_complete_vertices {L : Type} [Field L] [LinearOrder L] [IsStrictOrderedRing L]
    (a b c d : Rat) (hdet : a * d - b * c ≠ 0) (l1 u1 l2 u2 : Vec)
    (hl1 : l1.length = 2) (hu1 : u1.length = 2) (hl2 : l2.length = 2) (hu2 : u2.length = 2)
    (hsem : ∀ x ∈ vertices l1 u1, ∃ y : List L, GInBox (castV l2) (castV u2) y ∧
      gdot (castV [a, b]) y ≤ gdot (castV [a, b]) (castV x : List L) ∧
      gdot (castV [c, d]) y ≤ gdot (castV [c, d]) (castV x : List L)) :
    checkDominates [[a, b], [c, d]] l1 u1 l2 u2 = true := by
  obtain ⟨l10, l11, rfl⟩ := List.length_eq_two.mp hl1
  obtain ⟨u10, u11, rfl⟩ := List.length_eq_two.mp hu1
  obtain ⟨l20, l21, rfl⟩ := List.length_eq_two.mp hl2
  obtain ⟨u20, u21, rfl⟩ := List.length_eq_two.mp hu2
  simp only [checkDominates, checkDominatesR, List.all_map, List.all_eq_true, Function.comp]
  intro x hx
  obtain ⟨y, hy, hd0, hd1⟩ := hsem x hx
  have hxl := vertices_length [l10, l11] [u10, u11] rfl x hx
  obtain ⟨x0, x1, rfl⟩ := List.length_eq_two.mp hxl
  have hyl := (GInBox.length_eq hy).1
  simp only [castV_length] at hyl
  obtain ⟨y0, y1, rfl⟩ := List.length_eq_two.mp hyl
  simp only [castV, List.map_cons, List.map_nil, GInBox] at hy
  simp only [castV, List.map_cons, List.map_nil, gdot, add_zero] at hd0 hd1
  exact isPtIn_complete_2x2 a b c d hdet l20 l21 u20 u21 x0 x1 y0 y1
    ⟨hy.1, hy.2.1⟩ ⟨hy.2.2.1, hy.2.2.2.1⟩ hd0 hd1

end VOPy.Pess
