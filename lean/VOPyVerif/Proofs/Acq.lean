import VOPyVerif.Model.Acq
import Mathlib.Data.List.Sort
import Mathlib.Algebra.Order.Ring.Rat
/-! Helper lemmas for C07: `np.argmax`, the pick loop of `optimize_acqf_discrete` and its
characterisation as "the first `q` entries of the descending sort". -/
namespace VOPy.Acq

/-- descending sort used in the statements -/
abbrev sortDesc (l : List Rat) : List Rat := l.insertionSort (· ≥ ·)

theorem sortDesc_perm (l : List Rat) : (sortDesc l).Perm l := List.perm_insertionSort _ l

theorem sortDesc_pairwise (l : List Rat) : (sortDesc l).Pairwise (· ≥ ·) :=
  List.pairwise_insertionSort _ l

theorem sortDesc_length (l : List Rat) : (sortDesc l).length = l.length :=
  (sortDesc_perm l).length_eq

/-- two descending lists with the same elements are equal -/
theorem eq_of_perm_of_desc {l₁ l₂ : List Rat} (h₁ : l₁.Pairwise (· ≥ ·)) (h₂ : l₂.Pairwise (· ≥ ·))
    (hp : l₁.Perm l₂) : l₁ = l₂ :=
  hp.eq_of_pairwise (fun _ _ _ _ hab hba => le_antisymm hba hab) h₁ h₂

theorem sortDesc_congr {l₁ l₂ : List Rat} (hp : l₁.Perm l₂) : sortDesc l₁ = sortDesc l₂ :=
  eq_of_perm_of_desc (sortDesc_pairwise _) (sortDesc_pairwise _)
    ((sortDesc_perm l₁).trans (hp.trans (sortDesc_perm l₂).symm))

/-! ## `np.argmax` -/

theorem argmax_eq_none {l : List Rat} : argmax l = none ↔ l = [] := by
  cases l with
  | nil => simp [argmax]
  | cons x xs =>
    constructor
    · intro h
      simp only [argmax] at h
      cases hx : argmax xs with
      | none => rw [hx] at h; simp at h
      | some p =>
        obtain ⟨j, v⟩ := p
        rw [hx] at h
        simp only at h
        split at h <;> simp at h
    · intro h; simp at h

/-- `argmax` returns a position holding the maximum, and every earlier position holds a strictly
smaller value (first maximal position). -/
theorem argmax_spec : ∀ {l : List Rat} {j : Nat} {v : Rat}, argmax l = some (j, v) →
    l[j]? = some v ∧ (∀ x ∈ l, x ≤ v) ∧ (∀ i, i < j → ∀ x, l[i]? = some x → x < v)
  | [], _, _, h => by simp [argmax] at h
  | x :: xs, j, v, h => by
    simp only [argmax] at h
    cases hx : argmax xs with
    | none =>
      rw [hx] at h
      simp only [Option.some.injEq, Prod.mk.injEq] at h
      obtain ⟨rfl, rfl⟩ := h
      have : xs = [] := argmax_eq_none.mp hx
      subst this
      simp
    | some p =>
      obtain ⟨j', v'⟩ := p
      rw [hx] at h
      obtain ⟨h1, h2, h3⟩ := argmax_spec hx
      by_cases hlt : x < v'
      · simp only [hlt, if_true, Option.some.injEq, Prod.mk.injEq] at h
        obtain ⟨rfl, rfl⟩ := h
        refine ⟨by simpa using h1, ?_, ?_⟩
        · intro y hy
          rcases List.mem_cons.mp hy with rfl | hy
          · exact le_of_lt hlt
          · exact h2 y hy
        · intro i hi y hy
          cases i with
          | zero => simp at hy; subst hy; exact hlt
          | succ i => exact h3 i (by omega) y (by simpa using hy)
      · simp only [hlt, if_false, Option.some.injEq, Prod.mk.injEq] at h
        obtain ⟨rfl, rfl⟩ := h
        refine ⟨by simp, ?_, ?_⟩
        · intro y hy
          rcases List.mem_cons.mp hy with rfl | hy
          · exact le_refl _
          · exact le_trans (h2 y hy) (not_lt.mp hlt)
        · intro i hi; omega

/-! ## list facts -/

theorem perm_cons_eraseIdx {α : Type} {l : List α} {j : Nat} {e : α} (h : l[j]? = some e) :
    l.Perm (e :: l.eraseIdx j) := by
  obtain ⟨hj, rfl⟩ := List.getElem?_eq_some_iff.mp h
  rw [List.eraseIdx_eq_take_drop_succ]
  have : l = l.take j ++ l[j] :: l.drop (j + 1) := by
    rw [List.getElem_cons_drop hj, List.take_append_drop]
  exact (List.Perm.of_eq this).trans List.perm_middle

theorem mem_eraseIdx_of_ne {α : Type} {l : List α} {j : Nat} {e x : α} (h : l[j]? = some e)
    (hx : x ∈ l) (hne : x ≠ e) : x ∈ l.eraseIdx j := by
  have := (perm_cons_eraseIdx h).mem_iff.mp hx
  rcases List.mem_cons.mp this with rfl | h'
  · exact absurd rfl hne
  · exact h'

theorem mem_of_mem_eraseIdx {α : Type} {l : List α} {j : Nat} {x : α} (hx : x ∈ l.eraseIdx j) :
    x ∈ l := (List.eraseIdx_sublist l j).mem hx

/-! ## the pick loop -/

@[simp] theorem pickLoop_zero (rem : List (Nat × Rat)) : pickLoop 0 rem = [] := by
  simp [pickLoop]

@[simp] theorem pickLoop_nil (q : Nat) : pickLoop q [] = [] := by
  cases q <;> simp [pickLoop, argmax]

/-- one iteration on a non-empty remainder: the picked row is at the first maximal position -/
theorem pickLoop_succ {rem : List (Nat × Rat)} (hne : rem ≠ []) (q : Nat) :
    ∃ j e, rem[j]? = some e ∧ (∀ x ∈ rem, x.2 ≤ e.2) ∧
      (∀ i, i < j → ∀ x, rem[i]? = some x → x.2 < e.2) ∧
      pickLoop (q + 1) rem = e :: pickLoop q (rem.eraseIdx j) := by
  cases ha : argmax (rem.map (·.2)) with
  | none => exact absurd (List.map_eq_nil_iff.mp (argmax_eq_none.mp ha)) hne
  | some p =>
    obtain ⟨j, v⟩ := p
    obtain ⟨h1, h2, h3⟩ := argmax_spec ha
    rw [List.getElem?_map] at h1
    cases he : rem[j]? with
    | none => rw [he] at h1; simp at h1
    | some e =>
      rw [he] at h1
      simp only [Option.map_some, Option.some.injEq] at h1
      refine ⟨j, e, he, ?_, ?_, ?_⟩
      · intro x hx
        rw [h1]
        exact h2 x.2 (List.mem_map_of_mem hx)
      · intro i hi x hx
        rw [h1]
        exact h3 i hi x.2 (by rw [List.getElem?_map, hx]; rfl)
      · simp only [pickLoop, ha, he]
        rw [← h1]

/-- Everything the loop guarantees about the picked rows as a multiset: together with some `rest`
they are exactly the remainder it started from, they come out in non-increasing order, every pick
is at least as large as everything left, and `min q n` rows are picked. -/
theorem pickLoop_split : ∀ (q : Nat) (rem : List (Nat × Rat)),
    ∃ rest, (pickLoop q rem ++ rest).Perm rem ∧
      (∀ a ∈ pickLoop q rem, ∀ b ∈ rest, b.2 ≤ a.2) ∧
      (pickLoop q rem).Pairwise (fun a b => b.2 ≤ a.2) ∧
      (pickLoop q rem).length = min q rem.length
  | 0, rem => ⟨rem, by simp⟩
  | q + 1, rem => by
    by_cases hne : rem = []
    · subst hne; exact ⟨[], by simp⟩
    · obtain ⟨j, e, hj, hmax, _, heq⟩ := pickLoop_succ hne q
      obtain ⟨rest, hp, hdom, hpw, hlen⟩ := pickLoop_split q (rem.eraseIdx j)
      have hsub : ∀ x, x ∈ pickLoop q (rem.eraseIdx j) ++ rest → x ∈ rem :=
        fun x hx => mem_of_mem_eraseIdx (hp.mem_iff.mp hx)
      refine ⟨rest, ?_, ?_, ?_, ?_⟩
      · rw [heq]
        exact ((hp.cons e).trans (perm_cons_eraseIdx hj).symm)
      · intro a ha b hb
        rw [heq] at ha
        rcases List.mem_cons.mp ha with rfl | ha
        · exact hmax b (hsub b (List.mem_append_right _ hb))
        · exact hdom a ha b hb
      · rw [heq]
        refine List.pairwise_cons.mpr ⟨?_, hpw⟩
        intro a ha
        exact hmax a (hsub a (List.mem_append_left _ ha))
      · have hjl : j < rem.length := (List.getElem?_eq_some_iff.mp hj).1
        rw [heq, List.length_cons, hlen, List.length_eraseIdx, if_pos hjl]
        omega

/-- The values picked by the loop, in pick order, are the first `q` entries of the descending sort
of the values it started from. -/
theorem pickLoop_values (q : Nat) (rem : List (Nat × Rat)) :
    (pickLoop q rem).map (·.2) = (sortDesc (rem.map (·.2))).take q := by
  obtain ⟨rest, hp, hdom, hpw, hlen⟩ := pickLoop_split q rem
  set P := (pickLoop q rem).map (·.2) with hP
  have hperm : (P ++ sortDesc (rest.map (·.2))).Perm (rem.map (·.2)) := by
    have h1 : (P ++ rest.map (·.2)).Perm (rem.map (·.2)) := by
      rw [hP, ← List.map_append]; exact hp.map _
    exact (List.Perm.append_left P (sortDesc_perm _)).trans h1
  have hdesc : (P ++ sortDesc (rest.map (·.2))).Pairwise (· ≥ ·) := by
    refine List.pairwise_append.mpr ⟨?_, sortDesc_pairwise _, ?_⟩
    · rw [hP, List.pairwise_map]; exact hpw
    · intro a ha b hb
      obtain ⟨a', ha', rfl⟩ := List.mem_map.mp ha
      obtain ⟨b', hb', rfl⟩ := List.mem_map.mp ((sortDesc_perm _).mem_iff.mp hb)
      exact hdom a' ha' b' hb'
  have heq : P ++ sortDesc (rest.map (·.2)) = sortDesc (rem.map (·.2)) :=
    eq_of_perm_of_desc hdesc (sortDesc_pairwise _) (hperm.trans (sortDesc_perm _).symm)
  have hPlen : P.length = min q rem.length := by rw [hP, List.length_map, hlen]
  rw [← heq]
  by_cases hq : q ≤ rem.length
  · rw [List.take_left' (by rw [hPlen]; omega)]
  · have hrest : rest = [] := by
      have := hp.length_eq
      rw [List.length_append, hlen] at this
      exact List.eq_nil_of_length_eq_zero (by omega)
    subst hrest
    simp only [List.map_nil, List.insertionSort_nil, List.append_nil]
    rw [List.take_of_length_le (by rw [hPlen]; omega)]

/-- `np.argmax` tie rule along the whole loop: with strictly increasing position tags, the `k`-th
pick is at least as large as every row not picked before it, and among the rows of equal value it
has the smallest position. -/
theorem pickLoop_first : ∀ (q : Nat) (rem : List (Nat × Rat)),
    rem.Pairwise (fun a b => a.1 < b.1) →
    ∀ (k : Nat) (hk : k < (pickLoop q rem).length), ∀ x ∈ rem,
      x.1 ∉ ((pickLoop q rem).take k).map (·.1) →
      x.2 ≤ ((pickLoop q rem)[k]).2 ∧ (x.2 = ((pickLoop q rem)[k]).2 → ((pickLoop q rem)[k]).1 ≤ x.1)
  | 0, rem, _, k, hk, _, _, _ => by simp at hk
  | q + 1, rem, hinc, k, hk, x, hx, hnot => by
    by_cases hne : rem = []
    · subst hne; simp at hx
    · obtain ⟨j, e, hj, hmax, hfirst, heq⟩ := pickLoop_succ hne q
      have hjl := (List.getElem?_eq_some_iff.mp hj)
      cases k with
      | zero =>
        simp only [heq, List.getElem_cons_zero]
        refine ⟨hmax x hx, fun hxe => ?_⟩
        obtain ⟨i, hi⟩ := List.mem_iff_getElem?.mp hx
        have hil := (List.getElem?_eq_some_iff.mp hi)
        by_contra hlt
        have hij : ¬ i < j := fun h => absurd hxe (ne_of_lt (hfirst i h x hi))
        rcases Nat.lt_or_ge j i with h | h
        · have := List.pairwise_iff_getElem.mp hinc j i hjl.1 hil.1 h
          rw [hjl.2, hil.2] at this
          omega
        · have : i = j := by omega
          subst this
          rw [hj] at hi
          simp only [Option.some.injEq] at hi
          subst hi
          omega
      | succ k =>
        have hk' : k < (pickLoop q (rem.eraseIdx j)).length := by
          simp only [heq, List.length_cons] at hk; omega
        simp only [heq, List.take_succ_cons, List.map_cons, List.mem_cons, not_or] at hnot
        have hxe : x ≠ e := fun h => hnot.1 (by rw [h])
        have := pickLoop_first q (rem.eraseIdx j) (hinc.sublist (List.eraseIdx_sublist _ _)) k hk' x
          (mem_eraseIdx_of_ne hj hx hxe) hnot.2
        simpa only [heq, List.getElem_cons_succ] using this

/-! ## `indexed` -/

theorem mem_indexed {vals : List Rat} {p : Nat × Rat} : p ∈ indexed vals ↔ vals[p.1]? = some p.2 := by
  simp only [indexed, List.mem_map]
  constructor
  · rintro ⟨⟨v, i⟩, h, rfl⟩
    simpa [List.mem_zipIdx_iff_getElem?] using h
  · intro h
    exact ⟨(p.2, p.1), by simpa [List.mem_zipIdx_iff_getElem?] using h, rfl⟩

theorem indexed_map_snd (vals : List Rat) : (indexed vals).map (·.2) = vals := by
  simp [indexed, List.map_map, Function.comp_def]

theorem indexed_length (vals : List Rat) : (indexed vals).length = vals.length := by
  simp [indexed]

theorem indexed_getElem? (vals : List Rat) (i : Nat) :
    (indexed vals)[i]? = vals[i]?.map (fun v => (i, v)) := by
  simp [indexed, List.getElem?_map, List.getElem?_zipIdx]
  cases vals[i]? <;> simp

theorem indexed_pairwise (vals : List Rat) : (indexed vals).Pairwise (fun a b => a.1 < b.1) := by
  rw [List.pairwise_iff_getElem]
  intro i j hi hj hij
  have h1 := indexed_getElem? vals i
  have h2 := indexed_getElem? vals j
  rw [List.getElem?_eq_getElem hi] at h1
  rw [List.getElem?_eq_getElem hj] at h2
  rw [indexed_length] at hi hj
  rw [List.getElem?_eq_getElem hi] at h1
  rw [List.getElem?_eq_getElem hj] at h2
  simp only [Option.map_some, Option.some.injEq] at h1 h2
  rw [h1, h2]
  exact hij

theorem indexed_nodup (vals : List Rat) : (indexed vals).Nodup := by
  refine (indexed_pairwise vals).imp ?_
  intro a b h hab
  rw [hab] at h
  exact lt_irrefl _ h

end VOPy.Acq
