import Mathlib.MeasureTheory.Integral.Bochner.Basic
import Mathlib.Data.Matrix.Mul
/-! Helper lemmas for C20: the covariance of `ω ↦ X ω ᵥ* M` for a random vector `X` with identity
second moment, on an arbitrary measure space. -/
namespace VOPy.Problem
open MeasureTheory Matrix

variable {Ω : Type} [MeasurableSpace Ω] {d m : Nat}

theorem vecMul_mul_vecMul (v : Fin d → ℝ) (M : Matrix (Fin d) (Fin m) ℝ) (a b : Fin m) :
    (v ᵥ* M) a * (v ᵥ* M) b = ∑ i, ∑ j, (v i * v j) * (M i a * M j b) := by
  simp only [vecMul, dotProduct, Finset.sum_mul_sum]
  apply Finset.sum_congr rfl; intro i _
  apply Finset.sum_congr rfl; intro j _
  ring

theorem integral_vecMul_mul_vecMul (μ : Measure Ω) (X : Ω → Fin d → ℝ)
    (M : Matrix (Fin d) (Fin m) ℝ)
    (hint : ∀ i j, Integrable (fun ω => X ω i * X ω j) μ)
    (h2 : ∀ i j, ∫ ω, X ω i * X ω j ∂μ = if i = j then 1 else 0) (a b : Fin m) :
    ∫ ω, (X ω ᵥ* M) a * (X ω ᵥ* M) b ∂μ = (Mᵀ * M) a b := by
  simp only [vecMul_mul_vecMul]
  rw [integral_finsetSum _ (fun i _ => integrable_finsetSum _ (fun j _ => (hint i j).mul_const _))]
  simp only [integral_finsetSum _ (fun j _ => (hint _ j).mul_const _), integral_mul_const, h2]
  simp [Matrix.mul_apply]

theorem integrable_vecMul (μ : Measure Ω) (X : Ω → Fin d → ℝ) (M : Matrix (Fin d) (Fin m) ℝ)
    (hint : ∀ i, Integrable (fun ω => X ω i) μ) (a : Fin m) :
    Integrable (fun ω => (X ω ᵥ* M) a) μ := by
  simp only [vecMul, dotProduct]
  exact integrable_finsetSum _ (fun i _ => (hint i).mul_const _)

theorem integral_vecMul (μ : Measure Ω) (X : Ω → Fin d → ℝ) (M : Matrix (Fin d) (Fin m) ℝ)
    (hint : ∀ i, Integrable (fun ω => X ω i) μ) (h1 : ∀ i, ∫ ω, X ω i ∂μ = 0) (a : Fin m) :
    ∫ ω, (X ω ᵥ* M) a ∂μ = 0 := by
  simp only [vecMul, dotProduct]
  rw [integral_finsetSum _ (fun i _ => (hint i).mul_const _)]
  simp [integral_mul_const, h1]

end VOPy.Problem
