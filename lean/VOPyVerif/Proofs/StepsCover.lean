import VOPyVerif.Proofs.StepsAuer
import VOPyVerif.Props.C10
/-! Executable "is covered" oracles for C03's end-to-end theorems, and their semantics through the
decision theorems of C10 (`rect_isCovered_iff`, `ball_isCovered_iff`). -/
namespace VOPy.Steps
open VOPy VOPy.Covered

/-- the oracle `isCov i j` as the code computes it for rectangles: the exact model of
`RectangularConfidenceRegion.is_covered(order, R_i, R_j, slack)` answers `1` -/
def rectCov (W : Mat) (L U : Nat → Vec) (slack : Vec) : Rel :=
  fun i j => decide (rectIsCovered W (L i) (U i) (L j) (U j) slack = some .yes)

/-- the oracle `isCov i j` for balls (`Σ = I`, PaVeBa): the exact model of
`EllipsoidalConfidenceRegion.is_covered` answers `1` -/
def ballCov (W : Mat) (c : Nat → Vec) (a : Nat → Rat) (slack : Vec) : Rel :=
  fun i j => decide (ballIsCovered W (c i) (a i) (c j) (a j) slack = some .yes)

/-- C10 discharges the bridge for rectangles: for well-formed data (`m` objectives, cone matrix with
`m` columns) and an admissible slack (`expandSlack m slack = some s`: scalar broadcast or
`m`-vector) the oracle is `Coverable` over `ℝ`. -/
theorem rectCov_iff (W : Mat) (L U : Nat → Vec) (slack s : Vec) (m : Nat)
    (hL : ∀ k, (L k).length = m) (hU : ∀ k, (U k).length = m) (hm : ncols W = m)
    (hW : ∀ w ∈ W, w.length = m) (hs : expandSlack m slack = some s) (i j : Nat) :
    rectCov W L U slack i j = true ↔
      VOPy.C10.Coverable (box (L i) (U i)) (box (L j) (U j)) W s := by
  have h := (VOPy.C10.rect_isCovered_iff W (L i) (U i) (L j) (U j) slack
    (by rw [hU, hL]) (by rw [hL, hL]) (by rw [hU, hL]) (by rw [hm, hL])
    (by intro w hw; rw [hW w hw, hL])).1
  simp only [rectCov, decide_eq_true_eq]
  rw [h, hL i, hs]
  simp

/-- C10 discharges the bridge for balls: radii `≥ 0`, per-facet slack
(`expandSlack N slack = some t`, `N` = number of facets). -/
theorem ballCov_iff (W : Mat) (c : Nat → Vec) (a : Nat → Rat) (slack t : Vec) (m : Nat)
    (hc : ∀ k, (c k).length = m) (ha : ∀ k, 0 ≤ a k) (hW : ∀ w ∈ W, w.length = m)
    (hs : expandSlack W.length slack = some t) (i j : Nat) :
    ballCov W c a slack i j = true ↔
      VOPy.C10.CoverableFacet (ball (c i) (a i)) (ball (c j) (a j)) W t := by
  have h := (VOPy.C10.ball_isCovered_iff W (c i) (c j) slack (a i) (a j) (ha i) (ha j)
    (by rw [hc, hc]) (by intro w hw; rw [hW w hw, hc])).1
  simp only [ballCov, decide_eq_true_eq]
  rw [h, hs]
  simp

end VOPy.Steps
