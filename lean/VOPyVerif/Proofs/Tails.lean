import Mathlib.Probability.Distributions.Gaussian.Real
import Mathlib.Analysis.SpecialFunctions.Gaussian.GaussianIntegral
import Mathlib.MeasureTheory.Integral.Pi
/-!
# Gaussian and χ²-type tail bounds used by C04 (helper lemmas)

* `std_upper_tail`      : `P(Z > c) ≤ exp(-c²/2)/2` for the standard normal, `c ≥ 0` (sharp constant)
* `gauss_two_sided`     : `P(|X - μ| > c √v) ≤ exp(-c²/2)` for `X ~ N(μ, v)`, `c ≥ 0`
* `chi2_tail_var`       : `P(Σ zᵢ² > x) ≤ (√2)^m exp(-x/(4 s))` for `m` i.i.d. `N(0, s)` coordinates
-/
namespace VOPy.Tails
open MeasureTheory ProbabilityTheory Real Set
open scoped NNReal ENNReal

lemma pdf_le (c x : ℝ) (hc : 0 ≤ c) (hx : c ≤ x) :
    gaussianPDFReal 0 1 x ≤ rexp (-c^2/2) * gaussianPDFReal c 1 x := by
  simp only [gaussianPDFReal, NNReal.coe_one, mul_one, sub_zero]
  have h : rexp (-c^2/2) * ((√(2 * π))⁻¹ * rexp (-(x - c) ^ 2 / 2))
      = (√(2 * π))⁻¹ * rexp (-c^2/2 + -(x - c) ^ 2 / 2) := by
    rw [Real.exp_add]; ring
  rw [h]
  apply mul_le_mul_of_nonneg_left _ (by positivity)
  apply Real.exp_le_exp.mpr
  nlinarith [mul_nonneg hc (sub_nonneg.mpr hx)]

lemma std_Iio_eq_Ioi (c : ℝ) :
    (gaussianReal 0 1) (Iio (-c)) = (gaussianReal 0 1) (Ioi c) := by
  have h := gaussianReal_map_neg (μ := 0) (v := 1)
  rw [neg_zero] at h
  conv_lhs => rw [← h]
  rw [Measure.map_apply (by fun_prop) measurableSet_Iio]
  congr 1
  ext x; simp

lemma std_Ioi_zero : (gaussianReal 0 1) (Ioi (0:ℝ)) = 2⁻¹ := by
  have hneg : (gaussianReal 0 1) (Iio (0:ℝ)) = (gaussianReal 0 1) (Ioi (0:ℝ)) := by
    simpa using std_Iio_eq_Ioi 0
  have htot : (gaussianReal 0 1) (Iio (0:ℝ)) + (gaussianReal 0 1) (Ici (0:ℝ)) = 1 := by
    rw [← measure_union (by
      rw [Set.disjoint_left]; intro x hx hx'; simp at hx hx'; linarith) measurableSet_Ici]
    rw [Iio_union_Ici]; simp
  have : NullSingletonClass (gaussianReal 0 (1:ℝ≥0)) := nullSingletonClass_gaussianReal (by norm_num)
  have hIci : (gaussianReal 0 1) (Ici (0:ℝ)) = (gaussianReal 0 1) (Ioi (0:ℝ)) :=
    measure_congr Ioi_ae_eq_Ici.symm
  rw [hneg, hIci] at htot
  have h2 : (2:ℝ≥0∞) * (gaussianReal 0 1) (Ioi (0:ℝ)) = 1 := by rw [two_mul]; exact htot
  exact ENNReal.eq_inv_of_mul_eq_one_left (by rw [mul_comm]; exact h2)

/-- Sharp one-sided bound `Q(c) ≤ exp(-c²/2)/2` for the standard normal. -/
theorem std_upper_tail (c : ℝ) (hc : 0 ≤ c) :
    (gaussianReal 0 1) (Ioi c) ≤ ENNReal.ofReal (rexp (-c^2/2) / 2) := by
  have h1 : (1:ℝ≥0) ≠ 0 := one_ne_zero
  rw [gaussianReal_apply_eq_integral 0 h1]
  apply ENNReal.ofReal_le_ofReal
  calc ∫ x in Ioi c, gaussianPDFReal 0 1 x
      ≤ ∫ x in Ioi c, rexp (-c^2/2) * gaussianPDFReal c 1 x := by
        apply setIntegral_mono_on
        · exact (integrable_gaussianPDFReal 0 1).integrableOn
        · exact ((integrable_gaussianPDFReal c 1).const_mul _).integrableOn
        · exact measurableSet_Ioi
        · intro x hx; exact pdf_le c x hc (le_of_lt hx)
    _ = rexp (-c^2/2) * ∫ x in Ioi c, gaussianPDFReal c 1 x := by
        rw [integral_const_mul]
    _ = rexp (-c^2/2) / 2 := by
        have h3 : (gaussianReal c 1) (Ioi c) = 2⁻¹ := by
          have hm := gaussianReal_map_add_const (μ := 0) (v := 1) c
          rw [zero_add] at hm
          rw [← hm, Measure.map_apply (by fun_prop) measurableSet_Ioi]
          have : (fun x : ℝ => x + c) ⁻¹' Ioi c = Ioi 0 := by ext x; simp
          rw [this, std_Ioi_zero]
        rw [gaussianReal_apply_eq_integral c h1] at h3
        have h4 : ∫ x in Ioi c, gaussianPDFReal c 1 x = 1/2 := by
          have hnn : 0 ≤ ∫ x in Ioi c, gaussianPDFReal c 1 x :=
            setIntegral_nonneg measurableSet_Ioi (fun x _ => gaussianPDFReal_nonneg _ _ _)
          have := congrArg ENNReal.toReal h3
          rw [ENNReal.toReal_ofReal hnn] at this
          rw [this]; simp
        rw [h4]; ring

/-- Two-sided bound for the standard normal: `P(|Z| > c) ≤ exp(-c²/2)`, `c ≥ 0`. -/
theorem std_two_sided (c : ℝ) (hc : 0 ≤ c) :
    (gaussianReal 0 1) {x | c < |x|} ≤ ENNReal.ofReal (rexp (-c^2/2)) := by
  have hset : {x : ℝ | c < |x|} = Iio (-c) ∪ Ioi c := by
    ext x; simp only [mem_ofPred_eq, mem_union, mem_Iio, mem_Ioi, lt_abs]
    constructor
    · rintro (h | h)
      · right; exact h
      · left; linarith
    · rintro (h | h)
      · right; linarith
      · left; exact h
  rw [hset]
  calc (gaussianReal 0 1) (Iio (-c) ∪ Ioi c)
      ≤ (gaussianReal 0 1) (Iio (-c)) + (gaussianReal 0 1) (Ioi c) := measure_union_le _ _
    _ = (gaussianReal 0 1) (Ioi c) + (gaussianReal 0 1) (Ioi c) := by rw [std_Iio_eq_Ioi]
    _ ≤ ENNReal.ofReal (rexp (-c^2/2) / 2) + ENNReal.ofReal (rexp (-c^2/2) / 2) :=
        add_le_add (std_upper_tail c hc) (std_upper_tail c hc)
    _ = ENNReal.ofReal (rexp (-c^2/2)) := by
        rw [← ENNReal.ofReal_add (by positivity) (by positivity)]; congr 1; ring

/-- every real Gaussian is an affine image of the standard one -/
lemma gaussianReal_eq_map_std (μ : ℝ) (v : ℝ≥0) :
    gaussianReal μ v = (gaussianReal 0 1).map (fun x => √(v:ℝ) * x + μ) := by
  have h1 := gaussianReal_map_const_mul (μ := 0) (v := 1) (√(v:ℝ))
  have h2 := gaussianReal_map_add_const (μ := √(v:ℝ) * 0)
    (v := (.mk (√(v:ℝ) ^ 2) (sq_nonneg _) * 1 : ℝ≥0)) μ
  rw [← h1, Measure.map_map (by fun_prop) (by fun_prop)] at h2
  have hv : (.mk (√(v:ℝ) ^ 2) (sq_nonneg _) * 1 : ℝ≥0) = v := by
    ext; simp [Real.sq_sqrt]
  rw [hv, mul_zero, zero_add] at h2
  rw [← h2]; rfl

/-- **Two-sided Gaussian tail, general mean and variance** (sharp constant): for `X ~ N(μ, v)` and
`c ≥ 0`, `P(|X - μ| > c·√v) ≤ exp(-c²/2)`. -/
theorem gauss_two_sided (μ : ℝ) (v : ℝ≥0) (c : ℝ) (hc : 0 ≤ c) :
    (gaussianReal μ v).real {x | c * √(v:ℝ) < |x - μ|} ≤ rexp (-c^2/2) := by
  have hmeas : MeasurableSet {x : ℝ | c * √(v:ℝ) < |x - μ|} :=
    measurableSet_lt measurable_const (by fun_prop)
  by_cases hv : v = 0
  · subst hv
    simp only [NNReal.coe_zero, Real.sqrt_zero, mul_zero] at hmeas
    simp only [gaussianReal_zero_var, NNReal.coe_zero, Real.sqrt_zero, mul_zero, measureReal_def]
    rw [Measure.dirac_apply' _ hmeas]
    simp [Real.exp_nonneg]
  · have hpos : 0 < √(v:ℝ) := Real.sqrt_pos.mpr (by positivity)
    rw [measureReal_def, gaussianReal_eq_map_std μ v, Measure.map_apply (by fun_prop) hmeas]
    have hpre : (fun x => √(v:ℝ) * x + μ) ⁻¹' {x | c * √(v:ℝ) < |x - μ|} = {x | c < |x|} := by
      ext x
      simp only [mem_preimage, mem_ofPred_eq, add_sub_cancel_right, abs_mul, abs_of_pos hpos]
      rw [mul_comm c, mul_lt_mul_iff_right₀ hpos]
    rw [hpre]
    have h := std_two_sided c hc
    have := ENNReal.toReal_mono ENNReal.ofReal_ne_top h
    rwa [ENNReal.toReal_ofReal (Real.exp_nonneg _)] at this

/-! ### χ²-type tail -/

/-- `E[exp(Z²/4)] = √2` for `Z ~ N(0,1)`. -/
lemma integral_exp_sq_quarter :
    ∫ x, rexp (x^2/4) ∂(gaussianReal 0 1) = √2 := by
  rw [integral_gaussianReal_eq_integral_smul (by norm_num : (1:ℝ≥0) ≠ 0)]
  have h : ∀ x : ℝ, gaussianPDFReal 0 1 x • rexp (x^2/4) = (√(2*π))⁻¹ * rexp (-(1/4) * x^2) := by
    intro x
    simp only [gaussianPDFReal, NNReal.coe_one, mul_one, sub_zero, smul_eq_mul]
    rw [mul_assoc, ← Real.exp_add]; congr 2; ring
  simp_rw [h]
  rw [integral_const_mul, integral_gaussian]
  have h4 : √(2 * 2 * π) = 2 * √π := by
    rw [Real.sqrt_mul (by norm_num), Real.sqrt_mul_self (by norm_num)]
  have h22 : √2 * √2 = 2 := Real.mul_self_sqrt (by norm_num)
  have hs2 : √2 ≠ 0 := by positivity
  have hsp : √π ≠ 0 := by positivity
  rw [show π / (1/4) = 2 * 2 * π by ring, h4, Real.sqrt_mul (by norm_num : (0:ℝ) ≤ 2)]
  field_simp
  linarith [h22]

lemma integrable_exp_sq_quarter :
    Integrable (fun x : ℝ => rexp (x^2/4)) (gaussianReal 0 1) := by
  by_contra h
  have := integral_undef h
  rw [integral_exp_sq_quarter] at this
  have : (0:ℝ) < √2 := by positivity
  linarith

/-- χ²-type tail for the standard Gaussian product measure on `Fin m → ℝ`:
`P(Σ zᵢ² > x) ≤ (√2)^m · exp(-x/4)`. -/
theorem chi2_tail_std (m : ℕ) (x : ℝ) :
    (Measure.pi (fun _ : Fin m => gaussianReal 0 1)).real {z | x < ∑ i, (z i)^2}
      ≤ (√2)^m * rexp (-x/4) := by
  set μ := Measure.pi (fun _ : Fin m => gaussianReal 0 1) with hμ
  set f : (Fin m → ℝ) → ℝ := fun z => ∏ i, rexp ((z i)^2/4) with hf
  have hf_eq : ∀ z, f z = rexp ((∑ i, (z i)^2)/4) := by
    intro z; simp only [hf]; rw [← Real.exp_sum]; congr 1; rw [Finset.sum_div]
  have hint : Integrable f μ :=
    Integrable.fintype_prod (f := fun _ x => rexp (x^2/4)) (fun _ => integrable_exp_sq_quarter)
  have hval : ∫ z, f z ∂μ = (√2)^m := by
    have := integral_fintype_prod_eq_pow (ι := Fin m) (fun x : ℝ => rexp (x^2/4)) (μ := gaussianReal 0 1)
    simp only [hf, hμ]
    rw [this, integral_exp_sq_quarter]; simp
  have hsub : {z : Fin m → ℝ | x < ∑ i, (z i)^2} ⊆ {z | rexp (x/4) ≤ f z} := by
    intro z hz; simp only [Set.mem_ofPred_eq] at hz ⊢
    rw [hf_eq]; apply Real.exp_le_exp.mpr; linarith
  have hmarkov := mul_meas_ge_le_integral_of_nonneg (μ := μ) (f := f)
    (ae_of_all _ (fun z => by simp only [hf]; positivity)) hint (rexp (x/4))
  have hpos : 0 < rexp (x/4) := Real.exp_pos _
  calc μ.real {z | x < ∑ i, (z i)^2}
      ≤ μ.real {z | rexp (x/4) ≤ f z} := measureReal_mono hsub
    _ ≤ (∫ z, f z ∂μ) / rexp (x/4) := by
        rw [le_div_iff₀ hpos, mul_comm]; exact hmarkov
    _ = (√2)^m * rexp (-x/4) := by
        rw [hval, div_eq_mul_inv, ← Real.exp_neg]; congr 2; ring

/-- χ²-type tail for `m` i.i.d. `N(0, s)` coordinates (`s ≠ 0`):
`P(Σ zᵢ² > x) ≤ (√2)^m · exp(-x/(4 s))`. -/
theorem chi2_tail_var (m : ℕ) (s : ℝ≥0) (hs : s ≠ 0) (x : ℝ) :
    (Measure.pi (fun _ : Fin m => gaussianReal 0 s)).real {z | x < ∑ i, (z i)^2}
      ≤ (√2)^m * rexp (-x/(4*s)) := by
  have hpos : 0 < (s:ℝ) := by positivity
  have hmeas : MeasurableSet {z : Fin m → ℝ | x < ∑ i, (z i)^2} :=
    measurableSet_lt measurable_const (by fun_prop)
  have hpi : Measure.pi (fun _ : Fin m => gaussianReal 0 s)
      = (Measure.pi (fun _ : Fin m => gaussianReal 0 1)).map (fun z i => √(s:ℝ) * z i + 0) := by
    have h := Measure.pi_map_pi (μ := fun _ : Fin m => gaussianReal 0 1)
      (f := fun _ (y : ℝ) => √(s:ℝ) * y + 0) (fun i => by fun_prop)
    rw [h]
    congr; funext i; exact gaussianReal_eq_map_std 0 s
  rw [measureReal_def, hpi, Measure.map_apply (by fun_prop) hmeas]
  have hpre : (fun (z : Fin m → ℝ) i => √(s:ℝ) * z i + 0) ⁻¹' {z | x < ∑ i, (z i)^2}
      = {z | x / s < ∑ i, (z i)^2} := by
    ext z
    simp only [mem_preimage, mem_ofPred_eq, add_zero, mul_pow, Real.sq_sqrt hpos.le]
    rw [← Finset.mul_sum, div_lt_iff₀' hpos]
  rw [hpre, ← measureReal_def]
  have := chi2_tail_std m (x / s)
  convert this using 3
  field_simp

end VOPy.Tails
