import VOPyVerif.Proofs.AdaptiveAlgo
/-!
# Design-space operation sequences (`Space.runOps`) and sequences of `run_one_step` (`Algo.steps`)
— helper lemmas for C18
-/
set_option linter.unusedSectionVars false
namespace VOPy.Adaptive

variable {K : Type*} [Field K] [LinearOrder K] [IsStrictOrderedRing K]

theorem shouldRefine_true {s : Space} {i : Nat} {vh : Bool} (h : s.shouldRefine i vh = some true) :
    ∃ p, s.nodes[i]? = some p ∧ p.depth < s.maxDepth ∧ vh = true := by
  unfold Space.shouldRefine at h
  split at h
  · simp at h
  · rename_i p hp
    refine ⟨p, hp, ?_⟩
    by_cases hd : p.depth ≥ s.maxDepth
    · simp [hd] at h
    · simp only [hd, if_false, Option.some.injEq] at h
      exact ⟨Nat.lt_of_not_ge hd, h⟩

/-- one design-space operation preserves well-formedness, the tiling and (if guarded) the depth bound -/
theorem applyOp_inv {d : Nat} {s s' : Space} {op : SOp} {ans : Option Bool}
    (hwf : s.WF d) (ht : s.Tiles K d) (hleaf : s.leafOnly [op] = true)
    (h : s.applyOp op = some (s', ans)) :
    s'.WF d ∧ s'.Tiles K d ∧ (op.isGuarded = true → s.DepthOk → s'.DepthOk) ∧
      s'.maxDepth = s.maxDepth := by
  cases op with
  | refine i =>
    simp only [Space.applyOp, Option.map_eq_some_iff] at h
    obtain ⟨⟨s1, ch⟩, hr, heq⟩ := h
    simp only [Prod.mk.injEq] at heq
    obtain ⟨rfl, _⟩ := heq
    have hl : s.isLeaf i = true := by
      simp only [Space.leafOnly, Bool.and_eq_true] at hleaf
      exact hleaf.1
    obtain ⟨p, hp, hs, _⟩ := Space.refine_eq hr
    exact ⟨refine_wf hwf hr, refine_tiles hwf ht hl hr, fun hg => by simp [SOp.isGuarded] at hg,
      (refine_nodes hp hs).2.2⟩
  | guarded i vh =>
    simp only [Space.applyOp] at h
    cases hsr : s.shouldRefine i vh with
    | none => simp [hsr] at h
    | some b =>
      cases b with
      | false =>
        simp only [hsr, Option.some.injEq, Prod.mk.injEq] at h
        obtain ⟨rfl, _⟩ := h
        exact ⟨hwf, ht, fun _ hd => hd, rfl⟩
      | true =>
        simp only [hsr, Option.map_eq_some_iff] at h
        obtain ⟨⟨s1, ch⟩, hr, heq⟩ := h
        simp only [Prod.mk.injEq] at heq
        obtain ⟨rfl, _⟩ := heq
        have hl : s.isLeaf i = true := by
          simp only [Space.leafOnly, hsr, Bool.and_eq_true, Bool.or_eq_true] at hleaf
          rcases hleaf.1 with h1 | h1
          · simp at h1
          · exact h1
        obtain ⟨p, hp, hlt, _⟩ := shouldRefine_true hsr
        obtain ⟨p', hp', hs, _⟩ := Space.refine_eq hr
        exact ⟨refine_wf hwf hr, refine_tiles hwf ht hl hr,
          fun _ hd => refine_depthOk hd hp hlt hr, (refine_nodes hp' hs).2.2⟩
  | setRegion i lo up =>
    simp only [Space.applyOp, Option.map_eq_some_iff] at h
    obtain ⟨s1, hr, heq⟩ := h
    simp only [Prod.mk.injEq] at heq
    obtain ⟨rfl, _⟩ := heq
    exact ⟨setRegion_wf hwf hr, setRegion_tiles ht hr, fun _ hd => setRegion_depthOk hd hr,
      (setRegion_facts hr).2.1⟩

theorem leafOnly_cons {s s' : Space} {op : SOp} {ops : List SOp} {ans : Option Bool}
    (h : s.leafOnly (op :: ops) = true) (ha : s.applyOp op = some (s', ans)) :
    s.leafOnly [op] = true ∧ s'.leafOnly ops = true := by
  simp only [Space.leafOnly, ha, Bool.and_eq_true] at h ⊢
  exact ⟨⟨h.1, trivial⟩, h.2⟩

theorem runOps_inv {d : Nat} : ∀ (ops : List SOp) {s s' : Space} {ans : List Bool},
    s.WF d → s.Tiles K d → s.leafOnly ops = true → s.runOps ops = some (s', ans) →
    s'.WF d ∧ s'.Tiles K d ∧ (ops.all SOp.isGuarded = true → s.DepthOk → s'.DepthOk) ∧
      s'.maxDepth = s.maxDepth
  | [], s, s', ans, hwf, ht, _, h => by
      simp only [Space.runOps, Option.some.injEq, Prod.mk.injEq] at h
      obtain ⟨rfl, _⟩ := h
      exact ⟨hwf, ht, fun _ hd => hd, rfl⟩
  | op :: ops, s, s', ans, hwf, ht, hl, h => by
      simp only [Space.runOps] at h
      cases ha : s.applyOp op with
      | none => simp [ha] at h
      | some r =>
        obtain ⟨s1, a1⟩ := r
        simp only [ha] at h
        cases hr : s1.runOps ops with
        | none => simp [hr] at h
        | some r2 =>
          obtain ⟨s2, l2⟩ := r2
          simp only [hr, Option.some.injEq, Prod.mk.injEq] at h
          obtain ⟨rfl, _⟩ := h
          obtain ⟨hl1, hl2⟩ := leafOnly_cons hl ha
          obtain ⟨hwf1, ht1, hd1, hm1⟩ := applyOp_inv hwf ht hl1 ha
          obtain ⟨hwf2, ht2, hd2, hm2⟩ := runOps_inv ops hwf1 ht1 hl2 hr
          refine ⟨hwf2, ht2, ?_, hm2.trans hm1⟩
          intro hg hd
          simp only [List.all_cons, Bool.and_eq_true] at hg
          exact hd2 hg.2 (hd1 hg.1 hd)

/-! ## `Algo.steps` is a special case of `Algo.run` -/

theorem run_append : ∀ (ops1 ops2 : List Op) (a : Algo),
    a.run (ops1 ++ ops2) = (a.run ops1).bind (fun a' => a'.run ops2)
  | [], ops2, a => by simp [Algo.run]
  | op :: ops1, ops2, a => by
      simp only [List.cons_append, Algo.run]
      cases a.apply op with
      | none => simp
      | some a1 => simp [run_append ops1 ops2 a1]

theorem step_is_run {a a' : Algo} {i : StepIn} (h : a.step i = some a') :
    ∃ ops, a.run ops = some a' := by
  unfold Algo.step at h
  split at h
  · simp only [Option.some.injEq] at h
    exact ⟨[], by simp [Algo.run, h]⟩
  · cases h3 : a.run [.update i.regs, .discard i.D, .cover i.N] with
    | none => simp [h3] at h
    | some a3 =>
      simp only [h3] at h
      split at h
      · refine ⟨[.update i.regs, .discard i.D, .cover i.N] ++ [.endRound], ?_⟩
        rw [run_append, h3]
        simp only [Option.bind_some, Algo.run, h]
      · refine ⟨[.update i.regs, .discard i.D, .cover i.N] ++ [.evalRefine i.cand i.vh, .endRound], ?_⟩
        rw [run_append, h3]
        simpa using h

theorem steps_is_run : ∀ (ins : List StepIn) {a a' : Algo}, a.steps ins = some a' →
    ∃ ops, a.run ops = some a'
  | [], a, a', h => by
      simp only [Algo.steps, Option.some.injEq] at h
      exact ⟨[], by simp [Algo.run, h]⟩
  | i :: ins, a, a', h => by
      simp only [Algo.steps] at h
      cases h1 : a.step i with
      | none => simp [h1] at h
      | some a1 =>
        simp only [h1] at h
        obtain ⟨ops1, ho1⟩ := step_is_run h1
        obtain ⟨ops2, ho2⟩ := steps_is_run ins h
        exact ⟨ops1 ++ ops2, by rw [run_append, ho1]; simpa using ho2⟩

end VOPy.Adaptive
