import Mathlib.Probability.Distributions.Gaussian.Real
import Mathlib.Probability.Independence.Basic
/-!
# C04 helper lemma: the mean of `n` independent `N(f, v)` samples is `N(f, v/n)`

Discharges, for the scalar (per-objective) case, the modelling assumption "a design sampled `n` times
with Gaussian noise of variance `v` has an empirical mean with law `N(f, v/n)`".
-/
namespace VOPy.SchedR
open MeasureTheory ProbabilityTheory
open scoped NNReal

variable {Ω : Type*} [MeasurableSpace Ω]

lemma sum_gaussian (P : Measure Ω) [IsProbabilityMeasure P] (Y : ℕ → Ω → ℝ)
    (hm : ∀ k, Measurable (Y k)) (hind : iIndepFun Y P) (f : ℝ) (v : ℝ≥0)
    (hY : ∀ k, P.map (Y k) = gaussianReal f v) :
    ∀ n : ℕ, P.map (∑ k ∈ Finset.range n, Y k) = gaussianReal (n * f) (n * v) := by
  intro n
  induction n with
  | zero =>
    simp only [Finset.range_zero, Finset.sum_empty, Nat.cast_zero, zero_mul,
      gaussianReal_zero_var]
    change P.map (fun _ => (0:ℝ)) = _
    rw [Measure.map_const]; simp
  | succ n ih =>
    rw [Finset.sum_range_succ]
    have hi : IndepFun (∑ k ∈ Finset.range n, Y k) (Y n) P :=
      hind.indepFun_finsetSum_of_notMem hm Finset.notMem_range_self
    rw [gaussianReal_add_gaussianReal_of_indepFun hi ih (hY n)]
    congr 1
    · push_cast; ring
    · push_cast; ring

/-- the empirical mean of `n ≥ 1` independent `N(f, v)` samples has law `N(f, v/n)` -/
lemma sample_mean_gaussian (P : Measure Ω) [IsProbabilityMeasure P] (Y : ℕ → Ω → ℝ)
    (hm : ∀ k, Measurable (Y k)) (hind : iIndepFun Y P) (f : ℝ) (v : ℝ≥0)
    (hY : ∀ k, P.map (Y k) = gaussianReal f v) (n : ℕ) (hn : 0 < n) :
    P.map (fun ω => (∑ k ∈ Finset.range n, Y k ω) / n) = gaussianReal f (v / n) := by
  have hs := sum_gaussian P Y hm hind f v hY n
  have hmeas : Measurable (∑ k ∈ Finset.range n, Y k) := by
    have h : Measurable (fun ω => ∑ k ∈ Finset.range n, Y k ω) :=
      Finset.measurable_sum _ (fun k _ => hm k)
    convert h using 1
    ext ω; simp
  have hcomp : (fun ω => (∑ k ∈ Finset.range n, Y k ω) / n)
      = (fun x : ℝ => x / n) ∘ (∑ k ∈ Finset.range n, Y k) := by
    ext ω; simp
  rw [hcomp, ← Measure.map_map (by fun_prop) hmeas, hs, gaussianReal_map_div_const]
  have hn' : (n:ℝ) ≠ 0 := by positivity
  congr 1
  · field_simp
  · ext; push_cast; field_simp

end VOPy.SchedR
