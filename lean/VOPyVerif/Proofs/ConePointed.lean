import VOPyVerif.Proofs.ConeVec
/-!
# Helper lemmas for C12: the bundled cones are pointed (`ker W = 0`)
-/
namespace VOPy.ConeFormulas
open VOPy VOPy.ConeOrd Real

theorem list_len2 {α : Type} (x : List α) (h : x.length = 2) : ∃ a b, x = [a, b] := by
  match x, h with
  | [a, b], _ => exact ⟨a, b, rfl⟩

theorem list_len3 {α : Type} (x : List α) (h : x.length = 3) : ∃ a b c, x = [a, b, c] := by
  match x, h with
  | [a, b, c], _ => exact ⟨a, b, c, rfl⟩

/-- kernel of the closed-form θ-cone matrix is trivial for `0 < θ < 180` -/
theorem theta2D_kernel (θdeg : ℝ) (h0 : 0 < θdeg) (h180 : θdeg < 180) (x : List ℝ) (hx : x.length = 2)
    (hk : ∀ w ∈ get2dWClosed θdeg, gdot w x = 0) : x = List.replicate 2 0 := by
  obtain ⟨x1, x2, rfl⟩ := list_len2 x hx
  have hπ := Real.pi_pos
  have hh0 : 0 < (θdeg / 180 * π) / 2 := by positivity
  have hh2 : (θdeg / 180 * π) / 2 < π / 2 := by
    have : θdeg / 180 < 1 := by linarith
    nlinarith
  have hc : 0 < cos ((θdeg / 180 * π) / 2) := Real.cos_pos_of_mem_Ioo ⟨by linarith, hh2⟩
  have hs : 0 < sin ((θdeg / 180 * π) / 2) := Real.sin_pos_of_pos_of_lt_pi hh0 (by linarith)
  rw [get2dWClosed_real] at hk
  have k1 := hk _ (List.mem_cons_self ..)
  have k2 := hk _ (List.mem_cons_of_mem _ (List.mem_cons_self ..))
  rw [facet1_vec] at k1
  rw [facet2_vec] at k2
  have hu : sin ((θdeg / 180 * π) / 2) * (√2 / 2 * (x1 + x2)) = 0 := by linarith
  have hv : cos ((θdeg / 180 * π) / 2) * (√2 / 2 * (x2 - x1)) = 0 := by linarith
  have hq : 0 < √2 / 2 := by have := sqrt2_pos; positivity
  have hu' : x1 + x2 = 0 := by
    rcases mul_eq_zero.mp hu with h | h
    · exact absurd h hs.ne'
    · rcases mul_eq_zero.mp h with h | h
      · exact absurd h hq.ne'
      · exact h
  have hv' : x2 - x1 = 0 := by
    rcases mul_eq_zero.mp hv with h | h
    · exact absurd h hc.ne'
    · rcases mul_eq_zero.mp h with h | h
      · exact absurd h hq.ne'
      · exact h
  have e1 : x1 = 0 := by linarith
  have e2 : x2 = 0 := by linarith
  subst e1 e2
  rfl

/-- kernels of the 3-D cone matrices are trivial -/
theorem cone3D_kernel (k : Kind3D) (x : List ℝ) (hx : x.length = 3)
    (hk : ∀ w ∈ cone3D (α := ℝ) k, gdot w x = 0) : x = List.replicate 3 0 := by
  obtain ⟨x1, x2, x3, rfl⟩ := list_len3 x hx
  have p21 := sqrt21_pos
  have po := sqrt_obtuse_pos
  have hz : ∀ (a s : ℝ), 0 < s → a / s = 0 → a = 0 := by
    intro a s hs h
    rcases div_eq_zero_iff.mp h with h | h
    · exact h
    · exact absurd h hs.ne'
  cases k
  · rw [acute_closed] at hk
    have k1 := hk _ (List.mem_cons_self ..)
    have k2 := hk _ (List.mem_cons_of_mem _ (List.mem_cons_self ..))
    have k3 := hk _ (List.mem_cons_of_mem _ (List.mem_cons_of_mem _ (List.mem_cons_self ..)))
    simp only [gdot_cons, gdot_nil_left, add_zero] at k1 k2 k3
    have g1 := hz (x1 - 2 * x2 + 4 * x3) _ p21 (by rw [← k1]; ring)
    have g2 := hz (4 * x1 + x2 - 2 * x3) _ p21 (by rw [← k2]; ring)
    have g3 := hz (-2 * x1 + 4 * x2 + x3) _ p21 (by rw [← k3]; ring)
    have e1 : x1 = 0 := by linarith
    have e2 : x2 = 0 := by linarith
    have e3 : x3 = 0 := by linarith
    subst e1 e2 e3
    rfl
  · rw [right_closed] at hk
    have k1 := hk _ (List.mem_cons_self ..)
    have k2 := hk _ (List.mem_cons_of_mem _ (List.mem_cons_self ..))
    have k3 := hk _ (List.mem_cons_of_mem _ (List.mem_cons_of_mem _ (List.mem_cons_self ..)))
    simp only [gdot_cons, gdot_nil_left, add_zero] at k1 k2 k3
    have e1 : x1 = 0 := by linarith
    have e2 : x2 = 0 := by linarith
    have e3 : x3 = 0 := by linarith
    subst e1 e2 e3
    rfl
  · rw [obtuse_closed] at hk
    have k1 := hk _ (List.mem_cons_self ..)
    have k2 := hk _ (List.mem_cons_of_mem _ (List.mem_cons_self ..))
    have k3 := hk _ (List.mem_cons_of_mem _ (List.mem_cons_of_mem _ (List.mem_cons_self ..)))
    simp only [gdot_cons, gdot_nil_left, add_zero] at k1 k2 k3
    have g1 := hz (x1 + 2 / 5 * x2 + 8 / 5 * x3) _ po (by rw [← k1]; ring)
    have g2 := hz (8 / 5 * x1 + x2 + 2 / 5 * x3) _ po (by rw [← k2]; ring)
    have g3 := hz (2 / 5 * x1 + 8 / 5 * x2 + x3) _ po (by rw [← k3]; ring)
    have e1 : x1 = 0 := by linarith
    have e2 : x2 = 0 := by linarith
    have e3 : x3 = 0 := by linarith
    subst e1 e2 e3
    rfl

/-- `2π/K ∈ (0, π)` for `K ≥ 3` -/
theorem delta_range (K : Nat) (hK : 3 ≤ K) : 0 < 2 * π / (K : ℝ) ∧ 2 * π / (K : ℝ) < π := by
  have hπ := Real.pi_pos
  have hK' : (3 : ℝ) ≤ K := by exact_mod_cast hK
  have hKpos : (0 : ℝ) < K := by linarith
  constructor
  · positivity
  · rw [div_lt_iff₀ hKpos]; nlinarith

/-- the rotation `rotC` is injective on vectors: `R y = 0 → y = 0` (it preserves norms) -/
theorem rotC_apply_eq_zero (y1 y2 y3 : ℝ) (h : rmatVec rotC [y1, y2, y3] = [0, 0, 0]) :
    y1 = 0 ∧ y2 = 0 ∧ y3 = 0 := by
  have hn := rotC_dot y1 y2 y3 y1 y2 y3
  rw [h] at hn
  simp only [rdot_cons, rdot_nil_left] at hn
  have hsum : y1 * y1 + y2 * y2 + y3 * y3 = 0 := by linarith
  have q1 := mul_self_nonneg y1
  have q2 := mul_self_nonneg y2
  have q3 := mul_self_nonneg y3
  exact ⟨mul_self_eq_zero.mp (by linarith), mul_self_eq_zero.mp (by linarith), mul_self_eq_zero.mp (by linarith)⟩

/-- three consecutive un-rotated facet normals `(c cos(iδ), c sin(iδ), s)`, `i = 0,1,2`, are linearly
independent when `c, s ≠ 0`, `sin δ ≠ 0`, `cos δ ≠ 1` -/
theorem three_normals_independent (c s cd sd y1 y2 y3 : ℝ) (hc : c ≠ 0) (hs : s ≠ 0)
    (hsd : sd ≠ 0) (hcd : cd ≠ 1)
    (e0 : c * y1 + s * y3 = 0)
    (e1 : c * cd * y1 + c * sd * y2 + s * y3 = 0)
    (e2 : c * (2 * cd ^ 2 - 1) * y1 + c * (2 * sd * cd) * y2 + s * y3 = 0) :
    y1 = 0 ∧ y2 = 0 ∧ y3 = 0 := by
  -- subtract e0: (cd − 1) y1 + sd y2 = 0 and (2cd² − 2) y1 + 2 sd cd y2 = 0
  have f1 : (cd - 1) * y1 + sd * y2 = 0 := by
    have : c * ((cd - 1) * y1 + sd * y2) = 0 := by linear_combination e1 - e0
    rcases mul_eq_zero.mp this with h | h
    · exact absurd h hc
    · exact h
  have f2 : (2 * cd ^ 2 - 2) * y1 + 2 * sd * cd * y2 = 0 := by
    have : c * ((2 * cd ^ 2 - 2) * y1 + 2 * sd * cd * y2) = 0 := by linear_combination e2 - e0
    rcases mul_eq_zero.mp this with h | h
    · exact absurd h hc
    · exact h
  -- eliminate y2: 2cd·f1 − f2 = (2cd² − 2cd − 2cd² + 2) y1 = 2 (1 − cd) y1
  have g1 : (1 - cd) * y1 = 0 := by linear_combination cd * f1 - (1 / 2) * f2
  have hy1 : y1 = 0 := by
    rcases mul_eq_zero.mp g1 with h | h
    · exact absurd (by linarith : cd = 1) hcd
    · exact h
  have hy2 : y2 = 0 := by
    rw [hy1] at f1
    rcases mul_eq_zero.mp (by linarith : sd * y2 = 0) with h | h
    · exact absurd h hsd
    · exact h
  have hy3 : y3 = 0 := by
    rw [hy1] at e0
    rcases mul_eq_zero.mp (by linarith : s * y3 = 0) with h | h
    · exact absurd h hs
    · exact h
  exact ⟨hy1, hy2, hy3⟩

/-- `(R n) · x = n · (Rᵀ x)` — a ring identity -/
theorem rotC_dot_transpose (a b c x1 x2 x3 : ℝ) :
    gdot (rmatVec rotC [a, b, c]) [x1, x2, x3] =
      a * ((1 / 2 + √2 / 4) * x1 + (-1 / 2 + √2 / 4) * x2 + -1 / 2 * x3)
      + b * ((-1 / 2 + √2 / 4) * x1 + (1 / 2 + √2 / 4) * x2 + -1 / 2 * x3)
      + c * (1 / 2 * x1 + 1 / 2 * x2 + √2 / 2 * x3) := by
  rw [rotC_apply]
  simp only [gdot_cons, gdot_nil_left]
  ring

/-- `‖Rᵀ x‖² = ‖x‖²` -/
theorem rotC_transpose_norm (x1 x2 x3 : ℝ) :
    ((1 / 2 + √2 / 4) * x1 + (-1 / 2 + √2 / 4) * x2 + -1 / 2 * x3) ^ 2
      + ((-1 / 2 + √2 / 4) * x1 + (1 / 2 + √2 / 4) * x2 + -1 / 2 * x3) ^ 2
      + (1 / 2 * x1 + 1 / 2 * x2 + √2 / 2 * x3) ^ 2 = x1 ^ 2 + x2 ^ 2 + x3 ^ 2 := by
  linear_combination ((x1 ^ 2 + 2 * x1 * x2 + x2 ^ 2 + 2 * x3 ^ 2) / 8) * sqrt2_mul_self

/-- **kernel of the ice-cream matrix is trivial for `K ≥ 3`, `0 < θ < 90`** (rows 0, 1, 2 are already
linearly independent) -/
theorem iceCream_kernel (K : Nat) (hK : 3 ≤ K) (θdeg : ℝ) (h0 : 0 < θdeg) (h90 : θdeg < 90)
    (x : List ℝ) (hx : x.length = 3) (hk : ∀ w ∈ iceCreamW K θdeg, gdot w x = 0) :
    x = List.replicate 3 0 := by
  obtain ⟨x1, x2, x3, rfl⟩ := list_len3 x hx
  have hπ := Real.pi_pos
  have ht0 : 0 < θdeg * (π / 180) := by positivity
  have ht2 : θdeg * (π / 180) < π / 2 := by nlinarith
  have hs : 0 < sin (θdeg * (π / 180)) := Real.sin_pos_of_pos_of_lt_pi ht0 (by linarith)
  have hc : 0 < cos (θdeg * (π / 180)) := Real.cos_pos_of_mem_Ioo ⟨by linarith, ht2⟩
  obtain ⟨hd0, hdπ⟩ := delta_range K hK
  have hsd : sin (2 * π / (K : ℝ)) ≠ 0 := (Real.sin_pos_of_pos_of_lt_pi hd0 hdπ).ne'
  have hcd : cos (2 * π / (K : ℝ)) ≠ 1 := by
    intro h
    have h1 := Real.sin_sq_add_cos_sq (2 * π / (K : ℝ))
    rw [h] at h1
    have : sin (2 * π / (K : ℝ)) ^ 2 = 0 := by linarith
    exact hsd (pow_eq_zero_iff (by norm_num) |>.mp this)
  have hrow : ∀ i : Nat, i < K →
      gdot (rmatVec rotC [cos (θdeg * (π / 180)) * cos ((i : ℝ) * (2 * π / K)),
        cos (θdeg * (π / 180)) * sin ((i : ℝ) * (2 * π / K)), sin (θdeg * (π / 180))]) [x1, x2, x3] = 0 := by
    intro i hi
    apply hk
    unfold iceCreamW
    rw [List.mem_map]
    exact ⟨i, List.mem_range.mpr hi, iceRow_closed K i θdeg h0 (by linarith)⟩
  have r0 := hrow 0 (by omega)
  have r1 := hrow 1 (by omega)
  have r2 := hrow 2 (by omega)
  rw [rotC_dot_transpose] at r0 r1 r2
  simp only [Nat.cast_zero, zero_mul, Real.cos_zero, Real.sin_zero, mul_one, mul_zero, Nat.cast_one, one_mul,
    Nat.cast_ofNat, Real.cos_two_mul, Real.sin_two_mul] at r0 r1 r2
  obtain ⟨y1, y2, y3⟩ := three_normals_independent (cos (θdeg * (π / 180))) (sin (θdeg * (π / 180)))
    (cos (2 * π / (K : ℝ))) (sin (2 * π / (K : ℝ)))
    ((1 / 2 + √2 / 4) * x1 + (-1 / 2 + √2 / 4) * x2 + -1 / 2 * x3)
    ((-1 / 2 + √2 / 4) * x1 + (1 / 2 + √2 / 4) * x2 + -1 / 2 * x3)
    (1 / 2 * x1 + 1 / 2 * x2 + √2 / 2 * x3) hc.ne' hs.ne' hsd hcd
    (by linear_combination r0) (by linear_combination r1) (by linear_combination r2)
  have hn := rotC_transpose_norm x1 x2 x3
  rw [y1, y2, y3] at hn
  have hsum : x1 ^ 2 + x2 ^ 2 + x3 ^ 2 = 0 := by rw [← hn]; ring
  have q1 := sq_nonneg x1
  have q2 := sq_nonneg x2
  have q3 := sq_nonneg x3
  have e1 : x1 = 0 := pow_eq_zero_iff (two_ne_zero) |>.mp (by linarith : x1 ^ 2 = 0)
  have e2 : x2 = 0 := pow_eq_zero_iff (two_ne_zero) |>.mp (by linarith : x2 ^ 2 = 0)
  have e3 : x3 = 0 := pow_eq_zero_iff (two_ne_zero) |>.mp (by linarith : x3 ^ 2 = 0)
  subst e1 e2 e3
  rfl

end VOPy.ConeFormulas
