import VOPyVerif.Model.Empirical
import Mathlib.Algebra.BigOperators.Group.List.Basic
import Mathlib.Data.List.Induction
import Mathlib.Data.List.TakeWhile
import Mathlib.Algebra.Order.Field.Rat
import Mathlib.Tactic.Ring
import Mathlib.Tactic.Linarith
import Mathlib.Tactic.FieldSimp
import Mathlib.Tactic.Positivity
/-! Helper lemmas for C16: the `add_sample` loop on well-formed batches, the guard, the history
invariant (`samples` = per-design samples since the last clear), the statistics stored by
`update()`, numpy-style gathering, and permutation invariance of mean / population variance. -/
namespace VOPy.Empirical

/-! ### indices, rows, guard -/

theorem normIdx_natCast (n i : Nat) : normIdx n (i : Int) = if i < n then some i else none := by
  simp [normIdx]

theorem chunk_row {m : Nat} {y : Vec} (hm : 0 < m) (hy : y.length = m) : chunk m y = some [y] := by
  subst hy
  have h1 : y.length / y.length = 1 := Nat.div_self hm
  simp [chunk, Nat.ne_of_gt hm, h1, chunks]

theorem maxOf_ge_iff (c i : Int) (is : List Int) :
    c ≤ maxOf i is ↔ c ≤ i ∨ ∃ j ∈ is, c ≤ j := by
  induction is generalizing i with
  | nil => simp [maxOf]
  | cons a as ih =>
    have : maxOf i (a :: as) = maxOf (if i < a then a else i) as := by simp [maxOf]
    rw [this, ih]
    by_cases h : i < a
    · simp only [h, if_true, List.mem_cons, exists_eq_or_imp]
      constructor
      · rintro (h1 | h1)
        · exact Or.inr (Or.inl h1)
        · exact Or.inr (Or.inr h1)
      · rintro (h1 | h1 | h1)
        · exact Or.inl (by omega)
        · exact Or.inl h1
        · exact Or.inr h1
    · simp only [h, if_false, List.mem_cons, exists_eq_or_imp]
      constructor
      · rintro (h1 | h1)
        · exact Or.inl h1
        · exact Or.inr (Or.inr h1)
      · rintro (h1 | h1 | h1)
        · exact Or.inl h1
        · exact Or.inl (by omega)
        · exact Or.inr h1

/-- The guard of `add_sample` passes exactly when there are as many indices as rows, at least one
index, and every index is below the design count. -/
theorem guardOk_iff (count : Nat) (idx : List Int) (n : Nat) :
    guardOk count idx n = true ↔ idx.length = n ∧ idx ≠ [] ∧ ∀ i ∈ idx, i < (count : Int) := by
  cases idx with
  | nil => simp [guardOk]
  | cons i is =>
    simp only [guardOk, Bool.and_eq_true, beq_iff_eq, Bool.not_eq_true', decide_eq_false_iff_not,
      maxOf_ge_iff, ne_eq, reduceCtorEq, not_false_eq_true, true_and, List.mem_cons, forall_eq_or_imp]
    constructor
    · rintro ⟨h1, h2⟩
      refine ⟨h1, by omega, fun j hj => ?_⟩
      by_contra hc
      exact h2 (Or.inr ⟨j, hj, by omega⟩)
    · rintro ⟨h1, h2, h3⟩
      refine ⟨h1, ?_⟩
      rintro (h | ⟨j, hj, h⟩)
      · omega
      · have := h3 j hj; omega

theorem clean_add {m count : Nat} {idx : List Int} {Y : List Vec}
    (h : (Op.add idx Y).clean m count = true) :
    idx.length = Y.length ∧ idx ≠ [] ∧ (∀ i ∈ idx, 0 ≤ i ∧ i < (count : Int)) ∧ ∀ y ∈ Y, y.length = m := by
  simp only [Op.clean, Bool.and_eq_true, beq_iff_eq, Bool.not_eq_true', List.isEmpty_eq_false_iff,
    List.all_eq_true, decide_eq_true_eq] at h
  exact ⟨h.1.1.1, h.1.1.2, h.1.2, h.2⟩

theorem clean_guardOk {m count : Nat} {idx : List Int} {Y : List Vec}
    (h : (Op.add idx Y).clean m count = true) : guardOk count idx Y.length = true := by
  obtain ⟨h1, h2, h3, _⟩ := clean_add h
  exact (guardOk_iff _ _ _).2 ⟨h1, h2, fun i hi => (h3 i hi).2⟩

/-! ### the add loop on natural indices -/

theorem samplesFor_nil (d : Nat) : samplesFor d [] = [] := rfl

theorem samplesFor_append (d : Nat) (a b : List (Nat × Vec)) :
    samplesFor d (a ++ b) = samplesFor d a ++ samplesFor d b := by
  simp [samplesFor]

theorem samplesFor_cons (d : Nat) (p : Nat × Vec) (l : List (Nat × Vec)) :
    samplesFor d (p :: l) = if p.1 = d then p.2 :: samplesFor d l else samplesFor d l := by
  by_cases h : p.1 = d <;> simp [samplesFor, h]

theorem addLoop_clean {m : Nat} (hm : 0 < m) (pairs : List (Nat × Vec)) :
    ∀ S : List (List Vec), (∀ p ∈ pairs, p.1 < S.length ∧ p.2.length = m) →
      addLoop m S (pairs.map (fun p => ((p.1 : Int), p.2))) =
        (S.mapIdx (fun d s => s ++ samplesFor d pairs), none) := by
  induction pairs with
  | nil =>
    intro S _
    simp only [List.map_nil, addLoop, samplesFor_nil, List.append_nil]
    congr 1
    apply List.ext_getElem?
    intro j
    simp [List.getElem?_mapIdx]
  | cons p rest ih =>
    intro S h
    obtain ⟨hp1, hp2⟩ := h p (List.mem_cons_self)
    have hrest : ∀ q ∈ rest, q.1 < (S.modify p.1 (· ++ [p.2])).length ∧ q.2.length = m := by
      intro q hq
      simpa using h q (List.mem_cons_of_mem _ hq)
    simp only [List.map_cons, addLoop, normIdx_natCast, hp1, if_true, chunk_row hm hp2]
    rw [ih _ hrest]
    congr 1
    apply List.ext_getElem?
    intro j
    simp only [List.getElem?_mapIdx, List.getElem?_modify]
    cases hj : S[j]? with
    | none => simp
    | some s =>
      by_cases hjp : p.1 = j
      · simp [samplesFor_cons, hjp]
      · simp [samplesFor_cons, hjp]

theorem zip_toNat {idx : List Int} (Y : List Vec) (h : ∀ i ∈ idx, 0 ≤ i) :
    idx.zip Y = ((idx.zip Y).map (fun p => (p.1.toNat, p.2))).map (fun p => ((p.1 : Int), p.2)) := by
  rw [List.map_map]
  symm
  conv_rhs => rw [← List.map_id (idx.zip Y)]
  apply List.map_congr_left
  intro p hp
  have := h p.1 (List.of_mem_zip hp).1
  simp [Int.toNat_of_nonneg this]

/-- An accepted, well-formed `add_sample` appends to every design exactly its samples of the batch,
in batch order, and changes nothing else. -/
theorem add_clean {st : State} {idx : List Int} {Y : List Vec} (hm : 0 < st.m)
    (hlen : st.samples.length = st.count)
    (h : (Op.add idx Y).clean st.m st.count = true) :
    add st idx Y =
      ({ st with samples :=
          (st.samples.mapIdx (fun d s => s ++ samplesFor d ((Op.add idx Y).pairs st.count))) }, none) := by
  obtain ⟨h1, h2, h3, h4⟩ := clean_add h
  have hg := clean_guardOk h
  have e := zip_toNat Y (fun i hi => (h3 i hi).1)
  have hP : ∀ p ∈ (idx.zip Y).map (fun p => (p.1.toNat, p.2)), p.1 < st.samples.length ∧ p.2.length = st.m := by
    intro p hp
    simp only [List.mem_map] at hp
    obtain ⟨q, hq, rfl⟩ := hp
    obtain ⟨hq1, hq2⟩ := List.of_mem_zip hq
    have := h3 q.1 hq1
    refine ⟨?_, h4 _ hq2⟩
    simp only [hlen]
    omega
  simp only [add, hg, if_true, Op.pairs]
  generalize (idx.zip Y).map (fun p => (p.1.toNat, p.2)) = P at e hP
  rw [e, addLoop_clean hm P _ hP]

theorem add_rejected {st : State} {idx : List Int} {Y : List Vec}
    (h : guardOk st.count idx Y.length = false) : add st idx Y = (st, some .valueError) := by
  simp [add, h]

/-! ### histories -/

/-- Every `add_sample` of the history is either well-formed (valid design numbers, `m`-vectors) or
stopped by the guard at the top of the method. -/
def WF (m count : Nat) (ops : List Op) : Prop :=
  ∀ o ∈ ops, o.clean m count = true ∨ o.rejected count = true

theorem WF.append_left {m count : Nat} {a b : List Op} (h : WF m count (a ++ b)) : WF m count a :=
  fun o ho => h o (List.mem_append_left _ ho)

theorem WF.append_right {m count : Nat} {a b : List Op} (h : WF m count (a ++ b)) : WF m count b :=
  fun o ho => h o (List.mem_append_right _ ho)

theorem run_snoc (st : State) (ops : List Op) (o : Op) :
    run st (ops ++ [o]) = (step (run st ops) o).1 := by
  simp [run, List.foldl_append]

theorem run_append (st : State) (a b : List Op) : run st (a ++ b) = run (run st a) b := by
  simp [run, List.foldl_append]

theorem run_cons (st : State) (o : Op) (ops : List Op) : run st (o :: ops) = run (step st o).1 ops := rfl

theorem step_params (st : State) (o : Op) :
    (step st o).1.m = st.m ∧ (step st o).1.count = st.count ∧ (step st o).1.noise = st.noise := by
  cases o <;> simp only [step, clear, update, add, and_self]
  split <;> simp

theorem run_params (st : State) (ops : List Op) :
    (run st ops).m = st.m ∧ (run st ops).count = st.count ∧ (run st ops).noise = st.noise := by
  induction ops generalizing st with
  | nil => simp [run]
  | cons o rest ih =>
    rw [run_cons]
    obtain ⟨h1, h2, h3⟩ := ih (step st o).1
    obtain ⟨g1, g2, g3⟩ := step_params st o
    exact ⟨h1.trans g1, h2.trans g2, h3.trans g3⟩

theorem afterLastClear_snoc (ops : List Op) (o : Op) :
    afterLastClear (ops ++ [o]) = if o.isClear then [] else afterLastClear ops ++ [o] := by
  by_cases h : o.isClear <;> simp [afterLastClear, h]

theorem heldFor_snoc (count d : Nat) (ops : List Op) (o : Op) :
    heldFor count d (ops ++ [o]) =
      if o.isClear then [] else heldFor count d ops ++ samplesFor d (o.pairs count) := by
  by_cases h : o.isClear
  · simp [heldFor, afterLastClear_snoc, h, samplesFor_nil]
  · simp [heldFor, afterLastClear_snoc, h, samplesFor_append]

theorem mapIdx_map_range {β γ : Type} (n : Nat) (f : Nat → β) (g : Nat → β → γ) :
    ((List.range n).map f).mapIdx g = (List.range n).map (fun d => g d (f d)) := by
  apply List.ext_getElem?
  intro j
  by_cases hj : j < n
  · simp [List.getElem?_mapIdx, List.getElem?_range hj]
  · have hn : (List.range n)[j]? = none := by simp; omega
    simp [List.getElem?_mapIdx, hn]

theorem replicate_eq_map_range {β : Type} (n : Nat) (b : β) :
    List.replicate n b = (List.range n).map (fun _ => b) := by
  rw [List.map_const', List.length_range]

/-- **History invariant.**  Starting from a freshly cleared object, after any well-formed history
the sample store holds, for every design, exactly the samples added for it since the last
`clear_data()`, in arrival order. -/
theorem run_samples {m count : Nat} (hm : 0 < m) (st0 : State) (h0m : st0.m = m)
    (h0c : st0.count = count) (h0s : st0.samples = List.replicate count [])
    (ops : List Op) (hwf : WF m count ops) :
    (run st0 ops).samples = (List.range count).map (fun d => heldFor count d ops) := by
  induction ops using List.reverseRecOn with
  | nil =>
    simp only [run, List.foldl_nil, h0s, heldFor, afterLastClear, List.reverse_nil, List.takeWhile_nil,
      List.flatMap_nil, samplesFor_nil]
    exact replicate_eq_map_range _ _
  | append_singleton ops o ih =>
    have ih := ih hwf.append_left
    obtain ⟨pm, pc, _⟩ := run_params st0 ops
    rw [run_snoc]
    have hlen : (run st0 ops).samples.length = (run st0 ops).count := by
      rw [ih, pc, h0c]; simp
    have ho := hwf o (by simp)
    cases o with
    | clear =>
      simp only [step, clear, pc, h0c, heldFor_snoc, Op.isClear, if_true]
      exact replicate_eq_map_range _ _
    | update => simp [step, update, ih, heldFor_snoc, Op.isClear, Op.pairs, samplesFor_nil]
    | setFlags tm tv => simp [step, ih, heldFor_snoc, Op.isClear, Op.pairs, samplesFor_nil]
    | add idx Y =>
      rcases ho with ho | ho
      · have hc : (Op.add idx Y).clean (run st0 ops).m (run st0 ops).count = true := by
          rw [pm, pc, h0m, h0c]; exact ho
        simp only [step, add_clean (by rw [pm, h0m]; exact hm) hlen hc, ih, mapIdx_map_range,
          heldFor_snoc, Op.isClear, pc, h0c]
        simp
      · have hg : guardOk (run st0 ops).count idx Y.length = false := by
          rw [pc, h0c]; simpa [Op.rejected] using ho
        have hg' : guardOk count idx Y.length = false := by rw [pc, h0c] at hg; exact hg
        simp [step, add_rejected hg, ih, heldFor_snoc, Op.isClear, Op.pairs, hg', samplesFor_nil]

/-- calls other than `update()` do not touch the stored statistics -/
theorem run_noUpdate_stats (st : State) (ops : List Op) (h : ∀ o ∈ ops, o.isUpdate = false) :
    (run st ops).means = st.means ∧ (run st ops).vars = st.vars := by
  induction ops generalizing st with
  | nil => simp [run]
  | cons o rest ih =>
    rw [run_cons]
    obtain ⟨h1, h2⟩ := ih (step st o).1 (fun o' ho' => h o' (List.mem_cons_of_mem _ ho'))
    have ho := h o (List.mem_cons_self)
    rw [h1, h2]
    cases o with
    | update => simp [Op.isUpdate] at ho
    | clear => simp [step, clear]
    | setFlags tm tv => simp [step]
    | add idx Y =>
      simp only [step, add]
      split <;> simp

theorem run_flags (st : State) (ops : List Op) :
    ((run st ops).trackMeans, (run st ops).trackVars) = flagsAfter (st.trackMeans, st.trackVars) ops := by
  induction ops generalizing st with
  | nil => simp [run, flagsAfter]
  | cons o rest ih =>
    rw [run_cons, ih]
    cases o with
    | setFlags tm tv => simp [step, flagsAfter]
    | clear => simp [step, clear, flagsAfter]
    | update => simp [step, update, flagsAfter]
    | add idx Y =>
      simp only [step, add, flagsAfter]
      split <;> simp

/-! ### gathering -/

theorem gather_range_map {β : Type} (n : Nat) (f : Nat → β) (I : List Nat) (hI : ∀ i ∈ I, i < n) :
    gather ((List.range n).map f) (I.map (fun (i : Nat) => (i : Int))) = some (I.map f) := by
  induction I with
  | nil => simp [gather]
  | cons i rest ih =>
    have hi := hI i (List.mem_cons_self)
    have ih := ih (fun j hj => hI j (List.mem_cons_of_mem _ hj))
    simp [gather, normIdx_natCast, hi, ih]

/-! ### statistics -/

theorem colOf_perm {S S' : List Vec} (h : S.Perm S') (j : Nat) : (colOf j S).Perm (colOf j S') :=
  h.map _

theorem mean_perm {c c' : List Rat} (h : c.Perm c') : mean c = mean c' := by
  unfold mean
  rw [h.sum_eq, h.length_eq]

theorem popVar_perm {c c' : List Rat} (h : c.Perm c') : popVar c = popVar c' := by
  unfold popVar
  rw [mean_perm h]
  exact mean_perm (h.map _)

theorem meanOf_perm (m : Nat) {S S' : List Vec} (h : S.Perm S') : meanOf m S = meanOf m S' := by
  unfold meanOf
  rw [h.length_eq]
  split
  · apply List.map_congr_left
    intro j _
    exact mean_perm (colOf_perm h j)
  · rfl

theorem varOf_perm (m : Nat) (noise : Rat) {S S' : List Vec} (h : S.Perm S') :
    varOf m noise S = varOf m noise S' := by
  unfold varOf
  rw [h.length_eq]
  split
  · have : (fun j => popVar (colOf j S)) = (fun j => popVar (colOf j S')) := by
      funext j; exact popVar_perm (colOf_perm h j)
    rw [this]
  · rfl

theorem sum_sq_dev (c : List Rat) (μ : Rat) :
    (c.map (fun x => (x - μ) * (x - μ))).sum =
      (c.map (fun x => x * x)).sum - 2 * μ * c.sum + (c.length : Rat) * μ * μ := by
  induction c with
  | nil => simp
  | cons a as ih =>
    simp only [List.map_cons, List.sum_cons, List.length_cons, ih]
    push_cast
    ring

/-- König–Huygens: population variance = mean of squares − square of the mean. -/
theorem popVar_eq_meanSq_sub (c : List Rat) (hc : c ≠ []) :
    popVar c = mean (c.map (fun x => x * x)) - mean c * mean c := by
  have hn : (c.length : Rat) ≠ 0 := by
    have : 0 < c.length := List.length_pos_iff.mpr hc
    exact_mod_cast this.ne'
  unfold popVar
  unfold mean
  rw [sum_sq_dev]
  simp only [List.length_map]
  field_simp
  ring

theorem popVar_nonneg (c : List Rat) : 0 ≤ popVar c := by
  unfold popVar mean
  apply div_nonneg
  · apply List.sum_nonneg
    intro x hx
    simp only [List.mem_map] at hx
    obtain ⟨y, _, rfl⟩ := hx
    exact mul_self_nonneg _
  · exact_mod_cast Nat.zero_le _

theorem diagOf_entry (m : Nat) (f : Nat → Rat) {i j : Nat} (hi : i < m) (hj : j < m) :
    ((diagOf m f)[i]?.bind (·[j]?)) = some (if i = j then f i else 0) := by
  simp [diagOf, List.getElem?_range hi, List.getElem?_range hj]

/-! ### prediction from stored statistics; natural-number batches; skipping rejected adds -/

theorem predict_of_stats (st : State) (n : Nat) (I : List Nat) (hI : ∀ i ∈ I, i < n)
    (fm : Nat → Vec) (fv : Nat → Mat)
    (hmeans : st.trackMeans = true → st.means = .some ((List.range n).map fm))
    (hvars : st.trackVars = true → st.vars = .some ((List.range n).map fv)) :
    predict st (I.map (fun (i : Nat) => (i : Int))) =
      .ok (I.map (fun i => if st.trackMeans then fm i else zeros st.m),
           I.map (fun i => if st.trackVars then fv i else diagOf st.m (fun _ => 1))) := by
  unfold predict
  cases hM : st.trackMeans <;> cases hV : st.trackVars
  · simp [List.map_map, Function.comp_def]
  · simp [List.map_map, Function.comp_def, hvars hV, lookup, gather_range_map _ _ _ hI]
  · simp [List.map_map, Function.comp_def, hmeans hM, lookup, gather_range_map _ _ _ hI]
  · simp [hmeans hM, hvars hV, lookup, gather_range_map _ _ _ hI]

/-- a batch given with natural-number design indices: as many indices as rows, at least one, all
valid, all rows `m`-vectors -/
def CleanBatch (m count : Nat) (b : List Nat × List Vec) : Prop :=
  b.1.length = b.2.length ∧ b.1 ≠ [] ∧ (∀ i ∈ b.1, i < count) ∧ ∀ y ∈ b.2, y.length = m

/-- the `add_sample` call of a batch -/
def addOp (b : List Nat × List Vec) : Op := .add (b.1.map (fun (i : Nat) => (i : Int))) b.2

theorem addOp_clean {m count : Nat} {b : List Nat × List Vec} (h : CleanBatch m count b) :
    (addOp b).clean m count = true := by
  obtain ⟨h1, h2, h3, h4⟩ := h
  simp only [addOp, Op.clean, Bool.and_eq_true, beq_iff_eq, Bool.not_eq_true', List.isEmpty_eq_false_iff,
    List.all_eq_true, decide_eq_true_eq, List.length_map, List.mem_map, forall_exists_index, and_imp,
    forall_apply_eq_imp_iff₂, ne_eq, List.map_eq_nil_iff]
  refine ⟨⟨⟨h1, h2⟩, fun i hi => ⟨by omega, by exact_mod_cast h3 i hi⟩⟩, h4⟩

theorem addOp_pairs {m count : Nat} {b : List Nat × List Vec} (h : CleanBatch m count b) :
    (addOp b).pairs count = b.1.zip b.2 := by
  have hg := clean_guardOk (addOp_clean h)
  simp only [addOp, Op.pairs, hg, if_true, List.zip_map_left, List.map_map]
  conv_rhs => rw [← List.map_id (b.1.zip b.2)]
  apply List.map_congr_left
  intro p _
  simp

theorem afterLastClear_of_noClear (ops : List Op) (h : ∀ o ∈ ops, o.isClear = false) :
    afterLastClear ops = ops := by
  unfold afterLastClear
  rw [List.takeWhile_eq_self_iff.2, List.reverse_reverse]
  intro o ho
  simp [h o (List.mem_reverse.1 ho)]

/-- the samples held for design `d` after a history made only of well-formed batches -/
theorem heldFor_batches {m count : Nat} (d : Nat) (bs : List (List Nat × List Vec))
    (h : ∀ b ∈ bs, CleanBatch m count b) :
    heldFor count d (bs.map addOp) = samplesFor d (bs.flatMap (fun b => b.1.zip b.2)) := by
  unfold heldFor
  rw [afterLastClear_of_noClear]
  · congr 1
    rw [List.flatMap_map]
    apply List.flatMap_congr
    intro b hb
    exact addOp_pairs (h b hb)
  · intro o ho
    simp only [List.mem_map] at ho
    obtain ⟨b, _, rfl⟩ := ho
    rfl

theorem WF_batches {m count : Nat} (bs : List (List Nat × List Vec))
    (h : ∀ b ∈ bs, CleanBatch m count b) : WF m count (bs.map addOp) := by
  intro o ho
  simp only [List.mem_map] at ho
  obtain ⟨b, hb, rfl⟩ := ho
  exact Or.inl (addOp_clean (h b hb))

theorem samplesFor_perm (d : Nat) {a b : List (Nat × Vec)} (h : a.Perm b) :
    (samplesFor d a).Perm (samplesFor d b) := (h.filter _).map _

/-- Calls stopped by the guard can be deleted from a history without changing the final state. -/
theorem run_filter_rejected (st : State) (ops : List Op) :
    run st ops = run st (ops.filter (fun o => !o.rejected st.count)) := by
  induction ops generalizing st with
  | nil => rfl
  | cons o rest ih =>
    by_cases hr : o.rejected st.count = true
    · have : (step st o).1 = st := by
        cases o with
        | add idx Y =>
          simp only [Op.rejected, Bool.not_eq_true', ] at hr
          simp [step, add_rejected hr]
        | clear => simp [Op.rejected] at hr
        | update => simp [Op.rejected] at hr
        | setFlags _ _ => simp [Op.rejected] at hr
      rw [run_cons, this, ih st]
      simp [hr]
    · have hr' : o.rejected st.count = false := by simpa using hr
      rw [List.filter_cons]
      simp only [hr', Bool.not_false, if_true]
      rw [run_cons, run_cons, ih, (step_params st o).2.1]

end VOPy.Empirical
