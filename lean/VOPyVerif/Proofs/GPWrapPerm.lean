import VOPyVerif.Proofs.GPWrapBridge
import Mathlib.Logic.Equiv.Fin.Basic
import Mathlib.Data.List.Perm.Basic
import Mathlib.Data.Rat.Star
/-!
Helper lemmas for C15, part 4: permutation invariance of the *executable* per-objective posterior
`GPWrap.postScalar` (through the refinement to `quad`).
-/
namespace VOPy.GPWrap
open Matrix VOPy.GPWrap.Alg

/-- a permutation of a list is a re-indexing by a bijection of positions -/
theorem perm_exists_equiv {α : Type} {l l' : List α} (h : l.Perm l') :
    ∃ e : Fin l.length ≃ Fin l'.length, ∀ i, l.get i = l'.get (e i) := by
  induction h with
  | nil => exact ⟨Equiv.refl _, fun i => i.elim0⟩
  | @cons x l₁ l₂ _ ih =>
    obtain ⟨e, he⟩ := ih
    refine ⟨(finSuccEquiv l₁.length).trans ((Equiv.optionCongr e).trans (finSuccEquiv l₂.length).symm), ?_⟩
    intro i
    refine Fin.cases ?_ (fun j => ?_) i
    · simp
    · have := he j
      simp only [List.get_eq_getElem] at this
      simp [this]
  | swap x y l =>
    refine ⟨Equiv.swap (0 : Fin (l.length + 2)) 1, ?_⟩
    intro i
    refine Fin.cases ?_ (fun j => ?_) i
    · simp
    · refine Fin.cases ?_ (fun k => ?_) j
      · simp
      · have h0 : (k.succ.succ : Fin (l.length + 2)) ≠ 0 := Fin.succ_ne_zero _
        have h1 : (k.succ.succ : Fin (l.length + 2)) ≠ 1 := by
          intro h; exact Fin.succ_ne_zero k (Fin.succ_injective _ h)
        rw [Equiv.swap_apply_of_ne_of_ne h0 h1]
        rfl
  | trans _ _ ih₁ ih₂ =>
    obtain ⟨e₁, h₁⟩ := ih₁
    obtain ⟨e₂, h₂⟩ := ih₂
    exact ⟨e₁.trans e₂, fun i => by rw [h₁, h₂]; rfl⟩

theorem mapM_some_spec {α β : Type} (f : α → Option β) :
    ∀ (l : List α) (l' : List β), l.mapM f = some l' →
      l'.length = l.length ∧ ∀ i (h : i < l.length) (h' : i < l'.length), f l[i] = some l'[i] := by
  intro l
  induction l with
  | nil =>
    intro l' h
    simp only [List.mapM_nil, Option.pure_def, Option.some.injEq] at h
    subst h
    exact ⟨rfl, fun i h => absurd h (Nat.not_lt_zero _)⟩
  | cons a l ih =>
    intro l' h
    rw [List.mapM_cons] at h
    cases hfa : f a with
    | none => simp [hfa] at h
    | some b =>
      cases hl : l.mapM f with
      | none => simp [hfa, hl] at h
      | some bs =>
        simp only [hfa, hl, Option.pure_def, Option.bind_eq_bind, Option.bind_some,
          Option.some.injEq] at h
        subst h
        obtain ⟨hlen, hget⟩ := ih bs hl
        refine ⟨by simp [hlen], ?_⟩
        intro i hi hi'
        cases i with
        | zero => simpa using hfa
        | succ i =>
          simp only [List.getElem_cons_succ]
          exact hget i (by simpa using hi) (by simpa using hi')

/-- value of a Gram table entry (`0` outside the table; used where the lookup succeeded) -/
def tval (T : Mat) (a b : Nat) : ℚ := (lookup T a b).getD 0

theorem gram_spec (T : Mat) (rows cols : List Nat) (K : Mat) (h : gram T rows cols = some K) :
    K.length = rows.length ∧ (∀ r ∈ K, r.length = cols.length) ∧
    ∀ i j, i < rows.length → j < cols.length →
      (K.getD i []).getD j 0 = tval T (rows.getD i 0) (cols.getD j 0) := by
  unfold gram at h
  obtain ⟨hlen, hget⟩ := mapM_some_spec _ rows K h
  refine ⟨hlen, ?_, ?_⟩
  · intro r hr
    obtain ⟨i, hi, rfl⟩ := List.mem_iff_getElem.mp hr
    have := hget i (by omega) hi
    exact (mapM_some_spec _ cols _ this).1
  · intro i j hi hj
    have hi' : i < K.length := by omega
    have hrow := hget i hi hi'
    obtain ⟨hl2, hg2⟩ := mapM_some_spec _ cols _ hrow
    have hj' : j < K[i].length := by omega
    have := hg2 j hj hj'
    simp only [tval, List.getD_eq_getElem?_getD, List.getElem?_eq_getElem hi,
      List.getElem?_eq_getElem hj, List.getElem?_eq_getElem hi', Option.getD_some,
      List.getElem?_eq_getElem hj', this]

theorem scalarMat_getD (n : Nat) (s : ℚ) (i j : Nat) (hi : i < n) (hj : j < n) :
    ((scalarMat n s).getD i []).getD j 0 = if i = j then s else 0 := by
  simp [scalarMat, List.getD_eq_getElem?_getD, List.getElem?_map, List.getElem?_range hi,
    List.getElem?_range hj]

theorem madd_getD (A Bm : Mat) (i j : Nat) (hA : i < A.length) (hB : i < Bm.length)
    (hAj : j < (A.getD i []).length) (hBj : j < (Bm.getD i []).length) :
    ((madd A Bm).getD i []).getD j 0 = (A.getD i []).getD j 0 + (Bm.getD i []).getD j 0 := by
  unfold madd
  rw [getD_zipWith _ _ _ _ hA hB [] [] []]
  unfold vadd
  rw [getD_zipWith _ _ _ _ hAj hBj 0 0 0]

/-- system matrix of one objective: `K(X, X) + s·I` on the data's own positions -/
def Amat (T : Mat) (s : ℚ) (data : List (Nat × ℚ)) :
    Matrix (Fin data.length) (Fin data.length) ℚ :=
  fun i j => tval T (data.get i).1 (data.get j).1 + if i = j then s else 0

/-- cross-covariances of the test point `p` with the data -/
def kvec (T : Mat) (p : Nat) (data : List (Nat × ℚ)) : Fin data.length → ℚ :=
  fun i => tval T p (data.get i).1

/-- residuals `y − c` -/
def rvec (c : ℚ) (data : List (Nat × ℚ)) : Fin data.length → ℚ := fun i => (data.get i).2 - c

/-- closed form of the executable per-objective posterior -/
theorem postScalar_spec (T : Mat) (s c : ℚ) (data : List (Nat × ℚ)) (p : Nat) (q : Post)
    (h : postScalar T s c data p = some q) (hdet : IsUnit (Amat T s data).det) :
    q.mean = [c + quad (Amat T s data) (kvec T p data) (rvec c data)] ∧
    q.cov = [[tval T p p - quad (Amat T s data) (kvec T p data) (kvec T p data)]] := by
  unfold postScalar at h
  simp only at h
  split at h
  · rename_i K kT kss hK hkT hkss
    simp only [List.length_map] at h
    have hn : (data.map (·.2)).length = data.length := by simp
    obtain ⟨hK1, hK2, hK3⟩ := gram_spec _ _ _ _ hK
    obtain ⟨hk1, hk2, hk3⟩ := gram_spec _ _ _ _ hkT
    obtain ⟨hs1, hs2, hs3⟩ := gram_spec _ _ _ _ hkss
    simp only [List.length_map, List.length_cons, List.length_nil, Nat.zero_add] at hK1 hK2 hk1 hk2 hs1 hs2
    have hA : toMatN data.length data.length (madd K (scalarMat data.length s)) = Amat T s data := by
      funext i j
      have hi : i.1 < K.length := by rw [hK1]; exact i.2
      have hKi : (K.getD i []).length = data.length := by
        rw [List.getD_eq_getElem?_getD, List.getElem?_eq_getElem hi]
        exact hK2 _ (List.getElem_mem hi)
      have hSi : ((scalarMat data.length s).getD i []).length = data.length := by
        simp [scalarMat, List.getD_eq_getElem?_getD]
      simp only [toMatN, Amat]
      rw [madd_getD _ _ _ _ hi (by simp [scalarMat]) (by rw [hKi]; exact j.2) (by rw [hSi]; exact j.2),
        hK3 i j (by simp) (by simp), scalarMat_getD _ _ _ _ i.2 j.2]
      simp [List.getD_eq_getElem?_getD, Fin.ext_iff]
    have hkv : toVecN data.length (kT.getD (0 : Fin 1) []) = kvec T p data := by
      funext i
      simp only [toVecN, kvec]
      have := hk3 0 i (by simp) (by simp)
      simp only [Fin.val_zero] at this ⊢
      rw [this]
      simp [List.getD_eq_getElem?_getD]
    have hrv : toVecN data.length (vsub (data.map (·.2)) (data.map fun _ => c)) = rvec c data := by
      funext i
      simp only [toVecN, rvec, vsub]
      rw [getD_zipWith _ _ _ _ (by simp) (by simp) 0 0 0]
      simp [List.getD_eq_getElem?_getD]
    rw [← hA] at hdet
    obtain ⟨hm, hc, hmean, hcov⟩ := posterior_spec' data.length 1 _ _ _ _ _ _ _ q h hn rfl hdet
    obtain ⟨-, -, hrows⟩ := posterior_shapes _ _ _ _ _ _ _ q h
    have hm0 := hmean 0
    have hc0 := hcov 0 0
    rw [hA, hkv, hrv] at hm0
    rw [hA, hkv] at hc0
    have hss : (kss.getD (0 : Fin 1) []).getD (0 : Fin 1) 0 = tval T p p := by
      have := hs3 0 0 (by simp) (by simp)
      simpa using this
    rw [hss] at hc0
    constructor
    · match hq : q.mean, hm with
      | [a], _ =>
        rw [hq] at hm0
        simp only [Fin.val_zero, List.getD_cons_zero] at hm0
        rw [hm0]
    · match hq : q.cov, hc with
      | [row], _ =>
        have hr : row.length = 1 := by
          have := hrows row (by rw [hq]; simp)
          simpa using this
        match row, hr with
        | [a], _ =>
          rw [hq] at hc0
          simp only [Fin.val_zero, List.getD_cons_zero] at hc0
          rw [hc0]
  · exact absurd h (by simp)

/-- **The executable per-objective posterior is a function of the multiset of its samples.** -/
theorem postScalar_perm (T : Mat) (s c : ℚ) (data data' : List (Nat × ℚ)) (p : Nat) (q q' : Post)
    (hperm : data.Perm data') (h : postScalar T s c data p = some q)
    (h' : postScalar T s c data' p = some q') (hdet : IsUnit (Amat T s data').det) :
    q.mean = q'.mean ∧ q.cov = q'.cov := by
  obtain ⟨e, he⟩ := perm_exists_equiv hperm
  have hA : Amat T s data = (Amat T s data').submatrix e e := by
    funext i j
    simp only [Amat, Matrix.submatrix_apply, he, e.injective.eq_iff]
  have hk : kvec T p data = kvec T p data' ∘ e := by
    funext i; simp only [kvec, Function.comp_apply, he]
  have hr : rvec c data = rvec c data' ∘ e := by
    funext i; simp only [rvec, Function.comp_apply, he]
  have hdet0 : IsUnit (Amat T s data).det := by
    rw [hA, Matrix.det_submatrix_equiv_self]; exact hdet
  obtain ⟨m1, c1⟩ := postScalar_spec T s c data p q h hdet0
  obtain ⟨m2, c2⟩ := postScalar_spec T s c data' p q' h' hdet
  rw [m1, m2, c1, c2, hA, hk, hr, quad_reindex, quad_reindex]
  exact ⟨rfl, rfl⟩

/-- **No data: the executable per-objective posterior is the prior** (mean constant, `k(p,p)`). -/
theorem postScalar_nil (T : Mat) (s c : ℚ) (p : Nat) (q : Post)
    (h : postScalar T s c [] p = some q) : q.mean = [c] ∧ q.cov = [[tval T p p]] := by
  have : IsEmpty (Fin (List.length ([] : List (ℕ × ℚ)))) := (inferInstance : IsEmpty (Fin 0))
  have hdet : IsUnit (Amat T s []).det := by
    rw [Matrix.det_isEmpty]; exact isUnit_one
  obtain ⟨hm, hc⟩ := postScalar_spec T s c [] p q h hdet
  rw [hm, hc, quad_of_isEmpty, quad_of_isEmpty]
  simp

/-- the prior is indeed returned (the exact solve of the empty system passes its check) -/
theorem postScalar_nil_eq (T : Mat) (s c v : ℚ) (p : Nat) (hv : lookup T p p = some v) :
    postScalar T s c [] p = some ⟨[c], [[v]], none⟩ := by
  have h1 : solveMany [] [[], []] = some (1, [[], []], none) := by decide +kernel
  simp [postScalar, gram, hv, posterior, dimsOk, scalarMat, madd, vsub, h1, dot]

/-- prior Gram matrix of the data points and the test point `p` (table lookups) -/
def jointGram (T : Mat) (data : List (Nat × ℚ)) (p : Nat) :
    Matrix (Fin data.length ⊕ Fin 1) (Fin data.length ⊕ Fin 1) ℚ :=
  fun a b => tval T (Sum.elim (fun i => (data.get i).1) (fun _ => p) a)
    (Sum.elim (fun i => (data.get i).1) (fun _ => p) b)

/-- **The executable posterior variance is non-negative** when the kernel table is positive
semidefinite on the points involved and the noise variance positive. -/
theorem postScalar_var_nonneg (T : Mat) (s c : ℚ) (data : List (Nat × ℚ)) (p : Nat) (q : Post)
    (h : postScalar T s c data p = some q) (hs : 0 < s) (hG : (jointGram T data p).PosSemidef) :
    ∃ v, q.cov = [[v]] ∧ 0 ≤ v := by
  set Kd : Matrix (Fin data.length) (Fin data.length) ℚ :=
    fun i j => tval T (data.get i).1 (data.get j).1 with hKd
  set Bc : Matrix (Fin data.length) (Fin 1) ℚ := fun i _ => tval T (data.get i).1 p with hBc
  set Dm : Matrix (Fin 1) (Fin 1) ℚ := fun _ _ => tval T p p with hDm
  have hsym : ∀ i : Fin data.length, tval T p (data.get i).1 = tval T (data.get i).1 p := by
    intro i
    have := congrFun (congrFun hG.1 (Sum.inl i)) (Sum.inr 0)
    simpa [jointGram, Matrix.conjTranspose_apply] using this
  have hJ : jointGram T data p = fromBlocks Kd Bc Bcᴴ Dm := by
    ext a b
    rcases a with i | i <;> rcases b with j | j
    · rfl
    · rfl
    · show tval T p (data.get j).1 = star (tval T (data.get j).1 p)
      rw [star_trivial]; exact hsym j
    · rfl
  have hN : (Matrix.diagonal fun _ : Fin data.length => s).PosDef :=
    Matrix.PosDef.diagonal (fun _ => hs)
  have hA : Amat T s data = Kd + Matrix.diagonal fun _ => s := by
    funext i j
    show _ = Kd i j + Matrix.diagonal (fun _ => s) i j
    rw [Matrix.diagonal_apply]
    rfl
  have hpd : (Amat T s data).PosDef := by
    rw [hA]
    have hK : Kd.PosSemidef := by
      have h0 := hG.submatrix (Sum.inl : Fin data.length → Fin data.length ⊕ Fin 1)
      have e : (jointGram T data p).submatrix Sum.inl Sum.inl = Kd := by
        ext i j; simp [jointGram, hKd]
      rwa [e] at h0
    exact hN.posSemidef_add hK
  obtain ⟨-, hc⟩ := postScalar_spec T s c data p q h
    ((Matrix.isUnit_iff_isUnit_det _).mp hpd.isUnit)
  refine ⟨_, hc, ?_⟩
  have hpsd := posterior_cov_posSemidef Kd Bc Dm _ (hJ ▸ hG) hN
  have h00 := hpsd.diag_nonneg (i := (0 : Fin 1))
  rw [Matrix.sub_apply, conjTranspose_eq_transpose_of_trivial, transpose_mul_mul_apply, ← hA] at h00
  have hk : (fun a => Bc a 0) = kvec T p data := by
    funext i; exact (hsym i).symm
  rw [hk] at h00
  exact h00

/-- prior Gram of the data points alone -/
def Kmat (T : Mat) (data : List (Nat × ℚ)) : Matrix (Fin data.length) (Fin data.length) ℚ :=
  fun i j => tval T (data.get i).1 (data.get j).1

theorem Amat_eq (T : Mat) (s : ℚ) (data : List (Nat × ℚ)) :
    Amat T s data = Kmat T data + Matrix.diagonal fun _ => s := by
  funext i j
  show _ = Kmat T data i j + Matrix.diagonal (fun _ => s) i j
  rw [Matrix.diagonal_apply]
  rfl

theorem Amat_posDef (T : Mat) (s : ℚ) (data : List (Nat × ℚ)) (hs : 0 < s)
    (hK : (Kmat T data).PosSemidef) : (Amat T s data).PosDef := by
  rw [Amat_eq]
  exact (Matrix.PosDef.diagonal (fun _ => hs)).posSemidef_add hK

/-- positions of `data ++ extra` = positions of `data` ⊕ positions of `extra` -/
def appendEquiv {α : Type} (l₁ l₂ : List α) : Fin l₁.length ⊕ Fin l₂.length ≃ Fin (l₁ ++ l₂).length :=
  finSumFinEquiv.trans (finCongr (List.length_append).symm)

theorem get_appendEquiv_inl {α : Type} (l₁ l₂ : List α) (i : Fin l₁.length) :
    (l₁ ++ l₂).get (appendEquiv l₁ l₂ (Sum.inl i)) = l₁.get i := by
  simp [appendEquiv, List.getElem_append_left]

theorem get_appendEquiv_inr {α : Type} (l₁ l₂ : List α) (j : Fin l₂.length) :
    (l₁ ++ l₂).get (appendEquiv l₁ l₂ (Sum.inr j)) = l₂.get j := by
  simp [appendEquiv, List.getElem_append_right]

/-- **More data never increases the executable posterior variance**: the variance given
`data ++ extra` is at most the variance given `data` (positive-semidefinite kernel table on the
points involved, positive noise variance). -/
theorem postScalar_var_antitone (T : Mat) (s c : ℚ) (data extra : List (Nat × ℚ)) (p : Nat)
    (q q' : Post) (h : postScalar T s c data p = some q)
    (h' : postScalar T s c (data ++ extra) p = some q') (hs : 0 < s)
    (hG : (jointGram T (data ++ extra) p).PosSemidef) :
    ∃ v v', q.cov = [[v]] ∧ q'.cov = [[v']] ∧ v' ≤ v := by
  obtain ⟨e, he⟩ : ∃ e, e = appendEquiv data extra := ⟨_, rfl⟩
  have hl : ∀ i, (data ++ extra).get (e (Sum.inl i)) = data.get i := by
    intro i; rw [he]; exact get_appendEquiv_inl data extra i
  have hr : ∀ j, (data ++ extra).get (e (Sum.inr j)) = extra.get j := by
    intro j; rw [he]; exact get_appendEquiv_inr data extra j
  clear he
  -- Gram of all training points and its symmetry
  have hKall : (Kmat T (data ++ extra)).PosSemidef := by
    have h0 := hG.submatrix (Sum.inl : Fin (data ++ extra).length → _ ⊕ Fin 1)
    have e0 : (jointGram T (data ++ extra) p).submatrix Sum.inl Sum.inl = Kmat T (data ++ extra) := by
      ext i j; simp [jointGram, Kmat]
    rwa [e0] at h0
  have hKd : (Kmat T data).PosSemidef := by
    have h0 := hKall.submatrix (fun i => e (Sum.inl i))
    have e0 : (Kmat T (data ++ extra)).submatrix (fun i => e (Sum.inl i)) (fun i => e (Sum.inl i)) =
        Kmat T data := by
      ext i j
      simp only [Matrix.submatrix_apply, Kmat, hl]
    rwa [e0] at h0
  have hpdA : (Amat T s data).PosDef := Amat_posDef T s data hs hKd
  have hpdAll : (Amat T s (data ++ extra)).PosDef := Amat_posDef T s _ hs hKall
  -- the enlarged system in block form
  obtain ⟨b, hb⟩ : ∃ b : Matrix (Fin data.length) (Fin extra.length) ℚ,
      b = fun i j => tval T (data.get i).1 (extra.get j).1 := ⟨_, rfl⟩
  have hsymK : ∀ i j, Kmat T (data ++ extra) i j = Kmat T (data ++ extra) j i := by
    intro i j
    have := congrFun (congrFun hKall.1 i) j
    simpa [Matrix.conjTranspose_apply] using this.symm
  have hblock : (Amat T s (data ++ extra)).submatrix e e =
      fromBlocks (Amat T s data) b bᵀ (Amat T s extra) := by
    ext a c
    rcases a with i | i <;> rcases c with j | j
    · simp only [Matrix.submatrix_apply, fromBlocks_apply₁₁, Amat, hl, e.injective.eq_iff,
        Sum.inl.injEq]
    · rw [Matrix.submatrix_apply, fromBlocks_apply₁₂, hb]
      simp only [Amat, hl, hr, e.injective.eq_iff]
      simp
    · have := hsymK (e (Sum.inr i)) (e (Sum.inl j))
      simp only [Kmat, hl, hr] at this
      rw [Matrix.submatrix_apply, fromBlocks_apply₂₁, Matrix.transpose_apply, hb]
      simp only [Amat, hl, hr, e.injective.eq_iff, this]
      simp
    · simp only [Matrix.submatrix_apply, fromBlocks_apply₂₂, Amat, hr, e.injective.eq_iff,
        Sum.inr.injEq]
  have hpdB : (fromBlocks (Amat T s data) b bᵀ (Amat T s extra)).PosDef := by
    rw [← hblock]
    exact hpdAll.submatrix e.injective
  have hkv : kvec T p (data ++ extra) ∘ e = Sum.elim (kvec T p data) (kvec T p extra) := by
    funext a
    rcases a with i | i
    · simp only [Function.comp_apply, kvec, hl, Sum.elim_inl]
    · simp only [Function.comp_apply, kvec, hr, Sum.elim_inr]
  obtain ⟨-, hc⟩ := postScalar_spec T s c data p q h ((Matrix.isUnit_iff_isUnit_det _).mp hpdA.isUnit)
  obtain ⟨-, hc'⟩ := postScalar_spec T s c (data ++ extra) p q' h'
    ((Matrix.isUnit_iff_isUnit_det _).mp hpdAll.isUnit)
  refine ⟨_, _, hc, hc', ?_⟩
  have hq := quad_le_quad_add_points (Amat T s data) b (Amat T s extra) hpdA hpdB
    (kvec T p data) (kvec T p extra)
  rw [← hkv, ← hblock, quad_reindex] at hq
  exact sub_le_sub_left hq _

/-- the part of an answer the property speaks about (not the pivot used as conditioning guard) -/
def Post.core (q : Post) : Vec × Mat := (q.mean, q.cov)

theorem assembleDiag_congr (ps ps' : List Post) (h : ps.map Post.core = ps'.map Post.core) :
    (assembleDiag ps).core = (assembleDiag ps').core := by
  have hlen : ps.length = ps'.length := by simpa using congrArg List.length h
  have hmean : ps.map (fun q => q.mean.headD 0) = ps'.map (fun q => q.mean.headD 0) := by
    have := congrArg (List.map (fun c : Vec × Mat => c.1.headD 0)) h
    simpa [List.map_map, Post.core, Function.comp_def] using this
  have hcov : ps.map (fun q => (q.cov.headD []).headD 0) = ps'.map (fun q => (q.cov.headD []).headD 0) := by
    have := congrArg (List.map (fun c : Vec × Mat => (c.2.headD []).headD 0)) h
    simpa [List.map_map, Post.core, Function.comp_def] using this
  have hz : ∀ (l : List Post) (m : Nat),
      l.zipIdx.map (fun qi => (List.range m).map (fun j =>
        if qi.2 = j then (qi.1.cov.headD []).headD 0 else 0)) =
      (l.map (fun q => (q.cov.headD []).headD 0)).zipIdx.map (fun vi => (List.range m).map (fun j =>
        if vi.2 = j then vi.1 else 0)) := by
    intro l m
    rw [List.zipIdx_map, List.map_map]
    rfl
  simp only [assembleDiag, Post.core, Prod.mk.injEq]
  refine ⟨hmean, ?_⟩
  rw [hz ps, hz ps', hcov, hlen]

/-- pointwise transfer through two successful `mapM`s over lists of equal length -/
theorem mapM_congr_core {α : Type} (f f' : α → Option Post) (l l' : List α) (ps ps' : List Post)
    (h : l.mapM f = some ps) (h' : l'.mapM f' = some ps') (hlen : l.length = l'.length)
    (hpt : ∀ i (hi : i < l.length) (hi' : i < l'.length) (q q' : Post),
      f l[i] = some q → f' l'[i] = some q' → q.core = q'.core) :
    ps.map Post.core = ps'.map Post.core := by
  obtain ⟨h1, g1⟩ := mapM_some_spec f l ps h
  obtain ⟨h2, g2⟩ := mapM_some_spec f' l' ps' h'
  apply List.ext_getElem (by simp [h1, h2, hlen])
  intro i hi hi'
  simp only [List.length_map] at hi hi'
  simp only [List.getElem_map]
  exact hpt i (by omega) (by omega) _ _ (g1 i (by omega) hi) (g2 i (by omega) hi')

/-- **Model list (executable): predictions depend only on each objective's multiset of samples.** -/
theorem mlistPost_perm (cfg : Cfg) (data data' : List (List (Nat × ℚ))) (p : Nat) (q q' : Post)
    (hperm : List.Forall₂ List.Perm data data')
    (h : mlistPost cfg data p = some q) (h' : mlistPost cfg data' p = some q')
    (hdet : ∀ s, cfg.scalarNoise = some s → ∀ j (hj : j < cfg.tables.length) (hj' : j < data'.length),
      IsUnit (Amat cfg.tables[j] s data'[j]).det) :
    q.mean = q'.mean ∧ q.cov = q'.cov := by
  unfold mlistPost at h h'
  cases hs : cfg.scalarNoise with
  | none => simp [hs] at h
  | some s =>
    simp only [hs] at h h'
    split at h
    · rename_i hc
      split at h'
      · rename_i hc'
        simp only [Bool.and_eq_true, beq_iff_eq] at hc hc'
        split at h
        · rename_i ps hps
          split at h'
          · rename_i ps' hps'
            simp only [Option.some.injEq] at h h'
            subst h h'
            have hl : data.length = data'.length := hperm.length_eq
            have key := assembleDiag_congr ps ps' (mapM_congr_core _ _ _ _ ps ps' hps hps'
              (by simp [hl]) (by
                intro i hi hi' q1 q2 e1 e2
                simp only [List.getElem_zip] at e1 e2
                simp only [List.length_zip] at hi hi'
                have hp : (data[i]'(by omega)).Perm (data'[i]'(by omega)) := by
                  have := List.forall₂_iff_get.mp hperm
                  exact this.2 i (by omega) (by omega)
                have := postScalar_perm _ s _ _ _ p q1 q2 hp e1 e2
                  (hdet s hs i (by omega) (by omega))
                simp [Post.core, this.1, this.2]))
            simp only [Post.core, Prod.mk.injEq] at key
            exact key
          · exact absurd h' (by simp)
        · exact absurd h (by simp)
      · exact absurd h' (by simp)
    · exact absurd h (by simp)

/-- **Model list (executable): objective `i`'s prediction depends on objective `i`'s data only.** -/
theorem mlistPost_local (cfg : Cfg) (data data' : List (List (Nat × ℚ))) (p i : Nat) (q q' : Post)
    (hi : data[i]? = data'[i]?)
    (h : mlistPost cfg data p = some q) (h' : mlistPost cfg data' p = some q') :
    q.mean[i]? = q'.mean[i]? ∧ (q.cov[i]?.bind (·[i]?)) = (q'.cov[i]?.bind (·[i]?)) := by
  unfold mlistPost at h h'
  cases hs : cfg.scalarNoise with
  | none => simp [hs] at h
  | some s =>
    simp only [hs] at h h'
    split at h
    · rename_i hc
      split at h'
      · rename_i hc'
        simp only [Bool.and_eq_true, beq_iff_eq] at hc hc'
        split at h
        · rename_i ps hps
          split at h'
          · rename_i ps' hps'
            simp only [Option.some.injEq] at h h'
            subst h h'
            obtain ⟨l1, g1⟩ := mapM_some_spec _ _ ps hps
            obtain ⟨l2, g2⟩ := mapM_some_spec _ _ ps' hps'
            simp only [List.length_zip] at l1 l2
            have hlen : ps.length = ps'.length := by omega
            have hpi : ps[i]? = ps'[i]? := by
              by_cases hlt : i < ps.length
              · have hlt' : i < ps'.length := by omega
                have a := g1 i (by simp only [List.length_zip]; omega) hlt
                have b := g2 i (by simp only [List.length_zip]; omega) hlt'
                simp only [List.getElem_zip] at a b
                have hd : data[i]'(by omega) = data'[i]'(by omega) := by
                  have h1 : i < data.length := by omega
                  have h2 : i < data'.length := by omega
                  rw [List.getElem?_eq_getElem h1, List.getElem?_eq_getElem h2] at hi
                  exact Option.some.inj hi
                rw [hd] at a
                rw [a] at b
                rw [List.getElem?_eq_getElem hlt, List.getElem?_eq_getElem hlt']
                exact b
              · have hlt' : ¬ i < ps'.length := by omega
                rw [List.getElem?_eq_none (by omega), List.getElem?_eq_none (by omega)]
            constructor
            · simp only [assembleDiag, List.getElem?_map, hpi]
            · simp only [assembleDiag, List.getElem?_map, List.getElem?_zipIdx, hpi, hlen]
          · exact absurd h' (by simp)
        · exact absurd h (by simp)
      · exact absurd h' (by simp)
    · exact absurd h (by simp)

/-! ### shapes -/

theorem assembleDiag_shapes (ps : List Post) :
    (assembleDiag ps).mean.length = ps.length ∧ (assembleDiag ps).cov.length = ps.length ∧
    ∀ row ∈ (assembleDiag ps).cov, row.length = ps.length := by
  refine ⟨by simp [assembleDiag], by simp [assembleDiag], ?_⟩
  intro row hrow
  simp only [assembleDiag, List.mem_map] at hrow
  obtain ⟨qi, -, rfl⟩ := hrow
  simp

theorem mlistPost_shapes (cfg : Cfg) (data : List (List (Nat × ℚ))) (p : Nat) (q : Post)
    (h : mlistPost cfg data p = some q) :
    q.mean.length = cfg.m ∧ q.cov.length = cfg.m ∧ ∀ row ∈ q.cov, row.length = cfg.m := by
  unfold mlistPost at h
  split at h
  · split at h
    · rename_i hc
      simp only [Bool.and_eq_true, beq_iff_eq] at hc
      split at h
      · rename_i ps hps
        simp only [Option.some.injEq] at h
        subst h
        have hl := (mapM_some_spec _ _ ps hps).1
        simp only [List.length_zip] at hl
        have : ps.length = cfg.m := by omega
        rw [← this]
        exact assembleDiag_shapes ps
      · exact absurd h (by simp)
    · exact absurd h (by simp)
  · exact absurd h (by simp)

theorem jointPost_shapes (m : Nat) (kfun : Nat → Nat → Nat → Nat → Option ℚ) (Sg : Mat)
    (data : List (Nat × Vec)) (p : Nat) (q : Post) (h : jointPost m kfun Sg data p = some q) :
    q.mean.length = m ∧ q.cov.length = m ∧ ∀ row ∈ q.cov, row.length = m := by
  unfold jointPost at h
  simp only at h
  split at h
  · split at h
    · have := posterior_shapes _ _ _ _ _ _ _ q h
      simpa using this
    · exact absurd h (by simp)
  · exact absurd h (by simp)

theorem corrPost_shapes (cfg : Cfg) (data : List (Nat × Vec)) (p : Nat) (q : Post)
    (h : corrPost cfg data p = some q) :
    q.mean.length = cfg.m ∧ q.cov.length = cfg.m ∧ ∀ row ∈ q.cov, row.length = cfg.m := by
  unfold corrPost at h
  split at h
  · exact jointPost_shapes _ _ _ _ _ q h
  · exact absurd h (by simp)

theorem indepPost_shapes (cfg : Cfg) (data : List (Nat × Vec)) (p : Nat) (q : Post)
    (h : indepPost cfg data p = some q) :
    q.mean.length = cfg.m ∧ q.cov.length = cfg.m ∧ ∀ row ∈ q.cov, row.length = cfg.m := by
  unfold indepPost at h
  split at h
  · split at h
    · rename_i hc
      simp only [Bool.and_eq_true, beq_iff_eq] at hc
      split at h
      · rename_i ps hps
        simp only [Option.some.injEq] at h
        subst h
        have hl := (mapM_some_spec _ _ ps hps).1
        simp only [List.length_zipIdx] at hl
        have : ps.length = cfg.m := by omega
        rw [← this]
        exact assembleDiag_shapes ps
      · exact absurd h (by simp)
    · exact absurd h (by simp)
  · unfold indepJoint at h
    split at h
    · split at h
      · exact jointPost_shapes _ _ _ _ _ q h
      · exact absurd h (by simp)
    · exact absurd h (by simp)

theorem predictAt_length {Dt : Type} (post : Dt → Nat → Option Post) (data : Dt) (ps : List Nat)
    (qs : List Post) (h : predictAt post data ps = some qs) :
    qs.length = ps.length ∧ ∀ q ∈ qs, ∃ p ∈ ps, post data p = some q := by
  unfold predictAt at h
  obtain ⟨hl, hg⟩ := mapM_some_spec _ _ qs h
  refine ⟨hl, ?_⟩
  intro q hq
  obtain ⟨i, hi, rfl⟩ := List.mem_iff_getElem.mp hq
  exact ⟨ps[i]'(by omega), List.getElem_mem _, hg i (by omega) hi⟩

/-- **Independent model with scalar noise (executable): predictions depend only on the multiset
of samples.** -/
theorem indepPost_perm (cfg : Cfg) (s : ℚ) (hs : cfg.scalarNoise = some s)
    (data data' : List (Nat × Vec)) (p : Nat) (q q' : Post) (hperm : data.Perm data')
    (h : indepPost cfg data p = some q) (h' : indepPost cfg data' p = some q')
    (hdet : ∀ j (hj : j < cfg.tables.length),
      IsUnit (Amat cfg.tables[j] s (data'.map (fun d => (d.1, d.2[j]?.getD 0)))).det) :
    q.mean = q'.mean ∧ q.cov = q'.cov := by
  unfold indepPost at h h'
  simp only [hs] at h h'
  split at h
  · split at h'
    · split at h
      · rename_i ps hps
        split at h'
        · rename_i ps' hps'
          simp only [Option.some.injEq] at h h'
          subst h h'
          have key := assembleDiag_congr ps ps' (mapM_congr_core _ _ _ _ ps ps' hps hps' rfl (by
            intro i hi hi' q1 q2 e1 e2
            simp only [List.length_zipIdx] at hi
            have hidx : (cfg.tables.zipIdx[i]'(by simpa using hi)).2 = i := by simp
            have hT : (cfg.tables.zipIdx[i]'(by simpa using hi)).1 = cfg.tables[i] := by simp
            rw [hidx, hT] at e1 e2
            have hp := hperm.map (fun d : Nat × Vec => (d.1, d.2[i]?.getD 0))
            have := postScalar_perm _ s 0 _ _ p q1 q2 hp e1 e2 (hdet i hi)
            simp [Post.core, this.1, this.2]))
          simp only [Post.core, Prod.mk.injEq] at key
          exact key
        · exact absurd h' (by simp)
      · exact absurd h (by simp)
    · exact absurd h' (by simp)
  · exact absurd h (by simp)

end VOPy.GPWrap
