import VOPyVerif.Proofs.AcqSpec
/-! C07: the decidable relation `decSpecOk` evaluated on the output of the real
`optimize_decoupled_acqf_discrete`, its Prop-level reading `DecSpec`, soundness (accepted outputs
carry the top-`q` values of the whole table) and acceptance of the model's own output. -/
namespace VOPy.Acq

/-- all cells of the table as entries, objective by objective (objectives counted from `j`) -/
def cellsFrom : Nat → List (List Rat) → List Entry
  | _, [] => []
  | j, row :: rows => (indexed row).map (fun p => ⟨p.1, j, p.2⟩) ++ cellsFrom (j + 1) rows

theorem cellsFrom_vals : ∀ (j : Nat) (rows : List (List Rat)),
    (cellsFrom j rows).map (·.val) = rows.flatten
  | _, [] => rfl
  | j, row :: rows => by
    simp only [cellsFrom, List.map_append, List.map_map, List.flatten_cons, cellsFrom_vals (j + 1) rows]
    congr 1
    have := indexed_map_snd row
    simpa [Function.comp_def] using this

theorem mem_cellsFrom : ∀ (j : Nat) (rows : List (List Rat)) (e : Entry),
    e ∈ cellsFrom j rows ↔
      j ≤ e.obj ∧ ∃ row, rows[e.obj - j]? = some row ∧ row[e.pos]? = some e.val
  | _, [], e => by simp [cellsFrom]
  | j, row :: rows, e => by
    simp only [cellsFrom, List.mem_append, List.mem_map, mem_cellsFrom (j + 1) rows e]
    constructor
    · rintro (⟨p, hp, rfl⟩ | ⟨hj, r, hr, hv⟩)
      · exact ⟨le_refl _, row, by simp, mem_indexed.mp hp⟩
      · refine ⟨by omega, r, ?_, hv⟩
        have : e.obj - j = (e.obj - (j + 1)) + 1 := by omega
        rw [this, List.getElem?_cons_succ]; exact hr
    · rintro ⟨hj, r, hr, hv⟩
      by_cases h : e.obj = j
      · left
        rw [h, Nat.sub_self, List.getElem?_cons_zero] at hr
        simp only [Option.some.injEq] at hr
        subst hr
        exact ⟨(e.pos, e.val), mem_indexed.mpr hv, by cases e; simp_all⟩
      · right
        refine ⟨by omega, r, ?_, hv⟩
        have : e.obj - j = (e.obj - (j + 1)) + 1 := by omega
        rw [this, List.getElem?_cons_succ] at hr; exact hr

theorem mem_cells_iff (table : List (List Rat)) (e : Entry) :
    e ∈ cellsFrom 0 table ↔ tableAt table e.pos e.obj = some e.val := by
  rw [mem_cellsFrom]
  simp only [Nat.zero_le, true_and, Nat.sub_zero, tableAt]
  constructor
  · rintro ⟨row, hr, hv⟩; rw [hr]; exact hv
  · intro h
    cases hr : table[e.obj]? with
    | none => rw [hr] at h; simp at h
    | some row => rw [hr] at h; exact ⟨row, rfl, h⟩

theorem cellsFrom_keys_nodup : ∀ (j : Nat) (rows : List (List Rat)),
    ((cellsFrom j rows).map (fun e => (e.pos, e.obj))).Nodup
  | _, [] => by simp [cellsFrom]
  | j, row :: rows => by
    simp only [cellsFrom, List.map_append, List.map_map]
    refine List.nodup_append.mpr ⟨?_, cellsFrom_keys_nodup (j + 1) rows, ?_⟩
    · have h1 : ((indexed row).map (·.1)).Nodup := by
        rw [List.Nodup, List.pairwise_map]
        exact (indexed_pairwise row).imp (fun h => ne_of_lt h)
      have hinj : ((indexed row).map (·.1)).map (fun i => (i, j)) =
          (indexed row).map ((fun e : Entry => (e.pos, e.obj)) ∘ fun p => ⟨p.1, j, p.2⟩) := by
        simp [List.map_map, Function.comp_def]
      rw [← hinj]
      exact h1.map (fun a b h => by simpa using h)
    · intro a ha b hb hab
      subst hab
      obtain ⟨p, _, rfl⟩ := List.mem_map.mp ha
      obtain ⟨e, he, heq⟩ := List.mem_map.mp hb
      have := ((mem_cellsFrom (j + 1) rows e).mp he).1
      simp only [Function.comp_apply, Prod.mk.injEq] at heq
      omega

/-- Prop-level reading of `decSpecOk` -/
structure DecSpec (table : List (List Rat)) (q : Nat) (sel : List Entry) : Prop where
  len : sel.length = q
  cell : ∀ e ∈ sel, tableAt table e.pos e.obj = some e.val
  distinct : (sel.map (fun e => (e.pos, e.obj))).Nodup
  desc : sel.Pairwise (fun a b => b.val ≤ a.val)
  dom : ∀ i j v, tableAt table i j = some v → (i, j) ∉ sel.map (fun e => (e.pos, e.obj)) →
    ∀ e ∈ sel, v ≤ e.val

/-! ### Bool ↔ Prop pieces -/

theorem nodup_iff_not_mem_take {α : Type} [DecidableEq α] (l : List α) :
    l.Nodup ↔ ∀ k (hk : k < l.length), l[k] ∉ l.take k := by
  constructor
  · intro h k hk; exact not_mem_take_of_nodup h k hk
  · intro h
    rw [List.Nodup, List.pairwise_iff_getElem]
    intro i j hi hj hij heq
    apply h j hj
    rw [← heq]
    exact List.mem_iff_getElem.mpr ⟨i, by rw [List.length_take]; omega, by rw [List.getElem_take]⟩

theorem zip_tail_all_iff {α : Type} (R : α → α → Prop) [DecidableRel R]
    (htrans : ∀ a b c, R a b → R b c → R a c) : ∀ (l : List α),
    (l.zip l.tail).all (fun p => decide (R p.1 p.2)) = true ↔ l.Pairwise R
  | [] => by simp
  | [a] => by simp
  | a :: b :: t => by
    have ih := zip_tail_all_iff R htrans (b :: t)
    simp only [List.tail_cons, List.zip_cons_cons, List.all_cons, Bool.and_eq_true,
      decide_eq_true_eq] at ih ⊢
    rw [ih]
    constructor
    · rintro ⟨hab, hp⟩
      refine List.pairwise_cons.mpr ⟨?_, hp⟩
      intro x hx
      rcases List.mem_cons.mp hx with rfl | hx
      · exact hab
      · exact htrans _ _ _ hab ((List.pairwise_cons.mp hp).1 x hx)
    · intro hp
      have := List.pairwise_cons.mp hp
      exact ⟨this.1 b (List.mem_cons_self), this.2⟩

theorem decSpecOk_iff (table : List (List Rat)) (q : Nat) (sel : List Entry) :
    decSpecOk table q sel = true ↔ DecSpec table q sel := by
  unfold decSpecOk
  simp only [Bool.and_eq_true, beq_iff_eq]
  have hdesc := zip_tail_all_iff (fun a b : Entry => b.val ≤ a.val)
    (fun a b c h1 h2 => le_trans h2 h1) sel
  constructor
  · rintro ⟨⟨⟨⟨h1, h2⟩, h3⟩, h4⟩, h5⟩
    have h3' : (sel.map (fun e => (e.pos, e.obj))).Nodup := by
      refine (nodup_iff_not_mem_take _).mpr ?_
      intro k hk
      have hk' : k < sel.length := by simpa using hk
      have := List.all_eq_true.mp h3 k (List.mem_range.mpr hk')
      rw [List.getElem?_eq_getElem hk] at this
      simpa using this
    refine ⟨h1, ?_, h3', hdesc.mp h4, ?_⟩
    · intro e he
      have := List.all_eq_true.mp h2 e he
      simpa using this
    · intro i j v hv hnot e he
      simp only [tableAt] at hv
      cases hr : table[j]? with
      | none => rw [hr] at hv; simp at hv
      | some row =>
        rw [hr] at hv
        simp only at hv
        have hj : j < table.length := (List.getElem?_eq_some_iff.mp hr).1
        have hi : i < row.length := (List.getElem?_eq_some_iff.mp hv).1
        have := List.all_eq_true.mp h5 j (List.mem_range.mpr hj)
        rw [hr] at this
        simp only at this
        have := List.all_eq_true.mp this i (List.mem_range.mpr hi)
        simp only [Bool.or_eq_true, List.contains_eq_mem, decide_eq_true_eq] at this
        rcases this with hc | hc
        · exact absurd hc hnot
        · rw [hv] at hc
          have := List.all_eq_true.mp hc e he
          simpa using this
  · intro h
    refine ⟨⟨⟨⟨h.len, ?_⟩, ?_⟩, hdesc.mpr h.desc⟩, ?_⟩
    · refine List.all_eq_true.mpr ?_
      intro e he
      simpa using h.cell e he
    · refine List.all_eq_true.mpr ?_
      intro k hk
      have hk := List.mem_range.mp hk
      have hk' : k < (sel.map (fun e => (e.pos, e.obj))).length := by simpa using hk
      rw [List.getElem?_eq_getElem hk']
      simpa using (nodup_iff_not_mem_take _).mp h.distinct k hk'
    · refine List.all_eq_true.mpr ?_
      intro j hj
      have hj := List.mem_range.mp hj
      rw [List.getElem?_eq_getElem hj]
      refine List.all_eq_true.mpr ?_
      intro i hi
      have hi := List.mem_range.mp hi
      simp only [Bool.or_eq_true, List.contains_eq_mem, decide_eq_true_eq]
      by_cases hc : (i, j) ∈ sel.map (fun e => (e.pos, e.obj))
      · exact Or.inl hc
      · right
        rw [List.getElem?_eq_getElem hi]
        refine List.all_eq_true.mpr ?_
        intro e he
        have hv : tableAt table i j = some (table[j])[i] := by
          simp [tableAt, List.getElem?_eq_getElem hj, List.getElem?_eq_getElem hi]
        simpa using h.dom i j _ hv hc e he

/-! ### the split of the cells into selected and unselected ones -/

theorem sel_split {table : List (List Rat)} {sel : List Entry}
    (hcell : ∀ e ∈ sel, tableAt table e.pos e.obj = some e.val)
    (hdist : (sel.map (fun e => (e.pos, e.obj))).Nodup) :
    ∃ rest, (sel ++ rest).Perm (cellsFrom 0 table) ∧
      ∀ b ∈ rest, (b.pos, b.obj) ∉ sel.map (fun e => (e.pos, e.obj)) := by
  have hpn : sel.Nodup := List.Nodup.of_map _ hdist
  have hcount : ∀ x ∈ sel, sel.count x ≤ (cellsFrom 0 table).count x := by
    intro x hx
    rw [List.count_eq_one_of_mem hpn hx]
    exact List.count_pos_iff.mpr ((mem_cells_iff table x).mpr (hcell x hx))
  have hperm := List.subperm_append_diff_self_of_count_le hcount
  refine ⟨_, hperm, ?_⟩
  intro b hb hm
  have hk := (hperm.map (fun e => (e.pos, e.obj))).nodup_iff.mpr (cellsFrom_keys_nodup 0 table)
  rw [List.map_append] at hk
  exact (List.nodup_append.mp hk).2.2 _ hm _ (List.mem_map_of_mem hb) rfl

/-- **Soundness of the relation.**  Any output accepted by `DecSpec` lists, in order, the first
`q` entries of the descending sort of all cells of the table. -/
theorem DecSpec.values {table : List (List Rat)} {q : Nat} {sel : List Entry}
    (h : DecSpec table q sel) : sel.map (·.val) = (sortDesc table.flatten).take q := by
  obtain ⟨rest, hperm, hrest⟩ := sel_split h.cell h.distinct
  have hp2 : (sel.map (·.val) ++ rest.map (·.val)).Perm table.flatten := by
    rw [← List.map_append, ← cellsFrom_vals 0 table]
    exact hperm.map _
  have hpw : (sel.map (·.val)).Pairwise (· ≥ ·) := by
    rw [List.pairwise_map]; exact h.desc
  have hdom : ∀ a ∈ sel.map (·.val), ∀ b ∈ rest.map (·.val), b ≤ a := by
    intro a ha b hb
    obtain ⟨a', ha', rfl⟩ := List.mem_map.mp ha
    obtain ⟨b', hb', rfl⟩ := List.mem_map.mp hb
    have hb'' : b' ∈ cellsFrom 0 table := hperm.mem_iff.mp (List.mem_append_right _ hb')
    exact h.dom b'.pos b'.obj b'.val ((mem_cells_iff table b').mp hb'') (hrest b' hb') a' ha'
  have := top_unique hp2 hpw hdom
  rw [List.length_map, h.len] at this
  exact this

/-- the model's output satisfies the relation checked on the implementation -/
theorem optimizeDecoupled_decSpec (table : List (List Rat)) (q : Nat) :
    DecSpec table (min q table.flatten.length) (optimizeDecoupled table q) := by
  have hvals := optimizeDecoupled_values table q
  have hcell : ∀ e ∈ optimizeDecoupled table q, tableAt table e.pos e.obj = some e.val :=
    fun e he => optimizeDecoupled_mem he
  have hdist := optimizeDecoupled_keys_nodup table q
  refine ⟨?_, hcell, hdist, optimizeDecoupled_pairwise table q, ?_⟩
  · have := congrArg List.length hvals
    rw [List.length_map, List.length_take, sortDesc_length] at this
    exact this
  · intro i j v hv hnot e he
    obtain ⟨rest, hperm, _⟩ := sel_split hcell hdist
    -- the unselected cell is in `rest`
    have hc : (⟨i, j, v⟩ : Entry) ∈ cellsFrom 0 table := (mem_cells_iff table ⟨i, j, v⟩).mpr hv
    have hin := hperm.mem_iff.mpr hc
    have hrest : (⟨i, j, v⟩ : Entry) ∈ rest := by
      rcases List.mem_append.mp hin with h | h
      · exact absurd (List.mem_map.mpr ⟨_, h, rfl⟩) hnot
      · exact h
    -- values of `rest` are the tail of the descending sort
    have hp2 : ((optimizeDecoupled table q).map (·.val) ++ rest.map (·.val)).Perm table.flatten := by
      rw [← List.map_append, ← cellsFrom_vals 0 table]
      exact hperm.map _
    rw [hvals] at hp2
    have hsplit : (sortDesc table.flatten).take q ++ (sortDesc table.flatten).drop q
        = sortDesc table.flatten := List.take_append_drop _ _
    have hp3 : ((sortDesc table.flatten).take q ++ rest.map (·.val)).Perm
        ((sortDesc table.flatten).take q ++ (sortDesc table.flatten).drop q) := by
      rw [hsplit]; exact hp2.trans (sortDesc_perm _).symm
    have hp4 := (List.perm_append_left_iff _).mp hp3
    have hv_in : v ∈ (sortDesc table.flatten).drop q :=
      hp4.mem_iff.mp (List.mem_map.mpr ⟨_, hrest, rfl⟩)
    have he_in : e.val ∈ (sortDesc table.flatten).take q := by
      rw [← hvals]; exact List.mem_map_of_mem he
    have hpw := sortDesc_pairwise table.flatten
    rw [← hsplit] at hpw
    exact (List.pairwise_append.mp hpw).2.2 e.val he_in v hv_in

end VOPy.Acq
