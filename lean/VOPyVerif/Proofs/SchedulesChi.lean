import VOPyVerif.Proofs.SchedulesGauss
/-!
# C04 helper lemmas: per-round union-bound terms of the norm-type (hyper-ellipsoid) schedules

`normOut`-type events `{z | r < √(Σ zⱼ²)}` under i.i.d. Gaussian coordinates, bounded through
`Tails.chi2_tail_var`, and the resulting per-round terms for PaVeBa, PaVeBaGP (DE), PaVeBaPartialGP
(hyper-ellipsoid).
-/
namespace VOPy.SchedR
open Real MeasureTheory ProbabilityTheory VOPy VOPy.Sched
open scoped NNReal

/-- `P(‖z‖₂ > r) ≤ (√2)^m exp(-r²/(4s))` for `m` i.i.d. `N(0, s)` coordinates, `r ≥ 0`, `s ≠ 0`. -/
lemma norm_tail (m : ℕ) (s : ℝ≥0) (hs : s ≠ 0) (r : ℝ) (hr : 0 ≤ r) :
    (Measure.pi (fun _ : Fin m => gaussianReal 0 s)).real {z | r < √(∑ j, (z j)^2)}
      ≤ (√2)^m * rexp (-r^2/(4*s)) := by
  refine le_trans (measureReal_mono ?_) (Tails.chi2_tail_var m s hs (r^2))
  intro z hz
  simp only [Set.mem_ofPred_eq] at hz ⊢
  exact (Real.lt_sqrt hr).mp hz

lemma sqrt_two_pow_le_exp (m : ℕ) : (√2)^m ≤ rexp (m:ℝ) := by
  have h : √2 ≤ rexp 1 := by
    have h1 : √2 ≤ 2 := by
      rw [Real.sqrt_le_left (by norm_num)]; norm_num
    have h2 : (2:ℝ) ≤ rexp 1 := by
      have := Real.add_one_le_exp (1:ℝ); linarith
    linarith
  calc (√2)^m ≤ (rexp 1)^m := pow_le_pow_left₀ (Real.sqrt_nonneg _) h m
    _ = rexp (m:ℝ) := by rw [← Real.exp_nat_mul, mul_one]

section
variable (t m K : ℕ) (δ : ℝ)

/-! #### PaVeBa -/

lemma one_le_paveba_arg (hK : 1 ≤ K) (h0 : 0 < δ) (h1 : δ < 1) :
    1 ≤ π^2 * ((m:ℝ)+1) * K * ((t:ℝ)+1)^2 / (6*δ) := by
  have hK' : (1:ℝ) ≤ K := by exact_mod_cast hK
  have hm' : (1:ℝ) ≤ (m:ℝ)+1 := by have : (0:ℝ) ≤ m := Nat.cast_nonneg m; linarith
  have ht := one_le_cast_succ_sq t
  have hpi := pi_sq_gt_nine
  rw [le_div_iff₀ (by positivity)]
  have h2 : 9 ≤ π^2 * ((m:ℝ)+1) := by nlinarith
  have h3 : 9 ≤ π^2 * ((m:ℝ)+1) * K := by nlinarith
  have h4 : 9 ≤ π^2 * ((m:ℝ)+1) * K * ((t:ℝ)+1)^2 := by nlinarith
  nlinarith

lemma pavebaRadius_nonneg (nv : ℝ) : 0 ≤ pavebaRadius nv (t+1) m K δ (1:ℝ) := by
  rw [pavebaRadius_real]; exact Real.sqrt_nonneg _

/-- PaVeBa, per round `n = t+1` with per-coordinate variance `σ²/n` of the sample mean:
`K·(√2)^m·exp(-r_n²/(4σ²/n)) = ((√2)^m·36δ²/(π⁴(m+1)²K))/(t+1)⁴` exactly. -/
lemma paveba_term (hK : 1 ≤ K) (h0 : 0 < δ) (h1 : δ < 1) (σ2 : ℝ) (hσ : 0 < σ2) :
    (K:ℝ) * ((√2)^m * rexp (-(pavebaRadius σ2 (t+1) m K δ (1:ℝ))^2 / (4 * (σ2 / ((t:ℝ)+1)))))
      = ((√2)^m * 36 * δ^2 / (π^4 * ((m:ℝ)+1)^2 * K)) * (1 / ((t:ℝ)+1)^4) := by
  rw [pavebaRadius_real]; push_cast
  set A := π^2 * ((m:ℝ)+1) * K * ((t:ℝ)+1)^2 / (6*δ) with hA
  have hA1 : 1 ≤ A := one_le_paveba_arg t m K δ hK h0 h1
  have hL := Real.log_nonneg hA1
  have ht : (0:ℝ) < (t:ℝ)+1 := by positivity
  have hK0 : (0:ℝ) < K := by exact_mod_cast hK
  have hm0 : (0:ℝ) < (m:ℝ)+1 := by positivity
  rw [Real.sq_sqrt (by positivity)]
  have : -(8 * σ2 / ((t:ℝ)+1) * Real.log A) / (4 * (σ2 / ((t:ℝ)+1)))
      = -Real.log A + -Real.log A := by field_simp; ring
  rw [this, Real.exp_add, exp_neg_log (by linarith), hA, inv_div]
  field_simp
  norm_num

/-! #### PaVeBaGP, hyper-ellipsoid (type DE): radius `α_t`, i.e. quadratic form `≤ α_t²` -/

/-- PaVeBaGP (ellipsoid), per round: `K·(√2)^m·exp(-α_t²/4) ≤ (6δ/π²)/(t+1)²`, for `m ≥ 1`. -/
lemma pavebagp_ell_term (hm : 1 ≤ m) (hK : 1 ≤ K) (h0 : 0 < δ) (h1 : δ < 1) :
    (K:ℝ) * ((√2)^m * rexp (-(pavebaGpAlpha (t+1) m K δ (1:ℝ))^2 / (4 * ((1:ℝ≥0):ℝ))))
      ≤ (6*δ/π^2) * (1 / ((t:ℝ)+1)^2) := by
  rw [pavebaGpAlpha_real]; push_cast
  set A := π^2 * ((t:ℝ)+1)^2 * K / (6*δ) with hA
  have hA1 : 1 ≤ A := one_le_pavebagp_arg t K δ hK h0 h1
  have hApos : 0 < A := by linarith
  have hL : 0 ≤ Real.log A := Real.log_nonneg hA1
  have hm' : (1:ℝ) ≤ m := by exact_mod_cast hm
  have hK0 : (0:ℝ) < K := by exact_mod_cast hK
  have h6 := one_le_log_six
  set α := 8 * (m:ℝ) * Real.log 6 + 4 * Real.log A with hα
  have hα8 : 8 * (m:ℝ) ≤ 8 * (m:ℝ) * Real.log 6 := by nlinarith
  have hα4 : 4 ≤ α := by rw [hα]; nlinarith
  have hαL : Real.log A + m ≤ α := by rw [hα]; nlinarith
  have hexp : (√2)^m * rexp (-α^2/(4*1)) ≤ A⁻¹ := by
    calc (√2)^m * rexp (-α^2/(4*1)) ≤ rexp (m:ℝ) * rexp (-α^2/(4*1)) :=
          mul_le_mul_of_nonneg_right (sqrt_two_pow_le_exp m) (Real.exp_nonneg _)
      _ ≤ A⁻¹ := by
          rw [← exp_neg_log hApos, ← Real.exp_add]
          apply Real.exp_le_exp.mpr
          nlinarith
  have hAinv : A⁻¹ = 6*δ / (π^2 * ((t:ℝ)+1)^2 * K) := by rw [hA, inv_div]
  calc (K:ℝ) * ((√2)^m * rexp (-α^2/(4*1)))
      ≤ (K:ℝ) * A⁻¹ := mul_le_mul_of_nonneg_left hexp (by positivity)
    _ = (6*δ/π^2) * (1 / ((t:ℝ)+1)^2) := by
        rw [hAinv]; field_simp

/-! #### PaVeBaPartialGP, hyper-ellipsoid: radius `α_t = 2 log(…)` -/

/-- PaVeBaPartialGP (ellipsoid), per round, under the arithmetic condition
`(√2)^m · exp(-L₁(L₁-1)) ≤ 2` with `L₁ = log(π²K/(3δ))`:
`K·(√2)^m·exp(-α_t²/4) ≤ (6δ/π²)/(t+1)²`. -/
lemma partialgp_ell_term (hK : 1 ≤ K) (h0 : 0 < δ) (h1 : δ < 1)
    (hc : (√2)^m * rexp (-(Real.log (π^2 * K / (3*δ)) * (Real.log (π^2 * K / (3*δ)) - 1))) ≤ 2) :
    (K:ℝ) * ((√2)^m * rexp (-(partialGpAlpha (t+1) K δ (1:ℝ))^2 / (4 * ((1:ℝ≥0):ℝ))))
      ≤ (6*δ/π^2) * (1 / ((t:ℝ)+1)^2) := by
  rw [partialGpAlpha_real]; push_cast
  set A := π^2 * ((t:ℝ)+1)^2 * K / (3*δ) with hA
  set L₁ := Real.log (π^2 * K / (3*δ)) with hL₁
  have hK0 : (0:ℝ) < K := by exact_mod_cast hK
  have hL1 : 1 ≤ L₁ := by
    have := one_le_log_partial_arg 0 K δ hK h0 h1
    simpa using this
  have hApos : 0 < A := by rw [hA]; positivity
  have hLL : L₁ ≤ Real.log A := by
    apply Real.log_le_log (by positivity)
    rw [hA]
    apply div_le_div_of_nonneg_right _ (by positivity)
    have ht := one_le_cast_succ_sq t
    calc π^2 * K = π^2 * K * 1 := by ring
      _ ≤ π^2 * K * ((t:ℝ)+1)^2 := mul_le_mul_of_nonneg_left ht (by positivity)
      _ = π^2 * ((t:ℝ)+1)^2 * K := by ring
  have hexp : rexp (-(2 * Real.log A)^2/(4*1)) ≤ A⁻¹ * rexp (-(L₁ * (L₁ - 1))) := by
    rw [← exp_neg_log hApos, ← Real.exp_add]
    apply Real.exp_le_exp.mpr
    nlinarith
  have hAinv : A⁻¹ = 3*δ / (π^2 * ((t:ℝ)+1)^2 * K) := by rw [hA, inv_div]
  have hAinv0 : 0 ≤ A⁻¹ := by positivity
  calc (K:ℝ) * ((√2)^m * rexp (-(2 * Real.log A)^2/(4*1)))
      ≤ (K:ℝ) * ((√2)^m * (A⁻¹ * rexp (-(L₁ * (L₁ - 1))))) := by
        apply mul_le_mul_of_nonneg_left _ (by positivity)
        exact mul_le_mul_of_nonneg_left hexp (by positivity)
    _ = (K:ℝ) * A⁻¹ * ((√2)^m * rexp (-(L₁ * (L₁ - 1)))) := by ring
    _ ≤ (K:ℝ) * A⁻¹ * 2 := mul_le_mul_of_nonneg_left hc (by positivity)
    _ = (6*δ/π^2) * (1 / ((t:ℝ)+1)^2) := by
        rw [hAinv]; field_simp; ring

end

/-! #### Discharging the arithmetic conditions -/

lemma sqrt_two_pow_le_eight {m : ℕ} (hm : m ≤ 6) : (√2)^m ≤ 8 := by
  have h1 : (1:ℝ) ≤ √2 := Real.one_le_sqrt.mpr (by norm_num)
  have h2 : (√2)^6 = 8 := by
    have : (√2)^6 = ((√2)^2)^3 := by ring
    rw [this, Real.sq_sqrt (by norm_num)]; norm_num
  calc (√2)^m ≤ (√2)^6 := pow_le_pow_right₀ h1 hm
    _ = 8 := h2

lemma exp_nine_fifths_lt : rexp (9/5) < 6.5 := by
  have h5 : (rexp (9/5))^5 = (rexp 1)^9 := by
    rw [← Real.exp_nat_mul, ← Real.exp_nat_mul]; norm_num
  have h1 : (rexp 1)^9 < (2.7182818286:ℝ)^9 :=
    pow_lt_pow_left₀ Real.exp_one_lt_d9 (Real.exp_nonneg _) (by norm_num)
  have h2 : (2.7182818286:ℝ)^9 < 6.5^5 := by norm_num
  exact lt_of_pow_lt_pow_left₀ 5 (by norm_num) (by rw [h5]; exact h1.trans h2)

/-- the condition of `partialgp_ell_term` holds for `m ≤ 6` whenever `2δ ≤ K`
(i.e. `K ≥ 2`, or `K = 1` and `δ ≤ 1/2`) -/
lemma partialgp_ell_cond_half {m K : ℕ} {δ : ℝ} (hm : m ≤ 6) (h0 : 0 < δ)
    (h2 : 2 * δ ≤ K) :
    (√2)^m * rexp (-(Real.log (π^2 * K / (3*δ)) * (Real.log (π^2 * K / (3*δ)) - 1))) ≤ 2 := by
  set L₁ := Real.log (π^2 * K / (3*δ)) with hL₁
  have hK0 : (0:ℝ) < K := by linarith
  have hpi : (9.8596:ℝ) < π^2 := by nlinarith [Real.pi_gt_d2]
  have hL : 9/5 ≤ L₁ := by
    rw [hL₁, Real.le_log_iff_exp_le (by positivity)]
    refine exp_nine_fifths_lt.le.trans ?_
    rw [le_div_iff₀ (by positivity)]
    nlinarith [mul_pos (sub_pos.mpr hpi) hK0]
  have hlog4 : Real.log 4 < 36/25 := by
    have : Real.log 4 = 2 * Real.log 2 := by
      rw [show (4:ℝ) = 2^2 by norm_num, Real.log_pow]; norm_num
    rw [this]; have := Real.log_two_lt_d9; linarith
  have hexp : rexp (-(L₁ * (L₁ - 1))) ≤ 1/4 := by
    have : rexp (-(L₁ * (L₁ - 1))) ≤ rexp (-Real.log 4) := by
      apply Real.exp_le_exp.mpr; nlinarith
    rwa [exp_neg_log (by norm_num), ← one_div] at this
  calc (√2)^m * rexp (-(L₁ * (L₁ - 1))) ≤ 8 * (1/4) :=
        mul_le_mul (sqrt_two_pow_le_eight hm) hexp (Real.exp_nonneg _) (by norm_num)
    _ = 2 := by norm_num

/-- the condition of `partialgp_ell_term` holds for `m ≤ 2` and every `δ ∈ (0,1)` -/
lemma partialgp_ell_cond_two {m K : ℕ} {δ : ℝ} (hm : m ≤ 2) (hK : 1 ≤ K) (h0 : 0 < δ)
    (h1 : δ < 1) :
    (√2)^m * rexp (-(Real.log (π^2 * K / (3*δ)) * (Real.log (π^2 * K / (3*δ)) - 1))) ≤ 2 := by
  set L₁ := Real.log (π^2 * K / (3*δ)) with hL₁
  have hL1 : 1 ≤ L₁ := by
    have := one_le_log_partial_arg 0 K δ hK h0 h1
    simpa using this
  have h1' : (1:ℝ) ≤ √2 := Real.one_le_sqrt.mpr (by norm_num)
  have hpow : (√2)^m ≤ 2 := by
    calc (√2)^m ≤ (√2)^2 := pow_le_pow_right₀ h1' hm
      _ = 2 := Real.sq_sqrt (by norm_num)
  have hexp : rexp (-(L₁ * (L₁ - 1))) ≤ 1 := by
    rw [Real.exp_le_one_iff]; nlinarith
  calc (√2)^m * rexp (-(L₁ * (L₁ - 1))) ≤ 2 * 1 :=
        mul_le_mul hpow hexp (Real.exp_nonneg _) (by norm_num)
    _ = 2 := by norm_num

end VOPy.SchedR
