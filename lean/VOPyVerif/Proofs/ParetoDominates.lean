import VOPyVerif.Proofs.Pareto
import Mathlib.Algebra.Order.Ring.Rat
import Mathlib.Algebra.Order.Field.Rat
import Mathlib.Tactic.Ring
import Mathlib.Tactic.Linarith
/-! `VOPy.dominates W` (the relation the C13 driver runs `Pareto.fast` / `naive` with) is reflexive,
and transitive among vectors of one common length — for *every* matrix `W` (rows of any length:
`dot` truncates to the shorter argument, consistently for the three differences). -/
namespace VOPy

theorem dot_nil_right (w : Vec) : dot w [] = 0 := by
  cases w <;> rfl

theorem dot_vsub_self (w a : Vec) : dot w (vsub a a) = 0 := by
  induction a generalizing w with
  | nil => exact dot_nil_right w
  | cons x t ih =>
    cases w with
    | nil => rfl
    | cons y ws =>
      simp only [vsub, List.zipWith_cons_cons, dot]
      have := ih ws
      simp only [vsub] at this
      rw [this]
      ring

theorem dot_vsub_trans (w : Vec) : ∀ (a b c : Vec), a.length = b.length → b.length = c.length →
    dot w (vsub a c) = dot w (vsub a b) + dot w (vsub b c) := by
  induction w with
  | nil => intro a b c _ _; simp [dot]
  | cons y ws ih =>
    intro a b c hab hbc
    cases a with
    | nil =>
      cases b with
      | nil => simp [vsub, dot]
      | cons _ _ => simp at hab
    | cons x ta =>
      cases b with
      | nil => simp at hab
      | cons x' tb =>
        cases c with
        | nil => simp at hbc
        | cons x'' tc =>
          simp only [List.length_cons, Nat.add_right_cancel_iff] at hab hbc
          have := ih ta tb tc hab hbc
          simp only [vsub, List.zipWith_cons_cons, dot] at this ⊢
          rw [this]
          ring

theorem inCone_iff (W : Mat) (x : Vec) : inCone W x = true ↔ ∀ w ∈ W, 0 ≤ dot w x := by
  simp [inCone, allNonneg, matVec, List.all_eq_true]

theorem dominates_iff (W : Mat) (a b : Vec) :
    dominates W a b = true ↔ ∀ w ∈ W, 0 ≤ dot w (vsub a b) := inCone_iff W _

/-- every vector dominates itself, whatever the shapes -/
theorem dominates_refl (W : Mat) (a : Vec) : dominates W a a = true := by
  rw [dominates_iff]
  intro w _
  rw [dot_vsub_self]

/-- domination is transitive among vectors of equal length -/
theorem dominates_trans (W : Mat) (a b c : Vec) (hab : a.length = b.length)
    (hbc : b.length = c.length) (h1 : dominates W a b = true) (h2 : dominates W b c = true) :
    dominates W a c = true := by
  rw [dominates_iff] at *
  intro w hw
  rw [dot_vsub_trans w a b c hab hbc]
  have := h1 w hw
  have := h2 w hw
  linarith

/-- on a list of vectors of one common length `dominates W` is a preorder -/
theorem dominates_preorderOn (W : Mat) (m : Nat) (xs : List Vec) (hlen : ∀ x ∈ xs, x.length = m) :
    Pareto.PreorderOn (dominates W) xs :=
  ⟨fun a _ => dominates_refl W a,
   fun a ha b hb c hc => dominates_trans W a b c ((hlen a ha).trans (hlen b hb).symm)
     ((hlen b hb).trans (hlen c hc).symm)⟩

end VOPy
