import VOPyVerif.Model.LinCert
import Mathlib.Data.Real.Basic
import Mathlib.Data.Rat.Cast.Order
import Mathlib.Tactic.Linarith
import Mathlib.Tactic.Ring
import Mathlib.Tactic.NormNum
/-!
# Real list vectors and soundness of the three generic checkers of `Model/LinCert.lean`

Real vectors are `List ℝ` (`RVec`) with the same truncating operations as the model's `Vec`
(`rdot`, `radd`, `rsub`, `rsmul`, `rlincomb`), so that every model quantity casts to its real
counterpart by a one-line induction (`cast_dot`, `castV_vadd`, …).

Main results (used by `Props/C10.lean`; reusable by C11, C17, C19):

* `checkWitness_sound` : `checkWitness n S x` ⇒ the cast of `x` satisfies `S` over `ℝ` (`RSat`);
* `checkFarkas_sound`  : `checkFarkas n S y`  ⇒ no real `x` satisfies `S`;
* `checkKKT_sound`     : `checkKKT n S c x lam` ⇒ `x` satisfies `S` and is a nearest point of
                         `{x | S}` to `c` (squared Euclidean distance), over all *real* points.

Completeness of the searches (they always produce a certificate these checkers accept) is in
`Proofs/LinCertComplete.lean` (Fourier–Motzkin) and `Proofs/LinCertKKT.lean` (active-set projection).
-/
namespace VOPy.LinCert

abbrev RVec := List ℝ

def rdot : RVec → RVec → ℝ
  | a :: as, b :: bs => a * b + rdot as bs
  | _, _ => 0

def radd (a b : RVec) : RVec := List.zipWith (· + ·) a b
def rsub (a b : RVec) : RVec := List.zipWith (· - ·) a b
def rsmul (c : ℝ) (a : RVec) : RVec := a.map (c * ·)
def rnormSq (a : RVec) : ℝ := rdot a a
def rzeros (n : ℕ) : RVec := List.replicate n 0

def rlincomb (n : ℕ) : List RVec → RVec → RVec
  | r :: R, y :: ys => radd (rsmul y r) (rlincomb n R ys)
  | _, _ => rzeros n

/-- `Σ yᵢ (rᵢ · x)` -/
def rsumDot : List RVec → RVec → RVec → ℝ
  | r :: R, y :: ys, x => y * rdot r x + rsumDot R ys x
  | _, _, _ => 0

def castV (v : Vec) : RVec := v.map (fun q : ℚ => (q : ℝ))

/-! ### casts -/

@[simp] theorem castV_nil : castV [] = [] := rfl
@[simp] theorem castV_cons (a : ℚ) (v : Vec) : castV (a :: v) = (a : ℝ) :: castV v := rfl
@[simp] theorem castV_length (v : Vec) : (castV v).length = v.length := by simp [castV]

theorem castV_append (a b : Vec) : castV (a ++ b) = castV a ++ castV b := by simp [castV]

theorem cast_dot : ∀ a b : Vec, ((dot a b : ℚ) : ℝ) = rdot (castV a) (castV b)
  | [], _ => by simp [dot, rdot]
  | _ :: _, [] => by simp [dot, rdot]
  | a :: as, b :: bs => by simp [dot, rdot, cast_dot as bs]

theorem castV_vadd : ∀ a b : Vec, castV (vadd a b) = radd (castV a) (castV b)
  | [], _ => by simp [vadd, radd]
  | _ :: _, [] => by simp [vadd, radd]
  | a :: as, b :: bs => by
    have := castV_vadd as bs
    simp only [vadd, radd] at this ⊢
    simp [this]

theorem castV_vsub : ∀ a b : Vec, castV (vsub a b) = rsub (castV a) (castV b)
  | [], _ => by simp [vsub, rsub]
  | _ :: _, [] => by simp [vsub, rsub]
  | a :: as, b :: bs => by
    have := castV_vsub as bs
    simp only [vsub, rsub] at this ⊢
    simp [this]

theorem castV_smul (c : ℚ) : ∀ a : Vec, castV (smul c a) = rsmul (c : ℝ) (castV a)
  | [] => by simp [smul, rsmul]
  | a :: as => by
    have := castV_smul c as
    simp only [smul, rsmul] at this ⊢
    simp [this]

theorem castV_zeros (n : ℕ) : castV (zeros n) = rzeros n := by
  simp [castV, zeros, rzeros]

theorem cast_normSq (a : Vec) : ((normSq a : ℚ) : ℝ) = rnormSq (castV a) := cast_dot a a

theorem castV_lincomb (n : ℕ) : ∀ (R : List Vec) (y : Vec),
    castV (lincomb n R y) = rlincomb n (R.map castV) (castV y)
  | [], _ => by simp [lincomb, rlincomb, castV_zeros]
  | _ :: _, [] => by simp [lincomb, rlincomb, castV_zeros]
  | r :: R, y :: ys => by
    simp [lincomb, rlincomb, castV_vadd, castV_smul, castV_lincomb n R ys]

/-! ### algebra of real list vectors -/

@[simp] theorem radd_length (a b : RVec) : (radd a b).length = min a.length b.length := by
  simp [radd]
@[simp] theorem rsub_length (a b : RVec) : (rsub a b).length = min a.length b.length := by
  simp [rsub]
@[simp] theorem rsmul_length (c : ℝ) (a : RVec) : (rsmul c a).length = a.length := by simp [rsmul]
@[simp] theorem rzeros_length (n : ℕ) : (rzeros n).length = n := by simp [rzeros]

@[simp] theorem rdot_nil_left (x : RVec) : rdot [] x = 0 := by simp [rdot]
@[simp] theorem rdot_nil_right (x : RVec) : rdot x [] = 0 := by cases x <;> simp [rdot]
@[simp] theorem rdot_cons (a b : ℝ) (as bs : RVec) : rdot (a :: as) (b :: bs) = a * b + rdot as bs :=
  rfl

theorem rdot_comm : ∀ a b : RVec, rdot a b = rdot b a
  | [], b => by simp
  | _ :: _, [] => by simp
  | a :: as, b :: bs => by simp [rdot_comm as bs, mul_comm]

theorem rdot_rzeros_left : ∀ (n : ℕ) (x : RVec), rdot (rzeros n) x = 0
  | 0, x => by simp [rzeros]
  | n + 1, [] => by simp
  | n + 1, x :: xs => by
    have := rdot_rzeros_left n xs
    simp only [rzeros] at this
    simp [rzeros, List.replicate_succ, this]

theorem rdot_rsmul_left (c : ℝ) : ∀ a x : RVec, rdot (rsmul c a) x = c * rdot a x
  | [], x => by simp [rsmul]
  | _ :: _, [] => by simp
  | a :: as, x :: xs => by
    have := rdot_rsmul_left c as xs
    simp only [rsmul] at this
    simp [rsmul, this]; ring

theorem rdot_radd_left : ∀ a b x : RVec, a.length = b.length →
    rdot (radd a b) x = rdot a x + rdot b x
  | [], [], x, _ => by simp [radd]
  | [], _ :: _, _, h => by simp at h
  | _ :: _, [], _, h => by simp at h
  | a :: as, b :: bs, [], _ => by simp
  | a :: as, b :: bs, x :: xs, h => by
    have := rdot_radd_left as bs xs (by simpa using h)
    simp only [radd] at this
    simp [radd, this]; ring

theorem rdot_rsub_left : ∀ a b x : RVec, a.length = b.length →
    rdot (rsub a b) x = rdot a x - rdot b x
  | [], [], x, _ => by simp [rsub]
  | [], _ :: _, _, h => by simp at h
  | _ :: _, [], _, h => by simp at h
  | a :: as, b :: bs, [], _ => by simp
  | a :: as, b :: bs, x :: xs, h => by
    have := rdot_rsub_left as bs xs (by simpa using h)
    simp only [rsub] at this
    simp [rsub, this]; ring

theorem rdot_rsub_right (x a b : RVec) (h : a.length = b.length) :
    rdot x (rsub a b) = rdot x a - rdot x b := by
  rw [rdot_comm, rdot_rsub_left a b x h, rdot_comm a, rdot_comm b]

theorem rlincomb_length (n : ℕ) : ∀ (R : List RVec) (y : RVec), (∀ r ∈ R, r.length = n) →
    (rlincomb n R y).length = n
  | [], _, _ => by simp [rlincomb]
  | _ :: _, [], _ => by simp [rlincomb]
  | r :: R, y :: ys, h => by
    have ih := rlincomb_length n R ys (fun r hr => h r (List.mem_cons_of_mem _ hr))
    simp [rlincomb, ih, h r (List.mem_cons_self)]

/-- `(Σ yᵢ rᵢ) · x = Σ yᵢ (rᵢ · x)` when all rows have `n` entries -/
theorem rdot_rlincomb (n : ℕ) : ∀ (R : List RVec) (y x : RVec), (∀ r ∈ R, r.length = n) →
    rdot (rlincomb n R y) x = rsumDot R y x
  | [], _, x, _ => by simp [rlincomb, rsumDot, rdot_rzeros_left]
  | _ :: _, [], x, _ => by simp [rlincomb, rsumDot, rdot_rzeros_left]
  | r :: R, y :: ys, x, h => by
    have hR : ∀ r ∈ R, r.length = n := fun r hr => h r (List.mem_cons_of_mem _ hr)
    have hl := rlincomb_length n R ys hR
    have hr : r.length = n := h r List.mem_cons_self
    simp only [rlincomb, rsumDot]
    rw [rdot_radd_left _ _ _ (by simp [hl, hr]), rdot_rsmul_left, rdot_rlincomb n R ys x hR]

theorem rnormSq_nonneg : ∀ a : RVec, 0 ≤ rnormSq a
  | [] => by simp [rnormSq]
  | a :: as => by
    have := rnormSq_nonneg as
    simp only [rnormSq] at this ⊢
    simp only [rdot_cons]
    nlinarith [mul_self_nonneg a]

/-- `‖x − c‖² = ‖p − c‖² + 2 (p − c)·(x − p) + ‖x − p‖²` -/
theorem rnormSq_sub_expand : ∀ x p c : RVec, x.length = p.length → p.length = c.length →
    rnormSq (rsub x c) =
      rnormSq (rsub p c) + 2 * rdot (rsub p c) (rsub x p) + rnormSq (rsub x p)
  | [], [], [], _, _ => by simp [rnormSq, rsub]
  | [], _ :: _, _, h, _ => by simp at h
  | _ :: _, [], _, h, _ => by simp at h
  | _, [], _ :: _, _, h => by simp at h
  | _, _ :: _, [], _, h => by simp at h
  | x :: xs, p :: ps, c :: cs, h1, h2 => by
    have ih := rnormSq_sub_expand xs ps cs (by simpa using h1) (by simpa using h2)
    simp only [rnormSq, rsub] at ih ⊢
    simp only [List.zipWith_cons_cons, rdot_cons]
    rw [ih]; ring

/-! ### real satisfaction of a system -/

/-- the real vector `x` (with `n` entries) satisfies every inequality of `S` -/
def RSat (n : ℕ) (S : Sys) (x : RVec) : Prop :=
  x.length = n ∧ ∀ r ∈ S, (r.b : ℝ) ≤ rdot (castV r.a) x

theorem wf_iff (n : ℕ) (S : Sys) : wf n S = true ↔ ∀ r ∈ S, r.a.length = n := by
  simp [wf]

theorem satisfies_iff (S : Sys) (x : Vec) :
    satisfies S x = true ↔ ∀ r ∈ S, r.b ≤ dot r.a x := by
  simp [satisfies]

/-- **Witness checker is sound.** -/
theorem checkWitness_sound {n : ℕ} {S : Sys} {x : Vec} (h : checkWitness n S x = true) :
    RSat n S (castV x) := by
  simp only [checkWitness, Bool.and_eq_true, decide_eq_true_eq] at h
  obtain ⟨⟨hx, _⟩, hs⟩ := h
  refine ⟨by simpa using hx, fun r hr => ?_⟩
  have := (satisfies_iff S x).1 hs r hr
  rw [← cast_dot]
  exact_mod_cast this

theorem allNonneg_iff (v : Vec) : allNonneg v = true ↔ ∀ x ∈ v, (0 : ℚ) ≤ x := by
  simp [allNonneg]

theorem isZero_iff (v : Vec) : isZero v = true ↔ v = zeros v.length := by
  induction v with
  | nil => simp [isZero, zeros]
  | cons a v ih =>
    simp only [isZero, List.all_cons, Bool.and_eq_true, decide_eq_true_eq] at ih ⊢
    simp only [zeros, List.length_cons, List.replicate_succ, List.cons.injEq] at ih ⊢
    rw [ih]

/-- `Σ yᵢ bᵢ ≤ Σ yᵢ (aᵢ · x)` for `y ≥ 0` and a real solution `x` -/
theorem combB_le_rsumDot : ∀ (S : Sys) (y : Vec) (x : RVec),
    (∀ r ∈ S, (r.b : ℝ) ≤ rdot (castV r.a) x) → (∀ v ∈ y, (0 : ℚ) ≤ v) →
    ((combB S y : ℚ) : ℝ) ≤ rsumDot ((S.map (·.a)).map castV) (castV y) x
  | [], _, _, _, _ => by simp [combB, rsumDot]
  | _ :: _, [], _, _, _ => by simp [combB, rsumDot]
  | r :: S, y :: ys, x, hs, hy => by
    have ih := combB_le_rsumDot S ys x (fun r hr => hs r (List.mem_cons_of_mem _ hr))
      (fun v hv => hy v (List.mem_cons_of_mem _ hv))
    have h1 := hs r List.mem_cons_self
    have h2 : (0 : ℝ) ≤ (y : ℝ) := by exact_mod_cast hy y List.mem_cons_self
    simp only [combB, List.map_cons, castV_cons, rsumDot]
    push_cast
    nlinarith [mul_le_mul_of_nonneg_left h1 h2]

theorem castV_combA (n : ℕ) (S : Sys) (y : Vec) :
    castV (combA n S y) = rlincomb n ((S.map (·.a)).map castV) (castV y) := by
  simp [combA, castV_lincomb]

theorem rows_length {n : ℕ} {S : Sys} (hwf : ∀ r ∈ S, r.a.length = n) :
    ∀ r ∈ (S.map (·.a)).map castV, r.length = n := by
  intro r hr
  simp only [List.map_map, List.mem_map, Function.comp] at hr
  obtain ⟨q, hq, rfl⟩ := hr
  simpa using hwf q hq

/-- **Farkas checker is sound**: accepted multipliers exclude every real solution. -/
theorem checkFarkas_sound {n : ℕ} {S : Sys} {y : Vec} (h : checkFarkas n S y = true) :
    ¬ ∃ x : RVec, RSat n S x := by
  simp only [checkFarkas, Bool.and_eq_true, decide_eq_true_eq] at h
  obtain ⟨⟨⟨hwf, hy⟩, hz⟩, hb⟩ := h
  rintro ⟨x, -, hx⟩
  have hwf' := (wf_iff n S).1 hwf
  have hy' := (allNonneg_iff y).1 hy
  have h1 := combB_le_rsumDot S y x hx hy'
  have h2 := rdot_rlincomb n _ (castV y) x (rows_length hwf')
  rw [← castV_combA, (isZero_iff _).1 hz, castV_zeros, rdot_rzeros_left] at h2
  have h3 : (0 : ℝ) < ((combB S y : ℚ) : ℝ) := by exact_mod_cast hb
  linarith

/-- complementary slackness kills the multiplier-weighted slack at `x` -/
theorem complSlack_rsumDot : ∀ (S : Sys) (x lam : Vec), complSlack S x lam = true →
    rsumDot ((S.map (·.a)).map castV) (castV lam) (castV x) = ((combB S lam : ℚ) : ℝ)
  | [], _, _, _ => by simp [rsumDot, combB]
  | _ :: _, _, [], _ => by simp [rsumDot, combB]
  | r :: S, x, l :: ls, h => by
    simp only [complSlack, Bool.and_eq_true, decide_eq_true_eq] at h
    have ih := complSlack_rsumDot S x ls h.2
    have h1 : ((l * (dot r.a x - r.b) : ℚ) : ℝ) = 0 := by rw [h.1]; simp
    simp only [List.map_cons, castV_cons, rsumDot, combB, ih]
    push_cast at h1 ⊢
    rw [cast_dot] at h1
    linarith

/-- **KKT checker is sound**: the accepted point is feasible and no real feasible point is closer
to `c`. -/
theorem checkKKT_sound {n : ℕ} {S : Sys} {c x lam : Vec} (h : checkKKT n S c x lam = true) :
    RSat n S (castV x) ∧
    ∀ x' : RVec, RSat n S x' → rnormSq (rsub (castV x) (castV c)) ≤ rnormSq (rsub x' (castV c)) := by
  simp only [checkKKT, Bool.and_eq_true, decide_eq_true_eq] at h
  obtain ⟨⟨⟨⟨⟨hw, hc⟩, -⟩, hl⟩, hst⟩, hcs⟩ := h
  have hsat := checkWitness_sound hw
  refine ⟨hsat, fun x' hx' => ?_⟩
  have hwf : ∀ r ∈ S, r.a.length = n := by
    simp only [checkWitness, Bool.and_eq_true] at hw
    exact (wf_iff n S).1 hw.1.2
  have hl' := (allNonneg_iff lam).1 hl
  -- (x − c)·(x' − x) = Σ λᵢ aᵢ·x' − Σ λᵢ aᵢ·x ≥ Σ λᵢ bᵢ − Σ λᵢ bᵢ = 0
  have hstat : rsub (castV x) (castV c) = rlincomb n ((S.map (·.a)).map castV) (castV lam) := by
    rw [← castV_vsub, hst, castV_combA]
  have e1 := rdot_rlincomb n _ (castV lam) x' (rows_length hwf)
  have e2 := rdot_rlincomb n _ (castV lam) (castV x) (rows_length hwf)
  have g1 := combB_le_rsumDot S lam x' hx'.2 hl'
  have g2 := complSlack_rsumDot S x lam hcs
  have key : 0 ≤ rdot (rsub (castV x) (castV c)) (rsub x' (castV x)) := by
    rw [rdot_rsub_right _ _ _ (by rw [hx'.1, hsat.1]), hstat, e1, e2, g2]
    linarith
  have hlen1 : x'.length = (castV x).length := by rw [hx'.1, hsat.1]
  have hlen2 : (castV x).length = (castV c).length := by rw [hsat.1]; simp [hc]
  rw [rnormSq_sub_expand x' (castV x) (castV c) hlen1 hlen2]
  nlinarith [rnormSq_nonneg (rsub x' (castV x))]

end VOPy.LinCert
