import VOPyVerif.Proofs.CoveredComplete
import VOPyVerif.Proofs.InvBasic
import Mathlib.Data.List.Perm.Basic
/-!
# Invariances of the "is covered" decisions (`Model/Covered.lean`)

The rectangle and ball verdicts *decide* the semantic predicate `Cov` (`Proofs/Covered.lean`,
`Proofs/CoveredComplete.lean`), so their invariances follow from those of `Cov`, proved here by
moving the witness pair `(z, z')`: common translation, positive scaling, positive scaling of cone
rows together with their margins, permutation of the facets.  Helpers for the invariance section of
`Props/C10.lean`.
-/
namespace VOPy.Covered
open VOPy VOPy.LinCert VOPy.Inv

/-! ## real vectors -/

theorem rsub_radd_radd : ∀ (a b T : RVec), a.length ≤ T.length → b.length ≤ T.length →
    rsub (radd a T) (radd b T) = rsub a b
  | [], _, _, _, _ => by simp [rsub, radd]
  | _ :: _, [], _, _, _ => by simp [rsub, radd]
  | _ :: _, _ :: _, [], h, _ => by simp at h
  | x :: a, y :: b, z :: T, ha, hb => by
    have := rsub_radd_radd a b T (by simpa using ha) (by simpa using hb)
    simp only [rsub, radd, List.zipWith_cons_cons, List.cons.injEq] at this ⊢
    exact ⟨by ring, this⟩

theorem radd_length_le {a T : RVec} (h : a.length ≤ T.length) : (radd a T).length = a.length := by
  simp [h]

theorem rsub_rsmul (k : ℝ) : ∀ a b : RVec, rsub (rsmul k a) (rsmul k b) = rsmul k (rsub a b)
  | [], _ => by simp [rsub, rsmul]
  | _ :: _, [] => by simp [rsub, rsmul]
  | x :: a, y :: b => by
    have := rsub_rsmul k a b
    simp only [rsub, rsmul, List.map_cons, List.zipWith_cons_cons, List.cons.injEq] at this ⊢
    exact ⟨by ring, this⟩

theorem rdot_rsmul_right (k : ℝ) (w x : RVec) : rdot w (rsmul k x) = k * rdot w x := by
  rw [rdot_comm, rdot_rsmul_left, rdot_comm]

theorem rnormSq_rsmul (k : ℝ) (a : RVec) : rnormSq (rsmul k a) = k ^ 2 * rnormSq a := by
  unfold rnormSq
  rw [rdot_rsmul_left, rdot_rsmul_right]; ring

theorem rsmul_rsmul (k j : ℝ) (a : RVec) : rsmul k (rsmul j a) = rsmul (k * j) a := by
  simp only [rsmul, List.map_map]
  apply List.map_congr_left
  intro x _; simp [mul_assoc]

theorem rsmul_one (a : RVec) : rsmul 1 a = a := by simp [rsmul]

/-! ## facets -/

theorem facetGe_rsmul (k : ℚ) (hk : 0 < k) : ∀ (W : Mat) (d : RVec) (t : Vec),
    FacetGe W (rsmul (k : ℝ) d) (smul k t) ↔ FacetGe W d t
  | [], _, [] => by simp [FacetGe, smul]
  | [], _, _ :: _ => by simp [FacetGe, smul]
  | _ :: _, _, [] => by simp [FacetGe, smul]
  | w :: W, d, x :: t => by
    have ih := facetGe_rsmul k hk W d t
    have hk' : (0 : ℝ) < (k : ℝ) := by exact_mod_cast hk
    simp only [smul, List.map_cons, FacetGe] at ih ⊢
    rw [ih, rdot_rsmul_right]
    push_cast
    constructor
    · rintro ⟨h1, h2⟩; exact ⟨le_of_mul_le_mul_left h1 hk', h2⟩
    · rintro ⟨h1, h2⟩; exact ⟨mul_le_mul_of_nonneg_left h1 hk'.le, h2⟩

/-- rows and margins scaled by the same positive factors -/
theorem facetGe_scaleRows : ∀ (D : Vec) (W : Mat) (d : RVec) (t : Vec), (∀ e ∈ D, 0 < e) →
    D.length = W.length → t.length = W.length →
    (FacetGe (List.zipWith smul D W) d (List.zipWith (· * ·) D t) ↔ FacetGe W d t)
  | [], [], _, [], _, _, _ => by simp [FacetGe]
  | [], [], _, _ :: _, _, _, h => by simp at h
  | [], _ :: _, _, _, _, h, _ => by simp at h
  | _ :: _, [], _, _, _, h, _ => by simp at h
  | _ :: _, _ :: _, _, [], _, _, h => by simp at h
  | e :: D, w :: W, d, x :: t, hD, hlen, ht => by
    have ih := facetGe_scaleRows D W d t (fun e he => hD e (by simp [he])) (by simpa using hlen)
      (by simpa using ht)
    have he : (0 : ℝ) < (e : ℝ) := by exact_mod_cast hD e (by simp)
    simp only [List.zipWith_cons_cons, FacetGe] at ih ⊢
    rw [ih, castV_smul, rdot_rsmul_left]
    push_cast
    constructor
    · rintro ⟨h1, h2⟩; exact ⟨le_of_mul_le_mul_left h1 he, h2⟩
    · rintro ⟨h1, h2⟩; exact ⟨mul_le_mul_of_nonneg_left h1 he.le, h2⟩

/-- `FacetGe` as a statement about the list of (row, margin) pairs -/
theorem facetGe_pairs : ∀ (ws : List (Vec × ℚ)) (d : RVec),
    FacetGe (ws.map Prod.fst) d (ws.map Prod.snd) ↔ ∀ p ∈ ws, ((p.2 : ℚ) : ℝ) ≤ rdot (castV p.1) d
  | [], _ => by simp [FacetGe]
  | p :: ws, d => by
    have ih := facetGe_pairs ws d
    simp only [List.map_cons, FacetGe, List.mem_cons, forall_eq_or_imp] at ih ⊢
    rw [ih]

theorem facetGe_perm {ws ws' : List (Vec × ℚ)} (h : ws.Perm ws') (d : RVec) :
    FacetGe (ws.map Prod.fst) d (ws.map Prod.snd) ↔ FacetGe (ws'.map Prod.fst) d (ws'.map Prod.snd) := by
  rw [facetGe_pairs, facetGe_pairs]
  exact ⟨fun H p hp => H p (h.mem_iff.mpr hp), fun H p hp => H p (h.mem_iff.mp hp)⟩

theorem facetGe_replicate (W : Mat) (d : RVec) (τ : ℚ) :
    FacetGe W d (List.replicate W.length τ) ↔ ∀ w ∈ W, (τ : ℝ) ≤ rdot (castV w) d := by
  induction W with
  | nil => simp [FacetGe]
  | cons w W ih =>
    simp only [List.length_cons, List.replicate_succ, FacetGe, ih, List.mem_cons, forall_eq_or_imp]

/-! ## `Cov` under a map of the witnesses -/

theorem cov_translate_imp {R₁ R₂ R₁' R₂' : Set RVec} (T : RVec) (W : Mat) (s t : Vec)
    (h₁ : ∀ z ∈ R₁, z.length ≤ T.length ∧ radd z T ∈ R₁')
    (h₂ : ∀ z ∈ R₂, z.length ≤ T.length ∧ radd z T ∈ R₂') :
    Cov R₁ R₂ W s t → Cov R₁' R₂' W s t := by
  rintro ⟨z, hz, z', hz', hf⟩
  refine ⟨radd z T, (h₁ z hz).2, radd z' T, (h₂ z' hz').2, ?_⟩
  rwa [rsub_radd_radd z' z T (h₂ z' hz').1 (h₁ z hz).1]

theorem cov_scale_imp {R₁ R₂ R₁' R₂' : Set RVec} (k : ℚ) (hk : 0 < k) (W : Mat) (s t : Vec)
    (h₁ : ∀ z ∈ R₁, rsmul (k : ℝ) z ∈ R₁') (h₂ : ∀ z ∈ R₂, rsmul (k : ℝ) z ∈ R₂') :
    Cov R₁ R₂ W s t → Cov R₁' R₂' W (smul k s) (smul k t) := by
  rintro ⟨z, hz, z', hz', hf⟩
  refine ⟨rsmul k z, h₁ z hz, rsmul k z', h₂ z' hz', ?_⟩
  rw [castV_smul, rsub_rsmul, rsub_rsmul]
  exact (facetGe_rsmul k hk W _ t).mpr hf

theorem smul_inv_cancel (k : ℚ) (hk : 0 < k) (a : Vec) : smul (1 / k) (smul k a) = a := by
  rw [Inv.smul_smul, one_div, inv_mul_cancel₀ (ne_of_gt hk), Inv.smul_one]

/-! ## boxes -/

theorem inBox_translate : ∀ (l u τ : Vec) (z : RVec), InBox l u z → l.length = τ.length →
    InBox (vadd l τ) (vadd u τ) (radd z (castV τ))
  | [], [], _, [], _, _ => by simp [vadd, radd, InBox]
  | [], [], _, _ :: _, h, _ => by simp [InBox] at h
  | [], _ :: _, _, _, h, _ => by simp [InBox] at h
  | _ :: _, [], _, _, h, _ => by simp [InBox] at h
  | _ :: _, _ :: _, _, [], h, _ => by simp [InBox] at h
  | _ :: _, _ :: _, [], _ :: _, _, h => by simp at h
  | a :: l, b :: u, x :: τ, y :: z, h, hl => by
    have ih := inBox_translate l u τ z h.2.2 (by simpa using hl)
    simp only [vadd, radd, castV_cons, List.zipWith_cons_cons, InBox] at ih ⊢
    refine ⟨?_, ?_, ih⟩
    · push_cast; linarith [h.1]
    · push_cast; linarith [h.2.1]

theorem inBox_scale (k : ℚ) (hk : 0 < k) : ∀ (l u : Vec) (z : RVec), InBox l u z →
    InBox (smul k l) (smul k u) (rsmul (k : ℝ) z)
  | [], [], [], _ => by simp [smul, rsmul, InBox]
  | [], [], _ :: _, h => by simp [InBox] at h
  | [], _ :: _, _, h => by simp [InBox] at h
  | _ :: _, [], _, h => by simp [InBox] at h
  | _ :: _, _ :: _, [], h => by simp [InBox] at h
  | a :: l, b :: u, y :: z, h => by
    have ih := inBox_scale k hk l u z h.2.2
    have hk' : (0 : ℝ) ≤ (k : ℝ) := by exact_mod_cast hk.le
    simp only [smul, rsmul, List.map_cons, InBox] at ih ⊢
    refine ⟨?_, ?_, ih⟩
    · push_cast; exact mul_le_mul_of_nonneg_left h.1 hk'
    · push_cast; exact mul_le_mul_of_nonneg_left h.2.1 hk'

theorem cov_box_translate (W : Mat) (l1 u1 l2 u2 s t τ : Vec)
    (h1 : l1.length = τ.length) (h2 : u1.length = τ.length) (h3 : l2.length = τ.length)
    (h4 : u2.length = τ.length) :
    Cov (box (vadd l1 τ) (vadd u1 τ)) (box (vadd l2 τ) (vadd u2 τ)) W s t ↔
      Cov (box l1 u1) (box l2 u2) W s t := by
  have fwd : ∀ (l u τ : Vec), l.length = τ.length → ∀ z ∈ box l u,
      z.length ≤ (castV τ).length ∧ radd z (castV τ) ∈ box (vadd l τ) (vadd u τ) := by
    intro l u τ hl z hz
    refine ⟨?_, inBox_translate l u τ z hz hl⟩
    have := (InBox.length_eq hz).1
    simp [this, hl]
  constructor
  · intro h
    have := cov_translate_imp (castV (vneg τ)) W s t
      (fwd (vadd l1 τ) (vadd u1 τ) (vneg τ) (by simp [h1]))
      (fwd (vadd l2 τ) (vadd u2 τ) (vneg τ) (by simp [h3])) h
    rwa [vadd_vneg_cancel l1 τ h1, vadd_vneg_cancel u1 τ h2, vadd_vneg_cancel l2 τ h3,
      vadd_vneg_cancel u2 τ h4] at this
  · exact cov_translate_imp (castV τ) W s t (fwd l1 u1 τ h1) (fwd l2 u2 τ h3)

theorem cov_box_scale (W : Mat) (k : ℚ) (hk : 0 < k) (l1 u1 l2 u2 s t : Vec) :
    Cov (box (smul k l1) (smul k u1)) (box (smul k l2) (smul k u2)) W (smul k s) (smul k t) ↔
      Cov (box l1 u1) (box l2 u2) W s t := by
  constructor
  · intro h
    have hk' : 0 < 1 / k := by positivity
    have := cov_scale_imp (1 / k) hk' W (smul k s) (smul k t)
      (fun z hz => inBox_scale (1 / k) hk' (smul k l1) (smul k u1) z hz)
      (fun z hz => inBox_scale (1 / k) hk' (smul k l2) (smul k u2) z hz) h
    have e := smul_inv_cancel k hk
    rw [e l1, e u1, e l2, e u2, e s, e t] at this
    exact this
  · exact cov_scale_imp k hk W s t (fun z hz => inBox_scale k hk l1 u1 z hz)
      (fun z hz => inBox_scale k hk l2 u2 z hz)

/-! ## balls -/

theorem ball_translate (c τ : Vec) (a : ℚ) (hc : c.length = τ.length) :
    ∀ z ∈ ball c a, z.length ≤ (castV τ).length ∧ radd z (castV τ) ∈ ball (vadd c τ) a := by
  rintro z ⟨ha, hl, hn⟩
  refine ⟨by simp [hl, hc], ha, by simp [hl, hc], ?_⟩
  rw [castV_vadd, rsub_radd_radd z (castV c) (castV τ) (by simp [hl, hc]) (by simp [hc])]
  exact hn

theorem ball_scale (k : ℚ) (hk : 0 < k) (c : Vec) (a : ℚ) :
    ∀ z ∈ ball c a, rsmul (k : ℝ) z ∈ ball (smul k c) (k * a) := by
  rintro z ⟨ha, hl, hn⟩
  refine ⟨mul_nonneg hk.le ha, by simp [hl], ?_⟩
  rw [castV_smul, rsub_rsmul, rnormSq_rsmul]
  push_cast
  rw [mul_pow]
  exact mul_le_mul_of_nonneg_left hn (by positivity)

theorem cov_ball_translate (W : Mat) (c1 c2 s t τ : Vec) (a1 a2 : ℚ)
    (h1 : c1.length = τ.length) (h2 : c2.length = τ.length) :
    Cov (ball (vadd c1 τ) a1) (ball (vadd c2 τ) a2) W s t ↔ Cov (ball c1 a1) (ball c2 a2) W s t := by
  constructor
  · intro h
    have := cov_translate_imp (castV (vneg τ)) W s t
      (ball_translate (vadd c1 τ) (vneg τ) a1 (by simp [h1]))
      (ball_translate (vadd c2 τ) (vneg τ) a2 (by simp [h2])) h
    rwa [vadd_vneg_cancel c1 τ h1, vadd_vneg_cancel c2 τ h2] at this
  · exact cov_translate_imp (castV τ) W s t (ball_translate c1 τ a1 h1) (ball_translate c2 τ a2 h2)

theorem cov_ball_scale (W : Mat) (k : ℚ) (hk : 0 < k) (c1 c2 s t : Vec) (a1 a2 : ℚ) :
    Cov (ball (smul k c1) (k * a1)) (ball (smul k c2) (k * a2)) W (smul k s) (smul k t) ↔
      Cov (ball c1 a1) (ball c2 a2) W s t := by
  constructor
  · intro h
    have hk' : 0 < 1 / k := by positivity
    have := cov_scale_imp (1 / k) hk' W (smul k s) (smul k t)
      (ball_scale (1 / k) hk' (smul k c1) (k * a1)) (ball_scale (1 / k) hk' (smul k c2) (k * a2)) h
    have e : ∀ a : ℚ, 1 / k * (k * a) = a := fun a => by field_simp
    have e' := smul_inv_cancel k hk
    rw [e' c1, e' c2, e' s, e' t, e a1, e a2] at this
    exact this
  · exact cov_scale_imp k hk W s t (ball_scale k hk c1 a1) (ball_scale k hk c2 a2)

/-! ## ellipsoids `{c + L u | ‖u‖ ≤ a}` -/

theorem radd_right_comm : ∀ a b c : RVec, radd (radd a b) c = radd (radd a c) b
  | [], _, _ => by simp [radd]
  | _ :: _, [], _ => by simp [radd]
  | _ :: _, _ :: _, [] => by simp [radd]
  | x :: a, y :: b, z :: c => by
    have := radd_right_comm a b c
    simp only [radd, List.zipWith_cons_cons, List.cons.injEq] at this ⊢
    exact ⟨by ring, this⟩

theorem ell_translate (c τ : Vec) (L : Mat) (a : ℚ) (hc : c.length = τ.length) :
    ∀ z ∈ ell c L a, z.length ≤ (castV τ).length ∧ radd z (castV τ) ∈ ell (vadd c τ) L a := by
  rintro z ⟨ha, u, hu, hn, rfl⟩
  refine ⟨by simp [hc], ha, u, by simp [hu, hc], hn, ?_⟩
  rw [castV_vadd, radd_right_comm]

theorem rmatVec_rsmul (L : Mat) (k : ℝ) (u : RVec) : rmatVec L (rsmul k u) = rsmul k (rmatVec L u) := by
  simp only [rmatVec, rsmul, List.map_map]
  apply List.map_congr_left
  intro r _
  simp only [Function.comp_apply]
  exact rdot_rsmul_right k (castV r) u

theorem radd_rsmul (k : ℝ) : ∀ a b : RVec, radd (rsmul k a) (rsmul k b) = rsmul k (radd a b)
  | [], _ => by simp [radd, rsmul]
  | _ :: _, [] => by simp [radd, rsmul]
  | x :: a, y :: b => by
    have := radd_rsmul k a b
    simp only [radd, rsmul, List.map_cons, List.zipWith_cons_cons, List.cons.injEq] at this ⊢
    exact ⟨by ring, this⟩

/-- scaling the centre and the radius `alpha` (the factor `L` fixed) -/
theorem ell_scale (k : ℚ) (hk : 0 < k) (c : Vec) (L : Mat) (a : ℚ) :
    ∀ z ∈ ell c L a, rsmul (k : ℝ) z ∈ ell (smul k c) L (k * a) := by
  rintro z ⟨ha, u, hu, hn, rfl⟩
  refine ⟨mul_nonneg hk.le ha, rsmul k u, by simp [hu], ?_, ?_⟩
  · rw [rnormSq_rsmul]; push_cast; rw [mul_pow]
    exact mul_le_mul_of_nonneg_left hn (by positivity)
  · rw [castV_smul, rmatVec_rsmul, radd_rsmul]

theorem cov_ell_translate (W : Mat) (c1 c2 s t τ : Vec) (L1 L2 : Mat) (a1 a2 : ℚ)
    (h1 : c1.length = τ.length) (h2 : c2.length = τ.length) :
    Cov (ell (vadd c1 τ) L1 a1) (ell (vadd c2 τ) L2 a2) W s t ↔ Cov (ell c1 L1 a1) (ell c2 L2 a2) W s t := by
  constructor
  · intro h
    have := cov_translate_imp (castV (vneg τ)) W s t
      (ell_translate (vadd c1 τ) (vneg τ) L1 a1 (by simp [h1]))
      (ell_translate (vadd c2 τ) (vneg τ) L2 a2 (by simp [h2])) h
    rwa [vadd_vneg_cancel c1 τ h1, vadd_vneg_cancel c2 τ h2] at this
  · exact cov_translate_imp (castV τ) W s t (ell_translate c1 τ L1 a1 h1) (ell_translate c2 τ L2 a2 h2)

theorem cov_ell_scale (W : Mat) (k : ℚ) (hk : 0 < k) (c1 c2 s t : Vec) (L1 L2 : Mat) (a1 a2 : ℚ) :
    Cov (ell (smul k c1) L1 (k * a1)) (ell (smul k c2) L2 (k * a2)) W (smul k s) (smul k t) ↔
      Cov (ell c1 L1 a1) (ell c2 L2 a2) W s t := by
  constructor
  · intro h
    have hk' : 0 < 1 / k := by positivity
    have := cov_scale_imp (1 / k) hk' W (smul k s) (smul k t)
      (ell_scale (1 / k) hk' (smul k c1) L1 (k * a1)) (ell_scale (1 / k) hk' (smul k c2) L2 (k * a2)) h
    have e : ∀ a : ℚ, 1 / k * (k * a) = a := fun a => by field_simp
    have e' := smul_inv_cancel k hk
    rw [e' c1, e' c2, e' s, e' t, e a1, e a2] at this
    exact this
  · exact cov_scale_imp k hk W s t (ell_scale k hk c1 L1 a1) (ell_scale k hk c2 L2 a2)

/-! ## verdicts -/

theorem verdict_eq_of_iff {v v' : Verdict} (hv : v ≠ .inconclusive) (hv' : v' ≠ .inconclusive)
    (h : v = .yes ↔ v' = .yes) : v = v' := by
  cases v <;> cases v' <;> simp_all

theorem smul_zeros (k : ℚ) (n : Nat) : smul k (zeros n) = zeros n := by simp [smul, zeros]

theorem zipWith_mul_zeros (D : Vec) (n : Nat) (h : D.length = n) :
    List.zipWith (· * ·) D (zeros n) = zeros n := by
  subst h
  induction D with
  | nil => simp [zeros]
  | cons d D ih => simp only [zeros, List.length_cons, List.replicate_succ, List.zipWith_cons_cons,
      mul_zero] at ih ⊢; rw [ih]

theorem expandSlack_smul (m : Nat) (c : ℚ) (s : Vec) :
    expandSlack m (smul c s) = (expandSlack m s).map (smul c) := by
  unfold expandSlack
  match s with
  | [] => simp [smul]
  | [x] => simp [smul]
  | x :: y :: r =>
    simp only [smul, List.map_cons, List.length_cons, List.length_map]
    split <;> simp [smul]

theorem ncols_scaleRows (D : Vec) (W : Mat) (h : D.length = W.length) :
    ncols (List.zipWith smul D W) = ncols W := by
  cases D <;> cases W <;> simp_all [ncols]

theorem ballVerdict_guard_neg (W : Mat) (c1 c2 t : Vec) (a1 a2 : ℚ) (h : a1 < 0 ∨ a2 < 0) :
    ballVerdict W c1 a1 c2 a2 t = .inconclusive := by
  unfold ballVerdict
  rcases h with h | h <;> simp [h]


/-! ## the rectangle verdict -/

theorem rectVerdict_translate (W : Mat) (l1 u1 l2 u2 s t τ : Vec)
    (h1 : u1.length = l1.length) (h2 : l2.length = l1.length) (h3 : u2.length = l1.length)
    (hs : s.length = l1.length) (ht : W.length = t.length) (hW : ∀ w ∈ W, w.length = l1.length)
    (hτ : τ.length = l1.length) :
    rectVerdict W (vadd l1 τ) (vadd u1 τ) (vadd l2 τ) (vadd u2 τ) s t = rectVerdict W l1 u1 l2 u2 s t := by
  have e : (vadd l1 τ).length = l1.length := by simp [hτ]
  have hW' : ∀ w ∈ W, w.length = (vadd l1 τ).length := fun w hw => by rw [e]; exact hW w hw
  apply verdict_eq_of_iff (rectVerdict_total _ _ _ _ _ _ _ hW') (rectVerdict_total _ _ _ _ _ _ _ hW)
  rw [rectVerdict_yes_iff W _ _ _ _ s t (by simp [hτ, h1]) (by simp [hτ, h2]) (by simp [hτ, h3])
      (by rw [e]; exact hs) ht hW',
    rectVerdict_yes_iff W l1 u1 l2 u2 s t h1 h2 h3 hs ht hW]
  exact cov_box_translate W l1 u1 l2 u2 s t τ hτ.symm (h1.trans hτ.symm) (h2.trans hτ.symm)
    (h3.trans hτ.symm)

theorem rectVerdict_scale (W : Mat) (k : ℚ) (hk : 0 < k) (l1 u1 l2 u2 s t : Vec)
    (h1 : u1.length = l1.length) (h2 : l2.length = l1.length) (h3 : u2.length = l1.length)
    (hs : s.length = l1.length) (ht : W.length = t.length) (hW : ∀ w ∈ W, w.length = l1.length) :
    rectVerdict W (smul k l1) (smul k u1) (smul k l2) (smul k u2) (smul k s) (smul k t) =
      rectVerdict W l1 u1 l2 u2 s t := by
  have hW' : ∀ w ∈ W, w.length = (smul k l1).length := fun w hw => by simp [hW w hw]
  apply verdict_eq_of_iff (rectVerdict_total _ _ _ _ _ _ _ hW') (rectVerdict_total _ _ _ _ _ _ _ hW)
  rw [rectVerdict_yes_iff W _ _ _ _ _ _ (by simp [h1]) (by simp [h2]) (by simp [h3]) (by simp [hs])
      (by simp [ht]) hW',
    rectVerdict_yes_iff W l1 u1 l2 u2 s t h1 h2 h3 hs ht hW]
  exact cov_box_scale W k hk l1 u1 l2 u2 s t

theorem cov_scaleRows (R₁ R₂ : Set RVec) (D : Vec) (W : Mat) (s t : Vec) (hD : ∀ e ∈ D, 0 < e)
    (hlen : D.length = W.length) (ht : t.length = W.length) :
    Cov R₁ R₂ (List.zipWith smul D W) s (List.zipWith (· * ·) D t) ↔ Cov R₁ R₂ W s t := by
  unfold Cov
  simp only [facetGe_scaleRows D W _ t hD hlen ht]

theorem cov_perm (R₁ R₂ : Set RVec) {ws ws' : List (Vec × ℚ)} (h : ws.Perm ws') (s : Vec) :
    Cov R₁ R₂ (ws.map Prod.fst) s (ws.map Prod.snd) ↔ Cov R₁ R₂ (ws'.map Prod.fst) s (ws'.map Prod.snd) := by
  unfold Cov
  simp only [facetGe_perm h]

theorem rectVerdict_scaleRows (D : Vec) (W : Mat) (l1 u1 l2 u2 s t : Vec) (hD : ∀ e ∈ D, 0 < e)
    (hlen : D.length = W.length)
    (h1 : u1.length = l1.length) (h2 : l2.length = l1.length) (h3 : u2.length = l1.length)
    (hs : s.length = l1.length) (ht : W.length = t.length) (hW : ∀ w ∈ W, w.length = l1.length) :
    rectVerdict (List.zipWith smul D W) l1 u1 l2 u2 s (List.zipWith (· * ·) D t) =
      rectVerdict W l1 u1 l2 u2 s t := by
  have hW' : ∀ w ∈ List.zipWith smul D W, w.length = l1.length := by
    intro w hw
    obtain ⟨i, hi, rfl⟩ := List.mem_iff_getElem.1 hw
    simp only [List.getElem_zipWith, Inv.smul_length]
    exact hW _ (List.getElem_mem _)
  apply verdict_eq_of_iff (rectVerdict_total _ _ _ _ _ _ _ hW') (rectVerdict_total _ _ _ _ _ _ _ hW)
  rw [rectVerdict_yes_iff _ l1 u1 l2 u2 s _ h1 h2 h3 hs (by simp [hlen, ← ht]) hW',
    rectVerdict_yes_iff W l1 u1 l2 u2 s t h1 h2 h3 hs ht hW]
  exact cov_scaleRows _ _ D W s t hD hlen ht.symm

theorem map_fst_zip (W : Mat) (t : Vec) (h : W.length = t.length) : (W.zip t).map Prod.fst = W := by
  induction W generalizing t with
  | nil => simp
  | cons w W ih => cases t with
    | nil => simp at h
    | cons x t => simp [ih t (by simpa using h)]

theorem map_snd_zip (W : Mat) (t : Vec) (h : W.length = t.length) : (W.zip t).map Prod.snd = t := by
  induction W generalizing t with
  | nil => cases t <;> simp_all
  | cons w W ih => cases t with
    | nil => simp at h
    | cons x t => simp [ih t (by simpa using h)]

theorem rectVerdict_perm {ws ws' : List (Vec × ℚ)} (h : ws.Perm ws') (l1 u1 l2 u2 s : Vec)
    (h1 : u1.length = l1.length) (h2 : l2.length = l1.length) (h3 : u2.length = l1.length)
    (hs : s.length = l1.length) (hW : ∀ p ∈ ws, p.1.length = l1.length) :
    rectVerdict (ws.map Prod.fst) l1 u1 l2 u2 s (ws.map Prod.snd) =
      rectVerdict (ws'.map Prod.fst) l1 u1 l2 u2 s (ws'.map Prod.snd) := by
  have hWa : ∀ w ∈ ws.map Prod.fst, w.length = l1.length := by
    intro w hw; obtain ⟨p, hp, rfl⟩ := List.mem_map.1 hw; exact hW p hp
  have hWb : ∀ w ∈ ws'.map Prod.fst, w.length = l1.length := by
    intro w hw; obtain ⟨p, hp, rfl⟩ := List.mem_map.1 hw; exact hW p (h.mem_iff.mpr hp)
  apply verdict_eq_of_iff (rectVerdict_total _ _ _ _ _ _ _ hWa) (rectVerdict_total _ _ _ _ _ _ _ hWb)
  rw [rectVerdict_yes_iff _ l1 u1 l2 u2 s _ h1 h2 h3 hs (by simp) hWa,
    rectVerdict_yes_iff _ l1 u1 l2 u2 s _ h1 h2 h3 hs (by simp) hWb]
  exact cov_perm _ _ h s

/-! ## the ball verdict -/

theorem ballVerdict_translate (W : Mat) (c1 c2 t τ : Vec) (a1 a2 : ℚ)
    (hc : c2.length = c1.length) (hW : ∀ w ∈ W, w.length = c1.length) (ht : W.length = t.length)
    (hτ : τ.length = c1.length) :
    ballVerdict W (vadd c1 τ) a1 (vadd c2 τ) a2 t = ballVerdict W c1 a1 c2 a2 t := by
  by_cases hneg : a1 < 0 ∨ a2 < 0
  · rw [ballVerdict_guard_neg _ _ _ _ _ _ hneg, ballVerdict_guard_neg _ _ _ _ _ _ hneg]
  · have ha1 : 0 ≤ a1 := not_lt.mp (fun h => hneg (Or.inl h))
    have ha2 : 0 ≤ a2 := not_lt.mp (fun h => hneg (Or.inr h))
    have e : (vadd c1 τ).length = c1.length := by simp [hτ]
    have hW' : ∀ w ∈ W, w.length = (vadd c1 τ).length := fun w hw => by rw [e]; exact hW w hw
    have hc' : (vadd c2 τ).length = (vadd c1 τ).length := by simp [hτ, hc]
    apply verdict_eq_of_iff (ballVerdict_total _ _ _ _ _ _ ha1 ha2 hc' hW')
      (ballVerdict_total _ _ _ _ _ _ ha1 ha2 hc hW)
    rw [ballVerdict_yes_iff W _ _ t a1 a2 ha1 ha2 hc' hW' ht,
      ballVerdict_yes_iff W c1 c2 t a1 a2 ha1 ha2 hc hW ht, e]
    exact cov_ball_translate W c1 c2 _ t τ a1 a2 hτ.symm (hc.trans hτ.symm)

theorem ballVerdict_scale (W : Mat) (k : ℚ) (hk : 0 < k) (c1 c2 t : Vec) (a1 a2 : ℚ)
    (hc : c2.length = c1.length) (hW : ∀ w ∈ W, w.length = c1.length) (ht : W.length = t.length) :
    ballVerdict W (smul k c1) (k * a1) (smul k c2) (k * a2) (smul k t) = ballVerdict W c1 a1 c2 a2 t := by
  have sgn : ∀ a : ℚ, k * a < 0 ↔ a < 0 := fun a =>
    ⟨fun h => by by_contra h'; exact absurd h (not_lt.mpr (mul_nonneg hk.le (not_lt.mp h'))),
     fun h => mul_neg_of_pos_of_neg hk h⟩
  by_cases hneg : a1 < 0 ∨ a2 < 0
  · rw [ballVerdict_guard_neg _ _ _ _ _ _ hneg,
      ballVerdict_guard_neg _ _ _ _ _ _ (hneg.imp (sgn a1).mpr (sgn a2).mpr)]
  · have ha1 : 0 ≤ a1 := not_lt.mp (fun h => hneg (Or.inl h))
    have ha2 : 0 ≤ a2 := not_lt.mp (fun h => hneg (Or.inr h))
    have hW' : ∀ w ∈ W, w.length = (smul k c1).length := fun w hw => by simp [hW w hw]
    have hc' : (smul k c2).length = (smul k c1).length := by simp [hc]
    apply verdict_eq_of_iff
      (ballVerdict_total _ _ _ _ _ _ (mul_nonneg hk.le ha1) (mul_nonneg hk.le ha2) hc' hW')
      (ballVerdict_total _ _ _ _ _ _ ha1 ha2 hc hW)
    rw [ballVerdict_yes_iff W _ _ _ _ _ (mul_nonneg hk.le ha1) (mul_nonneg hk.le ha2) hc' hW'
        (by simp [ht]),
      ballVerdict_yes_iff W c1 c2 t a1 a2 ha1 ha2 hc hW ht, Inv.smul_length]
    have := cov_ball_scale W k hk c1 c2 (zeros c1.length) t a1 a2
    rwa [smul_zeros] at this

theorem ballVerdict_scaleRows (D : Vec) (W : Mat) (c1 c2 t : Vec) (a1 a2 : ℚ) (hD : ∀ e ∈ D, 0 < e)
    (hlen : D.length = W.length) (hc : c2.length = c1.length) (hW : ∀ w ∈ W, w.length = c1.length)
    (ht : W.length = t.length) :
    ballVerdict (List.zipWith smul D W) c1 a1 c2 a2 (List.zipWith (· * ·) D t) =
      ballVerdict W c1 a1 c2 a2 t := by
  by_cases hneg : a1 < 0 ∨ a2 < 0
  · rw [ballVerdict_guard_neg _ _ _ _ _ _ hneg, ballVerdict_guard_neg _ _ _ _ _ _ hneg]
  · have ha1 : 0 ≤ a1 := not_lt.mp (fun h => hneg (Or.inl h))
    have ha2 : 0 ≤ a2 := not_lt.mp (fun h => hneg (Or.inr h))
    have hW' : ∀ w ∈ List.zipWith smul D W, w.length = c1.length := by
      intro w hw
      obtain ⟨i, hi, rfl⟩ := List.mem_iff_getElem.1 hw
      simp only [List.getElem_zipWith, Inv.smul_length]
      exact hW _ (List.getElem_mem _)
    apply verdict_eq_of_iff (ballVerdict_total _ _ _ _ _ _ ha1 ha2 hc hW')
      (ballVerdict_total _ _ _ _ _ _ ha1 ha2 hc hW)
    rw [ballVerdict_yes_iff _ c1 c2 _ a1 a2 ha1 ha2 hc hW' (by simp [hlen, ← ht]),
      ballVerdict_yes_iff W c1 c2 t a1 a2 ha1 ha2 hc hW ht]
    exact cov_scaleRows _ _ D W _ t hD hlen ht.symm

theorem ballVerdict_perm {ws ws' : List (Vec × ℚ)} (h : ws.Perm ws') (c1 c2 : Vec) (a1 a2 : ℚ)
    (hc : c2.length = c1.length) (hW : ∀ p ∈ ws, p.1.length = c1.length) :
    ballVerdict (ws.map Prod.fst) c1 a1 c2 a2 (ws.map Prod.snd) =
      ballVerdict (ws'.map Prod.fst) c1 a1 c2 a2 (ws'.map Prod.snd) := by
  by_cases hneg : a1 < 0 ∨ a2 < 0
  · rw [ballVerdict_guard_neg _ _ _ _ _ _ hneg, ballVerdict_guard_neg _ _ _ _ _ _ hneg]
  · have ha1 : 0 ≤ a1 := not_lt.mp (fun h => hneg (Or.inl h))
    have ha2 : 0 ≤ a2 := not_lt.mp (fun h => hneg (Or.inr h))
    have hWa : ∀ w ∈ ws.map Prod.fst, w.length = c1.length := by
      intro w hw; obtain ⟨p, hp, rfl⟩ := List.mem_map.1 hw; exact hW p hp
    have hWb : ∀ w ∈ ws'.map Prod.fst, w.length = c1.length := by
      intro w hw; obtain ⟨p, hp, rfl⟩ := List.mem_map.1 hw; exact hW p (h.mem_iff.mpr hp)
    apply verdict_eq_of_iff (ballVerdict_total _ _ _ _ _ _ ha1 ha2 hc hWa)
      (ballVerdict_total _ _ _ _ _ _ ha1 ha2 hc hWb)
    rw [ballVerdict_yes_iff _ c1 c2 _ a1 a2 ha1 ha2 hc hWa (by simp),
      ballVerdict_yes_iff _ c1 c2 _ a1 a2 ha1 ha2 hc hWb (by simp)]
    exact cov_perm _ _ h _

/-! ## general ellipsoids: the certificates of a case certify every translate of it -/

theorem vsub_vadd4 : ∀ (c2 c1 τ M2 M1 : Vec), c1.length = τ.length → c2.length = τ.length →
    vsub (vadd (vadd c2 τ) M2) (vadd (vadd c1 τ) M1) = vsub (vadd c2 M2) (vadd c1 M1)
  | [], _, _, _, _, _, _ => by simp [vsub, vadd]
  | _ :: _, [], _, _, _, _, _ => by simp [vsub, vadd]
  | _ :: _, _ :: _, [], _, _, h, _ => by simp at h
  | _ :: _, _ :: _, _ :: _, [], _, _, _ => by simp [vsub, vadd]
  | _ :: _, _ :: _, _ :: _, _ :: _, [], _, _ => by simp [vsub, vadd]
  | a :: c2, b :: c1, z :: τ, x :: M2, y :: M1, h1, h2 => by
    have := vsub_vadd4 c2 c1 τ M2 M1 (by simpa using h1) (by simpa using h2)
    simp only [vsub, vadd, List.zipWith_cons_cons, List.cons.injEq] at this ⊢
    exact ⟨by ring, this⟩

theorem checkEllWitness_translate (W : Mat) (c1 : Vec) (L1 : Mat) (a1 : ℚ) (c2 : Vec) (L2 : Mat) (a2 : ℚ)
    (t u1 u2 τ : Vec) (h1 : c1.length = τ.length) (h2 : c2.length = τ.length) :
    checkEllWitness W (vadd c1 τ) L1 a1 (vadd c2 τ) L2 a2 t u1 u2 =
      checkEllWitness W c1 L1 a1 c2 L2 a2 t u1 u2 := by
  unfold checkEllWitness ellPoint wfEll
  have e1 : (vadd c1 τ).length = c1.length := by simp [h1]
  have e2 : (vadd c2 τ).length = c2.length := by simp [h2]
  simp only [e1, e2]
  rw [vsub_vadd4 c2 c1 τ _ _ h1 h2]

theorem checkEllSep_translate (W : Mat) (c1 : Vec) (L1 : Mat) (a1 : ℚ) (c2 : Vec) (L2 : Mat) (a2 : ℚ)
    (t lam τ : Vec) (h1 : c1.length = τ.length) (h2 : c2.length = τ.length) :
    checkEllSep W (vadd c1 τ) L1 a1 (vadd c2 τ) L2 a2 t lam = checkEllSep W c1 L1 a1 c2 L2 a2 t lam := by
  unfold checkEllSep wfEll
  have e1 : (vadd c1 τ).length = c1.length := by simp [h1]
  have e2 : (vadd c2 τ).length = c2.length := by simp [h2]
  simp only [e1, e2]
  rw [vsub_vadd_vadd c2 c1 τ h2 h1]

theorem ellVerdict_translate (W : Mat) (c1 : Vec) (L1 : Mat) (a1 : ℚ) (c2 : Vec) (L2 : Mat) (a2 : ℚ)
    (t u1 u2 lam τ : Vec) (h1 : c1.length = τ.length) (h2 : c2.length = τ.length) :
    ellVerdict W (vadd c1 τ) L1 a1 (vadd c2 τ) L2 a2 t u1 u2 lam =
      ellVerdict W c1 L1 a1 c2 L2 a2 t u1 u2 lam := by
  unfold ellVerdict
  rw [checkEllWitness_translate _ _ _ _ _ _ _ _ _ _ τ h1 h2,
    checkEllSep_translate _ _ _ _ _ _ _ _ _ τ h1 h2]

end VOPy.Covered
