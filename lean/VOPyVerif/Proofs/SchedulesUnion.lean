import VOPyVerif.Proofs.Schedules
/-!
# C04 helper lemmas: from a union-bound sum to "with probability ≥ 1 − δ"

Countable sub-additivity for real-valued measures and the resulting coverage statement: if the
(summable) sum of the probabilities of the "outside" events is at most `δ`, then with probability at
least `1 − δ` no such event ever happens.
-/
namespace VOPy.SchedR
open MeasureTheory ProbabilityTheory
open scoped NNReal ENNReal

variable {Ω : Type*} [MeasurableSpace Ω]

lemma measureReal_iUnion_nat_le (P : Measure Ω) [IsFiniteMeasure P] (A : ℕ → Set Ω)
    (hs : Summable (fun t => P.real (A t))) :
    P.real (⋃ t, A t) ≤ ∑' t, P.real (A t) := by
  have h := measure_iUnion_le (μ := P) A
  have e : ∑' t, P (A t) = ENNReal.ofReal (∑' t, P.real (A t)) := by
    rw [ENNReal.ofReal_tsum_of_nonneg (fun _ => measureReal_nonneg) hs]
    congr 1; funext t
    rw [measureReal_def, ENNReal.ofReal_toReal (measure_ne_top _ _)]
  rw [measureReal_def]
  exact ENNReal.toReal_le_of_le_ofReal (tsum_nonneg fun _ => measureReal_nonneg) (h.trans e.le)

/-- **Coverage from a union bound.**  `E t i j` = "in round `t` the value of design `i`, objective
`j` is outside its region".  If `∑_t ∑_i ∑_j P(E t i j)` converges and is `≤ δ`, then with
probability `≥ 1 − δ` every value is inside its region in every round. -/
lemma coverage_of_union_bound (P : Measure Ω) [IsProbabilityMeasure P] {K m : ℕ}
    (E : ℕ → Fin K → Fin m → Set Ω) (hE : ∀ t i j, MeasurableSet (E t i j)) {δ : ℝ}
    (hs : Summable fun t => ∑ i, ∑ j, P.real (E t i j))
    (hle : ∑' t, ∑ i, ∑ j, P.real (E t i j) ≤ δ) :
    1 - δ ≤ P.real {ω | ∀ t i j, ω ∉ E t i j} := by
  set A : ℕ → Set Ω := fun t => ⋃ i, ⋃ j, E t i j with hA
  have hAle : ∀ t, P.real (A t) ≤ ∑ i, ∑ j, P.real (E t i j) := by
    intro t
    refine (measureReal_iUnion_fintype_le _).trans ?_
    exact Finset.sum_le_sum fun i _ => measureReal_iUnion_fintype_le _
  have hsA : Summable (fun t => P.real (A t)) :=
    Summable.of_nonneg_of_le (fun _ => measureReal_nonneg) hAle hs
  have hU : P.real (⋃ t, A t) ≤ δ :=
    (measureReal_iUnion_nat_le P A hsA).trans ((hsA.tsum_le_tsum hAle hs).trans hle)
  have hset : {ω | ∀ t i j, ω ∉ E t i j} = (⋃ t, A t)ᶜ := by
    ext ω; simp [hA]
  have hmeas : MeasurableSet (⋃ t, A t) :=
    MeasurableSet.iUnion fun t => MeasurableSet.iUnion fun i => MeasurableSet.iUnion fun j => hE t i j
  rw [hset, measureReal_compl hmeas]
  simp only [probReal_univ]
  linarith

/-- Coverage for coordinatewise Gaussian regions: random values `X t i j` with laws
`N(μ t i j, v t i j)` on one probability space, half-widths `β t · √v`; if the union-bound sum of the
Gaussian tails is `≤ δ`, then with probability `≥ 1 − δ` all values are inside in all rounds. -/
lemma gauss_coverage (P : Measure Ω) [IsProbabilityMeasure P] {K m : ℕ} (β : ℕ → ℝ)
    (X : ℕ → Fin K → Fin m → Ω → ℝ) (hX : ∀ t i j, Measurable (X t i j))
    (μ : ℕ → Fin K → Fin m → ℝ) (v : ℕ → Fin K → Fin m → ℝ≥0)
    (hlaw : ∀ t i j, P.map (X t i j) = gaussianReal (μ t i j) (v t i j)) {δ : ℝ}
    (hs : Summable (fun t => ∑ i, ∑ j, (gaussianReal (μ t i j) (v t i j)).real
        {x | β t * √(v t i j : ℝ) < |x - μ t i j|}))
    (hle : ∑' t, (∑ i, ∑ j, (gaussianReal (μ t i j) (v t i j)).real
        {x | β t * √(v t i j : ℝ) < |x - μ t i j|}) ≤ δ) :
    1 - δ ≤ P.real {ω | ∀ t i j, |X t i j ω - μ t i j| ≤ β t * √(v t i j : ℝ)} := by
  set E : ℕ → Fin K → Fin m → Set Ω :=
    fun t i j => X t i j ⁻¹' {x | β t * √(v t i j : ℝ) < |x - μ t i j|} with hEdef
  have hm : ∀ t i j, MeasurableSet {x : ℝ | β t * √(v t i j : ℝ) < |x - μ t i j|} :=
    fun t i j => measurableSet_lt measurable_const (by fun_prop)
  have hEm : ∀ t i j, MeasurableSet (E t i j) := fun t i j => hX t i j (hm t i j)
  have hPE : ∀ t i j, P.real (E t i j) = (gaussianReal (μ t i j) (v t i j)).real
      {x | β t * √(v t i j : ℝ) < |x - μ t i j|} := by
    intro t i j
    rw [measureReal_def, measureReal_def, ← hlaw t i j, Measure.map_apply (hX t i j) (hm t i j)]
  have h := coverage_of_union_bound P E hEm (δ := δ) (by simpa only [hPE] using hs)
    (by simpa only [hPE] using hle)
  refine h.trans (le_of_eq ?_)
  congr 1
  ext ω
  simp [hEdef, not_lt]

/-- Coverage from a union bound, one finite index per round (designs only): the form used for the
norm-type (hyper-ellipsoid) regions. -/
lemma coverage_fintype (P : Measure Ω) [IsProbabilityMeasure P] {ι : Type*} [Fintype ι]
    (E : ℕ → ι → Set Ω) (hE : ∀ t a, MeasurableSet (E t a)) {δ : ℝ}
    (hs : Summable fun t => ∑ a, P.real (E t a))
    (hle : ∑' t, ∑ a, P.real (E t a) ≤ δ) :
    1 - δ ≤ P.real {ω | ∀ t a, ω ∉ E t a} := by
  set A : ℕ → Set Ω := fun t => ⋃ a, E t a with hA
  have hAle : ∀ t, P.real (A t) ≤ ∑ a, P.real (E t a) := fun t => measureReal_iUnion_fintype_le _
  have hsA : Summable (fun t => P.real (A t)) :=
    Summable.of_nonneg_of_le (fun _ => measureReal_nonneg) hAle hs
  have hU : P.real (⋃ t, A t) ≤ δ :=
    (measureReal_iUnion_nat_le P A hsA).trans ((hsA.tsum_le_tsum hAle hs).trans hle)
  have hset : {ω | ∀ t a, ω ∉ E t a} = (⋃ t, A t)ᶜ := by
    ext ω; simp [hA]
  have hmeas : MeasurableSet (⋃ t, A t) :=
    MeasurableSet.iUnion fun t => MeasurableSet.iUnion fun a => hE t a
  rw [hset, measureReal_compl hmeas]
  simp only [probReal_univ]
  linarith

/-- Coverage in terms of laws: random elements `X t a : Ω → S` with laws `L t a`, "outside" sets
`B t a ⊆ S`; if `∑_t ∑_a (L t a)(B t a) ≤ δ` (summable) then with probability `≥ 1 − δ` no
`X t a` is ever in `B t a`. -/
lemma law_coverage (P : Measure Ω) [IsProbabilityMeasure P] {ι : Type*} [Fintype ι]
    {S : Type*} [MeasurableSpace S] (X : ℕ → ι → Ω → S) (hX : ∀ t a, Measurable (X t a))
    (L : ℕ → ι → Measure S) (hlaw : ∀ t a, P.map (X t a) = L t a)
    (B : ℕ → ι → Set S) (hB : ∀ t a, MeasurableSet (B t a)) {δ : ℝ}
    (hs : Summable fun t => ∑ a, (L t a).real (B t a))
    (hle : ∑' t, ∑ a, (L t a).real (B t a) ≤ δ) :
    1 - δ ≤ P.real {ω | ∀ t a, X t a ω ∉ B t a} := by
  have hPE : ∀ t a, P.real (X t a ⁻¹' B t a) = (L t a).real (B t a) := by
    intro t a
    rw [measureReal_def, measureReal_def, ← hlaw t a, Measure.map_apply (hX t a) (hB t a)]
  exact coverage_fintype P (fun t a => X t a ⁻¹' B t a) (fun t a => hX t a (hB t a))
    (by simpa only [hPE] using hs) (by simpa only [hPE] using hle)

end VOPy.SchedR
