import VOPyVerif.Model.Steps
/-! Helper lemmas for C02 / C03: membership characterisations of the generic pieces of
`Model/Steps.lean` (`anyOther`, `union`, `removeAll`, `addAll`, `sortNat`) and of every transition. -/
namespace VOPy.Steps

/-! ## generic pieces -/

theorem anyOther_iff (test : Nat → Bool) (i : Nat) (l : List Nat) :
    anyOther test i l = true ↔ ∃ j ∈ l, j ≠ i ∧ test j = true := by
  induction l with
  | nil => simp [anyOther]
  | cons a l ih =>
    unfold anyOther
    by_cases h : a = i
    · subst h
      simp only [beq_self_eq_true, if_true, ih, List.mem_cons]
      constructor
      · rintro ⟨j, hj, hne, ht⟩; exact ⟨j, Or.inr hj, hne, ht⟩
      · rintro ⟨j, hj | hj, hne, ht⟩
        · exact absurd hj hne
        · exact ⟨j, hj, hne, ht⟩
    · have hb : (a == i) = false := by simpa using h
      simp only [hb, Bool.false_eq_true, if_false, List.mem_cons]
      by_cases ht : test a = true
      · simp only [ht, if_true, true_iff]
        exact ⟨a, Or.inl rfl, h, ht⟩
      · simp only [ht, Bool.false_eq_true, if_false, ih]
        constructor
        · rintro ⟨j, hj, hne, htj⟩; exact ⟨j, Or.inr hj, hne, htj⟩
        · rintro ⟨j, hj | hj, hne, htj⟩
          · subst hj; exact absurd htj ht
          · exact ⟨j, hj, hne, htj⟩

theorem anyOther_eq_false_iff (test : Nat → Bool) (i : Nat) (l : List Nat) :
    anyOther test i l = false ↔ ∀ j ∈ l, j ≠ i → test j = false := by
  rw [← Bool.not_eq_true, anyOther_iff]
  constructor
  · intro h j hj hne
    by_cases ht : test j = true
    · exact absurd ⟨j, hj, hne, ht⟩ h
    · simpa using ht
  · rintro h ⟨j, hj, hne, ht⟩
    rw [h j hj hne] at ht; exact absurd ht (by simp)

theorem mem_union {S U : List Nat} {x : Nat} : x ∈ union S U ↔ x ∈ S ∨ x ∈ U := by
  unfold union
  simp only [List.mem_append, List.mem_filter, List.contains_eq_mem, Bool.not_eq_eq_eq_not,
    Bool.not_true, decide_eq_false_iff_not]
  constructor
  · rintro (h | ⟨h, _⟩)
    · exact Or.inl h
    · exact Or.inr h
  · rintro (h | h)
    · exact Or.inl h
    · by_cases hs : x ∈ S
      · exact Or.inl hs
      · exact Or.inr ⟨h, hs⟩

theorem nodup_union {S U : List Nat} (hS : S.Nodup) (hU : U.Nodup) : (union S U).Nodup := by
  unfold union
  rw [List.nodup_append]
  refine ⟨hS, hU.sublist List.filter_sublist, ?_⟩
  intro a ha b hb hab
  subst hab
  simp only [List.mem_filter, List.contains_eq_mem, Bool.not_eq_eq_eq_not, Bool.not_true,
    decide_eq_false_iff_not] at hb
  exact hb.2 ha

theorem removeAll_sublist (S rm : List Nat) : (removeAll S rm).Sublist S := by
  unfold removeAll
  induction rm generalizing S with
  | nil => exact List.Sublist.refl _
  | cons a rm ih =>
    simp only [List.foldl_cons]
    exact (ih (S.erase a)).trans List.erase_sublist

theorem nodup_removeAll {S : List Nat} (rm : List Nat) (hS : S.Nodup) : (removeAll S rm).Nodup :=
  hS.sublist (removeAll_sublist S rm)

theorem mem_removeAll {S : List Nat} (rm : List Nat) (hS : S.Nodup) {x : Nat} :
    x ∈ removeAll S rm ↔ x ∈ S ∧ x ∉ rm := by
  unfold removeAll
  induction rm generalizing S with
  | nil => simp
  | cons a rm ih =>
    simp only [List.foldl_cons, List.mem_cons, not_or]
    rw [ih (hS.erase a), hS.mem_erase_iff]
    constructor
    · rintro ⟨⟨h1, h2⟩, h3⟩; exact ⟨h2, h1, h3⟩
    · rintro ⟨h2, h1, h3⟩; exact ⟨⟨h1, h2⟩, h3⟩

theorem mem_addAll (P new : List Nat) {x : Nat} : x ∈ addAll P new ↔ x ∈ P ∨ x ∈ new := by
  unfold addAll
  induction new generalizing P with
  | nil => simp
  | cons a new ih =>
    simp only [List.foldl_cons, List.mem_cons]
    rw [ih]
    by_cases h : P.contains a = true
    · simp only [h, if_true]
      have : a ∈ P := by simpa using h
      constructor
      · rintro (h1 | h1)
        · exact Or.inl h1
        · exact Or.inr (Or.inr h1)
      · rintro (h1 | h1 | h1)
        · exact Or.inl h1
        · subst h1; exact Or.inl this
        · exact Or.inr h1
    · simp only [h, Bool.false_eq_true, if_false, List.mem_append, List.mem_singleton]
      constructor
      · rintro ((h1 | h1) | h1)
        · exact Or.inl h1
        · exact Or.inr (Or.inl h1)
        · exact Or.inr (Or.inr h1)
      · rintro (h1 | h1 | h1)
        · exact Or.inl (Or.inl h1)
        · exact Or.inl (Or.inr h1)
        · exact Or.inr h1

theorem nodup_addAll {P : List Nat} (new : List Nat) (hP : P.Nodup) : (addAll P new).Nodup := by
  unfold addAll
  induction new generalizing P with
  | nil => simpa using hP
  | cons a new ih =>
    simp only [List.foldl_cons]
    apply ih
    by_cases h : P.contains a = true
    · rw [if_pos h]; exact hP
    · rw [if_neg h]
      have hn : a ∉ P := by simpa using h
      rw [List.nodup_append]
      refine ⟨hP, by simp, ?_⟩
      intro x hx y hy hxy
      simp only [List.mem_singleton] at hy
      subst hy; subst hxy; exact hn hx

theorem addAll_prefix (P new : List Nat) : P <+: addAll P new := by
  unfold addAll
  induction new generalizing P with
  | nil => exact List.prefix_refl _
  | cons a new ih =>
    simp only [List.foldl_cons]
    by_cases h : P.contains a = true
    · rw [if_pos h]; exact ih P
    · rw [if_neg h]
      exact (List.prefix_append P [a]).trans (ih _)


/-! ## closed forms -/

theorem removeAll_cons_of_not_mem {a : Nat} {S rm : List Nat} (h : a ∉ rm) :
    removeAll (a :: S) rm = a :: removeAll S rm := by
  unfold removeAll
  induction rm generalizing S with
  | nil => rfl
  | cons b rm ih =>
    simp only [List.mem_cons, not_or] at h
    simp only [List.foldl_cons]
    have hba : (a == b) = false := by simpa using h.1
    rw [List.erase_cons, hba]
    exact ih h.2

/-- "collect, then remove" over a set is a filter: the literal two-phase update of the code equals
the one-line specification. -/
theorem removeAll_filter {S : List Nat} (hS : S.Nodup) (p : Nat → Bool) :
    removeAll S (S.filter p) = S.filter (fun x => !p x) := by
  induction S with
  | nil => rfl
  | cons a S ih =>
    rw [List.nodup_cons] at hS
    by_cases hp : p a = true
    · rw [List.filter_cons_of_pos hp, List.filter_cons_of_neg (by simp [hp])]
      show List.foldl (fun s x => s.erase x) ((a :: S).erase a) (S.filter p) = _
      rw [List.erase_cons_head]
      exact ih hS.2
    · have hp' : p a = false := by simpa using hp
      rw [List.filter_cons_of_neg (by simp [hp']), List.filter_cons_of_pos (by simp [hp'])]
      rw [removeAll_cons_of_not_mem (fun h => hS.1 (List.mem_filter.mp h).1)]
      rw [ih hS.2]

/-! ## canonical form -/

theorem sortNat_perm (l : List Nat) : (sortNat l).Perm l := List.mergeSort_perm _ _

theorem mem_sortNat {l : List Nat} {x : Nat} : x ∈ sortNat l ↔ x ∈ l := (sortNat_perm l).mem_iff

theorem sortNat_pairwise (l : List Nat) : (sortNat l).Pairwise (fun a b => a ≤ b) := by
  have h := List.pairwise_mergeSort (le := fun a b : Nat => decide (a ≤ b))
    (by intro a b c h1 h2; simp only [decide_eq_true_eq] at *; omega)
    (by intro a b; simp only [Bool.or_eq_true, decide_eq_true_eq]; omega) l
  unfold sortNat
  exact h.imp (by intro a b hab; simpa using hab)

theorem sortNat_eq_of_perm {l₁ l₂ : List Nat} (h : l₁.Perm l₂) : sortNat l₁ = sortNat l₂ := by
  apply List.Perm.eq_of_pairwise (le := fun a b : Nat => a ≤ b)
  · intro a b _ _ h1 h2; omega
  · exact sortNat_pairwise l₁
  · exact sortNat_pairwise l₂
  · exact (sortNat_perm l₁).trans (h.trans (sortNat_perm l₂).symm)

/-- two duplicate-free lists with the same members have the same canonical form -/
theorem sortNat_eq_of_mem_iff {l₁ l₂ : List Nat} (h₁ : l₁.Nodup) (h₂ : l₂.Nodup)
    (h : ∀ x, x ∈ l₁ ↔ x ∈ l₂) : sortNat l₁ = sortNat l₂ :=
  sortNat_eq_of_perm ((List.perm_ext_iff_of_nodup h₁ h₂).mpr h)

/-! ## PaVeBa family -/

theorem mem_pavebaToDiscard {isDom : Rel} {S U : List Nat} {i : Nat} :
    i ∈ pavebaToDiscard isDom S U ↔
      i ∈ S ∧ ∃ j, (j ∈ S ∨ j ∈ U) ∧ j ≠ i ∧ isDom i j = true := by
  unfold pavebaToDiscard
  simp only [List.mem_filter, anyOther_iff, mem_union]

theorem mem_pavebaDiscard {isDom : Rel} {S U : List Nat} (hS : S.Nodup) {i : Nat} :
    i ∈ pavebaDiscard isDom S U ↔
      i ∈ S ∧ ¬ ∃ j, (j ∈ S ∨ j ∈ U) ∧ j ≠ i ∧ isDom i j = true := by
  unfold pavebaDiscard
  rw [mem_removeAll _ hS, mem_pavebaToDiscard]
  constructor
  · rintro ⟨h1, h2⟩; exact ⟨h1, fun h => h2 ⟨h1, h⟩⟩
  · rintro ⟨h1, h2⟩; exact ⟨h1, fun h => h2 h.2⟩

theorem mem_pavebaNewPareto {isCov : Rel} {S U : List Nat} {i : Nat} :
    i ∈ pavebaNewPareto isCov S U ↔
      i ∈ S ∧ ∀ j, (j ∈ S ∨ j ∈ U) → j ≠ i → isCov i j = false := by
  unfold pavebaNewPareto
  simp only [List.mem_filter, Bool.not_eq_eq_eq_not, Bool.not_true, anyOther_eq_false_iff, mem_union]

theorem mem_pavebaUseful {isCov : Rel} {S P : List Nat} {p : Nat} :
    p ∈ pavebaUseful isCov S P ↔ p ∈ P ∧ ∃ s ∈ S, isCov s p = true := by
  unfold pavebaUseful
  simp only [List.mem_filter, List.any_eq_true]

/-! ## pessimistic family -/

theorem mem_pessimisticSet {pessDom : Rel} {S P : List Nat} {i : Nat} :
    i ∈ pessimisticSet pessDom S P ↔
      (i ∈ S ∨ i ∈ P) ∧ ∀ j, (j ∈ S ∨ j ∈ P) → j ≠ i → pessDom j i = false := by
  unfold pessimisticSet
  simp only [List.mem_filter, Bool.not_eq_eq_eq_not, Bool.not_true, anyOther_eq_false_iff, mem_union]

/-- the pessimistic set in terms of a semantic relation `pdom` decided by the oracle -/
theorem mem_pessimisticSet_bridge {pessDom : Rel} (pdom : Nat → Nat → Prop)
    (hC11 : ∀ j i, pessDom j i = true ↔ pdom j i) {S P : List Nat} {k : Nat} :
    k ∈ pessimisticSet pessDom S P ↔
      ((k ∈ S ∨ k ∈ P) ∧ ∀ j, (j ∈ S ∨ j ∈ P) → j ≠ k → ¬ pdom j k) := by
  rw [mem_pessimisticSet]
  constructor
  · rintro ⟨h1, h2⟩
    refine ⟨h1, fun j hj hne hd => ?_⟩
    have := h2 j hj hne
    rw [(hC11 j k).mpr hd] at this; exact absurd this (by simp)
  · rintro ⟨h1, h2⟩
    refine ⟨h1, fun j hj hne => ?_⟩
    by_cases hd : pessDom j k = true
    · exact absurd ((hC11 j k).mp hd) (h2 j hj hne)
    · simpa using hd

theorem mem_vogpToDiscard {isDom pessDom : Rel} {S P : List Nat} {i : Nat} :
    i ∈ vogpToDiscard isDom pessDom S P ↔
      i ∈ S ∧ i ∉ pessimisticSet pessDom S P ∧
        ∃ j ∈ pessimisticSet pessDom S P, isDom i j = true := by
  unfold vogpToDiscard
  simp only [List.mem_filter, List.contains_eq_mem, Bool.not_eq_eq_eq_not, Bool.not_true,
    decide_eq_false_iff_not, List.any_eq_true]
  constructor
  · rintro ⟨⟨h1, h2⟩, h3⟩; exact ⟨h1, h2, h3⟩
  · rintro ⟨h1, h2, h3⟩; exact ⟨⟨h1, h2⟩, h3⟩

theorem mem_vogpDiscard {isDom pessDom : Rel} {S P : List Nat} (hS : S.Nodup) {i : Nat} :
    i ∈ vogpDiscard isDom pessDom S P ↔
      i ∈ S ∧ ¬ (i ∉ pessimisticSet pessDom S P ∧
        ∃ j ∈ pessimisticSet pessDom S P, isDom i j = true) := by
  unfold vogpDiscard
  rw [mem_removeAll _ hS, mem_vogpToDiscard]
  constructor
  · rintro ⟨h1, h2⟩; exact ⟨h1, fun h => h2 ⟨h1, h⟩⟩
  · rintro ⟨h1, h2⟩; exact ⟨h1, fun h => h2 h.2⟩

theorem mem_coverNew {isCov : Rel} {S P : List Nat} {i : Nat} :
    i ∈ coverNew isCov S P ↔
      i ∈ S ∧ ∀ j, (j ∈ S ∨ j ∈ P) → j ≠ i → isCov i j = false := by
  unfold coverNew
  simp only [List.mem_filter, Bool.not_eq_eq_eq_not, Bool.not_true, anyOther_eq_false_iff, mem_union]

end VOPy.Steps
