import VOPyVerif.Proofs.InvBasic
import VOPyVerif.Model.RegionUpdate
/-!
# Confidence-region updates commute with translation (`Model/RegionUpdate.lean`)

`hyperrectangle_check_intersection`, `intersect`, the bounds `mean ∓ std·scale`,
`RectangularConfidenceRegion.update`, `EllipsoidalConfidenceRegion.update` and the design-space
loop all commute with a common translation of the objective space (old regions and predicted means
moved by one vector `t`).  Helpers for the invariance section of `Props/C14.lean`.
-/
set_option linter.dupNamespace false

namespace VOPy.Region
open VOPy VOPy.Inv

/-- the rectangle moved by `t` -/
def Rect.translate (r : Rect) (t : Vec) : Rect :=
  { r with lower := vadd r.lower t, upper := vadd r.upper t }

/-- the ellipsoid moved by `t` -/
def Ell.translate (e : Ell) (t : Vec) : Ell := { e with center := vadd e.center t }

def Region.translate : Region → Vec → Region
  | .rect r, t => .rect (r.translate t)
  | .ell e, t => .ell (e.translate t)

/-- the prediction with its mean moved by `t` -/
def Pred.translate (p : Pred) (t : Vec) : Pred := { p with mean := vadd p.mean t }

/-! ## componentwise comparisons, `max`, `min` -/

theorem zipWith_rel_vadd (R : ℚ → ℚ → Bool) (hR : ∀ a b c, R (a + c) (b + c) = R a b) :
    ∀ (a b t : Vec), a.length = t.length → b.length = t.length →
      List.zipWith R (vadd a t) (vadd b t) = List.zipWith R a b
  | [], _, _, _, _ => by simp [vadd]
  | _ :: _, [], _, _, _ => by simp [vadd]
  | _ :: _, _ :: _, [], h, _ => by simp at h
  | x :: a, y :: b, z :: t, ha, hb => by
    have := zipWith_rel_vadd R hR a b t (by simpa using ha) (by simpa using hb)
    simp only [vadd, List.zipWith_cons_cons, List.cons.injEq] at this ⊢
    exact ⟨hR x y z, this⟩

theorem zipWith_op_vadd (f : ℚ → ℚ → ℚ) (hf : ∀ a b c, f (a + c) (b + c) = f a b + c) :
    ∀ (a b t : Vec), a.length = t.length → b.length = t.length →
      List.zipWith f (vadd a t) (vadd b t) = vadd (List.zipWith f a b) t
  | [], _, _, _, _ => by simp [vadd]
  | _ :: _, [], _, _, _ => by simp [vadd]
  | _ :: _, _ :: _, [], h, _ => by simp at h
  | x :: a, y :: b, z :: t, ha, hb => by
    have := zipWith_op_vadd f hf a b t (by simpa using ha) (by simpa using hb)
    simp only [vadd, List.zipWith_cons_cons, List.cons.injEq] at this ⊢
    exact ⟨hf x y z, this⟩

theorem checkIntersectionSlack_translate (τ : ℚ) (l1 u1 l2 u2 t : Vec)
    (h1 : l1.length = t.length) (h2 : u1.length = t.length) (h3 : l2.length = t.length)
    (h4 : u2.length = t.length) :
    checkIntersectionSlack τ (vadd l1 t) (vadd u1 t) (vadd l2 t) (vadd u2 t) =
      checkIntersectionSlack τ l1 u1 l2 u2 := by
  unfold checkIntersectionSlack
  rw [zipWith_rel_vadd (fun a b => decide (b ≤ a + τ)) (by intro a b c; simp; constructor <;> intro h <;> linarith)
      l1 u2 t h1 h4,
    zipWith_rel_vadd (fun a b => decide (a ≤ b + τ)) (by intro a b c; simp; constructor <;> intro h <;> linarith)
      u1 l2 t h2 h3]

theorem checkIntersection_translate (l1 u1 l2 u2 t : Vec)
    (h1 : l1.length = t.length) (h2 : u1.length = t.length) (h3 : l2.length = t.length)
    (h4 : u2.length = t.length) :
    checkIntersection (vadd l1 t) (vadd u1 t) (vadd l2 t) (vadd u2 t) = checkIntersection l1 u1 l2 u2 := by
  unfold checkIntersection
  rw [zipWith_rel_vadd (fun a b => decide (b ≤ a)) (by intro a b c; simp) l1 u2 t h1 h4,
    zipWith_rel_vadd (fun a b => decide (a ≤ b)) (by intro a b c; simp) u1 l2 t h2 h3]

theorem intersect_translate (r : Rect) (l u t : Vec)
    (h1 : r.lower.length = t.length) (h2 : r.upper.length = t.length) (h3 : l.length = t.length)
    (h4 : u.length = t.length) :
    (r.translate t).intersect (vadd l t) (vadd u t) = (r.intersect l u).translate t := by
  unfold Rect.intersect Rect.translate
  simp only
  rw [checkIntersection_translate r.lower r.upper l u t h1 h2 h3 h4]
  split
  · rw [zipWith_op_vadd max (fun a b c => by rw [max_add_add_right]) r.lower l t h1 h3,
      zipWith_op_vadd min (fun a b c => by rw [min_add_add_right]) r.upper u t h2 h4]
  · rfl

/-! ## bounds and `update` -/

theorem zipWith_sub_vadd_left : ∀ (a x t : Vec),
    List.zipWith (· - ·) (vadd a t) x = vadd (List.zipWith (· - ·) a x) t
  | [], _, _ => by simp [vadd]
  | _ :: _, _, [] => by simp [vadd]
  | _ :: _, [], _ :: _ => by simp [vadd]
  | a0 :: a, x0 :: x, t0 :: t => by
    have := zipWith_sub_vadd_left a x t
    simp only [vadd, List.zipWith_cons_cons, List.cons.injEq] at this ⊢
    exact ⟨by ring, this⟩

theorem zipWith_add_vadd_left : ∀ (a x t : Vec),
    List.zipWith (· + ·) (vadd a t) x = vadd (List.zipWith (· + ·) a x) t
  | [], _, _ => by simp [vadd]
  | _ :: _, _, [] => by simp [vadd]
  | _ :: _, [], _ :: _ => by simp [vadd]
  | a0 :: a, x0 :: x, t0 :: t => by
    have := zipWith_add_vadd_left a x t
    simp only [vadd, List.zipWith_cons_cons, List.cons.injEq] at this ⊢
    exact ⟨by ring, this⟩

theorem bounds_translate (mean std scale t : Vec) (hm : mean.length = t.length) :
    bounds (vadd mean t) std scale =
      (bounds mean std scale).map (fun LU => (vadd LU.1 t, vadd LU.2 t)) := by
  unfold bounds
  cases bcast std.length scale with
  | none => rfl
  | some s =>
    simp only [vadd_length_eq hm, ← hm]
    split
    · simp only [Option.map_some, Option.some.injEq, Prod.mk.injEq]
      exact ⟨zipWith_sub_vadd_left _ _ _, zipWith_add_vadd_left _ _ _⟩
    · rfl

theorem bounds_length {mean std scale L U : Vec} (h : bounds mean std scale = some (L, U)) :
    L.length = mean.length ∧ U.length = mean.length := by
  unfold bounds at h
  cases hb : bcast std.length scale with
  | none => rw [hb] at h; cases h
  | some s =>
    rw [hb] at h
    have hs : s.length = std.length := by
      unfold bcast at hb
      split at hb
      · rename_i hl; cases hb; exact hl
      · split at hb
        · cases hb; simp
        · cases hb
    simp only at h
    split at h
    · rename_i hl
      simp only [Option.some.injEq, Prod.mk.injEq] at h
      obtain ⟨rfl, rfl⟩ := h
      simp [hs, hl]
    · cases h

theorem rect_update_translate (r : Rect) (p : Pred) (scale t : Vec)
    (h1 : r.lower.length = t.length) (h2 : r.upper.length = t.length) (hm : p.mean.length = t.length) :
    (r.translate t).update (p.translate t) scale = (r.update p scale).map (fun r' => r'.translate t) := by
  unfold Rect.update Pred.translate
  simp only
  split
  · rfl
  · rw [bounds_translate p.mean p.std scale t hm]
    cases hb : bounds p.mean p.std scale with
    | none => rfl
    | some LU =>
      obtain ⟨L, U⟩ := LU
      obtain ⟨hL, hU⟩ := bounds_length hb
      simp only [Option.map_some, Except.map]
      by_cases hi : r.iter
      · have : (r.translate t).iter = true := by simp [Rect.translate, hi]
        simp only [hi, this, if_true]
        rw [intersect_translate r L U t h1 h2 (hL.trans hm) (hU.trans hm)]
      · have : (r.translate t).iter = false := by simp [Rect.translate, hi]
        simp only [hi, this, Bool.false_eq_true, if_false]
        rfl

theorem ell_update_translate (e : Ell) (p : Pred) (scale t : Vec) :
    (e.translate t).update (p.translate t) scale = (e.update p scale).map (fun e' => e'.translate t) := by
  unfold Ell.update Pred.translate
  simp only
  split
  · rfl
  · split <;> rfl

/-- a region of dimension `m` (rectangles only: an ellipsoid's centre is overwritten by `update`) -/
def Region.dim (m : Nat) : Region → Prop
  | .rect r => r.lower.length = m ∧ r.upper.length = m
  | .ell _ => True

theorem region_update_translate (R : Region) (p : Pred) (scale t : Vec) (hR : R.dim t.length)
    (hm : p.mean.length = t.length) :
    (R.translate t).update (p.translate t) scale = (R.update p scale).map (fun R' => R'.translate t) := by
  cases R with
  | rect r =>
    simp only [Region.translate, Region.update]
    rw [rect_update_translate r p scale t hR.1 hR.2 hm]
    cases r.update p scale <;> rfl
  | ell e =>
    simp only [Region.translate, Region.update]
    rw [ell_update_translate e p scale t]
    cases e.update p scale <;> rfl

theorem region_update_dim {R R' : Region} {p : Pred} {scale : Vec} {m : Nat} (hR : R.dim m)
    (hm : p.mean.length = m) (h : R.update p scale = .ok R') : R'.dim m := by
  cases R with
  | ell e =>
    simp only [Region.update] at h
    cases he : e.update p scale with
    | error x => rw [he] at h; cases h
    | ok e' => rw [he] at h; cases h; trivial
  | rect r =>
    simp only [Region.update] at h
    cases hr : r.update p scale with
    | error x => rw [hr] at h; cases h
    | ok r' =>
      rw [hr] at h; cases h
      unfold Rect.update at hr
      split at hr
      · cases hr
      · cases hb : bounds p.mean p.std scale with
        | none => rw [hb] at hr; cases hr
        | some LU =>
          obtain ⟨L, U⟩ := LU
          obtain ⟨hL, hU⟩ := bounds_length hb
          rw [hb] at hr
          simp only [Except.ok.injEq] at hr
          subst hr
          by_cases hi : r.iter
          · simp only [hi, if_true, Region.dim, Rect.intersect]
            split
            · simp [hR.1, hR.2, hL, hU, hm]
            · simp [hL, hU, hm]
          · simp [hi, Region.dim, hL, hU, hm]

/-- the design-space loop commutes with translation -/
theorem updLoop_translate (t : Vec) : ∀ (T : List (Nat × Pred × Vec)) (regs : List Region),
    (∀ R ∈ regs, R.dim t.length) → (∀ x ∈ T, x.2.1.mean.length = t.length) →
    updLoop (regs.map (·.translate t)) (T.map fun x => (x.1, x.2.1.translate t, x.2.2)) =
      ((updLoop regs T).1.map (·.translate t), (updLoop regs T).2)
  | [], regs, _, _ => rfl
  | (i, p, s) :: rest, regs, hregs, hT => by
    simp only [List.map_cons, updLoop, List.getElem?_map]
    cases hi : regs[i]? with
    | none => rfl
    | some R =>
      have hR := hregs R (List.mem_of_getElem? hi)
      have hp := hT (i, p, s) (by simp)
      simp only [Option.map_some]
      rw [region_update_translate R p s t hR hp]
      cases hu : R.update p s with
      | error e => rfl
      | ok R' =>
        simp only [Except.map]
        have hset : (regs.map (·.translate t)).set i (R'.translate t) = (regs.set i R').map (·.translate t) := by
          rw [List.map_set]
        rw [hset]
        apply updLoop_translate t rest (regs.set i R')
        · intro Q hQ
          rcases List.mem_or_eq_of_mem_set hQ with h | h
          · exact hregs Q h
          · rw [h]; exact region_update_dim hR hp hu
        · intro x hx; exact hT x (by simp [hx])

end VOPy.Region
