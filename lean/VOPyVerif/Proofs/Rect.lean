import VOPyVerif.Model.Rect
import Mathlib.Data.List.OfFn
import Mathlib.Data.Real.Basic
import Mathlib.Data.Rat.BigOperators
import Mathlib.Algebra.BigOperators.Fin
import Mathlib.Algebra.Order.BigOperators.Ring.Finset
import Mathlib.Tactic.Linarith
import Mathlib.Tactic.Ring
import Mathlib.Tactic.Push
/-!
# Rectangles: helper lemmas for C09

* bridge between the list model (`Vec = List Rat`) and `Fin m`-indexed data: `toVec`, `toMat`,
  `dot_toVec`, `vsub_toVec`, `vadd_toVec`, `mem_vertices_toVec`;
* the semantic predicate `Rect.Dominated` over `ℝ`;
* `isDominatedTol_iff`: the vertex-pair loop decides the ∀∀ statement (a linear functional on a
  product of two boxes attains its minimum at a vertex pair).
-/
namespace VOPy

variable {m N : ℕ}

/-- a `Fin m`-indexed rational vector as a model vector -/
def toVec (f : Fin m → ℚ) : Vec := List.ofFn f
/-- an `N × m` rational matrix as a model matrix (list of rows) -/
def toMat (W : Fin N → Fin m → ℚ) : Mat := List.ofFn fun n => List.ofFn (W n)

@[simp] theorem toVec_length (f : Fin m → ℚ) : (toVec f).length = m := by simp [toVec]
@[simp] theorem toMat_length (W : Fin N → Fin m → ℚ) : (toMat W).length = N := by simp [toMat]

theorem mem_toMat {W : Fin N → Fin m → ℚ} {w : Vec} : w ∈ toMat W ↔ ∃ n, w = toVec (W n) := by
  simp only [toMat, toVec, List.mem_ofFn]
  constructor
  · rintro ⟨n, rfl⟩; exact ⟨n, rfl⟩
  · rintro ⟨n, rfl⟩; exact ⟨n, rfl⟩

theorem zipWith_ofFn {α β γ : Type*} (g : α → β → γ) :
    ∀ {m : ℕ} (a : Fin m → α) (b : Fin m → β),
      List.zipWith g (List.ofFn a) (List.ofFn b) = List.ofFn fun i => g (a i) (b i)
  | 0, _, _ => by simp
  | m + 1, a, b => by
    simp only [List.ofFn_succ, List.zipWith_cons_cons]
    rw [zipWith_ofFn g (fun i => a i.succ) (fun i => b i.succ)]

theorem vsub_toVec (a b : Fin m → ℚ) : vsub (toVec a) (toVec b) = toVec fun i => a i - b i :=
  zipWith_ofFn _ a b

theorem vadd_toVec (a b : Fin m → ℚ) : vadd (toVec a) (toVec b) = toVec fun i => a i + b i :=
  zipWith_ofFn _ a b

theorem dot_toVec : ∀ {m : ℕ} (a b : Fin m → ℚ), dot (toVec a) (toVec b) = ∑ i, a i * b i
  | 0, _, _ => by simp [toVec, dot]
  | m + 1, a, b => by
    have ih := dot_toVec (fun i => a i.succ) (fun i => b i.succ)
    simp only [toVec] at ih ⊢
    simp only [List.ofFn_succ, dot, Fin.sum_univ_succ, ih]

theorem matVec_toMat (W : Fin N → Fin m → ℚ) (x : Fin m → ℚ) :
    matVec (toMat W) (toVec x) = toVec fun n => ∑ i, W n i * x i := by
  simp only [matVec, toMat, toVec, List.map_ofFn]
  congr 1
  funext n
  exact dot_toVec (W n) x

namespace Rect

/-- `v` is a corner of the box `[l, u]` -/
def IsVertex (l u v : Fin m → ℚ) : Prop := ∀ i, v i = l i ∨ v i = u i

theorem mem_vertices_toVec : ∀ {m : ℕ} (l u : Fin m → ℚ) (v : Vec),
    v ∈ vertices (toVec l) (toVec u) ↔ ∃ f : Fin m → ℚ, IsVertex l u f ∧ v = toVec f
  | 0, l, u, v => by
    simp only [toVec, List.ofFn_zero, vertices, List.mem_singleton]
    constructor
    · rintro rfl; exact ⟨Fin.elim0, fun i => i.elim0, rfl⟩
    · rintro ⟨f, _, rfl⟩; rfl
  | m + 1, l, u, v => by
    have ih := mem_vertices_toVec (fun i => l i.succ) (fun i => u i.succ)
    simp only [toVec] at ih ⊢
    simp only [List.ofFn_succ, vertices, List.mem_append, List.mem_map]
    constructor
    · rintro (⟨v', hv', rfl⟩ | ⟨v', hv', rfl⟩)
      · obtain ⟨f, hf, rfl⟩ := (ih v').1 hv'
        refine ⟨Fin.cons (l 0) f, ?_, ?_⟩
        · intro i
          refine Fin.cases ?_ (fun j => ?_) i
          · left; simp
          · simpa using hf j
        · simp
      · obtain ⟨f, hf, rfl⟩ := (ih v').1 hv'
        refine ⟨Fin.cons (u 0) f, ?_, ?_⟩
        · intro i
          refine Fin.cases ?_ (fun j => ?_) i
          · right; simp
          · simpa using hf j
        · simp
    · rintro ⟨f, hf, rfl⟩
      have htl : List.ofFn (fun i : Fin m => f i.succ) ∈
          vertices (List.ofFn fun i : Fin m => l i.succ) (List.ofFn fun i : Fin m => u i.succ) :=
        (ih _).2 ⟨fun i => f i.succ, fun i => hf i.succ, rfl⟩
      rcases hf 0 with h0 | h0
      · left; exact ⟨_, htl, by rw [h0]⟩
      · right; exact ⟨_, htl, by rw [h0]⟩

theorem vertices_length : ∀ {m : ℕ} (l u : Fin m → ℚ), (vertices (toVec l) (toVec u)).length = 2 ^ m
  | 0, _, _ => by simp [toVec, vertices]
  | m + 1, l, u => by
    have ih := vertices_length (fun i => l i.succ) (fun i => u i.succ)
    simp only [toVec] at ih ⊢
    simp only [List.ofFn_succ, vertices, List.length_append, List.length_map, ih]
    ring

/-- the vertex-pair loop with threshold `t`, unfolded to quantifiers over lists -/
theorem isDominatedTol_eq_true (W : Mat) (l1 u1 l2 u2 s : Vec) (t : ℚ) :
    isDominatedTol W l1 u1 l2 u2 s t = true ↔
      ∀ v1 ∈ vertices l1 u1, ∀ v2 ∈ vertices l2 u2, ∀ w ∈ W, t ≤ dot w (vsub (vadd v2 s) v1) := by
  simp only [isDominatedTol, inConeTol, matVec, List.all_eq_true, List.mem_map, decide_eq_true_eq,
    forall_exists_index, and_imp, forall_apply_eq_imp_iff₂]

theorem isDominated_eq_true (W : Mat) (l1 u1 l2 u2 s : Vec) :
    isDominated W l1 u1 l2 u2 s = true ↔
      ∀ v1 ∈ vertices l1 u1, ∀ v2 ∈ vertices l2 u2, ∀ w ∈ W, 0 ≤ dot w (vsub (vadd v2 s) v1) := by
  simp only [isDominated, dominates, inCone, allNonneg, matVec, List.all_eq_true, List.mem_map,
    decide_eq_true_eq, forall_exists_index, and_imp, forall_apply_eq_imp_iff₂]

theorem isDominatedTol_zero (W : Mat) (l1 u1 l2 u2 s : Vec) :
    isDominatedTol W l1 u1 l2 u2 s 0 = isDominated W l1 u1 l2 u2 s := by
  rw [Bool.eq_iff_iff, isDominatedTol_eq_true, isDominated_eq_true]

/-- the closed real box `[l, u]` -/
def box (l u : Fin m → ℚ) : Set (Fin m → ℝ) := {z | ∀ i, (l i : ℝ) ≤ z i ∧ z i ≤ (u i : ℝ)}

/-- **Semantic predicate (rectangles), threshold form.**  Every point of box 2, shifted by `s` in
objective space, exceeds every point of box 1 by at least `t` on every facet functional of `W`.
`t = 0` is "`z' + s` dominates `z` in the cone order for all `z ∈ R₁`, `z' ∈ R₂`". -/
def DominatedTol (W : Fin N → Fin m → ℚ) (l1 u1 l2 u2 s : Fin m → ℚ) (t : ℚ) : Prop :=
  ∀ z ∈ box l1 u1, ∀ z' ∈ box l2 u2, ∀ n, (t : ℝ) ≤ ∑ i, (W n i : ℝ) * (z' i + (s i : ℝ) - z i)

/-- **Semantic predicate (rectangles).** `∀ z ∈ R₁, ∀ z' ∈ R₂, z' + s ≽_W z` over `ℝ`. -/
def Dominated (W : Fin N → Fin m → ℚ) (l1 u1 l2 u2 s : Fin m → ℚ) : Prop :=
  ∀ z ∈ box l1 u1, ∀ z' ∈ box l2 u2, ∀ n, 0 ≤ ∑ i, (W n i : ℝ) * (z' i + (s i : ℝ) - z i)

theorem dominatedTol_zero (W : Fin N → Fin m → ℚ) (l1 u1 l2 u2 s : Fin m → ℚ) :
    DominatedTol W l1 u1 l2 u2 s 0 ↔ Dominated W l1 u1 l2 u2 s := by
  simp [DominatedTol, Dominated]

theorem vertex_mem_box {l u f : Fin m → ℚ} (hlu : ∀ i, l i ≤ u i) (hf : IsVertex l u f) :
    (fun i => (f i : ℝ)) ∈ box l u := by
  intro i
  have h := hlu i
  rcases hf i with h' | h' <;> simp only [h']
  · exact ⟨le_refl _, by exact_mod_cast h⟩
  · exact ⟨by exact_mod_cast h, le_refl _⟩

/-- core: the loop with threshold `t` decides the threshold ∀∀ statement -/
theorem isDominatedTol_iff (W : Fin N → Fin m → ℚ) (l1 u1 l2 u2 s : Fin m → ℚ) (t : ℚ)
    (h1 : ∀ i, l1 i ≤ u1 i) (h2 : ∀ i, l2 i ≤ u2 i) :
    isDominatedTol (toMat W) (toVec l1) (toVec u1) (toVec l2) (toVec u2) (toVec s) t = true ↔
      DominatedTol W l1 u1 l2 u2 s t := by
  rw [isDominatedTol_eq_true]
  constructor
  · intro h z hz z' hz' n
    -- the minimising vertex pair for facet `n`
    let v' : Fin m → ℚ := fun i => if 0 ≤ W n i then l2 i else u2 i
    let v : Fin m → ℚ := fun i => if 0 ≤ W n i then u1 i else l1 i
    have hv' : IsVertex l2 u2 v' := fun i => by
      by_cases hw : 0 ≤ W n i <;> simp [v', hw]
    have hv : IsVertex l1 u1 v := fun i => by
      by_cases hw : 0 ≤ W n i <;> simp [v, hw]
    have key := h (toVec v) ((mem_vertices_toVec _ _ _).2 ⟨v, hv, rfl⟩)
      (toVec v') ((mem_vertices_toVec _ _ _).2 ⟨v', hv', rfl⟩) (toVec (W n)) (mem_toMat.2 ⟨n, rfl⟩)
    rw [vadd_toVec, vsub_toVec, dot_toVec] at key
    have keyR : (t : ℝ) ≤ ∑ i, (W n i : ℝ) * ((v' i : ℝ) + (s i : ℝ) - (v i : ℝ)) := by
      exact_mod_cast key
    refine le_trans keyR (Finset.sum_le_sum fun i _ => ?_)
    by_cases hw : 0 ≤ W n i
    · have hwR : (0 : ℝ) ≤ (W n i : ℝ) := by exact_mod_cast hw
      simp only [v, v', hw, if_true]
      exact mul_le_mul_of_nonneg_left (by linarith [(hz i).2, (hz' i).1]) hwR
    · have hwR : (W n i : ℝ) ≤ 0 := by
        have : W n i ≤ 0 := le_of_lt (not_le.mp hw)
        exact_mod_cast this
      simp only [v, v', hw, if_false]
      exact mul_le_mul_of_nonpos_left (by linarith [(hz i).1, (hz' i).2]) hwR
  · intro h v1 hv1 v2 hv2 w hw
    obtain ⟨f, hf, rfl⟩ := (mem_vertices_toVec _ _ _).1 hv1
    obtain ⟨f', hf', rfl⟩ := (mem_vertices_toVec _ _ _).1 hv2
    obtain ⟨n, rfl⟩ := mem_toMat.1 hw
    rw [vadd_toVec, vsub_toVec, dot_toVec]
    have := h _ (vertex_mem_box h1 hf) _ (vertex_mem_box h2 hf') n
    exact_mod_cast this

end Rect
end VOPy
