import VOPyVerif.Model.Ellipsoid
import VOPyVerif.Proofs.Rect
import Mathlib.Analysis.Real.Sqrt
import Mathlib.Data.Matrix.Mul
import Mathlib.Algebra.BigOperators.Field
import Mathlib.Tactic.Positivity
import Mathlib.Tactic.FieldSimp
import Mathlib.Tactic.NormNum
/-!
# Ellipsoids: helper lemmas for C09

* `sqrt_ineq_real`, `sqrtIneq_iff`: the rational decision procedure for `p − √b − √c ≥ d`;
* `ball_lower`, `ball_attained`: minimum of a linear functional on the Euclidean unit ball
  (Cauchy–Schwarz, attained);
* `Ell` (the ellipsoid `{c + a·L u | ‖u‖ ≤ 1}`) and `ell_pair_min`: minimum of `w·(z' − z)` over a
  pair of ellipsoids;
* bridge from the list model to `Matrix`/`Fin`: `quadForm_toMat`, `facetOk_iff`.
-/
namespace VOPy.Ellipsoid
open Matrix

/-! ### the decision procedure -/

/-- `x + y ≤ R` for non-negative `x, y`, with all square roots removed. -/
theorem sqrt_ineq_real (R x y : ℝ) (hx : 0 ≤ x) (hy : 0 ≤ y) :
    x + y ≤ R ↔ 0 ≤ R ∧ 0 ≤ R * R - x ^ 2 - y ^ 2 ∧
      4 * x ^ 2 * y ^ 2 ≤ (R * R - x ^ 2 - y ^ 2) * (R * R - x ^ 2 - y ^ 2) := by
  have hxy : 0 ≤ x * y := mul_nonneg hx hy
  constructor
  · intro h
    have hR : 0 ≤ R := by linarith
    have h2 : 2 * (x * y) ≤ R * R - x ^ 2 - y ^ 2 := by nlinarith
    refine ⟨hR, by linarith, ?_⟩
    nlinarith
  · rintro ⟨hR, hQ, h4⟩
    have h2 : 2 * (x * y) ≤ R * R - x ^ 2 - y ^ 2 := by
      by_contra hlt
      push Not at hlt
      nlinarith
    by_contra hlt
    push Not at hlt
    nlinarith

/-- **`sqrtIneq` is correct**: for rationals `p, b, c, d` with `b, c ≥ 0` it returns `true` exactly
when `p − √b − √c ≥ d` holds in `ℝ`. -/
theorem sqrtIneq_iff (p b c d : ℚ) (hb : 0 ≤ b) (hc : 0 ≤ c) :
    sqrtIneq p b c d = true ↔ (d : ℝ) ≤ (p : ℝ) - Real.sqrt b - Real.sqrt c := by
  have hbR : (0 : ℝ) ≤ (b : ℝ) := by exact_mod_cast hb
  have hcR : (0 : ℝ) ≤ (c : ℝ) := by exact_mod_cast hc
  have hx := Real.sqrt_nonneg (b : ℝ)
  have hy := Real.sqrt_nonneg (c : ℝ)
  have hx2 : Real.sqrt (b : ℝ) ^ 2 = b := Real.sq_sqrt hbR
  have hy2 : Real.sqrt (c : ℝ) ^ 2 = c := Real.sq_sqrt hcR
  have key := sqrt_ineq_real ((p : ℝ) - d) _ _ hx hy
  rw [hx2, hy2] at key
  have e : (d : ℝ) ≤ (p : ℝ) - Real.sqrt b - Real.sqrt c ↔
      Real.sqrt b + Real.sqrt c ≤ (p : ℝ) - d := by constructor <;> intro h <;> linarith
  rw [e, key]
  unfold sqrtIneq
  simp only []
  by_cases h1 : p - d < 0
  · simp only [h1, if_true, Bool.false_eq_true, false_iff, not_and]
    intro h; exfalso
    have : ((p - d : ℚ) : ℝ) < 0 := by exact_mod_cast h1
    push_cast at this
    linarith
  · simp only [h1, if_false]
    have h1' : (0 : ℝ) ≤ (p : ℝ) - d := by
      have : (0 : ℚ) ≤ p - d := not_lt.mp h1
      exact_mod_cast this
    by_cases h2 : (p - d) * (p - d) - b - c < 0
    · simp only [h2, if_true, Bool.false_eq_true, false_iff, not_and]
      intro _ h; exfalso
      have : (((p - d) * (p - d) - b - c : ℚ) : ℝ) < 0 := by exact_mod_cast h2
      push_cast at this
      linarith
    · simp only [h2, if_false, decide_eq_true_eq]
      have h2' : (0 : ℝ) ≤ ((p : ℝ) - d) * ((p : ℝ) - d) - b - c := by
        have : (0 : ℚ) ≤ (p - d) * (p - d) - b - c := not_lt.mp h2
        exact_mod_cast this
      constructor
      · intro h
        refine ⟨h1', h2', ?_⟩
        have : ((4 * b * c : ℚ) : ℝ) ≤
            (((p - d) * (p - d) - b - c) * ((p - d) * (p - d) - b - c) : ℚ) := by exact_mod_cast h
        push_cast at this
        linarith
      · rintro ⟨_, _, h⟩
        have : ((4 * b * c : ℚ) : ℝ) ≤
            (((p - d) * (p - d) - b - c) * ((p - d) * (p - d) - b - c) : ℚ) := by
          push_cast; linarith
        exact_mod_cast this

/-! ### linear functional on the unit ball -/

variable {m N : ℕ}

/-- Cauchy–Schwarz: on the unit ball `g·u ≥ −‖g‖`. -/
theorem ball_lower (g u : Fin m → ℝ) (hu : ∑ i, u i ^ 2 ≤ 1) :
    -Real.sqrt (∑ i, g i ^ 2) ≤ g ⬝ᵥ u := by
  have cs := Finset.sum_mul_sq_le_sq_mul_sq Finset.univ g u
  have hg : 0 ≤ ∑ i, g i ^ 2 := Finset.sum_nonneg fun i _ => sq_nonneg _
  have hle : (g ⬝ᵥ u) ^ 2 ≤ ∑ i, g i ^ 2 := by
    calc (g ⬝ᵥ u) ^ 2 ≤ (∑ i, g i ^ 2) * ∑ i, u i ^ 2 := cs
      _ ≤ (∑ i, g i ^ 2) * 1 := mul_le_mul_of_nonneg_left hu hg
      _ = _ := mul_one _
  have := Real.abs_le_sqrt hle
  linarith [neg_abs_le (g ⬝ᵥ u)]

theorem ball_upper (g u : Fin m → ℝ) (hu : ∑ i, u i ^ 2 ≤ 1) :
    g ⬝ᵥ u ≤ Real.sqrt (∑ i, g i ^ 2) := by
  have h := ball_lower g (-u) (by simpa using hu)
  rw [dotProduct_neg] at h
  linarith

/-- the bound of `ball_lower` is attained -/
theorem ball_attained (g : Fin m → ℝ) :
    ∃ u : Fin m → ℝ, ∑ i, u i ^ 2 ≤ 1 ∧ g ⬝ᵥ u = -Real.sqrt (∑ i, g i ^ 2) := by
  set q := ∑ i, g i ^ 2 with hq
  have hq0 : 0 ≤ q := Finset.sum_nonneg fun i _ => sq_nonneg _
  by_cases hz : q = 0
  · refine ⟨0, by simp, ?_⟩
    simp [hz]
  · have hpos : 0 < q := lt_of_le_of_ne hq0 (Ne.symm hz)
    have hs : 0 < Real.sqrt q := Real.sqrt_pos.mpr hpos
    refine ⟨fun i => -(g i / Real.sqrt q), ?_, ?_⟩
    · have : ∑ i, (-(g i / Real.sqrt q)) ^ 2 = (∑ i, g i ^ 2) / q := by
        rw [Finset.sum_div]
        refine Finset.sum_congr rfl fun i _ => ?_
        rw [neg_sq, div_pow, Real.sq_sqrt hq0]
      rw [this, ← hq, div_self hz]
    · have : g ⬝ᵥ (fun i => -(g i / Real.sqrt q)) = -((∑ i, g i ^ 2) / Real.sqrt q) := by
        rw [dotProduct, Finset.sum_div, ← Finset.sum_neg_distrib]
        refine Finset.sum_congr rfl fun i _ => ?_
        ring
      rw [this, ← hq]
      congr 1
      rw [div_eq_iff hs.ne']
      exact (Real.mul_self_sqrt hq0).symm

/-! ### ellipsoids -/

/-- The ellipsoid with centre `c`, shape factor `L` (`Σ = L Lᵀ`) and radius `a`:
`{c + a · L u | ‖u‖₂ ≤ 1}`.  For invertible `L` this is `{z | (z−c)ᵀ Σ⁻¹ (z−c) ≤ a²}`. -/
def Ell (c : Fin m → ℝ) (L : Matrix (Fin m) (Fin m) ℝ) (a : ℝ) : Set (Fin m → ℝ) :=
  {z | ∃ u : Fin m → ℝ, ∑ i, u i ^ 2 ≤ 1 ∧ z = c + a • (L *ᵥ u)}

/-- `√(wᵀ L Lᵀ w)` as the Euclidean norm of `Lᵀ w` -/
noncomputable def suppNorm (L : Matrix (Fin m) (Fin m) ℝ) (w : Fin m → ℝ) : ℝ :=
  Real.sqrt (∑ j, (w ᵥ* L) j ^ 2)

theorem dot_ell_point (w c u : Fin m → ℝ) (L : Matrix (Fin m) (Fin m) ℝ) (a : ℝ) :
    w ⬝ᵥ (c + a • (L *ᵥ u)) = w ⬝ᵥ c + a * ((w ᵥ* L) ⬝ᵥ u) := by
  rw [dotProduct_add, dotProduct_smul, dotProduct_mulVec, smul_eq_mul]

/-- **Support function of a pair of ellipsoids.**  The minimum over `z ∈ E₁`, `z' ∈ E₂` of
`w·(z' − z)` is `w·(c₂ − c₁) − a₁‖L₁ᵀw‖ − a₂‖L₂ᵀw‖` (stated as: a lower bound `t` holds on the whole
pair iff it holds for that value). -/
theorem ell_pair_min (w c1 c2 : Fin m → ℝ) (L1 L2 : Matrix (Fin m) (Fin m) ℝ) (a1 a2 t : ℝ)
    (ha1 : 0 ≤ a1) (ha2 : 0 ≤ a2) :
    (∀ z ∈ Ell c1 L1 a1, ∀ z' ∈ Ell c2 L2 a2, t ≤ w ⬝ᵥ (z' - z)) ↔
      t ≤ w ⬝ᵥ (c2 - c1) - a1 * suppNorm L1 w - a2 * suppNorm L2 w := by
  unfold suppNorm
  constructor
  · intro h
    obtain ⟨u1, hu1, e1⟩ := ball_attained (w ᵥ* L1)
    obtain ⟨u2, hu2, e2⟩ := ball_attained (w ᵥ* L2)
    have := h (c1 + a1 • (L1 *ᵥ (-u1))) ⟨-u1, by simpa using hu1, rfl⟩
      (c2 + a2 • (L2 *ᵥ u2)) ⟨u2, hu2, rfl⟩
    rw [dotProduct_sub, dot_ell_point, dot_ell_point, dotProduct_neg, e1, e2] at this
    rw [dotProduct_sub]
    linarith
  · rintro h z ⟨u1, hu1, rfl⟩ z' ⟨u2, hu2, rfl⟩
    rw [dotProduct_sub, dot_ell_point, dot_ell_point]
    rw [dotProduct_sub] at h
    have b1 := ball_upper (w ᵥ* L1) u1 hu1
    have b2 := ball_lower (w ᵥ* L2) u2 hu2
    nlinarith [mul_le_mul_of_nonneg_left b1 ha1, mul_le_mul_of_nonneg_left b2 ha2]

/-- the minimum of `ell_pair_min` is attained -/
theorem ell_pair_attained (w c1 c2 : Fin m → ℝ) (L1 L2 : Matrix (Fin m) (Fin m) ℝ) (a1 a2 : ℝ) :
    ∃ z ∈ Ell c1 L1 a1, ∃ z' ∈ Ell c2 L2 a2,
      w ⬝ᵥ (z' - z) = w ⬝ᵥ (c2 - c1) - a1 * suppNorm L1 w - a2 * suppNorm L2 w := by
  unfold suppNorm
  obtain ⟨u1, hu1, e1⟩ := ball_attained (w ᵥ* L1)
  obtain ⟨u2, hu2, e2⟩ := ball_attained (w ᵥ* L2)
  refine ⟨c1 + a1 • (L1 *ᵥ (-u1)), ⟨-u1, by simpa using hu1, rfl⟩,
    c2 + a2 • (L2 *ᵥ u2), ⟨u2, hu2, rfl⟩, ?_⟩
  rw [dotProduct_sub, dot_ell_point, dot_ell_point, dotProduct_neg, e1, e2, dotProduct_sub]
  ring

/-- `wᵀ (L Lᵀ) w = ‖Lᵀ w‖²` -/
theorem quad_eq_sum_sq (L : Matrix (Fin m) (Fin m) ℝ) (w : Fin m → ℝ) :
    w ⬝ᵥ ((L * Lᵀ) *ᵥ w) = ∑ j, (w ᵥ* L) j ^ 2 := by
  rw [← mulVec_mulVec, dotProduct_mulVec, mulVec_transpose]
  simp only [dotProduct, pow_two]

/-! ### bridge from the list model -/

theorem quadForm_toMat (S : Fin m → Fin m → ℚ) (w : Fin m → ℚ) :
    quadForm (toMat S) (toVec w) = ∑ i, w i * ∑ j, S i j * w j := by
  rw [quadForm, matVec_toMat, dot_toVec]

/-- the model's quadratic form, cast to `ℝ`, is `‖Lᵀw‖²` when `Σ = L Lᵀ` -/
theorem quadForm_cast (S : Fin m → Fin m → ℚ) (w : Fin m → ℚ) (L : Matrix (Fin m) (Fin m) ℝ)
    (hL : (Matrix.of fun i j => (S i j : ℝ)) = L * Lᵀ) :
    ((quadForm (toMat S) (toVec w) : ℚ) : ℝ) = ∑ j, ((fun i => (w i : ℝ)) ᵥ* L) j ^ 2 := by
  rw [quadForm_toMat, ← quad_eq_sum_sq, ← hL]
  push_cast
  simp only [dotProduct, mulVec, Matrix.of_apply]

theorem quadForm_nonneg (S : Fin m → Fin m → ℚ) (w : Fin m → ℚ) (L : Matrix (Fin m) (Fin m) ℝ)
    (hL : (Matrix.of fun i j => (S i j : ℝ)) = L * Lᵀ) : 0 ≤ quadForm (toMat S) (toVec w) := by
  have h := quadForm_cast S w L hL
  have : (0 : ℝ) ≤ ((quadForm (toMat S) (toVec w) : ℚ) : ℝ) := by
    rw [h]; exact Finset.sum_nonneg fun i _ => sq_nonneg _
  exact_mod_cast this

/-- the facet test of the model is the closed-form inequality over `ℝ` -/
theorem facetOk_iff (w c1 c2 : Fin m → ℚ) (S1 S2 : Fin m → Fin m → ℚ) (a1 a2 d : ℚ)
    (L1 L2 : Matrix (Fin m) (Fin m) ℝ)
    (hL1 : (Matrix.of fun i j => (S1 i j : ℝ)) = L1 * L1ᵀ)
    (hL2 : (Matrix.of fun i j => (S2 i j : ℝ)) = L2 * L2ᵀ)
    (ha1 : 0 ≤ a1) (ha2 : 0 ≤ a2) :
    facetOk (toVec w) (toVec c1) (toMat S1) a1 (toVec c2) (toMat S2) a2 d = true ↔
      (d : ℝ) ≤ (fun i => (w i : ℝ)) ⬝ᵥ ((fun i => (c2 i : ℝ)) - fun i => (c1 i : ℝ))
        - a1 * suppNorm L1 (fun i => (w i : ℝ)) - a2 * suppNorm L2 (fun i => (w i : ℝ)) := by
  have q1 := quadForm_nonneg S1 w L1 hL1
  have q2 := quadForm_nonneg S2 w L2 hL2
  rw [facetOk, sqrtIneq_iff _ _ _ _ (mul_nonneg (mul_self_nonneg a1) q1)
    (mul_nonneg (mul_self_nonneg a2) q2)]
  have ha1R : (0 : ℝ) ≤ a1 := by exact_mod_cast ha1
  have ha2R : (0 : ℝ) ≤ a2 := by exact_mod_cast ha2
  have s1 : Real.sqrt ((a1 * a1 * quadForm (toMat S1) (toVec w) : ℚ) : ℝ) =
      a1 * suppNorm L1 (fun i => (w i : ℝ)) := by
    rw [suppNorm, ← quadForm_cast S1 w L1 hL1]
    push_cast
    rw [Real.sqrt_mul (mul_self_nonneg _), Real.sqrt_mul_self ha1R]
  have s2 : Real.sqrt ((a2 * a2 * quadForm (toMat S2) (toVec w) : ℚ) : ℝ) =
      a2 * suppNorm L2 (fun i => (w i : ℝ)) := by
    rw [suppNorm, ← quadForm_cast S2 w L2 hL2]
    push_cast
    rw [Real.sqrt_mul (mul_self_nonneg _), Real.sqrt_mul_self ha2R]
  rw [s1, s2, vsub_toVec, dot_toVec]
  have e : ((∑ i, w i * (c2 i - c1 i) : ℚ) : ℝ) =
      (fun i => (w i : ℝ)) ⬝ᵥ ((fun i => (c2 i : ℝ)) - fun i => (c1 i : ℝ)) := by
    push_cast
    simp only [dotProduct, Pi.sub_apply]
  rw [e]

theorem zip_toMat_toVec (W : Fin N → Fin m → ℚ) (s : Fin N → ℚ) :
    (toMat W).zip (toVec s) = List.ofFn fun n => (toVec (W n), s n) := by
  rw [List.zip_eq_zipWith]
  exact zipWith_ofFn Prod.mk (fun n => toVec (W n)) s

/-- cast of a rational vector -/
abbrev castVec (v : Fin m → ℚ) : Fin m → ℝ := fun i => (v i : ℝ)

/-- **Semantic predicate (ellipsoids), threshold form**: for all `z ∈ E₁`, `z' ∈ E₂` and every
facet `n`: `w_n·(z' − z) ≥ −s_n + t`. -/
def DominatedTol (W : Fin N → Fin m → ℚ) (c1 : Fin m → ℚ) (L1 : Matrix (Fin m) (Fin m) ℝ) (a1 : ℚ)
    (c2 : Fin m → ℚ) (L2 : Matrix (Fin m) (Fin m) ℝ) (a2 : ℚ) (s : Fin N → ℚ) (t : ℚ) : Prop :=
  ∀ z ∈ Ell (castVec c1) L1 a1, ∀ z' ∈ Ell (castVec c2) L2 a2, ∀ n,
    -(s n : ℝ) + t ≤ castVec (W n) ⬝ᵥ (z' - z)

/-- **Semantic predicate (ellipsoids)**: every point of `E₂` dominates every point of `E₁` up to
the per-facet allowance `s`: `∀ z ∈ E₁, ∀ z' ∈ E₂, ∀ n, w_n·(z' − z) ≥ −s_n`. -/
def Dominated (W : Fin N → Fin m → ℚ) (c1 : Fin m → ℚ) (L1 : Matrix (Fin m) (Fin m) ℝ) (a1 : ℚ)
    (c2 : Fin m → ℚ) (L2 : Matrix (Fin m) (Fin m) ℝ) (a2 : ℚ) (s : Fin N → ℚ) : Prop :=
  ∀ z ∈ Ell (castVec c1) L1 a1, ∀ z' ∈ Ell (castVec c2) L2 a2, ∀ n,
    -(s n : ℝ) ≤ castVec (W n) ⬝ᵥ (z' - z)

theorem dominatedTol_zero (W : Fin N → Fin m → ℚ) (c1 : Fin m → ℚ) (L1 : Matrix (Fin m) (Fin m) ℝ)
    (a1 : ℚ) (c2 : Fin m → ℚ) (L2 : Matrix (Fin m) (Fin m) ℝ) (a2 : ℚ) (s : Fin N → ℚ) :
    DominatedTol W c1 L1 a1 c2 L2 a2 s 0 ↔ Dominated W c1 L1 a1 c2 L2 a2 s := by
  simp [DominatedTol, Dominated]

theorem isDominatedTol_zero (W : Mat) (c1 : Vec) (S1 : Mat) (a1 : ℚ) (c2 : Vec) (S2 : Mat) (a2 : ℚ)
    (s : Vec) : isDominatedTol W c1 S1 a1 c2 S2 a2 s 0 = isDominated W c1 S1 a1 c2 S2 a2 s := by
  simp [isDominatedTol, isDominated]

/-- core: the facet loop with thresholds `−s_n + t` decides the threshold ∀∀ statement -/
theorem isDominatedTol_iff (W : Fin N → Fin m → ℚ) (c1 c2 : Fin m → ℚ) (S1 S2 : Fin m → Fin m → ℚ)
    (a1 a2 : ℚ) (s : Fin N → ℚ) (t : ℚ) (L1 L2 : Matrix (Fin m) (Fin m) ℝ)
    (hL1 : (Matrix.of fun i j => (S1 i j : ℝ)) = L1 * L1ᵀ)
    (hL2 : (Matrix.of fun i j => (S2 i j : ℝ)) = L2 * L2ᵀ)
    (ha1 : 0 ≤ a1) (ha2 : 0 ≤ a2) :
    isDominatedTol (toMat W) (toVec c1) (toMat S1) a1 (toVec c2) (toMat S2) a2 (toVec s) t = true ↔
      DominatedTol W c1 L1 a1 c2 L2 a2 s t := by
  have hn : ¬ (a1 < 0 ∨ a2 < 0) := by
    rintro (h | h)
    · exact absurd ha1 (not_le.mpr h)
    · exact absurd ha2 (not_le.mpr h)
  have ha1R : (0 : ℝ) ≤ a1 := by exact_mod_cast ha1
  have ha2R : (0 : ℝ) ≤ a2 := by exact_mod_cast ha2
  simp only [isDominatedTol, Bool.or_eq_true, decide_eq_true_eq, hn, if_false, zip_toMat_toVec,
    List.all_eq_true, List.mem_ofFn, forall_exists_index, forall_apply_eq_imp_iff]
  have hf : ∀ n, facetOk (toVec (W n)) (toVec c1) (toMat S1) a1 (toVec c2) (toMat S2) a2 (-s n + t)
      = true ↔ ∀ z ∈ Ell (castVec c1) L1 a1, ∀ z' ∈ Ell (castVec c2) L2 a2,
        -(s n : ℝ) + t ≤ castVec (W n) ⬝ᵥ (z' - z) := by
    intro n
    rw [facetOk_iff (W n) c1 c2 S1 S2 a1 a2 (-s n + t) L1 L2 hL1 hL2 ha1 ha2,
      ell_pair_min _ _ _ _ _ _ _ _ ha1R ha2R]
    push_cast
    rfl
  constructor
  · intro h z hz z' hz' n
    exact (hf n).1 (h n) z hz z' hz'
  · intro h n
    exact (hf n).2 fun z hz z' hz' => h z hz z' hz' n

end VOPy.Ellipsoid
