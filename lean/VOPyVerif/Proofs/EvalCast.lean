import VOPyVerif.Proofs.EvalCover
/-!
# Helper lemmas for C19, part 5: the rational evaluation of the gap formula is the real formula

The driver evaluates `smallM` / `deltaRow` at `ℚ` (on the exported floats).  Casting commutes with
every operation involved, so the rational result, cast to any ordered field `K`, *is* the value of the
same formula at `K` on the cast inputs.
-/
set_option linter.unusedSectionVars false
namespace VOPy.Eval

variable {K : Type} [Field K] [LinearOrder K] [IsStrictOrderedRing K]

theorem gmin_cast (a b : Rat) : ((gmin a b : Rat) : K) = gmin (a : K) (b : K) := by
  unfold gmin
  by_cases h : b < a
  · have h' : (b : K) < (a : K) := by exact_mod_cast h
    rw [if_pos h, if_pos h']
  · have h' : ¬ (b : K) < (a : K) := by intro hc; apply h; exact_mod_cast hc
    rw [if_neg h, if_neg h']

theorem gmax_cast (a b : Rat) : ((gmax a b : Rat) : K) = gmax (a : K) (b : K) := by
  unfold gmax
  by_cases h : a < b
  · have h' : (a : K) < (b : K) := by exact_mod_cast h
    rw [if_pos h, if_pos h']
  · have h' : ¬ (a : K) < (b : K) := by intro hc; apply h; exact_mod_cast hc
    rw [if_neg h, if_neg h']

theorem foldl_gmin_cast (l : Vec) (x : Rat) :
    ((l.foldl gmin x : Rat) : K) = (castV l).foldl gmin (x : K) := by
  induction l generalizing x with
  | nil => rfl
  | cons a as ih => simp only [List.foldl_cons, castV_cons]; rw [ih, gmin_cast]

theorem minL_cast (l : Vec) : (minL (K := Rat) l).map (fun q : Rat => (q : K)) = minL (castV l) := by
  cases l with
  | nil => rfl
  | cons x xs => simp only [minL, Option.map_some, castV_cons]; rw [foldl_gmin_cast]

theorem castV_zipWith_div (a b : Vec) :
    castV (K := K) (List.zipWith (· / ·) a b) = List.zipWith (· / ·) (castV a) (castV b) := by
  induction a generalizing b with
  | nil => simp
  | cons x xs ih =>
    cases b with
    | nil => simp
    | cons y ys => simp only [List.zipWith_cons_cons, castV_cons]; rw [ih ys]; push_cast; rfl

theorem castV_prods (vi vj : Vec) (W : Mat) :
    castV (K := K) (prods vi vj W) = prods (castV vi) (castV vj) (castM W) := by
  unfold prods castM
  induction W with
  | nil => rfl
  | cons w W ih =>
    simp only [List.map_cons, castV_cons]
    rw [ih, relu_cast, gdot_cast, castV_gsub]

/-- **Casting commutes with the gap formula**: the rational value computed by the driver, cast to
`K`, is `smallM` evaluated at `K` on the cast inputs (and one is defined iff the other is). -/
theorem smallM_cast (vi vj : Vec) (W : Mat) (α : Vec) :
    (smallM (K := Rat) vi vj W α).map (fun q : Rat => (q : K)) =
      smallM (castV vi) (castV vj) (castM W) (castV α) := by
  unfold smallM
  have hl : (castV (K := K) α).length = (castM (K := K) W).length ↔ α.length = W.length := by
    simp [castM]
  by_cases h : α.length = W.length
  · rw [if_pos h, if_pos (hl.mpr h), minL_cast, castV_zipWith_div, castV_prods]
  · rw [if_neg h, if_neg (fun hc => h (hl.mp hc))]; rfl

theorem deltaRowWith_cast (smQ : Vec → Vec → Option Rat) (smK : List K → List K → Option K)
    (hsm : ∀ a b, (smQ a b).map (fun q : Rat => (q : K)) = smK (castV a) (castV b))
    (vi : Vec) (mu : Mat) (acc : Rat) :
    (deltaRowWith (K := Rat) smQ vi mu acc).map (fun q : Rat => (q : K)) =
      deltaRowWith smK (castV vi) (castM mu) (acc : K) := by
  induction mu generalizing acc with
  | nil => rfl
  | cons v rest ih =>
    simp only [deltaRowWith, castM, List.map_cons]
    have := hsm vi v
    cases hq : smQ vi v with
    | none =>
      rw [hq] at this
      simp only [Option.map_none] at this
      rw [← this]; rfl
    | some m =>
      rw [hq] at this
      simp only [Option.map_some] at this
      rw [← this]
      simp only
      rw [ih (gmax acc m), gmax_cast]
      rfl

/-- the same for `Δ_i` -/
theorem deltaRow_cast (vi : Vec) (mu W : Mat) (α : Vec) :
    (deltaRow (K := Rat) vi mu W α).map (fun q : Rat => (q : K)) =
      deltaRow (castV vi) (castM mu) (castM W) (castV α) := by
  unfold deltaRow
  have := deltaRowWith_cast (K := K) (fun a b => smallM a b W α)
    (fun a b => smallM a b (castM W) (castV α)) (fun a b => smallM_cast a b W α) vi mu 0
  simpa using this

end VOPy.Eval

namespace VOPy.Eval
set_option linter.unusedSectionVars false
variable {K : Type} [Field K] [LinearOrder K] [IsStrictOrderedRing K]

/-! ### ε = 0: coverage is plain domination -/

theorem eq_zero_of_gdot_self_nonpos (z : List K) (h : gdot z z ≤ 0) :
    z = List.replicate z.length 0 := by
  induction z with
  | nil => rfl
  | cons x xs ih =>
    simp only [gdot_cons] at h
    have h1 := gdot_self_nonneg xs
    have h2 := mul_self_nonneg x
    have hx : x * x = 0 := by linarith
    have hx0 : x = 0 := mul_self_eq_zero.mp hx
    have hxs : gdot xs xs ≤ 0 := by linarith
    rw [List.length_cons, List.replicate_succ, ← ih hxs, hx0]

theorem gadd_replicate_zero (a : List K) : gadd a (List.replicate a.length (0 : K)) = a := by
  induction a with
  | nil => simp [gadd]
  | cons x xs ih =>
    simp only [gadd, List.length_cons, List.replicate_succ, List.zipWith_cons_cons, add_zero] at ih ⊢
    rw [ih]

theorem covered_zero_iff (W : Mat) (vi vj : Vec) (hlen : vj.length = vi.length) :
    Covered (K := K) W vi vj 0 ↔ InCone (castM W) (gsub (castV vj) (castV (K := K) vi)) := by
  constructor
  · rintro ⟨z, hz, _, hn, hD⟩
    have h0 : z = List.replicate z.length 0 := eq_zero_of_gdot_self_nonpos z (by simpa using hn)
    have hzl : z.length = (castV (K := K) vj).length := by simp [hz, hlen]
    rw [h0, hzl, gadd_replicate_zero] at hD
    exact hD
  · intro h
    refine ⟨List.replicate vi.length 0, by simp, ?_, ?_, ?_⟩
    · intro w _; rw [gdot_replicate_zero]
    · rw [gdot_replicate_zero]; simp
    · have : vi.length = (castV (K := K) vj).length := by simp [hlen]
      rw [this, gadd_replicate_zero]; exact h

theorem dot_eq_gdot (a b : Vec) : dot a b = gdot a b := by
  induction a generalizing b with
  | nil => rw [gdotQ_nil_left]; unfold dot; rfl
  | cons x xs ih =>
    cases b with
    | nil => rw [gdotQ_nil_right]; unfold dot; rfl
    | cons y ys => rw [gdotQ_cons, dot, ih ys]

theorem vsub_eq_gsub (a b : Vec) : vsub a b = gsub a b := rfl

/-- the Boolean `dominates` of `Model/Basic.lean` is cone membership of the difference -/
theorem dominates_iff (W : Mat) (a b : Vec) :
    dominates W a b = true ↔ InCone (castM (K := K) W) (gsub (castV a) (castV b)) := by
  rw [inCone_castM_iff]
  simp only [dominates, inCone, allNonneg, matVec, List.all_map, List.all_eq_true, Function.comp,
    decide_eq_true_eq]
  constructor
  · intro h w hw
    have := h w hw
    rw [dot_eq_gdot, vsub_eq_gsub] at this
    rw [← castV_gsub, ← gdot_cast]
    exact_mod_cast this
  · intro h w hw
    have := h w hw
    rw [← castV_gsub, ← gdot_cast] at this
    rw [dot_eq_gdot, vsub_eq_gsub]
    exact_mod_cast this

end VOPy.Eval

namespace VOPy.Eval

/-! ### Pareto-optimal designs have gap zero -/

theorem castV_rat (v : Vec) : castV (K := ℚ) v = v := by simp [castV]

theorem castM_rat (W : Mat) : castM (K := ℚ) W = W := by
  unfold castM
  have : (castV (K := ℚ)) = id := by funext v; exact castV_rat v
  rw [this, List.map_id]

theorem dominates_iff_rat (W : Mat) (a b : Vec) :
    dominates W a b = true ↔ InCone (K := ℚ) W (gsub a b) := by
  have := dominates_iff (K := ℚ) W a b
  rw [castM_rat, castV_rat, castV_rat] at this
  exact this

/-- a design that is not strictly dominated (`vj ≽ vk → vk ≽ vj`, the clause C13 proves for every
member of the extracted Pareto set) has no dominator in the interior of the cone -/
theorem not_interior_of_not_strictly_dominated (W : Mat) (hW : W ≠ []) (vk vj : Vec)
    (hlen : vj.length = vk.length)
    (h : dominates W vj vk = true → dominates W vk vj = true) :
    ¬ InInterior (K := ℚ) W (gsub vj vk) := by
  intro hint
  have h1 : dominates W vj vk = true :=
    (dominates_iff_rat W vj vk).mpr (fun w hw => (hint w hw).le)
  have h2 := (dominates_iff_rat W vk vj).mp (h h1)
  obtain ⟨w, hw⟩ := List.exists_mem_of_ne_nil W hW
  have a1 := hint w hw
  have a2 := h2 w hw
  rw [gdot_gsub _ _ _ hlen] at a1
  rw [gdot_gsub _ _ _ hlen.symm] at a2
  linarith

end VOPy.Eval
