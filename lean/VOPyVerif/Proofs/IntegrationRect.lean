import VOPyVerif.Proofs.IntegrationBall
import VOPyVerif.Proofs.AccuracyAuerGeom
/-!
# Integration, rectangles: the computed oracles are sound — from C09 and C10

For `Core.rectDom` / `Core.rectCov` (the executable rectangular `is_dominated` / `is_covered` with an
objective-space slack passed through the size guard):

* `rectDom_sound`   — `rectDom W slack a b = true`, `x ∈ a`, `y ∈ b` ⇒ `y + s ≽ x` (`s` the broadcast slack);
* `rectDom_trans`, `rectDom_irrefl` — zero slack: a strict partial order on boxes of positive widths;
* `rectCov_sound`   — `rectCov W slack a b = false`, `x ∈ a`, `y ∈ b` ⇒ `¬ (y ≽ x + s)`.

Domination goes through `C09.rect_isDominated_iff` (vertex-pair loop ⇔ ∀∀ over the real boxes),
covering through `C10.rect_isCovered_iff` (the LP verdict is `1` ⇔ the real boxes are coverable).
-/
namespace VOPy.Core
open VOPy

variable {m N : ℕ}

/-! ### membership -/

theorem getElem_toVec (f : Fin m → ℚ) (n : ℕ) (h : n < (toVec f).length) :
    (toVec f)[n] = f ⟨n, by simpa using h⟩ := by
  simp [toVec]

/-- membership of a rational point in a rational box, coordinate-wise -/
theorem box_mem_toVec_iff (l u x : Fin m → ℚ) :
    Box.mem ⟨toVec l, toVec u⟩ (toVec x) = true ↔ ∀ i, l i ≤ x i ∧ x i ≤ u i := by
  simp only [Box.mem, Accuracy.inBox_iff, toVec_length, true_and]
  constructor
  · intro h i
    have := h i.1 i.2 i.2 i.2
    simpa [getElem_toVec] using this
  · intro h n h1 h2 h3
    have := h ⟨n, h1⟩
    simpa [getElem_toVec] using this

theorem Box.mem_length {b : Box} {x : Vec} (h : b.mem x = true) :
    b.l.length = x.length ∧ b.u.length = x.length := by
  simp only [Box.mem, Accuracy.inBox_iff] at h
  exact ⟨h.1, h.2.1⟩

/-- a rational point of a rational box, as a point of the real box of C09 -/
theorem cast_mem_rbox (l u x : Fin m → ℚ) (h : ∀ i, l i ≤ x i ∧ x i ≤ u i) :
    (fun i => (x i : ℝ)) ∈ Rect.box l u := by
  intro i
  show ((l i : ℚ) : ℝ) ≤ ((x i : ℚ) : ℝ) ∧ ((x i : ℚ) : ℝ) ≤ ((u i : ℚ) : ℝ)
  exact ⟨by exact_mod_cast (h i).1, by exact_mod_cast (h i).2⟩

open VOPy.LinCert VOPy.Covered in
/-- … and as a point of the real box of C10 -/
theorem castV_mem_box (l u x : Fin m → ℚ) (h : ∀ i, l i ≤ x i ∧ x i ≤ u i) :
    castV (toVec x) ∈ Covered.box (toVec l) (toVec u) := by
  show InBox (toVec l) (toVec u) (castV (toVec x))
  rw [inBox_iff_getD]
  refine ⟨by simp, by simp, ?_⟩
  intro i hi
  have hi' : i < m := by simpa using hi
  rw [getD_castV]
  have e : ∀ f : Fin m → ℚ, (toVec f).getD i 0 = f ⟨i, hi'⟩ := by
    intro f
    rw [List.getD_eq_getElem _ _ (by simpa using hi')]
    exact getElem_toVec f i _
  rw [e l, e u, e x]
  exact ⟨by exact_mod_cast (h ⟨i, hi'⟩).1, by exact_mod_cast (h ⟨i, hi'⟩).2⟩

/-! ### domination -/

theorem rect_expandSlack_length {k : ℕ} {s sv : Vec} (h : Rect.expandSlack k s = some sv) :
    sv.length = k := by
  unfold Rect.expandSlack at h
  split at h
  · cases h; simp
  · split at h
    · cases h; assumption
    · cases h

theorem rectDom_eq (W : Mat) (slack s : Vec) (a b : Box)
    (hs : Rect.expandSlack a.l.length slack = some s) :
    rectDom W slack a b = Rect.isDominated W a.l a.u b.l b.u s := by
  simp [rectDom, Rect.isDominatedChecked, hs]

/-- **`rectDom` is sound** (any objective-space slack): if the executable vertex-pair loop answers
`true` for two boxes of dimension `m`, every rational point of the second, shifted by the broadcast
slack `s`, dominates every rational point of the first. -/
theorem rectDom_sound (W : Mat) (m : ℕ) (hW : ∀ w ∈ W, w.length = m) (slack s : Vec)
    (hs : Rect.expandSlack m slack = some s) (a b : Box) (x y : Vec)
    (hal : a.l.length = m) (hx : a.mem x = true) (hy : b.mem y = true) (hxm : x.length = m)
    (hym : y.length = m) (h : rectDom W slack a b = true) :
    dominates W (vadd y s) x = true := by
  have hsl := rect_expandSlack_length hs
  obtain ⟨ha1, ha2⟩ := Box.mem_length hx
  obtain ⟨hb1, hb2⟩ := Box.mem_length hy
  rw [rectDom_eq W slack s a b (by rw [hal]; exact hs)] at h
  rcases a with ⟨la, ua⟩
  rcases b with ⟨lb, ub⟩
  simp only at ha1 ha2 hb1 hb2 h hal
  obtain ⟨N, hN⟩ : ∃ N, W.length = N := ⟨_, rfl⟩
  obtain ⟨W', rfl⟩ := VOPy.C09.mat_wellformed W hN hW
  obtain ⟨la', rfl⟩ := VOPy.C09.vec_wellformed la (ha1.trans hxm)
  obtain ⟨ua', rfl⟩ := VOPy.C09.vec_wellformed ua (ha2.trans hxm)
  obtain ⟨lb', rfl⟩ := VOPy.C09.vec_wellformed lb (hb1.trans hym)
  obtain ⟨ub', rfl⟩ := VOPy.C09.vec_wellformed ub (hb2.trans hym)
  obtain ⟨x', rfl⟩ := VOPy.C09.vec_wellformed x hxm
  obtain ⟨y', rfl⟩ := VOPy.C09.vec_wellformed y hym
  obtain ⟨s', rfl⟩ := VOPy.C09.vec_wellformed s hsl
  rw [box_mem_toVec_iff] at hx hy
  rw [VOPy.C09.rect_isDominated_iff W' la' ua' lb' ub' s'
    (fun i => le_trans (hx i).1 (hx i).2) (fun i => le_trans (hy i).1 (hy i).2)] at h
  rw [vadd_toVec, dominates_toVec_iff]
  intro n
  have := h _ (cast_mem_rbox la' ua' x' hx) _ (cast_mem_rbox lb' ub' y' hy) n
  have h2 : (0 : ℝ) ≤ ((∑ i, W' n i * (y' i + s' i - x' i) : ℚ) : ℝ) := by
    push_cast
    exact this
  exact_mod_cast h2

theorem vadd_replicate_zero (y : Vec) (m : ℕ) (h : y.length = m) :
    vadd y (List.replicate m 0) = y := by
  subst h
  induction y with
  | nil => rfl
  | cons a as ih =>
    simp only [vadd, List.length_cons, List.replicate_succ, List.zipWith_cons_cons, add_zero] at ih ⊢
    rw [ih]

/-- zero scalar slack (`[0]`, what the PaVeBa-GP variants pass): `y ≽ x` -/
theorem rectDom_zero_sound (W : Mat) (m : ℕ) (hW : ∀ w ∈ W, w.length = m) (a b : Box) (x y : Vec)
    (hal : a.l.length = m) (hx : a.mem x = true) (hy : b.mem y = true) (hxm : x.length = m)
    (hym : y.length = m) (h : rectDom W [0] a b = true) : dominates W y x = true := by
  have := rectDom_sound W m hW [0] (List.replicate m 0) rfl a b x y hal hx hy hxm hym h
  rwa [vadd_replicate_zero y m hym] at this

/-- **zero-slack `rectDom` is transitive** through a non-empty middle box. -/
theorem rectDom_trans (W : Mat) (m : ℕ) (hW : ∀ w ∈ W, w.length = m) (a b c : Box)
    (hal : a.l.length = m) (hau : a.u.length = m) (hbl : b.l.length = m) (hbu : b.u.length = m)
    (hcl : c.l.length = m) (hcu : c.u.length = m)
    (ha : vle a.l a.u = true) (hb : vle b.l b.u = true)
    (hc : vle c.l c.u = true)
    (h1 : rectDom W [0] a b = true) (h2 : rectDom W [0] b c = true) : rectDom W [0] a c = true := by
  rw [rectDom_eq W [0] (List.replicate m 0) _ _ (by rw [hal]; rfl)] at h1 ⊢
  rw [rectDom_eq W [0] (List.replicate m 0) _ _ (by rw [hbl]; rfl)] at h2
  rcases a with ⟨la, ua⟩
  rcases b with ⟨lb, ub⟩
  rcases c with ⟨lc, uc⟩
  simp only at *
  obtain ⟨N, hN⟩ : ∃ N, W.length = N := ⟨_, rfl⟩
  obtain ⟨W', rfl⟩ := VOPy.C09.mat_wellformed W hN hW
  obtain ⟨la', rfl⟩ := VOPy.C09.vec_wellformed la hal
  obtain ⟨ua', rfl⟩ := VOPy.C09.vec_wellformed ua hau
  obtain ⟨lb', rfl⟩ := VOPy.C09.vec_wellformed lb hbl
  obtain ⟨ub', rfl⟩ := VOPy.C09.vec_wellformed ub hbu
  obtain ⟨lc', rfl⟩ := VOPy.C09.vec_wellformed lc hcl
  obtain ⟨uc', rfl⟩ := VOPy.C09.vec_wellformed uc hcu
  have le_of : ∀ l u : Fin m → ℚ, vle (toVec l) (toVec u) = true → ∀ i, l i ≤ u i := by
    intro l u h i
    rw [Accuracy.vle_iff] at h
    have := h i.1 (by simp) (by simp)
    simpa [getElem_toVec] using this
  have ha' := le_of _ _ ha
  have hb' := le_of _ _ hb
  have hc' := le_of _ _ hc
  rw [replicate_eq_toVec] at h1 h2 ⊢
  rw [VOPy.C09.rect_isDominated_iff W' _ _ _ _ _ ha' hb'] at h1
  rw [VOPy.C09.rect_isDominated_iff W' _ _ _ _ _ hb' hc'] at h2
  rw [VOPy.C09.rect_isDominated_iff W' _ _ _ _ _ ha' hc']
  intro z hz z'' hz'' n
  have hmid : (fun i => (lb' i : ℝ)) ∈ Rect.box lb' ub' :=
    cast_mem_rbox lb' ub' lb' (fun i => ⟨le_refl _, hb' i⟩)
  have e1 := h1 z hz _ hmid n
  have e2 := h2 _ hmid z'' hz'' n
  have : ∑ i, (W' n i : ℝ) * (z'' i + ((0 : ℚ) : ℝ) - z i) =
      ∑ i, (W' n i : ℝ) * ((lb' i : ℝ) + ((0 : ℚ) : ℝ) - z i) +
      ∑ i, (W' n i : ℝ) * (z'' i + ((0 : ℚ) : ℝ) - (lb' i : ℝ)) := by
    rw [← Finset.sum_add_distrib]
    apply Finset.sum_congr rfl
    intro i _
    push_cast
    ring
  rw [this]
  exact add_nonneg e1 e2

/-- **zero-slack `rectDom` is irreflexive** on boxes with positive width in every coordinate, for a
cone with a non-zero entry. -/
theorem rectDom_irrefl (W : Mat) (m : ℕ) (hW : ∀ w ∈ W, w.length = m)
    (hWne : ∃ w ∈ W, ∃ x ∈ w, x ≠ 0) (a : Box) (hal : a.l.length = m) (hau : a.u.length = m)
    (hlt : ∀ d, ∀ h1 : d < a.l.length, ∀ h2 : d < a.u.length, a.l[d] < a.u[d]) :
    rectDom W [0] a a = false := by
  rw [rectDom_eq W [0] (List.replicate m 0) _ _ (by rw [hal]; rfl)]
  rcases a with ⟨la, ua⟩
  simp only at *
  obtain ⟨N, hN⟩ : ∃ N, W.length = N := ⟨_, rfl⟩
  obtain ⟨W', rfl⟩ := VOPy.C09.mat_wellformed W hN hW
  obtain ⟨la', rfl⟩ := VOPy.C09.vec_wellformed la hal
  obtain ⟨ua', rfl⟩ := VOPy.C09.vec_wellformed ua hau
  have hlt' : ∀ i, la' i < ua' i := by
    intro i
    have := hlt i.1 (by simp) (by simp)
    simpa [getElem_toVec] using this
  obtain ⟨w, hw, x, hx, hx0⟩ := hWne
  obtain ⟨n, rfl⟩ := mem_toMat.1 hw
  obtain ⟨i0, hi0⟩ : ∃ i, W' n i ≠ 0 := by
    simp only [toVec, List.mem_ofFn] at hx
    obtain ⟨i, rfl⟩ := hx
    exact ⟨i, hx0⟩
  rw [Bool.eq_false_iff]
  intro h
  rw [replicate_eq_toVec,
    VOPy.C09.rect_isDominated_iff W' _ _ _ _ _ (fun i => le_of_lt (hlt' i)) (fun i => le_of_lt (hlt' i))] at h
  -- two points of the box that differ in coordinate `i0` only
  let z : Fin m → ℝ := fun i => (la' i : ℝ)
  let z' : Fin m → ℝ := Function.update z i0 (ua' i0 : ℝ)
  have hz : z ∈ Rect.box la' ua' := cast_mem_rbox la' ua' la' (fun i => ⟨le_refl _, le_of_lt (hlt' i)⟩)
  have hz' : z' ∈ Rect.box la' ua' := by
    intro i
    by_cases hi : i = i0
    · subst hi
      simp only [z', Function.update_self]
      exact ⟨by exact_mod_cast le_of_lt (hlt' i), le_refl _⟩
    · simp only [z', Function.update_of_ne hi, z]
      exact ⟨le_refl _, by exact_mod_cast le_of_lt (hlt' i)⟩
  have e1 := h z hz z' hz' n
  have e2 := h z' hz' z hz n
  have s1 : ∑ i, (W' n i : ℝ) * (z' i + ((0 : ℚ) : ℝ) - z i) =
      (W' n i0 : ℝ) * ((ua' i0 : ℝ) - (la' i0 : ℝ)) := by
    rw [Finset.sum_eq_single i0]
    · simp [z', z]
    · intro i _ hi
      simp [z', Function.update_of_ne hi]
    · intro h; exact absurd (Finset.mem_univ i0) h
  have s2 : ∑ i, (W' n i : ℝ) * (z i + ((0 : ℚ) : ℝ) - z' i) =
      -((W' n i0 : ℝ) * ((ua' i0 : ℝ) - (la' i0 : ℝ))) := by
    rw [Finset.sum_eq_single i0]
    · simp only [z', z, Function.update_self, Rat.cast_zero, add_zero]
      ring
    · intro i _ hi
      simp [z', Function.update_of_ne hi]
    · intro h; exact absurd (Finset.mem_univ i0) h
  rw [s1] at e1
  rw [s2] at e2
  have hprod : (W' n i0 : ℝ) * ((ua' i0 : ℝ) - (la' i0 : ℝ)) = 0 := le_antisymm (by linarith) e1
  have hw0 : (W' n i0 : ℝ) ≠ 0 := by exact_mod_cast hi0
  have hd0 : ((ua' i0 : ℝ) - (la' i0 : ℝ)) ≠ 0 := by
    have : (la' i0 : ℝ) < (ua' i0 : ℝ) := by exact_mod_cast hlt' i0
    linarith
  exact (mul_ne_zero hw0 hd0) hprod

/-! ### covering -/

theorem ncols_eq (W : Mat) (m : ℕ) (hW : ∀ w ∈ W, w.length = m) (hne : W ≠ []) :
    Covered.ncols W = m := by
  cases W with
  | nil => exact absurd rfl hne
  | cons w _ => exact hW w (by simp)

open VOPy.LinCert VOPy.Covered in
/-- **`rectCov` is sound.**  If the executable rectangular covering test (objective-space slack,
broadcast to `s`) does not answer `1` for two boxes of dimension `m`, then no rational point `y` of
the second box dominates `x + s` for a rational point `x` of the first. -/
theorem rectCov_sound (W : Mat) (m : ℕ) (hW : ∀ w ∈ W, w.length = m) (hne : W ≠ []) (slack s : Vec)
    (hs : Covered.expandSlack m slack = some s) (a b : Box) (x y : Vec)
    (hx : a.mem x = true) (hy : b.mem y = true) (hxm : x.length = m) (hym : y.length = m)
    (h : rectCov W slack a b = false) : dominates W y (vadd x s) = false := by
  rw [← Bool.not_eq_true]
  intro hd
  have hsl := expandSlack_length hs
  obtain ⟨ha1, ha2⟩ := Box.mem_length hx
  obtain ⟨hb1, hb2⟩ := Box.mem_length hy
  rcases a with ⟨la, ua⟩
  rcases b with ⟨lb, ub⟩
  simp only at ha1 ha2 hb1 hb2
  have hyes : rectIsCovered W la ua lb ub slack = some Verdict.yes := by
    apply (VOPy.C10.rect_isCovered_iff W la ua lb ub slack (by omega) (by omega) (by omega)
      (by rw [ncols_eq W m hW hne]; omega) (fun w hw => by rw [hW w hw]; omega)).1.2
    refine ⟨s, by rw [ha1, hxm]; exact hs, ?_⟩
    obtain ⟨N, hN⟩ : ∃ N, W.length = N := ⟨_, rfl⟩
    obtain ⟨W', rfl⟩ := VOPy.C09.mat_wellformed W hN hW
    obtain ⟨la', rfl⟩ := VOPy.C09.vec_wellformed la (ha1.trans hxm)
    obtain ⟨ua', rfl⟩ := VOPy.C09.vec_wellformed ua (ha2.trans hxm)
    obtain ⟨lb', rfl⟩ := VOPy.C09.vec_wellformed lb (hb1.trans hym)
    obtain ⟨ub', rfl⟩ := VOPy.C09.vec_wellformed ub (hb2.trans hym)
    obtain ⟨x', rfl⟩ := VOPy.C09.vec_wellformed x hxm
    obtain ⟨y', rfl⟩ := VOPy.C09.vec_wellformed y hym
    obtain ⟨s', rfl⟩ := VOPy.C09.vec_wellformed s hsl
    rw [box_mem_toVec_iff] at hx hy
    rw [vadd_toVec, dominates_toVec_iff] at hd
    refine ⟨_, castV_mem_box la' ua' x' hx, _, castV_mem_box lb' ub' y' hy, ?_⟩
    intro w hw
    obtain ⟨n, rfl⟩ := mem_toMat.1 hw
    rw [← castV_vsub, ← castV_vsub, ← cast_dot, vsub_toVec, vsub_toVec, dot_toVec]
    have := hd n
    have e : ∑ i, W' n i * (y' i - x' i - s' i) = ∑ i, W' n i * (y' i - (x' i + s' i)) := by
      apply Finset.sum_congr rfl; intro i _; ring
    rw [e]
    exact_mod_cast this
  simp [rectCov, hyes] at h

theorem Box.wfB_iff (m : Nat) (b : Box) : b.wfB m = true ↔
    b.l.length = m ∧ b.u.length = m ∧
      ∀ d, ∀ h1 : d < b.l.length, ∀ h2 : d < b.u.length, b.l[d] < b.u[d] := by
  simp only [Box.wfB, Bool.and_eq_true, decide_eq_true_eq, Accuracy.sltB_iff, and_assoc]

theorem rect_expandSlack_eq (k : ℕ) (s : Vec) : Rect.expandSlack k s = Covered.expandSlack k s := by
  match s with
  | [] => rfl
  | [_] => rfl
  | _ :: _ :: _ => rfl

end VOPy.Core
