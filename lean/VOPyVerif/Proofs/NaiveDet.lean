import VOPyVerif.Proofs.NaiveCone
import VOPyVerif.Proofs.Pareto
/-!
# C08 helper: the deterministic half of the PAC argument, over `ℝ × ℝ`

If every sample mean is within `ρ` of its true mean and `B2·(2ρ)² ≤ ε²` (`B2 = β²` from the planar
lemma) then the Pareto set of the sample means — computed by the shared `Pareto.fast` loop —
contains no design whose gap exceeds `ε` and `ε`-covers every design.
-/
namespace VOPy.Naive
open VOPy

/-- **gap of design `i` exceeds `ε`** (true means `mu 0 … mu (n-1)`): some design `j` dominates `i`
by more than `ε` in the sense of the paper's `m(i,j)`: there is `s > ε` such that
`μ_j − μ_i − s·u ∈ C` for every `u ∈ C` with `‖u‖ ≤ 1`.  (`m(i,j)` is the largest such `s`; VOPy's
`get_delta` computes `Δ_i = max_j m(i,j)`, so `Δ_i > ε` implies this predicate.) -/
def GapExceeds (W : Cone2) (mu : ℕ → ℝ × ℝ) (n i : ℕ) (ε : ℝ) : Prop :=
  ∃ j, j < n ∧ ∃ s, ε < s ∧ ∀ u, W.mem u → nsq u ≤ 1 → W.mem (mu j - mu i - s • u)

/-- **`x` is `ε`-covered by `y`**: `∃ z ∈ C, ‖z‖ ≤ ε, y + z − x ∈ C` — exactly the feasibility
problem of `vopy.utils.is_covered(vi = x, vj = y, eps, W)` (substitute `z = x' + (vi − vj)`). -/
def Covered (W : Cone2) (ε : ℝ) (x y : ℝ × ℝ) : Prop :=
  ∃ z, W.mem z ∧ nsq z ≤ ε ^ 2 ∧ W.mem (y + z - x)

open Classical in
/-- the cone order as a Boolean relation on `ℝ × ℝ` (`a` dominates `b`) -/
noncomputable def Cone2.domB (W : Cone2) (a b : ℝ × ℝ) : Bool := decide (W.mem (a - b))

theorem Cone2.domB_iff (W : Cone2) (a b : ℝ × ℝ) : W.domB a b = true ↔ W.mem (a - b) := by
  simp [Cone2.domB]

theorem Cone2.domB_refl (W : Cone2) (a : ℝ × ℝ) : W.domB a a = true := by
  rw [Cone2.domB_iff, sub_self]; exact W.mem_zero

theorem Cone2.domB_trans (W : Cone2) (a b c : ℝ × ℝ) (h1 : W.domB a b = true)
    (h2 : W.domB b c = true) : W.domB a c = true := by
  rw [Cone2.domB_iff] at *
  have := W.mem_add h1 h2
  rwa [sub_add_sub_cancel] at this

theorem mem_indexed {α : Type} (xs : List α) (p : Nat × α) :
    p ∈ Pareto.indexed xs ↔ ∃ i, ∃ h : i < xs.length, p = (i, xs[i]) := by
  simp only [Pareto.indexed, List.mem_map, Prod.exists]
  constructor
  · rintro ⟨a, i, hmem, rfl⟩
    rw [List.mem_zipIdx_iff_getElem?] at hmem
    obtain ⟨hi, hget⟩ := List.getElem?_eq_some_iff.mp hmem
    exact ⟨i, hi, by rw [hget]⟩
  · rintro ⟨i, hi, rfl⟩
    exact ⟨xs[i], i, by simp [List.mem_zipIdx_iff_getElem?, hi], rfl⟩

theorem nsq_sub_le (a b : ℝ × ℝ) : nsq (a - b) ≤ 2 * nsq a + 2 * nsq b := by
  simp only [nsq, Prod.fst_sub, Prod.snd_sub]
  nlinarith [sq_nonneg (a.1 + b.1), sq_nonneg (a.2 + b.2)]

theorem nsq_neg (a : ℝ × ℝ) : nsq (-a) = nsq a := by simp [nsq]

/-- **Deterministic accuracy, real plane.** -/
theorem det_real (W : Cone2) (B2 : ℝ) (hB0 : 0 ≤ B2)
    (hPL : ∀ e, ∃ z, W.mem z ∧ W.mem (z - e) ∧ nsq z ≤ B2 * nsq e)
    (hint : ∃ u0, nsq u0 ≤ 1 ∧ 0 < W.f1 u0 ∧ 0 < W.f2 u0)
    (xs : List (ℝ × ℝ)) (mu : ℕ → ℝ × ℝ) (ε ρ : ℝ) (hε : 0 < ε)
    (hρ : B2 * (4 * ρ ^ 2) ≤ ε ^ 2)
    (hclose : ∀ i (h : i < xs.length), nsq (xs[i] - mu i) ≤ ρ ^ 2) :
    (∀ i ∈ Pareto.fast W.domB xs, i < xs.length ∧ ¬ GapExceeds W mu xs.length i ε) ∧
    (∀ i, i < xs.length →
      ∃ k ∈ Pareto.fast W.domB xs, k < xs.length ∧ Covered W ε (mu i) (mu k)) := by
  have hspec := Pareto.loop_spec W.domB W.domB_refl W.domB_trans (Pareto.indexed xs)
  obtain ⟨hsub, -, hcover, hnd⟩ := hspec
  -- a bound used twice: the error difference of two designs
  have herr : ∀ i j (hi : i < xs.length) (hj : j < xs.length),
      B2 * nsq ((xs[i] - mu i) - (xs[j] - mu j)) ≤ ε ^ 2 := by
    intro i j hi hj
    have h1 := nsq_sub_le (xs[i] - mu i) (xs[j] - mu j)
    have h2 := hclose i hi
    have h3 := hclose j hj
    have : nsq ((xs[i] - mu i) - (xs[j] - mu j)) ≤ 4 * ρ ^ 2 := by linarith
    calc B2 * nsq ((xs[i] - mu i) - (xs[j] - mu j)) ≤ B2 * (4 * ρ ^ 2) :=
          mul_le_mul_of_nonneg_left this hB0
      _ ≤ ε ^ 2 := hρ
  constructor
  · intro i hi
    simp only [Pareto.fast, List.mem_map] at hi
    obtain ⟨p, hpR, rfl⟩ := hi
    have hpL : p ∈ Pareto.indexed xs := hsub.subset hpR
    obtain ⟨i, hi, rfl⟩ := (mem_indexed xs p).mp hpL
    refine ⟨hi, ?_⟩
    rintro ⟨j, hj, s, hs, hgap⟩
    -- planar lemma on the error difference
    obtain ⟨z, hz, hze, hzn⟩ := hPL ((xs[i] - mu i) - (xs[j] - mu j))
    have hzε : nsq z ≤ ε ^ 2 := le_trans hzn (herr i j hi hj)
    obtain ⟨u0, hu0n, hu01, hu02⟩ := hint
    have hs0 : 0 < s := lt_trans hε hs
    -- the unit-ball direction z/ε
    have hu : W.mem ((1 / ε) • z) := W.mem_smul (by positivity) hz
    have hun : nsq ((1 / ε) • z) ≤ 1 := by
      have : nsq ((1 / ε) • z) = nsq z / ε ^ 2 := by
        simp only [nsq, Prod.smul_fst, Prod.smul_snd, smul_eq_mul]; field_simp
      rw [this, div_le_one (by positivity)]; exact hzε
    have hg1 := hgap _ hu hun
    have hg0 := hgap u0 ⟨le_of_lt hu01, le_of_lt hu02⟩ hu0n
    -- facet-wise strict domination of the sample mean of `i` by that of `j`
    have strict : ∀ (f : ℝ × ℝ → ℝ)
        (fsub : ∀ x y, f (x - y) = f x - f y) (fsmul : ∀ (t : ℝ) x, f (t • x) = t * f x),
        0 ≤ f (mu j - mu i - s • ((1 / ε) • z)) → 0 ≤ f (mu j - mu i - s • u0) → 0 < f u0 →
        0 ≤ f (z - ((xs[i] - mu i) - (xs[j] - mu j))) → 0 < f (xs[j] - xs[i]) := by
      intro f fsub fsmul h1 h0 hu0 hze'
      rw [fsub, fsub, fsmul, fsmul] at h1
      rw [fsub, fsub, fsmul] at h0
      rw [fsub, fsub, fsub, fsub] at hze'
      rw [fsub]
      have hd : 0 < f (mu j) - f (mu i) := by nlinarith
      -- f z ≤ (ε/s) · f d
      have hfz : s * f z ≤ ε * (f (mu j) - f (mu i)) := by
        have : s * (1 / ε * f z) = (s * f z) / ε := by field_simp
        rw [this] at h1
        have h1' : s * f z / ε ≤ f (mu j) - f (mu i) := by linarith
        rwa [div_le_iff₀ hε, mul_comm (f (mu j) - f (mu i)) ε] at h1'
      -- f e ≤ f z
      have hfe : (f xs[i] - f (mu i)) - (f xs[j] - f (mu j)) ≤ f z := by linarith
      have : s * ((f xs[i] - f (mu i)) - (f xs[j] - f (mu j))) < s * (f (mu j) - f (mu i)) := by
        calc s * ((f xs[i] - f (mu i)) - (f xs[j] - f (mu j))) ≤ s * f z :=
              mul_le_mul_of_nonneg_left hfe hs0.le
          _ ≤ ε * (f (mu j) - f (mu i)) := hfz
          _ < s * (f (mu j) - f (mu i)) := mul_lt_mul_of_pos_right hs hd
      have := lt_of_mul_lt_mul_left this hs0.le
      linarith
    have s1 := strict W.f1 W.f1_sub W.f1_smul hg1.1 hg0.1 hu01 hze.1
    have s2 := strict W.f2 W.f2_sub W.f2_smul hg1.2 hg0.2 hu02 hze.2
    have hdom : W.domB xs[j] xs[i] = true := (W.domB_iff _ _).mpr ⟨s1.le, s2.le⟩
    have hjL : (j, xs[j]) ∈ Pareto.indexed xs := (mem_indexed xs _).mpr ⟨j, hj, rfl⟩
    have hback := hnd (i, xs[i]) hpR (j, xs[j]) hjL hdom
    have hb1 := ((W.domB_iff _ _).mp hback).1
    rw [W.f1_sub] at hb1 s1
    linarith
  · intro i hi
    have hiL : (i, xs[i]) ∈ Pareto.indexed xs := (mem_indexed xs _).mpr ⟨i, hi, rfl⟩
    obtain ⟨p, hpR, hpd⟩ := hcover (i, xs[i]) hiL
    have hpL : p ∈ Pareto.indexed xs := hsub.subset hpR
    obtain ⟨k, hk, rfl⟩ := (mem_indexed xs p).mp hpL
    refine ⟨k, by simp only [Pareto.fast, List.mem_map]; exact ⟨(k, xs[k]), hpR, rfl⟩, hk, ?_⟩
    have hki : W.mem (xs[k] - xs[i]) := (W.domB_iff _ _).mp hpd
    obtain ⟨z, hz, hze, hzn⟩ := hPL (-((xs[i] - mu i) - (xs[k] - mu k)))
    rw [nsq_neg] at hzn
    refine ⟨z, hz, le_trans hzn (herr i k hi hk), ?_⟩
    have : mu k + z - mu i
        = (xs[k] - xs[i]) + (z - -((xs[i] - mu i) - (xs[k] - mu k))) := by
      ext <;> simp <;> ring
    rw [this]
    exact W.mem_add hki hze

end VOPy.Naive
