import VOPyVerif.Model.Naive
import VOPyVerif.Proofs.NaiveDet
import Mathlib.Data.Rat.Cast.Order
import Mathlib.Tactic.Ring
/-!
# C08 helper lemmas about the executable model `Model/Naive.lean`

* transport of the shared Pareto loop along a relation-preserving map (`fast_map`), used to move
  `Pareto.fast (dominates W)` on rational vectors of length 2 to `Pareto.fast W.domB` on `ℝ × ℝ`;
* the run state machine in closed form (`runSteps_mk`) and the observation tensor by rows;
* `rowMean` is the coordinatewise arithmetic mean.
-/
namespace VOPy.Naive
open VOPy VOPy.Pareto

section transport
variable {α β : Type}

theorem rm_map (f : α → β) (dα : α → α → Bool) (dβ : β → β → Bool)
    (h : ∀ a b, dα a b = dβ (f a) (f b)) (v : Nat × α) (l : List (Nat × α)) :
    (rm dα v l).map (Prod.map id f) = rm dβ (Prod.map id f v) (l.map (Prod.map id f)) := by
  simp only [rm, List.filter_map]
  congr 1
  apply List.filter_congr
  intro e _
  simp [h]

theorem loop_map (f : α → β) (dα : α → α → Bool) (dβ : β → β → Bool)
    (h : ∀ a b, dα a b = dβ (f a) (f b)) : ∀ (pre post : List (Nat × α)),
    (loop dα pre post).map (Prod.map id f)
      = loop dβ (pre.map (Prod.map id f)) (post.map (Prod.map id f)) := by
  intro pre post
  induction pre, post using loop.induct dα with
  | case1 pre => simp [loop]
  | case2 pre v post ih =>
    rw [loop, ih, List.map_cons, loop, List.map_append, rm_map f dα dβ h, rm_map f dα dβ h]
    simp

theorem indexed_map (f : α → β) (xs : List α) :
    indexed (xs.map f) = (indexed xs).map (Prod.map id f) := by
  simp [indexed, List.zipIdx_map, List.map_map, Function.comp_def]

theorem fast_map (f : α → β) (dα : α → α → Bool) (dβ : β → β → Bool)
    (h : ∀ a b, dα a b = dβ (f a) (f b)) (xs : List α) :
    fast dβ (xs.map f) = fast dα xs := by
  have := loop_map f dα dβ h [] (indexed xs)
  simp only [fast, indexed_map, List.map_nil] at this ⊢
  rw [← this, List.map_map]
  congr 1

end transport

/-- a length-2 rational vector as a point of the real plane (anything else ↦ 0; only used under
the hypothesis `length = 2`) -/
noncomputable def toR2 : Vec → ℝ × ℝ
  | [x, y] => ((x : ℝ), (y : ℝ))
  | _ => (0, 0)

/-- the real cone with the (cast) rows of a `2 × 2` rational matrix -/
noncomputable def coneOfRat (a1 a2 c1 c2 : ℚ) : Cone2 := ⟨a1, a2, c1, c2⟩

theorem dominates_eq_domB (a1 a2 c1 c2 : ℚ) (x y : Vec) (hx : x.length = 2) (hy : y.length = 2) :
    dominates [[a1, a2], [c1, c2]] x y = (coneOfRat a1 a2 c1 c2).domB (toR2 x) (toR2 y) := by
  match x, y, hx, hy with
  | [x1, x2], [y1, y2], _, _ =>
    rw [Bool.eq_iff_iff, Cone2.domB_iff]
    simp only [dominates, inCone, allNonneg, matVec, vsub, dot, List.map_cons, List.map_nil,
      List.zipWith_cons_cons, List.zipWith_nil_left, List.all_cons, List.all_nil, Bool.and_true,
      Bool.and_eq_true, decide_eq_true_eq, Cone2.mem, Cone2.f1, Cone2.f2, coneOfRat, toR2,
      Prod.fst_sub, Prod.snd_sub, add_zero]
    constructor
    · rintro ⟨h1, h2⟩
      exact ⟨by exact_mod_cast h1, by exact_mod_cast h2⟩
    · rintro ⟨h1, h2⟩
      exact ⟨by exact_mod_cast h1, by exact_mod_cast h2⟩

/-- **The rational model's Pareto set is the real one.**  For a `2 × 2` rational cone matrix and
rational vectors of length 2, `Pareto.fast (dominates W)` — what the driver runs — returns the same
indices as `Pareto.fast` under the real cone order on the cast points. -/
theorem fast_rat_eq_real (a1 a2 c1 c2 : ℚ) (xs : List Vec) (hlen : ∀ x ∈ xs, x.length = 2) :
    Pareto.fast (dominates [[a1, a2], [c1, c2]]) xs
      = Pareto.fast (coneOfRat a1 a2 c1 c2).domB (xs.map toR2) := by
  let xs' : List {v : Vec // v.length = 2} := xs.pmap Subtype.mk hlen
  have hxs : xs'.map Subtype.val = xs := by simp [xs', List.map_pmap]
  let dα : {v : Vec // v.length = 2} → {v : Vec // v.length = 2} → Bool :=
    fun a b => dominates [[a1, a2], [c1, c2]] a.1 b.1
  have h1 : Pareto.fast (dominates [[a1, a2], [c1, c2]]) (xs'.map Subtype.val) = Pareto.fast dα xs' :=
    fast_map Subtype.val dα _ (fun _ _ => rfl) xs'
  have h2 : Pareto.fast (coneOfRat a1 a2 c1 c2).domB (xs'.map (fun v => toR2 v.1))
      = Pareto.fast dα xs' :=
    fast_map (fun v => toR2 v.1) dα _ (fun a b => dominates_eq_domB a1 a2 c1 c2 a.1 b.1 a.2 b.2) xs'
  rw [← hxs, h1, ← h2, List.map_map]
  rfl

/-! ### the observation tensor and the run -/

theorem appendObs_length (S : List (List Vec)) (new : List Vec) (h : new.length = S.length) :
    (appendObs S new).length = S.length := by
  simp [appendObs, h]

theorem appendObs_getElem? (S : List (List Vec)) (new : List Vec) (i : Nat) (row : List Vec) (o : Vec)
    (hS : S[i]? = some row) (hn : new[i]? = some o) :
    (appendObs S new)[i]? = some (row ++ [o]) := by
  simp [appendObs, List.getElem?_zipWith, hS, hn]

/-- row `i` of the tensor after consuming `rounds`: the old row followed by the `i`-th rows of the
observation matrices, in order -/
theorem foldl_appendObs_getElem? : ∀ (rounds : List (List Vec)) (S : List (List Vec)) (i : Nat)
    (row : List Vec), S[i]? = some row → (∀ r ∈ rounds, r.length = S.length) →
    (rounds.foldl appendObs S)[i]? = some (row ++ rounds.filterMap (·[i]?)) := by
  intro rounds
  induction rounds with
  | nil => intro S i row hS _; simp [hS]
  | cons new rest ih =>
    intro S i row hS hlen
    have hnl : new.length = S.length := hlen new (by simp)
    have hi : i < S.length := by
      rcases List.getElem?_eq_some_iff.mp hS with ⟨h, _⟩; exact h
    have hno : new[i]? = some new[i] := List.getElem?_eq_getElem (by omega)
    rw [List.foldl_cons, ih (appendObs S new) i (row ++ [new[i]])
      (appendObs_getElem? S new i row _ hS hno)]
    · simp [hno]
    · intro r hr
      rw [appendObs_length S new hnl]
      exact hlen r (by simp [hr])

theorem runSteps_mk (K L : Nat) : ∀ (news : List (List Vec)) (r c : Nat) (S : List (List Vec)),
    r ≤ L →
    runSteps ⟨L, K, r, c, S⟩ news
      = ⟨L, K, min (r + news.length) L, c + K * (min (r + news.length) L - r),
          (news.take (L - r)).foldl appendObs S⟩ := by
  intro news
  induction news with
  | nil =>
    intro r c S h
    simp [runSteps, Nat.min_eq_left h]
  | cons new rest ih =>
    intro r c S h
    have hrun : runSteps ⟨L, K, r, c, S⟩ (new :: rest)
        = runSteps (step ⟨L, K, r, c, S⟩ new).1 rest := by simp [runSteps]
    rw [hrun]
    by_cases hr : r = L
    · subst hr
      have hst : (step ⟨r, K, r, c, S⟩ new).1 = ⟨r, K, r, c, S⟩ := by simp [step]
      rw [hst, ih r c S (Nat.le_refl _)]
      simp
    · have hlt : r < L := Nat.lt_of_le_of_ne h hr
      have hst : (step ⟨L, K, r, c, S⟩ new).1 = ⟨L, K, r + 1, c + K, appendObs S new⟩ := by
        simp [step, hr]
      rw [hst, ih (r + 1) (c + K) (appendObs S new) hlt]
      have e1 : r + 1 + rest.length = r + (new :: rest).length := by simp; omega
      have e2 : L - r = (L - (r + 1)) + 1 := by omega
      rw [e1, e2, List.take_succ_cons, List.foldl_cons]
      congr 1
      have hM : r + 1 ≤ min (r + (new :: rest).length) L := by
        simp only [List.length_cons]; omega
      generalize min (r + (new :: rest).length) L = M at hM
      obtain ⟨d, rfl⟩ : ∃ d, M = r + 1 + d := ⟨M - (r + 1), by omega⟩
      have : r + 1 + d - r = (r + 1 + d - (r + 1)) + 1 := by omega
      rw [this, Nat.mul_succ]; omega

/-! ### `rowMean` is the arithmetic mean -/

theorem vadd_getElem? (a b : Vec) (c : Nat) (x y : Rat) (ha : a[c]? = some x) (hb : b[c]? = some y) :
    (vadd a b)[c]? = some (x + y) := by
  simp [vadd, List.getElem?_zipWith, ha, hb]

theorem foldl_vadd_getElem? (c : Nat) : ∀ (os : List Vec) (acc : Vec) (x : Rat),
    acc[c]? = some x → (∀ o ∈ os, ∃ y, o[c]? = some y) →
    (os.foldl vadd acc)[c]? = some (x + (os.map (fun o => o[c]?.getD 0)).sum) := by
  intro os
  induction os with
  | nil => intro acc x h _; simp [h]
  | cons o rest ih =>
    intro acc x h hall
    obtain ⟨y, hy⟩ := hall o (by simp)
    rw [List.foldl_cons, ih (vadd acc o) (x + y) (vadd_getElem? acc o c x y h hy)
      (fun o' ho' => hall o' (by simp [ho']))]
    simp [hy, add_assoc]

/-- coordinate `c` of `rowMean obs` is the sum of the `c`-th coordinates of all observations divided
by their number, whenever every observation has a `c`-th coordinate and there is at least one. -/
theorem rowMean_getElem? (obs : List Vec) (c : Nat) (hne : obs ≠ [])
    (hall : ∀ o ∈ obs, ∃ y, o[c]? = some y) :
    (rowMean obs)[c]? = some ((obs.map (fun o => o[c]?.getD 0)).sum / (obs.length : Rat)) := by
  match obs, hne with
  | o :: os, _ =>
    obtain ⟨y, hy⟩ := hall o (by simp)
    have := foldl_vadd_getElem? c os o y hy (fun o' ho' => hall o' (by simp [ho']))
    simp only [rowMean, vsum, List.getElem?_map, this, Option.map_some, List.map_cons,
      List.sum_cons, hy, Option.getD_some]


/-! ### shapes -/

theorem foldl_appendObs_length : ∀ (rounds : List (List Vec)) (S : List (List Vec)),
    (∀ r ∈ rounds, r.length = S.length) → (rounds.foldl appendObs S).length = S.length := by
  intro rounds
  induction rounds with
  | nil => intro S _; rfl
  | cons new rest ih =>
    intro S h
    have hn : new.length = S.length := h new (by simp)
    rw [List.foldl_cons, ih (appendObs S new), appendObs_length S new hn]
    intro r hr
    rw [appendObs_length S new hn]
    exact h r (by simp [hr])

theorem foldl_vadd_length (m : Nat) : ∀ (os : List Vec) (acc : Vec), acc.length = m →
    (∀ o ∈ os, o.length = m) → (os.foldl vadd acc).length = m := by
  intro os
  induction os with
  | nil => intro acc h _; exact h
  | cons o rest ih =>
    intro acc h hall
    rw [List.foldl_cons]
    apply ih
    · simp [vadd, h, hall o (by simp)]
    · intro o' ho'; exact hall o' (by simp [ho'])

theorem rowMean_length (m : Nat) (obs : List Vec) (hne : obs ≠ []) (hall : ∀ o ∈ obs, o.length = m) :
    (rowMean obs).length = m := by
  match obs, hne with
  | o :: os, _ =>
    simp only [rowMean, vsum, List.length_map]
    exact foldl_vadd_length m os o (hall o (by simp)) (fun o' ho' => hall o' (by simp [ho']))

/-- the state reached from `init K L` by any history of observation matrices (`K` rows each): the
first `L` matrices are consumed, `round` counts them, `sample_count = K · round`, and row `i` of the
tensor lists the `i`-th rows of the consumed matrices in order. -/
theorem run_init (K L : Nat) (news : List (List Vec)) (hshape : ∀ new ∈ news, new.length = K) :
    let s := runSteps (init K L) news
    s.L = L ∧ s.K = K ∧ s.round = (news.take L).length ∧ s.sampleCount = K * (news.take L).length ∧
    s.samples.length = K ∧
    ∀ i, i < K → s.samples[i]? = some ((news.take L).filterMap (·[i]?)) := by
  intro s
  have hs : s = ⟨L, K, min (0 + news.length) L, 0 + K * (min (0 + news.length) L - 0),
      (news.take (L - 0)).foldl appendObs (List.replicate K [])⟩ :=
    runSteps_mk K L news 0 0 (List.replicate K []) (Nat.zero_le _)
  have htake : ∀ r ∈ news.take L, r.length = (List.replicate K ([] : List Vec)).length := by
    intro r hr; rw [List.length_replicate]; exact hshape r (List.mem_of_mem_take hr)
  rw [hs]
  simp only [Nat.zero_add, Nat.sub_zero, List.length_take]
  refine ⟨trivial, trivial, Nat.min_comm _ _, by rw [Nat.min_comm], ?_, ?_⟩
  · rw [foldl_appendObs_length _ _ htake, List.length_replicate]
  · intro i hi
    have := foldl_appendObs_getElem? (news.take L) (List.replicate K []) i []
      (by simp [hi]) htake
    simpa using this

/-- the `i`-th rows of a list of matrices that all have more than `i` rows -/
theorem filterMap_row (i : Nat) : ∀ (l : List (List Vec)), (∀ new ∈ l, i < new.length) →
    (l.filterMap (·[i]?)).length = l.length ∧
    ∀ o ∈ l.filterMap (·[i]?), ∃ new ∈ l, o ∈ new := by
  intro l
  induction l with
  | nil => intro _; simp
  | cons new rest ih =>
    intro h
    have hi : i < new.length := h new (by simp)
    obtain ⟨h1, h2⟩ := ih (fun n hn => h n (by simp [hn]))
    have hget : new[i]? = some new[i] := List.getElem?_eq_getElem hi
    constructor
    · simp [hget, h1]
    · intro o ho
      simp only [List.filterMap_cons, hget, List.mem_cons] at ho
      rcases ho with rfl | ho
      · exact ⟨new, by simp, List.getElem_mem hi⟩
      · obtain ⟨n, hn, hon⟩ := h2 o ho
        exact ⟨n, by simp [hn], hon⟩

end VOPy.Naive
