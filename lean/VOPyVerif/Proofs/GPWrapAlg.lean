import Mathlib.LinearAlgebra.Matrix.NonsingularInverse
import Mathlib.LinearAlgebra.Matrix.SchurComplement
import Mathlib.LinearAlgebra.Matrix.PosDef
import Mathlib.Data.Matrix.Block
import Mathlib.Tactic.Ring
import Mathlib.Tactic.Abel
/-!
Helper lemmas for C15, part 2: GP-posterior algebra over Mathlib's `Matrix`.

`quad A k r = k ⬝ᵥ A⁻¹ *ᵥ r` is the only non-trivial ingredient of the posterior:
`mean = mean₀* + quad (K+N) k* (y − mean₀)`, `cov i j = k**ᵢⱼ − quad (K+N) k*ᵢ k*ⱼ`.
-/
namespace VOPy.GPWrap.Alg
open Matrix

variable {𝕜 : Type*} [Field 𝕜]
variable {n n' p : Type*} [Fintype n] [DecidableEq n] [Fintype n'] [DecidableEq n']
  [Fintype p] [DecidableEq p]

/-- `kᵀ A⁻¹ r` -/
noncomputable def quad (A : Matrix n n 𝕜) (k r : n → 𝕜) : 𝕜 := k ⬝ᵥ (A⁻¹ *ᵥ r)

/-- simultaneous re-indexing (in particular: permutation) of the training rows changes nothing -/
theorem quad_reindex (e : n' ≃ n) (A : Matrix n n 𝕜) (k r : n → 𝕜) :
    quad (A.submatrix e e) (k ∘ e) (r ∘ e) = quad A k r := by
  unfold quad
  rw [Matrix.inv_submatrix_equiv, Matrix.submatrix_mulVec_equiv]
  have : (r ∘ e) ∘ e.symm = r := by
    funext i; simp
  rw [this, comp_equiv_dotProduct_comp_equiv]

/-- no training data: `kᵀ A⁻¹ r = 0`, i.e. the posterior is the prior -/
theorem quad_of_isEmpty [IsEmpty n] (A : Matrix n n 𝕜) (k r : n → 𝕜) : quad A k r = 0 := by
  unfold quad
  simp [dotProduct]

/-- uniqueness: any solution of `A x = r` computes `kᵀ A⁻¹ r` when `A` is non-singular -/
theorem quad_eq_of_mulVec_eq (A : Matrix n n 𝕜) (hA : IsUnit A.det) (k r x : n → 𝕜)
    (hx : A *ᵥ x = r) : k ⬝ᵥ x = quad A k r := by
  unfold quad
  rw [← hx, Matrix.mulVec_mulVec, Matrix.nonsing_inv_mul A hA, Matrix.one_mulVec]

omit [DecidableEq n] in
/-- entry `(i, j)` of `Bᵀ M B` as a bilinear form of the columns of `B` -/
theorem transpose_mul_mul_apply {t : Type*} (B : Matrix n t 𝕜) (M : Matrix n n 𝕜) (i j : t) :
    (Bᵀ * M * B) i j = (fun a => B a i) ⬝ᵥ (M *ᵥ fun a => B a j) := by
  simp only [Matrix.mul_apply, dotProduct, mulVec, Matrix.transpose_apply, Finset.sum_mul,
    Finset.mul_sum]
  rw [Finset.sum_comm]
  apply Finset.sum_congr rfl
  intro a _
  apply Finset.sum_congr rfl
  intro b _
  ring

/-! ### block-diagonal structure (model list; independent model with diagonal noise) -/

section Block
variable {o : Type*} [Fintype o] [DecidableEq o] {m' : o → Type*} [∀ j, Fintype (m' j)]
  [∀ j, DecidableEq (m' j)]

theorem blockDiagonal'_inv (A : ∀ j, Matrix (m' j) (m' j) 𝕜) (hA : ∀ j, IsUnit (A j).det) :
    (blockDiagonal' A)⁻¹ = blockDiagonal' (fun j => (A j)⁻¹) := by
  apply Matrix.inv_eq_right_inv
  rw [← blockDiagonal'_mul]
  have : (fun j => A j * (A j)⁻¹) = fun _ => 1 := by
    funext j; exact Matrix.mul_nonsing_inv _ (hA j)
  rw [this]
  exact blockDiagonal'_one

omit [∀ j, DecidableEq (m' j)] in
theorem blockDiagonal'_mulVec (M : ∀ j, Matrix (m' j) (m' j) 𝕜) (v : (Σ j, m' j) → 𝕜)
    (j : o) (a : m' j) :
    (blockDiagonal' M *ᵥ v) ⟨j, a⟩ = (M j *ᵥ fun b => v ⟨j, b⟩) a := by
  simp only [mulVec, dotProduct, blockDiagonal'_apply]
  rw [Fintype.sum_sigma]
  rw [Finset.sum_eq_single j]
  · simp
  · intro j' _ hne
    have : ¬ j = j' := fun h => hne h.symm
    simp [this]
  · simp

/-- Joint GP with independent objectives: a target of objective `i` (cross-covariance supported
on block `i`) sees only objective `i`'s Gram block and residuals. -/
theorem quad_blockDiagonal' (A : ∀ j, Matrix (m' j) (m' j) 𝕜) (hA : ∀ j, IsUnit (A j).det)
    (i : o) (ki : m' i → 𝕜) (r : (Σ j, m' j) → 𝕜) :
    quad (blockDiagonal' A)
        (fun x => if h : x.1 = i then ki (h ▸ x.2) else 0) r =
      quad (A i) ki (fun b => r ⟨i, b⟩) := by
  unfold quad
  rw [blockDiagonal'_inv A hA]
  simp only [dotProduct]
  rw [Fintype.sum_sigma, Finset.sum_eq_single i]
  · apply Finset.sum_congr rfl
    intro a _
    rw [blockDiagonal'_mulVec]
    simp
  · intro j _ hne
    simp [hne]
  · simp

end Block

/-! ### positivity: Schur complement -/

section Order
variable {R : Type*} [Field R] [PartialOrder R] [StarRing R] [StarOrderedRing R]
variable {t : Type*} [Fintype t] [DecidableEq t]

omit [DecidableEq t] in
/-- The posterior covariance `D − Bᴴ (K+N)⁻¹ B` is positive semidefinite when the joint prior Gram
`[[K, B], [Bᴴ, D]]` is positive semidefinite and the noise `N` positive definite. -/
theorem posterior_cov_posSemidef [AddLeftMono R] (Kt : Matrix n n R) (B : Matrix n t R)
    (D : Matrix t t R) (N : Matrix n n R)
    (hG : (fromBlocks Kt B Bᴴ D).PosSemidef) (hN : N.PosDef) :
    (D - Bᴴ * (Kt + N)⁻¹ * B).PosSemidef := by
  have hK : Kt.PosSemidef := by
    have h := hG.submatrix (Sum.inl : n → n ⊕ t)
    have e : (fromBlocks Kt B Bᴴ D).submatrix (Sum.inl : n → n ⊕ t) Sum.inl = Kt := by
      ext i j; simp
    rwa [e] at h
  have hA : (Kt + N).PosDef := hN.posSemidef_add hK
  have : Invertible (Kt + N) := hA.isUnit.invertible
  rw [← Matrix.PosDef.fromBlocks₁₁ B D hA]
  have hN0 : (fromBlocks N (0 : Matrix n t R) (0 : Matrix t n R) (0 : Matrix t t R)).PosSemidef := by
    rw [posSemidef_iff_dotProduct_mulVec]
    refine ⟨?_, fun x => ?_⟩
    · have := hN.1
      unfold IsHermitian at this ⊢
      rw [fromBlocks_conjTranspose, this]
      simp
    · have h1 : fromBlocks N (0 : Matrix n t R) (0 : Matrix t n R) (0 : Matrix t t R) *ᵥ x =
          Sum.elim (N *ᵥ (x ∘ Sum.inl)) 0 := by
        conv_lhs => rw [← Sum.elim_comp_inl_inr x]
        rw [fromBlocks_mulVec]
        simp
      rw [h1]
      conv_rhs => rw [← Sum.elim_comp_inl_inr (star x)]
      rw [sumElim_dotProduct_sumElim]
      simp only [dotProduct_zero, add_zero]
      exact (posSemidef_iff_dotProduct_mulVec.mp hN.posSemidef).2 (x ∘ Sum.inl)
  have : fromBlocks (Kt + N) B Bᴴ D = fromBlocks Kt B Bᴴ D + fromBlocks N 0 0 0 := by
    rw [fromBlocks_add]; simp
  rw [this]
  exact hG.add hN0

/-! ### more data never increases the variance -/

section Antitone
variable [TrivialStar R] [AddLeftMono R]

omit [StarOrderedRing R] [AddLeftMono R] in
/-- **Adding training points.**  With the enlarged system `A' = [[A, b], [bᵀ, C]]` (positive
definite) and the enlarged cross-covariance `k' = (k, κ)`:
`k'ᵀ A'⁻¹ k' = kᵀ A⁻¹ k + wᵀ S⁻¹ w` with the Schur complement `S = C − bᵀ A⁻¹ b` and
`w = κ − bᵀ A⁻¹ k`. -/
theorem quad_add_points (A : Matrix n n R) (b : Matrix n p R) (C : Matrix p p R)
    (hA : A.PosDef) (hA' : (fromBlocks A b bᵀ C).PosDef) (k : n → R) (κ : p → R) :
    quad (fromBlocks A b bᵀ C) (Sum.elim k κ) (Sum.elim k κ) =
      quad A k k + quad (C - bᵀ * A⁻¹ * b) (κ - bᵀ *ᵥ (A⁻¹ *ᵥ k)) (κ - bᵀ *ᵥ (A⁻¹ *ᵥ k)) := by
  have hAu : IsUnit A.det := (Matrix.isUnit_iff_isUnit_det A).mp hA.isUnit
  have hA'u : IsUnit (fromBlocks A b bᵀ C).det := (Matrix.isUnit_iff_isUnit_det _).mp hA'.isUnit
  have iA : Invertible A := hA.isUnit.invertible
  have hSu : IsUnit (C - bᵀ * A⁻¹ * b).det := by
    rw [det_fromBlocks₁₁, Matrix.invOf_eq_nonsing_inv] at hA'u
    exact (IsUnit.mul_iff.mp hA'u).2
  have hAinvT : (A⁻¹)ᵀ = A⁻¹ := by
    have := hA.1.inv
    unfold IsHermitian at this
    rwa [conjTranspose_eq_transpose_of_trivial] at this
  set S := C - bᵀ * A⁻¹ * b with hS
  set u := A⁻¹ *ᵥ k with hu
  set w := κ - bᵀ *ᵥ u with hw
  set v := S⁻¹ *ᵥ w with hv
  have hSv : S *ᵥ v = w := by
    rw [hv, Matrix.mulVec_mulVec, Matrix.mul_nonsing_inv S hSu, Matrix.one_mulVec]
  have hAu' : A *ᵥ u = k := by
    rw [hu, Matrix.mulVec_mulVec, Matrix.mul_nonsing_inv A hAu, Matrix.one_mulVec]
  have hsol : fromBlocks A b bᵀ C *ᵥ Sum.elim (u - A⁻¹ *ᵥ (b *ᵥ v)) v = Sum.elim k κ := by
    rw [fromBlocks_mulVec]
    simp only [Sum.elim_comp_inl, Sum.elim_comp_inr]
    congr 1
    · rw [Matrix.mulVec_sub, hAu', Matrix.mulVec_mulVec, Matrix.mul_nonsing_inv A hAu,
        Matrix.one_mulVec]
      abel
    · have h2 : C *ᵥ v = S *ᵥ v + (bᵀ * A⁻¹ * b) *ᵥ v := by
        rw [← Matrix.add_mulVec, hS]; congr 1; abel
      rw [Matrix.mulVec_sub, h2, hSv, hw, Matrix.mulVec_mulVec, Matrix.mulVec_mulVec,
        Matrix.mulVec_mulVec]
      abel
  rw [← quad_eq_of_mulVec_eq _ hA'u _ _ _ hsol, sumElim_dotProduct_sumElim]
  have hsym : k ⬝ᵥ (A⁻¹ *ᵥ (b *ᵥ v)) = (bᵀ *ᵥ u) ⬝ᵥ v := by
    rw [Matrix.mulVec_mulVec, Matrix.dotProduct_mulVec, hu, Matrix.mulVec_mulVec,
      ← Matrix.vecMul_transpose]
    simp only [Matrix.transpose_mul, Matrix.transpose_transpose, hAinvT]
  unfold quad
  rw [dotProduct_sub, hsym, ← hu, ← hv, hw, sub_dotProduct]
  ring

/-- the explained variance `k'ᵀ A'⁻¹ k'` never decreases when training points are added -/
theorem quad_le_quad_add_points (A : Matrix n n R) (b : Matrix n p R) (C : Matrix p p R)
    (hA : A.PosDef) (hA' : (fromBlocks A b bᵀ C).PosDef) (k : n → R) (κ : p → R) :
    quad A k k ≤ quad (fromBlocks A b bᵀ C) (Sum.elim k κ) (Sum.elim k κ) := by
  rw [quad_add_points A b C hA hA' k κ]
  have iA : Invertible A := hA.isUnit.invertible
  have hS : (C - bᵀ * A⁻¹ * b).PosSemidef := by
    have := (Matrix.PosDef.fromBlocks₁₁ b C hA).mp
      (by simpa [conjTranspose_eq_transpose_of_trivial] using hA'.posSemidef)
    simpa [conjTranspose_eq_transpose_of_trivial] using this
  have h := (posSemidef_iff_dotProduct_mulVec.mp hS.inv).2 (κ - bᵀ *ᵥ (A⁻¹ *ᵥ k))
  rw [star_trivial] at h
  unfold quad at *
  exact le_add_of_nonneg_right h

end Antitone

end Order

end VOPy.GPWrap.Alg
