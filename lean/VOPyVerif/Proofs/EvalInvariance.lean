import VOPyVerif.Proofs.Eval
/-!
# Helper lemmas for C19: invariance / homogeneity of the gap formula

Over an arbitrary linearly ordered field `K` (the same terms the driver runs at `ℚ`):

* translation: `gsub (a + t) (b + t) = gsub a b`, hence `smallM`, `smallMB`, `delta`, `deltaB` do not
  change when all value vectors are translated by a common vector;
* positive scaling: `smallM (c·vi) (c·vj) = c · smallM vi vj`, `delta (c·μ) = c · delta μ` (`c > 0`);
* presentation of the cone: scaling row `n` of `W` and `α_n` by the same positive factor changes
  nothing (`smallM_rowScale`), and `IsAlpha` is preserved by that scaling (`isAlpha_rowScale`).
-/
set_option linter.unusedSectionVars false
namespace VOPy.Eval

variable {K : Type} [Field K] [LinearOrder K] [IsStrictOrderedRing K]

/-! ### translation -/

theorem gsub_translate : ∀ (a b t : List K), a.length = t.length → b.length = t.length →
    gsub (gadd a t) (gadd b t) = gsub a b
  | [], _, _, _, _ => by simp [gsub, gadd]
  | _ :: _, [], _, _, _ => by simp [gsub, gadd]
  | _ :: _, _ :: _, [], h, _ => by simp at h
  | x :: a, y :: b, z :: t, ha, hb => by
    have ih := gsub_translate a b t (by simpa using ha) (by simpa using hb)
    simp only [gsub, gadd, List.zipWith_cons_cons] at ih ⊢
    rw [ih]
    congr 1
    ring

theorem prods_translate (vi vj t : List K) (W : List (List K)) (hi : vi.length = t.length)
    (hj : vj.length = t.length) : prods (gadd vi t) (gadd vj t) W = prods vi vj W := by
  simp only [prods, gsub_translate vj vi t hj hi]

theorem smallM_translate (vi vj t : List K) (W : List (List K)) (α : List K)
    (hi : vi.length = t.length) (hj : vj.length = t.length) :
    smallM (gadd vi t) (gadd vj t) W α = smallM vi vj W α := by
  simp only [smallM, prods_translate vi vj t W hi hj]

theorem smallMB_translate (vi vj t : List K) (W : List (List K)) (α : List K)
    (hi : vi.length = t.length) (hj : vj.length = t.length) :
    smallMB (gadd vi t) (gadd vj t) W α = smallMB vi vj W α := by
  simp only [smallMB, prods_translate vi vj t W hi hj]

theorem deltaRowWith_map (sm sm' : List K → List K → Option K) (T : List K → List K) (vi : List K) :
    ∀ (mu : List (List K)) (acc : K), (∀ vj ∈ mu, sm' (T vi) (T vj) = sm vi vj) →
      deltaRowWith sm' (T vi) (mu.map T) acc = deltaRowWith sm vi mu acc := by
  intro mu
  induction mu with
  | nil => intro acc _; rfl
  | cons vj rest ih =>
    intro acc h
    simp only [List.map_cons, deltaRowWith, h vj (by simp)]
    cases sm vi vj with
    | none => rfl
    | some m => exact ih _ (fun v hv => h v (by simp [hv]))

theorem mapM_congr_option {α β : Type} (f g : α → Option β) :
    ∀ l : List α, (∀ x ∈ l, f x = g x) → l.mapM f = l.mapM g := by
  intro l
  induction l with
  | nil => intro _; rfl
  | cons x l ih =>
    intro h
    simp only [List.mapM_cons, h x (by simp), ih (fun y hy => h y (by simp [hy]))]

theorem mapM_map_option {α β γ : Type} (T : α → β) (f : β → Option γ) :
    ∀ l : List α, (l.map T).mapM f = l.mapM (fun x => f (T x)) := by
  intro l
  induction l with
  | nil => rfl
  | cons x l ih => simp only [List.map_cons, List.mapM_cons, ih]

theorem deltaWith_map (sm sm' : List K → List K → Option K) (T : List K → List K)
    (mu : List (List K)) (h : ∀ vi ∈ mu, ∀ vj ∈ mu, sm' (T vi) (T vj) = sm vi vj) :
    deltaWith sm' (mu.map T) = deltaWith sm mu := by
  simp only [deltaWith, mapM_map_option]
  apply mapM_congr_option
  intro vi hvi
  exact deltaRowWith_map sm sm' T vi mu 0 (fun vj hvj => h vi hvi vj hvj)

/-! ### positive scaling -/

theorem gsub_gscale (c : K) : ∀ a b : List K, gsub (gscale c a) (gscale c b) = gscale c (gsub a b)
  | [], _ => by simp [gsub, gscale]
  | _ :: _, [] => by simp [gsub, gscale]
  | x :: a, y :: b => by
    have ih := gsub_gscale c a b
    simp only [gsub, gscale, List.map_cons, List.zipWith_cons_cons] at ih ⊢
    rw [ih]; congr 1; ring

theorem relu_mul (c x : K) (hc : 0 < c) : relu (c * x) = c * relu x := by
  rcases le_or_gt 0 x with h | h
  · rw [relu_of_nonneg h, relu_of_nonneg (mul_nonneg (le_of_lt hc) h)]
  · rw [relu_of_nonpos (le_of_lt h), relu_of_nonpos (le_of_lt (mul_neg_of_pos_of_neg hc h)), mul_zero]

theorem prods_gscale (c : K) (hc : 0 < c) (vi vj : List K) (W : List (List K)) :
    prods (gscale c vi) (gscale c vj) W = (prods vi vj W).map (c * ·) := by
  simp only [prods, gsub_gscale, gdot_gscale, List.map_map]
  apply List.map_congr_left
  intro w _
  simp only [Function.comp_def]
  exact relu_mul c _ hc

theorem gmin_mul (c a b : K) (hc : 0 < c) : gmin (c * a) (c * b) = c * gmin a b := by
  rw [gmin_eq_min, gmin_eq_min, mul_min_of_nonneg _ _ (le_of_lt hc)]

theorem gmax_mul (c a b : K) (hc : 0 < c) : gmax (c * a) (c * b) = c * gmax a b := by
  rw [gmax_eq_max, gmax_eq_max, mul_max_of_nonneg _ _ (le_of_lt hc)]

theorem foldl_gmin_mul (c : K) (hc : 0 < c) : ∀ (l : List K) (x : K),
    (l.map (c * ·)).foldl gmin (c * x) = c * l.foldl gmin x := by
  intro l
  induction l with
  | nil => intro x; rfl
  | cons y l ih =>
    intro x
    simp only [List.map_cons, List.foldl_cons, gmin_mul c x y hc, ih]

theorem minL_mul (c : K) (hc : 0 < c) (l : List K) : minL (l.map (c * ·)) = (minL l).map (c * ·) := by
  cases l with
  | nil => rfl
  | cons x l => simp only [List.map_cons, minL, foldl_gmin_mul c hc, Option.map_some]

theorem zipWith_div_mul (c : K) : ∀ (p α : List K),
    List.zipWith (· / ·) (p.map (c * ·)) α = (List.zipWith (· / ·) p α).map (c * ·)
  | [], _ => by simp
  | _ :: _, [] => by simp
  | x :: p, a :: α => by
    simp only [List.map_cons, List.zipWith_cons_cons, zipWith_div_mul c p α, mul_div_assoc]

/-- **`smallM` is positively homogeneous**: `m(c·vi, c·vj) = c·m(vi, vj)` for `c > 0`. -/
theorem smallM_gscale (c : K) (hc : 0 < c) (vi vj : List K) (W : List (List K)) (α : List K) :
    smallM (gscale c vi) (gscale c vj) W α = (smallM vi vj W α).map (c * ·) := by
  simp only [smallM, prods_gscale c hc, zipWith_div_mul]
  split
  · exact minL_mul c hc _
  · rfl

theorem flatMap_div_mul (c : K) (p α : List K) :
    α.flatMap (fun a => (p.map (c * ·)).map (· / a)) = (α.flatMap (fun a => p.map (· / a))).map (c * ·) := by
  induction α with
  | nil => rfl
  | cons a α ih =>
    rw [List.flatMap_cons, List.flatMap_cons, List.map_append, ih]
    congr 1
    rw [List.map_map, List.map_map]
    apply List.map_congr_left
    intro x _
    simp only [Function.comp_def, mul_div_assoc]

theorem smallMB_gscale (c : K) (hc : 0 < c) (vi vj : List K) (W : List (List K)) (α : List K) :
    smallMB (gscale c vi) (gscale c vj) W α = (smallMB vi vj W α).map (c * ·) := by
  simp only [smallMB, prods_gscale c hc, flatMap_div_mul]
  split
  · exact minL_mul c hc _
  · rfl

theorem deltaRowWith_gscale (c : K) (hc : 0 < c) (sm sm' : List K → List K → Option K) (vi : List K) :
    ∀ (mu : List (List K)) (acc : K),
      (∀ vj ∈ mu, sm' (gscale c vi) (gscale c vj) = (sm vi vj).map (c * ·)) →
      deltaRowWith sm' (gscale c vi) (mu.map (gscale c)) (c * acc) =
        (deltaRowWith sm vi mu acc).map (c * ·) := by
  intro mu
  induction mu with
  | nil => intro acc _; rfl
  | cons vj rest ih =>
    intro acc h
    simp only [List.map_cons, deltaRowWith, h vj (by simp)]
    cases sm vi vj with
    | none => rfl
    | some m =>
      simp only [Option.map_some]
      rw [gmax_mul c acc m hc]
      exact ih _ (fun v hv => h v (by simp [hv]))

theorem mapM_map_result {α β : Type} (f g : α → Option β) (φ : β → β) :
    ∀ l : List α, (∀ x ∈ l, g x = (f x).map φ) → l.mapM g = (l.mapM f).map (List.map φ) := by
  intro l
  induction l with
  | nil => intro _; rfl
  | cons x l ih =>
    intro h
    simp only [List.mapM_cons, h x (by simp), ih (fun y hy => h y (by simp [hy]))]
    cases f x with
    | none => rfl
    | some b =>
      cases l.mapM f with
      | none => rfl
      | some bs => rfl

theorem deltaWith_gscale (c : K) (hc : 0 < c) (sm sm' : List K → List K → Option K)
    (mu : List (List K))
    (h : ∀ vi ∈ mu, ∀ vj ∈ mu, sm' (gscale c vi) (gscale c vj) = (sm vi vj).map (c * ·)) :
    deltaWith sm' (mu.map (gscale c)) = (deltaWith sm mu).map (List.map (c * ·)) := by
  simp only [deltaWith, mapM_map_option]
  apply mapM_map_result
  intro vi hvi
  have := deltaRowWith_gscale c hc sm sm' vi mu 0 (fun vj hvj => h vi hvi vj hvj)
  rwa [mul_zero] at this

/-! ### presentation of the cone: rows of `W` and `α` scaled alike -/

/-- multiply row `n` of `W` by `cs[n]` -/
def rowScaleK (cs : List K) (W : List (List K)) : List (List K) :=
  List.zipWith (fun c w => gscale c w) cs W

theorem gdot_gscale_left (c : K) (w x : List K) : gdot (gscale c w) x = c * gdot w x := by
  rw [gdot_comm, gdot_gscale, gdot_comm]

theorem quot_rowScale (d : List K) : ∀ (cs : List K) (W : List (List K)) (α : List K),
    cs.length = W.length → α.length = W.length → (∀ c ∈ cs, 0 < c) →
    List.zipWith (· / ·) ((rowScaleK cs W).map (fun w => relu (gdot w d))) (List.zipWith (· * ·) cs α) =
      List.zipWith (· / ·) (W.map (fun w => relu (gdot w d))) α
  | [], [], [], _, _, _ => by simp [rowScaleK]
  | [], _ :: _, _, h, _, _ => by simp at h
  | _ :: _, [], _, h, _, _ => by simp at h
  | _, _ :: _, [], _, h, _ => by simp at h
  | [], [], _ :: _, _, h, _ => by simp at h
  | c :: cs, w :: W, a :: α, h1, h2, hp => by
    have hc : 0 < c := hp c (by simp)
    have ih := quot_rowScale d cs W α (by simpa using h1) (by simpa using h2)
      (fun x hx => hp x (by simp [hx]))
    simp only [rowScaleK, List.zipWith_cons_cons, List.map_cons] at ih ⊢
    rw [ih, gdot_gscale_left, relu_mul c _ hc, mul_div_mul_left _ _ (ne_of_gt hc)]

/-- **Scaling a facet normal and its `α` by the same positive factor does not change the gap.** -/
theorem smallM_rowScale (cs : List K) (vi vj : List K) (W : List (List K)) (α : List K)
    (h1 : cs.length = W.length) (h2 : α.length = W.length) (hp : ∀ c ∈ cs, 0 < c) :
    smallM vi vj (rowScaleK cs W) (List.zipWith (· * ·) cs α) = smallM vi vj W α := by
  have hl1 : (List.zipWith (· * ·) cs α).length = (rowScaleK cs W).length := by
    simp [rowScaleK, h1, h2]
  simp only [smallM, hl1, h2, if_true, prods]
  rw [quot_rowScale (gsub vj vi) cs W α h1 h2 hp]

theorem inCone_rowScale (cs : List K) (W : List (List K)) (u : List K) (h1 : cs.length = W.length)
    (hp : ∀ c ∈ cs, 0 < c) : InCone (rowScaleK cs W) u ↔ InCone W u := by
  induction cs generalizing W with
  | nil =>
    cases W with
    | nil => simp [rowScaleK, InCone]
    | cons _ _ => simp at h1
  | cons c cs ih =>
    cases W with
    | nil => simp at h1
    | cons w W =>
      have hc : 0 < c := hp c (by simp)
      have := ih W (by simpa using h1) (fun x hx => hp x (by simp [hx]))
      simp only [InCone, rowScaleK, List.zipWith_cons_cons, List.mem_cons, forall_eq_or_imp,
        gdot_gscale_left] at this ⊢
      rw [this]
      constructor
      · rintro ⟨h, h'⟩
        exact ⟨by
          rcases le_or_gt 0 (gdot w u) with hh | hh
          · exact hh
          · exact absurd h (not_le.2 (mul_neg_of_pos_of_neg hc hh)), h'⟩
      · rintro ⟨h, h'⟩
        exact ⟨mul_nonneg (le_of_lt hc) h, h'⟩

/-- the cone constant of a rescaled facet normal, in the rescaled presentation of the same cone, is
the rescaled constant -/
theorem isAlpha_rowScale (cs : List K) (W : List (List K)) (D : Nat) (w : List K) (a c : K)
    (h1 : cs.length = W.length) (hp : ∀ c ∈ cs, 0 < c) (hc : 0 < c) (h : IsAlpha W D w a) :
    IsAlpha (rowScaleK cs W) D (gscale c w) (c * a) := by
  obtain ⟨ha, hle, u, hu1, hu2, hu3, hu4⟩ := h
  refine ⟨mul_pos hc ha, ?_, u, hu1, (inCone_rowScale cs W u h1 hp).2 hu2, hu3, ?_⟩
  · intro v hv1 hv2 hv3
    rw [gdot_gscale_left]
    exact mul_le_mul_of_nonneg_left (hle v hv1 ((inCone_rowScale cs W v h1 hp).1 hv2) hv3) (le_of_lt hc)
  · rw [gdot_gscale_left, hu4]

end VOPy.Eval
