import VOPyVerif.Model.Naive
import VOPyVerif.Proofs.RealInst
import VOPyVerif.Proofs.NaiveTail
import VOPyVerif.Proofs.NaiveDet
import Mathlib.Analysis.SpecialFunctions.Trigonometric.Bounds
import Mathlib.Algebra.Order.Floor.Ring
/-!
# C08 helper: the sample-count formula at `ℝ`, the union bound, and the arithmetic `… ≤ δ`
-/
open MeasureTheory ProbabilityTheory Real
open scoped NNReal ENNReal

namespace VOPy.Naive
open VOPy VOPy.RealLike

open Classical in
noncomputable instance : LtB ℝ := ⟨fun a b => decide (a < b)⟩
noncomputable instance : CeilNat ℝ := ⟨fun x => ⌈x⌉₊⟩

/-! ### the formula terms at `ℝ` -/

theorem coneBeta_real (θdeg : ℝ) :
    coneBeta θdeg
      = if θdeg / 180 * π < π / 2 then 1 / Real.sin (θdeg / 180 * π) else 1 := by
  simp only [coneBeta, LtB.ltb, RealLike.ofNat_real, RealLike.pi_real, RealLike.sin_real,
    decide_eq_true_eq, Nat.cast_ofNat, Nat.cast_one]

theorem naiveC_real : (naiveC : ℝ) = 1 + √2 := by
  simp [naiveC]

theorem naiveLreal_real (c s β ε δ : ℝ) (m K : ℕ) :
    naiveLreal c s β ε δ m K
      = 4 * (c * s * β / ε) ^ 2 * Real.log (((4 * m : ℕ) : ℝ) / (2 * δ / ((K * (K - 1) : ℕ) : ℝ))) := by
  simp only [naiveLreal, RealLike.ofNat_real, RealLike.sq_real, RealLike.log_real, Nat.cast_ofNat]

/-- `β = 1/sin θ` for `θ < 90°`, `1` otherwise; in particular `β ≥ 1 > 0` on `(0°, 180°)`. -/
theorem coneBeta_ge_one (θdeg : ℝ) (h0 : 0 < θdeg) (h1 : θdeg < 180) : 1 ≤ (coneBeta θdeg : ℝ) := by
  rw [coneBeta_real]
  split_ifs with h
  · have hpos : 0 < θdeg / 180 * π := by positivity
    have hlt : θdeg / 180 * π < π := by
      have : θdeg / 180 < 1 := by rw [div_lt_one (by norm_num)]; exact h1
      nlinarith [Real.pi_pos]
    have hs : 0 < Real.sin (θdeg / 180 * π) := Real.sin_pos_of_pos_of_lt_pi hpos hlt
    rw [le_div_iff₀ hs, one_mul]
    exact Real.sin_le_one _
  · exact le_refl _

/-- `β² sin²θ = 1` on the acute branch — the hypothesis of the planar lemma for unit normals with
`w₁·w₂ = −cos θ`: `pq = 1 ≤ β² (1 − cos²θ)`; `cos θ ≤ 0` on the other branch. -/
theorem coneBeta_planar (θdeg : ℝ) (h0 : 0 < θdeg) (h1 : θdeg < 180) :
    -Real.cos (θdeg / 180 * π) < 0 →
      (1 : ℝ) ≤ (coneBeta θdeg : ℝ) ^ 2 * (1 - Real.cos (θdeg / 180 * π) ^ 2) := by
  intro hc
  have hpos : 0 < θdeg / 180 * π := by positivity
  have hlt : θdeg / 180 * π < π := by
    have : θdeg / 180 < 1 := by rw [div_lt_one (by norm_num)]; exact h1
    nlinarith [Real.pi_pos]
  have hs : 0 < Real.sin (θdeg / 180 * π) := Real.sin_pos_of_pos_of_lt_pi hpos hlt
  have hacute : θdeg / 180 * π < π / 2 := by
    by_contra hge
    push Not at hge
    have : Real.cos (θdeg / 180 * π) ≤ 0 :=
      Real.cos_nonpos_of_pi_div_two_le_of_le hge (by linarith)
    linarith
  rw [coneBeta_real, if_pos hacute]
  have : 1 - Real.cos (θdeg / 180 * π) ^ 2 = Real.sin (θdeg / 180 * π) ^ 2 := by
    have := Real.sin_sq_add_cos_sq (θdeg / 180 * π); linarith
  rw [this, div_pow, one_pow, div_mul_cancel₀ _ (by positivity)]

/-! ### union bound over designs and coordinates -/

/-- index of one noise coordinate: (design, round, objective) -/
abbrev NoiseIdx (K L : ℕ) := Fin K × Fin L × Fin 2

/-- deviation of the sample mean of design `i`, objective `c`, from its true mean:
the mean of the `L` noise terms -/
noncomputable def dev {K L : ℕ} (ξ : NoiseIdx K L → ℝ) (i : Fin K) (c : Fin 2) : ℝ :=
  (∑ t : Fin L, ξ (i, t, c)) / L

/-- the noise coordinates of (design `i`, objective `c`) -/
def slice {K L : ℕ} (i : Fin K) (c : Fin 2) : Finset (NoiseIdx K L) :=
  Finset.univ.map ⟨fun t => (i, t, c), fun a b h => by simpa using h⟩

theorem slice_card {K L : ℕ} (i : Fin K) (c : Fin 2) : (slice (L := L) i c).card = L := by
  simp [slice]

theorem slice_sum {K L : ℕ} (ξ : NoiseIdx K L → ℝ) (i : Fin K) (c : Fin 2) :
    ∑ j ∈ slice i c, ξ j = ∑ t : Fin L, ξ (i, t, c) := by
  rw [slice, Finset.sum_map]; rfl

/-- **Union bound.**  Probability that some design's sample mean deviates (Euclidean norm) by more
than `ρ` from its true mean, under i.i.d. `N(0, v)` noise coordinates and `L ≥ 1` rounds. -/
theorem dev_event_bound (K L : ℕ) (hL : 0 < L) (v : ℝ≥0) (hv : v ≠ 0) (ρ : ℝ) :
    (noiseMeasure (NoiseIdx K L) v).real
        {ξ | ∃ i : Fin K, ρ ^ 2 < ∑ c : Fin 2, (dev ξ i c) ^ 2}
      ≤ 4 * K * rexp (-(ρ ^ 2 * L) / (4 * v)) := by
  set r : ℝ := √(ρ ^ 2 / 2) with hr
  have hr2 : r ^ 2 = ρ ^ 2 / 2 := Real.sq_sqrt (by positivity)
  have hsub : {ξ : NoiseIdx K L → ℝ | ∃ i : Fin K, ρ ^ 2 < ∑ c : Fin 2, (dev ξ i c) ^ 2}
      ⊆ ⋃ i : Fin K, ⋃ c : Fin 2,
          {ξ | r ^ 2 < ((∑ j ∈ slice i c, ξ j) / (slice (L := L) i c).card) ^ 2} := by
    intro ξ hξ
    simp only [Set.mem_ofPred_eq, Fin.sum_univ_two] at hξ
    obtain ⟨i, hi⟩ := hξ
    simp only [Set.mem_iUnion, Set.mem_ofPred_eq, slice_sum, slice_card, hr2]
    refine ⟨i, ?_⟩
    by_contra hcon
    push Not at hcon
    have h0 := hcon 0
    have h1 := hcon 1
    simp only [dev] at hi
    linarith
  have hone : ∀ (i : Fin K) (c : Fin 2),
      (noiseMeasure (NoiseIdx K L) v).real
          {ξ | r ^ 2 < ((∑ j ∈ slice i c, ξ j) / (slice (L := L) i c).card) ^ 2}
        ≤ 2 * rexp (-(ρ ^ 2 * L) / (4 * v)) := by
    intro i c
    have hne : (slice (L := L) i c).Nonempty := by
      rw [← Finset.card_pos, slice_card]; exact hL
    have := mean_dev_tail v hv (slice (L := L) i c) hne r (Real.sqrt_nonneg _)
    rw [slice_card, hr2] at this
    have he : -(ρ ^ 2 / 2 * (L : ℝ)) / (2 * v) = -(ρ ^ 2 * L) / (4 * v) := by ring
    rw [he] at this
    rw [slice_card, hr2]
    exact this
  calc (noiseMeasure (NoiseIdx K L) v).real
        {ξ | ∃ i : Fin K, ρ ^ 2 < ∑ c : Fin 2, (dev ξ i c) ^ 2}
      ≤ (noiseMeasure (NoiseIdx K L) v).real (⋃ i : Fin K, ⋃ c : Fin 2,
          {ξ | r ^ 2 < ((∑ j ∈ slice i c, ξ j) / (slice (L := L) i c).card) ^ 2}) :=
        measureReal_mono hsub
    _ ≤ ∑ i : Fin K, (noiseMeasure (NoiseIdx K L) v).real (⋃ c : Fin 2,
          {ξ | r ^ 2 < ((∑ j ∈ slice i c, ξ j) / (slice (L := L) i c).card) ^ 2}) :=
        measureReal_iUnion_fintype_le _
    _ ≤ ∑ _i : Fin K, ∑ _c : Fin 2, 2 * rexp (-(ρ ^ 2 * L) / (4 * v)) := by
        apply Finset.sum_le_sum
        intro i _
        refine le_trans (measureReal_iUnion_fintype_le _) ?_
        apply Finset.sum_le_sum
        intro c _
        exact hone i c
    _ = 4 * K * rexp (-(ρ ^ 2 * L) / (4 * v)) := by
        simp only [Finset.sum_const, Finset.card_univ, Fintype.card_fin, nsmul_eq_mul]
        push_cast; ring

/-! ### arithmetic: the code's formula (with σ a standard deviation) makes the bound `≤ δ` -/

/-- With `L ≥ 4 (cσβ/ε)² log(4·2/(2δ/(K(K−1))))`, `c = 1 + √2`, and `ρ = ε/(2β)`:
`4K · exp(−ρ²L/(4σ²)) ≤ δ`, for `K ≥ 2`, `0 < δ ≤ 1`. -/
theorem pac_arith (K : ℕ) (hK : 2 ≤ K) (σ β ε δ : ℝ) (hσ : 0 < σ) (hβ : 0 < β) (hε : 0 < ε)
    (hδ : 0 < δ) (hδ1 : δ ≤ 1) (L : ℝ)
    (hL : naiveLreal (naiveC : ℝ) σ β ε δ 2 K ≤ L) :
    4 * K * rexp (-((ε / (2 * β)) ^ 2 * L) / (4 * σ ^ 2)) ≤ δ := by
  rw [naiveLreal_real, naiveC_real] at hL
  have hK' : (2 : ℝ) ≤ K := by exact_mod_cast hK
  have hKK : ((K * (K - 1) : ℕ) : ℝ) = (K : ℝ) * (K - 1) := by
    rw [Nat.cast_mul, Nat.cast_sub (by omega)]; simp
  have hKKpos : (0 : ℝ) < (K : ℝ) * (K - 1) := by nlinarith
  set A : ℝ := ((4 * 2 : ℕ) : ℝ) / (2 * δ / ((K * (K - 1) : ℕ) : ℝ)) with hA
  have hAeq : A = 4 * (K * (K - 1)) / δ := by
    rw [hA, hKK]; push_cast; field_simp; ring
  have hA1 : 1 ≤ A := by
    rw [hAeq, le_div_iff₀ hδ]; nlinarith
  have hApos : 0 < A := by linarith
  have hlog : 0 ≤ Real.log A := Real.log_nonneg hA1
  -- c² ≥ 4
  have hc : (4 : ℝ) ≤ (1 + √2) ^ 2 := by
    have h2 : (1 : ℝ) ≤ √2 := by
      rw [show (1 : ℝ) = √1 by simp]; exact Real.sqrt_le_sqrt (by norm_num)
    nlinarith
  -- exponent ≥ log A
  have hexp : Real.log A ≤ (ε / (2 * β)) ^ 2 * L / (4 * σ ^ 2) := by
    have h1 : (ε / (2 * β)) ^ 2 * (4 * ((1 + √2) * σ * β / ε) ^ 2 * Real.log A) / (4 * σ ^ 2)
        = (1 + √2) ^ 2 / 4 * Real.log A := by
      field_simp
      ring
    have h2 : (ε / (2 * β)) ^ 2 * (4 * ((1 + √2) * σ * β / ε) ^ 2 * Real.log A) / (4 * σ ^ 2)
        ≤ (ε / (2 * β)) ^ 2 * L / (4 * σ ^ 2) := by
      apply div_le_div_of_nonneg_right _ (by positivity)
      exact mul_le_mul_of_nonneg_left hL (by positivity)
    have h3 : Real.log A ≤ (1 + √2) ^ 2 / 4 * Real.log A := by nlinarith
    linarith
  have hle : rexp (-((ε / (2 * β)) ^ 2 * L) / (4 * σ ^ 2)) ≤ 1 / A := by
    have h : rexp (-((ε / (2 * β)) ^ 2 * L) / (4 * σ ^ 2)) ≤ rexp (-Real.log A) :=
      Real.exp_le_exp.mpr (by rw [neg_div]; linarith)
    rwa [Real.exp_neg, Real.exp_log hApos, ← one_div] at h
  calc 4 * K * rexp (-((ε / (2 * β)) ^ 2 * L) / (4 * σ ^ 2))
      ≤ 4 * K * (1 / A) := mul_le_mul_of_nonneg_left hle (by positivity)
    _ = δ / (K - 1) := by
        rw [hAeq]; field_simp
    _ ≤ δ := by
        rw [div_le_iff₀ (by linarith)]; nlinarith

end VOPy.Naive
