import VOPyVerif.Model.Schedules
import VOPyVerif.Proofs.RealInst
import Mathlib.Probability.Distributions.Gaussian.Real
import Mathlib.MeasureTheory.Constructions.Pi
import Mathlib.LinearAlgebra.Matrix.DotProduct
import Mathlib.Topology.Instances.Matrix
/-!
# C04 helper definitions: the regions denoted by the model's `rectUpdate` / `ellUpdate` at `ℝ`

* `rectRegion mean cov s` : the box `∏ⱼ [rectLower …, rectUpper …]` built from the *model terms*
  `Sched.rectLower/rectUpper` (what `RectangularConfidenceRegion.update` stores)
* `ellRegion c W α`       : `{x | ‖W (x - c)‖₂ ≤ α}`, `W = sqrtm(inv(sigma))` — the set the code's
  `EllipsoidalConfidenceRegion.is_dominated` constrains its variables to
-/
namespace VOPy.SchedR
open Real MeasureTheory ProbabilityTheory VOPy VOPy.Sched Matrix
open scoped NNReal

/-- the rectangle stored by `RectangularConfidenceRegion.update(mean, cov, scale)`, at `ℝ` -/
def rectRegion {m : ℕ} (mean : Fin m → ℝ) (cov : Matrix (Fin m) (Fin m) ℝ) (s : Fin m → ℝ) :
    Set (Fin m → ℝ) :=
  {f | ∀ j, rectLower (mean j) (cov j j) (s j) ≤ f j ∧ f j ≤ rectUpper (mean j) (cov j j) (s j)}

lemma rect_coord_iff (μ v s x : ℝ) :
    (rectLower μ v s ≤ x ∧ x ≤ rectUpper μ v s) ↔ |x - μ| ≤ s * √v := by
  simp only [rectLower, rectUpper, RealLike.sqrt_real, abs_le]
  constructor
  · rintro ⟨h1, h2⟩; constructor <;> linarith
  · rintro ⟨h1, h2⟩; constructor <;> linarith

lemma rectRegion_mem_iff {m : ℕ} (mean : Fin m → ℝ) (cov : Matrix (Fin m) (Fin m) ℝ)
    (s f : Fin m → ℝ) :
    f ∈ rectRegion mean cov s ↔ ∀ j, |f j - mean j| ≤ s j * √(cov j j) := by
  simp only [rectRegion, Set.mem_ofPred_eq, rect_coord_iff]

/-- the list-level `rectUpdate` the driver runs is the coordinatewise `rectLower/rectUpper` -/
lemma rectUpdate_ofFn {α : Type} [RealLike α] : ∀ {m : ℕ} (mean covd s : Fin m → α),
    rectUpdate (List.ofFn mean) (List.ofFn covd) (List.ofFn s)
      = (List.ofFn fun j => rectLower (mean j) (covd j) (s j),
         List.ofFn fun j => rectUpper (mean j) (covd j) (s j))
  | 0, _, _, _ => by simp [rectUpdate, zipWith3]
  | m+1, mean, covd, s => by
    have ih := rectUpdate_ofFn (fun j : Fin m => mean j.succ) (fun j => covd j.succ)
      (fun j => s j.succ)
    simp only [rectUpdate, Prod.mk.injEq] at ih ⊢
    simp only [List.ofFn_succ, zipWith3, ih.1, ih.2, and_self]

/-- the set `{x | ‖W (x - c)‖₂ ≤ α}` (Euclidean norm written out) -/
def ellRegion {m : ℕ} (c : Fin m → ℝ) (W : Matrix (Fin m) (Fin m) ℝ) (α : ℝ) :
    Set (Fin m → ℝ) :=
  {x | √(∑ j, ((W *ᵥ (x - c)) j)^2) ≤ α}

/-- with the identity covariance (PaVeBa's model): the ball of radius `r` around the centre -/
lemma ellRegion_one_mem_iff {m : ℕ} (c x : Fin m → ℝ) (r : ℝ) :
    x ∈ ellRegion c (1 : Matrix (Fin m) (Fin m) ℝ) r ↔ √(∑ j, (x j - c j)^2) ≤ r := by
  simp [ellRegion]

/-- quadratic-form reading: `‖W v‖₂² = vᵀ (WᵀW) v`, so with `WᵀW = Σ⁻¹` the region is
`{x | (x-c)ᵀ Σ⁻¹ (x-c) ≤ α²}` (for `α ≥ 0`). -/
lemma ellRegion_mem_iff_quadForm {m : ℕ} (c x : Fin m → ℝ) (W : Matrix (Fin m) (Fin m) ℝ)
    (α : ℝ) (hα : 0 ≤ α) :
    x ∈ ellRegion c W α ↔ (x - c) ⬝ᵥ ((Wᵀ * W) *ᵥ (x - c)) ≤ α^2 := by
  have hq : (x - c) ⬝ᵥ ((Wᵀ * W) *ᵥ (x - c)) = ∑ j, ((W *ᵥ (x - c)) j)^2 := by
    rw [← Matrix.mulVec_mulVec, Matrix.dotProduct_mulVec, Matrix.vecMul_transpose]
    simp [dotProduct, pow_two]
  rw [hq, ellRegion, Set.mem_ofPred_eq, Real.sqrt_le_left hα]

/-- **Bridge to the whitened variable.**  If under the law `P` of the unknown value the whitened
error `W (f - c)` is standard Gaussian (the GP-posterior assumption, `W = Σ^{-1/2}`), then the
probability that the truth is outside the displayed ellipsoid is the norm tail of the standard
Gaussian on `Fin m → ℝ`. -/
lemma ell_outside_prob {m : ℕ} (c : Fin m → ℝ) (W : Matrix (Fin m) (Fin m) ℝ) (α : ℝ)
    (P : Measure (Fin m → ℝ))
    (hP : P.map (fun f => W *ᵥ (f - c)) = Measure.pi (fun _ : Fin m => gaussianReal 0 1)) :
    P.real (ellRegion c W α)ᶜ
      = (Measure.pi (fun _ : Fin m => gaussianReal 0 1)).real {z | α < √(∑ j, (z j)^2)} := by
  have hmeas : MeasurableSet {z : Fin m → ℝ | α < √(∑ j, (z j)^2)} :=
    measurableSet_lt measurable_const (by fun_prop)
  have hf : Measurable (fun f : Fin m → ℝ => W *ᵥ (f - c)) := by
    apply Continuous.measurable
    fun_prop
  rw [measureReal_def, measureReal_def, ← hP, Measure.map_apply hf hmeas]
  congr 2
  ext x
  simp [ellRegion]

end VOPy.SchedR
