import VOPyVerif.Proofs.Adaptive
import Mathlib.Data.List.Nodup
import Mathlib.Data.List.Range
/-!
# Invariants of the cell tree and of VOGP_AD's set surgery — helper lemmas for C18
-/
set_option linter.unusedSectionVars false
namespace VOPy.Adaptive

variable {K : Type*} [Field K] [LinearOrder K] [IsStrictOrderedRing K]

/-- the domain `[0,1]^d` as a cell (the root's cell) -/
def unitCell (d : Nat) : Cell := List.replicate d ((0 : Rat), (1 : Rat))

def Space.cellAt (s : Space) (i : Nat) : Option Cell := (s.nodes[i]?).map Node.cell
def Space.depthAt (s : Space) (i : Nat) : Option Nat := (s.nodes[i]?).map Node.depth

theorem Space.isLeaf_iff (s : Space) (i : Nat) :
    s.isLeaf i = true ↔ i < s.nodes.length ∧ i ∉ s.refined := by
  simp [Space.isLeaf]

/-- well-formedness of the node list (independent of the point space `K`) -/
structure Space.WF (d : Nat) (s : Space) : Prop where
  refinedLt : ∀ i ∈ s.refined, i < s.nodes.length
  cellLen : ∀ n ∈ s.nodes, n.cell.length = d
  centre : ∀ n ∈ s.nodes, n.point = centre n.cell
  depthPos : ∀ n ∈ s.nodes, 1 ≤ n.depth
  side : ∀ n ∈ s.nodes, ∀ q ∈ n.cell, q.2 - q.1 = 1 / 2 ^ (n.depth - 1)

/-- the leaves tile `[0,1]^d` -/
structure Space.Tiles (K : Type*) [Field K] [LinearOrder K] [IsStrictOrderedRing K] (d : Nat)
    (s : Space) : Prop where
  cover : ∀ x : List K, InCell x (unitCell d) →
    ∃ i c, s.isLeaf i = true ∧ s.cellAt i = some c ∧ InCell x c
  inside : ∀ i c, s.isLeaf i = true → s.cellAt i = some c →
    ∀ x : List K, InCell x c → InCell x (unitCell d)
  disjoint : ∀ i j ci cj, s.isLeaf i = true → s.isLeaf j = true → i ≠ j →
    s.cellAt i = some ci → s.cellAt j = some cj → IntDisjoint K ci cj

/-- no node is deeper than the maximum depth -/
def Space.DepthOk (s : Space) : Prop := ∀ n ∈ s.nodes, n.depth ≤ s.maxDepth

/-! ## `refine` -/

theorem Space.refine_eq {s : Space} {i : Nat} {s' : Space} {ch : List Nat}
    (h : s.refine i = some (s', ch)) :
    ∃ p, s.nodes[i]? = some p ∧
      s' = { s with nodes := s.nodes ++ children p, refined := i :: s.refined } ∧
      ch = (List.range (children p).length).map (fun k => s.nodes.length + k) := by
  unfold Space.refine at h
  split at h
  · simp at h
  · rename_i p hp
    simp only [Option.some.injEq, Prod.mk.injEq] at h
    exact ⟨p, hp, h.1.symm, h.2.symm⟩

theorem children_length (p : Node) : (children p).length = 2 ^ p.cell.length := by
  simp [children, childCells_length]

theorem mem_children {p nd : Node} (h : nd ∈ children p) :
    ∃ c ∈ childCells p.cell, nd = mkChild p c := by
  simp only [children, List.mem_map] at h
  obtain ⟨c, hc, rfl⟩ := h
  exact ⟨c, hc, rfl⟩

theorem children_getElem? (p : Node) (a : Nat) :
    ((children p)[a]?).map Node.cell = (childCells p.cell)[a]? := by
  simp only [children, List.getElem?_map, Option.map_map]
  cases (childCells p.cell)[a]? <;> simp [mkChild]

section refine
variable {s s' : Space} {i : Nat} {ch : List Nat} {p : Node}

/-- facts about the space after `refine i` -/
theorem refine_nodes (_hp : s.nodes[i]? = some p)
    (hs : s' = { s with nodes := s.nodes ++ children p, refined := i :: s.refined }) :
    s'.nodes = s.nodes ++ children p ∧ s'.refined = i :: s.refined ∧ s'.maxDepth = s.maxDepth := by
  subst hs; exact ⟨rfl, rfl, rfl⟩

theorem lt_of_getElem?_some {α} {l : List α} {i : Nat} {a : α} (h : l[i]? = some a) : i < l.length := by
  by_contra hc
  rw [List.getElem?_eq_none (Nat.le_of_not_lt hc)] at h
  exact absurd h (by simp)

theorem refine_cellAt_old (hs : s'.nodes = s.nodes ++ children p) {j : Nat} (hj : j < s.nodes.length) :
    s'.cellAt j = s.cellAt j := by
  simp [Space.cellAt, hs, List.getElem?_append_left hj]

theorem refine_depthAt_old (hs : s'.nodes = s.nodes ++ children p) {j : Nat} (hj : j < s.nodes.length) :
    s'.depthAt j = s.depthAt j := by
  simp [Space.depthAt, hs, List.getElem?_append_left hj]

theorem refine_cellAt_new (hs : s'.nodes = s.nodes ++ children p) {j : Nat} (hj : s.nodes.length ≤ j) :
    s'.cellAt j = (childCells p.cell)[j - s.nodes.length]? := by
  simp only [Space.cellAt, hs, List.getElem?_append_right hj]
  exact children_getElem? p _

theorem refine_depthAt_new (hs : s'.nodes = s.nodes ++ children p) {j : Nat} (hj : s.nodes.length ≤ j)
    (hj2 : j < s'.nodes.length) : s'.depthAt j = some (p.depth + 1) := by
  simp only [Space.depthAt, hs, List.getElem?_append_right hj]
  have hlt : j - s.nodes.length < (children p).length := by
    rw [hs, List.length_append] at hj2; omega
  rw [List.getElem?_eq_getElem hlt]
  obtain ⟨c, _, hc⟩ := mem_children (List.getElem_mem hlt)
  simp [hc, mkChild]

theorem refine_isLeaf (hwf : ∀ k ∈ s.refined, k < s.nodes.length) (hi : i < s.nodes.length)
    (hn : s'.nodes = s.nodes ++ children p) (hr : s'.refined = i :: s.refined) (j : Nat) :
    s'.isLeaf j = true ↔
      (j < s.nodes.length ∧ s.isLeaf j = true ∧ j ≠ i) ∨
      (s.nodes.length ≤ j ∧ j < s.nodes.length + (children p).length) := by
  rw [Space.isLeaf_iff, Space.isLeaf_iff, hn, hr, List.length_append, List.mem_cons]
  constructor
  · rintro ⟨h1, h2⟩
    by_cases hj : j < s.nodes.length
    · exact Or.inl ⟨hj, ⟨hj, fun h => h2 (Or.inr h)⟩, fun h => h2 (Or.inl h)⟩
    · exact Or.inr ⟨Nat.le_of_not_lt hj, h1⟩
  · rintro (⟨h1, ⟨_, h2⟩, h3⟩ | ⟨h1, h2⟩)
    · exact ⟨by omega, fun h => h.elim h3 h2⟩
    · refine ⟨h2, fun h => ?_⟩
      rcases h with h | h
      · omega
      · have := hwf j h; omega

end refine

theorem refine_wf {d : Nat} {s s' : Space} {i : Nat} {ch : List Nat} (hwf : s.WF d)
    (h : s.refine i = some (s', ch)) : s'.WF d := by
  obtain ⟨p, hp, hs, _⟩ := Space.refine_eq h
  obtain ⟨hn, hr, _⟩ := refine_nodes hp hs
  have hi := lt_of_getElem?_some hp
  have hpm : p ∈ s.nodes := List.mem_of_getElem? hp
  refine ⟨?_, ?_, ?_, ?_, ?_⟩
  · intro k hk
    rw [hr, List.mem_cons] at hk
    rw [hn, List.length_append]
    rcases hk with rfl | hk
    · omega
    · have := hwf.refinedLt k hk; omega
  · intro n hnm
    rw [hn, List.mem_append] at hnm
    rcases hnm with hnm | hnm
    · exact hwf.cellLen n hnm
    · obtain ⟨c, hc, rfl⟩ := mem_children hnm
      simp only [mkChild]
      rw [length_of_mem_childCells hc]; exact hwf.cellLen p hpm
  · intro n hnm
    rw [hn, List.mem_append] at hnm
    rcases hnm with hnm | hnm
    · exact hwf.centre n hnm
    · obtain ⟨c, _, rfl⟩ := mem_children hnm
      rfl
  · intro n hnm
    rw [hn, List.mem_append] at hnm
    rcases hnm with hnm | hnm
    · exact hwf.depthPos n hnm
    · obtain ⟨c, _, rfl⟩ := mem_children hnm
      simp [mkChild]
  · intro n hnm q hq
    rw [hn, List.mem_append] at hnm
    rcases hnm with hnm | hnm
    · exact hwf.side n hnm q hq
    · obtain ⟨c, hc, rfl⟩ := mem_children hnm
      simp only [mkChild] at hq ⊢
      have hs1 := sides_of_mem_childCells hc
      have hq1 : q.2 - q.1 ∈ c.map (fun q => q.2 - q.1) := List.mem_map_of_mem hq
      rw [hs1, List.mem_map] at hq1
      obtain ⟨r, hr1, hr2⟩ := hq1
      rw [← hr2, hwf.side p hpm r hr1]
      have hd := hwf.depthPos p hpm
      obtain ⟨k, hk⟩ : ∃ k, p.depth = k + 1 := ⟨p.depth - 1, by omega⟩
      rw [hk]
      simp only [Nat.add_sub_cancel]
      rw [pow_succ]
      field_simp

theorem refine_depthOk {s s' : Space} {i : Nat} {ch : List Nat} {p : Node} (hd : s.DepthOk)
    (hp : s.nodes[i]? = some p) (hlt : p.depth < s.maxDepth)
    (h : s.refine i = some (s', ch)) : s'.DepthOk := by
  obtain ⟨p', hp', hs, _⟩ := Space.refine_eq h
  rw [hp] at hp'; cases hp'
  obtain ⟨hn, _, hm⟩ := refine_nodes hp hs
  intro n hnm
  rw [hn, List.mem_append] at hnm
  rw [hm]
  rcases hnm with hnm | hnm
  · exact hd n hnm
  · obtain ⟨c, _, rfl⟩ := mem_children hnm
    simp only [mkChild]; omega

theorem refine_tiles {d : Nat} {s s' : Space} {i : Nat} {ch : List Nat} (hwf : s.WF d)
    (ht : s.Tiles K d) (hleaf : s.isLeaf i = true) (h : s.refine i = some (s', ch)) :
    s'.Tiles K d := by
  obtain ⟨p, hp, hs, _⟩ := Space.refine_eq h
  obtain ⟨hn, hr, _⟩ := refine_nodes hp hs
  have hi := lt_of_getElem?_some hp
  have hleaf' := refine_isLeaf (p := p) hwf.refinedLt hi hn hr
  have hci : s.cellAt i = some p.cell := by simp [Space.cellAt, hp]
  refine ⟨?_, ?_, ?_⟩
  · -- cover
    intro x hx
    obtain ⟨i0, c0, hl0, hc0, hx0⟩ := ht.cover x hx
    have hi0 : i0 < s.nodes.length := ((Space.isLeaf_iff s i0).mp hl0).1
    by_cases hii : i0 = i
    · subst hii
      rw [hci] at hc0; cases hc0
      obtain ⟨c', hc', hxc'⟩ := exists_child_of_inCell hx0
      obtain ⟨a, ha, hac⟩ := List.mem_iff_getElem.mp hc'
      refine ⟨s.nodes.length + a, c', ?_, ?_, hxc'⟩
      · rw [hleaf']
        refine Or.inr ⟨by omega, ?_⟩
        rw [children_length, ← childCells_length]; omega
      · rw [refine_cellAt_new hn (by omega), Nat.add_sub_cancel_left, List.getElem?_eq_getElem ha, hac]
    · refine ⟨i0, c0, ?_, ?_, hx0⟩
      · rw [hleaf']; exact Or.inl ⟨hi0, hl0, hii⟩
      · rw [refine_cellAt_old hn hi0]; exact hc0
  · -- inside
    intro j c hl hc x hx
    rw [hleaf'] at hl
    rcases hl with ⟨hj, hl, _⟩ | ⟨hj, _⟩
    · rw [refine_cellAt_old hn hj] at hc
      exact ht.inside j c hl hc x hx
    · rw [refine_cellAt_new hn hj] at hc
      have hcm : c ∈ childCells p.cell := List.mem_of_getElem? hc
      exact ht.inside i p.cell hleaf hci x (inCell_of_child hcm hx)
  · -- disjoint
    intro j j' cj cj' hl hl' hne hc hc'
    rw [hleaf'] at hl hl'
    rcases hl with ⟨hj, hl, hji⟩ | ⟨hj, hj2⟩ <;> rcases hl' with ⟨hj', hl', hji'⟩ | ⟨hj', hj2'⟩
    · rw [refine_cellAt_old hn hj] at hc
      rw [refine_cellAt_old hn hj'] at hc'
      exact ht.disjoint j j' cj cj' hl hl' hne hc hc'
    · rw [refine_cellAt_old hn hj] at hc
      rw [refine_cellAt_new hn hj'] at hc'
      have hcm : cj' ∈ childCells p.cell := List.mem_of_getElem? hc'
      have hd := ht.disjoint j i cj p.cell hl hleaf hji hc hci
      intro x hx
      exact hd x ⟨hx.1, inInt_of_child hcm hx.2⟩
    · rw [refine_cellAt_new hn hj] at hc
      rw [refine_cellAt_old hn hj'] at hc'
      have hcm : cj ∈ childCells p.cell := List.mem_of_getElem? hc
      have hd := ht.disjoint i j' p.cell cj' hleaf hl' (Ne.symm hji') hci hc'
      intro x hx
      exact hd x ⟨inInt_of_child hcm hx.1, hx.2⟩
    · rw [refine_cellAt_new hn hj] at hc
      rw [refine_cellAt_new hn hj'] at hc'
      have hpw := List.pairwise_iff_getElem.mp (childCells_pairwise K p.cell)
      obtain ⟨ha, hca⟩ := List.getElem?_eq_some_iff.mp hc
      obtain ⟨hb, hcb⟩ := List.getElem?_eq_some_iff.mp hc'
      rcases Nat.lt_or_gt_of_ne (show j - s.nodes.length ≠ j' - s.nodes.length by omega) with hlt | hlt
      · have := hpw _ _ ha hb hlt
        rw [hca, hcb] at this; exact this
      · have := hpw _ _ hb ha hlt
        rw [hca, hcb] at this; exact this.symm

/-! ## `setRegion` -/

theorem setRegion_eq {s s' : Space} {i : Nat} {lo up : List Rat} (h : s.setRegion i lo up = some s') :
    ∃ p, s.nodes[i]? = some p ∧
      s' = { s with nodes := s.nodes.set i { p with lower := lo, upper := up } } := by
  unfold Space.setRegion at h
  split at h
  · simp at h
  · rename_i p hp
    simp only [Option.some.injEq] at h
    exact ⟨p, hp, h.symm⟩

theorem setRegion_facts {s s' : Space} {i : Nat} {lo up : List Rat} (h : s.setRegion i lo up = some s') :
    s'.refined = s.refined ∧ s'.maxDepth = s.maxDepth ∧ s'.nodes.length = s.nodes.length ∧
    (∀ j, s'.cellAt j = s.cellAt j) ∧ (∀ j, s'.depthAt j = s.depthAt j) ∧
    (∀ n' ∈ s'.nodes, ∃ n ∈ s.nodes, n'.cell = n.cell ∧ n'.depth = n.depth ∧ n'.point = n.point) := by
  obtain ⟨p, hp, rfl⟩ := setRegion_eq h
  refine ⟨rfl, rfl, by simp, ?_, ?_, ?_⟩
  · intro j
    simp only [Space.cellAt, List.getElem?_set]
    split
    · rename_i hij; subst hij
      split
      · simp [hp]
      · rename_i hlt
        rw [List.getElem?_eq_none (Nat.le_of_not_lt hlt)]
    · rfl
  · intro j
    simp only [Space.depthAt, List.getElem?_set]
    split
    · rename_i hij; subst hij
      split
      · simp [hp]
      · rename_i hlt
        rw [List.getElem?_eq_none (Nat.le_of_not_lt hlt)]
    · rfl
  · intro n' hn'
    rcases List.mem_or_eq_of_mem_set hn' with hm | rfl
    · exact ⟨n', hm, rfl, rfl, rfl⟩
    · exact ⟨p, List.mem_of_getElem? hp, rfl, rfl, rfl⟩

theorem setRegion_isLeaf {s s' : Space} {i : Nat} {lo up : List Rat} (h : s.setRegion i lo up = some s')
    (j : Nat) : s'.isLeaf j = s.isLeaf j := by
  obtain ⟨h1, _, h3, _⟩ := setRegion_facts h
  simp [Space.isLeaf, h1, h3]

theorem setRegion_wf {d : Nat} {s s' : Space} {i : Nat} {lo up : List Rat} (hwf : s.WF d)
    (h : s.setRegion i lo up = some s') : s'.WF d := by
  obtain ⟨h1, _, h3, _, _, h6⟩ := setRegion_facts h
  refine ⟨?_, ?_, ?_, ?_, ?_⟩
  · intro k hk; rw [h3]; exact hwf.refinedLt k (h1 ▸ hk)
  · intro n' hn'
    obtain ⟨n, hn, hc, _, _⟩ := h6 n' hn'
    rw [hc]; exact hwf.cellLen n hn
  · intro n' hn'
    obtain ⟨n, hn, hc, _, hpt⟩ := h6 n' hn'
    rw [hc, hpt]; exact hwf.centre n hn
  · intro n' hn'
    obtain ⟨n, hn, _, hd, _⟩ := h6 n' hn'
    rw [hd]; exact hwf.depthPos n hn
  · intro n' hn' q hq
    obtain ⟨n, hn, hc, hd, _⟩ := h6 n' hn'
    rw [hd]; exact hwf.side n hn q (hc ▸ hq)

theorem setRegion_tiles {d : Nat} {s s' : Space} {i : Nat} {lo up : List Rat} (ht : s.Tiles K d)
    (h : s.setRegion i lo up = some s') : s'.Tiles K d := by
  have hl := setRegion_isLeaf h
  obtain ⟨_, _, _, hc, _, _⟩ := setRegion_facts h
  refine ⟨?_, ?_, ?_⟩
  · intro x hx
    obtain ⟨i0, c0, h1, h2, h3⟩ := ht.cover x hx
    exact ⟨i0, c0, by rw [hl]; exact h1, by rw [hc]; exact h2, h3⟩
  · intro j c h1 h2
    rw [hl] at h1; rw [hc] at h2
    exact ht.inside j c h1 h2
  · intro j j' cj cj' h1 h2 hne h3 h4
    rw [hl] at h1 h2; rw [hc] at h3 h4
    exact ht.disjoint j j' cj cj' h1 h2 hne h3 h4

theorem setRegion_depthOk {s s' : Space} {i : Nat} {lo up : List Rat} (hd : s.DepthOk)
    (h : s.setRegion i lo up = some s') : s'.DepthOk := by
  obtain ⟨_, h2, _, _, _, h6⟩ := setRegion_facts h
  intro n' hn'
  obtain ⟨n, hn, _, hdn, _⟩ := h6 n' hn'
  rw [hdn, h2]; exact hd n hn

/-! ## the root -/

theorem root_wf (d m md : Nat) : (Space.root d m md).WF d := by
  refine ⟨by simp [Space.root], ?_, ?_, ?_, ?_⟩
  · intro n hn
    simp only [Space.root, List.mem_singleton] at hn
    subst hn; simp
  · intro n hn
    simp only [Space.root, List.mem_singleton] at hn
    subst hn
    simp only [centre, List.map_replicate]
    congr 1
    norm_num [mid]
  · intro n hn
    simp only [Space.root, List.mem_singleton] at hn
    subst hn; simp
  · intro n hn q hq
    simp only [Space.root, List.mem_singleton] at hn
    subst hn
    simp only [List.mem_replicate] at hq
    rw [hq.2]; norm_num

theorem root_cellAt (d m md : Nat) (j : Nat) (c : Cell) (h : (Space.root d m md).cellAt j = some c) :
    j = 0 ∧ c = unitCell d := by
  cases j with
  | zero => simp [Space.cellAt, Space.root] at h; exact ⟨rfl, by rw [← h]; rfl⟩
  | succ k => simp [Space.cellAt, Space.root] at h

theorem root_tiles (d m md : Nat) : (Space.root d m md).Tiles K d := by
  refine ⟨?_, ?_, ?_⟩
  · intro x hx
    exact ⟨0, unitCell d, by simp [Space.isLeaf, Space.root], by simp [Space.cellAt, Space.root, unitCell], hx⟩
  · intro j c _ hc x hx
    obtain ⟨_, rfl⟩ := root_cellAt d m md j c hc
    exact hx
  · intro j j' cj cj' _ _ hne hc hc'
    obtain ⟨rfl, _⟩ := root_cellAt d m md j cj hc
    obtain ⟨rfl, _⟩ := root_cellAt d m md j' cj' hc'
    exact absurd rfl hne

theorem root_depthOk (d m md : Nat) (h : 1 ≤ md) : (Space.root d m md).DepthOk := by
  intro n hn
  simp only [Space.root, List.mem_singleton] at hn
  subst hn; exact h

end VOPy.Adaptive
