import VOPyVerif.Proofs.InvBasic
import VOPyVerif.Model.Ellipsoid
import Mathlib.Data.List.Perm.Basic
/-!
# Invariances of the "is dominated" decisions (`Model/Rect.lean`, `Model/Ellipsoid.lean`)

Helpers for the invariance section of `Props/C09.lean`: common translation, positive scaling,
positive row scaling of the cone matrix and row permutation, for the vertex-pair loop of rectangles
and the closed form of ellipsoids.
-/
namespace VOPy.Inv
open VOPy

/-! ## rectangles -/

theorem inConeTol_smul (W : Mat) (c t : ℚ) (hc : 0 < c) (x : Vec) :
    Rect.inConeTol W (c * t) (smul c x) = Rect.inConeTol W t x := by
  simp only [Rect.inConeTol, matVec, List.all_map]
  apply all_congr
  intro w _
  simp only [Function.comp_apply, dot_smul_right, decide_eq_decide]
  exact mul_le_mul_iff_right₀ hc

/-- translation of both rectangles, raw loop with threshold `τ` (`τ = 0`: `isDominated`) -/
theorem rect_tol_translate (W : Mat) (l1 u1 l2 u2 s t : Vec) (τ : ℚ)
    (h1 : l1.length = t.length) (h2 : u1.length = t.length) (h3 : l2.length = t.length)
    (h4 : u2.length = t.length) :
    Rect.isDominatedTol W (vadd l1 t) (vadd u1 t) (vadd l2 t) (vadd u2 t) s τ =
      Rect.isDominatedTol W l1 u1 l2 u2 s τ := by
  unfold Rect.isDominatedTol
  rw [rect_vertices_vadd l1 u1 t h1 h2, rect_vertices_vadd l2 u2 t h3 h4]
  simp only [List.all_map]
  apply all_congr
  intro v1 hv1
  apply all_congr
  intro v2 hv2
  have e1 := rect_vertices_length l1 u1 (h1.trans h2.symm) v1 hv1
  have e2 := rect_vertices_length l2 u2 (h3.trans h4.symm) v2 hv2
  simp only [Function.comp_apply]
  rw [vsub_vadd_slack v2 v1 t s (e2.trans h3) (e1.trans h1)]

theorem rect_translate (W : Mat) (l1 u1 l2 u2 s t : Vec)
    (h1 : l1.length = t.length) (h2 : u1.length = t.length) (h3 : l2.length = t.length)
    (h4 : u2.length = t.length) :
    Rect.isDominated W (vadd l1 t) (vadd u1 t) (vadd l2 t) (vadd u2 t) s =
      Rect.isDominated W l1 u1 l2 u2 s := by
  unfold Rect.isDominated
  rw [rect_vertices_vadd l1 u1 t h1 h2, rect_vertices_vadd l2 u2 t h3 h4]
  simp only [List.all_map]
  apply all_congr
  intro v1 hv1
  apply all_congr
  intro v2 hv2
  have e1 := rect_vertices_length l1 u1 (h1.trans h2.symm) v1 hv1
  have e2 := rect_vertices_length l2 u2 (h3.trans h4.symm) v2 hv2
  simp only [Function.comp_apply, dominates]
  rw [vsub_vadd_slack v2 v1 t s (e2.trans h3) (e1.trans h1)]

theorem rect_scale (W : Mat) (c : ℚ) (hc : 0 < c) (l1 u1 l2 u2 s : Vec) :
    Rect.isDominated W (smul c l1) (smul c u1) (smul c l2) (smul c u2) (smul c s) =
      Rect.isDominated W l1 u1 l2 u2 s := by
  unfold Rect.isDominated
  rw [rect_vertices_smul, rect_vertices_smul]
  simp only [List.all_map]
  apply all_congr
  intro v1 _
  apply all_congr
  intro v2 _
  simp only [Function.comp_apply, dominates, vadd_smul, vsub_smul]
  exact inCone_smul W c hc _

theorem rect_tol_scale (W : Mat) (c : ℚ) (hc : 0 < c) (l1 u1 l2 u2 s : Vec) (τ : ℚ) :
    Rect.isDominatedTol W (smul c l1) (smul c u1) (smul c l2) (smul c u2) (smul c s) (c * τ) =
      Rect.isDominatedTol W l1 u1 l2 u2 s τ := by
  unfold Rect.isDominatedTol
  rw [rect_vertices_smul, rect_vertices_smul]
  simp only [List.all_map]
  apply all_congr
  intro v1 _
  apply all_congr
  intro v2 _
  simp only [Function.comp_apply, vadd_smul, vsub_smul]
  exact inConeTol_smul W c τ hc _

theorem rect_expandSlack_smul (m : Nat) (c : ℚ) (s : Vec) :
    Rect.expandSlack m (smul c s) = (Rect.expandSlack m s).map (smul c) := by
  unfold Rect.expandSlack
  match s with
  | [] => simp [smul]
  | [x] => simp [smul]
  | x :: y :: r =>
    simp only [smul, List.map_cons, List.length_cons, List.length_map]
    split <;> simp [smul]

/-- rows of `W` scaled by positive factors `D` (one per row) -/
def scaleRows (D : Vec) (W : Mat) : Mat := List.zipWith smul D W

theorem inCone_scaleRows (D : Vec) (W : Mat) (hD : ∀ d ∈ D, 0 < d) (hlen : D.length = W.length)
    (x : Vec) : inCone (scaleRows D W) x = inCone W x := by
  induction W generalizing D with
  | nil => cases D <;> simp [scaleRows, inCone, matVec, allNonneg]
  | cons w W ih =>
    cases D with
    | nil => simp at hlen
    | cons d D =>
      have hd : 0 < d := hD d (by simp)
      have := ih D (fun e he => hD e (by simp [he])) (by simpa using hlen)
      simp only [scaleRows, inCone, allNonneg, matVec, List.zipWith_cons_cons, List.map_cons,
        List.all_cons] at this ⊢
      rw [this, dot_smul_left]
      congr 1
      simp only [decide_eq_decide]
      exact mul_nonneg_iff_of_pos_left hd

theorem rect_scaleRows (D : Vec) (W : Mat) (hD : ∀ d ∈ D, 0 < d) (hlen : D.length = W.length)
    (l1 u1 l2 u2 s : Vec) :
    Rect.isDominated (scaleRows D W) l1 u1 l2 u2 s = Rect.isDominated W l1 u1 l2 u2 s := by
  unfold Rect.isDominated
  apply all_congr
  intro v1 _
  apply all_congr
  intro v2 _
  simp only [dominates]
  exact inCone_scaleRows D W hD hlen _

theorem inCone_perm {W W' : Mat} (h : W.Perm W') (x : Vec) : inCone W x = inCone W' x := by
  simp only [inCone, allNonneg, matVec, List.all_map]
  exact h.all_eq

theorem rect_perm {W W' : Mat} (h : W.Perm W') (l1 u1 l2 u2 s : Vec) :
    Rect.isDominated W l1 u1 l2 u2 s = Rect.isDominated W' l1 u1 l2 u2 s := by
  unfold Rect.isDominated
  apply all_congr
  intro v1 _
  apply all_congr
  intro v2 _
  simp only [dominates]
  exact inCone_perm h _

/-! ## ellipsoids -/

/-- homogeneity of the exact square-root comparison: `k·p − √(k²b) − √(k²c) ≥ k·d ⇔ p − √b − √c ≥ d` -/
theorem sqrtIneq_homog (k : ℚ) (hk : 0 < k) (p b c d : ℚ) :
    Ellipsoid.sqrtIneq (k * p) (k * k * b) (k * k * c) (k * d) = Ellipsoid.sqrtIneq p b c d := by
  unfold Ellipsoid.sqrtIneq
  simp only
  have hr : k * p - k * d = k * (p - d) := by ring
  have hk2 : 0 < k * k := mul_pos hk hk
  have hq : k * (p - d) * (k * (p - d)) - k * k * b - k * k * c
      = k * k * ((p - d) * (p - d) - b - c) := by ring
  rw [hr, hq]
  by_cases h1 : p - d < 0
  · have : k * (p - d) < 0 := mul_neg_of_pos_of_neg hk h1
    simp [h1, this]
  · have h1' : ¬ k * (p - d) < 0 := by
      intro h; exact h1 (by
        by_contra h'
        exact absurd h (not_lt.mpr (mul_nonneg hk.le (not_lt.mp h'))))
    simp only [h1, h1', if_false]
    by_cases h2 : (p - d) * (p - d) - b - c < 0
    · have : k * k * ((p - d) * (p - d) - b - c) < 0 := mul_neg_of_pos_of_neg hk2 h2
      simp [h2, this]
    · have h2' : ¬ k * k * ((p - d) * (p - d) - b - c) < 0 :=
        not_lt.mpr (mul_nonneg hk2.le (not_lt.mp h2))
      simp only [h2, h2', if_false, decide_eq_decide]
      have hk4 : 0 < k * k * (k * k) := mul_pos hk2 hk2
      have e1 : 4 * (k * k * b) * (k * k * c) = k * k * (k * k) * (4 * b * c) := by ring
      have e2 : k * k * ((p - d) * (p - d) - b - c) * (k * k * ((p - d) * (p - d) - b - c))
          = k * k * (k * k) * (((p - d) * (p - d) - b - c) * ((p - d) * (p - d) - b - c)) := by ring
      rw [e1, e2]
      exact mul_le_mul_iff_right₀ hk4

/-- every entry of `S` multiplied by `k` -/
def scaleMat (k : ℚ) (S : Mat) : Mat := S.map (smul k)

theorem quadForm_scaleMat (k : ℚ) (S : Mat) (w : Vec) :
    Ellipsoid.quadForm (scaleMat k S) w = k * Ellipsoid.quadForm S w := by
  unfold Ellipsoid.quadForm scaleMat
  have : matVec (S.map (smul k)) w = smul k (matVec S w) := by
    simp only [matVec, smul, List.map_map]
    apply List.map_congr_left
    intro r _
    exact dot_smul_left k r w
  rw [this, dot_smul_right]

theorem quadForm_smul_arg (k : ℚ) (S : Mat) (w : Vec) :
    Ellipsoid.quadForm S (smul k w) = k * k * Ellipsoid.quadForm S w := by
  unfold Ellipsoid.quadForm
  rw [matVec_smul, dot_smul_right, dot_smul_left]; ring

theorem facetOk_translate (w c1 : Vec) (S1 : Mat) (a1 : ℚ) (c2 : Vec) (S2 : Mat) (a2 d : ℚ) (t : Vec)
    (h1 : c1.length = t.length) (h2 : c2.length = t.length) :
    Ellipsoid.facetOk w (vadd c1 t) S1 a1 (vadd c2 t) S2 a2 d = Ellipsoid.facetOk w c1 S1 a1 c2 S2 a2 d := by
  unfold Ellipsoid.facetOk
  rw [vsub_vadd_vadd c2 c1 t h2 h1]

/-- centres scaled by `k`, covariances by `k²`, threshold by `k` -/
theorem facetOk_scale_sigma (k : ℚ) (hk : 0 < k) (w c1 : Vec) (S1 : Mat) (a1 : ℚ) (c2 : Vec) (S2 : Mat)
    (a2 d : ℚ) :
    Ellipsoid.facetOk w (smul k c1) (scaleMat (k * k) S1) a1 (smul k c2) (scaleMat (k * k) S2) a2 (k * d) =
      Ellipsoid.facetOk w c1 S1 a1 c2 S2 a2 d := by
  unfold Ellipsoid.facetOk
  rw [vsub_smul, dot_smul_right, quadForm_scaleMat, quadForm_scaleMat]
  rw [show a1 * a1 * (k * k * Ellipsoid.quadForm S1 w) = k * k * (a1 * a1 * Ellipsoid.quadForm S1 w) by ring,
    show a2 * a2 * (k * k * Ellipsoid.quadForm S2 w) = k * k * (a2 * a2 * Ellipsoid.quadForm S2 w) by ring]
  exact sqrtIneq_homog k hk _ _ _ _

/-- centres scaled by `k`, radii `alpha` by `k`, threshold by `k` -/
theorem facetOk_scale_alpha (k : ℚ) (hk : 0 < k) (w c1 : Vec) (S1 : Mat) (a1 : ℚ) (c2 : Vec) (S2 : Mat)
    (a2 d : ℚ) :
    Ellipsoid.facetOk w (smul k c1) S1 (k * a1) (smul k c2) S2 (k * a2) (k * d) =
      Ellipsoid.facetOk w c1 S1 a1 c2 S2 a2 d := by
  unfold Ellipsoid.facetOk
  rw [vsub_smul, dot_smul_right]
  rw [show k * a1 * (k * a1) * Ellipsoid.quadForm S1 w = k * k * (a1 * a1 * Ellipsoid.quadForm S1 w) by ring,
    show k * a2 * (k * a2) * Ellipsoid.quadForm S2 w = k * k * (a2 * a2 * Ellipsoid.quadForm S2 w) by ring]
  exact sqrtIneq_homog k hk _ _ _ _

/-- a facet row scaled by `k > 0` together with its threshold -/
theorem facetOk_scale_row (k : ℚ) (hk : 0 < k) (w c1 : Vec) (S1 : Mat) (a1 : ℚ) (c2 : Vec) (S2 : Mat)
    (a2 d : ℚ) :
    Ellipsoid.facetOk (smul k w) c1 S1 a1 c2 S2 a2 (k * d) = Ellipsoid.facetOk w c1 S1 a1 c2 S2 a2 d := by
  unfold Ellipsoid.facetOk
  rw [dot_smul_left, quadForm_smul_arg, quadForm_smul_arg]
  rw [show a1 * a1 * (k * k * Ellipsoid.quadForm S1 w) = k * k * (a1 * a1 * Ellipsoid.quadForm S1 w) by ring,
    show a2 * a2 * (k * k * Ellipsoid.quadForm S2 w) = k * k * (a2 * a2 * Ellipsoid.quadForm S2 w) by ring]
  exact sqrtIneq_homog k hk _ _ _ _

theorem ell_tol_translate (W : Mat) (c1 : Vec) (S1 : Mat) (a1 : ℚ) (c2 : Vec) (S2 : Mat) (a2 : ℚ)
    (s t : Vec) (τ : ℚ) (h1 : c1.length = t.length) (h2 : c2.length = t.length) :
    Ellipsoid.isDominatedTol W (vadd c1 t) S1 a1 (vadd c2 t) S2 a2 s τ =
      Ellipsoid.isDominatedTol W c1 S1 a1 c2 S2 a2 s τ := by
  unfold Ellipsoid.isDominatedTol
  split
  · rfl
  · apply all_congr
    intro ws _
    exact facetOk_translate ws.1 c1 S1 a1 c2 S2 a2 _ t h1 h2

theorem zip_smul_all (W : Mat) (s : Vec) (k : ℚ) (f g : Vec → ℚ → Bool)
    (h : ∀ w x, f w (k * x) = g w x) :
    (W.zip (smul k s)).all (fun p => f p.1 p.2) = (W.zip s).all (fun p => g p.1 p.2) := by
  induction W generalizing s with
  | nil => simp
  | cons w W ih =>
    cases s with
    | nil => simp [smul]
    | cons x s =>
      have := ih s
      simp only [smul, List.map_cons, List.zip_cons_cons, List.all_cons] at this ⊢
      rw [this, h]

theorem ell_tol_scale_sigma (W : Mat) (k : ℚ) (hk : 0 < k) (c1 : Vec) (S1 : Mat) (a1 : ℚ) (c2 : Vec)
    (S2 : Mat) (a2 : ℚ) (s : Vec) (τ : ℚ) :
    Ellipsoid.isDominatedTol W (smul k c1) (scaleMat (k * k) S1) a1 (smul k c2) (scaleMat (k * k) S2) a2
        (smul k s) (k * τ) =
      Ellipsoid.isDominatedTol W c1 S1 a1 c2 S2 a2 s τ := by
  unfold Ellipsoid.isDominatedTol
  split
  · rfl
  · refine zip_smul_all W s k
      (fun w x => Ellipsoid.facetOk w (smul k c1) (scaleMat (k * k) S1) a1 (smul k c2)
        (scaleMat (k * k) S2) a2 (-x + k * τ))
      (fun w x => Ellipsoid.facetOk w c1 S1 a1 c2 S2 a2 (-x + τ)) ?_
    intro w x
    rw [show -(k * x) + k * τ = k * (-x + τ) by ring]
    exact facetOk_scale_sigma k hk w c1 S1 a1 c2 S2 a2 _

theorem ell_tol_scale_alpha (W : Mat) (k : ℚ) (hk : 0 < k) (c1 : Vec) (S1 : Mat) (a1 : ℚ) (c2 : Vec)
    (S2 : Mat) (a2 : ℚ) (s : Vec) (τ : ℚ) :
    Ellipsoid.isDominatedTol W (smul k c1) S1 (k * a1) (smul k c2) S2 (k * a2) (smul k s) (k * τ) =
      Ellipsoid.isDominatedTol W c1 S1 a1 c2 S2 a2 s τ := by
  unfold Ellipsoid.isDominatedTol
  have e1 : (k * a1 < 0) = (a1 < 0) := propext (by
    constructor
    · intro h; by_contra h'; exact absurd h (not_lt.mpr (mul_nonneg hk.le (not_lt.mp h')))
    · intro h; exact mul_neg_of_pos_of_neg hk h)
  have e2 : (k * a2 < 0) = (a2 < 0) := propext (by
    constructor
    · intro h; by_contra h'; exact absurd h (not_lt.mpr (mul_nonneg hk.le (not_lt.mp h')))
    · intro h; exact mul_neg_of_pos_of_neg hk h)
  simp only [e1, e2]
  split
  · rfl
  · refine zip_smul_all W s k
      (fun w x => Ellipsoid.facetOk w (smul k c1) S1 (k * a1) (smul k c2) S2 (k * a2) (-x + k * τ))
      (fun w x => Ellipsoid.facetOk w c1 S1 a1 c2 S2 a2 (-x + τ)) ?_
    intro w x
    rw [show -(k * x) + k * τ = k * (-x + τ) by ring]
    exact facetOk_scale_alpha k hk w c1 S1 a1 c2 S2 a2 _

theorem isDominated_eq_tol (W : Mat) (c1 : Vec) (S1 : Mat) (a1 : ℚ) (c2 : Vec) (S2 : Mat) (a2 : ℚ)
    (s : Vec) :
    Ellipsoid.isDominated W c1 S1 a1 c2 S2 a2 s = Ellipsoid.isDominatedTol W c1 S1 a1 c2 S2 a2 s 0 := by
  unfold Ellipsoid.isDominated Ellipsoid.isDominatedTol
  simp

theorem ell_expandSlack_smul (N : Nat) (c : ℚ) (s : Vec) :
    Ellipsoid.expandSlack N (smul c s) = (Ellipsoid.expandSlack N s).map (smul c) := by
  unfold Ellipsoid.expandSlack
  match s with
  | [] => simp [smul]
  | [x] => simp [smul]
  | x :: y :: r =>
    simp only [smul, List.map_cons, List.length_cons, List.length_map]
    split <;> simp [smul]

/-- rows and per-facet slack scaled by the same positive factors -/
theorem ell_scaleRows (D : Vec) (W : Mat) (hD : ∀ d ∈ D, 0 < d) (hlen : D.length = W.length)
    (c1 : Vec) (S1 : Mat) (a1 : ℚ) (c2 : Vec) (S2 : Mat) (a2 : ℚ) (s : Vec) :
    Ellipsoid.isDominated (scaleRows D W) c1 S1 a1 c2 S2 a2 (List.zipWith (· * ·) D s) =
      Ellipsoid.isDominated W c1 S1 a1 c2 S2 a2 s := by
  unfold Ellipsoid.isDominated
  split
  · rfl
  · induction W generalizing D s with
    | nil => cases D <;> simp [scaleRows]
    | cons w W ih =>
      cases D with
      | nil => simp at hlen
      | cons d D =>
        cases s with
        | nil => simp [scaleRows]
        | cons x s =>
          have hd : 0 < d := hD d (by simp)
          have := ih D (fun e he => hD e (by simp [he])) (by simpa using hlen) s
          simp only [scaleRows, List.zipWith_cons_cons, List.zip_cons_cons, List.all_cons] at this ⊢
          rw [this, show -(d * x) = d * (-x) by ring, facetOk_scale_row d hd]

/-- permuting the (row, slack) pairs -/
theorem ell_perm {ws ws' : List (Vec × ℚ)} (h : ws.Perm ws') (c1 : Vec) (S1 : Mat) (a1 : ℚ) (c2 : Vec)
    (S2 : Mat) (a2 : ℚ) :
    Ellipsoid.isDominated (ws.map Prod.fst) c1 S1 a1 c2 S2 a2 (ws.map Prod.snd) =
      Ellipsoid.isDominated (ws'.map Prod.fst) c1 S1 a1 c2 S2 a2 (ws'.map Prod.snd) := by
  unfold Ellipsoid.isDominated
  split
  · rfl
  · have e : ∀ l : List (Vec × ℚ), (l.map Prod.fst).zip (l.map Prod.snd) = l := by
      intro l; induction l with
      | nil => rfl
      | cons a l ih => simp [ih]
    rw [e, e]
    exact h.all_eq

end VOPy.Inv
