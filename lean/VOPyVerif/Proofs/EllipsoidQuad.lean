import VOPyVerif.Proofs.Ellipsoid
import Mathlib.LinearAlgebra.Matrix.NonsingularInverse
/-!
# Ellipsoids in quadratic-form presentation

`EllQ c Σ a = {z | 0 ≤ a ∧ (z − c)ᵀ Σ⁻¹ (z − c) ≤ a²}` is the feasible set of the code's constraint
`‖Σ^{-1/2}(z − c)‖ ≤ a` (empty for `a < 0`).  For `Σ = L Lᵀ` with `L` invertible and `a ≥ 0` it is
the image `Ell c L a = {c + a·L u | ‖u‖ ≤ 1}` used in `Proofs/Ellipsoid.lean`.
-/
namespace VOPy.Ellipsoid
open Matrix

variable {m N : ℕ}

/-- `{z | 0 ≤ a ∧ (z − c)ᵀ Σ⁻¹ (z − c) ≤ a²}` -/
def EllQ (c : Fin m → ℝ) (S : Matrix (Fin m) (Fin m) ℝ) (a : ℝ) : Set (Fin m → ℝ) :=
  {z | 0 ≤ a ∧ (z - c) ⬝ᵥ (S⁻¹ *ᵥ (z - c)) ≤ a ^ 2}

theorem quad_inv_eq (L : Matrix (Fin m) (Fin m) ℝ) (y : Fin m → ℝ) :
    y ⬝ᵥ ((L * Lᵀ)⁻¹ *ᵥ y) = ∑ j, (L⁻¹ *ᵥ y) j ^ 2 := by
  have e : (L * Lᵀ)⁻¹ = (L⁻¹)ᵀ * ((L⁻¹)ᵀ)ᵀ := by
    rw [Matrix.mul_inv_rev, transpose_transpose, transpose_nonsing_inv]
  rw [e, quad_eq_sum_sq, vecMul_transpose]

theorem ell_eq_ellQ (c : Fin m → ℝ) (L : Matrix (Fin m) (Fin m) ℝ) (a : ℝ) (hdet : L.det ≠ 0)
    (ha : 0 ≤ a) : Ell c L a = EllQ c (L * Lᵀ) a := by
  have hu : IsUnit L.det := isUnit_iff_ne_zero.mpr hdet
  ext z
  simp only [Ell, EllQ, Set.mem_ofPred_eq, quad_inv_eq]
  constructor
  · rintro ⟨u, hu1, rfl⟩
    refine ⟨ha, ?_⟩
    have : L⁻¹ *ᵥ (c + a • (L *ᵥ u) - c) = a • u := by
      rw [add_sub_cancel_left, mulVec_smul, mulVec_mulVec, nonsing_inv_mul _ hu, one_mulVec]
    rw [this]
    have : ∑ j, (a • u) j ^ 2 = a ^ 2 * ∑ j, u j ^ 2 := by
      rw [Finset.mul_sum]
      exact Finset.sum_congr rfl fun j _ => by simp [mul_pow]
    rw [this]
    nlinarith [sq_nonneg a]
  · rintro ⟨_, hq⟩
    set v := L⁻¹ *ᵥ (z - c) with hv
    have hLv : L *ᵥ v = z - c := by
      rw [hv, mulVec_mulVec, mul_nonsing_inv _ hu, one_mulVec]
    rcases eq_or_lt_of_le ha with h0 | hpos
    · refine ⟨0, by simp, ?_⟩
      have hv0 : ∀ j, v j = 0 := by
        have hs : ∑ j, v j ^ 2 = 0 := by
          apply le_antisymm _ (Finset.sum_nonneg fun j _ => sq_nonneg _)
          rw [← h0] at hq; simpa using hq
        intro j
        have := (Finset.sum_eq_zero_iff_of_nonneg fun j _ => sq_nonneg (v j)).1 hs j (Finset.mem_univ _)
        exact pow_eq_zero_iff (two_ne_zero) |>.1 this
      have : v = 0 := funext hv0
      rw [this, mulVec_zero] at hLv
      rw [← h0]
      simp only [zero_smul, add_zero]
      exact (sub_eq_zero.mp hLv.symm)
    · refine ⟨fun j => v j / a, ?_, ?_⟩
      · have : ∑ j, (v j / a) ^ 2 = (∑ j, v j ^ 2) / a ^ 2 := by
          rw [Finset.sum_div]
          exact Finset.sum_congr rfl fun j _ => by rw [div_pow]
        rw [this, div_le_one (by positivity)]
        exact hq
      · have : a • (L *ᵥ fun j => v j / a) = L *ᵥ v := by
          rw [← mulVec_smul]
          congr 1
          funext j
          simp only [Pi.smul_apply, smul_eq_mul]
          field_simp
        rw [this, hLv]
        abel

/-- **Semantic predicate (ellipsoids, quadratic-form regions)**:
`∀ z ∈ {(z−c₁)ᵀΣ₁⁻¹(z−c₁) ≤ a₁²}, ∀ z' ∈ {(z'−c₂)ᵀΣ₂⁻¹(z'−c₂) ≤ a₂²}, ∀ n, w_n·(z' − z) ≥ −s_n`
(regions with a negative radius are empty). -/
def DominatedQ (W : Fin N → Fin m → ℚ) (c1 : Fin m → ℚ) (S1 : Matrix (Fin m) (Fin m) ℝ) (a1 : ℚ)
    (c2 : Fin m → ℚ) (S2 : Matrix (Fin m) (Fin m) ℝ) (a2 : ℚ) (s : Fin N → ℚ) : Prop :=
  ∀ z ∈ EllQ (castVec c1) S1 a1, ∀ z' ∈ EllQ (castVec c2) S2 a2, ∀ n,
    -(s n : ℝ) ≤ castVec (W n) ⬝ᵥ (z' - z)

/-- the model against quadratic-form regions, any sign of the radii, `Σᵢ = Lᵢ Lᵢᵀ`, `Lᵢ` invertible -/
theorem isDominated_iff_quad (W : Fin N → Fin m → ℚ) (c1 c2 : Fin m → ℚ) (S1 S2 : Fin m → Fin m → ℚ)
    (a1 a2 : ℚ) (s : Fin N → ℚ) (L1 L2 : Matrix (Fin m) (Fin m) ℝ)
    (hL1 : (Matrix.of fun i j => (S1 i j : ℝ)) = L1 * L1ᵀ)
    (hL2 : (Matrix.of fun i j => (S2 i j : ℝ)) = L2 * L2ᵀ)
    (hd1 : L1.det ≠ 0) (hd2 : L2.det ≠ 0) :
    isDominated (toMat W) (toVec c1) (toMat S1) a1 (toVec c2) (toMat S2) a2 (toVec s) = true ↔
      DominatedQ W c1 (Matrix.of fun i j => (S1 i j : ℝ)) a1 c2 (Matrix.of fun i j => (S2 i j : ℝ)) a2 s := by
  by_cases hneg : a1 < 0 ∨ a2 < 0
  · have hm : isDominated (toMat W) (toVec c1) (toMat S1) a1 (toVec c2) (toMat S2) a2 (toVec s)
        = true := by
      simp only [isDominated, Bool.or_eq_true, decide_eq_true_eq, hneg, if_true]
    simp only [hm, true_iff]
    intro z hz z' hz' n
    exfalso
    rcases hneg with h | h
    · have : (0 : ℝ) ≤ (a1 : ℝ) := hz.1
      have h' : (a1 : ℝ) < 0 := by exact_mod_cast h
      linarith
    · have : (0 : ℝ) ≤ (a2 : ℝ) := hz'.1
      have h' : (a2 : ℝ) < 0 := by exact_mod_cast h
      linarith
  · push Not at hneg
    have ha1 : (0 : ℝ) ≤ (a1 : ℝ) := by exact_mod_cast hneg.1
    have ha2 : (0 : ℝ) ≤ (a2 : ℝ) := by exact_mod_cast hneg.2
    rw [← isDominatedTol_zero,
      isDominatedTol_iff W c1 c2 S1 S2 a1 a2 s 0 L1 L2 hL1 hL2 hneg.1 hneg.2, dominatedTol_zero]
    unfold Dominated DominatedQ
    rw [ell_eq_ellQ _ L1 _ hd1 ha1, ell_eq_ellQ _ L2 _ hd2 ha2, ← hL1, ← hL2]

end VOPy.Ellipsoid
