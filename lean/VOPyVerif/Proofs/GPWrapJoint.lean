import VOPyVerif.Proofs.GPWrapPerm
import Mathlib.Logic.Equiv.Fin.Basic
/-!
Helper lemmas for C15, part 5: the joint (multitask) executable posterior `GPWrap.jointPost`
(correlated model; independent model with a noise matrix): closed form over the index type
`Fin N × Fin m` (sample position × task) and invariance under permutations of the samples.
-/
namespace VOPy.GPWrap
open Matrix VOPy.GPWrap.Alg

/-- entries of a `flatMap` whose blocks all have length `m` -/
theorem getElem?_flatMap_const {α β : Type} (f : α → List β) (m : Nat) :
    ∀ (l : List α), (∀ x ∈ l, (f x).length = m) → ∀ a i, i < m →
      (l.flatMap f)[a * m + i]? = l[a]?.bind (fun x => (f x)[i]?) := by
  intro l
  induction l with
  | nil => intro _ a i _; simp
  | cons x l ih =>
    intro hf a i hi
    have hx : (f x).length = m := hf x (by simp)
    rw [List.flatMap_cons]
    cases a with
    | zero =>
      simp only [Nat.zero_mul, Nat.zero_add, List.getElem?_cons_zero, Option.bind_some]
      rw [List.getElem?_append_left (by omega)]
    | succ a =>
      have : (a + 1) * m + i = (f x).length + (a * m + i) := by rw [hx, Nat.succ_mul]; omega
      rw [this, List.getElem?_append_right (by omega)]
      simp only [Nat.add_sub_cancel_left, List.getElem?_cons_succ]
      exact ih (fun y hy => hf y (by simp [hy])) a i hi

theorem length_flatMap_const {α β : Type} (f : α → List β) (m : Nat) :
    ∀ (l : List α), (∀ x ∈ l, (f x).length = m) → (l.flatMap f).length = l.length * m := by
  intro l
  induction l with
  | nil => intro _; simp
  | cons x l ih =>
    intro hf
    rw [List.flatMap_cons, List.length_append, ih (fun y hy => hf y (by simp [hy])),
      hf x (by simp), List.length_cons, Nat.succ_mul]
    omega

theorem getElem?_jointIdx (m : Nat) (pids : List Nat) (a i : Nat) (hi : i < m) :
    (jointIdx m pids)[a * m + i]? = pids[a]?.map (fun pid => (a, pid, i)) := by
  unfold jointIdx
  rw [getElem?_flatMap_const _ m _ (by intro x _; simp) a i hi, List.getElem?_zipIdx]
  cases pids[a]? with
  | none => rfl
  | some pid => simp [List.getElem?_range hi]

theorem length_jointIdx (m : Nat) (pids : List Nat) : (jointIdx m pids).length = pids.length * m := by
  unfold jointIdx
  rw [length_flatMap_const _ m _ (by intro x _; simp)]
  simp

/-- entries of a matrix built by two nested successful `mapM`s -/
theorem mapM2_spec {ι κ : Type} (rows : List ι) (cols : List κ) (g : ι → κ → Option ℚ) (M : Mat)
    (h : rows.mapM (fun r => cols.mapM (fun c => g r c)) = some M) :
    M.length = rows.length ∧ (∀ r ∈ M, r.length = cols.length) ∧
    ∀ a b (ha : a < rows.length) (hb : b < cols.length),
      (M.getD a []).getD b 0 = (g rows[a] cols[b]).getD 0 := by
  obtain ⟨hlen, hget⟩ := mapM_some_spec _ rows M h
  refine ⟨hlen, ?_, ?_⟩
  · intro r hr
    obtain ⟨i, hi, rfl⟩ := List.mem_iff_getElem.mp hr
    exact (mapM_some_spec _ cols _ (hget i (by omega) hi)).1
  · intro a b ha hb
    have ha' : a < M.length := by omega
    obtain ⟨hl2, hg2⟩ := mapM_some_spec _ cols _ (hget a ha ha')
    have hb' : b < M[a].length := by omega
    have := hg2 b hb hb'
    simp only [List.getD_eq_getElem?_getD, List.getElem?_eq_getElem ha', Option.getD_some,
      List.getElem?_eq_getElem hb', this]

section Joint
variable (m : Nat) (kfun : Nat → Nat → Nat → Nat → Option ℚ) (Sg : Mat)

/-- joint system matrix over (sample position, task): prior covariance + `I ⊗ Σ` -/
def AJ (data : List (Nat × Vec)) :
    Matrix (Fin data.length × Fin m) (Fin data.length × Fin m) ℚ :=
  fun u v => (kfun (data.get u.1).1 u.2 (data.get v.1).1 v.2).getD 0 +
    if u.1 = v.1 then (lookup Sg u.2 v.2).getD 0 else 0

/-- cross-covariances of task `j` at the test point `p` with all training outputs -/
def kJ (data : List (Nat × Vec)) (p j : Nat) : Fin data.length × Fin m → ℚ :=
  fun u => (kfun p j (data.get u.1).1 u.2).getD 0

/-- training outputs (zero prior mean) -/
def yJ (data : List (Nat × Vec)) : Fin data.length × Fin m → ℚ :=
  fun u => ((data.get u.1).2).getD u.2 0

theorem finProd_val (N : Nat) (x : Fin N × Fin m) :
    (finProdFinEquiv x).1 = x.1.1 * m + x.2.1 := by
  simp [finProdFinEquiv, Nat.mul_comm, Nat.add_comm]

/-- closed form of the joint executable posterior -/
theorem jointPost_spec (data : List (Nat × Vec)) (p : Nat) (q : Post)
    (h : jointPost m kfun Sg data p = some q) (hdet : IsUnit (AJ m kfun Sg data).det) :
    (∀ j : Fin m, q.mean.getD j 0 = quad (AJ m kfun Sg data) (kJ m kfun data p j) (yJ m data)) ∧
    (∀ i j : Fin m, (q.cov.getD i []).getD j 0 = (kfun p i p j).getD 0 -
      quad (AJ m kfun Sg data) (kJ m kfun data p i) (kJ m kfun data p j)) := by
  unfold jointPost at h
  simp only at h
  split at h
  · rename_i K N kT kss hK hN hkT hkss
    split at h
    · rename_i hall
      simp only [List.all_eq_true, beq_iff_eq] at hall
      set idx := jointIdx m (data.map (·.1)) with hidx
      have hil : idx.length = data.length * m := by rw [hidx, length_jointIdx]; simp
      have hyl : (data.flatMap (·.2)).length = data.length * m :=
        length_flatMap_const _ m data hall
      -- position of (a, i) in the flattened index and the index entry found there
      have hpos : ∀ x : Fin data.length × Fin m, (finProdFinEquiv x).1 < idx.length := by
        intro x; rw [hil]; exact (finProdFinEquiv x).2
      have hent : ∀ x : Fin data.length × Fin m,
          idx[(finProdFinEquiv x).1]'(hpos x) = (x.1.1, (data.get x.1).1, x.2.1) := by
        intro x
        have h1 := getElem?_jointIdx m (data.map (·.1)) x.1.1 x.2.1 x.2.2
        rw [← hidx] at h1
        have h2 : (finProdFinEquiv x).1 = x.1.1 * m + x.2.1 := finProd_val m _ x
        have h3 : idx[(finProdFinEquiv x).1]? = some (x.1.1, (data.get x.1).1, x.2.1) := by
          rw [h2, h1]; simp
        rw [List.getElem?_eq_getElem (hpos x)] at h3
        exact Option.some.inj h3
      obtain ⟨hK1, hK2, hK3⟩ := mapM2_spec idx idx _ K hK
      obtain ⟨hN1, hN2, hN3⟩ := mapM2_spec idx idx _ N hN
      obtain ⟨hk1, hk2, hk3⟩ := mapM2_spec (List.range m) idx _ kT hkT
      obtain ⟨hs1, hs2, hs3⟩ := mapM2_spec (List.range m) (List.range m) _ kss hkss
      simp only [List.length_range] at hk1 hs1 hs2
      have hA : (toMatN (data.length * m) (data.length * m) (madd K N)).submatrix
          finProdFinEquiv finProdFinEquiv = AJ m kfun Sg data := by
        funext x x'
        have hx := hpos x
        have hx' := hpos x'
        have r1 : (K.getD (finProdFinEquiv x).1 []).length = idx.length := by
          rw [List.getD_eq_getElem?_getD, List.getElem?_eq_getElem (by omega)]
          exact hK2 _ (List.getElem_mem _)
        have r2 : (N.getD (finProdFinEquiv x).1 []).length = idx.length := by
          rw [List.getD_eq_getElem?_getD, List.getElem?_eq_getElem (by omega)]
          exact hN2 _ (List.getElem_mem _)
        simp only [Matrix.submatrix_apply, toMatN, AJ]
        rw [madd_getD K N _ _ (by omega) (by omega) (by omega) (by omega), hK3 _ _ hx hx',
          hN3 _ _ hx hx', hent x, hent x']
        simp only [Fin.ext_iff]
        by_cases hxx : x.1.1 = x'.1.1 <;> simp [hxx]
      have hkv : ∀ j : Fin m, toVecN (data.length * m) (kT.getD j []) ∘ finProdFinEquiv =
          kJ m kfun data p j := by
        intro j
        funext x
        simp only [Function.comp_apply, toVecN, kJ]
        rw [hk3 j.1 _ (by simp) (hpos x), hent x]
        simp
      have hyv : toVecN (data.length * m) (vsub (data.flatMap (·.2))
          ((data.flatMap (·.2)).map fun _ => 0)) ∘ finProdFinEquiv = yJ m data := by
        funext x
        have hx : (finProdFinEquiv x).1 < (data.flatMap (·.2)).length := by
          rw [hyl]; exact (finProdFinEquiv x).2
        simp only [Function.comp_apply, toVecN, yJ, vsub]
        rw [getD_zipWith _ _ _ _ hx (by simpa using hx) 0 0 0]
        have h1 := getElem?_flatMap_const (fun d : Nat × Vec => d.2) m data hall x.1.1 x.2.1 x.2.2
        rw [← finProd_val m _ x] at h1
        simp only [List.getD_eq_getElem?_getD, h1, List.getElem?_map]
        simp
        cases (data[x.1.1].2)[x.2.1]? <;> simp
      have hdet' : IsUnit (toMatN (data.length * m) (data.length * m) (madd K N)).det := by
        rw [← Matrix.det_submatrix_equiv_self finProdFinEquiv, hA]; exact hdet
      obtain ⟨-, -, hmean, hcov⟩ := posterior_spec' (data.length * m) m _ _ _ _ _ _ _ q h hyl
        (by simp) hdet'
      constructor
      · intro j
        rw [hmean j, ← hA, ← hkv j, ← hyv, quad_reindex]
        simp [List.getD_eq_getElem?_getD]
      · intro i j
        rw [hcov i j, ← hA, ← hkv i, ← hkv j, quad_reindex, hs3 i.1 j.1 (by simp) (by simp)]
        simp
    · exact absurd h (by simp)
  · exact absurd h (by simp)

theorem list_ext_getD (a b : Vec) (k : Nat) (ha : a.length = k) (hb : b.length = k)
    (h : ∀ i : Fin k, a.getD i 0 = b.getD i 0) : a = b := by
  apply List.ext_getElem (by omega)
  intro i h1 h2
  have := h ⟨i, by omega⟩
  simpa [List.getD_eq_getElem?_getD, List.getElem?_eq_getElem h1, List.getElem?_eq_getElem h2]
    using this

theorem mat_ext_getD (A Bm : Mat) (k : Nat) (hA : A.length = k) (hB : Bm.length = k)
    (hAr : ∀ r ∈ A, r.length = k) (hBr : ∀ r ∈ Bm, r.length = k)
    (h : ∀ i j : Fin k, (A.getD i []).getD j 0 = (Bm.getD i []).getD j 0) : A = Bm := by
  apply List.ext_getElem (by omega)
  intro i h1 h2
  apply list_ext_getD _ _ k (hAr _ (List.getElem_mem h1)) (hBr _ (List.getElem_mem h2))
  intro j
  have := h ⟨i, by omega⟩ j
  simpa [List.getD_eq_getElem?_getD, List.getElem?_eq_getElem h1, List.getElem?_eq_getElem h2]
    using this

/-- **The joint executable posterior is a function of the multiset of samples.** -/
theorem jointPost_perm (data data' : List (Nat × Vec)) (p : Nat) (q q' : Post)
    (hperm : data.Perm data') (h : jointPost m kfun Sg data p = some q)
    (h' : jointPost m kfun Sg data' p = some q') (hdet : IsUnit (AJ m kfun Sg data').det) :
    q.mean = q'.mean ∧ q.cov = q'.cov := by
  obtain ⟨e, he⟩ := perm_exists_equiv hperm
  have hA : AJ m kfun Sg data = (AJ m kfun Sg data').submatrix
      (Equiv.prodCongr e (Equiv.refl (Fin m))) (Equiv.prodCongr e (Equiv.refl (Fin m))) := by
    funext u v
    simp only [AJ, Matrix.submatrix_apply, Equiv.prodCongr_apply, Prod.map_fst, Prod.map_snd,
      Equiv.refl_apply, he, e.injective.eq_iff]
  have hk : ∀ j, kJ m kfun data p j =
      kJ m kfun data' p j ∘ (Equiv.prodCongr e (Equiv.refl (Fin m))) := by
    intro j; funext u
    simp only [kJ, Function.comp_apply, Equiv.prodCongr_apply, Prod.map_fst, Prod.map_snd,
      Equiv.refl_apply, he]
  have hy : yJ m data = yJ m data' ∘ (Equiv.prodCongr e (Equiv.refl (Fin m))) := by
    funext u
    simp only [yJ, Function.comp_apply, Equiv.prodCongr_apply, Prod.map_fst, Prod.map_snd,
      Equiv.refl_apply, he]
  have hdet0 : IsUnit (AJ m kfun Sg data).det := by
    rw [hA, Matrix.det_submatrix_equiv_self]; exact hdet
  obtain ⟨m1, c1⟩ := jointPost_spec m kfun Sg data p q h hdet0
  obtain ⟨m2, c2⟩ := jointPost_spec m kfun Sg data' p q' h' hdet
  obtain ⟨s1, s2, s3⟩ := jointPost_shapes m kfun Sg data p q h
  obtain ⟨t1, t2, t3⟩ := jointPost_shapes m kfun Sg data' p q' h'
  constructor
  · apply list_ext_getD _ _ m s1 t1
    intro j
    rw [m1 j, m2 j, hA, hk, hy, quad_reindex]
  · apply mat_ext_getD _ _ m s2 t2 s3 t3
    intro i j
    rw [c1 i j, c2 i j, hA, hk, hk, quad_reindex]

/-- a training output `(sample position, task)` or a test output `task at p`, as (point, task) -/
def ptJ (data : List (Nat × Vec)) (p : Nat) : (Fin data.length × Fin m) ⊕ Fin m → Nat × Nat :=
  Sum.elim (fun u => ((data.get u.1).1, u.2.1)) (fun j => (p, j.1))

/-- prior Gram of all training outputs and the `m` test outputs -/
def jointGramJ (data : List (Nat × Vec)) (p : Nat) :
    Matrix ((Fin data.length × Fin m) ⊕ Fin m) ((Fin data.length × Fin m) ⊕ Fin m) ℚ :=
  fun a b => (kfun (ptJ m data p a).1 (ptJ m data p a).2 (ptJ m data p b).1 (ptJ m data p b).2).getD 0

/-- the noise part `I_N ⊗ Σ` of the joint system -/
def NJ (data : List (Nat × Vec)) :
    Matrix (Fin data.length × Fin m) (Fin data.length × Fin m) ℚ :=
  fun u v => if u.1 = v.1 then (lookup Sg u.2 v.2).getD 0 else 0

/-- **Joint executable posterior: every predicted variance is non-negative** (prior Gram positive
semidefinite on the outputs involved, noise part positive definite). -/
theorem jointPost_var_nonneg (data : List (Nat × Vec)) (p : Nat) (q : Post)
    (h : jointPost m kfun Sg data p = some q) (hG : (jointGramJ m kfun data p).PosSemidef)
    (hN : (NJ m Sg data).PosDef) : ∀ i : Fin m, 0 ≤ (q.cov.getD i []).getD i 0 := by
  obtain ⟨Kd, hKd⟩ : ∃ Kd : Matrix (Fin data.length × Fin m) (Fin data.length × Fin m) ℚ,
      Kd = fun (u v : Fin data.length × Fin m) =>
        (kfun (data.get u.1).1 u.2 (data.get v.1).1 v.2).getD 0 := ⟨_, rfl⟩
  obtain ⟨Bc, hBc⟩ : ∃ Bc : Matrix (Fin data.length × Fin m) (Fin m) ℚ,
      Bc = fun (u : Fin data.length × Fin m) (j : Fin m) =>
        (kfun (data.get u.1).1 u.2 p j).getD 0 := ⟨_, rfl⟩
  obtain ⟨Dm, hDm⟩ : ∃ Dm : Matrix (Fin m) (Fin m) ℚ,
      Dm = fun (i j : Fin m) => (kfun p i p j).getD 0 := ⟨_, rfl⟩
  have hsym : ∀ (u : Fin data.length × Fin m) (j : Fin m),
      (kfun p j (data.get u.1).1 u.2).getD 0 = (kfun (data.get u.1).1 u.2 p j).getD 0 := by
    intro u j
    have := congrFun (congrFun hG.1 (Sum.inl u)) (Sum.inr j)
    simpa [jointGramJ, ptJ, Matrix.conjTranspose_apply] using this
  have hJ : jointGramJ m kfun data p = fromBlocks Kd Bc Bcᴴ Dm := by
    ext a b
    rcases a with u | i <;> rcases b with v | j
    · rw [fromBlocks_apply₁₁, hKd]; rfl
    · rw [fromBlocks_apply₁₂, hBc]; rfl
    · rw [fromBlocks_apply₂₁, Matrix.conjTranspose_apply, hBc, star_trivial]
      exact hsym v i
    · rw [fromBlocks_apply₂₂, hDm]; rfl
  have hA : AJ m kfun Sg data = Kd + NJ m Sg data := by
    funext u v
    rw [hKd]; rfl
  have hK : Kd.PosSemidef := by
    have h0 := hG.submatrix (Sum.inl : Fin data.length × Fin m → _ ⊕ Fin m)
    have e0 : (jointGramJ m kfun data p).submatrix Sum.inl Sum.inl = Kd := by
      ext u v; rw [hKd]; rfl
    rwa [e0] at h0
  have hpd : (AJ m kfun Sg data).PosDef := by rw [hA]; exact hN.posSemidef_add hK
  obtain ⟨-, hc⟩ := jointPost_spec m kfun Sg data p q h
    ((Matrix.isUnit_iff_isUnit_det _).mp hpd.isUnit)
  intro i
  rw [hc i i]
  have hpsd := posterior_cov_posSemidef Kd Bc Dm _ (hJ ▸ hG) hN
  have h00 := hpsd.diag_nonneg (i := i)
  rw [Matrix.sub_apply, conjTranspose_eq_transpose_of_trivial, transpose_mul_mul_apply, ← hA] at h00
  have hk : (fun a => Bc a i) = kJ m kfun data p i := by
    funext u; rw [hBc]; exact (hsym u i).symm
  rw [hk, hDm] at h00
  exact h00

end Joint

/-- **Correlated model (executable): predictions depend only on the multiset of samples.** -/
theorem corrPost_perm (cfg : Cfg) (Sg : Mat) (hSg : cfg.taskNoise = some Sg)
    (data data' : List (Nat × Vec)) (p : Nat) (q q' : Post) (hperm : data.Perm data')
    (h : corrPost cfg data p = some q) (h' : corrPost cfg data' p = some q')
    (hdet : IsUnit (AJ cfg.m (corrK cfg) Sg data').det) : q.mean = q'.mean ∧ q.cov = q'.cov := by
  unfold corrPost at h h'
  simp only [hSg] at h h'
  exact jointPost_perm cfg.m (corrK cfg) Sg data data' p q q' hperm h h' hdet

/-- **Independent model computed jointly (any noise): predictions depend only on the multiset.** -/
theorem indepJoint_perm (cfg : Cfg) (Sg : Mat) (hSg : cfg.taskNoise = some Sg)
    (data data' : List (Nat × Vec)) (p : Nat) (q q' : Post) (hperm : data.Perm data')
    (h : indepJoint cfg data p = some q) (h' : indepJoint cfg data' p = some q')
    (hdet : IsUnit (AJ cfg.m (indepK cfg) Sg data').det) : q.mean = q'.mean ∧ q.cov = q'.cov := by
  unfold indepJoint at h h'
  simp only [hSg] at h h'
  by_cases hc : (cfg.tables.length == cfg.m) = true
  · simp only [hc, ↓reduceIte] at h h'
    exact jointPost_perm cfg.m (indepK cfg) Sg data data' p q q' hperm h h' hdet
  · simp [hc] at h

end VOPy.GPWrap
