import VOPyVerif.Model.GPWrap
/-! Helper lemmas for C15, part 1: the wrapper state machine (core Lean only). -/
namespace VOPy.GPWrap

variable {D B β σ : Type}

/-- an op that is not `update` -/
def Op.isUpdate : Op B → Bool
  | .update => true
  | _ => false

@[simp] theorem run_nil (S : Store D B) (s : State D) : run S s [] = s := rfl

@[simp] theorem run_cons (S : Store D B) (s : State D) (o : Op B) (ops : List (Op B)) :
    run S s (o :: ops) = run S (step S s o) ops := rfl

theorem run_append (S : Store D B) (s : State D) (a b : List (Op B)) :
    run S s (a ++ b) = run S (run S s a) b := by
  simp [run, List.foldl_append]

/-- ops other than `update` never touch `conditioned` / `initialised` -/
theorem run_noUpdate (S : Store D B) (ops : List (Op B)) (s : State D)
    (h : ∀ o ∈ ops, o.isUpdate = false) :
    (run S s ops).conditioned = s.conditioned ∧ (run S s ops).initialised = s.initialised := by
  induction ops generalizing s with
  | nil => exact ⟨rfl, rfl⟩
  | cons o ops ih =>
    have ho := h o (by simp)
    have := ih (step S s o) (fun o' ho' => h o' (by simp [ho']))
    rw [run_cons, this.1, this.2]
    cases o with
    | add b => exact ⟨rfl, rfl⟩
    | clear => exact ⟨rfl, rfl⟩
    | update => simp [Op.isUpdate] at ho

/-- `update` never touches `held` -/
theorem step_update_held (S : Store D B) (s : State D) : (step S s .update).held = s.held := rfl

/-- after `pre ++ [update] ++ post` with no update in `post`, the model is conditioned on exactly
what was held when that last update ran -/
theorem run_last_update (S : Store D B) (s : State D) (pre post : List (Op B))
    (h : ∀ o ∈ post, o.isUpdate = false) :
    (run S s (pre ++ .update :: post)).conditioned = (run S s pre).held ∧
    (run S s (pre ++ .update :: post)).initialised = true := by
  rw [run_append, run_cons]
  have := run_noUpdate S post (step S (run S s pre) .update) h
  rw [this.1, this.2]
  exact ⟨rfl, rfl⟩

/-- every op list either contains no update or splits at its last update -/
theorem split_last_update (ops : List (Op B)) :
    (∀ o ∈ ops, o.isUpdate = false) ∨
    ∃ pre post, ops = pre ++ .update :: post ∧ ∀ o ∈ post, o.isUpdate = false := by
  induction ops with
  | nil => left; simp
  | cons o ops ih =>
    rcases ih with h | ⟨pre, post, rfl, hp⟩
    · cases o with
      | update => right; exact ⟨[], ops, rfl, h⟩
      | add b => left; intro o' ho'; simp at ho'; rcases ho' with rfl | ho'; rfl; exact h _ ho'
      | clear => left; intro o' ho'; simp at ho'; rcases ho' with rfl | ho'; rfl; exact h _ ho'
    · right; exact ⟨o :: pre, post, rfl, hp⟩

/-- any history whose last op is `update` leaves the wrapper up to date -/
theorem upToDate_snoc_update [DecidableEq D] (S : Store D B) (s : State D) (ops : List (Op B)) :
    upToDate (run S s (ops ++ [.update])) = true := by
  rw [run_append]
  simp [upToDate, step]

theorem run_map_add (S : Store D B) (s : State D) (bs : List B) :
    (run S s (bs.map .add)).held = bs.foldl S.add s.held ∧
    (run S s (bs.map .add)).conditioned = s.conditioned ∧
    (run S s (bs.map .add)).initialised = s.initialised := by
  induction bs generalizing s with
  | nil => exact ⟨rfl, rfl, rfl⟩
  | cons b bs ih =>
    have := ih (step S s (.add b))
    simp only [List.map_cons, run_cons, List.foldl_cons]
    exact this

/-- state reached by the pre-fix helper sequence when `initial_sample_cnt = 0` -/
theorem run_helperOpsConditional_none (S : Store D B) (train : List B) :
    run S (init S) (helperOpsConditional train none) =
      ⟨S.empty, train.foldl S.add S.empty, true⟩ := by
  unfold helperOpsConditional
  simp only [List.append_nil]
  rw [run_append]
  have h := run_map_add S (init S) train
  simp only [run_cons, run_nil, step]
  rw [h.1]
  rfl

/-! ### the multi-output store -/

/-- rows added by a list of ops that contains only `add`s -/
def addsOf : List (Op (List σ)) → List σ
  | [] => []
  | .add b :: ops => b ++ addsOf ops
  | _ :: ops => addsOf ops

def Op.isAdd : Op B → Bool
  | .add _ => true
  | _ => false

theorem mo_run_adds (s : State (List σ)) (ops : List (Op (List σ)))
    (h : ∀ o ∈ ops, o.isAdd = true) :
    (run (moStore σ) s ops).held = s.held ++ addsOf ops ∧
    (run (moStore σ) s ops).conditioned = s.conditioned ∧
    (run (moStore σ) s ops).initialised = s.initialised := by
  induction ops generalizing s with
  | nil => simp [addsOf]
  | cons o ops ih =>
    have ho := h o (by simp)
    cases o with
    | add b =>
      have := ih (step (moStore σ) s (.add b)) (fun o' ho' => h o' (by simp [ho']))
      rw [run_cons, this.1, this.2.1, this.2.2]
      simp [step, moStore, addsOf, List.append_assoc]
    | clear => simp [Op.isAdd] at ho
    | update => simp [Op.isAdd] at ho

theorem addsOf_map_add (bs : List (List σ)) : addsOf (bs.map Op.add) = bs.flatten := by
  induction bs with
  | nil => rfl
  | cons b bs ih => simp [addsOf, ih]

/-! ### the model-list store -/

theorem getElem?_addSingle (d : List (List σ)) (j i : Nat) (b : List σ) :
    (addSingle d j b)[i]? = if j = i then d[i]?.map (· ++ b) else d[i]? := by
  unfold addSingle
  rw [List.getElem?_modify]
  by_cases h : j = i <;> simp [h]

theorem length_addSingle (d : List (List σ)) (j : Nat) (b : List σ) :
    (addSingle d j b).length = d.length := by
  simp [addSingle]

theorem getElem?_foldl_addSingle (js : List Nat) (hjs : js.Nodup) (f : Nat → List σ)
    (d : List (List σ)) (i : Nat) :
    (js.foldl (fun acc j => addSingle acc j (f j)) d)[i]? =
      if i ∈ js then d[i]?.map (· ++ f i) else d[i]? := by
  induction js generalizing d with
  | nil => simp
  | cons j js ih =>
    rw [List.foldl_cons, ih (List.nodup_cons.mp hjs).2, getElem?_addSingle]
    have hj : j ∉ js := (List.nodup_cons.mp hjs).1
    by_cases hij : j = i
    · subst hij
      simp [hj]
    · have : i ≠ j := fun h => hij h.symm
      simp [hij, this]

theorem masked_of_not_mem (idx : List Nat) (b : List σ) (j : Nat) (h : j ∉ idx) :
    masked idx b j = [] := by
  unfold masked
  have : (idx.zip b).filter (fun p => p.1 == j) = [] := by
    rw [List.filter_eq_nil_iff]
    intro p hp
    have := (List.of_mem_zip hp).1
    simp only [beq_iff_eq]
    rintro rfl
    exact h this
  rw [this]; rfl

theorem nodup_uniqSorted (l : List Nat) : (uniqSorted l).Nodup := by
  unfold uniqSorted
  exact List.Nodup.sublist List.filter_sublist List.nodup_range

theorem mem_uniqSorted (l : List Nat) (j : Nat) : j ∈ uniqSorted l ↔ j ∈ l := by
  unfold uniqSorted
  simp only [List.mem_filter, List.mem_range, List.contains_iff_mem]
  constructor
  · exact fun h => h.2
  · intro h
    refine ⟨?_, h⟩
    have : ∀ (l : List Nat) (a : Nat), j ∈ l → j ≤ l.foldl max a := by
      intro l
      induction l with
      | nil => intro a h; simp at h
      | cons x xs ih =>
        intro a h
        have hmono : ∀ (xs : List Nat) (a : Nat), a ≤ xs.foldl max a := by
          intro xs
          induction xs with
          | nil => intro a; exact Nat.le_refl _
          | cons y ys ih2 => intro a; exact Nat.le_trans (Nat.le_max_left a y) (ih2 _)
        rw [List.foldl_cons]
        rcases List.mem_cons.mp h with rfl | h
        · exact Nat.le_trans (Nat.le_max_right a j) (hmono xs _)
        · exact ih _ h
    exact Nat.lt_succ_of_le (this l 0 h)

/-- list routing = "append to every objective the rows carrying its index, in order" -/
theorem getElem?_mlAdd_each (d : List (List σ)) (idx : List Nat) (b : List σ)
    (hlen : idx.length = b.length) (i : Nat) :
    (mlAdd d (.each idx, b))[i]? = d[i]?.map (· ++ masked idx b i) := by
  unfold mlAdd
  simp only [hlen, ne_eq, not_true_eq_false, ↓reduceIte]
  rw [getElem?_foldl_addSingle _ (nodup_uniqSorted idx)]
  by_cases h : i ∈ uniqSorted idx
  · simp [h]
  · have h' : i ∉ idx := fun hh => h ((mem_uniqSorted idx i).mpr hh)
    rw [masked_of_not_mem idx b i h']
    simp only [h, ↓reduceIte, List.append_nil]
    cases d[i]? <;> rfl

theorem getElem?_mlAdd_single (d : List (List σ)) (j : Nat) (b : List σ) (i : Nat) :
    (mlAdd d (.single j, b))[i]? = if j = i then d[i]?.map (· ++ b) else d[i]? := by
  unfold mlAdd
  exact getElem?_addSingle d j i b

end VOPy.GPWrap
