import VOPyVerif.Proofs.AdaptiveInv
/-!
# VOGP_AD's set surgery preserves the invariants — helper lemmas for C18
-/
set_option linter.unusedSectionVars false
namespace VOPy.Adaptive

variable {K : Type*} [Field K] [LinearOrder K] [IsStrictOrderedRing K]

/-- the combinatorial invariant of the algorithm state -/
structure Algo.Inv (d : Nat) (a : Algo) : Prop where
  wf : a.space.WF d
  sLeaf : ∀ i ∈ a.S, a.space.isLeaf i = true
  pLeaf : ∀ i ∈ a.P, a.space.isLeaf i = true
  sNodup : a.S.Nodup
  pNodup : a.P.Nodup
  disj : ∀ i ∈ a.S, i ∉ a.P
  maxEq : a.maxDepth = a.space.maxDepth
  latched : a.latch = true → ∀ i, i ∈ a.S ∨ i ∈ a.P → a.space.depthAt i = some a.maxDepth
  unlatched : a.latch = false → a.P = []
  /-- discarded designs are leaves, … -/
  dLeaf : ∀ i ∈ a.dropped, a.space.isLeaf i = true
  /-- … are no longer active, … -/
  dDisj : ∀ i ∈ a.dropped, i ∉ a.S ∧ i ∉ a.P
  /-- … and every leaf is active or was discarded: no leaf is lost -/
  account : ∀ i, a.space.isLeaf i = true → i ∈ a.S ∨ i ∈ a.P ∨ i ∈ a.dropped

theorem init_inv (d m md : Nat) : (Algo.init d m md).Inv d := by
  refine ⟨root_wf d m md, ?_, ?_, ?_, ?_, ?_, rfl, ?_, ?_, ?_, ?_, ?_⟩
  · intro i hi
    simp only [Algo.init, List.mem_singleton] at hi
    subst hi; simp [Algo.init, Space.isLeaf, Space.root]
  · intro i hi; simp [Algo.init] at hi
  · simp [Algo.init]
  · simp [Algo.init]
  · intro i _; simp [Algo.init]
  · intro h; simp [Algo.init] at h
  · intro _; rfl
  · intro i hi; simp [Algo.init] at hi
  · intro i hi; simp [Algo.init] at hi
  · intro i hi
    have := ((Space.isLeaf_iff _ _).mp hi).1
    simp only [Algo.init, Space.root, List.length_singleton] at this
    left
    simp only [Algo.init, List.mem_singleton]
    omega

/-! ## case analysis of the operations -/

theorem evalRefine_cases {a a' : Algo} {c : Nat} {vh : Bool} (h : a.evalRefine c vh = some a') :
    (c ∈ a.S ∨ c ∈ a.P) ∧ ∃ p, a.space.nodes[c]? = some p ∧
    (((a.space.maxDepth ≤ p.depth ∨ vh = false) ∧ a' = { a with samples := a.samples + 1 }) ∨
     (p.depth < a.space.maxDepth ∧ vh = true ∧ ∃ sp ch, a.space.refine c = some (sp, ch) ∧
        ((c ∈ a.S ∧ a' = { a with space := sp, S := a.S.filter (fun i => i != c) ++ ch }) ∨
         (c ∉ a.S ∧ c ∈ a.P ∧
            a' = { a with space := sp, P := a.P.filter (fun i => i != c) ++ ch })))) := by
  unfold Algo.evalRefine at h
  split at h
  · rename_i hc
    have hc' : c ∈ a.S ∨ c ∈ a.P := by simpa using hc
    refine ⟨hc', ?_⟩
    cases hp : a.space.nodes[c]? with
    | none => simp [Space.shouldRefine, hp] at h
    | some p =>
      refine ⟨p, rfl, ?_⟩
      simp only [Space.shouldRefine, hp] at h
      by_cases hd : p.depth ≥ a.space.maxDepth
      · simp only [hd, if_true] at h
        simp only [Option.some.injEq] at h
        exact Or.inl ⟨Or.inl hd, h.symm⟩
      · simp only [hd, if_false] at h
        cases vh with
        | false =>
          simp only [Option.some.injEq] at h
          exact Or.inl ⟨Or.inr rfl, h.symm⟩
        | true =>
          refine Or.inr ⟨Nat.lt_of_not_ge hd, rfl, ?_⟩
          cases hr : a.space.refine c with
          | none => simp [hr] at h
          | some r =>
            obtain ⟨sp, ch⟩ := r
            simp only [hr] at h
            refine ⟨sp, ch, rfl, ?_⟩
            by_cases hs : c ∈ a.S
            · have : a.S.contains c = true := by simpa using hs
              simp only [this, if_true, Option.some.injEq] at h
              exact Or.inl ⟨hs, h.symm⟩
            · have : a.S.contains c = false := by simpa using hs
              simp only [this, Bool.false_eq_true, if_false, Option.some.injEq] at h
              exact Or.inr ⟨hs, hc'.resolve_left hs, h.symm⟩
  · simp at h

theorem discard_cases {a a' : Algo} {D : List Nat} (h : a.discard D = some a') :
    (∀ i ∈ D, i ∈ a.S) ∧ a' = { a with S := a.S.filter (fun i => !D.contains i)
                                       dropped := a.dropped ++ a.S.filter (fun i => D.contains i) } := by
  unfold Algo.discard at h
  split at h
  · rename_i hD
    simp only [Option.some.injEq] at h
    exact ⟨by simpa using hD, h.symm⟩
  · simp at h

theorem cover_cases {a a' : Algo} {N : List Nat} (h : a.cover N = some a') :
    ((a.latch = false ∧ a.allAtMax = false ∧ a' = a) ∨
     ((a.latch = true ∨ a.allAtMax = true) ∧ (∀ i ∈ N, i ∈ a.S) ∧
       a' = { a with latch := true
                     S := a.S.filter (fun i => !N.contains i)
                     P := a.P ++ a.S.filter (fun i => N.contains i) })) := by
  unfold Algo.cover at h
  split at h
  · simp at h
  · split at h
    · rename_i h2
      simp only [Option.some.injEq] at h
      simp only [Bool.and_eq_true, Bool.not_eq_true'] at h2
      exact Or.inl ⟨h2.1, h2.2, h.symm⟩
    · rename_i h2
      split at h
      · rename_i h3
        simp only [Option.some.injEq] at h
        refine Or.inr ⟨?_, by simpa using h3, h.symm⟩
        cases hl : a.latch <;> cases hm : a.allAtMax <;> simp_all
      · simp at h

theorem allAtMax_spec {a : Algo} (h : a.allAtMax = true) :
    ∀ i ∈ a.S, a.space.depthAt i = some a.maxDepth := by
  intro i hi
  simp only [Algo.allAtMax, List.all_eq_true] at h
  have := h i hi
  cases hp : a.space.nodes[i]? with
  | none => simp [hp] at this
  | some p =>
    simp only [hp, beq_iff_eq] at this
    simp [Space.depthAt, hp, this]

/-! ## preservation of `Algo.Inv` -/

/-- the space changed but leaves, depths and maximum depth did not (region updates) -/
theorem Inv.of_same {d : Nat} {a a' : Algo} (hi : a.Inv d) (hwf : a'.space.WF d)
    (hS : a'.S = a.S) (hP : a'.P = a.P) (hl : a'.latch = a.latch) (hm : a'.maxDepth = a.maxDepth)
    (hD : a'.dropped = a.dropped)
    (hsm : a'.space.maxDepth = a.space.maxDepth)
    (hleaf : ∀ j, a'.space.isLeaf j = a.space.isLeaf j)
    (hdepth : ∀ j, a'.space.depthAt j = a.space.depthAt j) : a'.Inv d := by
  refine ⟨hwf, ?_, ?_, hS ▸ hi.sNodup, hP ▸ hi.pNodup, ?_, ?_, ?_, ?_, ?_, ?_, ?_⟩
  · intro i h; rw [hleaf]; exact hi.sLeaf i (hS ▸ h)
  · intro i h; rw [hleaf]; exact hi.pLeaf i (hP ▸ h)
  · intro i h; rw [hP]; exact hi.disj i (hS ▸ h)
  · rw [hm, hsm]; exact hi.maxEq
  · intro h i hi'
    rw [hdepth, hm]
    exact hi.latched (hl ▸ h) i (by rw [hS, hP] at hi'; exact hi')
  · intro h; rw [hP]; exact hi.unlatched (hl ▸ h)
  · intro i h; rw [hleaf]; exact hi.dLeaf i (hD ▸ h)
  · intro i h; rw [hS, hP]; exact hi.dDisj i (hD ▸ h)
  · intro i h; rw [hS, hP, hD]; rw [hleaf] at h; exact hi.account i h

theorem modeling_inv {d : Nat} : ∀ (regs : List (Nat × List Rat × List Rat)) {a a' : Algo},
    a.Inv d → a.modeling regs = some a' → a'.Inv d
  | [], a, a', hi, h => by
      simp only [Algo.modeling, Option.some.injEq] at h
      exact h ▸ hi
  | (i, lo, up) :: rest, a, a', hi, h => by
      simp only [Algo.modeling] at h
      cases hs : a.space.setRegion i lo up with
      | none => simp [hs] at h
      | some sp =>
        simp only [hs] at h
        obtain ⟨_, h2, _, _, h5, _⟩ := setRegion_facts hs
        refine modeling_inv rest ?_ h
        exact Inv.of_same (a' := { a with space := sp }) hi (setRegion_wf hi.wf hs) rfl rfl rfl rfl rfl h2
          (setRegion_isLeaf hs) h5

theorem modeling_space {P : Space → Prop}
    (hstep : ∀ s s' i lo up, P s → s.setRegion i lo up = some s' → P s') :
    ∀ (regs : List (Nat × List Rat × List Rat)) {a a' : Algo},
    P a.space → a.modeling regs = some a' → P a'.space
  | [], a, a', hp, h => by
      simp only [Algo.modeling, Option.some.injEq] at h
      exact h ▸ hp
  | (i, lo, up) :: rest, a, a', hp, h => by
      simp only [Algo.modeling] at h
      cases hs : a.space.setRegion i lo up with
      | none => simp [hs] at h
      | some sp =>
        simp only [hs] at h
        exact modeling_space hstep rest (a := { a with space := sp }) (hstep _ _ _ _ _ hp hs) h

theorem discard_inv {d : Nat} {a a' : Algo} {D : List Nat} (hi : a.Inv d)
    (h : a.discard D = some a') : a'.Inv d := by
  obtain ⟨_, rfl⟩ := discard_cases h
  refine ⟨hi.wf, ?_, hi.pLeaf, hi.sNodup.filter _, hi.pNodup, ?_, hi.maxEq, ?_, hi.unlatched, ?_, ?_, ?_⟩
  · intro i h; exact hi.sLeaf i (List.mem_filter.mp h).1
  · intro i h; exact hi.disj i (List.mem_filter.mp h).1
  · intro hl i h
    refine hi.latched hl i ?_
    rcases h with h | h
    · exact Or.inl (List.mem_filter.mp h).1
    · exact Or.inr h
  · intro i h
    rcases List.mem_append.mp h with h | h
    · exact hi.dLeaf i h
    · exact hi.sLeaf i (List.mem_filter.mp h).1
  · intro i h
    rcases List.mem_append.mp h with h | h
    · exact ⟨fun h' => (hi.dDisj i h).1 (List.mem_filter.mp h').1, (hi.dDisj i h).2⟩
    · have h1 := List.mem_filter.mp h
      refine ⟨fun h' => ?_, hi.disj i h1.1⟩
      have h2 := (List.mem_filter.mp h').2
      simp only [h1.2, Bool.not_true] at h2
      exact absurd h2 (by simp)
  · intro i h
    rcases hi.account i h with h | h | h
    · by_cases hd : D.contains i = true
      · exact Or.inr (Or.inr (List.mem_append_right _ (List.mem_filter.mpr ⟨h, hd⟩)))
      · exact Or.inl (List.mem_filter.mpr ⟨h, by simpa using hd⟩)
    · exact Or.inr (Or.inl h)
    · exact Or.inr (Or.inr (List.mem_append_left _ h))

theorem cover_inv {d : Nat} {a a' : Algo} {N : List Nat} (hi : a.Inv d)
    (h : a.cover N = some a') : a'.Inv d := by
  have h2 := cover_cases h
  rcases h2 with ⟨_, _, rfl⟩ | ⟨hg, _, rfl⟩
  · exact hi
  · refine ⟨hi.wf, ?_, ?_, hi.sNodup.filter _, ?_, ?_, hi.maxEq, ?_, ?_, hi.dLeaf, ?_, ?_⟩
    rotate_right 2
    · intro i h
      refine ⟨fun h' => (hi.dDisj i h).1 (List.mem_filter.mp h').1, fun h' => ?_⟩
      rcases List.mem_append.mp h' with h' | h'
      · exact (hi.dDisj i h).2 h'
      · exact (hi.dDisj i h).1 (List.mem_filter.mp h').1
    · intro i h
      rcases hi.account i h with h | h | h
      · by_cases hd : N.contains i = true
        · exact Or.inr (Or.inl (List.mem_append_right _ (List.mem_filter.mpr ⟨h, hd⟩)))
        · exact Or.inl (List.mem_filter.mpr ⟨h, by simpa using hd⟩)
      · exact Or.inr (Or.inl (List.mem_append_left _ h))
      · exact Or.inr (Or.inr h)
    · intro i h; exact hi.sLeaf i (List.mem_filter.mp h).1
    · intro i h
      rcases List.mem_append.mp h with h | h
      · exact hi.pLeaf i h
      · exact hi.sLeaf i (List.mem_filter.mp h).1
    · refine List.nodup_append.mpr ⟨hi.pNodup, hi.sNodup.filter _, ?_⟩
      intro x hx y hy hxy
      subst hxy
      exact hi.disj x (List.mem_filter.mp hy).1 hx
    · intro i h h'
      have h1 := List.mem_filter.mp h
      rcases List.mem_append.mp h' with h' | h'
      · exact hi.disj i h1.1 h'
      · have h2 := (List.mem_filter.mp h').2
        simp only [h2, Bool.not_true] at h1
        exact absurd h1.2 (by simp)
    · intro _ i h
      have hmem : i ∈ a.S ∨ i ∈ a.P := by
        rcases h with h | h
        · exact Or.inl (List.mem_filter.mp h).1
        · rcases List.mem_append.mp h with h | h
          · exact Or.inr h
          · exact Or.inl (List.mem_filter.mp h).1
      cases hl : a.latch with
      | true => exact hi.latched hl i hmem
      | false =>
        have hP := hi.unlatched hl
        have hall : a.allAtMax = true := by
          rcases hg with hg | hg
          · rw [hl] at hg; exact absurd hg (by simp)
          · exact hg
        rcases hmem with hm | hm
        · exact allAtMax_spec hall i hm
        · rw [hP] at hm; exact absurd hm (by simp)
    · intro h; exact absurd h (by simp)

theorem mem_children_indices {n k j : Nat} :
    j ∈ (List.range k).map (fun t => n + t) ↔ n ≤ j ∧ j < n + k := by
  simp only [List.mem_map, List.mem_range]
  constructor
  · rintro ⟨t, ht, rfl⟩; omega
  · rintro ⟨h1, h2⟩; exact ⟨j - n, by omega, by omega⟩

theorem nodup_children_indices (n k : Nat) : ((List.range k).map (fun t => n + t)).Nodup := by
  refine List.Nodup.map ?_ List.nodup_range
  intro x y h
  simp only at h
  omega

theorem evalRefine_inv {d : Nat} {a a' : Algo} {c : Nat} {vh : Bool} (hi : a.Inv d)
    (h : a.evalRefine c vh = some a') : a'.Inv d := by
  obtain ⟨hc, p, hp, hcase⟩ := evalRefine_cases h
  rcases hcase with ⟨_, rfl⟩ | ⟨hlt, _, sp, ch, hr, hcase⟩
  · exact ⟨hi.wf, hi.sLeaf, hi.pLeaf, hi.sNodup, hi.pNodup, hi.disj, hi.maxEq, hi.latched, hi.unlatched,
      hi.dLeaf, hi.dDisj, hi.account⟩
  · -- the latch cannot be set: the candidate would be at maximum depth
    have hnl : a.latch = false := by
      cases hl : a.latch with
      | false => rfl
      | true =>
        have := hi.latched hl c hc
        simp only [Space.depthAt, hp, Option.map_some, Option.some.injEq] at this
        rw [hi.maxEq] at this
        omega
    have hP := hi.unlatched hnl
    obtain ⟨p', hp', hs, hch⟩ := Space.refine_eq hr
    rw [hp] at hp'; cases hp'
    obtain ⟨hn, hrf, hm⟩ := refine_nodes hp hs
    have hci := lt_of_getElem?_some hp
    have hleaf' := refine_isLeaf (p := p) hi.wf.refinedLt hci hn hrf
    have hwf' := refine_wf hi.wf hr
    rcases hcase with ⟨hcS, rfl⟩ | ⟨_, hcP, _⟩
    · refine ⟨hwf', ?_, ?_, ?_, hi.pNodup, ?_, ?_, ?_, ?_, ?_, ?_, ?_⟩
      rotate_right 3
      · intro i hmem
        show sp.isLeaf i = true
        rw [hleaf']
        have hl := hi.dLeaf i hmem
        refine Or.inl ⟨((Space.isLeaf_iff _ _).mp hl).1, hl, ?_⟩
        rintro rfl; exact (hi.dDisj _ hmem).1 hcS
      · intro i hmem
        refine ⟨fun h' => ?_, (hi.dDisj i hmem).2⟩
        rcases List.mem_append.mp h' with h' | h'
        · exact (hi.dDisj i hmem).1 (List.mem_filter.mp h').1
        · rw [hch] at h'
          have := (mem_children_indices.mp h').1
          have := ((Space.isLeaf_iff _ _).mp (hi.dLeaf i hmem)).1
          omega
      · intro i hl
        have hl' : sp.isLeaf i = true := hl
        rw [hleaf'] at hl'
        rcases hl' with ⟨_, hl', hne⟩ | hnew
        · rcases hi.account i hl' with h | h | h
          · exact Or.inl (List.mem_append_left _ (List.mem_filter.mpr ⟨h, by simpa using hne⟩))
          · exact Or.inr (Or.inl h)
          · exact Or.inr (Or.inr h)
        · refine Or.inl (List.mem_append_right _ ?_)
          rw [hch]; exact mem_children_indices.mpr hnew
      · intro i hmem
        show sp.isLeaf i = true
        rw [hleaf']
        rcases List.mem_append.mp hmem with hmem | hmem
        · have h1 := List.mem_filter.mp hmem
          have hl := hi.sLeaf i h1.1
          exact Or.inl ⟨((Space.isLeaf_iff _ _).mp hl).1, hl, by simpa using h1.2⟩
        · rw [hch] at hmem
          exact Or.inr (mem_children_indices.mp hmem)
      · intro i hmem
        rw [hP] at hmem; exact absurd hmem (by simp)
      · refine List.nodup_append.mpr ⟨hi.sNodup.filter _, ?_, ?_⟩
        · rw [hch]; exact nodup_children_indices _ _
        · intro x hx y hy hxy
          subst hxy
          have h1 := ((Space.isLeaf_iff _ _).mp (hi.sLeaf x (List.mem_filter.mp hx).1)).1
          rw [hch] at hy
          have := (mem_children_indices.mp hy).1
          omega
      · intro i _ hmem
        rw [hP] at hmem; exact absurd hmem (by simp)
      · show a.maxDepth = sp.maxDepth
        rw [hs]; exact hi.maxEq
      · intro hl; rw [hnl] at hl; exact absurd hl (by simp)
      · intro _; exact hP
    · rw [hP] at hcP; exact absurd hcP (by simp)

theorem apply_inv {d : Nat} {a a' : Algo} {op : Op} (hi : a.Inv d) (h : a.apply op = some a') :
    a'.Inv d := by
  cases op with
  | update regs => exact modeling_inv regs hi h
  | discard D => exact discard_inv hi h
  | cover N => exact cover_inv hi h
  | evalRefine c vh => exact evalRefine_inv hi h
  | endRound =>
    simp only [Algo.apply, Option.some.injEq] at h
    subst h
    exact ⟨hi.wf, hi.sLeaf, hi.pLeaf, hi.sNodup, hi.pNodup, hi.disj, hi.maxEq, hi.latched, hi.unlatched,
      hi.dLeaf, hi.dDisj, hi.account⟩

/-- the candidate of a successful `evalRefine` on a state satisfying the invariant is a leaf -/
theorem evalRefine_space {d : Nat} {a a' : Algo} {c : Nat} {vh : Bool} (hi : a.Inv d)
    (h : a.evalRefine c vh = some a') :
    a'.space = a.space ∨
      ∃ p ch, a.space.nodes[c]? = some p ∧ p.depth < a.space.maxDepth ∧ a.space.isLeaf c = true ∧
        a.space.refine c = some (a'.space, ch) := by
  obtain ⟨hc, p, hp, hcase⟩ := evalRefine_cases h
  have hleaf : a.space.isLeaf c = true := hc.elim (hi.sLeaf c) (hi.pLeaf c)
  rcases hcase with ⟨_, rfl⟩ | ⟨hlt, _, sp, ch, hr, hcase⟩
  · exact Or.inl rfl
  · refine Or.inr ⟨p, ch, hp, hlt, hleaf, ?_⟩
    rcases hcase with ⟨_, rfl⟩ | ⟨_, _, rfl⟩ <;> exact hr

theorem apply_space {d : Nat} {P : Space → Prop} {a a' : Algo} {op : Op} (hi : a.Inv d)
    (hset : ∀ s s' i lo up, P s → s.setRegion i lo up = some s' → P s')
    (hrefine : ∀ s s' i ch p, P s → s.WF d → s.isLeaf i = true → s.nodes[i]? = some p →
      p.depth < s.maxDepth → s.refine i = some (s', ch) → P s')
    (hp : P a.space) (h : a.apply op = some a') : P a'.space := by
  cases op with
  | update regs => exact modeling_space hset regs hp h
  | discard D => obtain ⟨_, rfl⟩ := discard_cases h; exact hp
  | cover N =>
    have h2 := cover_cases h
    rcases h2 with ⟨_, _, rfl⟩ | ⟨_, _, rfl⟩ <;> exact hp
  | evalRefine c vh =>
    rcases evalRefine_space hi h with heq | ⟨p, ch, hpn, hlt, hleaf, hr⟩
    · rw [heq]; exact hp
    · exact hrefine _ _ _ _ _ hp hi.wf hleaf hpn hlt hr
  | endRound =>
    simp only [Algo.apply, Option.some.injEq] at h
    subst h; exact hp

/-- everything reachable by `Algo.run` from a state satisfying the invariants satisfies them -/
theorem run_inv {d : Nat} {P : Space → Prop}
    (hset : ∀ s s' i lo up, P s → s.setRegion i lo up = some s' → P s')
    (hrefine : ∀ s s' i ch p, P s → s.WF d → s.isLeaf i = true → s.nodes[i]? = some p →
      p.depth < s.maxDepth → s.refine i = some (s', ch) → P s') :
    ∀ (ops : List Op) {a a' : Algo}, a.Inv d → P a.space → a.run ops = some a' →
      a'.Inv d ∧ P a'.space
  | [], a, a', hi, hp, h => by
      simp only [Algo.run, Option.some.injEq] at h
      exact h ▸ ⟨hi, hp⟩
  | op :: ops, a, a', hi, hp, h => by
      simp only [Algo.run] at h
      cases ha : a.apply op with
      | none => simp [ha] at h
      | some a1 =>
        simp only [ha] at h
        exact run_inv hset hrefine ops (apply_inv hi ha) (apply_space hi hset hrefine hp ha) h

end VOPy.Adaptive
