import VOPyVerif.Proofs.ConeIce
/-!
# Helper lemmas for C12: vector (angle-free) form of the θ-cone membership, 3-D cone facts
-/
namespace VOPy.ConeFormulas
open VOPy VOPy.ConeOrd Real

/-- wedge `{ch·|v| ≤ sh·u}` = circular cone `{ch·‖(u,v)‖ ≤ u}` for `ch, sh > 0`, `ch² + sh² = 1` -/
theorem wedge_vec (ch sh u v : ℝ) (hc : 0 < ch) (hs : 0 < sh) (h1 : ch ^ 2 + sh ^ 2 = 1) :
    (0 ≤ ch * v + sh * u ∧ 0 ≤ -(ch * v) + sh * u) ↔ ch * √(u ^ 2 + v ^ 2) ≤ u := by
  have hX : 0 ≤ u ^ 2 + v ^ 2 := by positivity
  have hsq := Real.sq_sqrt hX
  have hsn := Real.sqrt_nonneg (u ^ 2 + v ^ 2)
  constructor
  · rintro ⟨a, b⟩
    have hu : 0 ≤ u := by
      have : 0 ≤ sh * u := by linarith
      exact nonneg_of_mul_nonneg_right this hs
    have hcv : (ch * v) ^ 2 ≤ (sh * u) ^ 2 := sq_le_sq' (by linarith) (by linarith)
    by_contra hlt
    have hlt' : u < ch * √(u ^ 2 + v ^ 2) := not_le.mp hlt
    have : u ^ 2 < (ch * √(u ^ 2 + v ^ 2)) ^ 2 := by
      apply sq_lt_sq' <;> nlinarith
    have e : (ch * √(u ^ 2 + v ^ 2)) ^ 2 = ch ^ 2 * (u ^ 2 + v ^ 2) := by rw [mul_pow, hsq]
    nlinarith
  · intro h
    have hu : 0 ≤ u := le_trans (mul_nonneg hc.le hsn) h
    have h2 : (ch * √(u ^ 2 + v ^ 2)) ^ 2 ≤ u ^ 2 := sq_le_sq' (by nlinarith) h
    have e : (ch * √(u ^ 2 + v ^ 2)) ^ 2 = ch ^ 2 * (u ^ 2 + v ^ 2) := by rw [mul_pow, hsq]
    have hcv : (ch * v) ^ 2 ≤ (sh * u) ^ 2 := by nlinarith
    have habs := abs_le_of_sq_le_sq' hcv (mul_nonneg hs.le hu)
    constructor <;> linarith [habs.1, habs.2]

/-- facet values of the closed form of `get_2d_w` in the diagonal frame `u = (x₁+x₂)/√2`, `v = (x₂−x₁)/√2` -/
theorem facet1_vec (h x1 x2 : ℝ) :
    gdot [-(sin (π / 4 - h)), cos (π / 4 - h)] [x1, x2]
      = cos h * (√2 / 2 * (x2 - x1)) + sin h * (√2 / 2 * (x1 + x2)) := by
  simp only [gdot_cons, gdot_nil_left, Real.sin_sub, Real.cos_sub, Real.sin_pi_div_four, Real.cos_pi_div_four]
  ring

theorem facet2_vec (h x1 x2 : ℝ) :
    gdot [sin (π / 4 + h), -(cos (π / 4 + h))] [x1, x2]
      = -(cos h * (√2 / 2 * (x2 - x1))) + sin h * (√2 / 2 * (x1 + x2)) := by
  simp only [gdot_cons, gdot_nil_left, Real.sin_add, Real.cos_add, Real.sin_pi_div_four, Real.cos_pi_div_four]
  ring

theorem diag_frame_norm (x1 x2 : ℝ) :
    (√2 / 2 * (x1 + x2)) ^ 2 + (√2 / 2 * (x2 - x1)) ^ 2 = x1 * x1 + x2 * x2 := by
  linear_combination ((x1 ^ 2 + x2 ^ 2) / 2) * sqrt2_mul_self

end VOPy.ConeFormulas
