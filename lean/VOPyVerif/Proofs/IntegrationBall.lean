import VOPyVerif.Proofs.IntegrationCore
import VOPyVerif.Props.C09
import VOPyVerif.Props.C10
/-!
# Integration, balls (PaVeBa): the computed oracles are sound — from C09 and C10

For `Core.ballDom` / `Core.ballCov` (the executable `is_dominated` with scalar slack `0` and
`is_covered` with a per-facet slack on balls `Σ = I`) the four facts `Core.pavebaCore_roundSound`
needs:

* `ballDom_sound`   — `ballDom W a b = true`, `x ∈ a`, `y ∈ b` ⇒ `y ≽ x`;
* `ballDom_trans`   — transitive through a non-empty middle ball;
* `ballDom_irrefl`  — a ball of positive radius does not dominate itself (cone with a non-zero row);
* `ballCov_sound`   — `ballCov W t a b = false`, `x ∈ a`, `y ∈ b` ⇒ `∃ n, w_n·(y − x) < t_n`.

The first three go through `C09.ell_isDominated_iff_posDef` at `Σ = I` (the executable answer is
`true` exactly when every real point of the second ball dominates every real point of the first);
the last one through `C10.ball_isCovered_iff` (the executable answer is `1` exactly when the two real
balls are coverable).  Rational points are real points, and an inequality between rationals holds in
`ℝ` iff it holds in `ℚ`.
-/
namespace VOPy.Core
open VOPy Matrix

variable {m N : ℕ}

/-! ### `Fin`-indexed views of list data -/

/-- the rational identity matrix as a function -/
def idQ (m : ℕ) : Fin m → Fin m → ℚ := fun i j => if i = j then 1 else 0

theorem identMat_eq_toMat (m : ℕ) : identMat m = toMat (idQ m) := by
  apply List.ext_getElem
  · simp [identMat, toMat]
  · intro i h1 h2
    apply List.ext_getElem
    · simp [identMat, toMat]
    · intro j h3 h4
      simp [identMat, toMat, idQ, Fin.ext_iff]

theorem of_idQ (m : ℕ) :
    (Matrix.of fun i j => ((idQ m i j : ℚ) : ℝ)) = (1 : Matrix (Fin m) (Fin m) ℝ) := by
  ext i j
  simp only [Matrix.of_apply, idQ, Matrix.one_apply]
  split_ifs <;> simp

theorem replicate_eq_toVec (n : ℕ) (x : ℚ) : List.replicate n x = toVec (fun _ : Fin n => x) := by
  simp [toVec, List.ofFn_const]

/-- `dominates` on `Fin`-indexed data -/
theorem dominates_toVec_iff (W : Fin N → Fin m → ℚ) (y x : Fin m → ℚ) :
    dominates (toMat W) (toVec y) (toVec x) = true ↔ ∀ n, 0 ≤ ∑ i, W n i * (y i - x i) := by
  rw [dominates_iff]
  constructor
  · intro h n
    have := h (toVec (W n)) (mem_toMat.2 ⟨n, rfl⟩)
    rwa [vsub_toVec, dot_toVec] at this
  · intro h w hw
    obtain ⟨n, rfl⟩ := mem_toMat.1 hw
    rw [vsub_toVec, dot_toVec]
    exact h n

/-! ### real balls and the semantic domination predicate of C09 at `Σ = I` -/

theorem mem_ellQ_one (c z : Fin m → ℝ) (a : ℝ) :
    z ∈ Ellipsoid.EllQ c 1 a ↔ 0 ≤ a ∧ ∑ i, (z i - c i) ^ 2 ≤ a ^ 2 := by
  simp only [Ellipsoid.EllQ, Set.mem_ofPred_eq, inv_one, Matrix.one_mulVec, dotProduct, Pi.sub_apply]
  constructor
  · rintro ⟨h1, h2⟩
    refine ⟨h1, ?_⟩
    calc ∑ i, (z i - c i) ^ 2 = ∑ i, (z i - c i) * (z i - c i) := by
          apply Finset.sum_congr rfl; intro i _; ring
      _ ≤ a ^ 2 := h2
  · rintro ⟨h1, h2⟩
    refine ⟨h1, ?_⟩
    calc ∑ i, (z i - c i) * (z i - c i) = ∑ i, (z i - c i) ^ 2 := by
          apply Finset.sum_congr rfl; intro i _; ring
      _ ≤ a ^ 2 := h2

/-- "every real point of `B(c₂,a₂)` dominates every real point of `B(c₁,a₁)`" (C09's `DominatedQ`
at `Σ = I`, zero slack) -/
def BallDominated (W : Fin N → Fin m → ℚ) (c1 : Fin m → ℚ) (a1 : ℚ) (c2 : Fin m → ℚ) (a2 : ℚ) : Prop :=
  Ellipsoid.DominatedQ W c1 1 a1 c2 1 a2 (fun _ => 0)

/-- **C09 at `Σ = I`**: the executable ball domination test decides `BallDominated`. -/
theorem isDominated_ball_iff (W : Fin N → Fin m → ℚ) (c1 c2 : Fin m → ℚ) (a1 a2 : ℚ) :
    Ellipsoid.isDominated (toMat W) (toVec c1) (identMat m) a1 (toVec c2) (identMat m) a2
      (List.replicate N 0) = true ↔ BallDominated W c1 a1 c2 a2 := by
  have hpd : (Matrix.of fun i j => ((idQ m i j : ℚ) : ℝ)).PosDef := by
    rw [of_idQ]; exact Matrix.PosDef.one
  have h := VOPy.C09.ell_isDominated_iff_posDef W c1 c2 (idQ m) (idQ m) a1 a2 (fun _ => 0) hpd hpd
  rw [of_idQ] at h
  rw [identMat_eq_toMat, replicate_eq_toVec]
  exact h

/-- a rational point of a rational ball, as a real point -/
theorem cast_mem_ball (c x : Fin m → ℚ) (a : ℚ) (ha : 0 ≤ a) (hx : ∑ i, (x i - c i) ^ 2 ≤ a ^ 2) :
    Ellipsoid.castVec x ∈ Ellipsoid.EllQ (Ellipsoid.castVec c) 1 (a : ℝ) := by
  rw [mem_ellQ_one]
  refine ⟨by exact_mod_cast ha, ?_⟩
  have : ((∑ i, (x i - c i) ^ 2 : ℚ) : ℝ) ≤ ((a ^ 2 : ℚ) : ℝ) := by exact_mod_cast hx
  push_cast at this
  exact this

theorem ballDominated_sound (W : Fin N → Fin m → ℚ) (c1 c2 : Fin m → ℚ) (a1 a2 : ℚ)
    (h : BallDominated W c1 a1 c2 a2) (x y : Fin m → ℚ)
    (ha1 : 0 ≤ a1) (hx : ∑ i, (x i - c1 i) ^ 2 ≤ a1 ^ 2)
    (ha2 : 0 ≤ a2) (hy : ∑ i, (y i - c2 i) ^ 2 ≤ a2 ^ 2) :
    ∀ n, 0 ≤ ∑ i, W n i * (y i - x i) := by
  intro n
  have := h _ (cast_mem_ball c1 x a1 ha1 hx) _ (cast_mem_ball c2 y a2 ha2 hy) n
  simp only [dotProduct, Pi.sub_apply, Rat.cast_zero, neg_zero] at this
  have h2 : (0 : ℝ) ≤ ((∑ i, W n i * (y i - x i) : ℚ) : ℝ) := by
    push_cast
    exact this
  exact_mod_cast h2

theorem ballDominated_trans (W : Fin N → Fin m → ℚ) (c1 c2 c3 : Fin m → ℚ) (a1 a2 a3 : ℚ)
    (ha2 : 0 ≤ a2) (h12 : BallDominated W c1 a1 c2 a2) (h23 : BallDominated W c2 a2 c3 a3) :
    BallDominated W c1 a1 c3 a3 := by
  intro z hz z'' hz'' n
  have hc : Ellipsoid.castVec c2 ∈ Ellipsoid.EllQ (Ellipsoid.castVec c2) 1 (a2 : ℝ) :=
    cast_mem_ball c2 c2 a2 ha2 (by simp; positivity)
  have e1 := h12 z hz _ hc n
  have e2 := h23 _ hc z'' hz'' n
  simp only [Rat.cast_zero, neg_zero, dotProduct, Pi.sub_apply] at e1 e2 ⊢
  have : ∑ i, Ellipsoid.castVec (W n) i * (z'' i - z i) =
      ∑ i, Ellipsoid.castVec (W n) i * (Ellipsoid.castVec c2 i - z i) +
      ∑ i, Ellipsoid.castVec (W n) i * (z'' i - Ellipsoid.castVec c2 i) := by
    rw [← Finset.sum_add_distrib]
    apply Finset.sum_congr rfl
    intro i _; ring
  rw [this]
  exact add_nonneg e1 e2

/-- a ball of positive radius does not dominate itself if some facet row is non-zero -/
theorem ballDominated_irrefl (W : Fin N → Fin m → ℚ) (c : Fin m → ℚ) (a : ℚ) (ha : 0 < a)
    (n : Fin N) (hn : ∃ i, W n i ≠ 0) : ¬ BallDominated W c a c a := by
  intro h
  have haR : (0 : ℝ) < (a : ℝ) := by exact_mod_cast ha
  set w : Fin m → ℝ := Ellipsoid.castVec (W n) with hw
  set s : ℝ := ∑ i, w i ^ 2 with hs
  have hspos : 0 < s := by
    obtain ⟨i, hi⟩ := hn
    apply Finset.sum_pos'
    · intro j _; positivity
    · refine ⟨i, Finset.mem_univ i, ?_⟩
      have : w i ≠ 0 := by simp [hw, Ellipsoid.castVec, hi]
      positivity
  set k : ℝ := 1 + s with hk
  have hkpos : 0 < k := by positivity
  set r : ℝ := (a : ℝ) / k with hr
  have hrpos : 0 < r := by positivity
  have hr2 : r ^ 2 * s ≤ (a : ℝ) ^ 2 := by
    rw [hr, div_pow, div_mul_eq_mul_div, div_le_iff₀ (by positivity)]
    nlinarith [mul_nonneg (sq_nonneg (a : ℝ)) (show (0 : ℝ) ≤ 1 + s + s ^ 2 by positivity)]
  have hz : (fun i => Ellipsoid.castVec c i + r * w i) ∈ Ellipsoid.EllQ (Ellipsoid.castVec c) 1 (a : ℝ) := by
    rw [mem_ellQ_one]
    refine ⟨le_of_lt haR, ?_⟩
    calc ∑ i, (Ellipsoid.castVec c i + r * w i - Ellipsoid.castVec c i) ^ 2
        = r ^ 2 * s := by
          rw [hs, Finset.mul_sum]; apply Finset.sum_congr rfl; intro i _; ring
      _ ≤ (a : ℝ) ^ 2 := hr2
  have hz' : (fun i => Ellipsoid.castVec c i - r * w i) ∈ Ellipsoid.EllQ (Ellipsoid.castVec c) 1 (a : ℝ) := by
    rw [mem_ellQ_one]
    refine ⟨le_of_lt haR, ?_⟩
    calc ∑ i, (Ellipsoid.castVec c i - r * w i - Ellipsoid.castVec c i) ^ 2
        = r ^ 2 * s := by
          rw [hs, Finset.mul_sum]; apply Finset.sum_congr rfl; intro i _; ring
      _ ≤ (a : ℝ) ^ 2 := hr2
  have := h _ hz _ hz' n
  simp only [Rat.cast_zero, neg_zero, dotProduct, Pi.sub_apply] at this
  have e : ∑ i, Ellipsoid.castVec (W n) i *
      (Ellipsoid.castVec c i - r * w i - (Ellipsoid.castVec c i + r * w i)) = -(2 * r * s) := by
    rw [hs, Finset.mul_sum, ← Finset.sum_neg_distrib]
    apply Finset.sum_congr rfl
    intro i _
    simp only [hw]
    ring
  rw [e] at this
  nlinarith [mul_pos hrpos hspos]

/-! ### list level: the computed oracles of `Core.lean` -/

theorem ballDom_eq (W : Mat) (b1 b2 : Ball) :
    ballDom W b1 b2 = Ellipsoid.isDominated W b1.c (identMat b1.c.length) b1.a
      b2.c (identMat b2.c.length) b2.a (List.replicate W.length 0) := by
  simp [ballDom, Ellipsoid.isDominatedChecked, Ellipsoid.expandSlack]

/-- membership of a rational point in a rational ball, coordinate-wise -/
theorem ball_mem_toVec_iff (c x : Fin m → ℚ) (a : ℚ) :
    Ball.mem ⟨toVec c, a⟩ (toVec x) = true ↔ 0 ≤ a ∧ ∑ i, (x i - c i) ^ 2 ≤ a ^ 2 := by
  simp only [Ball.mem, Bool.and_eq_true, decide_eq_true_eq, toVec_length, normSq, vsub_toVec,
    dot_toVec, and_true]
  have e : ∑ i, (x i - c i) * (x i - c i) = ∑ i, (x i - c i) ^ 2 := by
    apply Finset.sum_congr rfl; intro i _; ring
  rw [e, sq a]

theorem Ball.mem_length {b : Ball} {x : Vec} (h : b.mem x = true) : x.length = b.c.length := by
  simp only [Ball.mem, Bool.and_eq_true, decide_eq_true_eq] at h
  exact h.1.2

/-- **`ballDom` is sound.**  If the executable domination test answers `true` for two balls of
dimension `m` (cone rows of `m` entries), every rational point of the second dominates every rational
point of the first. -/
theorem ballDom_sound (W : Mat) (m : ℕ) (hW : ∀ w ∈ W, w.length = m) (a b : Ball) (x y : Vec)
    (ha : a.c.length = m) (hb : b.c.length = m)
    (hx : a.mem x = true) (hy : b.mem y = true) (h : ballDom W a b = true) :
    dominates W y x = true := by
  have hxl := Ball.mem_length hx
  have hyl := Ball.mem_length hy
  rcases a with ⟨ca, ra⟩
  rcases b with ⟨cb, rb⟩
  simp only at ha hb hxl hyl
  obtain ⟨N, hN⟩ : ∃ N, W.length = N := ⟨_, rfl⟩
  obtain ⟨W', rfl⟩ := VOPy.C09.mat_wellformed W hN hW
  obtain ⟨ca', rfl⟩ := VOPy.C09.vec_wellformed ca ha
  obtain ⟨cb', rfl⟩ := VOPy.C09.vec_wellformed cb hb
  obtain ⟨x', rfl⟩ := VOPy.C09.vec_wellformed x (hxl.trans ha)
  obtain ⟨y', rfl⟩ := VOPy.C09.vec_wellformed y (hyl.trans hb)
  rw [ballDom_eq] at h
  simp only [toVec_length, toMat_length] at h
  rw [isDominated_ball_iff] at h
  rw [ball_mem_toVec_iff] at hx hy
  rw [dominates_toVec_iff]
  exact ballDominated_sound W' ca' cb' ra rb h x' y' hx.1 hx.2 hy.1 hy.2

/-- **`ballDom` is transitive** through a non-empty middle ball. -/
theorem ballDom_trans (W : Mat) (m : ℕ) (hW : ∀ w ∈ W, w.length = m) (a b c : Ball)
    (ha : a.c.length = m) (hb : b.c.length = m) (hc : c.c.length = m) (hbr : 0 ≤ b.a)
    (h1 : ballDom W a b = true) (h2 : ballDom W b c = true) : ballDom W a c = true := by
  rcases a with ⟨ca, ra⟩
  rcases b with ⟨cb, rb⟩
  rcases c with ⟨cc, rc⟩
  simp only at ha hb hc hbr
  obtain ⟨N, hN⟩ : ∃ N, W.length = N := ⟨_, rfl⟩
  obtain ⟨W', rfl⟩ := VOPy.C09.mat_wellformed W hN hW
  obtain ⟨ca', rfl⟩ := VOPy.C09.vec_wellformed ca ha
  obtain ⟨cb', rfl⟩ := VOPy.C09.vec_wellformed cb hb
  obtain ⟨cc', rfl⟩ := VOPy.C09.vec_wellformed cc hc
  rw [ballDom_eq] at h1 h2 ⊢
  simp only [toVec_length, toMat_length] at h1 h2 ⊢
  rw [isDominated_ball_iff] at h1 h2 ⊢
  exact ballDominated_trans W' ca' cb' cc' ra rb rc hbr h1 h2

/-- **`ballDom` is irreflexive** on balls of positive radius, for a cone with a non-zero row. -/
theorem ballDom_irrefl (W : Mat) (m : ℕ) (hW : ∀ w ∈ W, w.length = m)
    (hWne : ∃ w ∈ W, ∃ x ∈ w, x ≠ 0) (a : Ball) (ha : a.c.length = m) (hr : 0 < a.a) :
    ballDom W a a = false := by
  rcases a with ⟨ca, ra⟩
  simp only at ha hr
  obtain ⟨N, hN⟩ : ∃ N, W.length = N := ⟨_, rfl⟩
  obtain ⟨W', rfl⟩ := VOPy.C09.mat_wellformed W hN hW
  obtain ⟨ca', rfl⟩ := VOPy.C09.vec_wellformed ca ha
  obtain ⟨w, hw, x, hx, hx0⟩ := hWne
  obtain ⟨n, rfl⟩ := mem_toMat.1 hw
  have hn : ∃ i, W' n i ≠ 0 := by
    simp only [toVec, List.mem_ofFn] at hx
    obtain ⟨i, rfl⟩ := hx
    exact ⟨i, hx0⟩
  rw [Bool.eq_false_iff]
  intro h
  rw [ballDom_eq] at h
  simp only [toVec_length, toMat_length] at h
  rw [isDominated_ball_iff] at h
  exact ballDominated_irrefl W' ca' ra hr n hn h

/-! ### covering -/

open VOPy.LinCert VOPy.Covered in
/-- `FacetGe` at a rational difference vector, index-wise -/
theorem facetGe_castV : ∀ (W : Mat) (d t : Vec), W.length = t.length →
    (∀ n, ∀ h1 : n < W.length, ∀ h2 : n < t.length, t[n] ≤ dot W[n] d) →
    FacetGe W (castV d) t
  | [], _, [], _, _ => by simp [FacetGe]
  | [], _, _ :: _, h, _ => by simp at h
  | _ :: _, _, [], h, _ => by simp at h
  | w :: W, d, t :: ts, h, hall => by
    simp only [FacetGe]
    constructor
    · have := hall 0 (by simp) (by simp)
      simp only [List.getElem_cons_zero] at this
      rw [← cast_dot]
      exact_mod_cast this
    · apply facetGe_castV W d ts (by simpa using h)
      intro n h1 h2
      have := hall (n + 1) (by simp; omega) (by simp; omega)
      simpa using this

open VOPy.Covered in
theorem expandSlack_self (k : ℕ) (s : Vec) (h : s.length = k) : expandSlack k s = some s := by
  unfold expandSlack
  split
  · rename_i x
    have : k = 1 := by simpa using h.symm
    subst this
    rfl
  · simp [h]

open VOPy.LinCert VOPy.Covered in
/-- a rational point of a rational ball is a point of the real ball of C10 -/
theorem castV_mem_ball (b : Ball) (x : Vec) (h : b.mem x = true) : castV x ∈ ball b.c b.a := by
  simp only [Ball.mem, Bool.and_eq_true, decide_eq_true_eq] at h
  obtain ⟨⟨h1, h2⟩, h3⟩ := h
  refine ⟨h1, by simp [h2], ?_⟩
  rw [← castV_vsub, ← cast_normSq]
  have : ((normSq (vsub x b.c) : ℚ) : ℝ) ≤ ((b.a * b.a : ℚ) : ℝ) := by exact_mod_cast h3
  push_cast at this
  rw [sq]
  exact this

open VOPy.LinCert VOPy.Covered in
/-- **`ballCov` is sound.**  If the executable covering test (per-facet slack `t`, one entry per
facet) does not answer `1` for two balls with radii `≥ 0` of one dimension, then for any rational
points `x`, `y` of the two balls some facet has `w_n·(y − x) < t_n`. -/
theorem ballCov_sound (W : Mat) (m : ℕ) (hW : ∀ w ∈ W, w.length = m) (t : Vec)
    (ht : t.length = W.length) (a b : Ball) (x y : Vec)
    (ha : a.c.length = m) (hb : b.c.length = m) (har : 0 ≤ a.a) (hbr : 0 ≤ b.a)
    (hx : a.mem x = true) (hy : b.mem y = true) (h : ballCov W t a b = false) :
    Accuracy.notCovers W t x y = true := by
  by_contra hnc
  rw [Bool.not_eq_true] at hnc
  have hxl := Ball.mem_length hx
  have hyl := Ball.mem_length hy
  have hyes : ballIsCovered W a.c a.a b.c b.a t = some Verdict.yes := by
    apply (VOPy.C10.ball_isCovered_iff W a.c b.c t a.a b.a har hbr (hb.trans ha.symm)
      (fun w hw => (hW w hw).trans ha.symm)).1.2
    refine ⟨t, expandSlack_self _ _ ht, castV x, castV_mem_ball a x hx, castV y, castV_mem_ball b y hy, ?_⟩
    rw [← castV_vsub]
    apply facetGe_castV W _ t ht.symm
    intro n h1 h2
    by_contra hlt
    rw [not_le] at hlt
    have : Accuracy.notCovers W t x y = true :=
      (Accuracy.notCovers_iff W t x y).2 ⟨n, h1, h2, hlt⟩
    rw [hnc] at this
    exact absurd this (by simp)
  simp [ballCov, hyes] at h

end VOPy.Core
