import VOPyVerif.Proofs.AccuracySets
import VOPyVerif.Proofs.ConeOrder
/-!
# The rounds of `Steps.lean` only consult their oracles on the designs they hold

Congruence lemmas: if two families of oracles agree on the designs `0 … K-1`, the whole trajectories
`(S, P, U)` of `Accuracy.pavebaRun` / `vogpRun` are identical — the statement behind the harness's
`translation_twin_check` (a translated twin run whose geometry oracles are translation invariant must
visit exactly the same sets).  For Auer, whose oracles are computed inside `Steps.lean` from centres
and widths, the invariance under a common translation of the centres is proved outright.
-/
namespace VOPy.Accuracy
open VOPy VOPy.Steps

/-! ### generic pieces -/

theorem anyOther_congr {t t' : Nat → Bool} {i : Nat} {A : List Nat} (h : ∀ j ∈ A, t' j = t j) :
    anyOther t' i A = anyOther t i A := by
  induction A with
  | nil => rfl
  | cons a A ih =>
    have ih' := ih (fun j hj => h j (by simp [hj]))
    simp only [anyOther, h a (by simp), ih']

theorem removeAll_subset (rm : List Nat) : ∀ (S : List Nat) (x : Nat), x ∈ removeAll S rm → x ∈ S := by
  induction rm with
  | nil => intro S x h; simpa [removeAll] using h
  | cons a rm ih =>
    intro S x h
    have h1 : removeAll S (a :: rm) = removeAll (S.erase a) rm := by simp [removeAll]
    rw [h1] at h
    exact List.mem_of_mem_erase (ih _ x h)

/-! ### PaVeBa family -/

theorem pavebaToDiscard_congr {dom dom' : Rel} {S U : List Nat}
    (h : ∀ i ∈ S, ∀ j, (j ∈ S ∨ j ∈ U) → dom' i j = dom i j) :
    pavebaToDiscard dom' S U = pavebaToDiscard dom S U := by
  unfold pavebaToDiscard
  apply List.filter_congr
  intro i hi
  exact anyOther_congr (fun j hj => h i hi j (mem_union.mp hj))

theorem pavebaNewPareto_congr {cov cov' : Rel} {S U : List Nat}
    (h : ∀ i ∈ S, ∀ j, (j ∈ S ∨ j ∈ U) → cov' i j = cov i j) :
    pavebaNewPareto cov' S U = pavebaNewPareto cov S U := by
  unfold pavebaNewPareto
  apply List.filter_congr
  intro i hi
  rw [anyOther_congr (fun j hj => h i hi j (mem_union.mp hj))]

theorem pavebaUseful_congr {cov cov' : Rel} {S P : List Nat}
    (h : ∀ s ∈ S, ∀ p ∈ P, cov' s p = cov s p) : pavebaUseful cov' S P = pavebaUseful cov S P := by
  unfold pavebaUseful
  apply List.filter_congr
  intro p hp
  rw [List.any_eq, List.any_eq, decide_eq_decide]
  constructor
  · rintro ⟨s, hs, hc⟩; exact ⟨s, hs, by rwa [h s hs p hp] at hc⟩
  · rintro ⟨s, hs, hc⟩; exact ⟨s, hs, by rwa [h s hs p hp]⟩

/-- members of the state after a PaVeBa round were members before -/
theorem pavebaRound_subset (dom cov : Rel) (S P U : List Nat) (x : Nat)
    (hx : x ∈ (pavebaRound dom cov S P U).1 ∨ x ∈ (pavebaRound dom cov S P U).2.1 ∨
      x ∈ (pavebaRound dom cov S P U).2.2) : x ∈ S ∨ x ∈ P := by
  have hS1 : ∀ y, y ∈ pavebaDiscard dom S U → y ∈ S := fun y hy => removeAll_subset _ _ _ hy
  have hS2 : ∀ y, y ∈ (pavebaRound dom cov S P U).1 → y ∈ S := by
    intro y hy
    exact hS1 y (removeAll_subset _ _ _ hy)
  have hP2 : ∀ y, y ∈ (pavebaRound dom cov S P U).2.1 → y ∈ S ∨ y ∈ P := by
    intro y hy
    have : y ∈ addAll P (pavebaNewPareto cov (pavebaDiscard dom S U) U) := hy
    rcases mem_addAll.mp this with h | h
    · exact Or.inr h
    · exact Or.inl (hS1 y (List.mem_filter.mp h).1)
  rcases hx with h | h | h
  · exact Or.inl (hS2 x h)
  · exact hP2 x h
  · have : x ∈ pavebaUseful cov (pavebaRound dom cov S P U).1 (pavebaRound dom cov S P U).2.1 := h
    exact hP2 x (List.mem_filter.mp this).1

/-- **One PaVeBa round consults its oracles only on `S ∪ P ∪ U`.** -/
theorem pavebaRound_congr {dom dom' cov cov' : Rel} {S P U : List Nat}
    (h : ∀ i j, (i ∈ S ∨ i ∈ P ∨ i ∈ U) → (j ∈ S ∨ j ∈ P ∨ j ∈ U) →
      dom' i j = dom i j ∧ cov' i j = cov i j) :
    pavebaRound dom' cov' S P U = pavebaRound dom cov S P U := by
  have hS1 : ∀ y, y ∈ pavebaDiscard dom S U → y ∈ S := fun y hy => removeAll_subset _ _ _ hy
  have e1 : pavebaDiscard dom' S U = pavebaDiscard dom S U := by
    unfold pavebaDiscard
    rw [pavebaToDiscard_congr (fun i hi j hj =>
      (h i j (Or.inl hi) (hj.elim Or.inl (fun hu => Or.inr (Or.inr hu)))).1)]
  have e2 : pavebaNewPareto cov' (pavebaDiscard dom S U) U = pavebaNewPareto cov (pavebaDiscard dom S U) U :=
    pavebaNewPareto_congr (fun i hi j hj =>
      (h i j (Or.inl (hS1 i hi)) (hj.elim (fun hs => Or.inl (hS1 j hs)) (fun hu => Or.inr (Or.inr hu)))).2)
  simp only [pavebaRound, pavebaPareto, e1, e2]
  congr 2
  apply pavebaUseful_congr
  intro s hs p hp
  have hsS : s ∈ S := hS1 s (removeAll_subset _ _ _ hs)
  have hpSP : p ∈ S ∨ p ∈ P := by
    rcases mem_addAll.mp hp with h' | h'
    · exact Or.inr h'
    · exact Or.inl (hS1 p (List.mem_filter.mp h').1)
  exact (h s p (Or.inl hsS) (hpSP.elim Or.inl (fun hp' => Or.inr (Or.inl hp')))).2

theorem pavebaRun_lt (K : Nat) (isDom isCov : Nat → Rel) : ∀ t x,
    (x ∈ (pavebaRun K isDom isCov t).1 ∨ x ∈ (pavebaRun K isDom isCov t).2.1 ∨
      x ∈ (pavebaRun K isDom isCov t).2.2) → x < K := by
  intro t
  induction t with
  | zero =>
    intro x hx
    simp only [pavebaRun, List.mem_range, List.not_mem_nil, or_false] at hx
    exact hx
  | succ t ih =>
    intro x hx
    have := pavebaRound_subset (isDom t) (isCov t) _ _ _ x hx
    exact ih x (this.elim Or.inl (fun h => Or.inr (Or.inl h)))

/-- **Twin runs of the PaVeBa family.**  If two families of oracles agree on the designs `< K` in every
round `< T`, the trajectories `(S, P, U)` coincide up to round `T`. -/
theorem pavebaRun_congr (K : Nat) (isDom isDom' isCov isCov' : Nat → Rel) (T : Nat)
    (h : ∀ r, r < T → ∀ i, i < K → ∀ j, j < K →
      isDom' r i j = isDom r i j ∧ isCov' r i j = isCov r i j) :
    ∀ t, t ≤ T → pavebaRun K isDom' isCov' t = pavebaRun K isDom isCov t := by
  intro t
  induction t with
  | zero => intro _; rfl
  | succ t ih =>
    intro ht
    have e := ih (Nat.le_of_succ_le ht)
    simp only [pavebaRun, e]
    apply pavebaRound_congr
    intro i j hi hj
    exact h t (Nat.lt_of_succ_le ht) i (pavebaRun_lt K isDom isCov t i hi) j
      (pavebaRun_lt K isDom isCov t j hj)

/-! ### VOGP / ε-PAL -/

theorem pessimisticSet_congr {pd pd' : Rel} {S P : List Nat}
    (h : ∀ i j, (i ∈ S ∨ i ∈ P) → (j ∈ S ∨ j ∈ P) → pd' j i = pd j i) :
    pessimisticSet pd' S P = pessimisticSet pd S P := by
  unfold pessimisticSet
  apply List.filter_congr
  intro i hi
  rw [anyOther_congr (fun j hj => h i j (mem_union.mp hi) (mem_union.mp hj))]

theorem pessimisticSet_subset (pd : Rel) (S P : List Nat) (x : Nat) (hx : x ∈ pessimisticSet pd S P) :
    x ∈ S ∨ x ∈ P :=
  mem_union.mp (List.mem_filter.mp hx).1

theorem vogpRound_subset (dom cov pd : Rel) (S P : List Nat) (x : Nat)
    (hx : x ∈ (vogpRound dom cov pd S P).1 ∨ x ∈ (vogpRound dom cov pd S P).2) : x ∈ S ∨ x ∈ P := by
  have hS1 : ∀ y, y ∈ vogpDiscard dom pd S P → y ∈ S := fun y hy => removeAll_subset _ _ _ hy
  rcases hx with h | h
  · exact Or.inl (hS1 x (removeAll_subset _ _ _ h))
  · have : x ∈ addAll P (coverNew cov (vogpDiscard dom pd S P) P) := h
    rcases mem_addAll.mp this with h' | h'
    · exact Or.inr h'
    · exact Or.inl (hS1 x (List.mem_filter.mp h').1)

/-- **One VOGP / ε-PAL round consults its three oracles only on `S ∪ P`.** -/
theorem vogpRound_congr {dom dom' cov cov' pd pd' : Rel} {S P : List Nat}
    (h : ∀ i j, (i ∈ S ∨ i ∈ P) → (j ∈ S ∨ j ∈ P) →
      dom' i j = dom i j ∧ cov' i j = cov i j ∧ pd' i j = pd i j) :
    vogpRound dom' cov' pd' S P = vogpRound dom cov pd S P := by
  have ep : pessimisticSet pd' S P = pessimisticSet pd S P :=
    pessimisticSet_congr (fun i j hi hj => (h j i hj hi).2.2)
  have e1 : vogpDiscard dom' pd' S P = vogpDiscard dom pd S P := by
    unfold vogpDiscard vogpToDiscard
    rw [ep]
    congr 1
    apply List.filter_congr
    intro i hi
    have hiS : i ∈ S := (List.mem_filter.mp hi).1
    rw [List.any_eq, List.any_eq, decide_eq_decide]
    constructor
    · rintro ⟨j, hj, hc⟩
      exact ⟨j, hj, by rwa [(h i j (Or.inl hiS) (pessimisticSet_subset pd S P j hj)).1] at hc⟩
    · rintro ⟨j, hj, hc⟩
      exact ⟨j, hj, by rwa [(h i j (Or.inl hiS) (pessimisticSet_subset pd S P j hj)).1]⟩
  have hS1 : ∀ y, y ∈ vogpDiscard dom pd S P → y ∈ S := fun y hy => removeAll_subset _ _ _ hy
  have e2 : coverNew cov' (vogpDiscard dom pd S P) P = coverNew cov (vogpDiscard dom pd S P) P := by
    unfold coverNew
    apply List.filter_congr
    intro i hi
    rw [anyOther_congr (fun j hj => (h i j (Or.inl (hS1 i hi))
      ((mem_union.mp hj).elim (fun hs => Or.inl (hS1 j hs)) Or.inr)).2.1)]
  simp only [vogpRound, epsilonCovering, e1, e2]

theorem vogpRun_lt (K : Nat) (isDom isCov pd : Nat → Rel) : ∀ t x,
    (x ∈ (vogpRun K isDom isCov pd t).1 ∨ x ∈ (vogpRun K isDom isCov pd t).2) → x < K := by
  intro t
  induction t with
  | zero =>
    intro x hx
    simp only [vogpRun, List.mem_range, List.not_mem_nil, or_false] at hx
    exact hx
  | succ t ih =>
    intro x hx
    exact ih x (vogpRound_subset (isDom t) (isCov t) (pd t) _ _ x hx)

/-- **Twin runs of VOGP / ε-PAL.** -/
theorem vogpRun_congr (K : Nat) (isDom isDom' isCov isCov' pd pd' : Nat → Rel) (T : Nat)
    (h : ∀ r, r < T → ∀ i, i < K → ∀ j, j < K →
      isDom' r i j = isDom r i j ∧ isCov' r i j = isCov r i j ∧ pd' r i j = pd r i j) :
    ∀ t, t ≤ T → vogpRun K isDom' isCov' pd' t = vogpRun K isDom isCov pd t := by
  intro t
  induction t with
  | zero => intro _; rfl
  | succ t ih =>
    intro ht
    have e := ih (Nat.le_of_succ_le ht)
    simp only [vogpRun, e]
    apply vogpRound_congr
    intro i j hi hj
    exact h t (Nat.lt_of_succ_le ht) i (vogpRun_lt K isDom isCov pd t i hi) j
      (vogpRun_lt K isDom isCov pd t j hj)

/-! ### Auer: the rules see differences of centres only -/

theorem anyOtherP_congr {t t' : Nat × Vec → Bool} {i : Nat} {A : List (Nat × Vec)}
    (h : ∀ q ∈ A, t' q = t q) : anyOtherP t' i A = anyOtherP t i A := by
  induction A with
  | nil => rfl
  | cons a A ih =>
    have ih' := ih (fun q hq => h q (by simp [hq]))
    simp only [anyOtherP, h a (by simp), ih']

theorem auerRound_congr (eps : Rat) (c c' : Nat → Vec) (width : Nat → Vec) (S P : List Nat)
    (h : ∀ i ∈ S, ∀ j ∈ S, smallM (c' i) (c' j) = smallM (c i) (c j) ∧
      bigM eps (c' i) (c' j) = bigM eps (c i) (c j)) :
    auerRound eps c' width S P = auerRound eps c width S P := by
  have hmem : ∀ (S0 : List Nat), ∀ p ∈ byDesign width S0, p.1 ∈ S0 := by
    intro S0 p hp
    simp only [byDesign, List.mem_map] at hp
    obtain ⟨i, hi, rfl⟩ := hp
    exact hi
  have e1 : auerDiscard c' width S = auerDiscard c width S := by
    unfold auerDiscard auerToDiscardCore
    congr 2
    apply List.filter_congr
    intro p hp
    apply anyOtherP_congr
    intro q hq
    simp only [auerDomCert, (h p.1 (hmem S p hp) q.1 (hmem S q hq)).1]
  have hS1 : ∀ y, y ∈ auerDiscard c width S → y ∈ S := fun y hy => removeAll_subset _ _ _ hy
  have e2 : auerNewParetoCore eps c' (byDesign width (auerDiscard c width S)) =
      auerNewParetoCore eps c (byDesign width (auerDiscard c width S)) := by
    have hP1 : auerP1Core eps c' (byDesign width (auerDiscard c width S)) =
        auerP1Core eps c (byDesign width (auerDiscard c width S)) := by
      unfold auerP1Core
      apply List.filter_congr
      intro p hp
      rw [anyOtherP_congr]
      intro q hq
      simp only [(h p.1 (hS1 _ (hmem _ p hp)) q.1 (hS1 _ (hmem _ q hq))).2]
    unfold auerNewParetoCore
    simp only [hP1]
    congr 1
    apply List.filter_congr
    intro p hp
    have hp' : p ∈ byDesign width (auerDiscard c width S) := (List.mem_filter.mp hp).1
    rw [List.any_eq, List.any_eq]
    congr 1
    rw [decide_eq_decide]
    constructor
    · rintro ⟨q, hq, hc⟩
      refine ⟨q, hq, ?_⟩
      rwa [(h q.1 (hS1 _ (hmem _ q hq)) p.1 (hS1 _ (hmem _ p hp'))).2] at hc
    · rintro ⟨q, hq, hc⟩
      refine ⟨q, hq, ?_⟩
      rwa [(h q.1 (hS1 _ (hmem _ q hq)) p.1 (hS1 _ (hmem _ p hp'))).2]
  simp only [auerRound, auerPareto, e1, e2]

theorem auerRound_subset (eps : Rat) (c width : Nat → Vec) (S P : List Nat) (x : Nat)
    (hx : x ∈ (auerRound eps c width S P).1) : x ∈ S :=
  removeAll_subset _ _ _ (removeAll_subset _ _ _ hx)

theorem auerRun_lt (K : Nat) (eps : Rat) (centre width : Nat → Nat → Vec) : ∀ t x,
    x ∈ (auerRun K eps centre width t).1 → x < K := by
  intro t
  induction t with
  | zero => intro x hx; exact List.mem_range.mp hx
  | succ t ih => intro x hx; exact ih x (auerRound_subset _ _ _ _ _ x hx)

theorem vsub_translate' (a b t : Vec) (ha : a.length = t.length) (hb : b.length = t.length) :
    vsub (vadd a t) (vadd b t) = vsub a b :=
  ConeOrd.zipWith_sub_translate a b t ha hb

theorem vsub_shift_translate (eps : Rat) : ∀ (a b t : Vec), a.length = t.length → b.length = t.length →
    vsub ((vadd a t).map (· + eps)) (vadd b t) = vsub (a.map (· + eps)) b
  | [], _, _, _, _ => by simp [vsub, vadd]
  | _ :: _, [], _, _, _ => by simp [vsub, vadd]
  | _ :: _, _ :: _, [], h, _ => by simp at h
  | x :: a, y :: b, z :: t, ha, hb => by
    have ih := vsub_shift_translate eps a b t (by simpa using ha) (by simpa using hb)
    simp only [vsub, vadd, List.zipWith_cons_cons, List.map_cons] at ih ⊢
    rw [ih]
    congr 1
    ring

/-- **Auer's whole trajectory is invariant under a common translation of all displayed centres**
(centres of the designs `< K` of the length of `t`; widths untouched). -/
theorem auerRun_translate (K : Nat) (eps : Rat) (centre width : Nat → Nat → Vec) (t : Vec) (T : Nat)
    (h : ∀ r, r < T → ∀ i, i < K → (centre r i).length = t.length) :
    ∀ k, k ≤ T → auerRun K eps (fun r i => vadd (centre r i) t) width k = auerRun K eps centre width k := by
  intro k
  induction k with
  | zero => intro _; rfl
  | succ k ih =>
    intro hk
    have e := ih (Nat.le_of_succ_le hk)
    simp only [auerRun, e]
    apply auerRound_congr
    intro i hi j hj
    have hi' := h k (Nat.lt_of_succ_le hk) i (auerRun_lt K eps centre width k i hi)
    have hj' := h k (Nat.lt_of_succ_le hk) j (auerRun_lt K eps centre width k j hj)
    constructor
    · simp only [smallM, vsub_translate' _ _ t hj' hi']
    · simp only [bigM, vsub_shift_translate eps _ _ t hi' hj']

end VOPy.Accuracy
