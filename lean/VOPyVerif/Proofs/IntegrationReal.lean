import VOPyVerif.Proofs.IntegrationRect
/-!
# Integration with *real* true means

The executable core runs on the displayed regions (rational data: every float is a dyadic rational);
the true means of the designs, however, are arbitrary real vectors.  The semantic theorems of C09 and
C10 quantify over *real* points of the regions, so the end-to-end statements hold for real true means
`μ i : Fin m → ℝ` as well — this file provides the pieces:

* `pavebaCore_inv_gen` — the invariant `PInv` of the PaVeBa family at the end of a core run, for points of
  an arbitrary type (from `Core.pavebaCore_roundSound`);
* `RDom`, `RGood`, `truth_real` — the order-theoretic facts (`Truth`) about real means;
* `ballDom_sound_real`, `ballCov_sound_real`, `rectDom_sound_real`, `rectCov_sound_real` — soundness of
  the computed oracles at real points of the regions (directly C09 / C10, no casts);
* bridging between `Fin m → ℝ` (C09) and `List ℝ` (C10): `rdot_ofFn`, `facetGe_ofFn`, `ofFn_mem_ball`,
  `ofFn_mem_box`.
-/
namespace VOPy.Core
open VOPy VOPy.Steps VOPy.Accuracy Matrix

variable {ρ X : Type} {m N : ℕ}

/-! ### generic part, any type of points -/

/-- the invariant of the PaVeBa family (I1–I3) after `T` rounds of the core, for points of any type
and any relations `domR`, `goodR` that satisfy `Truth` on the true means -/
theorem pavebaCore_inv_gen (dom cov : ρ → ρ → Bool) (memb : ρ → X → Prop) (wf : ρ → Prop)
    (domR goodR : X → X → Prop)
    (hds : ∀ a b x y, wf a → wf b → memb a x → memb b y → dom a b = true → domR y x)
    (hdt : ∀ a b c y, wf a → wf b → wf c → memb b y → dom a b = true → dom b c = true →
      dom a c = true)
    (hdi : ∀ a, wf a → dom a a = false)
    (hcs : ∀ a b x y, wf a → wf b → memb a x → memb b y → cov a b = false → goodR x y)
    (K : Nat) (mu : Nat → X)
    (htruth : Truth K (fun j i => domR (mu j) (mu i)) (fun i j => goodR (mu i) (mu j)))
    (init : Nat → ρ) (fresh : Nat → Nat → ρ) (T : Nat)
    (hvalid : ∀ r, r < T → ∀ i,
      (i ∈ (pavebaCore K dom cov init fresh r).S ∨ i ∈ (pavebaCore K dom cov init fresh r).U) →
      wf (fresh r i) ∧ memb (fresh r i) (mu i)) :
    PInv K (fun j i => domR (mu j) (mu i)) (fun i j => goodR (mu i) (mu j))
      (pavebaCore K dom cov init fresh T).S (pavebaCore K dom cov init fresh T).P
      (pavebaCore K dom cov init fresh T).U := by
  have hs := pavebaCore_roundSound dom cov memb wf domR goodR hds hdt hdi hcs K mu init fresh T hvalid
  simp only [pavebaCore_S, pavebaCore_P, pavebaCore_U] at hs ⊢
  exact paveba_run_inv htruth _ _ T hs

/-! ### real true means: the order-theoretic facts -/

/-- `y ≽ x` for real vectors in the order of the rational cone matrix `W` -/
def RDom (W : Fin N → Fin m → ℚ) (y x : Fin m → ℝ) : Prop :=
  ∀ n, 0 ≤ ∑ d, (W n d : ℝ) * (y d - x d)

/-- `y` does not cover `x` with facet thresholds `t`: `∃ n, w_n·(y − x) < t_n` -/
def RGood (W : Fin N → Fin m → ℚ) (t : Fin N → ℚ) (x y : Fin m → ℝ) : Prop :=
  ∃ n, ∑ d, (W n d : ℝ) * (y d - x d) < (t n : ℝ)

theorem truth_real (W : Fin N → Fin m → ℚ) (t : Fin N → ℚ) (K : Nat) (mu : Nat → Fin m → ℝ)
    (hpos : ∃ n, 0 < t n) :
    Truth K (fun j i => RDom W (mu j) (mu i)) (fun i j => RGood W t (mu i) (mu j)) where
  dom_trans := by
    intro i j k _ _ _ h1 h2 n
    have e : ∑ d, (W n d : ℝ) * (mu i d - mu k d) =
        ∑ d, (W n d : ℝ) * (mu i d - mu j d) + ∑ d, (W n d : ℝ) * (mu j d - mu k d) := by
      rw [← Finset.sum_add_distrib]; apply Finset.sum_congr rfl; intro d _; ring
    rw [e]; exact add_nonneg (h1 n) (h2 n)
  good_refl := by
    intro i _
    obtain ⟨n, hn⟩ := hpos
    refine ⟨n, ?_⟩
    simp only [sub_self, mul_zero, Finset.sum_const_zero]
    exact_mod_cast hn
  good_mono := by
    intro i k j _ _ _ h1 h2
    obtain ⟨n, hn⟩ := h1
    refine ⟨n, ?_⟩
    have e : ∑ d, (W n d : ℝ) * (mu j d - mu i d) =
        ∑ d, (W n d : ℝ) * (mu k d - mu i d) - ∑ d, (W n d : ℝ) * (mu k d - mu j d) := by
      rw [← Finset.sum_sub_distrib]; apply Finset.sum_congr rfl; intro d _; ring
    rw [e]
    have := h2 n
    linarith

/-! ### balls at real points -/

/-- a real point of the ball with rational centre `c` and radius `a` -/
def RBallMem (c : Fin m → ℚ) (a : ℚ) (x : Fin m → ℝ) : Prop :=
  0 ≤ a ∧ ∑ d, (x d - (c d : ℝ)) ^ 2 ≤ (a : ℝ) ^ 2

theorem rballMem_iff (c : Fin m → ℚ) (a : ℚ) (x : Fin m → ℝ) :
    RBallMem c a x ↔ x ∈ Ellipsoid.EllQ (Ellipsoid.castVec c) 1 (a : ℝ) := by
  rw [mem_ellQ_one, RBallMem]
  constructor
  · rintro ⟨h1, h2⟩; exact ⟨by exact_mod_cast h1, h2⟩
  · rintro ⟨h1, h2⟩; exact ⟨by exact_mod_cast h1, h2⟩

/-- **`ballDom` is sound at real points** (C09 at `Σ = I`). -/
theorem ballDom_sound_real (W : Fin N → Fin m → ℚ) (c1 c2 : Fin m → ℚ) (a1 a2 : ℚ) (x y : Fin m → ℝ)
    (hx : RBallMem c1 a1 x) (hy : RBallMem c2 a2 y)
    (h : ballDom (toMat W) ⟨toVec c1, a1⟩ ⟨toVec c2, a2⟩ = true) : RDom W y x := by
  rw [ballDom_eq] at h
  simp only [toVec_length, toMat_length] at h
  rw [isDominated_ball_iff] at h
  intro n
  have := h x ((rballMem_iff c1 a1 x).1 hx) y ((rballMem_iff c2 a2 y).1 hy) n
  simpa [dotProduct] using this

section lists
open VOPy.LinCert VOPy.Covered

theorem castV_toVec (c : Fin m → ℚ) : castV (toVec c) = List.ofFn fun d => (c d : ℝ) := by
  simp [castV, toVec, List.map_ofFn, Function.comp_def]

theorem rsub_ofFn (a b : Fin m → ℝ) : rsub (List.ofFn a) (List.ofFn b) = List.ofFn fun d => a d - b d :=
  zipWith_ofFn _ a b

theorem rdot_ofFn : ∀ {m : ℕ} (a b : Fin m → ℝ), rdot (List.ofFn a) (List.ofFn b) = ∑ d, a d * b d
  | 0, _, _ => by simp
  | m + 1, a, b => by
    have ih := rdot_ofFn (fun i => a i.succ) (fun i => b i.succ)
    simp only [List.ofFn_succ, rdot, Fin.sum_univ_succ, ih]

theorem facetGe_ofFn : ∀ {N : ℕ} (W : Fin N → Fin m → ℚ) (d : Fin m → ℝ) (t : Fin N → ℚ),
    FacetGe (toMat W) (List.ofFn d) (toVec t) ↔ ∀ n, (t n : ℝ) ≤ ∑ i, (W n i : ℝ) * d i
  | 0, _, _, _ => by simp [toMat, toVec, FacetGe]
  | N + 1, W, d, t => by
    have ih := facetGe_ofFn (fun n => W n.succ) d (fun n => t n.succ)
    simp only [toMat, toVec] at ih ⊢
    simp only [List.ofFn_succ, FacetGe, ih, Fin.forall_fin_succ]
    have e : rdot (castV (List.ofFn (W 0))) (List.ofFn d) = ∑ i, (W 0 i : ℝ) * d i := by
      have := castV_toVec (W 0)
      simp only [toVec] at this
      rw [this, rdot_ofFn]
    rw [e]

/-- a real point of a rational ball, as a point of the real ball of C10 -/
theorem ofFn_mem_ball (c : Fin m → ℚ) (a : ℚ) (x : Fin m → ℝ) (h : RBallMem c a x) :
    List.ofFn x ∈ ball (toVec c) a := by
  refine ⟨h.1, by simp, ?_⟩
  rw [castV_toVec, rsub_ofFn, rnormSq, rdot_ofFn]
  calc ∑ d, (x d - (c d : ℝ)) * (x d - (c d : ℝ)) = ∑ d, (x d - (c d : ℝ)) ^ 2 := by
        apply Finset.sum_congr rfl; intro d _; ring
    _ ≤ (a : ℝ) ^ 2 := h.2

/-- **`ballCov` is sound at real points** (C10, `ball_isCovered_iff`). -/
theorem ballCov_sound_real (W : Fin N → Fin m → ℚ) (t : Fin N → ℚ) (c1 c2 : Fin m → ℚ) (a1 a2 : ℚ)
    (x y : Fin m → ℝ) (hx : RBallMem c1 a1 x) (hy : RBallMem c2 a2 y)
    (h : ballCov (toMat W) (toVec t) ⟨toVec c1, a1⟩ ⟨toVec c2, a2⟩ = false) : RGood W t x y := by
  by_contra hng
  have hall : ∀ n, (t n : ℝ) ≤ ∑ i, (W n i : ℝ) * (y i - x i) := by
    intro n
    by_contra hlt
    exact hng ⟨n, not_le.1 hlt⟩
  have hyes : ballIsCovered (toMat W) (toVec c1) a1 (toVec c2) a2 (toVec t) = some Verdict.yes := by
    apply (VOPy.C10.ball_isCovered_iff (toMat W) (toVec c1) (toVec c2) (toVec t) a1 a2 hx.1 hy.1
      (by simp) (fun w hw => by obtain ⟨n, rfl⟩ := mem_toMat.1 hw; simp)).1.2
    refine ⟨toVec t, expandSlack_self _ _ (by simp), List.ofFn x, ofFn_mem_ball c1 a1 x hx,
      List.ofFn y, ofFn_mem_ball c2 a2 y hy, ?_⟩
    rw [rsub_ofFn, facetGe_ofFn]
    exact hall
  simp [ballCov, hyes] at h

/-! ### rectangles at real points -/

/-- a real point of the box `[l, u]` with rational bounds -/
def RBoxMem (l u : Fin m → ℚ) (x : Fin m → ℝ) : Prop := ∀ d, (l d : ℝ) ≤ x d ∧ x d ≤ (u d : ℝ)

theorem rboxMem_le {l u : Fin m → ℚ} {x : Fin m → ℝ} (h : RBoxMem l u x) : ∀ d, l d ≤ u d := by
  intro d
  have := le_trans (h d).1 (h d).2
  exact_mod_cast this

theorem ofFn_mem_box (l u : Fin m → ℚ) (x : Fin m → ℝ) (h : RBoxMem l u x) :
    List.ofFn x ∈ Covered.box (toVec l) (toVec u) := by
  show InBox (toVec l) (toVec u) (List.ofFn x)
  rw [inBox_iff_getD]
  refine ⟨by simp, by simp, ?_⟩
  intro i hi
  have hi' : i < m := by simpa using hi
  have e : ∀ f : Fin m → ℚ, (toVec f).getD i 0 = f ⟨i, hi'⟩ := by
    intro f
    rw [List.getD_eq_getElem _ _ (by simpa using hi')]
    exact getElem_toVec f i _
  have ex : (List.ofFn x).getD i 0 = x ⟨i, hi'⟩ := by
    rw [List.getD_eq_getElem _ _ (by simpa using hi')]
    simp
  rw [e l, e u, ex]
  exact h ⟨i, hi'⟩

/-- **`rectDom` is sound at real points** (C09, `rect_isDominated_iff`): slack broadcast to `s`. -/
theorem rectDom_sound_real (W : Fin N → Fin m → ℚ) (slack : Vec) (s : Fin m → ℚ)
    (hs : Rect.expandSlack m slack = some (toVec s))
    (l1 u1 l2 u2 : Fin m → ℚ) (x y : Fin m → ℝ) (hx : RBoxMem l1 u1 x) (hy : RBoxMem l2 u2 y)
    (h : rectDom (toMat W) slack ⟨toVec l1, toVec u1⟩ ⟨toVec l2, toVec u2⟩ = true) :
    ∀ n, 0 ≤ ∑ d, (W n d : ℝ) * (y d + (s d : ℝ) - x d) := by
  rw [rectDom_eq (toMat W) slack (toVec s) _ _ (by simpa using hs)] at h
  simp only at h
  rw [VOPy.C09.rect_isDominated_iff W l1 u1 l2 u2 s (rboxMem_le hx) (rboxMem_le hy)] at h
  intro n
  exact h x hx y hy n

/-- **`rectCov` is sound at real points** (C10, `rect_isCovered_iff`). -/
theorem rectCov_sound_real (W : Fin N → Fin m → ℚ) (hN : 0 < N) (slack : Vec) (s : Fin m → ℚ)
    (hs : Covered.expandSlack m slack = some (toVec s))
    (l1 u1 l2 u2 : Fin m → ℚ) (x y : Fin m → ℝ) (hx : RBoxMem l1 u1 x) (hy : RBoxMem l2 u2 y)
    (h : rectCov (toMat W) slack ⟨toVec l1, toVec u1⟩ ⟨toVec l2, toVec u2⟩ = false) :
    ∃ n, ∑ d, (W n d : ℝ) * (y d - x d - (s d : ℝ)) < 0 := by
  by_contra hng
  have hall : ∀ n, 0 ≤ ∑ d, (W n d : ℝ) * (y d - x d - (s d : ℝ)) := by
    intro n
    by_contra hlt
    exact hng ⟨n, not_le.1 hlt⟩
  have hWrows : ∀ w ∈ toMat W, w.length = m := by
    intro w hw; obtain ⟨n, rfl⟩ := mem_toMat.1 hw; simp
  have hne : toMat W ≠ [] := by
    intro h0
    have : (toMat W).length = 0 := by rw [h0]; rfl
    simp at this
    omega
  have hyes : rectIsCovered (toMat W) (toVec l1) (toVec u1) (toVec l2) (toVec u2) slack =
      some Verdict.yes := by
    apply (VOPy.C10.rect_isCovered_iff (toMat W) (toVec l1) (toVec u1) (toVec l2) (toVec u2) slack
      (by simp) (by simp) (by simp) (by rw [ncols_eq _ m hWrows hne]; simp)
      (fun w hw => by rw [hWrows w hw]; simp)).1.2
    refine ⟨toVec s, by simpa using hs, List.ofFn x, ofFn_mem_box l1 u1 x hx, List.ofFn y,
      ofFn_mem_box l2 u2 y hy, ?_⟩
    intro w hw
    obtain ⟨n, rfl⟩ := mem_toMat.1 hw
    rw [castV_toVec, castV_toVec, rsub_ofFn, rsub_ofFn, rdot_ofFn]
    exact hall n
  simp [rectCov, hyes] at h

end lists

end VOPy.Core
