import VOPyVerif.Proofs.Covered
import Mathlib.Data.List.Forall2
import Mathlib.Tactic.Positivity
import Mathlib.Tactic.FieldSimp
/-!
# Geometry behind "is covered": box reduction, monotonicity, Cauchy–Schwarz, balls, ellipsoids

* `cov_box_iff`        — `Cov (box₁) (box₂) W s t ↔ ∃ d ∈ [l₂−u₁, u₂−l₁], W (d − s) ≥ t`;
* `cov_mono_margin`, `cov_mono_shift` — monotonicity in the per-facet margin and (cone order) in
                          the objective-space shift: what the borderline band rests on;
* `rdot_sq_le`         — Cauchy–Schwarz for real list vectors;
* `cov_ball_iff`       — balls: `Cov ↔ ∃ d, ‖d − (c₂−c₁)‖² ≤ (a₁+a₂)² ∧ W d ≥ t`;
* `ballVerdict_yes/no` — soundness of the KKT-certified ball verdicts (totality:
                          `Proofs/CoveredComplete.lean`);
* `checkEllWitness_sound`, `checkEllSep_sound` — the two certificate checkers for general
                          ellipsoids `{c + L u | ‖u‖ ≤ a}`.
-/
namespace VOPy.Covered
open VOPy.LinCert

/-! ### box reduction -/

theorem interval_split (l1 u1 l2 u2 d : ℝ) (h1 : l1 ≤ u1) (h2 : l2 ≤ u2)
    (hd1 : l2 - u1 ≤ d) (hd2 : d ≤ u2 - l1) :
    ∃ z z', l1 ≤ z ∧ z ≤ u1 ∧ l2 ≤ z' ∧ z' ≤ u2 ∧ z' - z = d := by
  rcases le_total (u1 + d) u2 with h | h
  · exact ⟨u1, u1 + d, h1, le_refl _, by linarith, h, by ring⟩
  · exact ⟨u2 - d, u2, by linarith, by linarith, h2, le_refl _, by ring⟩

/-- a point of the difference box is a difference of points of the two boxes -/
theorem box_diff_split : ∀ (l1 u1 l2 u2 : Vec) (d : RVec),
    List.Forall₂ (· ≤ ·) l1 u1 → List.Forall₂ (· ≤ ·) l2 u2 → l2.length = l1.length →
    InBox (vsub l2 u1) (vsub u2 l1) d →
    ∃ z z', InBox l1 u1 z ∧ InBox l2 u2 z' ∧ rsub z' z = d
  | [], [], l2, u2, d, _, h2, hl, h => by
    have : l2 = [] := List.length_eq_zero_iff.1 hl
    subst this
    cases h2
    cases d <;> simp [vsub, InBox] at h
    exact ⟨[], [], by simp [InBox], by simp [InBox], by simp [rsub]⟩
  | a :: l1, b :: u1, [], _, d, _, _, hl, h => by simp at hl
  | a :: l1, b :: u1, a' :: l2, b' :: u2, [], _, _, _, h => by
    simp [vsub, InBox] at h
  | a :: l1, b :: u1, a' :: l2, b' :: u2, d :: ds, h1, h2, hl, h => by
    rw [List.forall₂_cons] at h1 h2
    simp only [vsub, List.zipWith_cons_cons, InBox] at h
    obtain ⟨zs, zs', hz, hz', hd⟩ :=
      box_diff_split l1 u1 l2 u2 ds h1.2 h2.2 (by simpa using hl) h.2.2
    obtain ⟨z, z', g1, g2, g3, g4, g5⟩ := interval_split (a : ℝ) b a' b' d
      (by exact_mod_cast h1.1) (by exact_mod_cast h2.1)
      (by have := h.1; push_cast at this; linarith) (by have := h.2.1; push_cast at this; linarith)
    exact ⟨z :: zs, z' :: zs', ⟨g1, g2, hz⟩, ⟨g3, g4, hz'⟩, by simp [rsub] at hd ⊢; exact ⟨g5, hd⟩⟩

/-- the difference of points of the two boxes lies in the difference box -/
theorem box_diff_mem : ∀ (l1 u1 l2 u2 : Vec) (z z' : RVec), InBox l1 u1 z → InBox l2 u2 z' →
    l2.length = l1.length → InBox (vsub l2 u1) (vsub u2 l1) (rsub z' z)
  | [], [], [], [], [], [], _, _, _ => by simp [vsub, rsub, InBox]
  | a :: l1, b :: u1, a' :: l2, b' :: u2, z :: zs, z' :: zs', h1, h2, hl => by
    simp only [InBox] at h1 h2
    have ih := box_diff_mem l1 u1 l2 u2 zs zs' h1.2.2 h2.2.2 (by simpa using hl)
    simp only [vsub, rsub] at ih
    simp only [vsub, rsub, List.zipWith_cons_cons, InBox]
    refine ⟨by push_cast; linarith [h1.2.1, h2.1], by push_cast; linarith [h1.1, h2.2.1], ih⟩
  | [], [], _ :: _, _, _, _, _, _, hl => by simp at hl
  | _ :: _, _, [], _, _, _, _, _, hl => by simp at hl
  | [], _ :: _, _, _, _, _, h, _, _ => by simp [InBox] at h
  | _ :: _, [], _, _, _, _, h, _, _ => by simp [InBox] at h
  | [], [], _, _, _ :: _, _, h, _, _ => by simp [InBox] at h
  | _ :: _, _ :: _, _, _, [], _, h, _, _ => by simp [InBox] at h
  | _, _, [], _ :: _, _, _, _, h, _ => by simp [InBox] at h
  | _, _, _ :: _, [], _, _, _, h, _ => by simp [InBox] at h
  | _, _, [], [], _, _ :: _, _, h, _ => by simp [InBox] at h
  | _, _, _ :: _, _ :: _, _, [], _, h, _ => by simp [InBox] at h

/-- **Box reduction**: for non-empty boxes of equal dimension,
`∃ z ∈ [l₁,u₁], z' ∈ [l₂,u₂] : W (z' − z − s) ≥ t  ↔  ∃ d ∈ [l₂ − u₁, u₂ − l₁] : W (d − s) ≥ t`. -/
theorem cov_box_iff (W : Mat) (l1 u1 l2 u2 s t : Vec)
    (h1 : List.Forall₂ (· ≤ ·) l1 u1) (h2 : List.Forall₂ (· ≤ ·) l2 u2)
    (hl : l2.length = l1.length) :
    Cov (box l1 u1) (box l2 u2) W s t ↔
      ∃ d ∈ box (vsub l2 u1) (vsub u2 l1), FacetGe W (rsub d (castV s)) t := by
  constructor
  · rintro ⟨z, hz, z', hz', hc⟩
    exact ⟨rsub z' z, box_diff_mem l1 u1 l2 u2 z z' hz hz' hl, hc⟩
  · rintro ⟨d, hd, hc⟩
    obtain ⟨z, z', hz, hz', rfl⟩ := box_diff_split l1 u1 l2 u2 d h1 h2 hl hd
    exact ⟨z, hz, z', hz', hc⟩

/-! ### monotonicity -/

theorem FacetGe.mono : ∀ (W : Mat) (d : RVec) (t t' : Vec), List.Forall₂ (· ≤ ·) t' t →
    FacetGe W d t → FacetGe W d t'
  | [], _, [], [], _, _ => by simp [FacetGe]
  | w :: W, d, t :: ts, t' :: ts', h, hf => by
    rw [List.forall₂_cons] at h
    simp only [FacetGe] at hf ⊢
    have : (t' : ℝ) ≤ t := by exact_mod_cast h.1
    exact ⟨by linarith [hf.1], FacetGe.mono W d ts ts' h.2 hf.2⟩
  | _, _, [], _ :: _, h, _ => by cases h
  | _, _, _ :: _, [], h, _ => by cases h
  | [], _, _ :: _, _, _, hf => by simp [FacetGe] at hf
  | _ :: _, _, [], _, _, hf => by simp [FacetGe] at hf

/-- **Monotone in the per-facet margin**: a smaller margin is easier to cover. -/
theorem cov_mono_margin (R₁ R₂ : Set RVec) (W : Mat) (s t t' : Vec)
    (h : List.Forall₂ (· ≤ ·) t' t) : Cov R₁ R₂ W s t → Cov R₁ R₂ W s t' := by
  rintro ⟨z, hz, z', hz', hc⟩
  exact ⟨z, hz, z', hz', FacetGe.mono W _ t t' h hc⟩

theorem FacetGe.shift (m : ℕ) (D : RVec) (s s' : Vec) (hD : D.length = m) (hs : s.length = m)
    (hs' : s'.length = m) : ∀ (W : Mat) (t : Vec), (∀ w ∈ W, w.length = m) →
    (∀ w ∈ W, 0 ≤ dot w (vsub s s')) →
    FacetGe W (rsub D (castV s)) t → FacetGe W (rsub D (castV s')) t
  | [], [], _, _, _ => by simp [FacetGe]
  | [], _ :: _, _, _, h => by simp [FacetGe] at h
  | _ :: _, [], _, _, h => by simp [FacetGe] at h
  | w :: W, t :: ts, hW, hc, h => by
    simp only [FacetGe] at h ⊢
    refine ⟨?_, FacetGe.shift m D s s' hD hs hs' W ts (fun w hw => hW w (List.mem_cons_of_mem _ hw))
      (fun w hw => hc w (List.mem_cons_of_mem _ hw)) h.2⟩
    have hw := hW w List.mem_cons_self
    have h0 : (0 : ℝ) ≤ ((dot w (vsub s s') : ℚ) : ℝ) := by exact_mod_cast hc w List.mem_cons_self
    rw [cast_dot, castV_vsub, rdot_rsub_right _ _ _ (by simp [hs, hs'])] at h0
    have e1 := rdot_rsub_right (castV w) D (castV s) (by simp [hD, hs])
    have e2 := rdot_rsub_right (castV w) D (castV s') (by simp [hD, hs'])
    rw [e2]; rw [e1] at h; linarith [h.1]

/-- **Monotone in the shift, in the cone order**: if `s − s'` lies in the cone, covering with the
shift `s` implies covering with the shift `s'`. -/
theorem cov_mono_shift (m : ℕ) (R₁ R₂ : Set RVec) (W : Mat) (s s' t : Vec)
    (hR₁ : ∀ z ∈ R₁, z.length = m) (hR₂ : ∀ z ∈ R₂, z.length = m)
    (hW : ∀ w ∈ W, w.length = m) (hs : s.length = m) (hs' : s'.length = m)
    (hc : ∀ w ∈ W, 0 ≤ dot w (vsub s s')) : Cov R₁ R₂ W s t → Cov R₁ R₂ W s' t := by
  rintro ⟨z, hz, z', hz', h⟩
  exact ⟨z, hz, z', hz', FacetGe.shift m _ s s' (by simp [hR₁ z hz, hR₂ z' hz']) hs hs' W t hW hc h⟩

/-! ### Cauchy–Schwarz -/

theorem cs_step (x y p A B : ℝ) (hA : 0 ≤ A) (hB : 0 ≤ B) (hp : p ^ 2 ≤ A * B) :
    (x * y + p) ^ 2 ≤ (x ^ 2 + A) * (y ^ 2 + B) := by
  by_contra hcon
  rw [not_le] at hcon
  have h1 : x ^ 2 * B + y ^ 2 * A < 2 * x * y * p := by nlinarith
  have h2 : 0 ≤ x ^ 2 * B + y ^ 2 * A := by positivity
  have h3 : (x ^ 2 * B + y ^ 2 * A) ^ 2 < (2 * x * y * p) ^ 2 := by nlinarith
  have h4 : (2 * x * y * p) ^ 2 ≤ 4 * (x ^ 2 * y ^ 2) * (A * B) := by
    have : 0 ≤ x ^ 2 * y ^ 2 := by positivity
    nlinarith
  have h5 : 4 * (x ^ 2 * y ^ 2) * (A * B) ≤ (x ^ 2 * B + y ^ 2 * A) ^ 2 := by
    nlinarith [sq_nonneg (x ^ 2 * B - y ^ 2 * A)]
  linarith

/-- **Cauchy–Schwarz** for real list vectors -/
theorem rdot_sq_le : ∀ a b : RVec, (rdot a b) ^ 2 ≤ rnormSq a * rnormSq b
  | [], b => by simp [rnormSq]
  | a :: as, [] => by simp [rnormSq]
  | a :: as, b :: bs => by
    have ih := rdot_sq_le as bs
    have hA := rnormSq_nonneg as
    have hB := rnormSq_nonneg bs
    simp only [rnormSq, rdot_cons] at ih hA hB ⊢
    have := cs_step a b (rdot as bs) (rdot as as) (rdot bs bs) hA hB ih
    nlinarith [this]

/-! ### the polyhedron `{d | W d ≥ t}` -/

theorem coneSys_sat (m : ℕ) (d : RVec) : ∀ (W : Mat) (t : Vec), W.length = t.length →
    ((∀ r ∈ coneSys W t, (r.b : ℝ) ≤ rdot (castV r.a) d) ↔ FacetGe W d t)
  | [], [], _ => by simp [coneSys, FacetGe]
  | [], _ :: _, h => by simp at h
  | _ :: _, [], h => by simp at h
  | w :: W, t :: ts, h => by
    have ih := coneSys_sat m d W ts (by simpa using h)
    simp only [coneSys] at ih
    simp only [coneSys, List.zipWith_cons_cons, List.forall_mem_cons, FacetGe, ih]

theorem rSat_coneSys (m : ℕ) (d : RVec) (W : Mat) (t : Vec) (h : W.length = t.length) :
    RSat m (coneSys W t) d ↔ d.length = m ∧ FacetGe W d t := by
  simp only [RSat, coneSys_sat m d W t h]

theorem rsub_castV_zeros : ∀ (d : RVec) (m : ℕ), d.length = m → rsub d (castV (zeros m)) = d
  | [], _, _ => by simp [rsub]
  | d :: ds, 0, h => by simp at h
  | d :: ds, m + 1, h => by
    have := rsub_castV_zeros ds m (by simpa using h)
    simp only [rsub, zeros] at this
    simp [rsub, zeros, List.replicate_succ, this]

/-! ### balls -/

/-- the closed ball `B(c, a)` (empty if `a < 0`, as in the code where `‖z − c‖ ≤ a`) -/
def ball (c : Vec) (a : ℚ) : Set RVec :=
  {z | 0 ≤ a ∧ z.length = c.length ∧ rnormSq (rsub z (castV c)) ≤ (a : ℝ) ^ 2}

theorem rnormSq_rsub : ∀ p q : RVec, p.length = q.length →
    rnormSq (rsub p q) = rnormSq p - 2 * rdot p q + rnormSq q
  | [], [], _ => by simp [rnormSq, rsub]
  | [], _ :: _, h => by simp at h
  | _ :: _, [], h => by simp at h
  | p :: ps, q :: qs, h => by
    have ih := rnormSq_rsub ps qs (by simpa using h)
    simp only [rnormSq, rsub] at ih ⊢
    simp only [List.zipWith_cons_cons, rdot_cons]
    rw [ih]; ring

theorem rsub_rsub_comm4 : ∀ a b c d : RVec, b.length = a.length → c.length = a.length →
    d.length = a.length → rsub (rsub a b) (rsub c d) = rsub (rsub a c) (rsub b d)
  | [], [], [], [], _, _, _ => by simp [rsub]
  | a :: as, b :: bs, c :: cs, d :: ds, h1, h2, h3 => by
    have ih := rsub_rsub_comm4 as bs cs ds (by simpa using h1) (by simpa using h2) (by simpa using h3)
    simp only [rsub] at ih
    simp only [rsub, List.zipWith_cons_cons, List.cons.injEq]
    exact ⟨by ring, ih⟩
  | [], _ :: _, _, _, h, _, _ => by simp at h
  | _ :: _, [], _, _, h, _, _ => by simp at h
  | [], _, _ :: _, _, _, h, _ => by simp at h
  | _ :: _, _, [], _, _, h, _ => by simp at h
  | [], _, _, _ :: _, _, _, h => by simp at h
  | _ :: _, _, _, [], _, _, h => by simp at h

/-- two points within `a₁` of `p`-origin and `a₂` of `q`-origin differ by at most `a₁ + a₂` -/
theorem rnormSq_rsub_le (p q : RVec) (a1 a2 : ℝ) (h : p.length = q.length) (ha1 : 0 ≤ a1)
    (ha2 : 0 ≤ a2) (hp : rnormSq p ≤ a2 ^ 2) (hq : rnormSq q ≤ a1 ^ 2) :
    rnormSq (rsub p q) ≤ (a1 + a2) ^ 2 := by
  rw [rnormSq_rsub p q h]
  have cs := rdot_sq_le p q
  have hp0 := rnormSq_nonneg p
  have hq0 := rnormSq_nonneg q
  have h1 : (rdot p q) ^ 2 ≤ (a1 * a2) ^ 2 := by
    calc (rdot p q) ^ 2 ≤ rnormSq p * rnormSq q := cs
      _ ≤ a2 ^ 2 * a1 ^ 2 := mul_le_mul hp hq hq0 (by positivity)
      _ = (a1 * a2) ^ 2 := by ring
  have h2 : -(a1 * a2) ≤ rdot p q := by
    have := abs_le_of_sq_le_sq' h1 (by positivity)
    exact this.1
  nlinarith

/-- split a displacement `D` (relative to `C₂ − C₁`) between the two centres in ratio `θ : 1−θ` -/
theorem ball_split (θ : ℝ) : ∀ (C1 C2 D : RVec), C2.length = C1.length → D.length = C1.length →
    ∃ z z' : RVec, z.length = C1.length ∧ z'.length = C1.length ∧ rsub z' z = D ∧
      rnormSq (rsub z C1) = θ ^ 2 * rnormSq (rsub D (rsub C2 C1)) ∧
      rnormSq (rsub z' C2) = (1 - θ) ^ 2 * rnormSq (rsub D (rsub C2 C1))
  | [], [], [], _, _ => ⟨[], [], by simp [rsub, rnormSq]⟩
  | c1 :: C1, c2 :: C2, d :: D, h1, h2 => by
    obtain ⟨z, z', hz, hz', e1, e2, e3⟩ := ball_split θ C1 C2 D (by simpa using h1) (by simpa using h2)
    refine ⟨(c1 - θ * (d - (c2 - c1))) :: z, (c2 + (1 - θ) * (d - (c2 - c1))) :: z', by simp [hz],
      by simp [hz'], ?_, ?_, ?_⟩
    · simp only [rsub] at e1
      simp only [rsub, List.zipWith_cons_cons, e1, List.cons.injEq, and_true]; ring
    · simp only [rnormSq, rsub] at e2 ⊢
      simp only [List.zipWith_cons_cons, rdot_cons, e2]; ring
    · simp only [rnormSq, rsub] at e3 ⊢
      simp only [List.zipWith_cons_cons, rdot_cons, e3]; ring
  | [], _ :: _, _, h, _ => by simp at h
  | _ :: _, [], _, h, _ => by simp at h
  | [], _, _ :: _, _, h => by simp at h
  | _ :: _, _, [], _, h => by simp at h

/-- **Ball reduction**: two balls are coverable iff some `d` within `a₁ + a₂` of `c₂ − c₁`
satisfies `W d ≥ t` (Minkowski difference of two balls is the ball of the summed radii). -/
theorem cov_ball_iff (W : Mat) (c1 c2 t : Vec) (a1 a2 : ℚ) (ha1 : 0 ≤ a1) (ha2 : 0 ≤ a2)
    (hc : c2.length = c1.length) :
    Cov (ball c1 a1) (ball c2 a2) W (zeros c1.length) t ↔
      ∃ d : RVec, d.length = c1.length ∧
        rnormSq (rsub d (castV (vsub c2 c1))) ≤ ((a1 : ℝ) + a2) ^ 2 ∧ FacetGe W d t := by
  have ha1' : (0 : ℝ) ≤ a1 := by exact_mod_cast ha1
  have ha2' : (0 : ℝ) ≤ a2 := by exact_mod_cast ha2
  constructor
  · rintro ⟨z, ⟨-, hzl, hz⟩, z', ⟨-, hzl', hz'⟩, hf⟩
    have hl : (rsub z' z).length = c1.length := by simp [hzl, hzl', hc]
    rw [rsub_castV_zeros _ _ hl] at hf
    refine ⟨rsub z' z, hl, ?_, hf⟩
    rw [castV_vsub, rsub_rsub_comm4 z' z (castV c2) (castV c1) (by rw [hzl, hzl', hc])
      (by simp [hzl']) (by simp [hzl', hc])]
    exact rnormSq_rsub_le _ _ _ _ (by simp [hzl, hzl', hc]) ha1' ha2' hz' hz
  · rintro ⟨d, hdl, hd, hf⟩
    obtain ⟨S, hS⟩ : ∃ S : ℝ, S = (a1 : ℝ) + a2 := ⟨_, rfl⟩
    rw [← hS] at hd
    obtain ⟨z, z', hz, hz', e1, e2, e3⟩ := ball_split ((a1 : ℝ) / S) (castV c1) (castV c2) d
      (by simp [hc]) (by simp [hdl])
    rw [castV_vsub] at hd
    obtain ⟨E, hE⟩ : ∃ E : ℝ, E = rnormSq (rsub d (rsub (castV c2) (castV c1))) := ⟨_, rfl⟩
    rw [← hE] at hd e2 e3
    have hE0 : 0 ≤ E := hE ▸ rnormSq_nonneg _
    have hS0 : 0 ≤ S := hS ▸ add_nonneg ha1' ha2'
    have b1 : ((a1 : ℝ) / S) ^ 2 * E ≤ (a1 : ℝ) ^ 2 ∧ (1 - (a1 : ℝ) / S) ^ 2 * E ≤ (a2 : ℝ) ^ 2 := by
      rcases eq_or_lt_of_le hS0 with h0 | hpos
      · have hE' : E = 0 := by
          have : E ≤ 0 := by rw [← h0] at hd; simpa using hd
          linarith
        rw [hE']; constructor <;> nlinarith [sq_nonneg (a1 : ℝ), sq_nonneg (a2 : ℝ)]
      · have t1 : (1 - (a1 : ℝ) / S) = (a2 : ℝ) / S := by
          field_simp; linarith
        rw [t1, div_pow, div_pow]
        have hS2 : 0 < S ^ 2 := by positivity
        constructor
        · rw [div_mul_eq_mul_div, div_le_iff₀ hS2]; nlinarith [sq_nonneg (a1 : ℝ)]
        · rw [div_mul_eq_mul_div, div_le_iff₀ hS2]; nlinarith [sq_nonneg (a2 : ℝ)]
    simp only [castV_length] at hz hz'
    refine ⟨z, ⟨ha1, hz, by rw [e2]; exact b1.1⟩, z', ⟨ha2, by rw [hz', hc], by rw [e3]; exact b1.2⟩, ?_⟩
    rw [e1, rsub_castV_zeros _ _ hdl]
    exact hf

theorem nearest_some {n : ℕ} {S : Sys} {c x lam : Vec} (h : nearest n S c = some (x, lam)) :
    checkKKT n S c x lam = true := by
  unfold nearest at h
  split at h
  · split at h
    · rename_i heq hk
      simp only [Option.some.injEq, Prod.mk.injEq] at h
      rw [← h.1, ← h.2]; exact hk
    · cases h
  · cases h

theorem feasible_false {n : ℕ} {S : Sys} (h : feasible n S = some false) :
    ∃ y, checkFarkas n S y = true := by
  unfold feasible at h
  split at h
  · split at h <;> simp at h
  · rename_i y _
    split at h
    · rename_i hf; exact ⟨y, hf⟩
    · cases h

theorem ballVerdict_guard {W : Mat} {c1 c2 t : Vec} {a1 a2 : ℚ} {v : Verdict}
    (h : ballVerdict W c1 a1 c2 a2 t = v) (hv : v ≠ .inconclusive) :
    0 ≤ a1 ∧ 0 ≤ a2 ∧ c2.length = c1.length := by
  unfold ballVerdict at h
  simp only at h
  split at h
  · exact absurd h.symm hv
  · rename_i hg
    simp only [Bool.or_eq_true, decide_eq_true_eq, bne_iff_ne, not_or, not_lt, ne_eq,
      Decidable.not_not] at hg
    exact ⟨hg.1.1, hg.1.2, hg.2⟩

/-- **Ball verdict `yes` is sound.** -/
theorem ballVerdict_yes (W : Mat) (c1 c2 t : Vec) (a1 a2 : ℚ) (ht : W.length = t.length)
    (h : ballVerdict W c1 a1 c2 a2 t = .yes) :
    Cov (ball c1 a1) (ball c2 a2) W (zeros c1.length) t := by
  obtain ⟨ha1, ha2, hc⟩ := ballVerdict_guard h (by simp)
  rw [cov_ball_iff W c1 c2 t a1 a2 ha1 ha2 hc]
  unfold ballVerdict at h
  simp only at h
  split at h
  · cases h
  · split at h
    · rename_i x lam hn
      split at h
      · rename_i hle
        have hk := checkKKT_sound (nearest_some hn)
        have hs := (rSat_coneSys _ _ W t ht).1 hk.1
        refine ⟨castV x, hs.1, ?_, hs.2⟩
        rw [← castV_vsub, ← cast_normSq]
        have : ((normSq (vsub x (vsub c2 c1)) : ℚ) : ℝ) ≤ (((a1 + a2) * (a1 + a2) : ℚ) : ℝ) := by
          exact_mod_cast hle
        push_cast at this
        nlinarith
      · cases h
    · split at h <;> cases h

/-- **Ball verdict `no` is sound.** -/
theorem ballVerdict_no (W : Mat) (c1 c2 t : Vec) (a1 a2 : ℚ) (ht : W.length = t.length)
    (h : ballVerdict W c1 a1 c2 a2 t = .no) :
    ¬ Cov (ball c1 a1) (ball c2 a2) W (zeros c1.length) t := by
  obtain ⟨ha1, ha2, hc⟩ := ballVerdict_guard h (by simp)
  rw [cov_ball_iff W c1 c2 t a1 a2 ha1 ha2 hc]
  rintro ⟨d, hdl, hd, hf⟩
  have hsat : RSat c1.length (coneSys W t) d := (rSat_coneSys _ _ W t ht).2 ⟨hdl, hf⟩
  unfold ballVerdict at h
  simp only at h
  split at h
  · cases h
  · split at h
    · rename_i x lam hn
      split at h
      · cases h
      · rename_i hgt
        have hk := (checkKKT_sound (nearest_some hn)).2 d hsat
        rw [← castV_vsub, ← cast_normSq] at hk
        have : (((a1 + a2) * (a1 + a2) : ℚ) : ℝ) < ((normSq (vsub x (vsub c2 c1)) : ℚ) : ℝ) := by
          exact_mod_cast not_le.1 hgt
        push_cast at this
        nlinarith
    · split at h
      · rename_i hf'
        obtain ⟨y, hy⟩ := (feasibleC_cert _ _).2 hf'
        exact checkFarkas_sound hy ⟨d, hsat⟩
      · cases h

/-! ### general ellipsoids `{c + L u | ‖u‖ ≤ a}` -/

/-- `L u` for a rational matrix (list of rows) and a real vector -/
def rmatVec (L : Mat) (u : RVec) : RVec := L.map (fun r => rdot (castV r) u)

/-- the ellipsoid `{c + L u | ‖u‖ ≤ a}` — equal to `{z | ‖Σ^{-1/2}(z − c)‖ ≤ a}` whenever
`L Lᵀ = Σ` is invertible (see `ell_iff_inverse`); empty if `a < 0`. -/
def ell (c : Vec) (L : Mat) (a : ℚ) : Set RVec :=
  {z | 0 ≤ a ∧ ∃ u : RVec, u.length = c.length ∧ rnormSq u ≤ (a : ℝ) ^ 2 ∧
    z = radd (castV c) (rmatVec L u)}

@[simp] theorem rmatVec_length (L : Mat) (u : RVec) : (rmatVec L u).length = L.length := by
  simp [rmatVec]

theorem castV_matVec (L : Mat) (u : Vec) : castV (matVec L u) = rmatVec L (castV u) := by
  simp only [matVec, rmatVec, castV, List.map_map]
  apply List.map_congr_left
  intro r _
  simp only [Function.comp]
  exact cast_dot r u

/-- `v · (L u) = Σ vᵢ (Lᵢ · u)` -/
theorem rdot_rmatVec : ∀ (L : Mat) (v u : RVec),
    rdot v (rmatVec L u) = rsumDot (L.map castV) v u
  | [], v, u => by simp [rmatVec, rsumDot]
  | r :: L, [], u => by simp [rmatVec, rsumDot]
  | r :: L, v :: vs, u => by
    have := rdot_rmatVec L vs u
    simp only [rmatVec] at this
    simp [rmatVec, rsumDot, this]

/-- `v · (L u) = (Lᵀ v) · u` for an `m`-column matrix -/
theorem rdot_rmatVec_eq (m : ℕ) (L : Mat) (v u : RVec) (hL : ∀ r ∈ L, r.length = m) :
    rdot v (rmatVec L u) = rdot (rlincomb m (L.map castV) v) u := by
  rw [rdot_rmatVec, rdot_rlincomb m _ _ _ (by
    intro r hr
    simp only [List.mem_map] at hr
    obtain ⟨q, hq, rfl⟩ := hr
    simpa using hL q hq)]

theorem wfEll_iff (m : ℕ) (c : Vec) (L : Mat) :
    wfEll m c L = true ↔ c.length = m ∧ L.length = m ∧ ∀ r ∈ L, r.length = m := by
  simp [wfEll, and_assoc]

theorem rdot_radd_right (x a b : RVec) (h : a.length = b.length) :
    rdot x (radd a b) = rdot x a + rdot x b := by
  rw [rdot_comm, rdot_radd_left a b x h, rdot_comm a, rdot_comm b]

/-- **Witness-pair checker is sound.** -/
theorem checkEllWitness_sound (W : Mat) (c1 : Vec) (L1 : Mat) (a1 : ℚ) (c2 : Vec) (L2 : Mat)
    (a2 : ℚ) (t u1 u2 : Vec) (ht : W.length = t.length)
    (h : checkEllWitness W c1 L1 a1 c2 L2 a2 t u1 u2 = true) :
    Cov (ell c1 L1 a1) (ell c2 L2 a2) W (zeros c1.length) t := by
  simp only [checkEllWitness, Bool.and_eq_true, decide_eq_true_eq] at h
  obtain ⟨⟨⟨⟨⟨⟨⟨⟨-, hE2⟩, hu1⟩, hu2⟩, ha1⟩, ha2⟩, hn1⟩, hn2⟩, hw⟩ := h
  have hs := (rSat_coneSys _ _ W t ht).1 (checkWitness_sound hw)
  have e1 : ((normSq u1 : ℚ) : ℝ) ≤ ((a1 * a1 : ℚ) : ℝ) := by exact_mod_cast hn1
  have e2 : ((normSq u2 : ℚ) : ℝ) ≤ ((a2 * a2 : ℚ) : ℝ) := by exact_mod_cast hn2
  rw [cast_normSq] at e1 e2
  push_cast at e1 e2
  refine ⟨castV (ellPoint c1 L1 u1), ⟨ha1, castV u1, by simpa using hu1, by nlinarith, ?_⟩,
    castV (ellPoint c2 L2 u2), ⟨ha2, castV u2, ?_, by nlinarith, ?_⟩, ?_⟩
  · simp [ellPoint, castV_vadd, castV_matVec]
  · have := (wfEll_iff _ _ _).1 hE2
    simp [hu2, this.1]
  · simp [ellPoint, castV_vadd, castV_matVec]
  · rw [← castV_vsub, rsub_castV_zeros _ _ hs.1]
    exact hs.2

/-- `Σ λᵢ tᵢ ≤ (Σ λᵢ wᵢ) · d` for `λ ≥ 0` and `W d ≥ t` -/
theorem dot_le_of_facetGe (m : ℕ) (W : Mat) (t lam : Vec) (d : RVec)
    (hW : ∀ w ∈ W, w.length = m) (hl : ∀ v ∈ lam, (0 : ℚ) ≤ v) :
    ∀ (_ : lam.length = W.length), FacetGe W d t →
    ((dot lam t : ℚ) : ℝ) ≤ rdot (castV (lincomb m W lam)) d := by
  intro hlen hf
  rw [castV_lincomb, rdot_rlincomb m _ _ _ (by
    intro r hr
    simp only [List.mem_map] at hr
    obtain ⟨q, hq, rfl⟩ := hr
    simpa using hW q hq)]
  clear hW
  induction W generalizing t lam with
  | nil =>
    cases lam with
    | nil => simp [dot, rsumDot]
    | cons _ _ => simp at hlen
  | cons w W ih =>
    cases lam with
    | nil => simp at hlen
    | cons l ls =>
      cases t with
      | nil => simp [FacetGe] at hf
      | cons t ts =>
        simp only [FacetGe] at hf
        have ih' := ih ts ls (fun v hv => hl v (List.mem_cons_of_mem _ hv)) (by simpa using hlen) hf.2
        have h0 : (0 : ℝ) ≤ (l : ℝ) := by exact_mod_cast hl l List.mem_cons_self
        simp only [dot, List.map_cons, castV_cons, rsumDot]
        push_cast
        nlinarith [mul_le_mul_of_nonneg_left hf.1 h0]

/-- the squaring trick: `x² ≤ B`, `y² ≤ A`, `g > 0`, `h = g² − A − B > 0`, `4AB < h²` ⇒ `x + y < g` -/
theorem sum_lt_of_sq (x y A B g : ℝ) (hx : x ^ 2 ≤ B) (hy : y ^ 2 ≤ A) (hg : 0 < g)
    (hh : 0 < g * g - A - B) (hAB : 4 * A * B < (g * g - A - B) * (g * g - A - B)) : x + y < g := by
  have hA : 0 ≤ A := le_trans (sq_nonneg y) hy
  have hB : 0 ≤ B := le_trans (sq_nonneg x) hx
  have h1 : (2 * x * y) ^ 2 ≤ 4 * A * B := by
    have : x ^ 2 * y ^ 2 ≤ B * A := mul_le_mul hx hy (sq_nonneg y) hB
    nlinarith
  have h2 : 2 * x * y < g * g - A - B := by
    by_contra hc
    rw [not_lt] at hc
    have : (g * g - A - B) ^ 2 ≤ (2 * x * y) ^ 2 := pow_le_pow_left₀ hh.le hc 2
    nlinarith
  have h3 : (x + y) ^ 2 < g ^ 2 := by nlinarith
  exact lt_of_pow_lt_pow_left₀ 2 hg.le h3

/-- **Separating-multiplier checker is sound** (Cauchy–Schwarz): no witness pair exists. -/
theorem checkEllSep_sound (W : Mat) (c1 : Vec) (L1 : Mat) (a1 : ℚ) (c2 : Vec) (L2 : Mat)
    (a2 : ℚ) (t lam : Vec) (h : checkEllSep W c1 L1 a1 c2 L2 a2 t lam = true) :
    ¬ Cov (ell c1 L1 a1) (ell c2 L2 a2) W (zeros c1.length) t := by
  simp only [checkEllSep, Bool.and_eq_true, decide_eq_true_eq, List.all_eq_true] at h
  obtain ⟨⟨⟨⟨⟨⟨⟨⟨⟨⟨hE1, hE2⟩, hW⟩, hll⟩, -⟩, ha1⟩, ha2⟩, hlam⟩, hg⟩, hh⟩, hAB⟩ := h
  obtain ⟨hc1, hL1, hR1⟩ := (wfEll_iff _ _ _).1 hE1
  obtain ⟨hc2, hL2, hR2⟩ := (wfEll_iff _ _ _).1 hE2
  have hlam' := (allNonneg_iff lam).1 hlam
  rintro ⟨z, ⟨-, p1, -, hp1, rfl⟩, z', ⟨-, p2, -, hp2, rfl⟩, hf⟩
  set m := c1.length with hm
  have hc1' : c1.length = m := hm.symm
  have hzl : (radd (castV c1) (rmatVec L1 p1)).length = m := by simp [hL1, hc1']
  have hzl' : (radd (castV c2) (rmatVec L2 p2)).length = m := by simp [hc2, hL2]
  rw [rsub_castV_zeros _ _ (by simp [hzl, hzl'])] at hf
  have key := dot_le_of_facetGe m W t lam _ hW hlam' hll hf
  set v := castV (lincomb m W lam) with hv
  have hvl : v.length = m := by
    rw [hv, castV_lincomb]
    exact rlincomb_length m _ _ (by
      intro r hr
      simp only [List.mem_map] at hr
      obtain ⟨q, hq, rfl⟩ := hr
      simpa using hW q hq)
  -- v · (z' − z) = v·(c₂ − c₁) + (L₂ᵀv)·p₂ − (L₁ᵀv)·p₁
  have ex : rdot v (rsub (radd (castV c2) (rmatVec L2 p2)) (radd (castV c1) (rmatVec L1 p1))) =
      rdot v (castV (vsub c2 c1)) + rdot (rlincomb m (L2.map castV) v) p2
        - rdot (rlincomb m (L1.map castV) v) p1 := by
    rw [rdot_rsub_right _ _ _ (by rw [hzl, hzl']), rdot_radd_right _ _ _ (by simp [hc2, hL2]),
      rdot_radd_right _ _ _ (by simp [hL1, hc1']), rdot_rmatVec_eq m L2 v p2 hR2,
      rdot_rmatVec_eq m L1 v p1 hR1, castV_vsub, rdot_rsub_right _ _ _ (by simp [hc2, hc1'])]
    ring
  rw [ex] at key
  -- Cauchy–Schwarz on both support terms
  have cs2 := rdot_sq_le (rlincomb m (L2.map castV) v) p2
  have cs1 := rdot_sq_le (rlincomb m (L1.map castV) v) p1
  have q1 : rnormSq (rlincomb m (L1.map castV) v) = ((normSq (lincomb m L1 (lincomb m W lam)) : ℚ) : ℝ) := by
    rw [cast_normSq, castV_lincomb]
  have q2 : rnormSq (rlincomb m (L2.map castV) v) = ((normSq (lincomb m L2 (lincomb m W lam)) : ℚ) : ℝ) := by
    rw [cast_normSq, castV_lincomb]
  have hg' : (0 : ℝ) < ((dot lam t - dot (lincomb m W lam) (vsub c2 c1) : ℚ) : ℝ) := by
    exact_mod_cast hg
  have hh' := (Rat.cast_lt (K := ℝ)).2 hh
  have hAB' := (Rat.cast_lt (K := ℝ)).2 hAB
  push_cast at hg' hh' hAB'
  rw [cast_dot (lincomb m W lam)] at hg' hh' hAB'
  rw [← q1, ← q2] at hh' hAB'
  have ha1' : (0 : ℝ) ≤ a1 := by exact_mod_cast ha1
  have ha2' : (0 : ℝ) ≤ a2 := by exact_mod_cast ha2
  have n1 := rnormSq_nonneg (rlincomb m (L1.map castV) v)
  have n2 := rnormSq_nonneg (rlincomb m (L2.map castV) v)
  have bx : (rdot (rlincomb m (L2.map castV) v) p2) ^ 2 ≤
      (a2 : ℝ) * a2 * rnormSq (rlincomb m (L2.map castV) v) := by
    calc _ ≤ rnormSq (rlincomb m (L2.map castV) v) * rnormSq p2 := cs2
      _ ≤ rnormSq (rlincomb m (L2.map castV) v) * (a2 : ℝ) ^ 2 := mul_le_mul_of_nonneg_left hp2 n2
      _ = _ := by ring
  have bys : (-(rdot (rlincomb m (L1.map castV) v) p1)) ^ 2 ≤
      (a1 : ℝ) * a1 * rnormSq (rlincomb m (L1.map castV) v) := by
    calc _ = (rdot (rlincomb m (L1.map castV) v) p1) ^ 2 := by ring
      _ ≤ rnormSq (rlincomb m (L1.map castV) v) * rnormSq p1 := cs1
      _ ≤ rnormSq (rlincomb m (L1.map castV) v) * (a1 : ℝ) ^ 2 := mul_le_mul_of_nonneg_left hp1 n1
      _ = _ := by ring
  have fin := sum_lt_of_sq _ _ _ _ _ bx bys hg' hh' hAB'
  linarith

/-- **Verdicts from certificates are sound**: `yes` ⇒ coverable, `no` ⇒ not coverable. -/
theorem ellVerdict_sound (W : Mat) (c1 : Vec) (L1 : Mat) (a1 : ℚ) (c2 : Vec) (L2 : Mat) (a2 : ℚ)
    (t u1 u2 lam : Vec) (ht : W.length = t.length) :
    (ellVerdict W c1 L1 a1 c2 L2 a2 t u1 u2 lam = .yes →
      Cov (ell c1 L1 a1) (ell c2 L2 a2) W (zeros c1.length) t) ∧
    (ellVerdict W c1 L1 a1 c2 L2 a2 t u1 u2 lam = .no →
      ¬ Cov (ell c1 L1 a1) (ell c2 L2 a2) W (zeros c1.length) t) := by
  unfold ellVerdict
  constructor
  · intro h
    split at h
    · rename_i hw; exact checkEllWitness_sound W c1 L1 a1 c2 L2 a2 t u1 u2 ht hw
    · split at h <;> cases h
  · intro h
    split at h
    · cases h
    · split at h
      · rename_i hs; exact checkEllSep_sound W c1 L1 a1 c2 L2 a2 t lam hs
      · cases h

theorem rsub_radd_cancel : ∀ (c p : RVec), p.length = c.length → rsub (radd c p) c = p
  | [], [], _ => by simp [rsub, radd]
  | [], _ :: _, h => by simp at h
  | _ :: _, [], h => by simp at h
  | c :: cs, p :: ps, h => by
    have := rsub_radd_cancel cs ps (by simpa using h)
    simp only [rsub, radd] at this
    simp [rsub, radd, this]

theorem radd_rsub_cancel : ∀ (c z : RVec), z.length = c.length → radd c (rsub z c) = z
  | [], [], _ => by simp [rsub, radd]
  | [], _ :: _, h => by simp at h
  | _ :: _, [], h => by simp at h
  | c :: cs, z :: zs, h => by
    have := radd_rsub_cancel cs zs (by simpa using h)
    simp only [rsub, radd] at this
    simp [rsub, radd, this]

/-- **The ellipsoid in the code's form.**  If `M` is the inverse of `L` (as maps on real
`m`-vectors), then `{c + L u | ‖u‖ ≤ a} = {z | ‖L⁻¹ (z − c)‖ ≤ a}`; with `L Lᵀ = Σ` the right-hand
side is `{z | (z − c)ᵀ Σ⁻¹ (z − c) ≤ a²} = {z | ‖Σ^{-1/2}(z − c)‖ ≤ a}`, the constraint
`EllipsoidalConfidenceRegion.is_covered` hands to the solver. -/
theorem ell_iff_inverse (m : ℕ) (c : Vec) (L M : Mat) (a : ℚ) (hc : c.length = m)
    (hL : L.length = m) (hM : M.length = m)
    (hML : ∀ u : RVec, u.length = m → rmatVec M (rmatVec L u) = u)
    (hLM : ∀ x : RVec, x.length = m → rmatVec L (rmatVec M x) = x) (z : RVec) :
    z ∈ ell c L a ↔
      0 ≤ a ∧ z.length = m ∧ rnormSq (rmatVec M (rsub z (castV c))) ≤ (a : ℝ) ^ 2 := by
  constructor
  · rintro ⟨ha, u, hu, hn, rfl⟩
    refine ⟨ha, by simp [hc, hL], ?_⟩
    rw [rsub_radd_cancel _ _ (by simp [hc, hL]), hML u (hu.trans hc)]
    exact hn
  · rintro ⟨ha, hz, hn⟩
    refine ⟨ha, rmatVec M (rsub z (castV c)), by simp [hM, hc], hn, ?_⟩
    rw [hLM _ (by simp [hz, hc]), radd_rsub_cancel _ _ (by simp [hz, hc])]

/-- a ball is the ellipsoid whose factor acts as the identity -/
theorem ball_eq_ell (m : ℕ) (c : Vec) (I : Mat) (a : ℚ) (hc : c.length = m) (hI : I.length = m)
    (hid : ∀ u : RVec, u.length = m → rmatVec I u = u) : ball c a = ell c I a := by
  ext z
  rw [ell_iff_inverse m c I I a hc hI hI (fun u hu => by rw [hid u hu, hid u hu])
    (fun u hu => by rw [hid u hu, hid u hu]) z]
  constructor
  · rintro ⟨ha, hz, hn⟩
    exact ⟨ha, hz.trans hc, by rwa [hid _ (by simp [hz, hc])]⟩
  · rintro ⟨ha, hz, hn⟩
    exact ⟨ha, hz.trans hc.symm, by rwa [hid _ (by simp [hz, hc])] at hn⟩

theorem identRow_eq_unitVec : ∀ (m i : ℕ),
    (List.range m).map (fun j => if i = j then (1 : ℚ) else 0) = unitVec m i 1
  | 0, _ => by simp [unitVec]
  | m + 1, 0 => by
    rw [List.range_succ_eq_map]
    simp only [List.map_cons, List.map_map, unitVec, zeros, if_true, List.cons.injEq, true_and]
    rw [List.eq_replicate_iff]
    refine ⟨by simp, ?_⟩
    intro b hb
    simp only [List.mem_map, Function.comp] at hb
    obtain ⟨j, -, rfl⟩ := hb
    simp
  | m + 1, i + 1 => by
    rw [List.range_succ_eq_map]
    have := identRow_eq_unitVec m i
    simp only [List.map_cons, List.map_map, unitVec, List.cons.injEq]
    refine ⟨by simp, ?_⟩
    rw [← this]
    apply List.map_congr_left
    intro j _
    simp

/-- the model's identity matrix acts as the identity on real `m`-vectors -/
theorem rmatVec_identMat (m : ℕ) (u : RVec) (hu : u.length = m) : rmatVec (identMat m) u = u := by
  apply List.ext_getElem
  · simp [identMat, hu]
  · intro i h1 h2
    simp only [rmatVec, identMat, List.getElem_map, List.getElem_range, List.map_map,
      Function.comp]
    rw [identRow_eq_unitVec m i, rdot_unitVec m i 1 u hu]
    rw [List.getD_eq_getElem _ _ h2]; simp

/-- `B(c, a) = {c + I u | ‖u‖ ≤ a}` with the model's identity matrix -/
theorem ball_eq_ell_identMat (c : Vec) (a : ℚ) : ball c a = ell c (identMat c.length) a :=
  ball_eq_ell c.length c _ a rfl (by simp [identMat]) (rmatVec_identMat c.length)

/-- an objective-space shift `s` is the per-facet slack `wᵢ · s`:
`W (D − s) ≥ t ↔ W D ≥ W s + t` -/
theorem facetGe_shift_iff (m : ℕ) (D : RVec) (s : Vec) (hD : D.length = m) (hs : s.length = m) :
    ∀ (W : Mat) (t : Vec), (∀ w ∈ W, w.length = m) → W.length = t.length →
    (FacetGe W (rsub D (castV s)) t ↔ FacetGe W D (vadd (matVec W s) t))
  | [], [], _, _ => by simp [FacetGe, matVec, vadd]
  | [], _ :: _, _, h => by simp at h
  | _ :: _, [], _, h => by simp at h
  | w :: W, t :: ts, hW, hl => by
    have ih := facetGe_shift_iff m D s hD hs W ts (fun w hw => hW w (List.mem_cons_of_mem _ hw))
      (by simpa using hl)
    simp only [matVec, vadd] at ih
    simp only [FacetGe, matVec, vadd, List.map_cons, List.zipWith_cons_cons, ih]
    rw [rdot_rsub_right _ _ _ (by simp [hD, hs])]
    push_cast
    rw [cast_dot]
    constructor
    · rintro ⟨h1, h2⟩; exact ⟨by linarith, h2⟩
    · rintro ⟨h1, h2⟩; exact ⟨by linarith, h2⟩

/-! ### small helpers used by `Props/C10.lean` -/

theorem facetGe_zeros_iff (d : RVec) : ∀ W : Mat,
    FacetGe W d (zeros W.length) ↔ ∀ w ∈ W, 0 ≤ rdot (castV w) d
  | [] => by simp [FacetGe, zeros]
  | w :: W => by
    have ih := facetGe_zeros_iff d W
    simp only [zeros] at ih
    simp [FacetGe, zeros, List.replicate_succ, ih]

theorem expandSlack_length {k : ℕ} {s sv : Vec} (h : expandSlack k s = some sv) : sv.length = k := by
  unfold expandSlack at h
  split at h
  · simp only [Option.some.injEq] at h; rw [← h]; simp
  · split at h
    · rename_i hl; simp only [Option.some.injEq] at h; rw [← h]; exact hl
    · cases h

theorem forall₂_replicate_le (n : ℕ) (a b : ℚ) (h : a ≤ b) :
    List.Forall₂ (· ≤ ·) (List.replicate n a) (List.replicate n b) := by
  induction n with
  | zero => simp
  | succ n ih => simp [List.replicate_succ, h, ih]

theorem ball_length {c : Vec} {a : ℚ} : ∀ z ∈ ball c a, z.length = c.length := fun _ h => h.2.1

theorem forall₂_map_add_le (t : Vec) (a b : ℚ) (h : a ≤ b) :
    List.Forall₂ (· ≤ ·) (t.map (· + a)) (t.map (· + b)) := by
  induction t with
  | nil => simp
  | cons x t ih => simp [ih, h]

theorem ell_length {m : ℕ} {c : Vec} {L : Mat} {a : ℚ} (hc : c.length = m) (hL : L.length = m) :
    ∀ z ∈ ell c L a, z.length = m := by
  rintro z ⟨-, u, -, -, rfl⟩
  simp [hc, hL]

theorem wf_of_witness {W : Mat} {c1 : Vec} {L1 : Mat} {a1 : ℚ} {c2 : Vec} {L2 : Mat} {a2 : ℚ}
    {t u1 u2 : Vec} (h : checkEllWitness W c1 L1 a1 c2 L2 a2 t u1 u2 = true) :
    L1.length = c1.length ∧ c2.length = c1.length ∧ L2.length = c1.length := by
  simp only [checkEllWitness, Bool.and_eq_true] at h
  obtain ⟨⟨⟨⟨⟨⟨⟨⟨hE1, hE2⟩, -⟩, -⟩, -⟩, -⟩, -⟩, -⟩, -⟩ := h
  obtain ⟨-, hL1, -⟩ := (wfEll_iff _ _ _).1 hE1
  obtain ⟨hc2, hL2, -⟩ := (wfEll_iff _ _ _).1 hE2
  exact ⟨hL1, hc2, hL2⟩

theorem wf_of_sep {W : Mat} {c1 : Vec} {L1 : Mat} {a1 : ℚ} {c2 : Vec} {L2 : Mat} {a2 : ℚ}
    {t lam : Vec} (h : checkEllSep W c1 L1 a1 c2 L2 a2 t lam = true) :
    L1.length = c1.length ∧ c2.length = c1.length ∧ L2.length = c1.length := by
  simp only [checkEllSep, Bool.and_eq_true] at h
  obtain ⟨⟨⟨⟨⟨⟨⟨⟨⟨⟨hE1, hE2⟩, -⟩, -⟩, -⟩, -⟩, -⟩, -⟩, -⟩, -⟩, -⟩ := h
  obtain ⟨-, hL1, -⟩ := (wfEll_iff _ _ _).1 hE1
  obtain ⟨hc2, hL2, -⟩ := (wfEll_iff _ _ _).1 hE2
  exact ⟨hL1, hc2, hL2⟩


end VOPy.Covered
