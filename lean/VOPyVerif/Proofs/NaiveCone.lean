import Mathlib.Tactic.Ring
import Mathlib.Tactic.Linarith
import Mathlib.Tactic.Positivity
import Mathlib.Tactic.FieldSimp
import Mathlib.Data.Real.Basic
import Mathlib.Algebra.Order.Field.Basic
/-!
# C08 helper: planar two-facet cones over `ℝ × ℝ`

`Cone2` is a polyhedral cone `{x | w₁·x ≥ 0 ∧ w₂·x ≥ 0}` in the plane.  The key fact is the
*planar lemma*: for linearly independent facet normals with Gram entries `p = ‖w₁‖²`, `q = ‖w₂‖²`,
`g = w₁·w₂`, every `e` has a `z ∈ C` with `z − e ∈ C` and `‖z‖² ≤ B²‖e‖²`, where `B² ≥ 1` and,
when `g < 0` (acute cone), `B² ≥ pq/(pq − g²)` (`= 1/sin²θ` for unit normals with `g = −cos θ`).
No trigonometry: with facet coordinates `b = W e`, `‖e‖²·(pq − g²) = q b₁² − 2 g b₁ b₂ + p b₂²`
(Lagrange identity) and `z := W⁻¹ max(0, b)`.
-/
namespace VOPy.Naive

/-- squared Euclidean norm on `ℝ × ℝ` -/
def nsq (x : ℝ × ℝ) : ℝ := x.1 ^ 2 + x.2 ^ 2

theorem nsq_nonneg (x : ℝ × ℝ) : 0 ≤ nsq x := by unfold nsq; positivity

/-- the two facet normals `w₁ = (a1, a2)`, `w₂ = (c1, c2)` of a planar cone -/
structure Cone2 where
  a1 : ℝ
  a2 : ℝ
  c1 : ℝ
  c2 : ℝ

namespace Cone2
variable (W : Cone2)

/-- first facet functional `w₁ · x` -/
def f1 (x : ℝ × ℝ) : ℝ := W.a1 * x.1 + W.a2 * x.2
/-- second facet functional `w₂ · x` -/
def f2 (x : ℝ × ℝ) : ℝ := W.c1 * x.1 + W.c2 * x.2
/-- membership in the cone `{x | W x ≥ 0}` -/
def mem (x : ℝ × ℝ) : Prop := 0 ≤ W.f1 x ∧ 0 ≤ W.f2 x

/-- `‖w₁‖²` -/ def p : ℝ := W.a1 ^ 2 + W.a2 ^ 2
/-- `‖w₂‖²` -/ def q : ℝ := W.c1 ^ 2 + W.c2 ^ 2
/-- `w₁ · w₂` -/ def g : ℝ := W.a1 * W.c1 + W.a2 * W.c2
/-- `det W` -/ def det : ℝ := W.a1 * W.c2 - W.a2 * W.c1

theorem f1_add (x y : ℝ × ℝ) : W.f1 (x + y) = W.f1 x + W.f1 y := by simp [f1]; ring
theorem f2_add (x y : ℝ × ℝ) : W.f2 (x + y) = W.f2 x + W.f2 y := by simp [f2]; ring
theorem f1_sub (x y : ℝ × ℝ) : W.f1 (x - y) = W.f1 x - W.f1 y := by simp [f1]; ring
theorem f2_sub (x y : ℝ × ℝ) : W.f2 (x - y) = W.f2 x - W.f2 y := by simp [f2]; ring
theorem f1_smul (t : ℝ) (x : ℝ × ℝ) : W.f1 (t • x) = t * W.f1 x := by simp [f1]; ring
theorem f2_smul (t : ℝ) (x : ℝ × ℝ) : W.f2 (t • x) = t * W.f2 x := by simp [f2]; ring
theorem f1_neg (x : ℝ × ℝ) : W.f1 (-x) = - W.f1 x := by simp [f1]; ring
theorem f2_neg (x : ℝ × ℝ) : W.f2 (-x) = - W.f2 x := by simp [f2]; ring

theorem mem_add {x y : ℝ × ℝ} (hx : W.mem x) (hy : W.mem y) : W.mem (x + y) := by
  constructor
  · rw [f1_add]; exact add_nonneg hx.1 hy.1
  · rw [f2_add]; exact add_nonneg hx.2 hy.2

theorem mem_smul {t : ℝ} (ht : 0 ≤ t) {x : ℝ × ℝ} (hx : W.mem x) : W.mem (t • x) := by
  constructor
  · rw [f1_smul]; exact mul_nonneg ht hx.1
  · rw [f2_smul]; exact mul_nonneg ht hx.2

theorem mem_zero : W.mem 0 := by simp [mem, f1, f2]

/-- Lagrange identity: `det² = pq − g²` -/
theorem det_sq : W.det ^ 2 = W.p * W.q - W.g ^ 2 := by simp only [det, p, q, g]; ring

end Cone2

/-- the quadratic inequality behind the planar lemma, in facet coordinates -/
theorem quad_core (p q g b1 b2 B2 : ℝ) (hp : 0 ≤ p) (hq : 0 ≤ q) (hdet : 0 < p * q - g ^ 2)
    (hB1 : 1 ≤ B2) (hB : g < 0 → p * q ≤ B2 * (p * q - g ^ 2)) :
    q * (max 0 b1) ^ 2 - 2 * g * (max 0 b1) * (max 0 b2) + p * (max 0 b2) ^ 2
      ≤ B2 * (q * b1 ^ 2 - 2 * g * b1 * b2 + p * b2 ^ 2) := by
  have hp0 : 0 < p := by
    rcases hp.lt_or_eq with h | h
    · exact h
    · rw [← h] at hdet; nlinarith [sq_nonneg g]
  have hq0 : 0 < q := by
    rcases hq.lt_or_eq with h | h
    · exact h
    · rw [← h] at hdet; nlinarith [sq_nonneg g]
  -- the quadratic form is non-negative
  have hQ : 0 ≤ q * b1 ^ 2 - 2 * g * b1 * b2 + p * b2 ^ 2 := by
    have h1 : p * (q * b1 ^ 2 - 2 * g * b1 * b2 + p * b2 ^ 2)
        = (p * b2 - g * b1) ^ 2 + (p * q - g ^ 2) * b1 ^ 2 := by ring
    have h2 : 0 ≤ p * (q * b1 ^ 2 - 2 * g * b1 * b2 + p * b2 ^ 2) := by
      rw [h1]; positivity
    exact nonneg_of_mul_nonneg_right h2 hp0
  have hB0 : 0 ≤ B2 := by linarith
  rcases le_total 0 b1 with h1 | h1 <;> rcases le_total 0 b2 with h2 | h2
  · rw [max_eq_right h1, max_eq_right h2]; nlinarith
  · -- b1 ≥ 0 ≥ b2 : z has facet coordinates (b1, 0)
    rw [max_eq_right h1, max_eq_left h2]
    simp only [mul_zero, ne_eq, OfNat.ofNat_ne_zero, not_false_eq_true, zero_pow, sub_zero, add_zero]
    rcases le_or_gt 0 g with hg | hg
    · have : 0 ≤ -(2 * g * b1 * b2) := by
        have : 0 ≤ g * b1 * (-b2) := mul_nonneg (mul_nonneg hg h1) (by linarith)
        linarith
      have h3 : q * b1 ^ 2 ≤ q * b1 ^ 2 - 2 * g * b1 * b2 + p * b2 ^ 2 := by nlinarith [sq_nonneg b2]
      calc q * b1 ^ 2 ≤ q * b1 ^ 2 - 2 * g * b1 * b2 + p * b2 ^ 2 := h3
        _ ≤ B2 * (q * b1 ^ 2 - 2 * g * b1 * b2 + p * b2 ^ 2) := by nlinarith
    · have hB' := hB hg
      have key : q * b1 ^ 2 * (p * q - g ^ 2)
          ≤ p * q * (q * b1 ^ 2 - 2 * g * b1 * b2 + p * b2 ^ 2) := by
        have : p * q * (q * b1 ^ 2 - 2 * g * b1 * b2 + p * b2 ^ 2) - q * b1 ^ 2 * (p * q - g ^ 2)
            = q * (g * b1 - p * b2) ^ 2 := by ring
        nlinarith [mul_nonneg hq (sq_nonneg (g * b1 - p * b2))]
      have h4 : q * b1 ^ 2 * (p * q - g ^ 2)
          ≤ (B2 * (q * b1 ^ 2 - 2 * g * b1 * b2 + p * b2 ^ 2)) * (p * q - g ^ 2) := by
        calc q * b1 ^ 2 * (p * q - g ^ 2)
            ≤ p * q * (q * b1 ^ 2 - 2 * g * b1 * b2 + p * b2 ^ 2) := key
          _ ≤ (B2 * (p * q - g ^ 2)) * (q * b1 ^ 2 - 2 * g * b1 * b2 + p * b2 ^ 2) :=
              mul_le_mul_of_nonneg_right hB' hQ
          _ = _ := by ring
      exact le_of_mul_le_mul_right h4 hdet
  · -- b2 ≥ 0 ≥ b1 : symmetric
    rw [max_eq_left h1, max_eq_right h2]
    simp only [mul_zero, ne_eq, OfNat.ofNat_ne_zero, not_false_eq_true, zero_pow, zero_mul, sub_zero,
      zero_add]
    rcases le_or_gt 0 g with hg | hg
    · have : 0 ≤ -(2 * g * b1 * b2) := by
        have : 0 ≤ g * (-b1) * b2 := mul_nonneg (mul_nonneg hg (by linarith)) h2
        linarith
      have h3 : p * b2 ^ 2 ≤ q * b1 ^ 2 - 2 * g * b1 * b2 + p * b2 ^ 2 := by nlinarith [sq_nonneg b1]
      calc p * b2 ^ 2 ≤ q * b1 ^ 2 - 2 * g * b1 * b2 + p * b2 ^ 2 := h3
        _ ≤ B2 * (q * b1 ^ 2 - 2 * g * b1 * b2 + p * b2 ^ 2) := by nlinarith
    · have hB' := hB hg
      have key : p * b2 ^ 2 * (p * q - g ^ 2)
          ≤ p * q * (q * b1 ^ 2 - 2 * g * b1 * b2 + p * b2 ^ 2) := by
        have : p * q * (q * b1 ^ 2 - 2 * g * b1 * b2 + p * b2 ^ 2) - p * b2 ^ 2 * (p * q - g ^ 2)
            = p * (g * b2 - q * b1) ^ 2 := by ring
        nlinarith [mul_nonneg hp (sq_nonneg (g * b2 - q * b1))]
      have h4 : p * b2 ^ 2 * (p * q - g ^ 2)
          ≤ (B2 * (q * b1 ^ 2 - 2 * g * b1 * b2 + p * b2 ^ 2)) * (p * q - g ^ 2) := by
        calc p * b2 ^ 2 * (p * q - g ^ 2)
            ≤ p * q * (q * b1 ^ 2 - 2 * g * b1 * b2 + p * b2 ^ 2) := key
          _ ≤ (B2 * (p * q - g ^ 2)) * (q * b1 ^ 2 - 2 * g * b1 * b2 + p * b2 ^ 2) :=
              mul_le_mul_of_nonneg_right hB' hQ
          _ = _ := by ring
      exact le_of_mul_le_mul_right h4 hdet
  · rw [max_eq_left h1, max_eq_left h2]
    simp only [mul_zero, ne_eq, OfNat.ofNat_ne_zero, not_false_eq_true, zero_pow, sub_zero,
      add_zero]
    positivity

/-- **Planar lemma.**  Independent facet normals (`det ≠ 0`), `B2 ≥ 1`, and `B2 ≥ pq/(pq − g²)` when
the cone is acute (`g < 0`): every `e` is dominated by some `z ∈ C` (i.e. `z − e ∈ C`) with
`‖z‖² ≤ B2 ‖e‖²`. -/
theorem planar (W : Cone2) (hdet : W.det ≠ 0) (B2 : ℝ) (hB1 : 1 ≤ B2)
    (hB : W.g < 0 → W.p * W.q ≤ B2 * (W.p * W.q - W.g ^ 2)) (e : ℝ × ℝ) :
    ∃ z : ℝ × ℝ, W.mem z ∧ W.mem (z - e) ∧ nsq z ≤ B2 * nsq e := by
  set u := max 0 (W.f1 e) with hu
  set v := max 0 (W.f2 e) with hv
  have hD2 : 0 < W.det ^ 2 := by positivity
  have hpq : 0 < W.p * W.q - W.g ^ 2 := by rw [← W.det_sq]; exact hD2
  refine ⟨((W.c2 * u - W.a2 * v) / W.det, (-W.c1 * u + W.a1 * v) / W.det), ?_, ?_, ?_⟩
  · have e1 : W.f1 ((W.c2 * u - W.a2 * v) / W.det, (-W.c1 * u + W.a1 * v) / W.det) = u := by
      simp only [Cone2.f1]; field_simp; simp only [Cone2.det]; ring
    have e2 : W.f2 ((W.c2 * u - W.a2 * v) / W.det, (-W.c1 * u + W.a1 * v) / W.det) = v := by
      simp only [Cone2.f2]; field_simp; simp only [Cone2.det]; ring
    exact ⟨by rw [e1]; exact le_max_left _ _, by rw [e2]; exact le_max_left _ _⟩
  · have e1 : W.f1 ((W.c2 * u - W.a2 * v) / W.det, (-W.c1 * u + W.a1 * v) / W.det) = u := by
      simp only [Cone2.f1]; field_simp; simp only [Cone2.det]; ring
    have e2 : W.f2 ((W.c2 * u - W.a2 * v) / W.det, (-W.c1 * u + W.a1 * v) / W.det) = v := by
      simp only [Cone2.f2]; field_simp; simp only [Cone2.det]; ring
    constructor
    · rw [Cone2.f1_sub, e1]; have := le_max_right 0 (W.f1 e); linarith
    · rw [Cone2.f2_sub, e2]; have := le_max_right 0 (W.f2 e); linarith
  · have hz : nsq ((W.c2 * u - W.a2 * v) / W.det, (-W.c1 * u + W.a1 * v) / W.det) * W.det ^ 2
        = W.q * u ^ 2 - 2 * W.g * u * v + W.p * v ^ 2 := by
      simp only [nsq, Cone2.q, Cone2.g, Cone2.p]; field_simp; ring
    have he : nsq e * W.det ^ 2
        = W.q * (W.f1 e) ^ 2 - 2 * W.g * (W.f1 e) * (W.f2 e) + W.p * (W.f2 e) ^ 2 := by
      simp only [nsq, Cone2.q, Cone2.g, Cone2.p, Cone2.det, Cone2.f1, Cone2.f2]; ring
    have hcore := quad_core W.p W.q W.g (W.f1 e) (W.f2 e) B2
      (by simp only [Cone2.p]; positivity) (by simp only [Cone2.q]; positivity) hpq hB1 hB
    have : nsq ((W.c2 * u - W.a2 * v) / W.det, (-W.c1 * u + W.a1 * v) / W.det) * W.det ^ 2
        ≤ (B2 * nsq e) * W.det ^ 2 := by
      rw [hz, show B2 * nsq e * W.det ^ 2 = B2 * (nsq e * W.det ^ 2) by ring, he]; exact hcore
    exact le_of_mul_le_mul_right this hD2

/-- a direction of norm at most one strictly inside the cone, for independent facet normals -/
theorem exists_interior (W : Cone2) (hdet : W.det ≠ 0) :
    ∃ u0 : ℝ × ℝ, nsq u0 ≤ 1 ∧ 0 < W.f1 u0 ∧ 0 < W.f2 u0 := by
  set w : ℝ × ℝ := ((W.c2 - W.a2) / W.det, (-W.c1 + W.a1) / W.det) with hw
  have e1 : W.f1 w = 1 := by simp only [hw, Cone2.f1]; field_simp; simp only [Cone2.det]; ring
  have e2 : W.f2 w = 1 := by simp only [hw, Cone2.f2]; field_simp; simp only [Cone2.det]; ring
  have hn := nsq_nonneg w
  have hpos : 0 < 1 + nsq w := by linarith
  refine ⟨(1 + nsq w)⁻¹ • w, ?_, ?_, ?_⟩
  · have : nsq ((1 + nsq w)⁻¹ • w) = (1 + nsq w)⁻¹ ^ 2 * nsq w := by
      simp only [nsq, Prod.smul_fst, Prod.smul_snd, smul_eq_mul]; ring
    rw [this, inv_pow, inv_mul_le_iff₀ (by positivity)]
    nlinarith
  · rw [Cone2.f1_smul, e1]; simpa using hpos
  · rw [Cone2.f2_smul, e2]; simpa using hpos

end VOPy.Naive
